(* The inductive invariant of the joint controller model behind C01 (trial budget), C06 (permanence of trial
   verdicts) and C08 (append-only suggestions): definitions and basic lemmas. *)
From KV Require Import Base.Prelude Base.Cond Model.World Proofs.WorldPlan.
Open Scope Z_scope.

(* ------------------------------------------------------------------ vocabulary *)

Definition names (ts : list trial) : list nat := map t_name ts.
Definition completed_n (ts : list trial) : Z := Z.of_nat (length (filter t_completed ts)).

Definition max_le (a b : option Z) : Prop :=
  match a, b with None, None => True | Some x, Some y => x <= y | _, _ => False end.

(* a cached / earlier copy of a trial *)
Definition tle (t t' : trial) : Prop :=
  t_name t = t_name t' /\ (t_rv t <= t_rv t')%nat /\ (t_rv t = t_rv t' -> t = t') /\
  (forall k, In k terminal_types -> t_is t k = true -> t_is t' k = true).

Inductive tlag : list trial -> list trial -> Prop :=
| tlag_nil : forall w, tlag [] w
| tlag_cons : forall t t' c w, tle t t' -> tlag c w -> tlag (t :: c) (t' :: w).

Definition sle (s s' : sugobj) : Prop :=
  (s_rv s <= s_rv s')%nat /\ (s_rv s = s_rv s' -> s = s') /\ exists l, ss_names (s_st s') = ss_names (s_st s) ++ l.

Definition ele (e e' : expobj) : Prop :=
  (e_rv e <= e_rv e')%nat /\ (e_rv e = e_rv e' -> e = e') /\ max_le (e_max e) (e_max e').

Definition swf (s : sugobj) : Prop := ss_count (s_st s) = Z.of_nat (length (ss_names (s_st s))).

(* ------------------------------------------------------------------ lemmas on tle / tlag *)

Lemma tle_refl t : tle t t.
Proof. repeat split; auto. Qed.

Lemma tlag_refl ts : tlag ts ts.
Proof. induction ts; constructor; auto using tle_refl. Qed.

Lemma tlag_app c w x : tlag c w -> tlag c (w ++ x).
Proof. induction 1; cbn; constructor; auto. Qed.

Lemma completed_of_terminal t t' :
  (forall k, In k terminal_types -> t_is t k = true -> t_is t' k = true) -> t_completed t = true -> t_completed t' = true.
Proof.
  intros H. unfold t_completed. rewrite !orb_true_iff.
  intros [[[[C|C]|C]|C]|C]; [do 4 left|do 3 left; right|do 2 left; right|left; right|right]; apply H; auto; cbn; auto 6.
Qed.

Lemma tle_completed t t' : tle t t' -> t_completed t = true -> t_completed t' = true.
Proof. intros (_&_&_&H). now apply completed_of_terminal. Qed.

Lemma tlag_completed c w : tlag c w -> completed_n c <= completed_n w.
Proof.
  unfold completed_n. induction 1 as [w|t t' c w L _ IH]; cbn [filter].
  - cbn. lia.
  - destruct (t_completed t) eqn:C.
    + rewrite (tle_completed _ _ L C). cbn [length]. lia.
    + destruct (t_completed t'); cbn [length]; lia.
Qed.

Lemma tlag_length c w : tlag c w -> (length c <= length w)%nat.
Proof. induction 1; cbn; lia. Qed.

Lemma tlag_names_incl c w : tlag c w -> incl (names c) (names w).
Proof.
  induction 1 as [|t t' c w (N&_) _ IH]; cbn; [intros ? []|].
  intros x [<-|I]; [left; auto|right; auto].
Qed.

(* pointwise update of the store side *)
Lemma tlag_map c w f : (forall t, tle t (f t)) -> tlag c w -> tlag c (map f w).
Proof.
  intros Hf. induction 1 as [|t t' c w L _ IH]; cbn; constructor; auto.
  destruct L as (N&R&E&T). destruct (Hf t') as (N'&R'&E'&T').
  repeat split.
  - congruence.
  - lia.
  - intro Q. assert (t_rv t = t_rv t') by lia. assert (t_rv t' = t_rv (f t')) by lia.
    rewrite <- E'; auto.
  - intros k K H. apply T'; auto.
Qed.

(* ------------------------------------------------------------------ find / update *)

Lemma find_trial_none n ts : find_trial n ts = None <-> ~ In n (names ts).
Proof.
  unfold find_trial, names. induction ts as [|t ts IH]; cbn; [tauto|].
  destruct (Nat.eqb (t_name t) n) eqn:E.
  - apply Nat.eqb_eq in E. split; [discriminate|]. intro H. exfalso. apply H. now left.
  - apply Nat.eqb_neq in E. rewrite IH. tauto.
Qed.

Lemma find_trial_in n ts t : NoDup (names ts) -> In t ts -> t_name t = n -> find_trial n ts = Some t.
Proof.
  unfold find_trial, names. induction ts as [|a ts IH]; cbn; [tauto|]. intros ND [->|I] N.
  - subst. now rewrite Nat.eqb_refl.
  - inversion ND as [|? ? Hn Hr]; subst. destruct (Nat.eqb (t_name a) (t_name t)) eqn:E.
    + apply Nat.eqb_eq in E. exfalso. apply Hn. rewrite E. now apply in_map.
    + auto.
Qed.

Lemma upd_trial_names n f ts : (forall t, t_name (f t) = t_name t) -> names (upd_trial n f ts) = names ts.
Proof.
  intro H. unfold names, upd_trial. rewrite map_map. apply map_ext. intro t.
  destruct (Nat.eqb (t_name t) n); auto.
Qed.

Lemma upd_trial_length n f ts : length (upd_trial n f ts) = length ts.
Proof. unfold upd_trial. apply map_length. Qed.

Lemma find_upd_same n f ts t : (forall t, t_name (f t) = t_name t) ->
  find_trial n ts = Some t -> find_trial n (upd_trial n f ts) = Some (f t).
Proof.
  intro H. unfold find_trial, upd_trial. induction ts as [|a ts IH]; cbn; [discriminate|].
  destruct (Nat.eqb (t_name a) n) eqn:E.
  - intros [= ->]. rewrite H, E. reflexivity.
  - rewrite E. auto.
Qed.

Lemma find_upd_other n m f ts : (forall t, t_name (f t) = t_name t) -> n <> m ->
  find_trial m (upd_trial n f ts) = find_trial m ts.
Proof.
  intros H N. unfold find_trial, upd_trial. induction ts as [|a ts IH]; cbn; [reflexivity|].
  destruct (Nat.eqb (t_name a) n) eqn:E.
  - apply Nat.eqb_eq in E. rewrite H. destruct (Nat.eqb (t_name a) m) eqn:E'; [apply Nat.eqb_eq in E'; congruence|auto].
  - destruct (Nat.eqb (t_name a) m); auto.
Qed.

(* completed count under a pointwise update that keeps completed trials completed *)
Lemma completed_upd n f ts :
  (forall t, t_completed t = true -> t_completed (f t) = true) -> completed_n ts <= completed_n (upd_trial n f ts).
Proof.
  intro H. unfold completed_n, upd_trial. induction ts as [|a ts IH]; cbn; [lia|].
  destruct (Nat.eqb (t_name a) n).
  - destruct (t_completed a) eqn:C; [rewrite (H _ C); cbn [length]; lia|destruct (t_completed (f a)); cbn [length]; lia].
  - destruct (t_completed a); cbn [length]; lia.
Qed.

Lemma completed_app ts x : completed_n (ts ++ x) = completed_n ts + completed_n x.
Proof. unfold completed_n. rewrite filter_app, app_length. lia. Qed.

Lemma filter_len_le {A} (f : A -> bool) l : (length (filter f l) <= length l)%nat.
Proof. induction l as [|a l IH]; cbn; [lia|]. destruct (f a); cbn; lia. Qed.

Lemma completed_le_length ts : 0 <= completed_n ts <= Z.of_nat (length ts).
Proof. unfold completed_n. pose proof (filter_len_le t_completed ts). lia. Qed.

(* ------------------------------------------------------------------ counting classes *)

Lemma count_class_cons k n c l :
  count_class k ((n, c) :: l) = (if class_eqb c k then 1 else 0) + count_class k l.
Proof. unfold count_class. cbn [filter snd]. destruct (class_eqb c k); cbn [length]; lia. Qed.

(* the seven classes partition the list *)
Lemma classes_partition l :
  count_class KPending l + count_class KRunning l + (count_class KSucceeded l + count_class KFailed l +
    count_class KKilled l + count_class KEarlyStopped l + count_class KMetricsUnavailable l) = Z.of_nat (length l).
Proof.
  induction l as [|[n k] l IH]; [reflexivity|].
  rewrite !count_class_cons. cbn [length]. destruct k; cbn [class_eqb]; lia.
Qed.

Lemma classes_partition_counts l :
  n_pending (counts_of l) + n_running (counts_of l) + completed_count (counts_of l) = Z.of_nat (length l).
Proof. unfold completed_count, counts_of. cbn. apply classes_partition. Qed.

(* a trial counted in one of the five completed classes is completed *)
Lemma classify_completed t :
  match classify t with KPending | KRunning => True | _ => t_completed t = true end.
Proof.
  unfold classify, t_completed.
  destruct (t_is t TKilled) eqn:K; [rewrite ?orb_true_r; reflexivity|].
  destruct (t_is t TFailed) eqn:F; [rewrite ?orb_true_r; reflexivity|].
  destruct (t_is t TSucceeded) eqn:S; [reflexivity|].
  destruct (t_is t TEarlyStopped) eqn:E; [rewrite ?orb_true_r; reflexivity|].
  destruct (t_is t TRunning); [exact I|].
  destruct (t_is t TMetricsUnavailable) eqn:M; [rewrite ?orb_true_r; reflexivity|exact I].
Qed.

Lemma class_completed_le ts :
  completed_count (counts_of (map (fun t => (t_name t, classify t)) ts)) <= completed_n ts.
Proof.
  unfold completed_n, completed_count, counts_of. cbn [n_succeeded n_failed n_killed n_es n_mu].
  induction ts as [|t ts IH]; [cbn; lia|].
  cbn [map]. rewrite !count_class_cons. cbn [filter].
  pose proof (classify_completed t) as H.
  destruct (classify t); cbn [class_eqb]; try rewrite H; cbn [length]; try lia;
    destruct (t_completed t); cbn [length]; lia.
Qed.

(* ------------------------------------------------------------------ what the experiment controller can plan *)

Lemma plan_exp_completed_shape cf e sug ws st1 stop x :
  plan_exp_completed cf e sug = (ws, st1, stop) -> In x ws ->
  exists s cs', sug = Some s /\ x = (WSugStatus (s_with_conds (s_st s) cs') (s_rv s), Stop).
Proof.
  unfold plan_exp_completed. intros P I.
  destruct (e_completed (e_st e)); [|inversion P; subst; destruct I].
  set (cleanup := match c_resume cf, sug with
                  | LongRunning, _ | _, None => []
                  | _, Some s => if s_completed (s_st s) || s_restarting (s_st s) then []
                                 else [(WSugStatus (s_with_conds (s_st s) (smark_succeeded (ss_conds (s_st s)))) (s_rv s), Stop)]
                  end) in *.
  assert (C : In x cleanup -> exists s cs', sug = Some s /\ x = (WSugStatus (s_with_conds (s_st s) cs') (s_rv s), Stop)).
  { unfold cleanup. destruct (c_resume cf), sug as [s|]; try (intros []);
      (destruct (s_completed (s_st s) || s_restarting (s_st s)); [intros []|intros [<-|[]]; eauto]). }
  destruct (restartable cf (e_st e) && _).
  - inversion P; subst. apply in_app_or in I as [I|I]; [auto|].
    destruct (c_resume cf), sug as [s|]; try (destruct I; fail).
    destruct (s_restarting (s_st s)); [destruct I|]. destruct I as [<-|[]]. eauto.
  - inversion P; subst. auto.
Qed.

Lemma plan_exp_completed_counts cf e sug ws st1 stop :
  plan_exp_completed cf e sug = (ws, st1, stop) -> es_counts st1 = es_counts (e_st e).
Proof.
  unfold plan_exp_completed. destruct (e_completed (e_st e)); [|now intros [= <- <- <-]].
  destruct (restartable cf (e_st e) && _); now intros [= <- <- <-].
Qed.

Definition req_bound (ts : list trial) (cf : cfg) (mx : option Z) (r : Z) : Prop :=
  r <= completed_n ts + c_par cf /\ forall m, mx = Some m -> r <= m.

Lemma plan_exp_reconcile_shape w e st1 x :
  counts_nonneg (es_counts st1) -> In x (plan_exp_reconcile w e st1) ->
     (exists st, x = (WExpStatus st (e_rv e), Stop) /\ counts_nonneg (es_counts st))
  \/ x = (WDeleteTrials, Stop)
  \/ (exists r, req_bound (c_trials w) (w_cfg w) (e_max e) r /\
        ((c_sug w = None /\ x = (WSugCreate r, Stop)) \/
         (exists s, c_sug w = Some s /\ (x = (WSugSpec r (s_rv s), Stop) \/
                                        exists n, x = (WTrialCreate n, Cont) /\ In n (ss_names (s_st s))))))
  \/ (exists s, c_sug w = Some s /\ x = restart_write s /\ s_is (s_st s) SSucceeded = true /\ c_resume (w_cfg w) = FromVolume).
Proof.
  intros NN. unfold plan_exp_reconcile.
  set (ts := c_trials w).
  set (st2 := match ts with [] => st1 | _ => update_status (w_cfg w) (e_max e) (w_clock w) st1 ts end).
  assert (NN2 : counts_nonneg (es_counts st2)).
  { unfold st2. destruct ts; [exact NN|]. rewrite update_status_counts. apply counts_of_nonneg. }
  assert (Hlen : Z.of_nat (length ts) <= n_pending (es_counts st2) + n_running (es_counts st2) + completed_count (es_counts st2)
                 /\ (ts <> [] -> completed_count (es_counts st2) <= completed_n ts)).
  { unfold st2. destruct ts as [|t0 ts'] eqn:Ets.
    - cbn [length]. destruct NN as (?&?&?&?&?&?&?). unfold completed_count. split; [lia|congruence].
    - rewrite update_status_counts, classes_partition_counts, map_length. split; [lia|]. intros _. apply class_completed_le. }
  destruct Hlen as [Hlen Hcomp].
  destruct (e_completed st2).
  { intro H. apply in_status_write in H. left. eauto. }
  destruct (plan_trials (w_cfg w) (e_max e) st2 ts (c_sug w)) as [ws2 st3] eqn:PT.
  intro H. apply in_app_or in H as [H|H].
  - assert (H' : In x (fst (plan_trials (w_cfg w) (e_max e) st2 ts (c_sug w)))) by now rewrite PT.
    destruct NN2 as (?&?&?&?&?&?&?).
    apply plan_trials_shape in H'; [|assumption|lia|unfold completed_count; lia].
    destruct H' as [->|[(r&B1&B2&B3&H')|H']]; [right; now left| |do 3 right; exact H'].
    right. right. left. exists r. split; [|exact H'].
    split; [|exact B2].
    destruct ts as [|t0 ts'] eqn:Ets.
    + specialize (B3 eq_refl). unfold completed_n. cbn. lia.
    + assert (completed_count (es_counts st2) <= completed_n (t0 :: ts')) by (apply Hcomp; congruence). lia.
  - apply in_status_write in H. left. exists st3. split; [exact H|].
    assert (E : es_counts st3 = es_counts st2) by (change st3 with (snd (ws2, st3)); rewrite <- PT; apply plan_trials_counts).
    now rewrite E.
Qed.

Lemma plan_exp_shape w x :
  In x (plan_exp w) ->
  exists e, c_exp w = Some e /\
  (counts_nonneg (es_counts (e_st e)) ->
     (exists add, x = (WExpFin add (e_rv e), Stop))
  \/ (exists st, x = (WExpStatus st (e_rv e), Stop) /\ counts_nonneg (es_counts st))
  \/ (exists s cs', c_sug w = Some s /\ x = (WSugStatus (s_with_conds (s_st s) cs') (s_rv s), Stop))
  \/ x = (WDeleteTrials, Stop)
  \/ (exists r, req_bound (c_trials w) (w_cfg w) (e_max e) r /\
        ((c_sug w = None /\ x = (WSugCreate r, Stop)) \/
         (exists s, c_sug w = Some s /\ (x = (WSugSpec r (s_rv s), Stop) \/
                                        exists n, x = (WTrialCreate n, Cont) /\ In n (ss_names (s_st s))))))).
Proof.
  unfold plan_exp. destruct (c_exp w) as [e|]; [|intros []]. intro H. exists e. split; [reflexivity|]. intro NN.
  destruct (negb (e_deleting e) && negb (e_fin e)); [destruct H as [<-|[]]; left; eauto|].
  destruct (e_deleting e && e_fin e); [destruct H as [<-|[]]; left; eauto|].
  destruct (plan_exp_completed (w_cfg w) e (c_sug w)) as [[ws1 st1] stop] eqn:PC.
  assert (C1 : In x ws1 -> exists s cs', c_sug w = Some s /\ x = (WSugStatus (s_with_conds (s_st s) cs') (s_rv s), Stop))
    by (apply (plan_exp_completed_shape _ _ _ _ _ _ _ PC)).
  assert (NN1 : counts_nonneg (es_counts st1)) by (rewrite (plan_exp_completed_counts _ _ _ _ _ _ PC); exact NN).
  destruct stop; [do 2 right; left; auto|].
  destruct (negb (e_is st1 ECreated)).
  - apply in_app_or in H as [H|H]; [do 2 right; left; auto|].
    apply in_status_write in H. right. left. eexists. split; [exact H|]. exact NN1.
  - apply in_app_or in H as [H|H]; [do 2 right; left; auto|].
    apply plan_exp_reconcile_shape in H; [|exact NN1].
    destruct H as [H|[H|[H|(s&Hs&->&_)]]]; [right; left; exact H|do 3 right; left; exact H|do 4 right; exact H|].
    right. right. left. exists s. eexists. split; [exact Hs|reflexivity].
Qed.

(* ------------------------------------------------------------------ what the suggestion controller can plan *)

Lemma in_sstatus_write s st x : In x (sstatus_write s st) -> x = (WSugStatus st (s_rv s), Stop).
Proof. unfold sstatus_write. destruct (sstatus_eqb _ _); [intros []|intros [<-|[]]; reflexivity]. Qed.

Lemma in_sstatus_write_conds s cs x :
  In x (sstatus_write_conds s cs) -> x = (WSugStatus (s_with_conds (s_st s) cs) (s_rv s), Stop).
Proof. unfold sstatus_write_conds. destruct (conds_eqb _ _); [intros []|intros [<-|[]]; reflexivity]. Qed.

Lemma in_infra_creates cf i x : In x (infra_creates cf i) -> exists k, x = (WInfraCreate k, Stop).
Proof.
  unfold infra_creates. intro H.
  repeat (apply in_app_or in H as [H|H]);
    repeat match type of H with
           | In _ (match ?c with _ => _ end) => destruct c
           | In _ (if ?c then _ else _) => destruct c
           | In _ (_ ++ _) => apply in_app_or in H as [H|H]
           end; try (destruct H as [<-|[]]; eauto); try (destruct H; fail).
Qed.

(* a status write of the suggestion controller either keeps names, count and settings (only conditions change),
   or appends exactly requests - count names taken from the one reply of this reconcile *)
Definition sug_status_shape (s : sugobj) (resp : sresp) (st : sstatus) : Prop :=
  (ss_names st = ss_names (s_st s) /\ ss_count st = ss_count (s_st s) /\ ss_settings st = ss_settings (s_st s))
  \/ (exists names sett, r_reply resp = ReplyOk names sett /\
        Z.of_nat (length names) = s_requests s - ss_count (s_st s) /\ 0 < s_requests s - ss_count (s_st s) /\
        ss_names st = ss_names (s_st s) ++ names /\ ss_count st = Z.of_nat (length (ss_names st))).

Lemma plan_sug_shape w resp x :
  In x (fst (plan_sug w resp)) ->
  exists s, c_sug w = Some s /\
    ((exists k, x = (WInfraCreate k, Stop) \/ x = (WInfraDelete k, Stop))
     \/ exists st, x = (WSugStatus st (s_rv s), Stop) /\ sug_status_shape s resp st).
Proof.
  unfold plan_sug. destruct (c_sug w) as [s|]; [|intros []]. intro H. exists s. split; [reflexivity|].
  assert (K : forall cs, sug_status_shape s resp (s_with_conds (s_st s) cs)) by (intro cs; left; auto).
  assert (W : forall cs y, In y (sstatus_write s (s_with_conds (s_st s) cs)) ->
              exists st, y = (WSugStatus st (s_rv s), Stop) /\ sug_status_shape s resp st).
  { intros cs y I. apply in_sstatus_write in I. eauto. }
  assert (WC : forall cs y, In y (sstatus_write_conds s cs) ->
              exists st, y = (WSugStatus st (s_rv s), Stop) /\ sug_status_shape s resp st).
  { intros cs y I. apply in_sstatus_write_conds in I. eauto. }
  assert (IC : forall y, In y (infra_creates (w_cfg w) (w_infra w)) -> exists k, y = (WInfraCreate k, Stop) \/ y = (WInfraDelete k, Stop)).
  { intros y I. apply in_infra_creates in I as (k&->). eauto. }
  destruct (s_is (s_st s) SSucceeded).
  { cbn [fst] in H. left. apply in_app_or in H as [H|H].
    - destruct (i_dep (w_infra w)); [destruct H as [<-|[]]; eauto|destruct H].
    - destruct (i_svc (w_infra w)); [destruct H as [<-|[]]; eauto|destruct H]. }
  destruct (negb (s_is (s_st s) SCreated)); [cbn [fst] in H; right; eapply W; eauto|].
  destruct (i_dep (w_infra w)) as [[|]|].
  2,3: cbn [fst] in H; apply in_app_or in H as [H|H]; [left; auto|right; eapply W; eauto].
  destruct (c_exp w); [|cbn [fst] in H; apply in_app_or in H as [H|H]; [left; auto|right; eapply WC; eauto]].
  set (cs1 := set_cond (ss_conds (s_st s)) SDeploymentReady CTrue RDeploymentReady) in *.
  destruct (if has_cond cs1 SRunning then (cs1, [], false)
            else if negb (r_valid resp) then (smark_failed cs1, [RpcValidate], true)
            else if c_es (w_cfg w) && negb (r_esvalid resp) then (smark_failed cs1, [RpcValidate; RpcValidateES], true)
            else (smark_running cs1 CTrue RRunning, if c_es (w_cfg w) then [RpcValidate; RpcValidateES] else [RpcValidate], false))
    as [[cs2 rpcs1] failed].
  destruct failed; [cbn [fst] in H; apply in_app_or in H as [H|H]; [left; auto|right; eapply W; eauto]|].
  destruct (s_requests s - ss_count (s_st s) <=? 0) eqn:En;
    [cbn [fst] in H; apply in_app_or in H as [H|H]; [left; auto|right; eapply W; eauto]|].
  apply Z.leb_gt in En.
  destruct (r_reply resp) as [|names sett] eqn:R;
    [cbn [fst] in H; apply in_app_or in H as [H|H]; [left; auto|right; eapply WC; eauto]|].
  destruct (negb (Z.of_nat (length names) =? s_requests s - ss_count (s_st s))) eqn:El;
    [cbn [fst] in H; apply in_app_or in H as [H|H]; [left; auto|right; eapply WC; eauto]|].
  apply negb_false_iff, Z.eqb_eq in El.
  destruct (c_es (w_cfg w) && negb (r_esrules resp));
    [cbn [fst] in H; apply in_app_or in H as [H|H]; [left; auto|right; eapply WC; eauto]|].
  cbn [fst] in H. apply in_app_or in H as [H|H]; [left; auto|].
  apply in_sstatus_write in H. right. eexists. split; [exact H|].
  right. exists names, sett. cbn. repeat split; auto.
Qed.

(* ------------------------------------------------------------------ C09: the numbers and trials of an algorithm request *)

Lemma plan_sug_rpcs w resp r :
  In r (snd (plan_sug w resp)) ->
  r = RpcValidate \/ r = RpcValidateES \/
  exists s, c_sug w = Some s /\ 0 < s_requests s - ss_count (s_st s) /\
    (r = RpcGetSuggestions (s_requests s - ss_count (s_st s)) (s_requests s) (convert_filter (c_trials w))
     \/ (r = RpcGetESRules (convert_filter (c_trials w)) /\ c_es (w_cfg w) = true)).
Proof.
  unfold plan_sug. destruct (c_sug w) as [s|]; [|intros []].
  destruct (s_is (s_st s) SSucceeded); [intros []|].
  destruct (negb (s_is (s_st s) SCreated)); [intros []|].
  destruct (i_dep (w_infra w)) as [[|]|]; try (intros []; fail).
  destruct (c_exp w); [|intros []].
  set (cs1 := set_cond (ss_conds (s_st s)) SDeploymentReady CTrue RDeploymentReady).
  assert (V : forall cs2 rpcs1 failed,
    (if has_cond cs1 SRunning then (cs1, [], false)
     else if negb (r_valid resp) then (smark_failed cs1, [RpcValidate], true)
     else if c_es (w_cfg w) && negb (r_esvalid resp) then (smark_failed cs1, [RpcValidate; RpcValidateES], true)
     else (smark_running cs1 CTrue RRunning, if c_es (w_cfg w) then [RpcValidate; RpcValidateES] else [RpcValidate], false))
    = (cs2, rpcs1, failed) -> forall x, In x rpcs1 -> x = RpcValidate \/ x = RpcValidateES).
  { intros cs2 rpcs1 failed H x Hx.
    repeat match type of H with context [if ?c then _ else _] => destruct c end; inversion H; subst; cbn in Hx; intuition. }
  destruct (if has_cond cs1 SRunning then _ else _) as [[cs2 rpcs1] failed] eqn:EV.
  specialize (V _ _ _ eq_refl).
  assert (V' : forall x, In x rpcs1 -> x = RpcValidate \/ x = RpcValidateES \/
     exists s0, Some s = Some s0 /\ 0 < s_requests s0 - ss_count (s_st s0) /\
       (x = RpcGetSuggestions (s_requests s0 - ss_count (s_st s0)) (s_requests s0) (convert_filter (c_trials w))
        \/ (x = RpcGetESRules (convert_filter (c_trials w)) /\ c_es (w_cfg w) = true))).
  { intros x Hx. destruct (V x Hx); auto. }
  destruct failed; [cbn [snd]; auto|].
  destruct (s_requests s - ss_count (s_st s) <=? 0) eqn:En; [cbn [snd]; auto|]. apply Z.leb_gt in En.
  assert (G : forall x, In x (rpcs1 ++ [RpcGetSuggestions (s_requests s - ss_count (s_st s)) (s_requests s) (convert_filter (c_trials w))]) ->
     x = RpcValidate \/ x = RpcValidateES \/
     exists s0, Some s = Some s0 /\ 0 < s_requests s0 - ss_count (s_st s0) /\
       (x = RpcGetSuggestions (s_requests s0 - ss_count (s_st s0)) (s_requests s0) (convert_filter (c_trials w))
        \/ (x = RpcGetESRules (convert_filter (c_trials w)) /\ c_es (w_cfg w) = true))).
  { intros x Hx. apply in_app_or in Hx as [Hx|[<-|[]]]; [auto|]. right. right. exists s. auto. }
  assert (G2 : c_es (w_cfg w) = true -> forall x,
     In x ((rpcs1 ++ [RpcGetSuggestions (s_requests s - ss_count (s_st s)) (s_requests s) (convert_filter (c_trials w))]) ++ [RpcGetESRules (convert_filter (c_trials w))]) ->
     x = RpcValidate \/ x = RpcValidateES \/
     exists s0, Some s = Some s0 /\ 0 < s_requests s0 - ss_count (s_st s0) /\
       (x = RpcGetSuggestions (s_requests s0 - ss_count (s_st s0)) (s_requests s0) (convert_filter (c_trials w))
        \/ (x = RpcGetESRules (convert_filter (c_trials w)) /\ c_es (w_cfg w) = true))).
  { intros Es x Hx. apply in_app_or in Hx as [Hx|[<-|[]]]; [auto|]. right. right. exists s. auto. }
  destruct (r_reply resp) as [|nm sett]; [cbn [snd]; auto|].
  destruct (negb (Z.of_nat (length nm) =? s_requests s - ss_count (s_st s))); [cbn [snd]; auto|].
  destruct (c_es (w_cfg w)) eqn:Es.
  - destruct (negb (r_esrules resp)); cbn [andb snd]; auto.
  - cbn [andb snd]. auto.
Qed.
