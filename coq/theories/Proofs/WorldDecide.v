(* The verdict UpdateExperimentStatus gives from a trial list, as a function of that list, and its monotonicity: once the
   trials justify a verdict they justify it for every later version of the list. *)
From KV Require Import Base.Prelude Base.Cond Model.World Proofs.WorldPlan Proofs.WorldInv Proofs.WorldSucc Proofs.WorldTrials
  Proofs.WorldObs Proofs.WorldStab Proofs.WorldCalm.
Open Scope Z_scope.

Definition meets (mn : bool) (g v : Z) : bool := if mn then v <=? g else g <=? v.

Definition goal_hit (mn : bool) (goal : option Z) (ts : list trial) : bool :=
  match goal with
  | None => false
  | Some g => existsb (fun t => match objective t with Some v => meets mn g v | None => false end) ts
  end.

Lemma scan_reached_gen mn goal ts : forall best r,
  snd (scan_best mn goal ts best r) =
  r || match goal with
       | None => false
       | Some g => existsb (fun t => match objective t with Some v => meets mn g v | None => false end) ts
                   || (existsb (fun t => match objective t with Some _ => true | None => false end) ts
                       && match best with Some (_, bv) => meets mn g bv | None => false end)
       end.
Proof.
  induction ts as [|t ts IH]; intros best r; cbn [scan_best existsb].
  - cbn. destruct goal; now rewrite ?orb_false_r.
  - destruct (objective t) as [v|] eqn:O; [|rewrite IH; reflexivity].
    rewrite IH. destruct goal as [g|]; [|reflexivity].
    cbn [orb andb]. unfold meets.
    destruct best as [[bt bv]|]; cbn [snd].
    + destruct mn.
      * destruct (v <? bv) eqn:L; cbn [snd].
        -- apply Z.ltb_lt in L. destruct (v <=? g) eqn:A; destruct (bv <=? g) eqn:B; destruct r;
             cbn; rewrite ?orb_true_r, ?andb_true_r, ?orb_false_r, ?andb_false_r; try reflexivity;
             try (apply Z.leb_le in B; apply Z.leb_gt in A; lia).
           all: destruct (existsb _ ts), (existsb _ ts); reflexivity.
        -- apply Z.ltb_ge in L. destruct (v <=? g) eqn:A; destruct (bv <=? g) eqn:B; destruct r;
             cbn; rewrite ?orb_true_r, ?andb_true_r, ?orb_false_r, ?andb_false_r; try reflexivity;
             try (apply Z.leb_le in A; apply Z.leb_gt in B; lia).
           all: destruct (existsb _ ts), (existsb _ ts); reflexivity.
      * destruct (bv <? v) eqn:L; cbn [snd].
        -- apply Z.ltb_lt in L. destruct (g <=? v) eqn:A; destruct (g <=? bv) eqn:B; destruct r;
             cbn; rewrite ?orb_true_r, ?andb_true_r, ?orb_false_r, ?andb_false_r; try reflexivity;
             try (apply Z.leb_le in B; apply Z.leb_gt in A; lia).
           all: destruct (existsb _ ts), (existsb _ ts); reflexivity.
        -- apply Z.ltb_ge in L. destruct (g <=? v) eqn:A; destruct (g <=? bv) eqn:B; destruct r;
             cbn; rewrite ?orb_true_r, ?andb_true_r, ?orb_false_r, ?andb_false_r; try reflexivity;
             try (apply Z.leb_le in A; apply Z.leb_gt in B; lia).
           all: destruct (existsb _ ts), (existsb _ ts); reflexivity.
    + cbn [snd]. destruct mn; (destruct (_ <=? _); destruct r; cbn; rewrite ?orb_true_r, ?andb_true_r, ?orb_false_r, ?andb_false_r; try reflexivity;
        destruct (existsb _ ts), (existsb _ ts); reflexivity).
Qed.

Lemma scan_reached mn goal ts : snd (scan_best mn goal ts None false) = goal_hit mn goal ts.
Proof.
  rewrite scan_reached_gen. unfold goal_hit. cbn [orb]. destruct goal; [|reflexivity]. now rewrite andb_false_r, orb_false_r.
Qed.

(* ------------------------------------------------------------------ the decision as a function of the trial list *)

Definition cls (ts : list trial) : list (nat * class) := map (fun t => (t_name t, classify t)) ts.

Definition tdec (cf : cfg) (mx : option Z) (ts : list trial) : bool :=
  let c := counts_of (cls ts) in
  goal_hit (c_minimize cf) (c_goal cf) ts
  || match c_maxfailed cf with Some f => negb (n_failed c + n_mu c =? 0) && (f <=? n_failed c + n_mu c) | None => false end
  || match mx with Some m => m <=? completed_count c | None => false end.

Lemma e_completed_verdict cs k r : k = ESucceeded \/ k = EFailed -> e_completed {| es_conds := emark_verdict cs k r; es_counts := Build_counts 0 0 0 0 0 0 0 0;
    es_classes := []; es_opt := None; es_ctime := None |} = true.
Proof.
  intros [-> | ->]; unfold e_completed, e_is, emark_verdict, mark; cbn [es_conds]; rewrite !has_set; cbn; now rewrite ?orb_true_r.
Qed.

Lemma update_status_completed cf mx now st ts :
  e_completed st = false -> e_completed (update_status cf mx now st ts) = tdec cf mx ts.
Proof.
  intro NC. unfold update_status, tdec. fold (cls ts).
  pose proof (scan_reached (c_minimize cf) (c_goal cf) ts) as SR.
  destruct (scan_best (c_minimize cf) (c_goal cf) ts None false) as [best reached]. cbn [snd] in SR. subst reached.
  match goal with |- context [if ?c then _ else _] => assert (E : c = false) by exact NC; rewrite E end.
  unfold update_condition. cbn [es_counts es_conds].
  destruct (goal_hit _ _ ts).
  { cbn [orb]. unfold e_completed, e_is, emark_verdict, mark. cbn [es_conds]. rewrite !has_set. reflexivity. }
  cbn [orb].
  match goal with |- context [if ?c then _ else _] => destruct c end.
  { cbn [orb]. unfold e_completed, e_is, emark_verdict, mark. cbn [es_conds]. rewrite !has_set. cbn. now rewrite orb_true_r. }
  cbn [orb].
  match goal with |- context [if ?c then _ else _] => destruct c end.
  { unfold e_completed, e_is, emark_verdict, mark. cbn [es_conds]. rewrite !has_set. reflexivity. }
  unfold e_completed, e_is, mark in *. cbn [es_conds]. rewrite !has_set. cbn. exact NC.
Qed.

(* ------------------------------------------------------------------ monotonicity *)

Definition cclass_completed (k : class) : bool :=
  match k with KKilled | KFailed | KSucceeded | KEarlyStopped | KMetricsUnavailable => true | _ => false end.

Lemma classify_completed_class t : cclass_completed (classify t) = true -> t_completed t = true.
Proof. intro H. pose proof (classify_completed t) as K. destruct (classify t); try discriminate; exact K. Qed.

Lemma count_class_mono k ts ts' :
  cclass_completed k = true -> plag tst ts ts' -> count_class k (cls ts) <= count_class k (cls ts').
Proof.
  intros Hk P. unfold count_class, cls.
  induction P as [l|t t' l l' (N&O&K) P IH]; [cbn; lia|].
  cbn [map filter snd]. destruct (class_eqb (classify t) k) eqn:E.
  - assert (Ck : classify t = k) by (destruct (classify t), k; try discriminate; reflexivity).
    assert (C : t_completed t = true) by (apply classify_completed_class; now rewrite Ck).
    destruct (K C) as [_ E']. rewrite E', E. cbn [length]. lia.
  - destruct (class_eqb (classify t') k); cbn [length]; lia.
Qed.

Lemma goal_hit_mono mn goal ts ts' : plag tst ts ts' -> goal_hit mn goal ts = true -> goal_hit mn goal ts' = true.
Proof.
  intros P H. unfold goal_hit in *. destruct goal as [g|]; [|discriminate].
  apply existsb_exists in H as (t&It&Ht). destruct (objective t) as [v|] eqn:O; [|discriminate].
  destruct (plag_in _ _ _ _ P It) as (t'&It'&(_&Ob&_)).
  apply existsb_exists. exists t'. split; [exact It'|]. now rewrite (Ob v O).
Qed.

Theorem tdec_mono cf mx ts ts' : plag tst ts ts' -> tdec cf mx ts = true -> tdec cf mx ts' = true.
Proof.
  intros P H. unfold tdec in *.
  pose proof (count_class_mono KFailed _ _ eq_refl P) as MF.
  pose proof (count_class_mono KMetricsUnavailable _ _ eq_refl P) as MM.
  pose proof (count_class_mono KSucceeded _ _ eq_refl P) as MS.
  pose proof (count_class_mono KKilled _ _ eq_refl P) as MK.
  pose proof (count_class_mono KEarlyStopped _ _ eq_refl P) as ME.
  pose proof (count_class_nonneg KFailed (cls ts)) as NF. pose proof (count_class_nonneg KMetricsUnavailable (cls ts)) as NM.
  apply orb_true_iff in H as [H|H]; [apply orb_true_iff in H as [H|H]|].
  - rewrite (goal_hit_mono _ _ _ _ P H). reflexivity.
  - apply orb_true_iff. left. apply orb_true_iff. right.
    destruct (c_maxfailed cf) as [f|]; [|discriminate]. unfold counts_of in *. cbn [n_failed n_mu] in *.
    apply andb_true_iff in H as [H1 H2]. apply negb_true_iff in H1. apply Z.eqb_neq in H1. apply Z.leb_le in H2.
    apply andb_true_iff. split; [apply negb_true_iff; apply Z.eqb_neq; lia|apply Z.leb_le; lia].
  - apply orb_true_iff. right. destruct mx as [m|]; [|discriminate]. apply Z.leb_le in H. apply Z.leb_le.
    unfold completed_count, counts_of in *. cbn [n_succeeded n_failed n_killed n_es n_mu] in *. lia.
Qed.

(* a smaller maxTrialCount is reached earlier *)
Lemma tdec_max_le cf mx mx' ts : max_le mx' mx -> tdec cf mx ts = true -> tdec cf mx' ts = true.
Proof.
  intros L H. unfold tdec in *. apply orb_true_iff in H as [H|H]; [now rewrite H|].
  apply orb_true_iff. right. destruct mx as [m|]; [|discriminate]. destruct mx' as [m'|]; [|destruct L]. cbn in L.
  apply Z.leb_le in H. apply Z.leb_le. lia.
Qed.
