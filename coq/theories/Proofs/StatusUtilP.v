(* Lemmas about Model/StatusUtil.v: classification and partition (C05), running optimum and goal flag (C05, C03),
   verdict decision and exclusivity (C03). *)
From KV Require Import Base.Prelude Base.Cond Base.Subseq Model.StatusUtil Model.StatusSpec.
From Coq Require Import Permutation.
Open Scope Z_scope.

(* ------------------------------------------------------------------------------------------------------------ *)
(* classification                                                                                                 *)

Lemma tclass_eqb_spec a b : tclass_eqb a b = true <-> a = b.
Proof. destruct a, b; simpl; split; congruence. Qed.

Lemma tclass_eqb_refl a : tclass_eqb a a = true.
Proof. now destruct a. Qed.

(* the if/else chain = the precedence formula *)
Lemma classify_in_class t k : tclass_eqb (classify t) k = in_class k t.
Proof.
  unfold classify, in_class.
  destruct (is_killed t), (is_failed t), (is_succeeded t), (is_early_stopped t), (is_running t),
    (is_metrics_unavailable t), k; reflexivity.
Qed.

Lemma classify_iff t k : classify t = k <-> in_class k t = true.
Proof. rewrite <- classify_in_class. symmetry. apply tclass_eqb_spec. Qed.

Lemma in_class_exclusive t k k' : in_class k t = true -> in_class k' t = true -> k = k'.
Proof. rewrite <- !classify_iff. congruence. Qed.

Lemma in_class_total t : exists k, in_class k t = true.
Proof. exists (classify t). now apply classify_iff. Qed.

Lemma all_classes_complete k : In k all_classes.
Proof. destruct k; simpl; tauto. Qed.

Lemma all_classes_nodup : NoDup all_classes.
Proof. unfold all_classes. repeat constructor; simpl; intuition discriminate. Qed.

(* ------------------------------------------------------------------------------------------------------------ *)
(* the loop: lists and counters                                                                                   *)

Definition names_of (k : tclass) (ts : list trial) : list nat := map t_name (filter (in_class k) ts).

Definition l_list (k : tclass) (s : loop) : list nat :=
  match k with
  | KKilled => l_killed s | KFailed => l_failed s | KSucceeded => l_succeeded s
  | KEarlyStopped => l_early_stopped s | KRunning => l_running s
  | KMetricsUnavailable => l_metrics_unavailable s | KPending => l_pending s
  end.

Fixpoint run_best (spec : espec) (b : best) (index : nat) (ts : list trial) : best :=
  match ts with
  | [] => b
  | t :: r => run_best spec (best_step spec b index t) (S index) r
  end.

Lemma step_list spec s i t k :
  l_list k (loop_step spec s i t) = l_list k s ++ (if in_class k t then [t_name t] else []).
Proof.
  rewrite <- classify_in_class. unfold loop_step, app_if.
  destruct k; simpl; destruct (classify t); simpl; now rewrite ?app_nil_r.
Qed.

Lemma run_loop_list spec ts : forall s i k, l_list k (run_loop spec s i ts) = l_list k s ++ names_of k ts.
Proof.
  induction ts as [|t r IH]; intros s i k; simpl; [now rewrite app_nil_r|].
  rewrite IH, step_list, <- app_assoc. f_equal. unfold names_of. simpl.
  destruct (in_class k t); reflexivity.
Qed.

Lemma run_loop_trials spec ts : forall s i, l_trials (run_loop spec s i ts) = l_trials s + zlen ts.
Proof.
  induction ts as [|t r IH]; intros s i; simpl; [unfold zlen; simpl; lia|].
  rewrite IH. unfold zlen. simpl length. cbn [loop_step l_trials]. lia.
Qed.

Lemma run_loop_best spec ts : forall s i, l_best (run_loop spec s i ts) = run_best spec (l_best s) i ts.
Proof. induction ts as [|t r IH]; intros s i; simpl; [reflexivity|]. now rewrite IH. Qed.

Definition summary (spec : espec) (st : estatus) (ts : list trial) : estatus := fst (update_trials_summary spec st ts).

Lemma summary_list spec st ts k : list_of k (summary spec st ts) = names_of k ts.
Proof.
  pose proof (run_loop_list spec ts loop_init 0%nat k) as H. simpl in H.
  destruct k; exact H.
Qed.

Lemma summary_counter spec st ts k : counter_of k (summary spec st ts) = zlen (list_of k (summary spec st ts)).
Proof. destruct k; reflexivity. Qed.

Lemma summary_trials spec st ts : e_trials (summary spec st ts) = zlen ts.
Proof. unfold summary. simpl. now rewrite run_loop_trials. Qed.

Lemma summary_conds spec st ts : e_conds (summary spec st ts) = e_conds st.
Proof. reflexivity. Qed.

Lemma summary_completion spec st ts : e_completion (summary spec st ts) = e_completion st.
Proof. reflexivity. Qed.

Lemma summary_goal spec st ts : snd (update_trials_summary spec st ts) = goal_reached spec ts.
Proof. reflexivity. Qed.

Lemma summary_optimal spec st ts :
  e_optimal (summary spec st ts) = new_optimal (e_optimal st) (run_best spec best_init 0%nat ts) ts.
Proof. unfold summary. simpl. now rewrite run_loop_best. Qed.

Lemma goal_reached_run_best spec ts : goal_reached spec ts = b_goal (run_best spec best_init 0%nat ts).
Proof. unfold goal_reached. now rewrite run_loop_best. Qed.

Lemma counter_count spec st ts k : counter_of k (summary spec st ts) = count_in_class k ts.
Proof. rewrite summary_counter, summary_list. unfold names_of, count_in_class, zlen. now rewrite map_length. Qed.

(* ------------------------------------------------------------------------------------------------------------ *)
(* partition                                                                                                      *)

Lemma flat_map_names ks ts :
  flat_map (fun k => names_of k ts) ks = map t_name (flat_map (fun k => filter (in_class k) ts) ks).
Proof. induction ks as [|k ks IH]; simpl; [reflexivity|]. now rewrite map_app, IH. Qed.

Lemma partition_names ts : Permutation (flat_map (fun k => names_of k ts) all_classes) (map t_name ts).
Proof.
  rewrite flat_map_names. apply Permutation_map.
  assert (E : forall k, filter (in_class k) ts = filter (fun t => tclass_eqb (classify t) k) ts).
  { intro k. apply filter_ext. intro t. now rewrite classify_in_class. }
  erewrite flat_map_ext by (intro k; apply E).
  eapply Permutation_trans; [apply (partition_perm tclass_eqb classify all_classes ts tclass_eqb_spec all_classes_nodup)|].
  rewrite filter_all; [apply Permutation_refl|].
  intros t _. apply existsb_exists. exists (classify t). split; [apply all_classes_complete|apply tclass_eqb_refl].
Qed.

Lemma summary_partition spec st ts : Permutation (all_lists (summary spec st ts)) (map t_name ts).
Proof.
  unfold all_lists. erewrite flat_map_ext by (intro k; apply summary_list). apply partition_names.
Qed.

Lemma summary_subseq spec st ts k : subseq (list_of k (summary spec st ts)) (map t_name ts).
Proof. rewrite summary_list. unfold names_of. apply subseq_map, subseq_filter. Qed.

Lemma summary_member spec st ts k n :
  In n (list_of k (summary spec st ts)) <-> exists t, In t ts /\ t_name t = n /\ classify t = k.
Proof.
  rewrite summary_list. unfold names_of. rewrite in_map_iff. split.
  - intros (t&E&I). apply filter_In in I as [I C]. exists t. repeat split; auto. now apply classify_iff.
  - intros (t&I&E&C). exists t. split; [assumption|]. apply filter_In. split; [assumption|]. now apply classify_iff.
Qed.

Lemma summary_member_nodup spec st ts k t :
  NoDup (map t_name ts) -> In t ts -> (In (t_name t) (list_of k (summary spec st ts)) <-> classify t = k).
Proof.
  intros N I. rewrite summary_member. split.
  - intros (t'&I'&E&C). now rewrite <- (NoDup_map_inj t_name ts t' t N I' I E).
  - intro C. exists t. auto.
Qed.

Lemma zlen_app {A} (a b : list A) : zlen (a ++ b) = zlen a + zlen b.
Proof. unfold zlen. rewrite app_length. lia. Qed.

Lemma counters_sum spec st ts ks :
  fold_right Z.add 0 (map (fun k => counter_of k (summary spec st ts)) ks) =
  zlen (flat_map (fun k => list_of k (summary spec st ts)) ks).
Proof.
  induction ks as [|k ks IH]; [reflexivity|].
  cbn [map fold_right flat_map]. rewrite IH, zlen_app, summary_counter. reflexivity.
Qed.

Lemma summary_sum spec st ts :
  e_trials (summary spec st ts) = fold_right Z.add 0 (map (fun k => counter_of k (summary spec st ts)) all_classes).
Proof.
  rewrite summary_trials, counters_sum. fold (all_lists (summary spec st ts)).
  pose proof (Permutation_length (summary_partition spec st ts)) as L. rewrite map_length in L.
  unfold zlen. now rewrite L.
Qed.

(* ------------------------------------------------------------------------------------------------------------ *)
(* the running optimum and the goal flag                                                                          *)

Lemma numeric_values_app a b : numeric_values (a ++ b) = numeric_values a ++ numeric_values b.
Proof. unfold numeric_values. apply flat_map_app. Qed.

Lemma numeric_values_in ts v : In v (numeric_values ts) <-> exists t, In t ts /\ numeric_value t = Some v.
Proof.
  unfold numeric_values. rewrite in_flat_map. split; intros (t&I&H); exists t; split; auto.
  - destruct (numeric_value t); simpl in H; [destruct H as [->|[]]; reflexivity|contradiction].
  - rewrite H. now left.
Qed.

Lemma nth_numeric ts j t v : nth_error ts j = Some t -> numeric_value t = Some v -> In v (numeric_values ts).
Proof. intros N V. apply numeric_values_in. exists t. split; [eapply nth_error_In; eauto|assumption]. Qed.

(* a trial without available value is skipped *)
Lemma best_step_unavailable spec b i t : available t = false -> best_step spec b i t = b.
Proof. unfold available, best_step. intro H. apply negb_false_iff in H. now rewrite H. Qed.

(* a trial with a numeric value: the arithmetic part of the body *)
Lemma best_step_numeric spec b i t x : numeric_value t = Some x ->
  best_step spec b i t =
  let b1 := match b_index b with
            | None => {| b_index := Some i; b_value := x; b_goal := b_goal b |}
            | Some _ => b
            end in
  match obj_type spec with
  | Minimize =>
      let b2 := if x <? b_value b1 then {| b_index := Some i; b_value := x; b_goal := b_goal b1 |} else b1 in
      {| b_index := b_index b2; b_value := b_value b2; b_goal := b_goal b2 || goal_le spec (b_value b2) |}
  | Maximize =>
      let b2 := if b_value b1 <? x then {| b_index := Some i; b_value := x; b_goal := b_goal b1 |} else b1 in
      {| b_index := b_index b2; b_value := b_value b2; b_goal := b_goal b2 || goal_ge spec (b_value b2) |}
  | OTUnknown => b1
  end.
Proof.
  unfold numeric_value, available, best_step. destruct (is_unavailable (objective_value t)); simpl; [discriminate|].
  intros ->. reflexivity.
Qed.

Definition known_type (spec : espec) : Prop := obj_type spec = Minimize \/ obj_type spec = Maximize.

Lemma as_good_refl spec v : known_type spec -> as_good (obj_type spec) v v = true.
Proof. intros [-> | ->]; simpl; apply Z.leb_refl. Qed.

(* [i] is the position of the first trial of [pre] carrying the best value [bv] *)
Definition is_best (spec : espec) (pre : list trial) (i : nat) (bv : Z) : Prop :=
  exists t, nth_error pre i = Some t /\ numeric_value t = Some bv /\
    (forall v, In v (numeric_values pre) -> as_good (obj_type spec) bv v = true) /\
    (forall j t' v', (j < i)%nat -> nth_error pre j = Some t' -> numeric_value t' = Some v' ->
                     as_good (obj_type spec) bv v' = true /\ v' <> bv).

(* the loop invariant after the prefix [pre] *)
Definition best_inv (spec : espec) (pre : list trial) (b : best) : Prop :=
  ((b_index b = None /\ numeric_values pre = []) \/ (exists i, b_index b = Some i /\ is_best spec pre i (b_value b))) /\
  b_goal b = existsb (meets spec) (numeric_values pre).

Lemma nth_error_snoc_lt {A} (l : list A) x j a : nth_error l j = Some a -> nth_error (l ++ [x]) j = Some a.
Proof. intro H. rewrite nth_error_app1; [assumption|]. apply nth_error_Some. congruence. Qed.

Lemma nth_error_snoc_inv {A} (l : list A) x j a : (j < length l)%nat -> nth_error (l ++ [x]) j = Some a -> nth_error l j = Some a.
Proof. intros L H. now rewrite nth_error_app1 in H. Qed.

Lemma nth_error_snoc_last {A} (l : list A) x : nth_error (l ++ [x]) (length l) = Some x.
Proof. rewrite nth_error_app2 by lia. now rewrite Nat.sub_diag. Qed.

Lemma existsb_snoc {A} (f : A -> bool) l x : existsb f (l ++ [x]) = existsb f l || f x.
Proof. rewrite existsb_app. simpl. now rewrite orb_false_r. Qed.

Lemma numeric_values_snoc_none pre t : numeric_value t = None -> numeric_values (pre ++ [t]) = numeric_values pre.
Proof. intro N. rewrite numeric_values_app. unfold numeric_values at 2. simpl. rewrite N. simpl. now rewrite app_nil_r. Qed.

Lemma numeric_values_snoc_some pre t x : numeric_value t = Some x -> numeric_values (pre ++ [t]) = numeric_values pre ++ [x].
Proof. intro N. rewrite numeric_values_app. unfold numeric_values at 2. simpl. now rewrite N. Qed.

Lemma is_best_lt spec pre i bv : is_best spec pre i bv -> (i < length pre)%nat.
Proof. intros (t&N&_). apply nth_error_Some. congruence. Qed.

Lemma is_best_in spec pre i bv : is_best spec pre i bv -> In bv (numeric_values pre).
Proof. intros (t&N&V&_). eapply nth_numeric; eauto. Qed.

Lemma is_best_skip spec pre i bv t : is_best spec pre i bv -> numeric_value t = None -> is_best spec (pre ++ [t]) i bv.
Proof.
  intros B NV. pose proof (is_best_lt _ _ _ _ B) as L. destruct B as (t0&N&V&All&First).
  exists t0. rewrite (numeric_values_snoc_none pre t NV). repeat split; auto using nth_error_snoc_lt.
  - apply (First j t' v'); auto. apply nth_error_snoc_inv in H0; [assumption|lia].
  - apply (First j t' v'); auto. apply nth_error_snoc_inv in H0; [assumption|lia].
Qed.

Lemma is_best_keep spec pre i bv t x :
  is_best spec pre i bv -> numeric_value t = Some x -> as_good (obj_type spec) bv x = true -> is_best spec (pre ++ [t]) i bv.
Proof.
  intros B NV G. pose proof (is_best_lt _ _ _ _ B) as L. destruct B as (t0&N&V&All&First).
  exists t0. rewrite (numeric_values_snoc_some pre t x NV). repeat split; auto using nth_error_snoc_lt.
  - intros v Iv. apply in_app_or in Iv as [Iv|[<-|[]]]; auto.
  - apply (First j t' v'); auto. apply nth_error_snoc_inv in H0; [assumption|lia].
  - apply (First j t' v'); auto. apply nth_error_snoc_inv in H0; [assumption|lia].
Qed.

Lemma is_best_new spec pre t x :
  numeric_value t = Some x -> as_good (obj_type spec) x x = true ->
  (forall v, In v (numeric_values pre) -> as_good (obj_type spec) x v = true /\ v <> x) ->
  is_best spec (pre ++ [t]) (length pre) x.
Proof.
  intros NV R Old. exists t. rewrite (numeric_values_snoc_some pre t x NV).
  split; [apply nth_error_snoc_last|]. split; [assumption|]. split.
  - intros v Iv. apply in_app_or in Iv as [Iv|[<-|[]]]; [now apply Old|assumption].
  - intros j t' v' Lj Nj Vj. apply Old. apply nth_error_snoc_inv in Nj; [|assumption]. eapply nth_numeric; eauto.
Qed.

Lemma meets_min spec v : obj_type spec = Minimize -> meets spec v = goal_le spec v.
Proof. unfold meets, goal_le. intros ->. reflexivity. Qed.

Lemma meets_max spec v : obj_type spec = Maximize -> meets spec v = goal_ge spec v.
Proof. unfold meets, goal_ge. intros ->. reflexivity. Qed.

Lemma goal_le_mono spec v w : v <= w -> goal_le spec w = true -> goal_le spec v = true.
Proof. unfold goal_le. destruct (obj_goal spec); [|discriminate]. rewrite !Z.leb_le. lia. Qed.

Lemma goal_ge_mono spec v w : w <= v -> goal_ge spec w = true -> goal_ge spec v = true.
Proof. unfold goal_ge. destruct (obj_goal spec); [|discriminate]. rewrite !Z.leb_le. lia. Qed.

(* the goal flag after one more value, when the running best [bv'] is the better of the old best and x *)
Lemma goal_flag_step (m gl : Z -> bool) vals bv x bv' :
  In bv vals -> (gl bv' = gl bv || gl x) -> (forall v, m v = gl v) ->
  existsb m vals || gl bv' = existsb m vals || m x.
Proof.
  intros I E M. rewrite E, M. destruct (gl bv) eqn:G; [|reflexivity].
  assert (existsb m vals = true) as ->; [|reflexivity].
  apply existsb_exists. exists bv. split; [assumption|]. now rewrite M.
Qed.

Lemma best_step_inv spec pre b t :
  known_type spec -> (available t = false \/ exists x, numeric_value t = Some x) ->
  best_inv spec pre b -> best_inv spec (pre ++ [t]) (best_step spec b (length pre) t).
Proof.
  intros KT [U|[x X]] [I G].
  - (* skipped *)
    rewrite best_step_unavailable by assumption.
    assert (NV : numeric_value t = None) by (unfold numeric_value; now rewrite U).
    split; [|now rewrite (numeric_values_snoc_none pre t NV)].
    destruct I as [[Bi Nil]|(i&Bi&B)]; [left; now rewrite (numeric_values_snoc_none pre t NV)|right].
    exists i. split; [assumption|]. now apply is_best_skip.
  - (* numeric value x *)
    rewrite (best_step_numeric spec b (length pre) t x X). unfold best_inv.
    rewrite (numeric_values_snoc_some pre t x X), existsb_snoc.
    destruct I as [[Bi Nil]|(i&Bi&B)].
    + (* first value *)
      rewrite Bi. cbn zeta. rewrite Nil in G. simpl in G.
      assert (NB : is_best spec (pre ++ [t]) (length pre) x).
      { apply is_best_new; [assumption|now apply as_good_refl|]. rewrite Nil. intros v []. }
      destruct KT as [KT|KT]; rewrite KT; cbn [b_value b_index b_goal]; rewrite Z.ltb_irrefl; cbn [b_value b_index b_goal].
      * split; [right; eauto|]. rewrite Nil, G, (meets_min _ _ KT). reflexivity.
      * split; [right; eauto|]. rewrite Nil, G, (meets_max _ _ KT). reflexivity.
    + (* a best trial exists already *)
      rewrite Bi. cbn zeta.
      pose proof (is_best_in _ _ _ _ B) as Bin.
      assert (All : forall v, In v (numeric_values pre) -> as_good (obj_type spec) (b_value b) v = true)
        by (destruct B as (?&?&?&A&?); exact A).
      destruct KT as [KT|KT]; rewrite KT.
      * destruct (x <? b_value b) eqn:C; cbn [b_value b_index b_goal].
        -- apply Z.ltb_lt in C. split.
           ++ right. exists (length pre). split; [reflexivity|].
              apply is_best_new; [assumption|rewrite KT; apply Z.leb_refl|].
              intros v Iv. apply All in Iv. rewrite KT in *. cbn [as_good] in *. apply Z.leb_le in Iv.
              split; [apply Z.leb_le|]; lia.
           ++ rewrite G. apply goal_flag_step with (bv := b_value b); [assumption| |intro; now apply meets_min].
              destruct (goal_le spec (b_value b)) eqn:GL; [|reflexivity].
              apply (goal_le_mono spec x (b_value b)); [lia|assumption].
        -- apply Z.ltb_ge in C. split.
           ++ right. exists i. split; [assumption|].
              apply (is_best_keep spec pre i (b_value b) t x B X). rewrite KT. now apply Z.leb_le.
           ++ rewrite G. apply goal_flag_step with (bv := b_value b); [assumption| |intro; now apply meets_min].
              destruct (goal_le spec (b_value b)) eqn:GL; [reflexivity|]. simpl.
              destruct (goal_le spec x) eqn:GX; [|reflexivity].
              rewrite (goal_le_mono spec (b_value b) x C GX) in GL. discriminate.
      * destruct (b_value b <? x) eqn:C; cbn [b_value b_index b_goal].
        -- apply Z.ltb_lt in C. split.
           ++ right. exists (length pre). split; [reflexivity|].
              apply is_best_new; [assumption|rewrite KT; apply Z.leb_refl|].
              intros v Iv. apply All in Iv. rewrite KT in *. cbn [as_good] in *. apply Z.leb_le in Iv.
              split; [apply Z.leb_le|]; lia.
           ++ rewrite G. apply goal_flag_step with (bv := b_value b); [assumption| |intro; now apply meets_max].
              destruct (goal_ge spec (b_value b)) eqn:GL; [|reflexivity].
              apply (goal_ge_mono spec x (b_value b)); [lia|assumption].
        -- apply Z.ltb_ge in C. split.
           ++ right. exists i. split; [assumption|].
              apply (is_best_keep spec pre i (b_value b) t x B X). rewrite KT. now apply Z.leb_le.
           ++ rewrite G. apply goal_flag_step with (bv := b_value b); [assumption| |intro; now apply meets_max].
              destruct (goal_ge spec (b_value b)) eqn:GL; [reflexivity|]. simpl.
              destruct (goal_ge spec x) eqn:GX; [|reflexivity].
              rewrite (goal_ge_mono spec (b_value b) x C GX) in GL. discriminate.
Qed.

Definition numeric_or_unavailable (t : trial) : Prop := available t = false \/ exists x, numeric_value t = Some x.

Lemma numeric_domain_spec ts : numeric_domain ts = true <-> forall t, In t ts -> numeric_or_unavailable t.
Proof.
  unfold numeric_domain. rewrite forallb_forall. split; intros H t I; specialize (H t I).
  - apply orb_true_iff in H as [H|H]; [left; now apply negb_true_iff|right].
    destruct (numeric_value t) as [x|]; [eauto|discriminate].
  - destruct H as [H|[x H]]; rewrite H; [reflexivity|apply orb_true_r].
Qed.

Lemma run_best_inv spec ts : known_type spec -> forall pre b,
  (forall t, In t ts -> numeric_or_unavailable t) ->
  best_inv spec pre b -> best_inv spec (pre ++ ts) (run_best spec b (length pre) ts).
Proof.
  intro KT. induction ts as [|t r IH]; intros pre b D I; simpl; [now rewrite app_nil_r|].
  assert (E : pre ++ t :: r = (pre ++ [t]) ++ r) by (now rewrite <- app_assoc).
  rewrite E. replace (S (length pre)) with (length (pre ++ [t])) by (rewrite app_length; simpl; lia).
  apply IH; [intros t' I'; apply D; now right|].
  apply best_step_inv; auto. apply D. now left.
Qed.

Lemma best_inv_init spec : best_inv spec [] best_init.
Proof. split; [now left|reflexivity]. Qed.

Lemma final_best_inv spec ts : known_type spec -> numeric_domain ts = true ->
  best_inv spec ts (run_best spec best_init 0%nat ts).
Proof.
  intros KT D. apply (run_best_inv spec ts KT [] best_init); [now apply numeric_domain_spec|apply best_inv_init].
Qed.

(* without any available value nothing happens (no hypothesis on texts or the objective type) *)
Lemma run_best_none spec ts : forall b i, (forall t, In t ts -> available t = false) -> run_best spec b i ts = b.
Proof.
  induction ts as [|t r IH]; intros b i H; simpl; [reflexivity|].
  rewrite best_step_unavailable by (apply H; now left). apply IH. intros t' I. apply H. now right.
Qed.

Lemma numeric_available t x : numeric_value t = Some x -> available t = true.
Proof. unfold numeric_value. destruct (available t); [reflexivity|discriminate]. Qed.

Lemma available_observation t : available t = true -> exists ms, t_observation t = Some ms.
Proof.
  unfold available, objective_value. destruct (t_observation t) as [ms|]; [eauto|]. simpl. discriminate.
Qed.

(* C05_optimal *)
Lemma optimal_spec spec st ts :
  known_type spec -> numeric_domain ts = true -> numeric_values ts <> [] ->
  exists i t v,
    nth_error ts i = Some t /\ numeric_value t = Some v /\
    best_name (e_optimal (summary spec st ts)) = t_name t /\
    best_assignments (e_optimal (summary spec st ts)) = t_assignments t /\
    Some (best_observation (e_optimal (summary spec st ts))) = t_observation t /\
    (forall v', In v' (numeric_values ts) -> as_good (obj_type spec) v v' = true) /\
    (forall j t' v', (j < i)%nat -> nth_error ts j = Some t' -> numeric_value t' = Some v' ->
                     as_good (obj_type spec) v v' = true /\ v' <> v).
Proof.
  intros KT D NE. rewrite summary_optimal.
  destruct (final_best_inv spec ts KT D) as [[[_ Nil]|(i&Bi&t&N&V&All&First)] _]; [contradiction|].
  exists i, t, (b_value (run_best spec best_init 0%nat ts)).
  unfold new_optimal. rewrite Bi, N. cbn [best_name best_assignments best_observation].
  destruct (available_observation t (numeric_available _ _ V)) as [ms ->]. repeat split; auto.
  - apply (First j t' v'); assumption.
  - apply (First j t' v'); assumption.
Qed.

(* C05_no_value *)
Lemma optimal_unchanged spec st ts :
  (forall t, In t ts -> available t = false) -> e_optimal (summary spec st ts) = e_optimal st.
Proof. intro H. rewrite summary_optimal, run_best_none by assumption. reflexivity. Qed.

(* an objective type other than minimize / maximize: the goal is never reached (and the first valued trial stays) *)
Lemma best_step_unknown_goal spec b i t : obj_type spec = OTUnknown -> b_goal (best_step spec b i t) = b_goal b.
Proof.
  intro U. unfold best_step. destruct (is_unavailable (objective_value t)); [reflexivity|].
  destruct (mv_num (objective_value t)); [|reflexivity]. rewrite U. destruct (b_index b); reflexivity.
Qed.

Lemma run_best_unknown_goal spec ts : obj_type spec = OTUnknown -> forall b i, b_goal (run_best spec b i ts) = b_goal b.
Proof.
  intro U. induction ts as [|t r IH]; intros b i; simpl; [reflexivity|]. now rewrite IH, best_step_unknown_goal.
Qed.

Lemma meets_unknown spec v : obj_type spec = OTUnknown -> meets spec v = false.
Proof. unfold meets. intros ->. now destruct (obj_goal spec). Qed.

Lemma existsb_false {A} (f : A -> bool) l : (forall x, f x = false) -> existsb f l = false.
Proof. intro H. induction l as [|a r IH]; simpl; [reflexivity|]. now rewrite H, IH. Qed.

(* C03_goal_flag *)
Lemma goal_flag spec ts : numeric_domain ts = true -> goal_reached spec ts = goal_met spec ts.
Proof.
  intro D. rewrite goal_reached_run_best. unfold goal_met.
  destruct (obj_type spec) eqn:T.
  - apply (final_best_inv spec ts (or_introl T) D).
  - apply (final_best_inv spec ts (or_intror T) D).
  - rewrite run_best_unknown_goal by assumption. symmetry. apply existsb_false. intro v. now apply meets_unknown.
Qed.

(* the index kept by the loop is always a position of the list: new_optimal's fallback branch is dead code *)
Lemma best_step_index spec b i t j : b_index (best_step spec b i t) = Some j -> j = i \/ b_index b = Some j.
Proof.
  unfold best_step. destruct (is_unavailable (objective_value t)); [auto|].
  destruct (mv_num (objective_value t)) as [x|]; [|cbn; intros [= <-]; auto].
  destruct (obj_type spec), (b_index b) as [k|] eqn:Bk; cbn [b_index b_value];
    repeat match goal with |- context [if ?c then _ else _] => destruct c end; cbn; try rewrite Bk; intros [= <-]; auto.
Qed.

Lemma run_best_index spec ts : forall b i j,
  b_index (run_best spec b i ts) = Some j -> (i <= j < i + length ts)%nat \/ b_index b = Some j.
Proof.
  induction ts as [|t r IH]; intros b i j H; simpl in *; [auto|].
  apply IH in H as [H|H]; [left; lia|]. apply best_step_index in H as [->|H]; [left; lia|auto].
Qed.

Lemma best_index_in_range spec ts j : b_index (run_best spec best_init 0%nat ts) = Some j -> (j < length ts)%nat.
Proof. intro H. apply run_best_index in H as [H|H]; [lia|discriminate]. Qed.

(* ------------------------------------------------------------------------------------------------------------ *)
(* the verdict                                                                                                    *)

Lemma reason_of_set cs t r : reason_of (set_cond cs t CTrue r) t = Some r.
Proof. unfold reason_of. destruct (get_set_same cs t CTrue r) as (c&->&S&R&_). now rewrite S, R. Qed.

Lemma reason_of_set_other cs t st r t' : t <> t' -> reason_of (set_cond cs t st r) t' = reason_of cs t'.
Proof. intro N. unfold reason_of. now rewrite get_set_other. Qed.

(* what a status looks like after each branch of UpdateExperimentStatusCondition *)
Record after_verdict (st st' : estatus) (ty reason now : nat) : Prop := {
  av_type : has_cond (e_conds st') ty = true;
  av_other : forall t, t <> ty -> t <> ERunning -> has_cond (e_conds st') t = has_cond (e_conds st) t;
  av_running : exp_is_running st' = false;
  av_reason : reason_of (e_conds st') ty = Some reason;
  av_completion : e_completion st' = Some now
}.

Lemma after_mark st ty reason now : ty <> ERunning ->
  after_verdict st (with_completion (with_conds st (mark (turn_off (e_conds st) ERunning) ty reason)) (Some now)) ty reason now.
Proof.
  intro N. constructor; cbn [e_conds e_completion with_completion with_conds]; unfold mark, exp_is_running;
    cbn [e_conds e_completion with_completion with_conds].
  - rewrite has_set, Nat.eqb_refl. reflexivity.
  - intros t N1 N2. rewrite has_set, has_turn_off.
    apply Nat.eqb_neq in N1, N2. rewrite Nat.eqb_sym in N1. rewrite Nat.eqb_sym in N2. now rewrite N1, N2.
  - rewrite has_set, has_turn_off. apply Nat.eqb_neq in N. rewrite N, Nat.eqb_refl. reflexivity.
  - apply reason_of_set.
  - reflexivity.
Qed.

Lemma after_running st :
  let st' := with_conds st (mark_exp_running (e_conds st) RExperimentRunning) in
  exp_is_running st' = true /\ exp_is_succeeded st' = exp_is_succeeded st /\ exp_is_failed st' = exp_is_failed st /\
  e_completion st' = e_completion st.
Proof.
  cbn zeta. unfold exp_is_running, exp_is_succeeded, exp_is_failed, mark_exp_running, mark.
  cbn [e_conds e_completion with_conds]. rewrite !has_set. cbn. auto.
Qed.

Lemma condition_effect now spec st g d :
  let st' := update_experiment_status_condition now spec st g d in
  match decide spec st g d with
  | VGoal => after_verdict st st' ESucceeded RGoalReached now
  | VFailed => after_verdict st st' EFailed RExperimentFailed now
  | VMaxTrials => after_verdict st st' ESucceeded RMaxTrialsReached now
  | VSuggestionEnd => after_verdict st st' ESucceeded RSuggestionEndReached now
  | VRunning => exp_is_running st' = true /\ exp_is_succeeded st' = exp_is_succeeded st /\
                exp_is_failed st' = exp_is_failed st /\ e_completion st' = e_completion st
  end.
Proof.
  cbn zeta. unfold update_experiment_status_condition.
  destruct (decide spec st g d); try (apply after_mark; discriminate). apply after_running.
Qed.

(* the order of the tests, with the maxFailedTrialCount = 0 reading made explicit *)
Lemma fail_test f n : 0 <= n -> negb (n =? 0) && (f <=? n) = (Z.max f 1 <=? n).
Proof.
  intro P. destruct (Z.eqb_spec n 0), (Z.leb_spec f n), (Z.leb_spec (Z.max f 1) n); simpl; try reflexivity; lia.
Qed.

Lemma decide_spec spec st g d : 0 <= failed_trials_count st ->
  decide spec st g d =
  if g then VGoal
  else if fail_rule spec (failed_trials_count st) then VFailed
  else if max_rule spec (completed_trials_count st) then VMaxTrials
  else if d && (active_trials_count st =? 0) then VSuggestionEnd
  else VRunning.
Proof.
  intro P. unfold decide, fail_rule, max_rule. destruct g; [reflexivity|].
  destruct (max_failed spec) as [f|]; [rewrite (fail_test f _ P)|]; reflexivity.
Qed.

Lemma zlen_nonneg {A} (l : list A) : 0 <= zlen l.
Proof. unfold zlen. lia. Qed.

Lemma summary_failed_count spec st ts : failed_trials_count (summary spec st ts) = failed_count ts.
Proof.
  unfold failed_trials_count, failed_count.
  change (e_trials_failed (summary spec st ts)) with (counter_of KFailed (summary spec st ts)).
  change (e_trials_metrics_unavailable (summary spec st ts)) with (counter_of KMetricsUnavailable (summary spec st ts)).
  now rewrite !counter_count.
Qed.

Lemma summary_finished_count spec st ts : completed_trials_count (summary spec st ts) = finished_count ts.
Proof.
  unfold completed_trials_count, finished_count.
  change (e_trials_failed (summary spec st ts)) with (counter_of KFailed (summary spec st ts)).
  change (e_trials_metrics_unavailable (summary spec st ts)) with (counter_of KMetricsUnavailable (summary spec st ts)).
  change (e_trials_succeeded (summary spec st ts)) with (counter_of KSucceeded (summary spec st ts)).
  change (e_trials_killed (summary spec st ts)) with (counter_of KKilled (summary spec st ts)).
  change (e_trials_early_stopped (summary spec st ts)) with (counter_of KEarlyStopped (summary spec st ts)).
  now rewrite !counter_count.
Qed.

Lemma failed_count_nonneg ts : 0 <= failed_count ts.
Proof. unfold failed_count, count_in_class. pose proof (@zlen_nonneg trial). specialize (H (filter (in_class KFailed) ts)) as H1.
  specialize (H (filter (in_class KMetricsUnavailable) ts)). lia. Qed.

Lemma update_unfold now spec st ts :
  update_experiment_status now spec st ts =
  if exp_is_completed st then summary spec st ts
  else update_experiment_status_condition now spec (summary spec st ts) (goal_reached spec ts) false.
Proof. reflexivity. Qed.

Lemma status_decide spec st ts :
  decide spec (summary spec st ts) (goal_reached spec ts) false =
  if goal_reached spec ts then VGoal
  else if fail_rule spec (failed_count ts) then VFailed
  else if max_rule spec (finished_count ts) then VMaxTrials
  else VRunning.
Proof.
  rewrite decide_spec by (rewrite summary_failed_count; apply failed_count_nonneg).
  now rewrite summary_failed_count, summary_finished_count.
Qed.

(* the facts of C03_decision / C03_exclusive for one call on a status that is not completed *)
Record decided (st st' : estatus) (now : nat) (g fr mr : bool) : Prop := {
  d_succeeded : exp_is_succeeded st' = g || (negb fr && mr);
  d_failed : exp_is_failed st' = negb g && fr;
  d_reason_goal : g = true -> reason_of (e_conds st') ESucceeded = Some RGoalReached;
  d_reason_failed : g = false -> fr = true -> reason_of (e_conds st') EFailed = Some RExperimentFailed;
  d_reason_max : g = false -> fr = false -> mr = true -> reason_of (e_conds st') ESucceeded = Some RMaxTrialsReached;
  d_running : exp_is_running st' = negb (exp_is_completed st');
  d_completion : e_completion st' = if exp_is_completed st' then Some now else e_completion st
}.

Lemma condition_decided now spec st g :
  exp_is_completed st = false -> 0 <= failed_trials_count st ->
  decided st (update_experiment_status_condition now spec st g false) now g
          (fail_rule spec (failed_trials_count st)) (max_rule spec (completed_trials_count st)).
Proof.
  intros NC P. pose proof (condition_effect now spec st g false) as E. cbn zeta in E.
  rewrite (decide_spec spec st g false P) in E.
  apply orb_false_iff in NC as [NS NF]. unfold exp_is_succeeded, exp_is_failed in NS, NF.
  set (st' := update_experiment_status_condition now spec st g false) in *.
  destruct g; [|destruct (fail_rule spec (failed_trials_count st));
                [|destruct (max_rule spec (completed_trials_count st)); cbn [andb] in E]].
  - destruct E as [T O R Rs C].
    assert (F : exp_is_failed st' = false) by (unfold exp_is_failed; rewrite O by discriminate; exact NF).
    assert (S : exp_is_succeeded st' = true) by exact T.
    constructor; unfold exp_is_completed; rewrite ?S, ?F, ?R; cbn; auto; discriminate.
  - destruct E as [T O R Rs C].
    assert (S : exp_is_succeeded st' = false) by (unfold exp_is_succeeded; rewrite O by discriminate; exact NS).
    assert (F : exp_is_failed st' = true) by exact T.
    constructor; unfold exp_is_completed; rewrite ?S, ?F, ?R; cbn; auto; discriminate.
  - destruct E as [T O R Rs C].
    assert (F : exp_is_failed st' = false) by (unfold exp_is_failed; rewrite O by discriminate; exact NF).
    assert (S : exp_is_succeeded st' = true) by exact T.
    constructor; unfold exp_is_completed; rewrite ?S, ?F, ?R; cbn; auto; discriminate.
  - destruct E as (R&S&F&C). unfold exp_is_succeeded, exp_is_failed in S, F. rewrite NS in S. rewrite NF in F.
    constructor; unfold exp_is_completed, exp_is_succeeded, exp_is_failed; rewrite ?S, ?F, ?R; cbn; auto; discriminate.
Qed.

Lemma status_decided now spec st ts :
  exp_is_completed st = false ->
  decided st (update_experiment_status now spec st ts) now (goal_reached spec ts)
          (fail_rule spec (failed_count ts)) (max_rule spec (finished_count ts)).
Proof.
  intro NC. rewrite update_unfold, NC.
  rewrite <- (summary_failed_count spec st ts), <- (summary_finished_count spec st ts).
  pose proof (condition_decided now spec (summary spec st ts) (goal_reached spec ts)) as H.
  assert (D : decided (summary spec st ts)
      (update_experiment_status_condition now spec (summary spec st ts) (goal_reached spec ts) false) now
      (goal_reached spec ts) (fail_rule spec (failed_trials_count (summary spec st ts)))
      (max_rule spec (completed_trials_count (summary spec st ts)))).
  { apply H; [exact NC|]. rewrite summary_failed_count. apply failed_count_nonneg. }
  destruct D as [A B C D E F G]. constructor; auto.
Qed.

(* exclusivity for any call of UpdateExperimentStatusCondition (any goal flag, any getSuggestionDone, any counters) *)
Lemma condition_exclusive now spec st g d :
  exp_is_completed st = false ->
  let st' := update_experiment_status_condition now spec st g d in
  (exp_is_succeeded st' && exp_is_failed st' = false) /\ (exp_is_completed st' = true -> exp_is_running st' = false).
Proof.
  intros NC. pose proof (condition_effect now spec st g d) as E. cbn zeta in *.
  apply orb_false_iff in NC as [NS NF]. unfold exp_is_succeeded, exp_is_failed in NS, NF.
  set (st' := update_experiment_status_condition now spec st g d) in *.
  destruct (decide spec st g d).
  1,3,4: destruct E as [T O R Rs C]; split; [|intros _; exact R];
    unfold exp_is_failed; rewrite O by discriminate; rewrite NF; apply andb_false_r.
  - destruct E as [T O R Rs C]. split; [|intros _; exact R].
    unfold exp_is_succeeded. rewrite O by discriminate. now rewrite NS.
  - destruct E as (R&S&F&C). unfold exp_is_completed. unfold exp_is_succeeded, exp_is_failed in *. rewrite S, F, NS, NF.
    split; [reflexivity|discriminate].
Qed.

Lemma status_exclusive now spec st ts :
  exp_is_completed st = false ->
  let st' := update_experiment_status now spec st ts in
  (exp_is_succeeded st' && exp_is_failed st' = false) /\ (exp_is_completed st' = true -> exp_is_running st' = false).
Proof. intro NC. cbn zeta. rewrite update_unfold, NC. now apply condition_exclusive. Qed.

(* a completed experiment keeps conditions and completion time: only the summary is refreshed *)
Lemma completed_untouched now spec st ts :
  exp_is_completed st = true ->
  update_experiment_status now spec st ts = summary spec st ts /\
  e_conds (update_experiment_status now spec st ts) = e_conds st /\
  e_completion (update_experiment_status now spec st ts) = e_completion st.
Proof. intro C. rewrite update_unfold, C. auto. Qed.

(* the summary part of the result never depends on the condition update *)
Lemma update_keeps_summary now spec st ts :
  let st' := update_experiment_status now spec st ts in
  e_optimal st' = e_optimal (summary spec st ts) /\ e_trials st' = e_trials (summary spec st ts) /\
  (forall k, list_of k st' = list_of k (summary spec st ts)) /\
  (forall k, counter_of k st' = counter_of k (summary spec st ts)).
Proof.
  cbn zeta. rewrite update_unfold. destruct (exp_is_completed st); [auto|].
  unfold update_experiment_status_condition. destruct (decide _ _ _ _); cbn [e_optimal e_trials with_completion with_conds];
    (repeat split; try reflexivity; intro k; destruct k; reflexivity).
Qed.
