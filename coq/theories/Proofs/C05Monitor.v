(* The boolean monitor of C05 is implied by the theorems about the model: the model's own output passes it for
   every input (also outside the numeric domain, where the monitor demands nothing about the optimum). *)
From KV Require Import Base.Prelude Base.Cond Base.Subseq Model.StatusUtil Model.StatusSpec Proofs.StatusUtilP Corr.C05.
Open Scope Z_scope.

Lemma list_eqb_refl {A} (eqb : A -> A -> bool) : (forall a, eqb a a = true) -> forall l, list_eqb eqb l l = true.
Proof. intros R l. induction l as [|a r IH]; simpl; [reflexivity|]. now rewrite R, IH. Qed.

Lemma mval_eqb_refl a : mval_eqb a a = true.
Proof. unfold mval_eqb. rewrite Nat.eqb_refl. destruct (mv_num a); simpl; [apply Z.eqb_refl|reflexivity]. Qed.

Lemma metric_eqb_refl a : metric_eqb a a = true.
Proof. unfold metric_eqb. now rewrite Nat.eqb_refl, !mval_eqb_refl. Qed.

Lemma pair_eqb_refl a : pair_eqb a a = true.
Proof. unfold pair_eqb. now rewrite !Nat.eqb_refl. Qed.

Lemma optimal_eqb_refl a : optimal_eqb a a = true.
Proof.
  unfold optimal_eqb. rewrite Nat.eqb_refl, (list_eqb_refl pair_eqb pair_eqb_refl), (list_eqb_refl metric_eqb metric_eqb_refl).
  reflexivity.
Qed.

Lemma same_names_refl l : same_names l l = true.
Proof.
  unfold same_names. rewrite Nat.eqb_refl. simpl. apply forallb_forall. intros n _. apply Nat.eqb_refl.
Qed.

Lemma partition_model now spec st ts : partition_ok ts (update_experiment_status now spec st ts) = true.
Proof.
  destruct (update_keeps_summary now spec st ts) as (_&T&L&C).
  unfold partition_ok. apply andb_true_iff. split.
  - apply forallb_forall. intros k _. rewrite L, C, summary_list, summary_counter, summary_list.
    fold (names_of k ts). now rewrite same_names_refl, Z.eqb_refl.
  - rewrite T, (map_ext _ _ C), <- summary_sum. apply Z.eqb_refl.
Qed.

Lemma optimal_model now spec st ts : optimal_ok spec st ts (update_experiment_status now spec st ts) = true.
Proof.
  destruct (update_keeps_summary now spec st ts) as (O&_). unfold optimal_ok. rewrite O.
  destruct (existsb available ts) eqn:Ex; cbn [negb].
  - destruct (numeric_domain ts) eqn:D; [|reflexivity].
    destruct (obj_type spec) eqn:T; [| |reflexivity].
    + apply existsb_exists in Ex as (t0&I0&A0).
      assert (NE : numeric_values ts <> []).
      { pose proof (proj1 (numeric_domain_spec ts) D t0 I0) as [U|[x X]]; [congruence|].
        intro Nil. assert (In x (numeric_values ts)) by (apply numeric_values_in; eauto). now rewrite Nil in *. }
      destruct (optimal_spec spec st ts (or_introl T) D NE) as (i&t&v&N&V&Hn&Ha&Ho&All&_).
      unfold names_optimum. apply existsb_exists. exists t. split; [eapply nth_error_In; eauto|].
      rewrite Hn, Ha, Nat.eqb_refl, V, <- Ho, (list_eqb_refl pair_eqb pair_eqb_refl). cbn [option_eqb].
      rewrite (list_eqb_refl metric_eqb metric_eqb_refl), T. cbn [andb]. rewrite !andb_true_r.
      apply forallb_forall. intros v' I. rewrite <- T. now apply All.
    + apply existsb_exists in Ex as (t0&I0&A0).
      assert (NE : numeric_values ts <> []).
      { pose proof (proj1 (numeric_domain_spec ts) D t0 I0) as [U|[x X]]; [congruence|].
        intro Nil. assert (In x (numeric_values ts)) by (apply numeric_values_in; eauto). now rewrite Nil in *. }
      destruct (optimal_spec spec st ts (or_intror T) D NE) as (i&t&v&N&V&Hn&Ha&Ho&All&_).
      unfold names_optimum. apply existsb_exists. exists t. split; [eapply nth_error_In; eauto|].
      rewrite Hn, Ha, Nat.eqb_refl, V, <- Ho, (list_eqb_refl pair_eqb pair_eqb_refl). cbn [option_eqb].
      rewrite (list_eqb_refl metric_eqb metric_eqb_refl), T. cbn [andb]. rewrite !andb_true_r.
      apply forallb_forall. intros v' I. rewrite <- T. now apply All.
  - rewrite optimal_unchanged; [apply optimal_eqb_refl|].
    intros t I. destruct (available t) eqn:A; [|reflexivity].
    assert (existsb available ts = true) by (apply existsb_exists; eauto). congruence.
Qed.

Lemma monitor_model now spec st ts : monitor spec st ts (update_experiment_status now spec st ts) = true.
Proof. unfold monitor. now rewrite partition_model, optimal_model. Qed.
