(* C04: quiescence implies a verdict.  A state of the joint model in which caches are synced, no controller has
   anything to write, and the environment is done (jobs finished, metrics in the DB, deployment not pending) carries a
   Succeeded or Failed verdict when maxTrialCount is set. *)
From KV Require Import Base.Prelude Base.Cond Model.World Proofs.WorldPlan Proofs.WorldInv Proofs.WorldInv2 Proofs.EqbSpec.
Open Scope Z_scope.

Definition synced (w : world) : Prop := c_exp w = w_exp w /\ c_sug w = w_sug w /\ c_trials w = w_trials w.

Definition env_done (w : world) : Prop :=
  (forall j, In j (w_jobs w) -> j_phase j <> JActive) /\
  (forall t, In t (w_trials w) -> exists v, db_get (t_name t) (w_db w) = Some v /\ (t_is t TEarlyStopped = true -> v <> None)) /\
  (forall s, w_sug w = Some s -> s_completed (s_st s) = false -> i_dep (w_infra w) <> Some false).

(* the services answer, and answer correctly *)
Definition good_resp (w : world) (resp : sresp) : Prop :=
  r_valid resp = true /\ r_esvalid resp = true /\ r_esrules resp = true /\
  forall s, c_sug w = Some s -> exists names sett, r_reply resp = ReplyOk names sett /\
                                                   Z.of_nat (length names) = Z.max 0 (s_requests s - ss_count (s_st s)).

(* no controller reconcile has any further effect: nothing is even attempted *)
Definition quiescent (w : world) : Prop :=
  synced w /\ plan_exp w = [] /\ (forall key, plan_trial w key false = []) /\
  (forall resp, good_resp w resp -> fst (plan_sug w resp) = []).

(* ------------------------------------------------------------------ trials *)

Lemma mark_changes cs k r : has_cond cs k = false -> mark cs k r <> cs.
Proof. intros H E. assert (X : has_cond (mark cs k r) k = true) by (unfold mark; rewrite has_set, Nat.eqb_refl; reflexivity). rewrite E in X. congruence. Qed.

Lemma find_job_in n js j : find_job n js = Some j -> In j js.
Proof. unfold find_job. intro H. now apply find_some in H. Qed.

Lemma quiet_trial w t :
  InvS w -> c_trials w = w_trials w -> (forall key, plan_trial w key false = []) -> env_done w -> In t (w_trials w) ->
  t_completed t = true /\ t_is t TCreated = true /\ plan_trial_main w t false = [].
Proof.
  intros I Sy Q (EJ&ED&_) It.
  assert (F : find_trial (t_name t) (c_trials w) = Some t) by (rewrite Sy; apply find_trial_in; auto using (i_nodup _ I)).
  specialize (Q (t_name t)). unfold plan_trial in Q. rewrite F in Q.
  pose proof (i_del _ I) as D. rewrite Forall_forall in D. rewrite (D _ It) in Q. cbn [negb andb] in Q.
  destruct (t_fin t); [|discriminate]. cbn [negb andb] in Q.
  destruct (t_is t TCreated) eqn:Cr.
  2: { cbn [negb] in Q. apply trial_status_write_nil in Q as (Q&_). exfalso. exact (mark_changes _ _ RCreated Cr Q). }
  cbn [negb] in Q. split; [|split; [reflexivity|exact Q]].
  destruct (t_completed t) eqn:C; [reflexivity|]. exfalso.
  apply (trial_progress w t Cr C); [|exact Q].
  destruct (find_job (t_name t) (w_jobs w)) as [j|] eqn:J; [|exact Logic.I].
  apply find_job_in in J. specialize (EJ _ J).
  destruct (j_phase j); [congruence| |exact Logic.I].
  destruct (ED _ It) as (v&Hv&_). congruence.
Qed.

(* a completed, well-formed trial is counted in one of the five completed classes *)
Lemma classify_completed_class t : t_completed t = true -> tgood t ->
  match classify t with KPending | KRunning => False | _ => True end.
Proof.
  intros C [_ G2]. unfold classify. unfold t_completed in C.
  destruct (t_is t TKilled); [exact Logic.I|]. destruct (t_is t TFailed); [exact Logic.I|].
  destruct (t_is t TSucceeded); [exact Logic.I|]. destruct (t_is t TEarlyStopped); [exact Logic.I|].
  cbn in C. unfold t_is in *. rewrite C in *. rewrite (G2 eq_refl). exact Logic.I.
Qed.

Lemma all_completed_counts ts :
  Forall (fun t => t_completed t = true /\ tgood t) ts ->
  let c := counts_of (map (fun t => (t_name t, classify t)) ts) in
  n_pending c = 0 /\ n_running c = 0 /\ completed_count c = Z.of_nat (length ts).
Proof.
  intro H. cbn zeta.
  assert (P : n_pending (counts_of (map (fun t => (t_name t, classify t)) ts)) = 0 /\
              n_running (counts_of (map (fun t => (t_name t, classify t)) ts)) = 0).
  { induction H as [|t ts [C G] _ IH]; [split; reflexivity|].
    cbn [map counts_of n_pending n_running] in *. rewrite !count_class_cons.
    pose proof (classify_completed_class t C G) as K. destruct (classify t); cbn [class_eqb]; try contradiction; lia. }
  destruct P as [P1 P2]. split; [exact P1|]. split; [exact P2|].
  pose proof (classes_partition_counts (map (fun t => (t_name t, classify t)) ts)) as X. rewrite map_length in X. lia.
Qed.

(* ------------------------------------------------------------------ the theorem *)

Theorem quiescent_completed w e m :
  Inv w -> 1 <= c_par (w_cfg w) -> quiescent w -> env_done w ->
  w_exp w = Some e -> e_max e = Some m -> c_par (w_cfg w) <= m ->
  (* assumption on the algorithm service (distinct names), and on the cleanup/restart bookkeeping: a Succeeded suggestion
     next to an experiment without verdict only under FromVolume and not marked restarting (then the experiment reconcile
     restarts it: repair of F18); see DESIGN.md section 6 (C04) *)
  (forall s, w_sug w = Some s -> NoDup (ss_names (s_st s)) /\
             (s_is (s_st s) SSucceeded = true -> c_resume (w_cfg w) = FromVolume /\ s_restarting (s_st s) = false)) ->
  e_completed (e_st e) = true.
Proof.
  intros [I P] Hpar ((Se&Ss&St)&Qe&Qt&Qs) ED He Hm Hpm Hsug. pose proof ED as ED0.
  destruct (e_completed (e_st e)) eqn:NC; [reflexivity|]. exfalso.
  (* trials: all completed *)
  assert (TC : Forall (fun t => t_completed t = true /\ tgood t) (w_trials w)).
  { apply Forall_forall. intros t It. split; [apply (quiet_trial w t I St Qt ED It)|].
    pose proof (i_tgood _ I) as G. rewrite Forall_forall in G. auto. }
  (* the experiment reconcile *)
  assert (Hce : c_exp w = Some e) by congruence.
  destruct (i_exp _ I) as (e0&ce&He0&Hce0&_&De&_&(W0&L0)&_). rewrite He in He0. inversion He0; subst e0. clear He0 Hce0.
  unfold plan_exp in Qe. rewrite Hce, De in Qe. cbn [negb andb] in Qe.
  destruct (e_fin e); [|discriminate]. cbn [negb andb] in Qe.
  unfold plan_exp_completed in Qe. rewrite NC in Qe.
  destruct (e_is (e_st e) ECreated) eqn:Cr.
  2: { cbn [negb app] in Qe. apply status_write_nil in Qe. apply (f_equal es_conds) in Qe. cbn in Qe. exfalso. exact (mark_changes _ _ RCreated Cr Qe). }
  cbn [negb app] in Qe. unfold plan_exp_reconcile in Qe. rewrite St in Qe.
  set (ts := w_trials w) in *.
  set (st2 := match ts with [] => e_st e | _ => update_status (w_cfg w) (e_max e) (w_clock w) (e_st e) ts end) in *.
  (* counters of st2 *)
  assert (CN : n_pending (es_counts st2) = 0 /\ n_running (es_counts st2) = 0 /\ completed_count (es_counts st2) = Z.of_nat (length ts)).
  { unfold st2. destruct ts as [|t0 ts'] eqn:Ets.
    - unfold status_wf in W0. rewrite W0. assert (es_classes (e_st e) = []) by (destruct (es_classes (e_st e)); [reflexivity|cbn in L0; lia]).
      rewrite H. repeat split.
    - rewrite update_status_counts. apply (all_completed_counts (t0 :: ts')). exact TC. }
  destruct CN as (CP&CR&CC).
  destruct (e_completed st2) eqn:C2.
  { apply status_write_nil in Qe. rewrite Qe in C2. congruence. }
  (* not completed although recomputed: fewer completed trials than maxTrialCount *)
  assert (LT : Z.of_nat (length ts) < m).
  { unfold st2 in C2. destruct ts as [|t0 ts'] eqn:Ets; [cbn; lia|].
    unfold update_status in C2. destruct (scan_best _ _ _ _ _) as [best reached].
    match type of C2 with context [if ?c then _ else _] => destruct c eqn:E0 end; [congruence|].
    unfold update_condition in C2. rewrite Hm in C2. cbn [es_counts] in C2.
    rewrite <- Ets in *. fold st2 in CC.
    assert (CC' : completed_count (counts_of (map (fun t => (t_name t, classify t)) ts)) = Z.of_nat (length ts)).
    { unfold st2 in CC. rewrite Ets in CC. rewrite update_status_counts in CC. rewrite Ets. exact CC. }
    rewrite CC' in C2.
    destruct reached; [cbn in C2; unfold e_completed, e_is, emark_verdict, mark in C2; cbn in C2; rewrite has_set in C2; cbn in C2; discriminate|].
    match type of C2 with context [if ?c then _ else _] => destruct c end;
      [unfold e_completed, e_is, emark_verdict, mark in C2; cbn in C2; rewrite !has_set in C2; cbn in C2; rewrite orb_true_r in C2; discriminate|].
    destruct (m <=? Z.of_nat (length ts)) eqn:Le; [|apply Z.leb_gt in Le; exact Le].
    unfold e_completed, e_is, emark_verdict, mark in C2; cbn in C2; rewrite has_set in C2; cbn in C2; discriminate. }
  destruct (plan_trials (w_cfg w) (e_max e) st2 ts (c_sug w)) as [ws2 st3] eqn:PT.
  apply app_eq_nil in Qe as [W2 W3].
  unfold plan_trials in PT. rewrite CP, CR, Hm, CC in PT. cbn [Z.add] in PT.
  destruct (c_par (w_cfg w) <? 0) eqn:E1; [apply Z.ltb_lt in E1; lia|].
  destruct (0 <? c_par (w_cfg w)) eqn:E2; [|apply Z.ltb_ge in E2; lia].
  set (add := Z.max 0 (Z.min (m - Z.of_nat (length ts)) (c_par (w_cfg w)) - 0)) in *.
  assert (Hadd : 0 < add) by (unfold add; lia).
  destruct (0 <? add) eqn:E3; [|apply Z.ltb_ge in E3; lia].
  unfold plan_create in PT. rewrite Ss in PT.
  destruct (w_sug w) as [s|] eqn:Hs; [|inversion PT; subst; discriminate].
  destruct (Hsug s eq_refl) as [ND NS0].
  destruct (s_is (s_st s) SFailed) eqn:SF.
  { inversion PT; subst. apply status_write_nil in W3. apply (f_equal e_completed) in W3. rewrite NC in W3.
    unfold e_completed, e_is, with_conds, emark_verdict, mark in W3. cbn in W3. rewrite !has_set in W3. cbn in W3. rewrite orb_true_r in W3. discriminate. }
  destruct (s_is (s_st s) SSucceeded) eqn:NS.
  { (* Succeeded next to a running experiment: the reconcile plans the restart of the suggestion *)
    destruct (NS0 eq_refl) as [FV NR]. rewrite FV, NR in PT. cbn [andb] in PT. inversion PT; subst. discriminate. }
  cbn [andb] in PT.
  inversion PT; subst ws2 st3. clear PT.
  match goal with H : _ ++ _ = [] |- _ => apply app_eq_nil in H as [WR WA] end.
  set (ies := Z.of_nat (length (filter (fun t => negb (t_obs_available t) && t_is t TEarlyStopped) ts))) in *.
  assert (RQ : s_requests s = Z.of_nat (length ts) + add - ies).
  { destruct (s_requests s =? Z.of_nat (length ts) + add - ies) eqn:E; [now apply Z.eqb_eq in E|discriminate]. }
  (* every assignment is materialised: as many trials as names *)
  pose proof (i_sug _ I) as HS. rewrite Hs in HS. destruct HS as (SW&_&_&Incl&_).
  assert (LN : length (ss_names (s_st s)) = length ts).
  { apply Nat.le_antisymm.
    - destruct (Z.of_nat (length ts) <? Z.of_nat (length (ss_names (s_st s)))) eqn:E.
      + apply map_eq_nil in WA.
        assert (Sub : incl (ss_names (s_st s)) (names ts)).
        { intros n Hn. destruct (mem n (map t_name ts)) eqn:Mn.
          - unfold mem in Mn. apply existsb_exists in Mn as (x&Hx&Ex). apply Nat.eqb_eq in Ex. subst. exact Hx.
          - assert (In n (filter (fun n0 => negb (mem n0 (map t_name ts))) (ss_names (s_st s)))) by (apply filter_In; split; [exact Hn|now rewrite Mn]).
            rewrite WA in H. destruct H. }
        pose proof (NoDup_incl_length ND Sub) as X. unfold names in X. rewrite map_length in X. exact X.
      + apply Z.ltb_ge in E. lia.
    - pose proof (NoDup_incl_length (i_nodup _ I) Incl) as X. unfold names in X. rewrite map_length in X. exact X. }
  (* the suggestion reconcile *)
  assert (GR : exists resp, good_resp w resp).
  { exists {| r_valid := true; r_esvalid := true; r_esrules := true;
              r_reply := ReplyOk (repeat 0%nat (Z.to_nat (Z.max 0 (s_requests s - ss_count (s_st s))))) None |}.
    repeat split; auto. intros s0 Hs0. rewrite Ss in Hs0. inversion Hs0; subst s0. eexists _, _. split; [reflexivity|].
    rewrite repeat_length, Z2Nat.id; lia. }
  destruct GR as (resp&GRv&GRe&GRr&GRn).
  specialize (Qs resp (conj GRv (conj GRe (conj GRr GRn)))).
  destruct (GRn s (eq_trans Ss eq_refl)) as (nm&sett&Rp&Ln).
  unfold plan_sug in Qs. rewrite Ss, NS in Qs.
  destruct (s_is (s_st s) SCreated) eqn:SC.
  2: { cbn [negb fst] in Qs. apply sstatus_write_nil in Qs. apply (f_equal ss_conds) in Qs. cbn in Qs. exfalso. exact (mark_changes _ _ RCreated SC Qs). }
  cbn [negb] in Qs.
  destruct ED as (_&_&EDd).
  assert (SCo : s_completed (s_st s) = false) by (unfold s_completed; now rewrite NS, SF).
  specialize (EDd s Hs SCo).
  destruct (i_dep (w_infra w)) as [[|]|] eqn:Dep; [|congruence|].
  2: { cbn [fst] in Qs. apply app_eq_nil in Qs as [Qc _]. unfold infra_creates in Qc. rewrite Dep in Qc.
       repeat (apply app_eq_nil in Qc as [? Qc]). discriminate. }
  rewrite Hce in Qs.
  set (cs1 := set_cond (ss_conds (s_st s)) SDeploymentReady CTrue RDeploymentReady) in *.
  rewrite GRv, GRe, Rp in Qs. cbn [negb andb] in Qs. rewrite andb_false_r in Qs.
  assert (NR : s_requests s - ss_count (s_st s) <= 0).
  { destruct (s_requests s - ss_count (s_st s) <=? 0) eqn:En; [now apply Z.leb_le in En|]. exfalso.
    pose proof En as En'. apply Z.leb_gt in En'. rewrite Z.max_r in Ln by lia.
    destruct (has_cond cs1 SRunning); cbv iota beta in Qs; rewrite Ln, Z.eqb_refl, GRr in Qs; cbn [negb andb] in Qs; rewrite ?andb_false_r in Qs;
      cbn [fst] in Qs; apply app_eq_nil in Qs as [_ Qs]; apply sstatus_write_nil in Qs; apply (f_equal ss_names) in Qs; cbn in Qs;
      apply (f_equal (@length nat)) in Qs; rewrite app_length in Qs; lia. }
  (* so requests <= count = number of names = number of trials: some early-stopped trial lacks its observation *)
  unfold swf in SW.
  assert (IE : 0 < ies) by lia.
  assert (EX : exists t, In t ts /\ t_obs_available t = false /\ t_is t TEarlyStopped = true).
  { unfold ies in IE. destruct (filter (fun t => negb (t_obs_available t) && t_is t TEarlyStopped) ts) as [|t l] eqn:Fl; [cbn in IE; lia|].
    assert (It : In t (filter (fun t => negb (t_obs_available t) && t_is t TEarlyStopped) ts)) by (rewrite Fl; now left).
    apply filter_In in It as [It Ht]. apply andb_true_iff in Ht as [H1 H2]. apply negb_true_iff in H1. eauto. }
  destruct EX as (t&It&Ob&Es).
  destruct (quiet_trial w t I St Qt ED0 It) as (Ct&_&Qm).
  destruct ED0 as (EJ&EDt&_). destruct (EDt _ It) as (v&Hv&Hvn). specialize (Hvn Es).
  destruct v as [z|]; [|congruence].
  assert (OB : forall cs ct, trial_status_write t cs (Some (Some z)) ct = [] -> False).
  { intros cs ct H. apply trial_status_write_nil in H as (_&H&_). unfold t_obs_available in Ob. rewrite <- H in Ob. discriminate. }
  unfold plan_trial_main in Qm. rewrite Ct, Es, Ob, Hv in Qm. cbn [negb andb orb] in Qm.
  destruct (find_job (t_name t) (w_jobs w)) as [j|] eqn:J.
  - destruct (c_retain (w_cfg w)); cbn [negb andb] in Qm.
    + apply find_job_in in J. specialize (EJ _ J).
      destruct (j_phase j); [congruence| |]; cbn [andb] in Qm;
        (destruct (update_trial_condition _ _ _ _ _) as [[dbw cs] ct]; cbn [app] in Qm;
         apply app_eq_nil in Qm as [_ Qm]; now apply OB in Qm).
    + apply app_eq_nil in Qm as [Qm _]. discriminate.
  - cbn [app] in Qm. now apply OB in Qm.
Qed.

(* no hot loop: in a quiescent state a further reconcile of any controller does not even attempt a write *)
Theorem quiescent_no_write w c key resp :
  quiescent w -> good_resp w resp -> pending_of w c = [] ->
  pending_of (step w (Begin c key resp false)) c = [] /\
  w_exp (step w (Begin c key resp false)) = w_exp w /\ w_sug (step w (Begin c key resp false)) = w_sug w /\
  w_trials (step w (Begin c key resp false)) = w_trials w /\ w_jobs (step w (Begin c key resp false)) = w_jobs w /\
  w_infra (step w (Begin c key resp false)) = w_infra w /\ w_db (step w (Begin c key resp false)) = w_db w /\
  g_writes (step w (Begin c key resp false)) = g_writes w.
Proof.
  intros (_&Qe&Qt&Qs) G Pn. cbn [step]. rewrite Pn. destruct c.
  - rewrite Qe. cbn. repeat split.
  - specialize (Qs resp G). destruct (plan_sug w resp) as [p rpcs]. cbn in Qs. subst p. cbn. repeat split.
  - rewrite Qt. cbn. repeat split.
Qed.

(* ------------------------------------------------------------------ C16 at quiescence *)

Lemma infra_creates_nil cf i :
  infra_creates cf i = [] -> i_svc i = true /\ i_dep i <> None /\ (c_resume cf = FromVolume -> i_pvc i = true).
Proof.
  unfold infra_creates. intro H. repeat (apply app_eq_nil in H as [? H]).
  split; [destruct (i_svc i); [reflexivity|discriminate]|].
  split; [destruct (i_dep i); [discriminate|discriminate H]|].
  intro R. rewrite R in *. destruct (i_pvc i); [reflexivity|discriminate].
Qed.

(* a suggestion that is neither Succeeded nor Failed, at quiescence with the environment done: the algorithm service
   is up, the suggestion is Running *)
Lemma quiet_service_up w s :
  InvS w -> quiescent w -> env_done w -> w_sug w = Some s -> s_completed (s_st s) = false ->
  i_dep (w_infra w) = Some true /\ i_svc (w_infra w) = true /\ s_is (s_st s) SRunning = true /\
  (c_resume (w_cfg w) = FromVolume -> i_pvc (w_infra w) = true).
Proof.
  intros I ((Se&Ss&St)&Qe&Qt&Qs) (_&_&EDd) Hs NC.
  assert (GR : exists resp, good_resp w resp).
  { exists {| r_valid := true; r_esvalid := true; r_esrules := true;
              r_reply := ReplyOk (repeat 0%nat (Z.to_nat (Z.max 0 (s_requests s - ss_count (s_st s))))) None |}.
    repeat split; auto. intros s0 Hs0. rewrite Ss, Hs in Hs0. inversion Hs0; subst s0. eexists _, _. split; [reflexivity|].
    rewrite repeat_length, Z2Nat.id; lia. }
  destruct GR as (resp&GRv&GRe&GRr&GRn).
  specialize (Qs resp (conj GRv (conj GRe (conj GRr GRn)))).
  pose proof NC as NCc. unfold s_completed in NC. apply orb_false_iff in NC as [NS NF].
  unfold plan_sug in Qs. rewrite Ss, Hs, NS in Qs.
  destruct (s_is (s_st s) SCreated) eqn:SC.
  2: { cbn [negb fst] in Qs. apply sstatus_write_nil in Qs. apply (f_equal ss_conds) in Qs. cbn in Qs. exfalso. exact (mark_changes _ _ RCreated SC Qs). }
  cbn [negb] in Qs.
  specialize (EDd s Hs NCc).
  destruct (i_dep (w_infra w)) as [[|]|] eqn:Dep; [|congruence|].
  2: { cbn [fst] in Qs. apply app_eq_nil in Qs as [Qc _]. apply infra_creates_nil in Qc as (_&Qc&_). congruence. }
  destruct (i_exp _ I) as (e&ce&_&Hce&_). rewrite Hce in Qs.
  set (cs1 := set_cond (ss_conds (s_st s)) SDeploymentReady CTrue RDeploymentReady) in *.
  rewrite GRv, GRe in Qs. cbn [negb andb] in Qs. rewrite andb_false_r in Qs.
  destruct (GRn s (eq_trans Ss Hs)) as (nm&sett&Rp&Ln). rewrite Rp in Qs.
  destruct (has_cond cs1 SRunning) eqn:HR.
  - assert (QC : infra_creates (w_cfg w) (w_infra w) = []).
    { cbv iota beta in Qs. destruct (s_requests s - ss_count (s_st s) <=? 0); [cbn [fst] in Qs; now apply app_eq_nil in Qs as [Qs _]|].
      destruct (negb (Z.of_nat (length nm) =? s_requests s - ss_count (s_st s))); [cbn [fst] in Qs; now apply app_eq_nil in Qs as [Qs _]|].
      destruct (c_es (w_cfg w) && negb (r_esrules resp)); cbn [fst] in Qs; now apply app_eq_nil in Qs as [Qs _]. }
    apply infra_creates_nil in QC as (Sv&_&Pv). split; [reflexivity|]. split; [exact Sv|]. split; [|exact Pv].
    unfold cs1 in HR. rewrite has_set in HR. cbn in HR. exact HR.
  - exfalso. cbv iota beta in Qs.
    assert (CH : forall stx, ss_conds stx = smark_running cs1 CTrue RRunning -> stx <> s_st s).
    { intros stx E1 E2. rewrite E2 in E1.
      assert (X : has_cond (smark_running cs1 CTrue RRunning) SRunning = true) by (unfold smark_running; rewrite has_set, Nat.eqb_refl; reflexivity).
      rewrite <- E1 in X. unfold cs1 in HR. rewrite has_set in HR. cbn in HR. congruence. }
    destruct (s_requests s - ss_count (s_st s) <=? 0) eqn:En.
    + cbn [fst] in Qs. apply app_eq_nil in Qs as [_ Qs]. apply sstatus_write_nil in Qs. eapply CH; [|exact Qs]. reflexivity.
    + apply Z.leb_gt in En. rewrite Z.max_r in Ln by lia. rewrite Ln, Z.eqb_refl, GRr in Qs. cbn [negb andb] in Qs. rewrite andb_false_r in Qs.
      cbn [fst] in Qs. apply app_eq_nil in Qs as [_ Qs]. apply sstatus_write_nil in Qs. eapply CH; [|exact Qs]. reflexivity.
Qed.

(* C16 cleanup: a completed experiment with resumePolicy Never or FromVolume, at quiescence: its (non-failed) suggestion is
   Succeeded and the Deployment and the Service are gone *)
Theorem quiescent_cleanup w e s :
  InvS w -> quiescent w -> env_done w -> w_exp w = Some e -> e_completed (e_st e) = true ->
  c_resume (w_cfg w) <> LongRunning -> w_sug w = Some s -> s_is (s_st s) SFailed = false ->
  s_is (s_st s) SSucceeded = true /\ i_dep (w_infra w) = None /\ i_svc (w_infra w) = false.
Proof.
  intros I Q ED He C NL Hs NF. pose proof Q as Q0. destruct Q as ((Se&Ss&St)&Qe&Qt&Qs).
  destruct (s_is (s_st s) SSucceeded) eqn:SS.
  - assert (GR : exists resp, good_resp w resp).
    { exists {| r_valid := true; r_esvalid := true; r_esrules := true;
                r_reply := ReplyOk (repeat 0%nat (Z.to_nat (Z.max 0 (s_requests s - ss_count (s_st s))))) None |}.
      repeat split; auto. intros s0 Hs0. rewrite Ss, Hs in Hs0. inversion Hs0; subst s0. eexists _, _. split; [reflexivity|].
      rewrite repeat_length, Z2Nat.id; lia. }
    destruct GR as (resp&G). specialize (Qs resp G). unfold plan_sug in Qs. rewrite Ss, Hs, SS in Qs. cbn [fst] in Qs.
    apply app_eq_nil in Qs as [Q1 Q2]. split; [reflexivity|].
    split; [destruct (i_dep (w_infra w)); [discriminate|reflexivity]|destruct (i_svc (w_infra w)); [discriminate|reflexivity]].
  - exfalso.
    assert (NC : s_completed (s_st s) = false) by (unfold s_completed; now rewrite SS, NF).
    destruct (quiet_service_up w s I Q0 ED Hs NC) as (_&_&Run&_).
    assert (Hce : c_exp w = Some e) by congruence.
    destruct (i_exp _ I) as (e0&ce&He0&_&_&De&_). rewrite He in He0. inversion He0; subst e0.
    unfold plan_exp in Qe. rewrite Hce, De in Qe. cbn [negb andb] in Qe.
    destruct (e_fin e); [|discriminate]. cbn [negb andb] in Qe.
    assert (NR : s_restarting (s_st s) = false).
    { unfold s_restarting. unfold s_is, has_cond in Run. destruct (get_cond (ss_conds (s_st s)) SRunning) as [c|]; [|reflexivity].
      destruct (cstat c); cbn in *; congruence. }
    unfold plan_exp_completed in Qe. rewrite C, Ss, Hs, NC, NR in Qe.
    destruct (c_resume (w_cfg w)) eqn:R; [|congruence|];
      (destruct (restartable (w_cfg w) (e_st e) && _);
       [|destruct (n_running (es_counts (e_st e)) =? 0)];
       try discriminate;
       try (destruct (negb (e_is _ ECreated)); cbn [app] in Qe; discriminate)).
Qed.

(* the volume claim is never deleted: the only infrastructure the suggestion controller deletes is the Deployment and the Service *)
Lemma plan_sug_deletes w resp k onf :
  In (WInfraDelete k, onf) (fst (plan_sug w resp)) -> k = IDep \/ k = ISvc.
Proof.
  intro H. destruct (plan_sug_shape _ _ _ H) as (s&Hc&[(k'&[X|X])|(st&X&_)]); try (inversion X; fail).
  inversion X; subst k' onf. clear X.
  destruct (s_is (s_st s) SSucceeded) eqn:SS.
  - destruct (plan_sug_succeeded w resp s Hc SS) as (_&D). destruct (D _ H) as [X|X]; inversion X; auto.
  - exfalso. unfold plan_sug in H. rewrite Hc, SS in H.
    assert (NC : forall l, In (WInfraDelete k, Stop) l -> (forall x, In x l -> (exists k0, x = (WInfraCreate k0, Stop)) \/ exists st0 rv, x = (WSugStatus st0 rv, Stop)) -> False).
    { intros l Il Hl. destruct (Hl _ Il) as [(k0&X)|(st0&rv&X)]; inversion X. }
    assert (A : forall (l : list nat) st0, (forall x, In x (infra_creates (w_cfg w) (w_infra w) ++ sstatus_write s st0) ->
                  (exists k0, x = (WInfraCreate k0, Stop)) \/ exists st1 rv, x = (WSugStatus st1 rv, Stop))).
    { intros _ st0 x Hx. apply in_app_or in Hx as [Hx|Hx]; [left; now apply in_infra_creates in Hx|right; apply in_sstatus_write in Hx; eauto]. }
    assert (B : forall cs, (forall x, In x (infra_creates (w_cfg w) (w_infra w) ++ sstatus_write_conds s cs) ->
                  (exists k0, x = (WInfraCreate k0, Stop)) \/ exists st1 rv, x = (WSugStatus st1 rv, Stop))).
    { intros cs x Hx. apply in_app_or in Hx as [Hx|Hx]; [left; now apply in_infra_creates in Hx|right; apply in_sstatus_write_conds in Hx; eauto]. }
    destruct (negb (s_is (s_st s) SCreated)).
    { cbn [fst] in H. apply in_sstatus_write in H. inversion H. }
    repeat match type of H with
           | In _ (fst (match ?x with _ => _ end)) => destruct x
           | In _ (fst (if ?x then _ else _)) => destruct x
           end; cbn [fst] in H; try (eapply NC; [exact H|]; first [apply (A [])|apply B]).
Qed.
