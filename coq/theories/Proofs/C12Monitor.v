(* The boolean monitor of C12 (Corr/C12.v) is implied by the theorems about the model: the model's own verdict never
   fails the monitor, so an alarm of the monitor on an implementation verdict that agrees with the model is impossible. *)
From KV Require Import Base.Prelude Model.Inject Model.InjectSpec Proofs.InjectP Corr.C12.
Open Scope string_scope.
Open Scope list_scope.

Lemma nodupb_spec l : nodupb l = true <-> NoDup l.
Proof.
  induction l as [|a r IH]; cbn [nodupb]; [split; [constructor|reflexivity]|].
  rewrite andb_true_iff, negb_true_iff, IH. split.
  - intros [E N]. constructor; [|assumption]. intro I. apply existsb_seqb_in in I. congruence.
  - intro N. inversion N as [|? ? Na Nr]; subst. split; [|assumption].
    destruct (existsb (seqb a) r) eqn:E; [|reflexivity]. apply existsb_seqb_in in E. contradiction.
Qed.

Lemma dec2b_refl {A} (D : forall a b : A, {a = b} + {a <> b}) a : dec2b (D a a) = true.
Proof. now apply dec2b_true. Qed.

Lemma labels_ok_model K t pl : nodupb (keys pl) = true -> labels_ok K t pl (mutate_labels K pl t) = true.
Proof.
  intro N. unfold labels_ok. apply andb_true_iff. split.
  - apply nodupb_spec. apply nodup_mutate_labels. now apply nodupb_spec.
  - apply forallb_forall. intros k _. apply dec2b_true. apply mutate_labels_spec.
Qed.

Lemma frame_ok_set p l cs vs sh : frame_ok p (set_pod p l cs vs sh) = true.
Proof. unfold frame_ok, set_pod. cbn. now rewrite !dec2b_refl, Nat.eqb_refl. Qed.

Lemma expected_container_no_wrap W t col mp isf pidx argv argv' cs :
  need_wrap (t_kind t) = false ->
  mapi (expected_container W t col mp isf pidx argv) cs = mapi (expected_container W t col mp isf pidx argv') cs.
Proof.
  intro N. unfold mapi. apply mapi_from_ext. intros j c _. unfold expected_container. rewrite N, andb_false_r. reflexivity.
Qed.

Lemma trial_monitor_model W t p :
  nodupb (keys (p_labels p)) = true ->
  trial_monitor W t p (match mutate_with W t p with Ok p' => Patched p' | Err e => Rejected 2 e | Crash s => Panicked s end) = true.
Proof.
  intro ND. unfold trial_monitor. destruct (labels_only_class t p) eqn:LC.
  - assert (H : is_primary_pod (p_labels p) (t_primary_pod_labels t) = false \/ t_kind t = KPush).
    { unfold labels_only_class in LC. apply orb_true_iff in LC as [LC|LC]; [left; now apply negb_true_iff|].
      right. destruct (t_kind t); congruence. }
    rewrite (labels_only W t p H). unfold labels_only_ok. cbn [p_labels p_containers p_volumes p_share set_pod].
    rewrite labels_ok_model by assumption. rewrite frame_ok_set. unfold containers_eqb, volumes_eqb.
    now rewrite !dec2b_refl.
  - unfold labels_only_class in LC. apply orb_false_iff in LC as [L1 L2]. apply negb_false_iff in L1.
    assert (Np : t_kind t <> KPush) by (intro E; rewrite E in L2; discriminate).
    destruct (mutate_with W t p) as [p'|e|s] eqn:M.
    + destruct (primary_shape W t p p' M L1 Np) as (pidx&pc&col&mp&isf&argv&PI&Npc&CC&MP&Ha&->).
      unfold primary_ok. rewrite PI, MP, (collector_base_spec _ _ _ _ CC), Npc.
      destruct (need_wrap (t_kind t) && match c_command pc with [] => true | _ :: _ => false end) eqn:Cmd; [reflexivity|].
      assert (EQ : mapi (expected_container W t (c_name col) mp isf pidx argv) (p_containers p) =
                   mapi (expected_container W t (c_name col) mp isf pidx (c_command pc ++ c_args pc)) (p_containers p)).
      { destruct (need_wrap (t_kind t)) eqn:NW.
        - cbn [andb] in Cmd. destruct (Ha eq_refl) as [C _].
          rewrite container_command_explicit in C by (destruct (c_command pc); [discriminate|discriminate]).
          now injection C as <-.
        - now apply expected_container_no_wrap. }
      rewrite EQ.
      cbn [p_labels p_containers p_volumes p_share set_pod].
      rewrite labels_ok_model by assumption. rewrite frame_ok_set. unfold containers_eqb, volumes_eqb.
      now rewrite !dec2b_refl.
    + apply negb_true_iff. destruct (admissible W t p) eqn:A; [|reflexivity]. exfalso.
      unfold admissible in A. apply andb_true_iff in A as [A SX]. apply andb_true_iff in A as [A EX].
      apply andb_true_iff in A as [A CR].
      destruct (primary_index (p_containers p) (t_primary_container t)) as [i|] eqn:PI; [|discriminate].
      destruct (nth_error (p_containers p) i) as [pc|] eqn:Npc; [|discriminate].
      destruct (primary_admitted W t p i pc L1 Np PI Npc) as (p'&E); auto; [|congruence].
      intro NW. rewrite NW in A. cbn in A. destruct (c_command pc); [discriminate|discriminate].
    + apply negb_true_iff. destruct (admissible W t p) eqn:A; [|reflexivity]. exfalso.
      unfold admissible in A. apply andb_true_iff in A as [A SX]. apply andb_true_iff in A as [A EX].
      apply andb_true_iff in A as [A CR].
      destruct (primary_index (p_containers p) (t_primary_container t)) as [i|] eqn:PI; [|discriminate].
      destruct (nth_error (p_containers p) i) as [pc|] eqn:Npc; [|discriminate].
      destruct (primary_admitted W t p i pc L1 Np PI Npc) as (p'&E); auto; [|congruence].
      intro NW. rewrite NW in A. cbn in A. destruct (c_command pc); [discriminate|discriminate].
Qed.

Theorem monitor_model W ns p :
  walk_pod W ns (case_fuel W) p <> OutOfFuel ->
  monitor W ns p (handle W ns (case_fuel W) p) = true.
Proof.
  intro Nf. unfold monitor, pod_jobs.
  destruct (jobs (w_consts W) (w_objects W) ns (case_fuel W) (p_kind p) (p_name p) (p_owners p)) as [|job rest] eqn:J.
  - unfold handle, mutation_required. destruct (walk_pod W ns (case_fuel W) p) as [k n|e|] eqn:Wk.
    + apply walk_in_jobs in Wk. rewrite J in Wk. destruct Wk.
    + reflexivity.
    + now elim Nf.
  - destruct (regular _ _ _ _ _ _ && forallb (seqb job) rest && nodupb (keys (p_labels p))) eqn:C; [|reflexivity].
    apply andb_true_iff in C as [C ND]. apply andb_true_iff in C as [R A].
    destruct (walk_regular (w_consts W) (w_objects W) ns (case_fuel W) (p_kind p) (p_name p) (p_owners p) R) as [(k&n&Wk)|[_ E]];
      [|congruence].
    assert (n = job).
    { pose proof (walk_in_jobs _ _ _ _ _ _ _ _ _ Wk) as I. rewrite J in I. destruct I as [<-|I]; [reflexivity|].
      rewrite forallb_forall in A. specialize (A n I). now apply seqb_eq in A. }
    subst n. destruct (find_trial W ns job) as [t|] eqn:Ft; [|reflexivity].
    rewrite (handle_katib W ns _ p k job t Wk Ft). now apply trial_monitor_model.
Qed.
