(* C10 — lemmas about the settings override (Model/Settings.v). *)
From KV Require Import Base.Prelude Model.Convert Model.Settings.
Open Scope string_scope.

(* the index-based transcription is an update-or-append *)
Fixpoint upsert (l : list kv) (s : kv) : list kv :=
  match l with
  | [] => [KV (k_name s) (k_value s)]
  | x :: r => if k_name x =? k_name s then KV (k_name x) (k_value s) :: r else x :: upsert r s
  end.

Lemma apply_upsert l s : apply_setting l s = upsert l s.
Proof.
  induction l as [|a l IH]; [reflexivity|].
  unfold apply_setting. cbn [contains upsert].
  destruct (k_name a =? k_name s); [reflexivity|].
  rewrite <- IH. unfold apply_setting. destruct (contains l (k_name s)) as [i|]; reflexivity.
Qed.

Lemma lookup_upsert n l s : lookup n (upsert l s) = if k_name s =? n then Some (k_value s) else lookup n l.
Proof.
  induction l as [|a l IH]; cbn [upsert lookup k_name k_value].
  - reflexivity.
  - destruct (String.eqb_spec (k_name a) (k_name s)) as [E|NE]; cbn [lookup k_name k_value].
    + rewrite E. destruct (k_name s =? n); reflexivity.
    + rewrite IH. destruct (String.eqb_spec (k_name a) n) as [E2|NE2]; [|reflexivity].
      destruct (String.eqb_spec (k_name s) n); [congruence|reflexivity].
Qed.

Lemma mem_In s l : mem s l = true <-> In s l.
Proof.
  unfold mem. rewrite existsb_exists. split.
  - intros [x [I E]]. apply String.eqb_eq in E. now subst.
  - intro I. exists s. split; [exact I|apply String.eqb_refl].
Qed.

Lemma mem_false s l : mem s l = false <-> ~ In s l.
Proof. rewrite <- mem_In. destruct (mem s l); split; congruence. Qed.

Lemma mem_app s l1 l2 : mem s (l1 ++ l2) = mem s l1 || mem s l2.
Proof. unfold mem. apply existsb_app. Qed.

Lemma names_upsert l s :
  names (upsert l s) = if mem (k_name s) (names l) then names l else (names l ++ [k_name s])%list.
Proof.
  induction l as [|a l IH]; cbn [upsert names map mem existsb]; [reflexivity|].
  rewrite (String.eqb_sym (k_name s) (k_name a)).
  destruct (k_name a =? k_name s); cbn [orb names map k_name]; [reflexivity|].
  fold (names (upsert l s)). rewrite IH. fold (names l). unfold mem.
  destruct (existsb (String.eqb (k_name s)) (names l)); reflexivity.
Qed.

(* ------------------------------------------------------------------ merge *)

Lemma lookup_merge n sug : forall spec,
  lookup n (merge_settings spec sug) =
  match lookup_last n sug with Some v => Some v | None => lookup n spec end.
Proof.
  unfold merge_settings. induction sug as [|s r IH]; intro spec; cbn [fold_left lookup_last]; [reflexivity|].
  rewrite IH, apply_upsert, lookup_upsert.
  destruct (lookup_last n r); [reflexivity|]. destruct (k_name s =? n); reflexivity.
Qed.

Lemma names_merge sug : forall spec,
  names (merge_settings spec sug) = (names spec ++ new_names (names spec) sug)%list.
Proof.
  unfold merge_settings. induction sug as [|s r IH]; intro spec; cbn [fold_left new_names].
  - now rewrite app_nil_r.
  - rewrite IH, apply_upsert, names_upsert.
    destruct (mem (k_name s) (names spec)); [reflexivity|]. now rewrite <- app_assoc.
Qed.

Lemma new_names_In n sug : forall seen, In n (new_names seen sug) <-> In n (names sug) /\ ~ In n seen.
Proof.
  induction sug as [|s r IH]; intro seen; cbn [new_names names map In].
  - tauto.
  - destruct (mem (k_name s) seen) eqn:M.
    + apply mem_In in M. rewrite IH. fold (names r). split; [tauto|].
      intros [[E|I] N]; [subst; contradiction|tauto].
    + apply mem_false in M. cbn [In]. rewrite IH, in_app_iff. fold (names r). cbn [In].
      destruct (string_dec (k_name s) n) as [E|NE]; [subst; tauto|tauto].
Qed.

Lemma new_names_NoDup sug : forall seen, NoDup (new_names seen sug).
Proof.
  induction sug as [|s r IH]; intro seen; cbn [new_names]; [constructor|].
  destruct (mem (k_name s) seen); [apply IH|].
  constructor; [|apply IH]. rewrite new_names_In, in_app_iff. cbn [In]. tauto.
Qed.

Lemma lookup_last_None n l : lookup_last n l = None <-> ~ In n (names l).
Proof.
  induction l as [|a l IH]; cbn [lookup_last names map In]; [tauto|]. fold (names l).
  destruct (lookup_last n l).
  - split; [discriminate|]. intro H. exfalso.
    destruct (in_dec string_dec n (names l)) as [I|NI]; [apply H; now right|apply IH in NI; discriminate].
  - destruct (String.eqb_spec (k_name a) n); [split; [discriminate|tauto]|]. tauto.
Qed.

Lemma lookup_None n l : lookup n l = None <-> ~ In n (names l).
Proof.
  induction l as [|a l IH]; cbn [lookup names map In]; [tauto|]. fold (names l).
  destruct (String.eqb_spec (k_name a) n); [split; [discriminate|tauto]|]. tauto.
Qed.

(* the last value under a name: the entry after which the name does not occur any more *)
Lemma lookup_last_spec n l v :
  lookup_last n l = Some v <-> exists l1 l2, l = (l1 ++ KV n v :: l2)%list /\ ~ In n (names l2).
Proof.
  revert v. induction l as [|a l IH]; intro v; cbn [lookup_last].
  - split; [discriminate|]. intros [l1 [l2 [E _]]]. destruct l1; discriminate.
  - destruct (lookup_last n l) as [w|] eqn:L.
    + split.
      * intros [= <-]. destruct (proj1 (IH w) eq_refl) as [l1 [l2 [E N]]]. exists (a :: l1), l2. now subst.
      * intros [l1 [l2 [E N]]]. destruct l1 as [|b l1]; cbn in E; injection E as -> ->.
        -- exfalso. apply lookup_last_None in N. cbn [lookup_last] in L. congruence.
        -- apply (proj2 (IH v)). eauto.
    + apply lookup_last_None in L. destruct (String.eqb_spec (k_name a) n) as [E|NE].
      * split.
        -- intros [= <-]. exists [], l. destruct a; cbn in *; subst. auto.
        -- intros [l1 [l2 [E2 N]]]. destruct l1 as [|b l1]; cbn in E2; injection E2 as -> ->; [reflexivity|].
           exfalso. apply L. unfold names. rewrite map_app, in_app_iff. right. now left.
      * split; [discriminate|]. intros [l1 [l2 [E2 N]]]. destruct l1 as [|b l1]; cbn in E2; injection E2 as -> ->.
        -- now cbn in NE.
        -- exfalso. apply L. unfold names. rewrite map_app, in_app_iff. right. now left.
Qed.

(* updateAlgorithmSettings is the same merge, over the non-nil entries of the reply *)
Lemma update_is_merge reply : forall status, update_settings status reply = merge_settings status (somes reply).
Proof.
  unfold update_settings, merge_settings. induction reply as [|[s|] r IH]; intro status; cbn [fold_left somes flat_map app]; auto.
Qed.

Theorem settings_override_thm : forall spec sug,
  (forall n, lookup n (merge_settings spec sug) = match lookup_last n sug with Some v => Some v | None => lookup n spec end) /\
  names (merge_settings spec sug) = (names spec ++ new_names (names spec) sug)%list /\
  NoDup (new_names (names spec) sug) /\
  (forall n, In n (new_names (names spec) sug) <-> In n (names sug) /\ ~ In n (names spec)).
Proof.
  intros spec sug. split; [intro n; apply lookup_merge|]. split; [apply names_merge|].
  split; [apply new_names_NoDup|intro n; apply new_names_In].
Qed.

Theorem settings_remembered : forall status reply, update_settings status reply = merge_settings status (somes reply).
Proof. intros. apply update_is_merge. Qed.
