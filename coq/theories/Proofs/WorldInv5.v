(* The invariant is inductive: planning, steps, reachability; and the budget theorems it implies. *)
From KV Require Import Base.Prelude Base.Cond Model.World Proofs.WorldPlan Proofs.WorldInv Proofs.WorldInv2 Proofs.WorldInv3 Proofs.WorldInv4.
Open Scope Z_scope.

(* ------------------------------------------------------------------ plans are justified *)

Lemma inv_csug w cs : InvS w -> c_sug w = Some cs ->
  exists s, w_sug w = Some s /\ sle cs s /\ swf cs /\ ss_count (s_st cs) <= g_maxreq w /\ s_requests cs <= g_maxreq w.
Proof.
  intros I Hc. pose proof (i_sug _ I) as S. destruct (w_sug w) as [s|].
  - destruct S as (_&_&_&_&S). rewrite Hc in S. exists s. tauto.
  - destruct S as (S&_). congruence.
Qed.

Lemma keep_status_ok w cs st :
  InvS w -> c_sug w = Some cs -> ss_names st = ss_names (s_st cs) -> ss_count st = ss_count (s_st cs) ->
  write_ok w (WSugStatus st (s_rv cs), Stop).
Proof.
  intros I Hc N C. destruct (inv_csug _ _ I Hc) as (s&Hs&(R&E&l&Nl)&W&G&_).
  unfold write_ok. cbn [fst]. rewrite N, C. split; [exact W|]. split; [rewrite <- W; exact G|].
  exists s. split; [exact Hs|]. split; [exact R|]. intro Q. rewrite (E Q). exists []. now rewrite app_nil_r.
Qed.

Lemma plan_exp_ok w : InvS w -> Forall (write_ok w) (plan_exp w).
Proof.
  intro I. apply Forall_forall. intros x Hx.
  destruct (plan_exp_shape _ _ Hx) as (ce&Hce&H).
  destruct (i_exp _ I) as (e&ce'&He&Hce'&L&De&Dce&Ne&Nce). rewrite Hce in Hce'. inversion Hce'; subst ce'.
  destruct (H (status_ok_nonneg _ _ Nce)) as [(add&->)|[(st&->&NN)|[(s&cs'&Hs&->)|[->|(r&(B1&B2)&Hr)]]]]; unfold write_ok; cbn [fst]; auto.
  - split.
    { destruct (plan_exp_status_classes _ _ _ _ _ Hce Hx) as [(K1&K2)|(K1&K2)].
      - destruct Nce as [W1 W2]. split; [unfold status_wf; now rewrite K1, K2|now rewrite K1].
      - split; [exact K2|]. rewrite K1, map_length. apply (tlag_length _ _ (i_tlag _ I)). }
    exists e. split; [exact He|]. destruct L as (R&E&_). split; [exact R|].
    intros Q C Rs. rewrite <- (E Q) in *. eapply plan_exp_settled; eauto.
  - apply (keep_status_ok w s _ I Hs); reflexivity.
  - assert (RO : req_ok w r).
    { split.
      - pose proof (tlag_completed _ _ (i_tlag _ I)). lia.
      - intros e0 m He0 Hm. rewrite He in He0. inversion He0; subst e0. destruct L as (_&_&M). rewrite Hm in M.
        destruct (e_max ce) as [m'|] eqn:Em; [|destruct M]. cbn in M. specialize (B2 _ eq_refl). lia. }
    destruct Hr as [(_&->)|(s&Hs&[->|(n&->&In)])]; cbn [fst]; auto.
    destruct (inv_csug _ _ I Hs) as (s'&Hs'&(_&_&l&Nl)&_). exists s'. split; [exact Hs'|]. rewrite Nl. apply in_or_app. now left.
Qed.

Lemma plan_sug_ok w resp : InvS w -> Forall (write_ok w) (fst (plan_sug w resp)).
Proof.
  intro I. apply Forall_forall. intros x Hx.
  destruct (plan_sug_shape _ _ _ Hx) as (cs&Hc&[(k&[->| ->])|(st&->&Sh)]); try exact Logic.I.
  destruct Sh as [(N&C&_)|(nm&sett&_&Ln&Pos&N&C)].
  - now apply keep_status_ok.
  - destruct (inv_csug _ _ I Hc) as (s&Hs&(R&E&l&Nl)&W&G&Rq).
    unfold write_ok. cbn [fst]. split; [exact C|]. split.
    + rewrite N, app_length, Nat2Z.inj_add, Ln, <- W. lia.
    + exists s. split; [exact Hs|]. split; [exact R|]. intro Q. rewrite <- (E Q). eauto.
Qed.

Lemma plan_trial_ok w key dberr : InvS w -> Forall (write_ok w) (plan_trial w key dberr).
Proof.
  intro I. apply Forall_forall. intros x Hx.
  destruct (plan_trial_shape _ _ _ _ Hx) as (t&F&N&[(->&_)|[(P&_)|[(->&_)|[(->&_)|[(->&_)|(cs&o&ct&->&K)]]]]]); try exact Logic.I.
  - rewrite P in Hx. destruct Hx as [<-|[<-|[]]]; exact Logic.I.
  - destruct (tlag_find _ _ _ _ (i_tlag _ I) F) as (t'&F'&(_&R&E&_)).
    unfold write_ok. cbn [fst]. exists t'. split; [exact F'|]. split; [exact R|].
    intros Q. rewrite <- (E Q). split; [exact K|].
    destruct (plan_trial_good _ _ _ _ _ _ _ _ _ Hx) as (t0&F0&G0). rewrite F in F0. inversion F0; subst t0. exact G0.
Qed.

(* ------------------------------------------------------------------ steps *)

Lemma evolves_store_eq w w' :
  w_cfg w' = w_cfg w -> w_exp w' = w_exp w -> w_sug w' = w_sug w -> w_trials w' = w_trials w -> g_maxreq w' = g_maxreq w ->
  evolves w w'.
Proof.
  intros E1 E2 E3 E4 E5. constructor; rewrite ?E1, ?E2, ?E3, ?E4, ?E5; auto using tlag_refl; try lia.
  - intros e H. exists e. auto using ele_refl.
  - intros e H. exists e. auto using ele_refl.
  - intros s H. exists s. auto using sle_refl.
Qed.

Lemma has_cond_app_l cs ds k : has_cond cs k = true -> has_cond (cs ++ ds) k = true.
Proof. unfold has_cond. rewrite get_app. destruct (get_cond cs k); [auto|discriminate]. Qed.

Definition pendings_eq (w w' : world) : Prop := p_exp w' = p_exp w /\ p_sug w' = p_sug w /\ p_trial w' = p_trial w.

Lemma InvP_frame w w' : core_eq w w' -> pendings_eq w w' -> InvP w -> InvP w'.
Proof. intros C (E1&E2&E3). apply InvP_mono; auto. now apply evolves_core. Qed.

Lemma Inv_set_pending w c p : InvS w -> InvP w -> Forall (write_ok w) p -> Inv (set_pending w c p).
Proof.
  intros I (A&B&C) P. split.
  - eapply InvS_frame; [|exact I]. core.
  - assert (CE : core_eq w (set_pending w c p)) by core.
    destruct c; cbn; (repeat split; eapply Forall_impl; try eassumption; intros; eapply write_ok_frame; eauto).
Qed.

Lemma Forall_tail {A} (P : A -> Prop) a l : Forall P (a :: l) -> Forall P l.
Proof. now inversion 1. Qed.

Lemma pending_of_ok w c : InvP w -> Forall (write_ok w) (pending_of w c).
Proof. intros (A&B&C). destruct c; assumption. Qed.

Lemma evolves_trans a b c : evolves a b -> evolves b c -> evolves a c.
Proof.
  intros [A1 A2 A2' A3 A4 A5] [B1 B2 B2' B3 B4 B5]. constructor; [congruence| | | |eapply tlag_trans; eauto|lia].
  - intros e' He'. destruct (B2 _ He') as (e&He&L). destruct (A2 _ He) as (e0&He0&L0). exists e0. split; [exact He0|eapply ele_trans; eauto].
  - intros e He. destruct (A2' _ He) as (e1&He1&L1). destruct (B2' _ He1) as (e2&He2&L2). exists e2. split; [exact He2|eapply ele_trans; eauto].
  - intros s Hs. destruct (A3 _ Hs) as (s1&Hs1&L1). destruct (B3 _ Hs1) as (s2&Hs2&L2). exists s2. split; [exact Hs2|eapply sle_trans; eauto].
Qed.

Lemma evolves_set_pending w c p : evolves w (set_pending w c p).
Proof. apply evolves_store_eq; reflexivity. Qed.

Lemma step_inv2 w a : is_teardown a = false -> Inv w -> Inv (step w a) /\ evolves w (step w a).
Proof.
  intros NT [I P]. destruct a; try discriminate; cbn [step].
  - (* Begin *)
    destruct (pending_of w c) eqn:Ep; [|split; [split; assumption|apply evolves_refl]].
    assert (T : forall w', Inv w' -> Inv (tick w')).
    { intros w' [I' P']. split; [eapply InvS_frame; [|exact I']; core|eapply InvP_frame; [| |exact P']; [core|side]]. }
    destruct c.
    + split; [|apply evolves_store_eq; reflexivity]. apply T. apply Inv_set_pending; auto using plan_exp_ok.
    + destruct (plan_sug w resp) as [p rpcs] eqn:Ps. split; [|apply evolves_store_eq; reflexivity]. apply T.
      assert (Inv (set_pending w CSug p)) as [I1 P1].
      { apply Inv_set_pending; auto. change p with (fst (p, rpcs)). rewrite <- Ps. now apply plan_sug_ok. }
      split; [eapply InvS_frame; [|exact I1]; core|eapply InvP_frame; [| |exact P1]; [core|side]].
    + split; [|apply evolves_store_eq; reflexivity]. apply T. apply Inv_set_pending; auto using plan_trial_ok.
  - (* Write *)
    destruct (pending_of w c) as [|[wr onf] rest] eqn:Ep; [split; [split; assumption|apply evolves_refl]|].
    pose proof (pending_of_ok w c P) as Pc. rewrite Ep in Pc.
    assert (CW : core_eq w (count_write w)) by core.
    assert (I0 : InvS (count_write w)) by (eapply InvS_frame; eauto).
    assert (P0 : InvP (count_write w)) by (eapply InvP_frame; [exact CW|side|exact P]).
    assert (Rest : forall w', evolves (count_write w) w' -> Forall (write_ok w') rest /\ Forall (write_ok w') (match onf with Stop => [] | Cont => rest end)).
    { intros w' E. assert (R : Forall (write_ok w') rest).
      { apply Forall_tail in Pc. eapply Forall_impl; [|exact Pc]. intros. eapply write_ok_mono; [exact E|]. eapply write_ok_frame; eauto. }
      split; [exact R|]. destruct onf; [constructor|exact R]. }
    destruct (if inject_failure then None else apply_write (count_write w) wr) as [w1|] eqn:A.
    + destruct inject_failure; [discriminate|].
      assert (OK : write_ok (count_write w) (wr, onf)) by (inversion Pc; subst; eapply write_ok_frame; eauto).
      destruct (apply_write_inv _ _ _ _ I0 OK A) as (I1&E1&(S1&S2&S3&S4&S5&S6&S7)).
      split.
      * apply Inv_set_pending; [exact I1| |apply (Rest _ E1)].
        eapply InvP_mono; [exact E1|assumption|assumption|assumption|exact P0].
      * eapply evolves_trans; [apply evolves_core; exact CW|]. eapply evolves_trans; [exact E1|apply evolves_set_pending].
    + split; [apply Inv_set_pending; [exact I0|exact P0|apply (Rest _ (evolves_refl _))]|].
      eapply evolves_trans; [apply evolves_core; exact CW|apply evolves_set_pending].
  - (* Abort *)
    split; [apply Inv_set_pending; auto|apply evolves_set_pending].
  - (* JobDone *)
    split; [|apply evolves_store_eq; reflexivity].
    split; [eapply InvS_frame; [|exact I]; core|eapply InvP_frame; [| |exact P]; [core|side]].
  - (* JobGone *)
    split; [|apply evolves_store_eq; reflexivity].
    split; [eapply InvS_frame; [|exact I]; core|eapply InvP_frame; [| |exact P]; [core|side]].
  - (* Metrics *)
    destruct (find_trial t (w_trials w)); [|split; [split; assumption|apply evolves_refl]].
    split; [|apply evolves_store_eq; reflexivity].
    split; [eapply InvS_frame; [|exact I]; core|eapply InvP_frame; [| |exact P]; [core|side]].
  - (* EarlyStop *)
    destruct (find_trial t (w_trials w)) as [tr|] eqn:F; [|split; [split; assumption|apply evolves_refl]].
    destruct (c_es (w_cfg w) && t_is tr TCreated && negb (t_completed tr) && negb (t_deleting tr) && match find_job t (w_jobs w) with Some _ => true | None => false end) eqn:EG; [|split; [split; assumption|apply evolves_refl]].
    set (w1 := match v, db_get t (w_db w) with Some z, None => set_db w (w_db w ++ [(t, Some z)]) | _, _ => w end).
    assert (C1 : core_eq w w1) by (unfold w1; destruct v, (db_get t (w_db w)); core).
    assert (S1 : pendings_eq w w1) by (unfold w1; destruct v, (db_get t (w_db w)); side).
    assert (I1 : InvS w1) by (eapply InvS_frame; eauto).
    assert (P1 : InvP w1) by (eapply InvP_frame; eauto).
    assert (F1 : find_trial t (w_trials w1) = Some tr) by (destruct C1 as (_&_&_&->&_); exact F).
    assert (NC : t_completed tr = false).
    { match goal with H : _ && negb (t_completed tr) && _ && _ = true |- _ => apply andb_true_iff in H as [H _]; apply andb_true_iff in H as [H _]; apply andb_true_iff in H as [_ H]; now apply negb_true_iff in H end. }
    edestruct (trial_update_inv w1 t) as [I2 E2]; [exact I1|exact F1| | | | |split; [split; [exact I2|]|]]; cbn; auto.
    all: try (repeat split; cbn; auto; try lia; intros k K Hk; unfold t_is in *; cbn [t_conds]; now apply has_cond_app_l).
    all: try (eapply InvP_mono; [exact E2| | | |exact P1]; reflexivity).
    all: try (eapply evolves_trans; [apply evolves_core; exact C1|exact E2]).
    (* the early-stopped trial is neither Succeeded nor MetricsUnavailable *)
    unfold tgood, good_conds. cbn [t_conds t_obs].
    apply not_completed_parts in NC as (S0&_&_&_&M0). unfold t_is in S0, M0. split; intro S; exfalso.
    + unfold has_cond in S. rewrite get_app in S. unfold has_cond in S0.
      destruct (get_cond (t_conds tr) TSucceeded); [congruence|]. cbn in S. discriminate.
    + unfold has_cond in S. rewrite get_app in S. unfold has_cond in M0.
      destruct (get_cond (t_conds tr) TMetricsUnavailable); [congruence|]. cbn in S. discriminate.
  - (* DeployAvailable *)
    destruct (i_dep (w_infra w)); [|split; [split; assumption|apply evolves_refl]].
    split; [|apply evolves_store_eq; reflexivity].
    split; [eapply InvS_frame; [|exact I]; core|eapply InvP_frame; [| |exact P]; [core|side]].
  - (* SyncExp *)
    split; [|apply evolves_store_eq; reflexivity].
    split; [|eapply InvP_mono; [apply evolves_store_eq; reflexivity| | | |exact P]; reflexivity].
    destruct I as [A B C D F G H J K]. constructor; cbn; auto.
    destruct B as (e&ce&He&Hce&L&De&Dce&Ne&Nce). exists e, e. split; [exact He|]. split; [exact He|]. split; [apply ele_refl|]. auto.
  - (* SyncSug *)
    split; [|apply evolves_store_eq; reflexivity].
    split; [|eapply InvP_mono; [apply evolves_store_eq; reflexivity| | | |exact P]; reflexivity].
    destruct I as [A B C D F G H J K]. constructor; cbn; auto.
    destruct (w_sug w) as [s|]; [|tauto]. destruct H as (W0&C0&R0&In0&_).
    split; [exact W0|]. split; [exact C0|]. split; [exact R0|]. split; [exact In0|]. split; [apply sle_refl|]. auto.
  - (* SyncTrials *)
    split; [|apply evolves_store_eq; reflexivity].
    split; [|eapply InvP_mono; [apply evolves_store_eq; reflexivity| | | |exact P]; reflexivity].
    destruct I as [A B C D F G H J K]. constructor; cbn; auto using tlag_refl.
  - (* UserRaiseMax *)
    destruct (w_exp w) as [e|] eqn:He; [|split; [split; assumption|apply evolves_refl]].
    destruct (e_max e) as [m|] eqn:Em; [|split; [split; assumption|apply evolves_refl]].
    destruct ((m <? n) && negb (e_deleting e) && (negb (e_completed (e_st e)) || restartable (w_cfg w) (e_st e))) eqn:Eg; [|split; [split; assumption|apply evolves_refl]].
    apply andb_true_iff in Eg as [Eg _]. apply andb_true_iff in Eg as [Lt Nd]. apply Z.ltb_lt in Lt. apply negb_true_iff in Nd.
    set (e' := {| e_max := Some n; e_fin := e_fin e; e_deleting := e_deleting e; e_st := e_st e; e_rv := S (e_rv e) |}).
    assert (L : ele e e') by (repeat split; cbn; [lia|lia|rewrite Em; cbn; lia]).
    assert (EV : evolves w (set_exp w (Some e'))).
    { constructor; cbn; auto using tlag_refl; try lia.
      - intros e1 [= <-]. eauto.
      - intros e1 He1. rewrite He in He1. inversion He1; subst e1. eauto.
      - intros s Hs. exists s. auto using sle_refl. }
    split; [|exact EV].
    split; [|eapply InvP_mono; [exact EV| | | |exact P]; reflexivity].
    destruct I as [A B C D F G H J K]. constructor; cbn; auto.
    + destruct B as (e0&ce&He0&Hce&L0&D0&D1&N0&N1). rewrite He in He0. inversion He0; subst e0.
      exists e', ce. split; [reflexivity|]. split; [exact Hce|]. split; [eapply ele_trans; eauto|]. auto.
    + destruct J as (J1&J2&J3). repeat split; auto. intros e1 m1 [= <-] [= <-]. specialize (J3 _ _ He Em). lia.
Qed.

Lemma step_inv w a : is_teardown a = false -> Inv w -> Inv (step w a).
Proof. intros NT I. now apply step_inv2. Qed.

(* ------------------------------------------------------------------ reachability *)

Definition no_teardown (acts : list action) : Prop := forallb (fun a => negb (is_teardown a)) acts = true.

Lemma Inv_init c : valid_cfg c -> Inv (init c).
Proof.
  intros (Hp&Hm&_). split.
  - constructor; cbn; auto using tlag_nil; try lia.
    + eexists _, _. split; [reflexivity|]. split; [reflexivity|]. split; [apply ele_refl|].
      cbn. unfold status_ok, status_wf. cbn. repeat split; lia.
    + constructor.
    + split; [lia|]. split; [unfold completed_n; cbn; lia|].
      intros e m [= <-] Hm'. cbn in Hm'. rewrite Hm' in Hm. lia.
  - repeat split; constructor.
Qed.

Lemma no_teardown_cons a l : no_teardown (a :: l) -> is_teardown a = false /\ no_teardown l.
Proof. unfold no_teardown. cbn. rewrite andb_true_iff, negb_true_iff. tauto. Qed.

Lemma no_teardown_app l1 l2 : no_teardown (l1 ++ l2) -> no_teardown l1 /\ no_teardown l2.
Proof. unfold no_teardown. rewrite forallb_app, andb_true_iff. tauto. Qed.

Lemma Inv_steps acts : forall w, Inv w -> no_teardown acts -> Inv (fold_left step acts w).
Proof.
  induction acts as [|a acts IH]; intros w I NT; [exact I|].
  apply no_teardown_cons in NT as [Na NT]. cbn. apply IH; [now apply step_inv|exact NT].
Qed.

Theorem Inv_reachable c acts : valid_cfg c -> no_teardown acts -> Inv (run c acts).
Proof. intros V NT. apply Inv_steps; [now apply Inv_init|exact NT]. Qed.

Lemma evolves_steps acts : forall w, Inv w -> no_teardown acts -> evolves w (fold_left step acts w).
Proof.
  induction acts as [|a acts IH]; intros w I NT; [apply evolves_refl|].
  apply no_teardown_cons in NT as [Na NT]. cbn. destruct (step_inv2 w a Na I) as [I1 E1].
  eapply evolves_trans; [exact E1|apply IH; assumption].
Qed.

(* every later state is an evolution of every earlier one *)
Theorem evolves_later c acts1 acts2 :
  valid_cfg c -> no_teardown (acts1 ++ acts2) -> evolves (run c acts1) (run c (acts1 ++ acts2)).
Proof.
  intros V NT. apply no_teardown_app in NT as [N1 N2]. unfold run. rewrite fold_left_app.
  apply evolves_steps; [apply (Inv_reachable c acts1 V N1)|exact N2].
Qed.

(* ------------------------------------------------------------------ consequences: the budget *)

Lemma filter_split_length {A} (f : A -> bool) l :
  (length (filter f l) + length (filter (fun x => negb (f x)) l) = length l)%nat.
Proof. induction l as [|a l IH]; cbn; [reflexivity|]. destruct (f a); cbn; lia. Qed.

Lemma inv_count_le w : InvS w ->
  Z.of_nat (length (w_trials w)) <= g_maxreq w.
Proof.
  intro I. pose proof (i_sug _ I) as S. destruct (w_sug w) as [s|].
  - destruct S as (W&C&_&In&_). pose proof (NoDup_incl_length (i_nodup _ I) In) as L.
    unfold names in L. rewrite map_length in L. unfold swf in W. lia.
  - destruct S as (_&->). destruct (i_bud _ I). cbn. lia.
Qed.

Theorem budget_of_inv w : InvS w ->
  (forall e m, w_exp w = Some e -> e_max e = Some m -> Z.of_nat (length (w_trials w)) <= m) /\
  Z.of_nat (length (filter (fun t => negb (t_completed t)) (w_trials w))) <= c_par (w_cfg w).
Proof.
  intro I. pose proof (inv_count_le _ I) as L. destruct (i_bud _ I) as (B0&B1&B2). split.
  - intros e m He Hm. specialize (B2 _ _ He Hm). lia.
  - pose proof (filter_split_length t_completed (w_trials w)). unfold completed_n in B1. lia.
Qed.

(* trials are never removed outside teardown: "ever existed" = "exists now" *)
Lemma step_names_incl w a : is_teardown a = false -> Inv w -> incl (names (w_trials w)) (names (w_trials (step w a))).
Proof.
  intros NT [I P]. destruct a; try discriminate; cbn [step].
  all: try solve [repeat match goal with
              | |- context [match ?x with _ => _ end] => destruct x
              | |- context [if ?x then _ else _] => destruct x
              end; cbn; rewrite ?upd_trial_names by reflexivity; apply incl_refl].
  2: { destruct (find_trial t (w_trials w)) as [tr|]; [|apply incl_refl].
       destruct (c_es (w_cfg w) && t_is tr TCreated && negb (t_completed tr) && negb (t_deleting tr) && match find_job t (w_jobs w) with Some _ => true | None => false end); [|apply incl_refl].
       cbn [w_trials set_trials set_store]. rewrite upd_trial_names by reflexivity.
       destruct v, (db_get t (w_db w)); apply incl_refl. }
  destruct (pending_of w c) as [|[wr onf] rest] eqn:Ep; [apply incl_refl|].
  destruct (if inject_failure then None else apply_write (count_write w) wr) as [w1|] eqn:A; [|destruct c; apply incl_refl].
  destruct inject_failure; [discriminate|].
  pose proof (pending_of_ok w c P) as Pc. rewrite Ep in Pc.
  assert (CW : core_eq w (count_write w)) by core.
  assert (I0 : InvS (count_write w)) by (eapply InvS_frame; eauto).
  assert (OK : write_ok (count_write w) (wr, onf)) by (inversion Pc; subst; eapply write_ok_frame; eauto).
  destruct (apply_write_inv _ _ _ _ I0 OK A) as (_&E1&_).
  pose proof (tlag_names_incl _ _ (ev_trials _ _ E1)) as T.
  destruct c; exact T.
Qed.

Theorem ever_trials_remain c acts1 acts2 :
  valid_cfg c -> no_teardown (acts1 ++ acts2) ->
  incl (names (w_trials (run c acts1))) (names (w_trials (run c (acts1 ++ acts2)))).
Proof.
  intros V NT. apply no_teardown_app in NT as [N1 N2]. unfold run. rewrite fold_left_app.
  pose proof (Inv_reachable c acts1 V N1) as I. unfold run in I.
  revert I N2. generalize (fold_left step acts1 (init c)). induction acts2 as [|a l IH]; intros w I N2; [apply incl_refl|].
  apply no_teardown_cons in N2 as [Na N2]. cbn. eapply incl_tran; [apply step_names_incl; eauto|].
  apply IH; [now apply step_inv|exact N2].
Qed.
