(* Lemmas about Model/Validator.v (C14) *)
From KV Require Import Base.Prelude Base.StrFind Base.DnsName Model.Validator.
From Coq Require Import Permutation.
Open Scope string_scope.
Open Scope list_scope.
Open Scope Z_scope.

(* ------------------------------------------------------------------ small facts *)

Lemma when_nil b l : when b l = [] -> b = false \/ l = [].
Proof. destruct b; simpl; auto. Qed.

Lemma when_E_nil b r : when b (E r) = [] -> b = false.
Proof. destruct b; simpl; [discriminate|reflexivity]. Qed.

Lemma when_false l : when false l = [].
Proof. reflexivity. Qed.

Ltac split_nil H :=
  repeat match type of H with
         | _ ++ _ = [] => let H1 := fresh H in apply app_eq_nil in H; destruct H as [H1 H]
         end.

(* ------------------------------------------------------------------ no crash *)

Lemma get_trial_template_no_crash en t : (present (t_spec t) || present (t_cm t) = true)%bool -> forall s, get_trial_template en t <> Crash s.
Proof.
  unfold get_trial_template. intros P s.
  destruct (t_spec t) as [sp|]; [destruct (ts_str sp); discriminate|].
  destruct (t_cm t) as [c|]; [|discriminate].
  destruct (lookup_first _ _ _) as [d|]; [|discriminate].
  destruct (lookup_first _ _ d); discriminate.
Qed.

Lemma template_errs_ok en e : exists l, template_errs en e = Ok l.
Proof.
  unfold template_errs.
  destruct (e_template e) as [t|]; [|eauto].
  destruct (t_params t) as [ps|]; [|eauto].
  destruct (t_spec t) as [sp|] eqn:Es, (t_cm t) as [c|] eqn:Ec; eauto.
  - (* inline *)
    unfold get_trial_template. rewrite Es. destruct (ts_str sp); eauto.
    destruct (tp_loop _ _ _ _ _ _) as [es [f|]]; eauto.
  - destruct (is_empty (cm_name c) || is_empty (cm_ns c) || is_empty (cm_path c))%bool; eauto.
    unfold get_trial_template. rewrite Es, Ec.
    destruct (lookup_first _ _ _) as [d|]; eauto.
    destruct (lookup_first _ _ d); eauto.
    destruct (tp_loop _ _ _ _ _ _) as [es [f|]]; eauto.
Qed.

Lemma mc_errs_default_ok en e : exists l, mc_errs en (set_default e) = Ok l.
Proof.
  unfold mc_errs, set_default; cbn [e_mc].
  unfold default_mc.
  destruct (e_mc e) as [[so co]|]; cbn [mc_collector mc_source].
  - destruct co as [[k cu]|]; cbn [c_kind].
    + destruct k; cbn [default_source mc_source mc_collector c_kind s_fs s_http]; eauto;
        destruct so as [[h f fl]|]; cbn [s_fs s_http]; eauto.
    + cbn. eauto.
  - cbn. eauto.
Qed.

Lemma validate_gen_no_crash en e mid s : validate_gen en (set_default e) mid <> Crash s.
Proof.
  unfold validate_gen.
  destruct (objective_errs _); [|discriminate].
  destruct (template_errs_ok en (set_default e)) as [te ->].
  destruct (mc_errs_default_ok en e) as [me ->]. discriminate.
Qed.

Lemma mc_errs_no_err en e c : mc_errs en e <> Err c.
Proof.
  unfold mc_errs.
  destruct (e_mc e) as [mc|]; [|discriminate].
  destruct (mc_collector mc) as [col|]; [|discriminate].
  destruct (c_kind col); try discriminate;
    destruct (mc_source mc) as [s|]; try discriminate;
    try (destruct (s_fs s); discriminate); try (destruct (s_http s); discriminate).
Qed.

Lemma validate_gen_no_err en e mid c : validate_gen en e mid <> Err c.
Proof.
  unfold validate_gen.
  destruct (objective_errs _); [|discriminate].
  destruct (template_errs_ok en e) as [te ->].
  destruct (mc_errs en e) eqn:M; try discriminate. exfalso. eapply mc_errs_no_err; eauto.
Qed.

(* ------------------------------------------------------------------ inversion of "no error" *)

Lemma validate_gen_nil en e mid :
  validate_gen en e mid = Ok [] <->
  budget_errs e = [] /\ mid = [] /\ objective_errs (e_objective e) = [] /\
  algorithm_errs (cfg en) (e_algorithm e) = [] /\ early_errs (cfg en) (e_early e) = [] /\ resume_errs (e_resume e) = [] /\
  template_errs en e = Ok [] /\ pn_errs e = [] /\ mc_errs en e = Ok [].
Proof.
  unfold validate_gen.
  split.
  - destruct (objective_errs (e_objective e)) as [|o oe] eqn:O.
    + destruct (template_errs en e) as [te| |]; try discriminate.
      destruct (mc_errs en e) as [me| |]; try discriminate.
      intros [= H]. split_nil H. split_nil H0. split_nil H1. subst. repeat split; auto.
    + intros [= H]. split_nil H. discriminate.
  - intros (B & M & O & A & Es & R & T & P & C). subst mid. rewrite O, T, C, B, A, Es, R, P. reflexivity.
Qed.

(* the splice property used by the update rule (C15) *)
Lemma validate_gen_mid en e mid : validate_gen en e mid = Ok [] <-> validate_gen en e [] = Ok [] /\ mid = [].
Proof. rewrite !validate_gen_nil. tauto. Qed.

(* ------------------------------------------------------------------ budget *)

Lemma budget_errs_nil e :
  budget_errs e = [] ->
  name_rule (e_name e) = true /\ (String.length (e_name e) <= 40)%nat /\
  (forall f, e_mf e = Some f -> 0 <= f) /\ (forall m, e_max e = Some m -> 1 <= m) /\ (forall p, e_par e = Some p -> 1 <= p) /\
  (forall f m, e_mf e = Some f -> e_max e = Some m -> f <= m) /\ (forall p m, e_par e = Some p -> e_max e = Some m -> p <= m).
Proof.
  unfold budget_errs. intro H. split_nil H.
  apply when_E_nil in H0, H1, H2, H3, H4, H.
  apply orb_false_iff in H0. destruct H0 as [N L]. apply negb_false_iff in N. apply Nat.ltb_ge in L.
  repeat split; auto.
  - intros f E. rewrite E in H1. apply Z.ltb_ge in H1. exact H1.
  - intros m E. rewrite E in H2. apply Z.leb_gt in H2. lia.
  - intros p E. rewrite E in H3. apply Z.leb_gt in H3. lia.
  - intros f m E1 E2. rewrite E1, E2 in H4. apply Z.ltb_ge in H4. exact H4.
  - intros p m E1 E2. rewrite E1, E2 in H. apply Z.ltb_ge in H. exact H.
Qed.

Lemma admitted_budget en e0 : admitted en e0 -> budget_ok (set_default e0) = true.
Proof.
  unfold admitted, validate. intro A. apply validate_gen_nil in A. destruct A as (B & _).
  apply budget_errs_nil in B. destruct B as (_ & _ & F & M & P & FM & PM).
  unfold budget_ok.
  destruct (e_par (set_default e0)) as [p|] eqn:Ep.
  2:{ unfold set_default in Ep; cbn [e_par] in Ep. destruct (e_par e0); discriminate. }
  specialize (P p eq_refl).
  destruct (e_max (set_default e0)) as [m|] eqn:Em; destruct (e_mf (set_default e0)) as [f|] eqn:Ef;
    rewrite ?andb_true_iff, ?Z.leb_le; repeat split; auto.
Qed.

(* the statement in arithmetic form *)
Lemma budget_ok_spec e : budget_ok e = true <->
  exists p, e_par e = Some p /\ 1 <= p /\
            (e_max e = None \/ exists m, e_max e = Some m /\ 1 <= m /\ p <= m) /\
            (e_mf e = None \/ exists f, e_mf e = Some f /\ 0 <= f /\ (forall m, e_max e = Some m -> f <= m)).
Proof.
  unfold budget_ok. split.
  - destruct (e_par e) as [p|]; [|discriminate]. rewrite !andb_true_iff, Z.leb_le. intros [[P M] F].
    exists p. split; [reflexivity|]. split; [exact P|]. split.
    + destruct (e_max e) as [m|]; [right|left; reflexivity]. apply andb_true_iff in M. rewrite !Z.leb_le in M. exists m. tauto.
    + destruct (e_mf e) as [f|]; [right|left; reflexivity]. apply andb_true_iff in F. rewrite Z.leb_le in F. destruct F as [F0 F1].
      exists f. split; [reflexivity|]. split; [exact F0|]. intros m Em. rewrite Em in F1. now apply Z.leb_le.
  - intros (p & -> & P & M & F). rewrite !andb_true_iff, Z.leb_le. repeat split; auto.
    + destruct M as [->|(m & -> & M1 & M2)]; [reflexivity|]. rewrite andb_true_iff, !Z.leb_le. auto.
    + destruct F as [->|(f & -> & F0 & F1)]; [reflexivity|]. rewrite andb_true_iff, Z.leb_le. split; [exact F0|].
      destruct (e_max e) as [m|]; [|reflexivity]. apply Z.leb_le. auto.
Qed.

(* ------------------------------------------------------------------ dereferences *)

Lemma objective_errs_nil o : objective_errs o = [] -> present o = true.
Proof. destruct o; [reflexivity|discriminate]. Qed.

Lemma algorithm_errs_nil c a : algorithm_errs c a = [] -> present a = true.
Proof. destruct a; [reflexivity|discriminate]. Qed.

Lemma app_not_nil_r {A} (l : list A) x : l ++ [x] <> [].
Proof. destruct l; discriminate. Qed.

(* the loop cannot return early without an error *)
Lemma tp_loop_early pn : forall ps i nm rf tp es, tp_loop pn i ps nm rf tp = (es, None) -> es <> [].
Proof.
  induction ps as [|p r IH]; intros i nm rf tp es; cbn [tp_loop]; [discriminate|].
  destruct (tp_malformed p); [destruct (tp_loop pn (S i) r nm rf tp); intros [= <- _]; discriminate|].
  destruct (str_mem (tp_name p) nm); [destruct (tp_loop pn (S i) r nm rf tp); intros [= <- _]; discriminate|].
  destruct (str_mem (tp_ref p) rf); [destruct (tp_loop pn (S i) r nm rf tp); intros [= <- _]; discriminate|].
  destruct (negb (str_contains _ tp)).
  - intros [= <-]. apply app_not_nil_r.
  - destruct (tp_loop pn (S i) r _ _ _) as [es' t'] eqn:L'. intros [= <- ->].
    intro H. apply app_eq_nil in H. destruct H as [_ ->]. eapply IH; eauto.
Qed.

Lemma template_errs_nil en e :
  template_errs en e = Ok [] ->
  exists t ps tpl, e_template e = Some t /\ t_params t = Some ps /\ t_primary_empty t = false /\ t_succ_empty t = false /\ t_fail_empty t = false /\
    ((present (t_spec t) = true /\ t_cm t = None) \/ (t_spec t = None /\ present (t_cm t) = true)) /\
    get_trial_template en t = Ok tpl /\
    exists final, tp_loop (map p_name (e_params e)) 0 ps [] [] tpl = ([], Some final) /\ after_loop (facts en) final = [].
Proof.
  unfold template_errs.
  destruct (e_template e) as [t|]; [|discriminate].
  set (e1 := when (t_primary_empty t) (E 27) ++ when (t_succ_empty t || t_fail_empty t) (E 28)).
  assert (E1 : forall l, e1 ++ l = [] -> t_primary_empty t = false /\ t_succ_empty t = false /\ t_fail_empty t = false /\ l = []).
  { intros l H. unfold e1 in H. apply app_eq_nil in H. destruct H as [H Hl]. apply app_eq_nil in H. destruct H as [Ha Hb].
    apply when_E_nil in Ha, Hb. apply orb_false_iff in Hb. tauto. }
  destruct (t_params t) as [ps|] eqn:Ep; [|intros [= H]; apply E1 in H; destruct H as (_ & _ & _ & H); discriminate].
  destruct (t_spec t) as [sp|] eqn:Es, (t_cm t) as [c|] eqn:Ec;
    try (intros [= H]; apply E1 in H; destruct H as (_ & _ & _ & H); discriminate).
  - (* inline *)
    destruct (get_trial_template en t) as [tpl|c|s] eqn:G;
      try (intros [= H]; apply E1 in H; destruct H as (_ & _ & _ & H); discriminate); try discriminate.
    destruct (tp_loop _ _ _ _ _ _) as [es [final|]] eqn:L; intros [= H]; apply E1 in H; destruct H as (P & S & F & H).
    + apply app_eq_nil in H. destruct H as [-> H].
      exists t, ps, tpl. do 5 (split; [first [reflexivity|assumption]|]).
      split; [rewrite ?Es, ?Ec; cbn; tauto|]. split; [exact G|]. exists final. auto.
    + subst es. exfalso. exact (tp_loop_early _ _ _ _ _ _ _ L eq_refl).
  - destruct (is_empty (cm_name c) || is_empty (cm_ns c) || is_empty (cm_path c))%bool;
      [intros [= H]; apply E1 in H; destruct H as (_ & _ & _ & H); discriminate|].
    destruct (get_trial_template en t) as [tpl|c'|s] eqn:G;
      try (intros [= H]; apply E1 in H; destruct H as (_ & _ & _ & H); discriminate); try discriminate.
    destruct (tp_loop _ _ _ _ _ _) as [es [final|]] eqn:L; intros [= H]; apply E1 in H; destruct H as (P & S & F & H).
    + apply app_eq_nil in H. destruct H as [-> H].
      exists t, ps, tpl. do 5 (split; [first [reflexivity|assumption]|]).
      split; [rewrite ?Es, ?Ec; cbn; tauto|]. split; [exact G|]. exists final. auto.
    + subst es. exfalso. exact (tp_loop_early _ _ _ _ _ _ _ L eq_refl).
Qed.

Lemma mc_errs_derefs en e : mc_errs en e = Ok [] -> derefs_mc e = true.
Proof.
  unfold mc_errs, derefs_mc.
  destruct (e_mc e) as [mc|]; [|discriminate].
  destruct (mc_collector mc) as [col|]; [|discriminate].
  destruct (c_kind col); try reflexivity.
  - destruct (mc_source mc) as [s|]; [|discriminate]. destruct (s_fs s); [reflexivity|discriminate].
  - destruct (mc_source mc) as [s|]; [|discriminate]. destruct (s_fs s); [reflexivity|discriminate].
  - intros [= H]. split_nil H.
    match goal with X : when (negb (c_custom col)) _ = [] |- _ => apply when_E_nil in X; now apply negb_false_iff in X end.
Qed.

Lemma admitted_derefs en e0 : admitted en e0 -> derefs_ok (set_default e0) = true.
Proof.
  unfold admitted, validate. intro A. pose proof (admitted_budget en e0 A) as B.
  apply validate_gen_nil in A. destruct A as (_ & _ & O & Al & _ & _ & T & _ & MC).
  apply objective_errs_nil in O. apply algorithm_errs_nil in Al. apply mc_errs_derefs in MC.
  apply template_errs_nil in T. destruct T as (t & ps & tpl & Et & Ep & _ & _ & _ & Src & _).
  unfold derefs_ok. rewrite O, Al, Et, Ep.
  replace (present (e_par (set_default e0))) with true
    by (unfold budget_ok in B; destruct (e_par (set_default e0)); [reflexivity|discriminate]).
  cbn [present andb].
  replace (present (t_spec t) || present (t_cm t))%bool with true
    by (destruct Src as [[-> _]|[_ ->]]; [reflexivity|now rewrite orb_true_r]).
  cbn [andb]. exact MC.
Qed.

(* ------------------------------------------------------------------ names *)

Lemma admitted_name en e0 : admitted en e0 -> name_rule (e_name e0) = true /\ (String.length (e_name e0) <= 40)%nat.
Proof.
  unfold admitted, validate. intro A. apply validate_gen_nil in A. destruct A as (B & _).
  apply budget_errs_nil in B. destruct B as (N & L & _). auto.
Qed.

Lemma derived_names n suffix :
  name_rule n = true -> (String.length n <= 40)%nat ->
  shape is_alnum (chars suffix) = true -> (String.length suffix <= 22)%nat ->
  dns1035_label (n ++ "-" ++ suffix) = true /\ dns1123_label (n ++ "-" ++ suffix) = true /\ dns_subdomain (n ++ "-" ++ suffix) = true.
Proof.
  intros N L S LS. unfold name_rule in N.
  assert (Len : (String.length (n ++ "-" ++ suffix) <= 63)%nat) by (rewrite !length_app_str; simpl; lia).
  pose proof (joined_name is_lower n suffix N S) as J.
  assert (J' : shape is_alnum (chars (n ++ "-" ++ suffix)) = true) by (eapply shape_weaken; [apply lower_alnum|exact J]).
  unfold dns1035_label, dns1123_label. rewrite J, J'. cbn [andb].
  repeat split; try (now apply Nat.leb_le).
  apply shape_subdomain; [exact J'|lia].
Qed.

(* a run of alphanumerics (utilrand.String) has the label shape *)
Lemma alnum_shape s : s <> "" -> forallb is_alnum (chars s) = true -> shape is_alnum (chars s) = true.
Proof.
  destruct s as [|c r]; [congruence|]. intros _. cbn [chars forallb shape]. rewrite !andb_true_iff. intros [C R].
  repeat split; auto.
  - clear - R. induction (chars r) as [|x l IH]; [reflexivity|]. cbn in *. apply andb_true_iff in R. destruct R as [X R].
    rewrite (alnum_body _ X). auto.
  - unfold last_ok. destruct (rev (chars r)) as [|x l] eqn:E; [reflexivity|].
    assert (In x (chars r)) by (apply in_rev; rewrite E; now left).
    rewrite forallb_forall in R. auto.
Qed.

(* ------------------------------------------------------------------ the generator *)

Lemma is_meta_key_sub p : is_meta_key p = true -> non_meta p = false.
Proof. unfold is_meta_key, non_meta. destruct (tp_sub p); [reflexivity|discriminate]. Qed.

(* what an error-free pass of the loop over trialParameters establishes *)
Lemma tp_loop_nil pnames : forall ps i names refs tpl t,
  tp_loop pnames i ps names refs tpl = ([], t) ->
  Forall (fun p => pnames <> [] -> non_meta p = true -> In (tp_ref p) pnames) ps /\
  NoDup (map tp_ref ps) /\ (forall p, In p ps -> ~ In (tp_ref p) refs).
Proof.
  induction ps as [|p r IH]; intros i names refs tpl t; cbn [tp_loop].
  - intros _. repeat split; [constructor|constructor|intros ? []].
  - destruct (tp_malformed p); [destruct (tp_loop pnames (S i) r names refs tpl); cbn; discriminate|].
    destruct (str_mem (tp_name p) names); [destruct (tp_loop pnames (S i) r names refs tpl); cbn; discriminate|].
    destruct (str_mem (tp_ref p) refs) eqn:Rf; [destruct (tp_loop pnames (S i) r names refs tpl); cbn; discriminate|].
    destruct (negb (str_contains _ tpl)); [intros [= H _]; apply app_not_nil_r in H; destruct H|].
    destruct (tp_loop pnames (S i) r _ _ _) as [es t'] eqn:L. intros [= H <-].
    apply app_eq_nil in H. destruct H as [H37 ->].
    apply IH in L. destruct L as (F & ND & NR).
    apply when_nil in H37. destruct H37 as [H37|H37]; [|discriminate].
    repeat split.
    + constructor; [|exact F]. intros NE NM.
      destruct pnames as [|x pn]; [congruence|]. cbn [andb] in H37.
      apply andb_false_iff in H37. destruct H37 as [H37|H37].
      * apply negb_false_iff in H37. apply is_meta_key_sub in H37. congruence.
      * apply negb_false_iff in H37. now apply str_mem_In.
    + cbn [map]. constructor; [|exact ND].
      intro I. apply in_map_iff in I. destruct I as (q & Eq & Iq). apply (NR q Iq). rewrite Eq. now left.
    + intros q [<-|Iq]; [now apply str_mem_false|].
      intro I. apply (NR q Iq). now right.
Qed.

Lemma assoc_in k l : In k (map fst l) -> exists v, assoc k l = Some v.
Proof.
  induction l as [|[k' v] r IH]; [intros []|]. cbn [map fst assoc]. intros [<-|I].
  - destruct (assoc k' r); eauto. rewrite String.eqb_refl. eauto.
  - destruct (IH I) as [w ->]. eauto.
Qed.

(* references to trial metadata resolve: a known key, and for Labels[x] / Annotations[x] the template carries x *)
Definition meta_resolvable (f : tplfacts) (p : tparam) : Prop :=
  non_meta p = false -> forall asg, exists v, resolve f asg p = Ok v /\ (forall x, v <> VAssign x).

Lemma resolve_all_ok f asg : forall ps,
  Forall (fun p => non_meta p = true -> In (tp_ref p) (map fst asg)) ps ->
  Forall (meta_resolvable f) ps ->
  exists m, resolve_all f asg ps = Ok (m, length (filter non_meta ps)).
Proof.
  induction ps as [|p r IH]; intros F1 F2; cbn [resolve_all filter]; [eauto|].
  inversion F1 as [|? ? P1 R1]; inversion F2 as [|? ? P2 R2]; subst.
  destruct (non_meta p) eqn:NM.
  - unfold resolve. unfold non_meta in NM. destruct (tp_sub p); [discriminate|].
    destruct (assoc_in _ _ (P1 eq_refl)) as [v ->].
    destruct (IH R1 R2) as [m ->]. cbn [length]. eauto.
  - destruct (P2 NM asg) as (v & -> & NV).
    destruct (IH R1 R2) as [m ->].
    destruct v; try (exfalso; eapply NV; reflexivity); eauto.
Qed.

Lemma NoDup_incl_length_eq {A} (l1 l2 : list A) : NoDup l1 -> NoDup l2 -> incl l1 l2 -> incl l2 l1 -> length l1 = length l2.
Proof. intros N1 N2 I1 I2. apply Nat.le_antisymm; apply NoDup_incl_length; auto. Qed.

Lemma filter_map_comm {A B} (f : A -> B) (g : A -> bool) l : map f (filter g l) = map f (filter g l).
Proof. reflexivity. Qed.

Lemma NoDup_map_filter {A B} (f : A -> B) (g : A -> bool) l : NoDup (map f l) -> NoDup (map f (filter g l)).
Proof.
  induction l as [|a r IH]; cbn; [auto|]. intro N. inversion N as [|? ? NI NR]; subst.
  destruct (g a); cbn; [constructor|]; auto.
  intro I. apply NI. apply in_map_iff in I. destruct I as (x & E & Ix). apply filter_In in Ix. apply in_map_iff. exists x. tauto.
Qed.

(* ------------------------------------------------------------------ the repaired rules 59 and 60 *)

(* rule 59 (duplicate-parameter-name): no error from validateParameters => the parameter names are distinct *)
Lemma params_errs_nodup : forall ps i seen,
  params_errs i seen ps = [] -> NoDup (map p_name ps) /\ (forall n, In n (map p_name ps) -> ~ In n seen).
Proof.
  induction ps as [|p r IH]; intros i seen; cbn [params_errs map].
  - intros _. split; [constructor|intros ? []].
  - intro H. apply app_eq_nil in H. destruct H as [H59 H]. apply app_eq_nil in H. destruct H as [_ H].
    apply IH in H. destruct H as [ND NS].
    apply when_nil in H59. destruct H59 as [H59|H59]; [|discriminate].
    split.
    + constructor; [|exact ND]. intro I. apply (NS _ I). now left.
    + intros n [<-|I]; [now apply str_mem_false|]. intro J. apply (NS _ I). now right.
Qed.

(* rule 60 (unreferenced-parameter): no error => every parameter name is the reference of a trial parameter that consumes an assignment *)
Lemma unref_errs_nil refs : forall ps i, unref_errs i refs ps = [] -> forall n, In n (map p_name ps) -> In n refs.
Proof.
  induction ps as [|p r IH]; intros i; cbn [unref_errs map]; [intros _ ? []|].
  intro H. apply app_eq_nil in H. destruct H as [H60 H].
  apply when_nil in H60. destruct H60 as [H60|H60]; [|discriminate]. apply negb_false_iff in H60.
  intros n [<-|I]; [now apply str_mem_In|]. eauto.
Qed.

Lemma pn_errs_nil e :
  pn_errs e = [] ->
  NoDup (map p_name (e_params e)) /\
  (forall t ps, e_template e = Some t -> t_params t = Some ps ->
   forall n, In n (map p_name (e_params e)) -> exists p, In p ps /\ non_meta p = true /\ tp_ref p = n).
Proof.
  unfold pn_errs. intro H. split_nil H. split.
  - apply params_errs_nodup in H2. tauto.
  - intros t ps Et Ep n I. unfold referenced_errs in H. rewrite Et in H.
    pose proof (unref_errs_nil _ _ _ H n I) as J. unfold consumed_refs in J. rewrite Ep in J.
    apply in_map_iff in J. destruct J as (p & <- & Ip). apply filter_In in Ip. exists p. tauto.
Qed.

Lemma admitted_params_distinct en e0 : admitted en e0 -> NoDup (map p_name (e_params e0)).
Proof.
  unfold admitted, validate. intro A. apply validate_gen_nil in A. destruct A as (_ & _ & _ & _ & _ & _ & _ & P & _).
  apply pn_errs_nil in P. destruct P as [ND _].
  unfold set_default in ND; cbn [e_params] in ND. rewrite map_map in ND. cbn [default_param p_name] in ND. exact ND.
Qed.

Lemma admitted_params_referenced en e0 : admitted en e0 ->
  forall t ps, e_template (set_default e0) = Some t -> t_params t = Some ps ->
  forall n, In n (map p_name (e_params e0)) -> exists p, In p ps /\ non_meta p = true /\ tp_ref p = n.
Proof.
  unfold admitted, validate. intro A. apply validate_gen_nil in A. destruct A as (_ & _ & _ & _ & _ & _ & _ & P & _).
  apply pn_errs_nil in P. destruct P as [_ R]. intros t ps Et Ep n I. apply (R t ps Et Ep).
  unfold set_default; cbn [e_params]. rewrite map_map. cbn [default_param p_name]. exact I.
Qed.

(* domain of the buildability theorem *)
Record runnable (en : env) (e : experiment) : Prop := {
  rn_params : e_params e <> [];                                               (* a hyperparameter experiment (not NAS) *)
  rn_meta : forall t ps, e_template e = Some t -> t_params t = Some ps -> Forall (meta_resolvable (facts en)) ps;  (* excludes unresolvable-trial-metadata *)
  rn_raw : forall t, e_template e = Some t -> t_spec t = None -> tf_raw_conv (facts en) = true }.  (* a ConfigMap template is YAML before substitution *)

(* one value for every spec.parameters entry, nothing else *)
Definition assignment_for (e : experiment) (asg : list (string * string)) : Prop :=
  length asg = length (e_params e) /\ forall n, In n (map p_name (e_params e)) -> In n (map fst asg).

Lemma template_runs en e0 asg :
  admitted en e0 -> runnable en (set_default e0) -> assignment_for (set_default e0) asg ->
  exists m, apply_parameters en (set_default e0) asg = Ok m.
Proof.
  set (e := set_default e0). unfold admitted, validate. fold e. intros A [RP RM RW] [AL AI].
  apply validate_gen_nil in A. destruct A as (_ & _ & _ & _ & _ & _ & T & PN & _).
  apply pn_errs_nil in PN. destruct PN as [RN RR].
  apply template_errs_nil in T. destruct T as (t & ps & tpl & Et & Ep & _ & _ & _ & Src & G & final & L & _).
  apply tp_loop_nil in L. destruct L as (F & ND & _).
  unfold apply_parameters. rewrite Et, G, Ep.
  replace (match t_spec t with Some _ => false | None => negb (tf_raw_conv (facts en)) end) with false.
  2:{ destruct (t_spec t) eqn:Es; [reflexivity|]. rewrite (RW t Et Es). reflexivity. }
  assert (NE : map p_name (e_params e) <> []) by (destruct (e_params e); [congruence|discriminate]).
  destruct (resolve_all_ok (facts en) asg ps) as [m Hm].
  { eapply Forall_impl; [|exact F]. cbv beta. intros p H NM. apply AI. auto. }
  { exact (RM t ps Et Ep). }
  rewrite Hm.
  (* the count check *)
  assert (C : length (filter non_meta ps) = length (e_params e)).
  { rewrite <- (map_length tp_ref (filter non_meta ps)), <- (map_length p_name (e_params e)).
    apply NoDup_incl_length_eq.
    - now apply NoDup_map_filter.
    - exact RN.
    - intros n I. apply in_map_iff in I. destruct I as (p & <- & Ip). apply filter_In in Ip. destruct Ip as [Ip NM].
      rewrite Forall_forall in F. auto.
    - intros n I. destruct (RR t ps Et Ep n I) as (p & Ip & NM & <-). apply in_map. apply filter_In. auto. }
  rewrite C, AL, Nat.eqb_refl. eauto.
Qed.

(* ------------------------------------------------------------------ statements exported by Props/C14.v *)

Lemma admitted_budget_spec : forall en e0, admitted en e0 ->
  let e := set_default e0 in
  exists p, e_par e = Some p /\ 1 <= p /\
            (e_max e = None \/ exists m, e_max e = Some m /\ 1 <= m /\ p <= m) /\
            (e_mf e = None \/ exists f, e_mf e = Some f /\ 0 <= f /\ (forall m, e_max e = Some m -> f <= m)).
Proof. intros en e0 A. apply budget_ok_spec. exact (admitted_budget en e0 A). Qed.

Lemma admitted_names : forall en e0 algo suffix,
  admitted en e0 ->
  dns1123_label algo = true -> (String.length algo <= 22)%nat ->
  forallb is_alnum (chars suffix) = true -> String.length suffix = 8%nat ->
  dns1035_label (suggestion_resource_name (e_name e0) algo) = true /\
  dns_subdomain (suggestion_resource_name (e_name e0) algo) = true /\
  dns1123_label (trial_name (e_name e0) suffix) = true /\
  dns_subdomain (trial_name (e_name e0) suffix) = true.
Proof.
  intros en e0 algo suffix A AL A22 SA S8.
  destruct (admitted_name _ _ A) as [N L].
  unfold dns1123_label in AL. apply andb_true_iff in AL. destruct AL as [AS _].
  destruct (derived_names (e_name e0) algo N L AS A22) as (D1 & _ & D3).
  assert (SN : suffix <> "") by (intros ->; discriminate).
  destruct (derived_names (e_name e0) suffix N L (alnum_shape _ SN SA) ltac:(lia)) as (_ & T2 & T3).
  auto.
Qed.
