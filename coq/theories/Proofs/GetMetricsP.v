From KV Require Import Base.Prelude Model.GetMetrics.
Open Scope Z_scope.

(* ------------------------------------------------------------------ interleaving *)

Lemma interleaving_summarize m l1 l2 : of_name m l1 = of_name m l2 -> summarize m l1 = summarize m l2.
Proof. unfold summarize. now intros ->. Qed.

(* ------------------------------------------------------------------ specification vocabulary *)

(* the numeric values reported for a metric, in order *)
Definition nums (l : list entry) : list Z :=
  flat_map (fun e => match vnum e with Some z => [z] | None => [] end) l.

(* texts are faithful: the harness interns the text, so equal texts denote equal numbers, and the
   text "unavailable" does not parse *)
Definition texts_wf (l : list entry) : Prop :=
  forall e, In e l -> vtext e = unavailable -> vnum e = None.

Definition all_ts (l : list entry) : Prop := forall e, In e l -> ets e <> None.

Definition ts_of (e : entry) : Z := match ets e with Some t => t | None => 0 end.

(* invariant of the fold for min / max *)
Definition MM (seen : list entry) (s : summary) : Prop :=
  (nums seen = [] /\ smin s = unavailable /\ smax s = unavailable) \/
  (exists a b, In a seen /\ In b seen /\ smin s = vtext a /\ smax s = vtext b /\
               vnum a = Some (nmin s) /\ vnum b = Some (nmax s) /\ smin s <> unavailable /\
               (forall z, In z (nums seen) -> nmin s <= z <= nmax s)).

Lemma nums_app l1 l2 : nums (l1 ++ l2) = nums l1 ++ nums l2.
Proof. unfold nums. apply flat_map_app. Qed.

Lemma nums_one e : nums [e] = match vnum e with Some z => [z] | None => [] end.
Proof. unfold nums. simpl. now rewrite app_nil_r. Qed.

Lemma MM_minmax seen s e :
  (vtext e = unavailable -> vnum e = None) -> MM seen s -> MM (seen ++ [e]) (upd_minmax s e).
Proof.
  intros Hwf H. unfold upd_minmax.
  destruct (vnum e) as [f|] eqn:Ef.
  - assert (Hne : vtext e <> unavailable) by (intro K; specialize (Hwf K); congruence).
    assert (Ie : In e (seen ++ [e])) by (apply in_or_app; right; now left).
    assert (Hn : forall z, In z (nums (seen ++ [e])) -> In z (nums seen) \/ z = f).
    { intros z Hz. rewrite nums_app, nums_one, Ef in Hz. apply in_app_or in Hz as [Hz|[<-|[]]]; auto. }
    destruct H as [(Hs&H1&H2)|(a&b&Ia&Ib&Ha&Hb&Na&Nb&Hu&Hall)].
    + rewrite H1. cbn [Nat.eqb unavailable]. right. exists e, e. cbn [smin smax nmin nmax].
      repeat split; auto.
      all: apply Hn in H as [H| ->]; [rewrite Hs in H; destruct H|lia].
    + destruct (Nat.eqb (smin s) unavailable) eqn:E0; [apply Nat.eqb_eq in E0; contradiction|].
      assert (Ia' : In a (seen ++ [e])) by (apply in_or_app; now left).
      assert (Ib' : In b (seen ++ [e])) by (apply in_or_app; now left).
      assert (Pa : nmin s <= nmax s).
      { assert (In (nmin s) (nums seen)).
        { unfold nums. apply in_flat_map. exists a. split; [exact Ia|]. rewrite Na. now left. }
        apply Hall in H. lia. }
      destruct (f <? nmin s) eqn:C1; [apply Z.ltb_lt in C1|apply Z.ltb_ge in C1].
      * right. exists e, b. cbn [smin smax nmin nmax]. repeat split; auto.
        all: apply Hn in H as [H| ->]; [specialize (Hall _ H)|]; lia.
      * destruct (nmax s <? f) eqn:C2; [apply Z.ltb_lt in C2|apply Z.ltb_ge in C2].
        -- right. exists a, e. cbn [smin smax nmin nmax]. repeat split; auto.
           all: apply Hn in H as [H| ->]; [specialize (Hall _ H)|]; lia.
        -- right. exists a, b. repeat split; auto.
           all: apply Hn in H as [H| ->]; [specialize (Hall _ H)|]; lia.
  - destruct H as [(Hs&H1&H2)|(a&b&Ia&Ib&Ha&Hb&Na&Nb&Hu&Hall)].
    + left. rewrite nums_app, nums_one, Ef, app_nil_r. auto.
    + right. exists a, b. rewrite nums_app, nums_one, Ef, app_nil_r.
      split; [apply in_or_app; now left|]. split; [apply in_or_app; now left|]. tauto.
Qed.

Lemma upd_latest_mm s e t : smin (upd_latest s e t) = smin s /\ smax (upd_latest s e t) = smax s
  /\ nmin (upd_latest s e t) = nmin s /\ nmax (upd_latest s e t) = nmax s.
Proof. unfold upd_latest. destruct (match sts s with None => true | Some t0 => negb (t <? t0) end); auto. Qed.

Lemma MM_ext seen s s' :
  smin s' = smin s -> smax s' = smax s -> nmin s' = nmin s -> nmax s' = nmax s -> MM seen s -> MM seen s'.
Proof. unfold MM. intros -> -> -> ->. auto. Qed.

Lemma MM_upd seen s e s' :
  (vtext e = unavailable -> vnum e = None) -> MM seen s -> upd s e = Some s' -> MM (seen ++ [e]) s'.
Proof.
  intros Hwf H. unfold upd. destruct (ets e) as [t|]; [|discriminate]. intros [= <-].
  destruct (upd_latest_mm (upd_minmax s e) e t) as (A&B&C&D).
  eapply MM_ext; eauto using MM_minmax.
Qed.

Lemma MM_fold l : forall seen s s', (forall e, In e l -> vtext e = unavailable -> vnum e = None) ->
  MM seen s -> fold_upd s l = Some s' -> MM (seen ++ l) s'.
Proof.
  induction l as [|e l IH]; intros seen s s' Hwf H; cbn [fold_upd].
  - intros [= <-]. now rewrite app_nil_r.
  - destruct (upd s e) as [s1|] eqn:E; [|discriminate]. intro F.
    replace (seen ++ e :: l) with ((seen ++ [e]) ++ l) by (now rewrite <- app_assoc).
    eapply IH; [| |exact F].
    + intros e' I. apply Hwf. now right.
    + eapply MM_upd; eauto. apply Hwf. now left.
Qed.

Lemma of_name_in m l e : In e (of_name m l) -> In e l /\ ename e = m.
Proof. unfold of_name. rewrite filter_In, Nat.eqb_eq. tauto. Qed.

Theorem min_max m l s : texts_wf l -> summarize m l = Some s -> MM (of_name m l) s.
Proof.
  intros Hwf H. apply (MM_fold (of_name m l) [] empty s); auto.
  - intros e I. apply Hwf. now apply of_name_in in I.
  - left. repeat split; reflexivity.
Qed.

(* ------------------------------------------------------------------ latest *)

(* [LT seen s]: the latest text is that of the last entry among those with the greatest timestamp. *)
Definition LT (seen : list entry) (s : summary) : Prop :=
  (seen = [] /\ slatest s = unavailable /\ sts s = None) \/
  (exists l1 e l2, seen = l1 ++ e :: l2 /\ slatest s = vtext e /\ sts s = Some (ts_of e) /\
     (forall x, In x l1 -> ts_of x <= ts_of e) /\ (forall x, In x l2 -> ts_of x < ts_of e)).

Lemma upd_minmax_lt s e : slatest (upd_minmax s e) = slatest s /\ sts (upd_minmax s e) = sts s.
Proof.
  unfold upd_minmax. destruct (vnum e); [|auto].
  destruct (Nat.eqb _ _); [auto|]. destruct (_ <? _); [auto|]. destruct (_ <? _); auto.
Qed.

Lemma LT_upd seen s e s' : LT seen s -> upd s e = Some s' -> LT (seen ++ [e]) s'.
Proof.
  intros H. unfold upd. destruct (ets e) as [t|] eqn:Et; [|discriminate]. intros [= <-].
  destruct (upd_minmax_lt s e) as (A&B). unfold upd_latest. rewrite B.
  assert (Te : ts_of e = t) by (unfold ts_of; now rewrite Et).
  destruct H as [(->&H1&H2)|(l1&x&l2&->&H1&H2&H3&H4)].
  - rewrite H2. right. exists [], e, []. cbn. rewrite Te. repeat split; auto; intros ? [].
  - rewrite H2. destruct (t <? ts_of x) eqn:C; cbn [negb].
    + apply Z.ltb_lt in C. right. exists l1, x, (l2 ++ [e]). rewrite A, B, H1, H2.
      repeat split; auto.
      * now rewrite <- app_assoc.
      * intros y Hy. apply in_app_or in Hy as [Hy|[<-|[]]]; [auto|lia].
    + apply Z.ltb_ge in C. right. exists (l1 ++ x :: l2), e, []. cbn [slatest sts]. rewrite Te.
      split; [reflexivity|]. split; [reflexivity|]. split; [reflexivity|]. split.
      * intros y Hy. apply in_app_or in Hy as [Hy|[<-|Hy]]; [specialize (H3 _ Hy)|..|specialize (H4 _ Hy)]; lia.
      * intros ? [].
Qed.

Lemma LT_fold l : forall seen s s', LT seen s -> fold_upd s l = Some s' -> LT (seen ++ l) s'.
Proof.
  induction l as [|e l IH]; intros seen s s' H; cbn [fold_upd].
  - intros [= <-]. now rewrite app_nil_r.
  - destruct (upd s e) as [s1|] eqn:E; [|discriminate]. intro F.
    replace (seen ++ e :: l) with ((seen ++ [e]) ++ l) by (now rewrite <- app_assoc).
    eapply IH; [|exact F]. eapply LT_upd; eauto.
Qed.

Theorem latest m l s : summarize m l = Some s -> LT (of_name m l) s.
Proof. intro H. apply (LT_fold (of_name m l) [] empty s); auto. left. auto. Qed.

(* ------------------------------------------------------------------ totality / errors *)

Lemma fold_upd_some l : forall s, (forall e, In e l -> ets e <> None) -> exists s', fold_upd s l = Some s'.
Proof.
  induction l as [|e l IH]; intros s H; cbn [fold_upd]; [eauto|].
  unfold upd. destruct (ets e) eqn:E; [|exfalso; apply (H e); [now left|assumption]].
  apply IH. intros x I. apply H. now right.
Qed.

Lemma fold_upd_none l : forall s, (exists e, In e l /\ ets e = None) -> fold_upd s l = None.
Proof.
  induction l as [|e l IH]; intros s (x&I&Hx); [destruct I|]. cbn [fold_upd]. unfold upd.
  destruct (ets e) eqn:E; [|reflexivity]. apply IH. destruct I as [->|I]; [congruence|eauto].
Qed.

Lemma tracked_spec strategies e : tracked strategies e = true <-> In (ename e) strategies.
Proof.
  unfold tracked. rewrite existsb_exists. split.
  - intros (x&I&E). apply Nat.eqb_eq in E. now subst.
  - intro I. exists (ename e). split; [assumption|apply Nat.eqb_refl].
Qed.

Lemma dedup_in l x : In x (dedup l) <-> In x l.
Proof.
  induction l as [|a r IH]; simpl; [tauto|].
  destruct (existsb (Nat.eqb a) r) eqn:E.
  - rewrite IH. split; [auto|]. intros [->|H]; [|assumption].
    apply existsb_exists in E as (y&I&Ey). apply Nat.eqb_eq in Ey. now subst.
  - simpl. rewrite IH. tauto.
Qed.

Lemma dedup_nodup l : NoDup (dedup l).
Proof.
  induction l as [|a r IH]; simpl; [constructor|].
  destruct (existsb (Nat.eqb a) r) eqn:E; [assumption|].
  constructor; [|assumption]. rewrite dedup_in. intro I.
  assert (existsb (Nat.eqb a) r = true); [|congruence].
  apply existsb_exists. exists a. split; [assumption|apply Nat.eqb_refl].
Qed.

(* the guard of get_metrics is exactly "no tracked entry has an unparsable timestamp" *)
Definition guard (strategies : list nat) (l : list entry) : bool :=
  forallb (fun e => match ets e with Some _ => true | None => negb (tracked strategies e) end) l.

Lemma guard_true strategies l :
  guard strategies l = true <-> forall e, In e l -> In (ename e) strategies -> ets e <> None.
Proof.
  unfold guard. rewrite forallb_forall. split; intros H e I.
  - intros T. specialize (H e I). destruct (ets e); [discriminate|].
    apply tracked_spec in T. rewrite T in H. discriminate.
  - destruct (ets e) eqn:E; [reflexivity|]. destruct (tracked strategies e) eqn:T; [|reflexivity].
    apply tracked_spec in T. exfalso. now apply (H e I T).
Qed.

Lemma guard_summarize strategies l m :
  guard strategies l = true -> In m strategies -> exists s, summarize m l = Some s.
Proof.
  intros G I. apply fold_upd_some. intros e Ie. apply of_name_in in Ie as (Il&<-).
  rewrite guard_true in G. auto.
Qed.

(* the one-pass Go loop aborts at the first tracked entry with a bad timestamp: same verdict *)
Theorem bad_timestamp strategies l :
  (exists e, In e l /\ In (ename e) strategies /\ ets e = None) <-> get_metrics strategies l = Err 1%nat.
Proof.
  unfold get_metrics. fold (guard strategies l). split.
  - intros (e&I&T&N). destruct (guard strategies l) eqn:G; [|reflexivity].
    rewrite guard_true in G. exfalso. now apply (G e I T).
  - destruct (guard strategies l) eqn:G; [discriminate|]. intros _.
    unfold guard in G. apply not_true_iff_false in G. rewrite forallb_forall in G.
    destruct (existsb (fun e => negb match ets e with Some _ => true | None => negb (tracked strategies e) end) l) eqn:X.
    + apply existsb_exists in X as (e&I&H). exists e. split; [assumption|].
      destruct (ets e); [discriminate|]. destruct (tracked strategies e) eqn:T; [|discriminate].
      apply tracked_spec in T. auto.
    + exfalso. apply G. intros e I. destruct (match ets e with Some _ => true | None => _ end) eqn:Y; [reflexivity|].
      assert (existsb (fun e => negb match ets e with Some _ => true | None => negb (tracked strategies e) end) l = true); [|congruence].
      apply existsb_exists. exists e. rewrite Y. auto.
Qed.

(* ------------------------------------------------------------------ the result as a map *)

Definition lookup (m : nat) (r : list (nat * (nat * nat * nat))) : list (nat * nat * nat) :=
  map snd (filter (fun p => Nat.eqb (fst p) m) r).

Lemma lookup_map_notin (f : nat -> nat * (nat * nat * nat)) m ms :
  (forall x, fst (f x) = x) -> ~ In m ms -> lookup m (map f ms) = [].
Proof.
  intros Hf. induction ms as [|a r IH]; intro N; [reflexivity|].
  unfold lookup in *. cbn [map filter]. rewrite Hf.
  destruct (Nat.eqb a m) eqn:E; [apply Nat.eqb_eq in E; subst; exfalso; apply N; now left|].
  apply IH. intro I. apply N. now right.
Qed.

Lemma lookup_map_nodup (f : nat -> nat * (nat * nat * nat)) m ms :
  (forall x, fst (f x) = x) -> NoDup ms -> In m ms -> lookup m (map f ms) = [snd (f m)].
Proof.
  intros Hf. induction ms as [|a r IH]; intros ND I; [destruct I|].
  inversion ND as [|? ? Na NDr]; subst. unfold lookup in *. cbn [map filter]. rewrite Hf.
  destruct (Nat.eqb a m) eqn:E.
  - apply Nat.eqb_eq in E; subst. cbn [map]. f_equal.
    change (lookup m (map f r) = []). now apply lookup_map_notin.
  - destruct I as [->|I]; [rewrite Nat.eqb_refl in E; discriminate|]. now apply IH.
Qed.

Theorem one_per_strategy strategies l r m :
  get_metrics strategies l = Ok r ->
  (In m strategies -> exists s, summarize m l = Some s /\ lookup m r = [(smin s, smax s, slatest s)])
  /\ (~ In m strategies -> lookup m r = []).
Proof.
  unfold get_metrics. fold (guard strategies l). destruct (guard strategies l) eqn:G; [|discriminate].
  intros [= <-].
  set (f := fun m0 => match summarize m0 l with
                      | Some s => (m0, (smin s, smax s, slatest s))
                      | None => (m0, (unavailable, unavailable, unavailable)) end).
  assert (Hf : forall x, fst (f x) = x) by (intro x; unfold f; destruct (summarize x l); reflexivity).
  split.
  - intro I. destruct (guard_summarize _ _ _ G I) as (s&Hs). exists s. split; [assumption|].
    rewrite (lookup_map_nodup f m (dedup strategies) Hf (dedup_nodup _)); [|now apply dedup_in].
    unfold f. now rewrite Hs.
  - intro N. apply lookup_map_notin; [exact Hf|]. now rewrite dedup_in.
Qed.

Theorem interleaving strategies l1 l2 r1 :
  (forall m, of_name m l1 = of_name m l2) ->
  get_metrics strategies l1 = Ok r1 -> get_metrics strategies l2 = Ok r1.
Proof.
  intros H. unfold get_metrics. fold (guard strategies l1) (guard strategies l2).
  destruct (guard strategies l1) eqn:G1; [|discriminate].
  assert (G2 : guard strategies l2 = true).
  { rewrite guard_true in *. intros e I T.
    assert (In e (of_name (ename e) l2)) by (unfold of_name; apply filter_In; split; [assumption|apply Nat.eqb_refl]).
    rewrite <- H in H0. apply of_name_in in H0 as (I1&_). now apply G1. }
  rewrite G2. intros [= <-]. f_equal. apply map_ext. intro m.
  unfold summarize. now rewrite H.
Qed.
