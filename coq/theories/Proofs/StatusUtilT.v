(* The property theorems of C05 and C03 (decision part) in the form exported by Props/C05.v and Props/C03.v. *)
From KV Require Import Base.Prelude Base.Cond Base.Subseq Model.StatusUtil Model.StatusSpec Proofs.StatusUtilP.
From Coq Require Import Permutation.
Open Scope Z_scope.

(* ------------------------------------------------------------------ C05 *)

Lemma T_partition now spec st ts :
  let st' := update_experiment_status now spec st ts in
  Permutation (all_lists st') (map t_name ts) /\
  (forall k, list_of k st' = map t_name (filter (in_class k) ts)) /\
  (forall k, subseq (list_of k st') (map t_name ts)) /\
  (forall k n, In n (list_of k st') <-> exists t, In t ts /\ t_name t = n /\ classify t = k) /\
  (NoDup (map t_name ts) -> forall k t, In t ts -> (In (t_name t) (list_of k st') <-> classify t = k)) /\
  (forall k, counter_of k st' = zlen (list_of k st')) /\
  e_trials st' = zlen ts /\
  e_trials st' = fold_right Z.add 0 (map (fun k => counter_of k st') all_classes).
Proof.
  cbn zeta. destruct (update_keeps_summary now spec st ts) as (_&T&L&C).
  unfold all_lists. rewrite (flat_map_ext _ _ L), (map_ext _ _ C), T.
  split; [apply summary_partition|]. split; [intro k; rewrite L; apply summary_list|].
  split; [intro k; rewrite L; apply summary_subseq|]. split; [intros k n; rewrite L; apply summary_member|].
  split; [intros N k t I; rewrite L; now apply summary_member_nodup|].
  split; [intro k; rewrite L, C; apply summary_counter|]. split; [apply summary_trials|apply summary_sum].
Qed.

Lemma as_good_min spec v w : obj_type spec = Minimize -> (as_good (obj_type spec) v w = true <-> v <= w).
Proof. intros ->. apply Z.leb_le. Qed.

Lemma as_good_max spec v w : obj_type spec = Maximize -> (as_good (obj_type spec) v w = true <-> w <= v).
Proof. intros ->. apply Z.leb_le. Qed.

Lemma T_optimal now spec st ts :
  obj_type spec = Minimize \/ obj_type spec = Maximize ->
  numeric_domain ts = true -> numeric_values ts <> [] ->
  let st' := update_experiment_status now spec st ts in
  exists i t v,
    nth_error ts i = Some t /\ numeric_value t = Some v /\
    best_name (e_optimal st') = t_name t /\
    best_assignments (e_optimal st') = t_assignments t /\
    Some (best_observation (e_optimal st')) = t_observation t /\
    (forall v', In v' (numeric_values ts) ->
       (obj_type spec = Minimize -> v <= v') /\ (obj_type spec = Maximize -> v' <= v)) /\
    (forall j t' v', (j < i)%nat -> nth_error ts j = Some t' -> numeric_value t' = Some v' ->
       (obj_type spec = Minimize -> v < v') /\ (obj_type spec = Maximize -> v' < v)).
Proof.
  intros KT D NE. cbn zeta. destruct (update_keeps_summary now spec st ts) as (O&_). rewrite O.
  destruct (optimal_spec spec st ts KT D NE) as (i&t&v&N&V&Hn&Ha&Ho&All&First).
  exists i, t, v. repeat split; auto.
  - intro T. apply (as_good_min spec v v' T). now apply All.
  - intro T. apply (as_good_max spec v v' T). now apply All.
  - intro T. destruct (First j t' v' H H0 H1) as [G Ne]. apply (as_good_min spec v v' T) in G. lia.
  - intro T. destruct (First j t' v' H H0 H1) as [G Ne]. apply (as_good_max spec v v' T) in G. lia.
Qed.

Lemma T_no_value now spec st ts :
  (forall t, In t ts -> available t = false) ->
  e_optimal (update_experiment_status now spec st ts) = e_optimal st.
Proof.
  intro H. destruct (update_keeps_summary now spec st ts) as (O&_). rewrite O. now apply optimal_unchanged.
Qed.

(* ------------------------------------------------------------------ C03 *)

Definition goal_rule (spec : espec) (ts : list trial) : Prop := goal_reached spec ts = true.
Definition fail_rule_P (spec : espec) (ts : list trial) : Prop :=
  exists f, max_failed spec = Some f /\ Z.max f 1 <= failed_count ts.
Definition max_rule_P (spec : espec) (ts : list trial) : Prop :=
  exists m, max_trials spec = Some m /\ m <= finished_count ts.

Lemma fail_rule_iff spec n : fail_rule spec n = true <-> exists f, max_failed spec = Some f /\ Z.max f 1 <= n.
Proof.
  unfold fail_rule. destruct (max_failed spec) as [f|].
  - rewrite Z.leb_le. split; [eauto|intros (f'&[= <-]&H); exact H].
  - split; [discriminate|intros (f'&E&_); discriminate].
Qed.

Lemma max_rule_iff spec n : max_rule spec n = true <-> exists m, max_trials spec = Some m /\ m <= n.
Proof.
  unfold max_rule. destruct (max_trials spec) as [m|].
  - rewrite Z.leb_le. split; [eauto|intros (m'&[= <-]&H); exact H].
  - split; [discriminate|intros (m'&E&_); discriminate].
Qed.

Lemma meets_iff spec v :
  meets spec v = true <->
  exists g, obj_goal spec = Some g /\ ((obj_type spec = Minimize /\ v <= g) \/ (obj_type spec = Maximize /\ g <= v)).
Proof.
  unfold meets. destruct (obj_goal spec) as [g|]; [|split; [discriminate|intros (g&E&_); discriminate]].
  destruct (obj_type spec); cbn [as_good]; rewrite ?Z.leb_le; split.
  - intro H. exists g. auto.
  - intros (g'&[= <-]&[[_ H]|[E _]]); [exact H|discriminate].
  - intro H. exists g. auto.
  - intros (g'&[= <-]&[[E _]|[_ H]]); [discriminate|exact H].
  - discriminate.
  - intros (g'&_&[[E _]|[E _]]); discriminate.
Qed.

Lemma T_goal_flag spec ts :
  numeric_domain ts = true ->
  (goal_reached spec ts = true <->
   exists t v g, In t ts /\ numeric_value t = Some v /\ obj_goal spec = Some g /\
                 ((obj_type spec = Minimize /\ v <= g) \/ (obj_type spec = Maximize /\ g <= v))).
Proof.
  intro D. rewrite (goal_flag spec ts D). unfold goal_met. rewrite existsb_exists. split.
  - intros (v&I&M). apply numeric_values_in in I as (t&I&V). apply meets_iff in M as (g&G&H). exists t, v, g. auto.
  - intros (t&v&g&I&V&G&H). exists v. split; [apply numeric_values_in; eauto|]. apply meets_iff. eauto.
Qed.

Lemma decided_props st st' now g fr mr (G FR MR : Prop) :
  (g = true <-> G) -> (fr = true <-> FR) -> (mr = true <-> MR) -> decided st st' now g fr mr ->
  (exp_is_succeeded st' = true <-> G \/ (~ FR /\ MR)) /\
  (exp_is_failed st' = true <-> ~ G /\ FR) /\
  (G -> reason_of (e_conds st') ESucceeded = Some RGoalReached) /\
  (~ G -> FR -> reason_of (e_conds st') EFailed = Some RExperimentFailed) /\
  (~ G -> ~ FR -> MR -> reason_of (e_conds st') ESucceeded = Some RMaxTrialsReached) /\
  exp_is_running st' = negb (exp_is_completed st') /\
  e_completion st' = (if exp_is_completed st' then Some now else e_completion st).
Proof.
  intros HG HF HM [S F Rg Rf Rm R C]. rewrite S, F.
  assert (NG : g = false <-> ~ G) by (rewrite <- HG; destruct g; split; congruence).
  assert (NF : fr = false <-> ~ FR) by (rewrite <- HF; destruct fr; split; congruence).
  repeat split; auto.
  - destruct g; [left; now apply HG|]. destruct fr, mr; cbn; try discriminate. intros _. right. split; [now apply NF|now apply HM].
  - intros [H|[H1 H2]]; [apply HG in H; now rewrite H|]. apply NF in H1. apply HM in H2. rewrite H1, H2. apply orb_true_r.
  - apply NG. now destruct g.
  - apply HF. destruct g; [discriminate|assumption].
  - intros [H1 H2]. apply NG in H1. apply HF in H2. now rewrite H1, H2.
  - intro H. apply Rg. now apply HG.
  - intros H1 H2. apply Rf; [now apply NG|now apply HF].
  - intros H1 H2 H3. apply Rm; [now apply NG|now apply NF|now apply HM].
Qed.

Lemma T_decision now spec st ts :
  exp_is_completed st = false ->
  let st' := update_experiment_status now spec st ts in
  (exp_is_succeeded st' = true <-> goal_rule spec ts \/ (~ fail_rule_P spec ts /\ max_rule_P spec ts)) /\
  (exp_is_failed st' = true <-> ~ goal_rule spec ts /\ fail_rule_P spec ts) /\
  (goal_rule spec ts -> reason_of (e_conds st') ESucceeded = Some RGoalReached) /\
  (~ goal_rule spec ts -> fail_rule_P spec ts -> reason_of (e_conds st') EFailed = Some RExperimentFailed) /\
  (~ goal_rule spec ts -> ~ fail_rule_P spec ts -> max_rule_P spec ts ->
     reason_of (e_conds st') ESucceeded = Some RMaxTrialsReached) /\
  exp_is_running st' = negb (exp_is_completed st') /\
  e_completion st' = (if exp_is_completed st' then Some now else e_completion st).
Proof.
  intro NC. cbn zeta.
  apply (decided_props st _ now (goal_reached spec ts) (fail_rule spec (failed_count ts)) (max_rule spec (finished_count ts))).
  - reflexivity.
  - apply fail_rule_iff.
  - apply max_rule_iff.
  - now apply status_decided.
Qed.

(* the same for a direct call of UpdateExperimentStatusCondition with getSuggestionDone = false, from the
   counters of the status it is applied to *)
Lemma T_condition_decision now spec st g :
  exp_is_completed st = false -> 0 <= failed_trials_count st ->
  let st' := update_experiment_status_condition now spec st g false in
  let FR := exists f, max_failed spec = Some f /\ Z.max f 1 <= failed_trials_count st in
  let MR := exists m, max_trials spec = Some m /\ m <= completed_trials_count st in
  (exp_is_succeeded st' = true <-> g = true \/ (~ FR /\ MR)) /\
  (exp_is_failed st' = true <-> g <> true /\ FR) /\
  (g = true -> reason_of (e_conds st') ESucceeded = Some RGoalReached) /\
  (g <> true -> FR -> reason_of (e_conds st') EFailed = Some RExperimentFailed) /\
  (g <> true -> ~ FR -> MR -> reason_of (e_conds st') ESucceeded = Some RMaxTrialsReached) /\
  exp_is_running st' = negb (exp_is_completed st') /\
  e_completion st' = (if exp_is_completed st' then Some now else e_completion st).
Proof.
  intros NC P. cbn zeta.
  apply (decided_props st _ now g (fail_rule spec (failed_trials_count st)) (max_rule spec (completed_trials_count st))).
  - reflexivity.
  - apply fail_rule_iff.
  - apply max_rule_iff.
  - now apply condition_decided.
Qed.

Lemma T_exclusive now spec st ts :
  exp_is_completed st = false ->
  let st' := update_experiment_status now spec st ts in
  ~ (exp_is_succeeded st' = true /\ exp_is_failed st' = true) /\
  (exp_is_completed st' = true -> exp_is_running st' = false).
Proof.
  intro NC. cbn zeta. destruct (status_exclusive now spec st ts NC) as [A B]. split; [|exact B].
  intros [S F]. rewrite S, F in A. discriminate.
Qed.

Lemma T_condition_exclusive now spec st g d :
  exp_is_completed st = false ->
  let st' := update_experiment_status_condition now spec st g d in
  ~ (exp_is_succeeded st' = true /\ exp_is_failed st' = true) /\
  (exp_is_completed st' = true -> exp_is_running st' = false).
Proof.
  intro NC. cbn zeta. destruct (condition_exclusive now spec st g d NC) as [A B]. split; [|exact B].
  intros [S F]. rewrite S, F in A. discriminate.
Qed.

(* IsCompletedExperimentRestartable *)
Lemma T_restartable spec st :
  is_completed_experiment_restartable spec st = true <->
  reason_of (e_conds st) ESucceeded = Some RMaxTrialsReached /\
  (resume_policy spec = LongRunning \/ resume_policy spec = FromVolume).
Proof.
  unfold is_completed_experiment_restartable, exp_is_succeeded, exp_is_completed_reason, has_cond, reason_of.
  destruct (get_cond (e_conds st) ESucceeded) as [c|]; [|cbn; split; [discriminate|intros [H _]; discriminate]].
  destruct (cstatus_eqb (cstat c) CTrue); cbn [andb]; [|split; [discriminate|intros [H _]; discriminate]].
  destruct (Nat.eqb_spec (creason c) RMaxTrialsReached) as [E|N]; cbn [andb].
  - rewrite E. destruct (resume_policy spec); split; auto; try discriminate; intros [_ [H|H]]; discriminate.
  - split; [discriminate|]. intros [[= H] _]. contradiction.
Qed.

(* some trial's objective value meets the goal *)
Definition goal_met_P (spec : espec) (ts : list trial) : Prop :=
  exists t v g, In t ts /\ numeric_value t = Some v /\ obj_goal spec = Some g /\
                ((obj_type spec = Minimize /\ v <= g) \/ (obj_type spec = Maximize /\ g <= v)).

(* T_decision with the goal rule spelled out over the objective values (numeric domain) *)
Lemma T_decision_values now spec st ts :
  exp_is_completed st = false -> numeric_domain ts = true ->
  let st' := update_experiment_status now spec st ts in
  (exp_is_succeeded st' = true <-> goal_met_P spec ts \/ (~ fail_rule_P spec ts /\ max_rule_P spec ts)) /\
  (exp_is_failed st' = true <-> ~ goal_met_P spec ts /\ fail_rule_P spec ts) /\
  (goal_met_P spec ts -> reason_of (e_conds st') ESucceeded = Some RGoalReached) /\
  (~ goal_met_P spec ts -> fail_rule_P spec ts -> reason_of (e_conds st') EFailed = Some RExperimentFailed) /\
  (~ goal_met_P spec ts -> ~ fail_rule_P spec ts -> max_rule_P spec ts ->
     reason_of (e_conds st') ESucceeded = Some RMaxTrialsReached) /\
  exp_is_running st' = negb (exp_is_completed st') /\
  e_completion st' = (if exp_is_completed st' then Some now else e_completion st).
Proof.
  intros NC D. cbn zeta.
  apply (decided_props st _ now (goal_reached spec ts) (fail_rule spec (failed_count ts)) (max_rule spec (finished_count ts))).
  - now apply T_goal_flag.
  - apply fail_rule_iff.
  - apply max_rule_iff.
  - now apply status_decided.
Qed.
