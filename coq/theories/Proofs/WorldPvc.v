(* C16: "... while the volume claim is kept" as a statement over runs: no controller ever has a deletion of the volume claim
   pending (PvInv), so once the claim exists it exists in every later state of every history without teardown. *)
From KV Require Import Base.Prelude Base.Cond Model.World Proofs.WorldPlan Proofs.WorldInv Proofs.WorldInv2 Proofs.WorldInv5
  Proofs.WorldThm Proofs.WorldSucc Proofs.WorldQuiet Proofs.WorldMu.
Open Scope Z_scope.

Definition is_pvc_delete (wr : write) : bool := match wr with WInfraDelete IPvc => true | _ => false end.

Lemma apply_write_pvc w wr w1 :
  apply_write w wr = Some w1 -> is_pvc_delete wr = false -> i_pvc (w_infra w) = true -> i_pvc (w_infra w1) = true.
Proof.
  intros A N P. destruct wr; try (destruct k); cbn [apply_write] in A; try discriminate N;
    repeat aw_cases A w; inversion A; subst; try exact P; reflexivity.
Qed.

Definition PvInv (w : world) : Prop := forall c x, In x (pending_of w c) -> is_pvc_delete (fst x) = false.

Lemma step_pv w a : Inv w -> PvInv w -> PvInv (step w a).
Proof.
  intros [I _] Pv c x H. destruct (step_pending2 w a c x H) as [Old|(_&key&resp&dberr&_&Pl)]; [exact (Pv c x Old)|].
  destruct c.
  - destruct (plan_exp_shape w x Pl) as (e&Hce&Sh).
    destruct (i_exp _ I) as (e0&ce'&He0&Hce'&_&_&_&_&Nce). rewrite Hce in Hce'. inversion Hce'; subst ce'.
    destruct (Sh (status_ok_nonneg _ _ Nce)) as [(add&->)|[(st&->&_)|[(s&cs'&_&->)|[->|(r&_&[(_&->)|(s&_&[->|(n&->&_)])])]]]]; reflexivity.
  - destruct x as [wr onf]. destruct wr; try reflexivity. destruct k; try reflexivity.
    destruct (plan_sug_deletes w resp IPvc onf Pl); discriminate.
  - destruct (plan_trial_shape _ _ _ _ Pl) as (t&F&N&[(->&_)|[(P&D)|[(->&_)|[(->&_)|[(->&_)|(cs&o&ct&->&_)]]]]]); try reflexivity.
    rewrite P in Pl. destruct Pl as [<-|[<-|[]]]; reflexivity.
Qed.

Lemma step_pvc w a : PvInv w -> i_pvc (w_infra w) = true -> i_pvc (w_infra (step w a)) = true.
Proof.
  intros Pv P. destruct a; cbn [step].
  - destruct (pending_of w c); [|exact P]. destruct c; [exact P| |exact P]. destruct (plan_sug w resp). exact P.
  - destruct (pending_of w c) as [|[wr onf] rest] eqn:Ep; [exact P|].
    destruct (if inject_failure then None else apply_write (count_write w) wr) as [w1|] eqn:A; [|destruct c; exact P].
    destruct inject_failure; [discriminate|].
    assert (N : is_pvc_delete wr = false) by (apply (Pv c (wr, onf)); rewrite Ep; now left).
    pose proof (apply_write_pvc _ _ _ A N P) as R. destruct c; exact R.
  - destruct c; exact P.
  - exact P.
  - exact P.
  - destruct (find_trial t (w_trials w)); exact P.
  - destruct (find_trial t (w_trials w)); [|exact P]. destruct (_ && _); [|exact P]. destruct v; [destruct (db_get t (w_db w))|]; exact P.
  - destruct (i_dep (w_infra w)); exact P.
  - exact P.
  - exact P.
  - exact P.
  - destruct (w_exp w) as [e|]; [|exact P]. destruct (e_max e); [|exact P]. destruct (_ && _); exact P.
  - destruct (w_exp w) as [e|]; [|exact P]. destruct (e_fin e); exact P.
  - destruct (w_exp w); [exact P|]. destruct (find_trial t (w_trials w)); [|exact P]. destruct (t_fin _); exact P.
Qed.

Lemma pv_init c : PvInv (init c).
Proof. intros k x H. destruct k; destruct H. Qed.

Lemma pvc_kept_steps acts : forall w, Inv w -> PvInv w -> no_teardown acts -> i_pvc (w_infra w) = true ->
  i_pvc (w_infra (fold_left step acts w)) = true.
Proof.
  induction acts as [|a acts IH]; intros w I Pv NT P; [exact P|].
  apply no_teardown_cons in NT as [Na NT]. cbn [fold_left].
  apply IH; [now apply step_inv|now apply step_pv|exact NT|now apply step_pvc].
Qed.

Lemma pv_steps acts : forall w, Inv w -> PvInv w -> no_teardown acts -> PvInv (fold_left step acts w).
Proof.
  induction acts as [|a acts IH]; intros w I Pv NT; [exact Pv|].
  apply no_teardown_cons in NT as [Na NT]. cbn [fold_left]. apply IH; [now apply step_inv|now apply step_pv|exact NT].
Qed.

(* once the volume claim exists it exists in every later state *)
Theorem pvc_kept_over_runs c acts1 acts2 :
  valid_cfg c -> no_teardown (acts1 ++ acts2) ->
  i_pvc (w_infra (run c acts1)) = true -> i_pvc (w_infra (run c (acts1 ++ acts2))) = true.
Proof.
  intros V NT P. apply no_teardown_app in NT as [N1 N2]. unfold run. rewrite fold_left_app.
  apply pvc_kept_steps; [exact (Inv_reachable c acts1 V N1)|apply pv_steps; [now apply Inv_init|apply pv_init|exact N1]|exact N2|exact P].
Qed.

(* Non-vacuity: in the F18 history (resumePolicy FromVolume, 751 actions, a completion with cleanup and a restart) the claim
   exists after 80 actions; the theorem keeps it through the remaining 671, cleanup of Deployment and Service included. *)
From KV Require Import Proofs.F18.
Example pvc_premises_hold :
  valid_cfg f18_cfg /\ no_teardown (firstn 80 f18_acts ++ skipn 80 f18_acts) /\ c_resume f18_cfg = FromVolume /\
  i_pvc (w_infra (run f18_cfg (firstn 80 f18_acts))) = true /\ length (skipn 80 f18_acts) = 671%nat.
Proof.
  destruct f18_premises_hold as (V&NT&_). rewrite firstn_skipn.
  split; [exact V|]. split; [exact NT|]. split; [reflexivity|]. split; vm_compute; reflexivity.
Qed.
