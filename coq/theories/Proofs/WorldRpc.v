(* C16: a Succeeded suggestion causes no further algorithm calls -- as a statement about every step of the joint model. *)
From KV Require Import Base.Prelude Base.Cond Model.World Proofs.WorldPlan Proofs.WorldInv Proofs.WorldSucc.
Open Scope Z_scope.

Lemma apply_write_rpcs w wr w1 : apply_write w wr = Some w1 -> g_rpcs w1 = g_rpcs w.
Proof. intro A. destruct wr; cbn [apply_write] in A; repeat aw_cases A w; inversion A; subst; reflexivity. Qed.

(* the log of algorithm calls grows only when a suggestion reconcile begins, by the calls that reconcile plans *)
Lemma step_rpcs w a :
  g_rpcs (step w a) = g_rpcs w \/
  exists key resp dberr, a = Begin CSug key resp dberr /\ pending_of w CSug = [] /\ g_rpcs (step w a) = g_rpcs w ++ snd (plan_sug w resp).
Proof.
  destruct a; cbn [step].
  - destruct (pending_of w c) eqn:Ep; [|now left]. destruct c; [now left| |now left].
    destruct (plan_sug w resp) as [p rpcs] eqn:Ps. right. exists key, resp, dberr. split; [reflexivity|]. split; [exact Ep|]. rewrite Ps. reflexivity.
  - destruct (pending_of w c) as [|[wr onf] rest]; [now left|].
    destruct (if inject_failure then None else apply_write (count_write w) wr) as [w1|] eqn:A; [|left; destruct c; reflexivity].
    destruct inject_failure; [discriminate|]. left. pose proof (apply_write_rpcs _ _ _ A) as R. destruct c; cbn; rewrite R; reflexivity.
  - left. destruct c; reflexivity.
  - now left.
  - now left.
  - left. destruct (find_trial t (w_trials w)), (db_get t (w_db w)); reflexivity.
  - left. destruct (find_trial t (w_trials w)) as [tr|]; [|reflexivity]. destruct (_ && _); [|reflexivity].
    cbn. destruct v, (db_get t (w_db w)); reflexivity.
  - left. destruct (i_dep (w_infra w)); reflexivity.
  - now left.
  - now left.
  - now left.
  - left. destruct (w_exp w) as [e|]; [|reflexivity]. destruct (e_max e); [|reflexivity]. destruct (_ && _ && _); reflexivity.
  - left. destruct (w_exp w) as [e|]; [|reflexivity]. destruct (e_fin e); reflexivity.
  - left. destruct (w_exp w), (find_trial t (w_trials w)) as [tr|]; try reflexivity. destruct (t_fin tr); reflexivity.
Qed.

(* While the suggestion controller sees the suggestion Succeeded no step whatsoever issues an algorithm call. *)
Theorem no_rpc_while_succeeded w a s :
  c_sug w = Some s -> s_is (s_st s) SSucceeded = true -> g_rpcs (step w a) = g_rpcs w.
Proof.
  intros Hs S. destruct (step_rpcs w a) as [E|(key&resp&dberr&->&_&E)]; [exact E|].
  rewrite E. destruct (plan_sug_succeeded w resp s Hs S) as [R _]. rewrite R. apply app_nil_r.
Qed.

(* Conversely: an algorithm call is only ever issued by a suggestion reconcile that sees a suggestion which is not Succeeded. *)
Theorem rpc_needs_unsucceeded w a :
  g_rpcs (step w a) <> g_rpcs w ->
  exists key resp dberr s, a = Begin CSug key resp dberr /\ c_sug w = Some s /\ s_is (s_st s) SSucceeded = false.
Proof.
  intro N. destruct (step_rpcs w a) as [E|(key&resp&dberr&->&_&E)]; [contradiction|].
  destruct (c_sug w) as [s|] eqn:Hs.
  - destruct (s_is (s_st s) SSucceeded) eqn:S.
    + exfalso. apply N. rewrite E. destruct (plan_sug_succeeded w resp s Hs S) as [R _]. rewrite R. apply app_nil_r.
    + exists key, resp, dberr, s. auto.
  - exfalso. apply N. rewrite E. unfold plan_sug. rewrite Hs. apply app_nil_r.
Qed.
