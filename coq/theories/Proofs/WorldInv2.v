(* The inductive invariant: definition, monotonicity of pending-write justifications under store evolution. *)
From KV Require Import Base.Prelude Base.Cond Model.World Proofs.WorldPlan Proofs.WorldInv.
Open Scope Z_scope.

Definition req_ok (w : world) (r : Z) : Prop :=
  r <= completed_n (w_trials w) + c_par (w_cfg w) /\ forall e m, w_exp w = Some e -> e_max e = Some m -> r <= m.

(* the status counters are those of its class list, which is no longer than the trial list *)
Definition status_ok (w : world) (st : estatus) : Prop :=
  status_wf st /\ (length (es_classes st) <= length (w_trials w))%nat.

Lemma status_ok_nonneg w st : status_ok w st -> counts_nonneg (es_counts st).
Proof. intros [W _]. rewrite W. apply counts_of_nonneg. Qed.

(* what justifies a pending write, relative to the current store *)
Definition write_ok (w : world) (x : write * onfail) : Prop :=
  match fst x with
  | WSugCreate r => req_ok w r
  | WSugSpec r rv => req_ok w r
  | WSugStatus st rv =>
      ss_count st = Z.of_nat (length (ss_names st)) /\ Z.of_nat (length (ss_names st)) <= g_maxreq w /\
      exists s, w_sug w = Some s /\ (rv <= s_rv s)%nat /\ (rv = s_rv s -> exists l, ss_names st = ss_names (s_st s) ++ l)
  | WTrialCreate n => exists s, w_sug w = Some s /\ In n (ss_names (s_st s))
  | WTrialStatus n cs o ct rv =>
      exists t, find_trial n (w_trials w) = Some t /\ (rv <= t_rv t)%nat /\
                (rv = t_rv t -> (forall k, In k terminal_types -> t_is t k = true -> has_cond cs k = true) /\
                                (tgood t -> good_conds cs o))
  | WExpStatus st rv =>
      status_ok w st /\
      exists e, w_exp w = Some e /\ (rv <= e_rv e)%nat /\
                (rv = e_rv e -> e_completed (e_st e) = true -> restart_enabled_e (w_cfg w) e = false -> verdict_same (e_st e) st)
  | _ => True
  end.

Record InvS (w : world) : Prop := {
  i_par : 0 <= c_par (w_cfg w);
  i_exp : exists e ce, w_exp w = Some e /\ c_exp w = Some ce /\ ele ce e /\ e_deleting e = false /\ e_deleting ce = false /\
          status_ok w (e_st e) /\ status_ok w (e_st ce);
  i_nodup : NoDup (names (w_trials w));
  i_del : Forall (fun t => t_deleting t = false) (w_trials w);
  i_cdel : Forall (fun t => t_deleting t = false) (c_trials w);
  i_tlag : tlag (c_trials w) (w_trials w);
  i_sug : match w_sug w with
          | None => c_sug w = None /\ w_trials w = []
          | Some s => swf s /\ ss_count (s_st s) <= g_maxreq w /\ s_requests s <= g_maxreq w /\
                      incl (names (w_trials w)) (ss_names (s_st s)) /\
                      match c_sug w with
                      | None => True
                      | Some cs => sle cs s /\ swf cs /\ ss_count (s_st cs) <= g_maxreq w /\ s_requests cs <= g_maxreq w
                      end
          end;
  i_bud : 0 <= g_maxreq w /\ g_maxreq w <= completed_n (w_trials w) + c_par (w_cfg w) /\
          forall e m, w_exp w = Some e -> e_max e = Some m -> g_maxreq w <= m;
  i_tgood : Forall tgood (w_trials w) }.

Definition InvP (w : world) : Prop :=
  Forall (write_ok w) (p_exp w) /\ Forall (write_ok w) (p_sug w) /\ Forall (write_ok w) (p_trial w).

Definition Inv (w : world) : Prop := InvS w /\ InvP w.

(* ------------------------------------------------------------------ order lemmas *)

Lemma max_le_refl a : max_le a a.
Proof. destruct a; cbn; [lia|exact I]. Qed.

Lemma max_le_trans a b c : max_le a b -> max_le b c -> max_le a c.
Proof. destruct a, b, c; cbn; try tauto; lia. Qed.

Lemma ele_refl e : ele e e.
Proof. repeat split; auto using max_le_refl. Qed.

Lemma ele_trans a b c : ele a b -> ele b c -> ele a c.
Proof.
  intros (R1&E1&M1) (R2&E2&M2). repeat split; [lia| |eapply max_le_trans; eauto].
  intro Q. assert (e_rv a = e_rv b) by lia. assert (e_rv b = e_rv c) by lia. rewrite E1; auto.
Qed.

Lemma sle_refl s : sle s s.
Proof. repeat split; auto. exists []. now rewrite app_nil_r. Qed.

Lemma sle_trans a b c : sle a b -> sle b c -> sle a c.
Proof.
  intros (R1&E1&l1&N1) (R2&E2&l2&N2). repeat split; [lia| |exists (l1 ++ l2); rewrite N2, N1; now rewrite <- app_assoc].
  intro Q. assert (s_rv a = s_rv b) by lia. assert (s_rv b = s_rv c) by lia. rewrite E1; auto.
Qed.

Lemma tle_trans a b c : tle a b -> tle b c -> tle a c.
Proof.
  intros (N1&R1&E1&T1) (N2&R2&E2&T2). repeat split; [congruence|lia| |auto].
  intro Q. assert (t_rv a = t_rv b) by lia. assert (t_rv b = t_rv c) by lia. rewrite E1; auto.
Qed.

Lemma tlag_trans a b c : tlag a b -> tlag b c -> tlag a c.
Proof.
  intro H. revert c. induction H as [|t t' x y L _ IH]; intros c H2; [constructor|].
  inversion H2 as [|t2 t2' x2 y2 L2 H2']; subst. constructor; [eapply tle_trans; eauto|auto].
Qed.

Lemma tlag_find c w n t : tlag c w -> find_trial n c = Some t -> exists t', find_trial n w = Some t' /\ tle t t'.
Proof.
  unfold find_trial. induction 1 as [|a a' c w L _ IH]; cbn; [discriminate|].
  assert (N : t_name a = t_name a') by (destruct L; auto). rewrite <- N.
  destruct (Nat.eqb (t_name a) n); [intros [= <-]; eauto|auto].
Qed.

(* ------------------------------------------------------------------ evolution of the store *)

Record evolves (w w' : world) : Prop := {
  ev_cfg : w_cfg w' = w_cfg w;
  ev_exp : forall e', w_exp w' = Some e' -> exists e, w_exp w = Some e /\ ele e e';
  ev_exp_fwd : forall e, w_exp w = Some e -> exists e', w_exp w' = Some e' /\ ele e e';
  ev_sug : forall s, w_sug w = Some s -> exists s', w_sug w' = Some s' /\ sle s s';
  ev_trials : tlag (w_trials w) (w_trials w');
  ev_maxreq : g_maxreq w <= g_maxreq w' }.

Lemma evolves_refl w : evolves w w.
Proof.
  constructor; auto using tlag_refl; try lia.
  - intros e H. exists e. auto using ele_refl.
  - intros e H. exists e. auto using ele_refl.
  - intros s H. exists s. auto using sle_refl.
Qed.

Lemma req_ok_mono w w' r : evolves w w' -> req_ok w r -> req_ok w' r.
Proof.
  intros E [H1 H2]. split.
  - rewrite (ev_cfg _ _ E). pose proof (tlag_completed _ _ (ev_trials _ _ E)). lia.
  - intros e' m' He' Hm'. destruct (ev_exp _ _ E _ He') as (e&He&(_&_&M)).
    rewrite Hm' in M. destruct (e_max e) as [m|] eqn:Em; [|destruct M]. cbn in M. specialize (H2 e m He Em). lia.
Qed.

Lemma write_ok_mono w w' x : evolves w w' -> write_ok w x -> write_ok w' x.
Proof.
  intros E. unfold write_ok. destruct (fst x); auto.
  - (* WExpStatus *)
    intros (NN&e&He&R&P). split; [destruct NN as [N1 N2]; split; [exact N1|pose proof (tlag_length _ _ (ev_trials _ _ E)); lia]|].
    destruct (ev_exp_fwd _ _ E _ He) as (e'&He'&(R'&E'&_)). exists e'. split; [exact He'|]. split; [lia|].
    intro Q. assert (Q1 : rv = e_rv e) by lia. assert (Q2 : e_rv e = e_rv e') by lia.
    rewrite <- (E' Q2), (ev_cfg _ _ E). auto.
  - apply req_ok_mono; assumption.
  - apply req_ok_mono; assumption.
  - intros (C&G&s&Hs&R&P). split; [exact C|]. split; [pose proof (ev_maxreq _ _ E); lia|].
    destruct (ev_sug _ _ E _ Hs) as (s'&Hs'&(R'&E'&l'&N')). exists s'. split; [exact Hs'|]. split; [lia|].
    intro Q. assert (Q1 : rv = s_rv s) by lia. assert (Q2 : s_rv s = s_rv s') by lia.
    rewrite <- (E' Q2). auto.
  - intros (s&Hs&I). destruct (ev_sug _ _ E _ Hs) as (s'&Hs'&(_&_&l&N)). exists s'. split; [exact Hs'|].
    rewrite N. apply in_or_app. now left.
  - intros (t&F&R&P). destruct (tlag_find _ _ _ _ (ev_trials _ _ E) F) as (t'&F'&(N&R'&E'&T')).
    exists t'. split; [exact F'|]. split; [lia|].
    intro Q. assert (Q1 : rv = t_rv t) by lia. assert (Q2 : t_rv t = t_rv t') by lia.
    rewrite <- (E' Q2). auto.
Qed.

Lemma InvP_mono w w' : evolves w w' -> p_exp w' = p_exp w -> p_sug w' = p_sug w -> p_trial w' = p_trial w -> InvP w -> InvP w'.
Proof.
  unfold InvP. intros E -> -> -> (A&B&C). repeat split; eapply Forall_impl; try eassumption; intros; eapply write_ok_mono; eauto.
Qed.
