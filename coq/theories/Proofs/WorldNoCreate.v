(* C01, third sentence, over runs: once the stored experiment carries a verdict that the user has not enabled to restart, no
   further trial is created -- for every interleaving, cache lag, fault and abort (no teardown). *)
From KV Require Import Base.Prelude Base.Cond Model.World Proofs.WorldPlan Proofs.EqbRefl Proofs.WorldInv Proofs.WorldInv2
  Proofs.WorldInv4 Proofs.WorldInv5 Proofs.WorldThm Proofs.WorldSucc Proofs.WorldCalm Proofs.WorldTrials Proofs.WorldJob
  Proofs.WorldObs Proofs.WorldStab Proofs.WorldDecide Proofs.WorldSugFail Proofs.WorldFin.
Open Scope Z_scope.

Definition sugfail (w : world) : Prop := exists cs, c_sug w = Some cs /\ sfailed (s_st cs) = true.

(* the caches justify a verdict: recomputing from them gives a verdict again *)
Definition justified (w : world) (mx : option Z) : Prop :=
  (c_trials w <> [] /\ tdec (w_cfg w) mx (c_trials w) = true) \/ sugfail w.

Definition settled (cf : cfg) (e : expobj) : Prop := e_completed (e_st e) = true /\ restart_enabled_e cf e = false.

Definition is_tcreate (x : write * onfail) : bool := match fst x with WTrialCreate _ => true | _ => false end.
Definition is_estatus (x : write * onfail) : bool := match fst x with WExpStatus _ _ => true | _ => false end.

(* ------------------------------------------------------------------ the plan of an experiment reconcile, once more *)

Lemma no_tcreate_status_write e st : existsb is_tcreate (status_write e st) = false.
Proof. unfold status_write. destruct (estatus_eqb _ _); reflexivity. Qed.

Lemma no_tcreate_completed cf e sug : existsb is_tcreate (fst (fst (plan_exp_completed cf e sug))) = false.
Proof.
  destruct (existsb is_tcreate (fst (fst (plan_exp_completed cf e sug)))) eqn:E; [|reflexivity]. exfalso.
  apply existsb_exists in E as (x&Ix&Hx).
  destruct (plan_exp_completed cf e sug) as [[ws st1] stop] eqn:PC. cbn [fst] in Ix.
  destruct (plan_exp_completed_shape _ _ _ _ _ _ _ PC Ix) as (s&cs'&_&->). discriminate.
Qed.

Lemma existsb_app_false {A} (f : A -> bool) l1 l2 : existsb f l1 = false -> existsb f l2 = false -> existsb f (l1 ++ l2) = false.
Proof. intros H1 H2. now rewrite existsb_app, H1, H2. Qed.

(* if the status recomputed from the caches is completed, or the cached suggestion has failed, no trial creation is planned *)
Lemma reconcile_no_create w e st1 :
  e_completed st1 = true \/ justified w (e_max e) -> existsb is_tcreate (plan_exp_reconcile w e st1) = false.
Proof.
  intro J. unfold plan_exp_reconcile, justified in *.
  destruct (c_trials w) as [|t0 ts'] eqn:Ets.
  - (* no trial in the cache *)
    destruct (e_completed st1) eqn:C1; [apply no_tcreate_status_write|].
    destruct (plan_trials (w_cfg w) (e_max e) st1 [] (c_sug w)) as [ws2 st3] eqn:PT.
    apply existsb_app_false; [|apply no_tcreate_status_write].
    destruct J as [J|[(Ne&_)|(cs&Hcs&F)]]; [discriminate|contradiction|].
    assert (E2 : ws2 = fst (plan_trials (w_cfg w) (e_max e) st1 [] (c_sug w))) by now rewrite PT. rewrite E2.
    unfold plan_trials. destruct (_ <? _); [reflexivity|]. destruct (_ <? _); [|reflexivity]. destruct (0 <? _); [|reflexivity].
    unfold plan_create. rewrite Hcs. unfold sfailed in F. rewrite F. reflexivity.
  - set (ts := t0 :: ts') in *.
    destruct (e_completed (update_status (w_cfg w) (e_max e) (w_clock w) st1 ts)) eqn:C2; [apply no_tcreate_status_write|].
    destruct (plan_trials (w_cfg w) (e_max e) (update_status (w_cfg w) (e_max e) (w_clock w) st1 ts) ts (c_sug w)) as [ws2 st3] eqn:PT.
    apply existsb_app_false; [|apply no_tcreate_status_write].
    assert (NC1 : e_completed st1 = false).
    { destruct (e_completed st1) eqn:C1; [|reflexivity]. exfalso.
      unfold update_status in C2. destruct (scan_best _ _ _ _ _) as [best reached].
      match type of C2 with context [if ?c then _ else _] => assert (X : c = true) by exact C1; rewrite X in C2 end.
      unfold e_completed, e_is in *. cbn [es_conds] in C2. congruence. }
    assert (SF : sugfail w).
    { destruct J as [J|[(Ne&Td)|SF]]; [congruence| |exact SF]. exfalso.
      rewrite update_status_completed in C2 by exact NC1. congruence. }
    destruct SF as (cs&Hcs&F).
    assert (E2 : ws2 = fst (plan_trials (w_cfg w) (e_max e) (update_status (w_cfg w) (e_max e) (w_clock w) st1 ts) ts (c_sug w))) by now rewrite PT.
    rewrite E2.
    unfold plan_trials. destruct (_ <? _); [reflexivity|]. destruct (_ <? _); [|reflexivity]. destruct (0 <? _); [|reflexivity].
    unfold plan_create. rewrite Hcs. unfold sfailed in F. rewrite F. reflexivity.
Qed.

Lemma plan_exp_no_create w ce :
  c_exp w = Some ce -> settled (w_cfg w) ce \/ justified w (e_max ce) -> existsb is_tcreate (plan_exp w) = false.
Proof.
  intros Hce J. unfold plan_exp. rewrite Hce.
  destruct (negb (e_deleting ce) && negb (e_fin ce)); [reflexivity|].
  destruct (e_deleting ce && e_fin ce); [reflexivity|].
  pose proof (no_tcreate_completed (w_cfg w) ce (c_sug w)) as N1.
  destruct (plan_exp_completed (w_cfg w) ce (c_sug w)) as [[ws1 st1] stop] eqn:PC. cbn [fst] in N1.
  destruct stop; [exact N1|].
  destruct (negb (e_is st1 ECreated)); apply existsb_app_false; try exact N1; [apply no_tcreate_status_write|].
  apply reconcile_no_create.
  destruct J as [[C R]|J]; [left|right; exact J].
  revert PC. unfold plan_exp_completed. rewrite C. unfold restart_enabled_e in R. rewrite R. now intros [= _ <- _].
Qed.

(* a completed status the experiment controller plans to write: inherited from the settled cached experiment, or justified
   by the caches *)
Lemma plan_trials_failed_status cf mx st2 ts sug :
  e_completed st2 = false -> e_completed (snd (plan_trials cf mx st2 ts sug)) = true ->
  exists s, sug = Some s /\ sfailed (s_st s) = true.
Proof.
  intros C2. unfold plan_trials. destruct (_ <? _); [cbn; congruence|]. destruct (_ <? _); [|cbn; congruence].
  destruct (0 <? _); [|cbn; congruence].
  unfold plan_create. destruct sug as [s|]; [|cbn; congruence].
  destruct (s_is (s_st s) SFailed) eqn:F; [intros _; exists s; auto|].
  destruct (_ && _); cbn; congruence.
Qed.

Lemma reconcile_completed_status w e st1 st rv onf :
  In (WExpStatus st rv, onf) (plan_exp_reconcile w e st1) -> e_completed st = true ->
  e_completed st1 = true \/ justified w (e_max e).
Proof.
  unfold plan_exp_reconcile, justified. intros H C.
  destruct (e_completed st1) eqn:C1; [now left|]. right.
  destruct (c_trials w) as [|t0 ts'] eqn:Ets.
  - rewrite C1 in H. destruct (plan_trials (w_cfg w) (e_max e) st1 [] (c_sug w)) as [ws2 st3] eqn:PT.
    apply in_app_or in H as [H|H].
    + exfalso. assert (H' : In (WExpStatus st rv, onf) (fst (plan_trials (w_cfg w) (e_max e) st1 [] (c_sug w)))) by now rewrite PT.
      pose proof (ek_plan_trials_nostatus (w_cfg w) (e_max e) st1 [] (c_sug w)) as NS. rewrite forallb_forall in NS. specialize (NS _ H'). discriminate.
    + apply in_status_write in H. inversion H; subst st3. right.
      apply (plan_trials_failed_status (w_cfg w) (e_max e) st1 [] (c_sug w) C1). now rewrite PT.
  - set (ts := t0 :: ts') in *.
    destruct (e_completed (update_status (w_cfg w) (e_max e) (w_clock w) st1 ts)) eqn:C2.
    + apply in_status_write in H. inversion H; subst. left. split; [discriminate|]. rewrite update_status_completed in C2 by exact C1. exact C2.
    + destruct (plan_trials (w_cfg w) (e_max e) (update_status (w_cfg w) (e_max e) (w_clock w) st1 ts) ts (c_sug w)) as [ws2 st3] eqn:PT.
      apply in_app_or in H as [H|H].
      * exfalso. assert (H' : In (WExpStatus st rv, onf) (fst (plan_trials (w_cfg w) (e_max e) (update_status (w_cfg w) (e_max e) (w_clock w) st1 ts) ts (c_sug w)))) by now rewrite PT.
        pose proof (ek_plan_trials_nostatus (w_cfg w) (e_max e) (update_status (w_cfg w) (e_max e) (w_clock w) st1 ts) ts (c_sug w)) as NS.
        rewrite forallb_forall in NS. specialize (NS _ H'). discriminate.
      * apply in_status_write in H. inversion H; subst st3. right.
        apply (plan_trials_failed_status (w_cfg w) (e_max e) _ ts (c_sug w) C2). now rewrite PT.
Qed.

Lemma reconcile_status_rv w e st1 st rv onf : In (WExpStatus st rv, onf) (plan_exp_reconcile w e st1) -> rv = e_rv e.
Proof.
  unfold plan_exp_reconcile.
  generalize (match c_trials w with [] => st1 | _ => update_status (w_cfg w) (e_max e) (w_clock w) st1 (c_trials w) end). intro st2.
  destruct (e_completed st2); [intro H; apply in_status_write in H; now inversion H|].
  pose proof (ek_plan_trials_nostatus (w_cfg w) (e_max e) st2 (c_trials w) (c_sug w)) as NS.
  destruct (plan_trials (w_cfg w) (e_max e) st2 (c_trials w) (c_sug w)) as [ws2 st3]. cbn [fst] in NS.
  intro H. apply in_app_or in H as [H|H]; [|apply in_status_write in H; now inversion H].
  rewrite forallb_forall in NS. specialize (NS _ H). discriminate.
Qed.

Lemma plan_exp_completed_status w ce st rv onf :
  c_exp w = Some ce -> In (WExpStatus st rv, onf) (plan_exp w) -> e_completed st = true ->
  rv = e_rv ce /\ (settled (w_cfg w) ce \/ justified w (e_max ce)).
Proof.
  intros Hce H C. unfold plan_exp in H. rewrite Hce in H.
  destruct (negb (e_deleting ce) && negb (e_fin ce)); [destruct H as [X|[]]; discriminate|].
  destruct (e_deleting ce && e_fin ce); [destruct H as [X|[]]; discriminate|].
  destruct (plan_exp_completed (w_cfg w) ce (c_sug w)) as [[ws1 st1] stop] eqn:PC.
  assert (N1 : ~ In (WExpStatus st rv, onf) ws1).
  { intro I. destruct (plan_exp_completed_shape _ _ _ _ _ _ _ PC I) as (s&cs'&_&E). discriminate. }
  (* st1 completed means the cached experiment is settled *)
  assert (S1 : e_completed st1 = true -> settled (w_cfg w) ce).
  { revert PC. unfold plan_exp_completed, settled, restart_enabled_e. destruct (e_completed (e_st ce)) eqn:C0; [|intros [= _ <- _]; congruence].
    destruct (restartable _ _ && _) eqn:R; intros [= _ <- _] C1; [|auto].
    exfalso. assert (mt (mark_restarting (e_st ce)) = false) by apply mt_mark_restarting.
    unfold e_completed, e_is, mark_restarting, mark in C1. cbn [es_conds] in C1. rewrite !has_set in C1. cbn in C1.
    unfold has_cond in C1. rewrite !get_remove_other, get_remove_same in C1 by discriminate.
    rewrite get_remove_same in C1. discriminate. }
  destruct stop; [contradiction|].
  destruct (negb (e_is st1 ECreated)).
  - apply in_app_or in H as [H|H]; [contradiction|]. apply in_status_write in H. inversion H; subst. split; [reflexivity|]. left. apply S1.
    unfold e_completed, e_is, with_conds, mark in *. cbn [es_conds] in C. rewrite !has_set in C. exact C.
  - apply in_app_or in H as [H|H]; [contradiction|].
    assert (Rv : rv = e_rv ce) by (eapply reconcile_status_rv; eauto).
    split; [exact Rv|]. destruct (reconcile_completed_status _ _ _ _ _ _ H C) as [C1|J]; [left; auto|right; exact J].
Qed.

(* ------------------------------------------------------------------ justification only grows *)

Lemma plag_nonempty (R : trial -> trial -> Prop) a b : plag R a b -> a <> [] -> b <> [].
Proof. intros P N. destruct P; [contradiction|discriminate]. Qed.

Lemma justified_max_le w mx mx' : max_le mx' mx -> justified w mx -> justified w mx'.
Proof. intros L [[N T]|S]; [left; split; [exact N|eapply tdec_max_le; eauto]|now right]. Qed.

Lemma justified_step w a mx :
  Inv w -> ObInv w -> TS w -> SFInv w -> is_teardown a = false -> justified w mx -> justified (step w a) mx.
Proof.
  intros Iv OB T SF NT J. unfold justified in *. rewrite step_cfg.
  destruct J as [[Ne Td]|(cs&Hcs&F)].
  - left. destruct (step_ctrials w a) as [E|E]; rewrite E; [auto|].
    assert (G : tgrow tst (w_trials w) (w_trials (step w a))).
    { apply (tgrow_impl (tev w) tst _ _ (fun t t' It E0 => tev_tst w t t' Iv T It E0)). apply (step_trials w a Iv NT). }
    assert (P : plag tst (c_trials w) (w_trials (step w a))).
    { eapply plag_grow; [|apply (ts_lag _ T)|exact G]. intros x y z. apply tst_trans. }
    split; [eapply plag_nonempty; eauto|eapply tdec_mono; eauto].
  - right. unfold sugfail. destruct (step_csug w a) as [E|E]; rewrite E; [eauto|].
    destruct (sf_cache _ SF _ Hcs F) as (s&Hs&Fs). eapply step_sug_failed; eauto.
Qed.

(* ------------------------------------------------------------------ the invariant *)

Definition plain (x : write * onfail) : bool := negb (is_tcreate x) && negb (is_estatus x).

Definition ord (l : pending) : Prop := forall pre x post, l = pre ++ x :: post -> is_estatus x = true -> post = [].

Record NCInv (w : world) : Prop := {
  nc_v : forall e, w_exp w = Some e -> settled (w_cfg w) e -> justified w (e_max e);
  nc_pv : forall st rv onf, In (WExpStatus st rv, onf) (p_exp w) -> e_completed st = true ->
          forall e, w_exp w = Some e -> e_rv e = rv -> justified w (e_max e);
  nc_nc : existsb is_tcreate (p_exp w) = true -> forall e, w_exp w = Some e -> ~ settled (w_cfg w) e;
  nc_ord : ord (p_exp w);
  nc_sug : forallb plain (p_sug w) = true;
  nc_trial : forallb plain (p_trial w) = true }.

Lemma ord_tail x l : ord (x :: l) -> ord l.
Proof. intros O pre y post E H. apply (O (x :: pre) y post); [now rewrite E|exact H]. Qed.

Lemma ord_nil : ord [].
Proof. intros [|? ?] x post E; discriminate. Qed.

Lemma ord_app_single A B :
  forallb (fun x => negb (is_estatus x)) A = true -> (B = [] \/ exists s, B = [s]) -> ord (A ++ B).
Proof.
  intros NA HB pre x post E H.
  revert pre E. induction A as [|a A IH]; intros pre E.
  - cbn in E. destruct HB as [->|(s&->)]; [destruct pre; discriminate|].
    destruct pre as [|p pre]; [now inversion E|]. inversion E. destruct pre; discriminate.
  - cbn in NA. apply andb_true_iff in NA as [Na NA]. destruct pre as [|p pre].
    + cbn in E. inversion E; subst. rewrite H in Na. discriminate.
    + cbn in E. inversion E; subst. eapply IH; eauto.
Qed.

Lemma status_write_single e st : status_write e st = [] \/ exists s, status_write e st = [s].
Proof. unfold status_write. destruct (estatus_eqb _ _); eauto. Qed.

Lemma plan_exp_ord w : ord (plan_exp w).
Proof.
  unfold plan_exp. destruct (c_exp w) as [e|]; [|apply ord_nil].
  destruct (negb (e_deleting e) && negb (e_fin e)); [apply (ord_app_single [_] []); auto|].
  destruct (e_deleting e && e_fin e); [apply (ord_app_single [_] []); auto|].
  assert (N1 : forallb (fun x => negb (is_estatus x)) (fst (fst (plan_exp_completed (w_cfg w) e (c_sug w)))) = true).
  { apply forallb_forall. intros x Ix. destruct (plan_exp_completed (w_cfg w) e (c_sug w)) as [[ws st1] stop] eqn:PC. cbn [fst] in Ix.
    destruct (plan_exp_completed_shape _ _ _ _ _ _ _ PC Ix) as (s&cs'&_&->). reflexivity. }
  destruct (plan_exp_completed (w_cfg w) e (c_sug w)) as [[ws1 st1] stop]. cbn [fst] in N1.
  destruct stop; [rewrite <- (app_nil_r ws1); apply ord_app_single; auto|].
  destruct (negb (e_is st1 ECreated)); [apply ord_app_single; [exact N1|apply status_write_single]|].
  unfold plan_exp_reconcile.
  generalize (match c_trials w with [] => st1 | _ => update_status (w_cfg w) (e_max e) (w_clock w) st1 (c_trials w) end). intro st2.
  destruct (e_completed st2); [apply ord_app_single; [exact N1|apply status_write_single]|].
  pose proof (ek_plan_trials_nostatus (w_cfg w) (e_max e) st2 (c_trials w) (c_sug w)) as NS.
  destruct (plan_trials (w_cfg w) (e_max e) st2 (c_trials w) (c_sug w)) as [ws2 st3]. cbn [fst] in NS.
  rewrite app_assoc. apply ord_app_single; [|apply status_write_single].
  rewrite forallb_app, N1. cbn [andb]. apply forallb_forall. intros x Ix. rewrite forallb_forall in NS. specialize (NS _ Ix).
  unfold nostatus in NS. unfold is_estatus. destruct (fst x); try reflexivity. discriminate.
Qed.

Lemma plan_sug_plain w resp : forallb plain (fst (plan_sug w resp)) = true.
Proof.
  apply forallb_forall. intros x Hx. destruct (plan_sug_shape _ _ _ Hx) as (cs&Hc&[(k&[->| ->])|(st&->&Sh)]); reflexivity.
Qed.

Lemma plan_trial_plain w key dberr : forallb plain (plan_trial w key dberr) = true.
Proof.
  apply forallb_forall. intros x Hx.
  destruct (plan_trial_shape _ _ _ _ Hx) as (t&F&N&[(->&_)|[(P&_)|[(->&_)|[(->&_)|[(->&_)|(cs&o&ct&->&_)]]]]]); try reflexivity.
  rewrite P in Hx. destruct Hx as [<-|[<-|[]]]; reflexivity.
Qed.

Lemma status_trials_le w e m : InvS w -> w_exp w = Some e -> e_max e = Some m -> n_trials (es_counts (e_st e)) <= m.
Proof.
  intros I He Hm. destruct (i_exp _ I) as (e0&ce&He0&_&_&_&_&(W&L)&_). rewrite He in He0. inversion He0; subst e0.
  destruct (budget_of_inv _ I) as [B _]. specialize (B _ _ He Hm).
  unfold status_wf in W. rewrite W. unfold counts_of. cbn [n_trials]. lia.
Qed.

(* ------------------------------------------------------------------ the invariant is inductive *)

Lemma justified_same w w' mx : c_trials w' = c_trials w -> c_sug w' = c_sug w -> w_cfg w' = w_cfg w -> justified w mx -> justified w' mx.
Proof. unfold justified, sugfail. intros -> -> ->. auto. Qed.

Lemma existsb_tail {A} (f : A -> bool) a l : existsb f l = true -> existsb f (a :: l) = true.
Proof. intro H. cbn. rewrite H. apply orb_true_r. Qed.

Lemma NC_frame w w' :
  NCInv w -> w_exp w' = w_exp w -> w_cfg w' = w_cfg w ->
  (forall x, In x (p_exp w') -> In x (p_exp w)) -> ord (p_exp w') ->
  forallb plain (p_sug w') = true -> forallb plain (p_trial w') = true ->
  (forall mx, justified w mx -> justified w' mx) -> NCInv w'.
Proof.
  intros N Ee Ec Sub O Ps Pt JM. constructor; rewrite ?Ee, ?Ec; auto.
  - intros e He S. apply JM. eapply (nc_v _ N); eauto.
  - intros st rv onf Hx C e He Rv. apply JM. eapply (nc_pv _ N); eauto.
  - intros Cr e He. eapply (nc_nc _ N); eauto. apply existsb_exists in Cr as (x&Ix&Hx). apply existsb_exists. eauto.
Qed.

Lemma forallb_tail_plain x l : forallb plain (x :: l) = true -> forallb plain l = true.
Proof. cbn. intro H. now apply andb_true_iff in H. Qed.

Lemma step_nc w a : Inv w -> ObInv w -> TS w -> SFInv w -> NCInv w -> is_teardown a = false -> NCInv (step w a).
Proof.
  intros Iv OB T SF N NT. pose proof Iv as [I P]. destruct (step_inv2 w a NT Iv) as [Iv' Ev].
  assert (JM : forall mx, justified w mx -> justified (step w a) mx) by (intros; now apply justified_step).
  (* a pending completed status keeps its justification, keyed by the resourceVersion it was planned from *)
  assert (PVT : forall st rv onf, In (WExpStatus st rv, onf) (p_exp w) -> e_completed st = true ->
                forall e1, w_exp (step w a) = Some e1 -> e_rv e1 = rv -> justified (step w a) (e_max e1)).
  { intros st rv onf Hx C e1 He1 Rv.
    pose proof (pending_of_ok w CExp P) as WO. rewrite Forall_forall in WO. specialize (WO _ Hx). unfold write_ok in WO. cbn [fst] in WO.
    destruct WO as (_&e&He&Rle&_). destruct (ev_exp_fwd _ _ Ev _ He) as (e'&He'&(R2&E2&_)). rewrite He1 in He'. inversion He'; subst e'.
    assert (Q : e_rv e = e_rv e1) by lia. rewrite <- (E2 Q). apply JM. eapply (nc_pv _ N); eauto. lia. }
  destruct a; try discriminate; cbn [step] in *.
  - (* Begin *)
    destruct (pending_of w c) eqn:Ep; [|exact N].
    destruct c.
    + (* experiment reconcile *)
      destruct (i_exp _ I) as (e&ce&He&Hce&L&_).
      constructor; cbn [w_exp p_exp p_sug p_trial tick set_pending w_cfg].
      * intros e0 He0 S. eapply justified_same; [..|eapply (nc_v _ N); eauto]; reflexivity.
      * intros st rv onf Hx C e0 He0 Rv. rewrite He in He0. inversion He0; subst e0.
        destruct (plan_exp_completed_status _ _ _ _ _ Hce Hx C) as [Rc [S|J]].
        -- destruct L as (_&E&_). assert (Q : e_rv ce = e_rv e) by lia. rewrite (E Q) in S.
           eapply justified_same; [..|eapply (nc_v _ N); eauto]; reflexivity.
        -- destruct L as (_&E&_). assert (Q : e_rv ce = e_rv e) by lia. rewrite (E Q) in J.
           eapply justified_same; [..|exact J]; reflexivity.
      * intros Cr e0 He0 S. rewrite He in He0. inversion He0; subst e0.
        assert (J : justified w (e_max ce)).
        { eapply justified_max_le; [|eapply (nc_v _ N); eauto]. destruct L as (_&_&M). exact M. }
        rewrite (plan_exp_no_create w ce Hce (or_intror J)) in Cr. discriminate.
      * apply plan_exp_ord.
      * exact (nc_sug _ N).
      * exact (nc_trial _ N).
    + destruct (plan_sug w resp) as [p rpcs] eqn:Ps.
      constructor; cbn [w_exp p_exp p_sug p_trial tick set_pending set_ghost w_cfg].
      * intros e0 He0 S. eapply justified_same; [..|eapply (nc_v _ N); eauto]; reflexivity.
      * intros st rv onf Hx C e0 He0 Rv. eapply justified_same; [..|eapply (nc_pv _ N); eauto]; reflexivity.
      * exact (nc_nc _ N).
      * exact (nc_ord _ N).
      * change p with (fst (p, rpcs)). rewrite <- Ps. apply plan_sug_plain.
      * exact (nc_trial _ N).
    + constructor; cbn [w_exp p_exp p_sug p_trial tick set_pending w_cfg].
      * intros e0 He0 S. eapply justified_same; [..|eapply (nc_v _ N); eauto]; reflexivity.
      * intros st rv onf Hx C e0 He0 Rv. eapply justified_same; [..|eapply (nc_pv _ N); eauto]; reflexivity.
      * exact (nc_nc _ N).
      * exact (nc_ord _ N).
      * exact (nc_sug _ N).
      * apply plan_trial_plain.
  - (* Write *)
    destruct (pending_of w c) as [|[wr onf] rest] eqn:Ep; [exact N|].
    assert (SubP : forall l', (l' = rest \/ l' = []) ->
              (forall x, In x (match c with CExp => l' | _ => p_exp w end) -> In x (p_exp w)) /\
              ord (match c with CExp => l' | _ => p_exp w end) /\
              forallb plain (match c with CSug => l' | _ => p_sug w end) = true /\
              forallb plain (match c with CTrial => l' | _ => p_trial w end) = true).
    { intros l' Hl. destruct c; cbn in Ep.
      - split; [|split; [|split; [exact (nc_sug _ N)|exact (nc_trial _ N)]]].
        + intros x Ix. rewrite Ep. destruct Hl as [->| ->]; [now right|destruct Ix].
        + pose proof (nc_ord _ N) as O. rewrite Ep in O. destruct Hl as [->| ->]; [eapply ord_tail; eauto|apply ord_nil].
      - split; [auto|]. split; [exact (nc_ord _ N)|]. split; [|exact (nc_trial _ N)].
        pose proof (nc_sug _ N) as Q. rewrite Ep in Q. destruct Hl as [->| ->]; [eapply forallb_tail_plain; eauto|reflexivity].
      - split; [auto|]. split; [exact (nc_ord _ N)|]. split; [exact (nc_sug _ N)|].
        pose proof (nc_trial _ N) as Q. rewrite Ep in Q. destruct Hl as [->| ->]; [eapply forallb_tail_plain; eauto|reflexivity]. }
    destruct (set_pending_fields (count_write w) c (match onf with Stop => [] | Cont => rest end)) as (F1&F2&F3).
    destruct (if inject_failure then None else apply_write (count_write w) wr) as [w1|] eqn:A.
    2:{ (* refused: the store is as before *)
        destruct (SubP (match onf with Stop => [] | Cont => rest end)) as (S1&S2&S3&S4); [destruct onf; auto|].
        eapply (NC_frame w); [exact N|destruct c; reflexivity|destruct c; reflexivity|rewrite F2; destruct c; exact S1|rewrite F2; destruct c; exact S2
                             |rewrite F3; destruct c; exact S3|rewrite F1; destruct c; exact S4|exact JM]. }
    destruct inject_failure; [discriminate|].
    destruct (apply_write_side0 _ _ _ A) as (_&_&Epend).
    destruct (set_pending_fields w1 c rest) as (G1&G2&G3).
    assert (Q1 : p_trial w1 = p_trial w) by (exact (Epend CTrial)).
    assert (Q2 : p_exp w1 = p_exp w) by (exact (Epend CExp)).
    assert (Q3 : p_sug w1 = p_sug w) by (exact (Epend CSug)).
    destruct (SubP rest (or_introl eq_refl)) as (S1&S2&S3&S4).
    destruct (inv_exp_some _ I) as (e&He&De&_).
    assert (He' : w_exp (count_write w) = Some e) by exact He.
    destruct (apply_write_exp _ _ _ _ A He' De) as (e1&He1&M1&K).
    assert (He1' : w_exp (set_pending w1 c rest) = Some e1) by (destruct c; exact He1).
    assert (Cf : w_cfg (set_pending w1 c rest) = w_cfg w) by (destruct c; cbn; now rewrite (apply_write_cfg _ _ _ A)).
    assert (Pe : p_exp (set_pending w1 c rest) = match c with CExp => rest | _ => p_exp w end) by (rewrite G2; destruct c; auto).
    constructor.
    + (* verdict of the store *)
      intros e0 He0 S. rewrite He1' in He0. inversion He0; subst e0. rewrite Cf in S.
      destruct K as [Ks|(st&rv&->&Rv&Ks)].
      * rewrite M1. apply JM. eapply (nc_v _ N); eauto. unfold settled, restart_enabled_e in *. now rewrite <- Ks, <- M1.
      * (* the status write landed: it is the experiment controller's, justified when it was planned *)
        assert (c = CExp).
        { destruct c; [reflexivity| |]; cbn in Ep.
          - pose proof (nc_sug _ N) as Q. rewrite Ep in Q. cbn in Q. discriminate.
          - pose proof (nc_trial _ N) as Q. rewrite Ep in Q. cbn in Q. discriminate. }
        subst c. cbn in Ep. rewrite M1. apply JM. eapply (nc_pv _ N); [rewrite Ep; now left| |exact He|auto].
        destruct S as [C _]. now rewrite Ks in C.
    + intros st rv onf0 Hx C e0 He0 Rv. rewrite Pe in Hx. eapply PVT; eauto.
    + intros Cr e0 He0 S. rewrite He1' in He0. inversion He0; subst e0. rewrite Cf in S. rewrite Pe in Cr.
      assert (Cr0 : existsb is_tcreate (p_exp w) = true).
      { apply existsb_exists in Cr as (x&Ix&Hx). apply existsb_exists. exists x. split; [apply S1; exact Ix|exact Hx]. }
      destruct K as [Ks|(st&rv&->&Rv&Ks)].
      * apply (nc_nc _ N Cr0 e He). unfold settled, restart_enabled_e in *. now rewrite Ks, M1 in S.
      * (* a status write is the last write of its reconcile: nothing is pending behind it *)
        assert (c = CExp).
        { destruct c; [reflexivity| |]; cbn in Ep.
          - pose proof (nc_sug _ N) as Q. rewrite Ep in Q. cbn in Q. discriminate.
          - pose proof (nc_trial _ N) as Q. rewrite Ep in Q. cbn in Q. discriminate. }
        subst c. cbn in Ep. pose proof (nc_ord _ N) as O. rewrite Ep in O. rewrite (O [] _ rest eq_refl eq_refl) in Cr. discriminate.
    + rewrite Pe. exact S2.
    + rewrite G3, ?Q3. destruct c; rewrite ?Q3; exact S3.
    + rewrite G1, ?Q1. destruct c; rewrite ?Q1; exact S4.
  - (* Abort *)
    destruct (set_pending_fields w c []) as (F1&F2&F3).
    eapply (NC_frame w); [exact N|destruct c; reflexivity|destruct c; reflexivity| | | | |exact JM].
    + rewrite F2. destruct c; auto. intros x [].
    + rewrite F2. destruct c; try exact (nc_ord _ N). apply ord_nil.
    + rewrite F3. destruct c; try exact (nc_sug _ N). reflexivity.
    + rewrite F1. destruct c; try exact (nc_trial _ N). reflexivity.
  - (* JobDone *)
    eapply (NC_frame w); [exact N|reflexivity|reflexivity|auto|exact (nc_ord _ N)|exact (nc_sug _ N)|exact (nc_trial _ N)|exact JM].
  - (* JobGone *)
    eapply (NC_frame w); [exact N|reflexivity|reflexivity|auto|exact (nc_ord _ N)|exact (nc_sug _ N)|exact (nc_trial _ N)|exact JM].
  - (* Metrics *)
    destruct (find_trial t (w_trials w)), (db_get t (w_db w)); try exact N;
      (eapply (NC_frame w); [exact N|reflexivity|reflexivity|auto|exact (nc_ord _ N)|exact (nc_sug _ N)|exact (nc_trial _ N)|exact JM]).
  - (* EarlyStop *)
    destruct (find_trial t (w_trials w)) as [tr|]; [|exact N]. destruct (_ && _); [|exact N].
    destruct v, (db_get t (w_db w));
      (eapply (NC_frame w); [exact N|reflexivity|reflexivity|auto|exact (nc_ord _ N)|exact (nc_sug _ N)|exact (nc_trial _ N)|exact JM]).
  - (* DeployAvailable *)
    destruct (i_dep (w_infra w)); [|exact N].
    eapply (NC_frame w); [exact N|reflexivity|reflexivity|auto|exact (nc_ord _ N)|exact (nc_sug _ N)|exact (nc_trial _ N)|exact JM].
  - eapply (NC_frame w); [exact N|reflexivity|reflexivity|auto|exact (nc_ord _ N)|exact (nc_sug _ N)|exact (nc_trial _ N)|exact JM].
  - eapply (NC_frame w); [exact N|reflexivity|reflexivity|auto|exact (nc_ord _ N)|exact (nc_sug _ N)|exact (nc_trial _ N)|exact JM].
  - eapply (NC_frame w); [exact N|reflexivity|reflexivity|auto|exact (nc_ord _ N)|exact (nc_sug _ N)|exact (nc_trial _ N)|exact JM].
  - (* UserRaiseMax *)
    destruct (w_exp w) as [e|] eqn:He; [|exact N]. destruct (e_max e) as [m|] eqn:Hm; [|exact N].
    destruct ((m <? n) && negb (e_deleting e) && (negb (e_completed (e_st e)) || restartable (w_cfg w) (e_st e))) eqn:G; [|exact N].
    apply andb_true_iff in G as [G G3]. apply andb_true_iff in G as [G1 _]. apply Z.ltb_lt in G1.
    pose proof (status_trials_le w e m I He Hm) as TL.
    (* the raised experiment is not settled: either it has no verdict, or the raise enables its restart *)
    assert (NS : forall e1, e_max e1 = Some n -> e_st e1 = e_st e -> ~ settled (w_cfg w) e1).
    { intros e1 M1 S1 [C R]. unfold restart_enabled_e in R. rewrite S1, M1 in *. rewrite C in G3. cbn [negb orb] in G3. rewrite G3 in R.
      cbn [andb] in R. apply Z.ltb_ge in R. lia. }
    constructor; cbn [w_exp p_exp p_sug p_trial set_exp set_store w_cfg].
    + intros e0 [= <-] S. exfalso. eapply NS; [| |exact S]; reflexivity.
    + intros st rv onf Hx C e0 He0 Rv. eapply PVT; eauto.
    + intros Cr e0 [= <-] S. eapply NS; [| |exact S]; reflexivity.
    + exact (nc_ord _ N).
    + exact (nc_sug _ N).
    + exact (nc_trial _ N).
Qed.

(* ------------------------------------------------------------------ over runs *)

Lemma all_invs c acts : valid_cfg c -> no_teardown acts ->
  Inv (run c acts) /\ ObInv (run c acts) /\ TS (run c acts) /\ SFInv (run c acts) /\ NCInv (run c acts).
Proof.
  intros V NT. unfold run.
  assert (H : forall l w, Inv w -> ObInv w -> TS w -> SFInv w -> NCInv w -> no_teardown l ->
              Inv (fold_left step l w) /\ ObInv (fold_left step l w) /\ TS (fold_left step l w) /\ SFInv (fold_left step l w) /\ NCInv (fold_left step l w)).
  { induction l as [|a l IH]; intros w I O T S N Nt; [auto|]. apply no_teardown_cons in Nt as [Na Nt]. cbn.
    apply IH; [now apply step_inv|now apply step_ob|now apply step_ts|now apply step_sf|now apply step_nc|exact Nt]. }
  apply H; auto using Inv_init, ObInv_init, TS_init, SFInv_init.
  constructor; cbn.
  - intros e [= <-] [C _]. discriminate.
  - intros ? ? ? [].
  - discriminate.
  - apply ord_nil.
  - reflexivity.
  - reflexivity.
Qed.

Lemma apply_write_names w wr w1 :
  apply_write w wr = Some w1 -> (forall n, wr <> WTrialCreate n) ->
  (forall n add rv t, wr = WTrialFin n add rv -> find_trial n (w_trials w) = Some t -> t_deleting t = false) ->
  names (w_trials w1) = names (w_trials w).
Proof.
  intros A NC ND. destruct wr; cbn [apply_write] in A; try solve [repeat aw_cases A w; inversion A; subst; reflexivity].
  - exfalso. eapply NC; reflexivity.
  - destruct (find_trial name (w_trials w)) as [t|] eqn:F; [|discriminate]. destruct (Nat.eqb (t_rv t) rv); [|discriminate].
    rewrite (ND _ _ _ _ eq_refl F), andb_false_r in A. inversion A; subst. cbn. now apply upd_trial_names.
  - destruct (find_trial name (w_trials w)) as [t|]; [|discriminate]. destruct (Nat.eqb (t_rv t) rv); [|discriminate].
    inversion A; subst. cbn. now apply upd_trial_names.
Qed.

(* a step in a state whose stored experiment carries a settled verdict creates no trial *)
Lemma step_no_create w a e :
  Inv w -> NCInv w -> is_teardown a = false -> w_exp w = Some e -> settled (w_cfg w) e ->
  names (w_trials (step w a)) = names (w_trials w).
Proof.
  intros [I P] N NT He S.
  destruct a; try discriminate; cbn [step].
  - destruct (pending_of w c); [|reflexivity]. destruct c; [|destruct (plan_sug w resp)|]; reflexivity.
  - destruct (pending_of w c) as [|[wr onf] rest] eqn:Ep; [reflexivity|].
    destruct (if inject_failure then None else apply_write (count_write w) wr) as [w1|] eqn:A; [|destruct c; reflexivity].
    destruct inject_failure; [discriminate|].
    assert (E1 : w_trials (set_pending w1 c rest) = w_trials w1) by (destruct c; reflexivity). rewrite E1.
    apply (apply_write_names (count_write w) wr w1 A).
    + intros n ->. destruct c; cbn in Ep.
      * apply (nc_nc _ N) with (e := e); [rewrite Ep; reflexivity|exact He|exact S].
      * pose proof (nc_sug _ N) as Q. rewrite Ep in Q. cbn in Q. discriminate.
      * pose proof (nc_trial _ N) as Q. rewrite Ep in Q. cbn in Q. discriminate.
    + intros n add rv t _ F. eapply inv_trial_not_deleting; eauto.
  - destruct c; reflexivity.
  - reflexivity.
  - reflexivity.
  - destruct (find_trial t (w_trials w)), (db_get t (w_db w)); reflexivity.
  - destruct (find_trial t (w_trials w)) as [tr|]; [|reflexivity]. destruct (_ && _); [|reflexivity].
    cbn. destruct v, (db_get t (w_db w)); cbn; now apply upd_trial_names.
  - destruct (i_dep (w_infra w)); reflexivity.
  - reflexivity.
  - reflexivity.
  - reflexivity.
  - destruct (w_exp w) as [e0|]; [|reflexivity]. destruct (e_max e0); [|reflexivity]. destruct (_ && _ && _); reflexivity.
Qed.

(* C01, third sentence: once the experiment carries a Succeeded or Failed verdict and the user has not enabled a restart
   (succeeded by max trials under LongRunning/FromVolume with maxTrialCount raised above the trials counted), the next
   step -- whichever it is -- creates no trial. *)
Theorem no_create_after_verdict c acts a e :
  valid_cfg c -> no_teardown (acts ++ [a]) ->
  w_exp (run c acts) = Some e -> e_completed (e_st e) = true -> restart_enabled_e c e = false ->
  names (w_trials (run c (acts ++ [a]))) = names (w_trials (run c acts)).
Proof.
  intros V NT He C R. apply no_teardown_app in NT as [N1 N2]. apply no_teardown_cons in N2 as [Na _].
  destruct (all_invs c acts V N1) as (I&_&_&_&N).
  assert (Hrun : run c (acts ++ [a]) = step (run c acts) a) by (unfold run; now rewrite fold_left_app). rewrite Hrun.
  eapply step_no_create; eauto. split; [exact C|]. unfold run. now rewrite run_cfg.
Qed.

(* ... hence for as long as the verdict stands and no restart is enabled, the set of trials stays what it was *)
Theorem no_create_while_settled c acts1 acts2 :
  valid_cfg c -> no_teardown (acts1 ++ acts2) ->
  (forall pre post, acts2 = pre ++ post -> post <> [] ->
     exists e, w_exp (run c (acts1 ++ pre)) = Some e /\ e_completed (e_st e) = true /\ restart_enabled_e c e = false) ->
  names (w_trials (run c (acts1 ++ acts2))) = names (w_trials (run c acts1)).
Proof.
  intros V. revert acts1. induction acts2 as [|a l IH]; intros acts1 NT H; [now rewrite app_nil_r|].
  replace (acts1 ++ a :: l) with ((acts1 ++ [a]) ++ l) in * by (now rewrite <- app_assoc).
  rewrite IH.
  - destruct (H [] (a :: l) eq_refl) as (e&He&C&R); [discriminate|]. rewrite app_nil_r in He.
    apply no_teardown_app in NT as [N1 _]. eapply no_create_after_verdict; eauto.
  - exact NT.
  - intros pre post E Np. rewrite <- app_assoc. apply (H (a :: pre) post); [now rewrite E|exact Np].
Qed.

(* C03, "justified" over runs: a settled verdict of the stored experiment is backed by the STORED trials (recomputing the
   status from them gives a verdict: goal reached by some objective value, or enough failed / metrics-unavailable trials,
   or maxTrialCount completed trials) or by a failed stored suggestion. *)
Theorem verdict_justified c acts e :
  valid_cfg c -> no_teardown acts ->
  w_exp (run c acts) = Some e -> e_completed (e_st e) = true -> restart_enabled_e c e = false ->
  (w_trials (run c acts) <> [] /\ tdec c (e_max e) (w_trials (run c acts)) = true) \/
  (exists s, w_sug (run c acts) = Some s /\ sfailed (s_st s) = true).
Proof.
  intros V NT He C R. destruct (all_invs c acts V NT) as (I&_&T&SF&N).
  assert (Cf : w_cfg (run c acts) = c) by (unfold run; now rewrite run_cfg).
  destruct (nc_v _ N e He) as [[Ne Td]|(cs&Hcs&F)]; [split; [exact C|now rewrite Cf]| |].
  - left. rewrite Cf in Td. split; [eapply plag_nonempty; [apply (ts_lag _ T)|exact Ne]|eapply tdec_mono; [apply (ts_lag _ T)|exact Td]].
  - right. exact (sf_cache _ SF _ Hcs F).
Qed.

(* ------------------------------------------------------------------ the repair branch of F18 is not reached for a settled experiment *)

Definition is_sug_status (x : write * onfail) : bool := match fst x with WSugStatus _ _ => true | _ => false end.

Lemma no_sugstatus_status_write e st : existsb is_sug_status (status_write e st) = false.
Proof. unfold status_write. destruct (estatus_eqb _ _); reflexivity. Qed.

(* ReconcileExperiment (the non-completed path) writes a suggestion status -- the restart of a Succeeded suggestion -- only when
   the status recomputed from the caches has no verdict and the cached suggestion has not failed *)
Lemma reconcile_no_sug_status w e st1 :
  e_completed st1 = true \/ justified w (e_max e) -> existsb is_sug_status (plan_exp_reconcile w e st1) = false.
Proof.
  intro J. unfold plan_exp_reconcile, justified in *.
  assert (PC : forall st2 ts, (exists cs, c_sug w = Some cs /\ sfailed (s_st cs) = true) ->
            existsb is_sug_status (fst (plan_trials (w_cfg w) (e_max e) st2 ts (c_sug w))) = false).
  { intros st2 ts (cs&Hcs&F). unfold plan_trials. destruct (_ <? _); [reflexivity|]. destruct (_ <? _); [|reflexivity]. destruct (0 <? _); [|reflexivity].
    unfold plan_create. rewrite Hcs. unfold sfailed in F. rewrite F. reflexivity. }
  destruct (c_trials w) as [|t0 ts'] eqn:Ets.
  - destruct (e_completed st1) eqn:C1; [apply no_sugstatus_status_write|].
    destruct (plan_trials (w_cfg w) (e_max e) st1 [] (c_sug w)) as [ws2 st3] eqn:PT.
    apply existsb_app_false; [|apply no_sugstatus_status_write].
    destruct J as [J|[(Ne&_)|SF]]; [discriminate|contradiction|].
    assert (E2 : ws2 = fst (plan_trials (w_cfg w) (e_max e) st1 [] (c_sug w))) by now rewrite PT. rewrite E2. now apply PC.
  - set (ts := t0 :: ts') in *.
    destruct (e_completed (update_status (w_cfg w) (e_max e) (w_clock w) st1 ts)) eqn:C2; [apply no_sugstatus_status_write|].
    destruct (plan_trials (w_cfg w) (e_max e) (update_status (w_cfg w) (e_max e) (w_clock w) st1 ts) ts (c_sug w)) as [ws2 st3] eqn:PT.
    apply existsb_app_false; [|apply no_sugstatus_status_write].
    assert (NC1 : e_completed st1 = false).
    { destruct (e_completed st1) eqn:C1; [|reflexivity]. exfalso.
      unfold update_status in C2. destruct (scan_best _ _ _ _ _) as [best reached].
      match type of C2 with context [if ?c then _ else _] => assert (X : c = true) by exact C1; rewrite X in C2 end.
      unfold e_completed, e_is in *. cbn [es_conds] in C2. congruence. }
    assert (SF : sugfail w).
    { destruct J as [J|[(Ne&Td)|SF]]; [congruence| |exact SF]. exfalso.
      rewrite update_status_completed in C2 by exact NC1. congruence. }
    assert (E2 : ws2 = fst (plan_trials (w_cfg w) (e_max e) (update_status (w_cfg w) (e_max e) (w_clock w) st1 ts) ts (c_sug w))) by now rewrite PT.
    rewrite E2. now apply PC.
Qed.

(* Over runs: in a reachable state whose stored experiment carries a settled verdict, an experiment reconcile -- whatever it
   reads from its caches -- does not take the repair branch (it plans no suggestion-status write from ReconcileExperiment):
   the suggestion of a completed experiment is not resurrected. *)
Theorem repair_branch_not_for_settled c acts ce st1 e :
  valid_cfg c -> no_teardown acts ->
  w_exp (run c acts) = Some e -> e_completed (e_st e) = true -> restart_enabled_e c e = false ->
  c_exp (run c acts) = Some ce ->
  existsb is_sug_status (plan_exp_reconcile (run c acts) ce st1) = false.
Proof.
  intros V NT He C R Hce. destruct (all_invs c acts V NT) as ([I _]&_&_&_&N).
  assert (Cf : w_cfg (run c acts) = c) by (unfold run; now rewrite run_cfg).
  apply reconcile_no_sug_status. right.
  destruct (i_exp _ I) as (e0&ce0&He0&Hce0&L&_). rewrite He in He0. inversion He0; subst e0. rewrite Hce in Hce0. inversion Hce0; subst ce0.
  eapply justified_max_le; [destruct L as (_&_&M); exact M|]. eapply (nc_v _ N); eauto. split; [exact C|now rewrite Cf].
Qed.
