(* How one step of the joint model changes the stored trials, position by position (no teardown): each trial stays, or only
   its finalizer/resourceVersion changes, or a pending status write with the matching resourceVersion lands on it, or the
   early-stopping service appends EarlyStopped to a non-completed trial; new trials are appended at the end. *)
From KV Require Import Base.Prelude Base.Cond Model.World Proofs.WorldPlan Proofs.WorldInv Proofs.WorldSucc.
Open Scope Z_scope.

Definition es_cond : cond := {| ctype := TEarlyStopped; cstat := CTrue; creason := REarlyStopped |}.

Inductive tev (w : world) : trial -> trial -> Prop :=
| tev_same t : tev w t t
| tev_meta t t' : t_name t' = t_name t -> t_conds t' = t_conds t -> t_obs t' = t_obs t -> t_ctime t' = t_ctime t -> tev w t t'
| tev_status t t' c cs o ct onf :
    In (WTrialStatus (t_name t) cs o ct (t_rv t), onf) (pending_of w c) ->
    t_name t' = t_name t -> t_conds t' = cs -> t_obs t' = o -> tev w t t'
| tev_es t t' :
    t_completed t = false -> t_is t TCreated = true -> find_job (t_name t) (w_jobs w) <> None ->
    t_name t' = t_name t -> t_conds t' = t_conds t ++ [es_cond] -> t_obs t' = t_obs t -> tev w t t'.

Inductive tgrow (R : trial -> trial -> Prop) : list trial -> list trial -> Prop :=
| tg_nil l : Forall (fun t => exists n, t = new_trial n) l -> tgrow R [] l
| tg_cons t t' l l' : R t t' -> tgrow R l l' -> tgrow R (t :: l) (t' :: l').

Lemma tgrow_refl (R : trial -> trial -> Prop) l : (forall t, R t t) -> tgrow R l l.
Proof. intro H. induction l; constructor; auto. Qed.

Lemma tgrow_map (R : trial -> trial -> Prop) (f : trial -> trial) l : (forall t, In t l -> R t (f t)) -> tgrow R l (map f l).
Proof.
  induction l as [|a l IH]; intro H; cbn; constructor; auto.
  - apply H. now left.
  - apply IH. intros t I. apply H. now right.
Qed.

Lemma tgrow_app_new (R : trial -> trial -> Prop) l n : (forall t, R t t) -> tgrow R l (l ++ [new_trial n]).
Proof. intro H. induction l; cbn; constructor; auto. constructor; [eauto|constructor]. Qed.

Lemma tgrow_impl (R R' : trial -> trial -> Prop) l l' : (forall t t', In t l -> R t t' -> R' t t') -> tgrow R l l' -> tgrow R' l l'.
Proof.
  intros H G. induction G; constructor; auto.
  - apply H; [now left|assumption].
  - apply IHG. intros a b I. apply H. now right.
Qed.

Lemma tgrow_trans (R : trial -> trial -> Prop) a b c :
  (forall x y z, R x y -> R y z -> R x z) -> (forall n z, R (new_trial n) z -> exists m, z = new_trial m) ->
  tgrow R a b -> tgrow R b c -> tgrow R a c.
Proof.
  intros T N G. revert c. induction G as [l F|t t' l l' Rt G IH]; intros c G2.
  - constructor. revert c G2. induction F as [|x l (n&->) F IHF]; intros c G2.
    + inversion G2; subst. assumption.
    + inversion G2 as [|? z ? c' Rz G']; subst. constructor; [apply (N n z Rz)|apply IHF; exact G'].
  - inversion G2 as [|? t'' ? c' R2 G']; subst. constructor; [eapply T; eauto|apply IH; exact G'].
Qed.

Lemma tgrow_in (R : trial -> trial -> Prop) l l' t' : tgrow R l l' -> In t' l' -> (exists t, In t l /\ R t t') \/ exists n, t' = new_trial n.
Proof.
  intro G. induction G as [l F|t t0 l l' Rt G IH]; intro I.
  - right. rewrite Forall_forall in F. auto.
  - destruct I as [<-|I]; [left; exists t; split; [now left|exact Rt]|].
    destruct (IH I) as [(x&Ix&Rx)|N]; [left; exists x; split; [now right|exact Rx]|now right].
Qed.

Lemma tgrow_length (R : trial -> trial -> Prop) l l' : tgrow R l l' -> (length l <= length l')%nat.
Proof. induction 1; cbn; lia. Qed.

(* ------------------------------------------------------------------ one write *)

Lemma apply_write_trials w wr w1 :
  NoDup (names (w_trials w)) -> apply_write w wr = Some w1 ->
  tgrow (fun t t' => t' = t \/ (t_name t' = t_name t /\ t_conds t' = t_conds t /\ t_obs t' = t_obs t /\ t_ctime t' = t_ctime t) \/
                     exists cs o ct, wr = WTrialStatus (t_name t) cs o ct (t_rv t) /\ t_name t' = t_name t /\ t_conds t' = cs /\ t_obs t' = o)
        (w_trials w) (w_trials w1) \/
  (exists n add rv t, wr = WTrialFin n add rv /\ find_trial n (w_trials w) = Some t /\ t_deleting t = true).
Proof.
  intros ND A.
  assert (Same : forall R : trial -> trial -> Prop, (forall t, R t t) -> w_trials w1 = w_trials w -> tgrow R (w_trials w) (w_trials w1)).
  { intros R H ->. now apply tgrow_refl. }
  destruct wr; cbn [apply_write] in A;
    try solve [repeat aw_cases A w; inversion A; subst; left; cbn; apply tgrow_refl; intro; now left].
  - (* create *)
    destruct (w_exp w); [|discriminate]. destruct (find_trial name (w_trials w)); [discriminate|]. inversion A; subst.
    left. apply tgrow_app_new. intro; now left.
  - (* fin *)
    destruct (find_trial name (w_trials w)) as [t|] eqn:F; [|discriminate]. destruct (Nat.eqb (t_rv t) rv); [|discriminate].
    destruct (negb add && t_deleting t) eqn:E.
    + right. exists name, add, rv, t. split; [reflexivity|]. split; [exact F|]. apply andb_true_iff in E as [_ E]. exact E.
    + inversion A; subst. left. apply tgrow_map. intros t0 I0. destruct (Nat.eqb (t_name t0) name); [right; left; cbn; auto|now left].
  - (* status *)
    destruct (find_trial name (w_trials w)) as [t|] eqn:F; [|discriminate]. destruct (Nat.eqb (t_rv t) rv) eqn:Er; [|discriminate].
    inversion A; subst. left. apply tgrow_map. intros t0 I0. destruct (Nat.eqb (t_name t0) name) eqn:En; [|now left].
    apply Nat.eqb_eq in En. right. right. exists cs, o, ct. cbn.
    rewrite (find_trial_in name _ t0 ND I0 En) in F. inversion F; subst t.
    apply Nat.eqb_eq in Er. subst rv name. repeat split; auto.
Qed.

(* ------------------------------------------------------------------ one step *)
From KV Require Import Proofs.WorldInv2 Proofs.WorldInv4 Proofs.WorldInv5.

Lemma step_trials w a : Inv w -> is_teardown a = false -> tgrow (tev w) (w_trials w) (w_trials (step w a)).
Proof.
  intros [I P] NT.
  assert (Same : forall w', w_trials w' = w_trials w -> tgrow (tev w) (w_trials w) (w_trials w')).
  { intros w' ->. apply tgrow_refl. constructor. }
  destruct a; try discriminate; cbn [step].
  - destruct (pending_of w c); [|apply Same; reflexivity]. destruct c; [|destruct (plan_sug w resp)|]; apply Same; reflexivity.
  - destruct (pending_of w c) as [|[wr onf] rest] eqn:Ep; [apply Same; reflexivity|].
    destruct (if inject_failure then None else apply_write (count_write w) wr) as [w1|] eqn:A; [|apply Same; destruct c; reflexivity].
    destruct inject_failure; [discriminate|].
    assert (E1 : w_trials (set_pending w1 c rest) = w_trials w1) by (destruct c; reflexivity). rewrite E1.
    destruct (apply_write_trials (count_write w) wr w1 (i_nodup _ I) A) as [G|(n&add&rv&t&_&F&D)].
    + eapply tgrow_impl; [|exact G]. cbn. intros t t' It [->|[(N&C&O&T)|(cs&o&ct&->&N&C&O)]].
      * constructor.
      * now apply tev_meta.
      * eapply tev_status; eauto. rewrite Ep. now left.
    + exfalso. cbn in F. rewrite (inv_trial_not_deleting _ _ _ I F) in D. discriminate.
  - apply Same. destruct c; reflexivity.
  - apply Same. reflexivity.
  - apply Same. reflexivity.
  - destruct (find_trial t (w_trials w)), (db_get t (w_db w)); apply Same; reflexivity.
  - destruct (find_trial t (w_trials w)) as [tr|] eqn:F; [|apply Same; reflexivity].
    destruct (c_es (w_cfg w) && t_is tr TCreated && negb (t_completed tr) && negb (t_deleting tr) &&
              match find_job t (w_jobs w) with Some _ => true | None => false end) eqn:G; [|apply Same; reflexivity].
    apply andb_true_iff in G as [G Gj]. apply andb_true_iff in G as [G _]. apply andb_true_iff in G as [G Gc]. apply andb_true_iff in G as [_ Gcr].
    apply negb_true_iff in Gc.
    assert (E1 : forall w', w_trials (set_trials w' (upd_trial t (fun x => {| t_name := t_name x; t_conds := t_conds x ++ [{| ctype := TEarlyStopped; cstat := CTrue; creason := REarlyStopped |}];
                 t_obs := t_obs x; t_ctime := t_ctime x; t_fin := t_fin x; t_deleting := t_deleting x; t_rv := S (t_rv x) |}) (w_trials w'))) =
               upd_trial t (fun x => {| t_name := t_name x; t_conds := t_conds x ++ [es_cond];
                 t_obs := t_obs x; t_ctime := t_ctime x; t_fin := t_fin x; t_deleting := t_deleting x; t_rv := S (t_rv x) |}) (w_trials w')) by reflexivity.
    rewrite E1. assert (E2 : w_trials (match v, db_get t (w_db w) with Some z, None => set_db w (w_db w ++ [(t, Some z)]) | _, _ => w end) = w_trials w)
      by (destruct v, (db_get t (w_db w)); reflexivity).
    rewrite E2. apply tgrow_map. intros t0 I0. destruct (Nat.eqb (t_name t0) t) eqn:En; [|constructor].
    apply Nat.eqb_eq in En. rewrite (find_trial_in t _ t0 (i_nodup _ I) I0 En) in F. inversion F; subst tr.
    apply tev_es; cbn; auto. rewrite En. destruct (find_job t (w_jobs w)); [discriminate|discriminate].
  - destruct (i_dep (w_infra w)); apply Same; reflexivity.
  - apply Same. reflexivity.
  - apply Same. reflexivity.
  - apply Same. reflexivity.
  - destruct (w_exp w) as [e|]; [|apply Same; reflexivity]. destruct (e_max e); [|apply Same; reflexivity].
    destruct (_ && _ && _); apply Same; reflexivity.
Qed.
