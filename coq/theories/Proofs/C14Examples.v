(* C14: concrete witnesses (non-vacuity of "admitted", the refutations on the defect domains F7 and F8c, and the former
   counterexamples of F8 / F8b, which the repaired validator rejects). *)
From KV Require Import Base.Prelude Base.StrFind Base.DnsName Model.Validator Proofs.ValidatorP.
Open Scope string_scope.
Open Scope list_scope.
Open Scope Z_scope.

Definition ex_tpl : string := "{""a"":""${trialParameters.learningRate}"",""b"":""${trialParameters.momentum}""}".

Definition ex_facts : tplfacts :=
  {| tf_final := "{""a"":""test-value"",""b"":""test-value""}"; tf_unreplaced := false;
     tf_conv := Some {| cv_named := false; cv_nogvk := false; cv_joberr := false |};
     tf_raw_conv := true; tf_labels := ["app"]; tf_annotations := [] |}.

Definition ex_env : env :=
  {| cfg := Some {| c_sug := [("random", true)]; c_es := []; c_mc := [(CStdOut, true)] |}; cms := []; facts := ex_facts |}.

Definition ex_param (n : string) (t : ptype) : param :=
  {| p_name := n; p_type := t; p_min_empty := match t with PInt => false | _ => true end; p_max_empty := match t with PInt => false | _ => true end;
     p_step_empty := true; p_list_len := match t with PInt => 0 | _ => 3 end; p_dist := DEmpty |}.

Definition ex_tp1 : tparam := {| tp_name := "learningRate"; tp_ref := "lr"; tp_sub := None; tp_idx := None |}.
Definition ex_tp2 : tparam := {| tp_name := "momentum"; tp_ref := "mom"; tp_sub := None; tp_idx := None |}.
Definition ex_tparams : list tparam := [ex_tp1; ex_tp2].

Definition ex_exp_with (name : string) (params : list param) (tps : list tparam) : experiment :=
  {| e_name := name; e_par := None; e_max := Some 6; e_mf := Some 3;
     e_objective := Some {| o_type := OMax; o_metric := "accuracy"; o_additional := ["loss"] |};
     e_algorithm := Some "random"; e_early := None; e_resume := REmpty;
     e_params := params; e_nas := false;
     e_template := Some {| t_primary_empty := false; t_succ_empty := true; t_fail_empty := true; t_params := Some tps;
                           t_spec := Some {| ts_kind := JKJob; ts_str := Some ex_tpl |}; t_cm := None |};
     e_mc := None |}.

Definition ex_params : list param := [ex_param "lr" PInt; ex_param "mom" PCat].
Definition ex_exp : experiment := ex_exp_with "exp-a1" ex_params ex_tparams.

Lemma ex_admitted : admitted ex_env ex_exp.
Proof. vm_compute. reflexivity. Qed.

Lemma ex_runnable : runnable ex_env (set_default ex_exp).
Proof.
  constructor.
  - discriminate.
  - intros t ps [= <-] [= <-]. repeat constructor; intro H; discriminate H.
  - intros t [= <-]. discriminate.
Qed.

Lemma ex_runs : apply_parameters ex_env (set_default ex_exp) [("mom", "0.9"); ("lr", "3")] =
                Ok [("learningRate", VAssign "3"); ("momentum", VAssign "0.9")].
Proof. vm_compute. reflexivity. Qed.

(* F8 (repaired, rule 60): an unreferenced spec.parameters entry - no assignment could be turned into a trial - is rejected *)
Definition f8_exp : experiment := ex_exp_with "exp-a1" (ex_params ++ [ex_param "extra" PInt]) ex_tparams.

Lemma f8_rejected : validate ex_env (set_default f8_exp) = Ok [(60%nat, 2%nat)].
Proof. vm_compute. reflexivity. Qed.

Lemma f8_would_fail : apply_parameters ex_env (set_default f8_exp) [("lr", "3"); ("mom", "0.9"); ("extra", "1")] = Err 5%nat.
Proof. vm_compute. reflexivity. Qed.

(* F8b (repaired, rule 59): duplicate names in spec.parameters are rejected *)
Definition f8b_exp : experiment := ex_exp_with "exp-a1" (ex_params ++ [ex_param "lr" PInt]) ex_tparams.

Lemma f8b_rejected : validate ex_env (set_default f8b_exp) = Ok [(59%nat, 2%nat)].
Proof. vm_compute. reflexivity. Qed.

Lemma f8b_would_fail : apply_parameters ex_env (set_default f8b_exp) [("lr", "3"); ("mom", "0.9"); ("lr", "1")] = Err 5%nat.
Proof. vm_compute. reflexivity. Qed.

(* a parameter whose name has the form of a trial-metadata reference can only be referenced by a trial parameter the generator
   treats as metadata: rejected by rule 60 as well (this was the second half of unresolvable-trial-metadata) *)
Definition f8c_key_tparams : list tparam :=
  [ ex_tp1; {| tp_name := "momentum"; tp_ref := "${trialSpec.Foo}"; tp_sub := Some "Foo"; tp_idx := None |} ].
Definition f8c_key_exp : experiment := ex_exp_with "exp-a1" [ex_param "lr" PInt; ex_param "${trialSpec.Foo}" PCat] f8c_key_tparams.

Lemma f8c_key_rejected : validate ex_env (set_default f8c_key_exp) = Ok [(60%nat, 1%nat)].
Proof. vm_compute. reflexivity. Qed.

(* F8c: a reference to a label the template does not carry *)
Definition f8c_tparams : list tparam :=
  [ {| tp_name := "learningRate"; tp_ref := "lr"; tp_sub := None; tp_idx := None |};
    {| tp_name := "momentum"; tp_ref := "${trialSpec.Labels[missing]}"; tp_sub := Some "Labels[missing]"; tp_idx := Some ("Labels", "missing") |} ].
Definition f8c_exp : experiment := ex_exp_with "exp-a1" [ex_param "lr" PInt] f8c_tparams.

Lemma f8c_refuted : exists en e0 asg,
  admitted en e0 /\ assignment_for (set_default e0) asg /\ apply_parameters en (set_default e0) asg = Err 4%nat.
Proof.
  exists ex_env, f8c_exp, [("lr", "3")].
  split; [vm_compute; reflexivity|]. split; [|vm_compute; reflexivity].
  split; [reflexivity|]. cbn. intuition.
Qed.

(* F7: what the unanchored regexp of the pinned tree lets through *)
Lemma names_refuted :
  (exists n, name_rule_unanchored n = true /\ (String.length n <= 40)%nat /\
             dns1035_label (suggestion_resource_name n "random") = false) /\
  (exists n, name_rule_unanchored n = true /\ (String.length n <= 40)%nat /\
             dns_subdomain (suggestion_resource_name n "random") = false /\ dns_subdomain (trial_name n "bcdf2456") = false).
Proof.
  split; [exists "a.b"|exists "aB_c"]; vm_compute; repeat split; auto; lia.
Qed.
