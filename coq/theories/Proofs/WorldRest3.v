(* C16: the cleanup clause of the monitor at rest (Corr/WorldMon.resume_final: completed experiment, suggestion not Failed --
   Never/FromVolume: suggestion Succeeded, Deployment and Service gone, the volume claim still there if it ever existed;
   LongRunning: Deployment and Service present, suggestion not Succeeded) holds on the model's own projections. *)
From KV Require Import Base.Prelude Base.Cond Model.World Proofs.WorldPlan Proofs.WorldInv Proofs.WorldInv2 Proofs.WorldInv5
  Proofs.WorldThm Proofs.WorldQuiet Proofs.WorldSucc Corr.WorldC Corr.WorldMon Proofs.MonSound Proofs.WorldRest Proofs.WorldPvc.
Open Scope Z_scope.

Lemma msteps_in w acts a p : In (a, p) (msteps w acts) -> exists a1 a2, acts = a1 ++ a2 /\ p = project (fold_left step a1 w).
Proof.
  revert w. induction acts as [|b l IH]; intros w H; [destruct H|]. cbn [msteps] in H. destruct H as [E|H].
  - injection E as Ea Ep. subst a p. exists [b], l. split; reflexivity.
  - destruct (IH _ H) as (a1&a2&->&->). exists (b :: a1), a2. split; reflexivity.
Qed.

(* a volume claim seen in any state of the history is there at its end *)
Lemma pvc_seen c acts : valid_cfg c -> no_teardown acts ->
  existsb (fun ap => i_pvc (pj_infra (snd ap))) (msteps (init c) acts) = true -> i_pvc (w_infra (run c acts)) = true.
Proof.
  intros V NT H. apply existsb_exists in H as ([a p]&I&P). destruct (msteps_in _ _ _ _ I) as (a1&a2&->&->).
  cbn [snd project pj_infra] in P. apply pvc_kept_over_runs; assumption.
Qed.

Theorem resume_final_model c acts :
  valid_cfg c -> no_teardown acts -> quiescent (run c acts) ->
  WorldMon.env_done (project (run c acts)) = true ->
  forall k, k_cfg k = c -> k_steps k = msteps (init c) acts -> resume_final k (project (run c acts)) = true.
Proof.
  intros V NT Qu En k Hc Hs. apply env_done_project in En.
  destruct (Inv_reachable c acts V NT) as [I P].
  assert (Cf : w_cfg (run c acts) = c) by (unfold run; now rewrite run_cfg).
  unfold resume_final. cbn [project pj_exp pj_sug pj_infra].
  destruct (w_exp (run c acts)) as [e|] eqn:He; [|reflexivity].
  destruct (w_sug (run c acts)) as [s|] eqn:Hsg; [|reflexivity].
  unfold pe_completed, pe_is, ps_is. cbn [pe_conds ps_conds].
  change (has_cond (es_conds (e_st e)) ESucceeded || has_cond (es_conds (e_st e)) EFailed) with (e_completed (e_st e)).
  change (has_cond (ss_conds (s_st s)) SFailed) with (s_is (s_st s) SFailed).
  change (has_cond (ss_conds (s_st s)) SSucceeded) with (s_is (s_st s) SSucceeded).
  destruct (e_completed (e_st e)) eqn:C; [|reflexivity].
  destruct (s_is (s_st s) SFailed) eqn:F; [reflexivity|]. cbn [negb andb].
  rewrite Hc. destruct (c_resume c) eqn:R.
  - (* Never *)
    assert (NL : c_resume (w_cfg (run c acts)) <> LongRunning) by (rewrite Cf, R; discriminate).
    destruct (quiescent_cleanup _ e s I Qu En He C NL Hsg F) as (S1&D1&V1). rewrite S1, D1, V1. cbn [is_some negb andb].
    rewrite Hs. destruct (existsb _ _) eqn:X; [|reflexivity]. rewrite (pvc_seen c acts V NT X). reflexivity.
  - (* LongRunning *)
    assert (NS : s_is (s_st s) SSucceeded = false).
    { destruct (s_is (s_st s) SSucceeded) eqn:E; [|reflexivity].
      assert (NF : c_resume c <> FromVolume) by (rewrite R; discriminate).
      destruct (succeeded_implies_verdict c acts s V NT NF Hsg E) as (N&_). congruence. }
    assert (NC : s_completed (s_st s) = false) by (unfold s_completed; now rewrite NS, F).
    destruct (quiet_service_up _ s I Qu En Hsg NC) as (D1&V1&_&_). rewrite D1, V1, NS. reflexivity.
  - (* FromVolume *)
    assert (NL : c_resume (w_cfg (run c acts)) <> LongRunning) by (rewrite Cf, R; discriminate).
    destruct (quiescent_cleanup _ e s I Qu En He C NL Hsg F) as (S1&D1&V1). rewrite S1, D1, V1. cbn [is_some negb andb].
    rewrite Hs. destruct (existsb _ _) eqn:X; [|reflexivity]. rewrite (pvc_seen c acts V NT X). reflexivity.
Qed.

(* Non-vacuity: the F18 history (FromVolume) ends quiescent, environment done, experiment completed, suggestion not Failed, and
   the volume claim was seen along the way -- every conjunct of the clause is demanded there. *)
From KV Require Import Proofs.F18.
Example resume_final_premises_hold :
  valid_cfg f18_cfg /\ no_teardown f18_acts /\ quiescent (run f18_cfg f18_acts) /\
  WorldMon.env_done (project (run f18_cfg f18_acts)) = true /\ c_resume f18_cfg = FromVolume /\
  existsb (fun ap => i_pvc (pj_infra (snd ap))) (msteps (init f18_cfg) f18_acts) = true /\
  exists e s, pj_exp (project (run f18_cfg f18_acts)) = Some e /\ pe_completed e = true /\
              pj_sug (project (run f18_cfg f18_acts)) = Some s /\ ps_is s SFailed = false.
Proof.
  destruct at_rest_premises_hold as (V&NT&_&Q&En&_).
  split; [exact V|]. split; [exact NT|]. split; [exact Q|]. split; [exact En|]. split; [reflexivity|].
  split; [vm_compute; reflexivity|].
  eexists _, _. split; [vm_compute; reflexivity|]. split; [vm_compute; reflexivity|]. split; vm_compute; reflexivity.
Qed.
