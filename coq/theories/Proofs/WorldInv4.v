(* Preservation of the invariant: applying a pending write, planning a reconcile, environment steps; the invariant
   holds in every state reachable without teardown. *)
From KV Require Import Base.Prelude Base.Cond Model.World Proofs.WorldPlan Proofs.WorldInv Proofs.WorldInv2 Proofs.WorldInv3.
Open Scope Z_scope.

Lemma set_ghost_id w : set_ghost w (g_maxreq w) (g_rpcs w) (g_jobcreates w) (g_jobdeletes w) (g_dbdeletes w) (g_finreleased w) (g_writes w) = w.
Proof. destruct w; reflexivity. Qed.

Lemma side_eq_refl w : side_eq w w.
Proof. repeat split. Qed.

Ltac side := cbn; repeat split; reflexivity.
Ltac core := cbn; repeat split; reflexivity.

Lemma inv_exp_some w : InvS w -> exists e, w_exp w = Some e /\ e_deleting e = false /\ status_ok w (e_st e).
Proof. intros [_ (e&ce&He&_&_&D&_&N&_) _ _ _ _ _ _ _]. eauto. Qed.

Lemma inv_trial_not_deleting w n t : InvS w -> find_trial n (w_trials w) = Some t -> t_deleting t = false.
Proof. intros I F. apply find_trial_name in F as [_ In]. pose proof (i_del _ I) as D. rewrite Forall_forall in D. auto. Qed.

Lemma inv_trial_good w n t : InvS w -> find_trial n (w_trials w) = Some t -> tgood t.
Proof. intros I F. apply find_trial_name in F as [_ In]. pose proof (i_tgood _ I) as D. rewrite Forall_forall in D. auto. Qed.

Lemma apply_write_inv w wr onf w1 :
  InvS w -> write_ok w (wr, onf) -> apply_write w wr = Some w1 ->
  InvS w1 /\ evolves w w1 /\ side_eq w w1.
Proof.
  intros I OK A. destruct (inv_exp_some _ I) as (e&He&De&Ne).
  destruct wr; cbn [apply_write] in A; unfold write_ok in OK; cbn [fst] in OK.
  - (* WExpFin *)
    rewrite He in A. destruct (Nat.eqb (e_rv e) rv); [|discriminate].
    rewrite De, andb_false_r in A. inversion A; subst w1.
    destruct (exp_update_inv w e {| e_max := e_max e; e_fin := add; e_deleting := false; e_st := e_st e; e_rv := S (e_rv e) |}
                I He eq_refl eq_refl eq_refl Ne) as [I1 E1]. split; [exact I1|split; [exact E1|side]].
  - (* WExpStatus *)
    rewrite He in A. destruct (Nat.eqb (e_rv e) rv); [|discriminate]. inversion A; subst w1.
    destruct OK as (NN&_).
    destruct (exp_update_inv w e {| e_max := e_max e; e_fin := e_fin e; e_deleting := e_deleting e; e_st := st; e_rv := S (e_rv e) |}
                I He eq_refl De eq_refl NN) as [I1 E1]. split; [exact I1|split; [exact E1|side]].
  - (* WSugCreate *)
    destruct (w_sug w) as [s|] eqn:Es; [discriminate|]. inversion A; subst w1.
    destruct OK as [B1 B2]. destruct (i_bud _ I) as (G0&G1&G2).
    match goal with |- InvS ?W /\ _ => change W with
      (set_ghost (set_sug w (Some {| s_requests := requests; s_st := {| ss_names := []; ss_count := 0; ss_conds := []; ss_settings := 0%nat |}; s_rv := 1%nat |}))
         (Z.max (g_maxreq w) requests) (g_rpcs w) (g_jobcreates w) (g_jobdeletes w) (g_dbdeletes w) (g_finreleased w) (g_writes w)) end.
    edestruct (sug_update_inv w) as [I1 E1]; [exact I| | | | | | | |split; [exact I1|split; [exact E1|side]]].
    + rewrite Es. reflexivity.
    + reflexivity.
    + cbn. lia.
    + cbn. lia.
    + lia.
    + lia.
    + intros e0 m H0 Hm. specialize (B2 _ _ H0 Hm). specialize (G2 _ _ H0 Hm). lia.
  - (* WSugSpec *)
    destruct (w_sug w) as [s|] eqn:Es; [|discriminate]. destruct (Nat.eqb (s_rv s) rv); [|discriminate]. inversion A; subst w1.
    destruct OK as [B1 B2]. destruct (i_bud _ I) as (G0&G1&G2).
    pose proof (i_sug _ I) as S. rewrite Es in S. destruct S as (W0&C0&R0&In0&Hc).
    match goal with |- InvS ?W /\ _ => change W with
      (set_ghost (set_sug w (Some {| s_requests := requests; s_st := s_st s; s_rv := S (s_rv s) |}))
         (Z.max (g_maxreq w) requests) (g_rpcs w) (g_jobcreates w) (g_jobdeletes w) (g_dbdeletes w) (g_finreleased w) (g_writes w)) end.
    edestruct (sug_update_inv w) as [I1 E1]; [exact I| | | | | | | |split; [exact I1|split; [exact E1|side]]].
    + rewrite Es. repeat split; cbn; [lia|lia|]. exists []. now rewrite app_nil_r.
    + exact W0.
    + cbn. lia.
    + cbn. lia.
    + lia.
    + lia.
    + intros e0 m H0 Hm. specialize (B2 _ _ H0 Hm). specialize (G2 _ _ H0 Hm). lia.
  - (* WSugStatus *)
    destruct (w_sug w) as [s|] eqn:Es; [|discriminate]. destruct (Nat.eqb (s_rv s) rv) eqn:Er; [|discriminate]. inversion A; subst w1.
    apply Nat.eqb_eq in Er. destruct OK as (W1&G1&s0&Hs0&R0&P0). inversion Hs0; subst s0.
    destruct (P0 (eq_sym Er)) as (l&Nl). destruct (i_bud _ I) as (B0&B1&B2).
    pose proof (i_sug _ I) as S. rewrite Es in S. destruct S as (W0&C0&Rq0&In0&Hc).
    rewrite <- (set_ghost_id (set_sug w _)).
    edestruct (sug_update_inv w) as [I1 E1]; [exact I| | | | | | | |split; [exact I1|split; [exact E1|side]]].
    + rewrite Es. repeat split; cbn; [lia|lia|]. exists l. exact Nl.
    + exact W1.
    + cbn. rewrite W1. exact G1.
    + cbn. exact Rq0.
    + cbn. lia.
    + cbn. exact B1.
    + cbn. exact B2.
  - (* WTrialCreate *)
    rewrite He in A. destruct (find_trial name (w_trials w)) eqn:F; [discriminate|]. inversion A; subst w1.
    destruct OK as (s&Hs&In). destruct (trial_create_inv w name s I Hs In F) as [I1 E1]. split; [exact I1|split; [exact E1|side]].
  - (* WTrialFin *)
    destruct (find_trial name (w_trials w)) as [t|] eqn:F; [|discriminate]. destruct (Nat.eqb (t_rv t) rv); [|discriminate].
    rewrite (inv_trial_not_deleting _ _ _ I F), andb_false_r in A. inversion A; subst w1.
    edestruct (trial_update_inv w name) as [I1 E1]; [exact I|exact F| | | | |split; [exact I1|split; [exact E1|side]]]; cbn; auto.
    all: try (repeat split; cbn; auto; lia).
    all: try exact (inv_trial_good _ _ _ I F).
  - (* WTrialStatus *)
    destruct (find_trial name (w_trials w)) as [t|] eqn:F; [|discriminate]. destruct (Nat.eqb (t_rv t) rv) eqn:Er; [|discriminate].
    inversion A; subst w1. apply Nat.eqb_eq in Er.
    destruct OK as (t0&F0&R0&P0). inversion F0; subst t0. destruct (P0 (eq_sym Er)) as [PT PG].
    edestruct (trial_update_inv w name) as [I1 E1]; [exact I|exact F| | | | |split; [exact I1|split; [exact E1|side]]]; cbn; auto.
    all: try (repeat split; cbn; auto; try lia; intros k K Hk; unfold t_is; cbn; apply PT; auto).
    all: try (unfold tgood; cbn; apply PG; exact (inv_trial_good _ _ _ I F)).
  - (* WJobCreate *)
    destruct (find_job name (w_jobs w)); [discriminate|]. inversion A; subst w1.
    split; [eapply InvS_frame; [|exact I]; core|]. split; [apply evolves_core; core|side].
  - (* WJobDelete *)
    destruct (find_job name (w_jobs w)); [|discriminate]. inversion A; subst w1.
    split; [eapply InvS_frame; [|exact I]; core|]. split; [apply evolves_core; core|side].
  - (* WInfraCreate *)
    destruct (infra_has (w_infra w) k); [discriminate|]. inversion A; subst w1.
    split; [eapply InvS_frame; [|exact I]; core|]. split; [apply evolves_core; core|side].
  - (* WInfraDelete *)
    destruct (infra_has (w_infra w) k); [|discriminate]. inversion A; subst w1.
    split; [eapply InvS_frame; [|exact I]; core|]. split; [apply evolves_core; core|side].
  - (* WDbDelete *)
    inversion A; subst w1.
    split; [eapply InvS_frame; [|exact I]; core|]. split; [apply evolves_core; core|side].
  - (* WDbReportUnavailable *)
    inversion A; subst w1.
    split; [eapply InvS_frame; [|exact I]; core|]. split; [apply evolves_core; core|side].
  - discriminate.
Qed.
