(* C06: MetricsUnavailable is reported only for a trial whose objective value was not in the metrics DB when the trial
   reconcile that reports it began.  [snap] is a ghost that remembers the key and the DB of the Begin of the trial reconcile in
   progress (exactly what the monitor Corr/WorldMon.mu_walk tracks on the implementation's projected states); the invariant
   says that every pending status write that would newly report MetricsUnavailable is justified by that snapshot.  The
   monitor then holds on every run of the model ([mu_walk_model]). *)
From KV Require Import Base.Prelude Base.Cond Model.World Proofs.WorldPlan Proofs.WorldInv Proofs.WorldInv2 Proofs.WorldInv4
  Proofs.WorldInv5 Proofs.WorldThm Proofs.WorldSucc Proofs.WorldTrials Proofs.WorldObs Corr.WorldC Corr.WorldMon.
Open Scope Z_scope.

Definition snapshot := option (nat * list (nat * option Z)).

Definition nodbobj (n : nat) (db : list (nat * option Z)) : bool :=
  match db_get n db with Some (Some _) => false | _ => true end.

(* the ghost: a Begin of the trial controller that is not ignored (nothing pending) takes a new snapshot *)
Definition snap_next (w : world) (a : action) (snap : snapshot) : snapshot :=
  match a with
  | Begin CTrial k _ _ => match p_trial w with [] => Some (k, w_db w) | _ :: _ => snap end
  | _ => snap
  end.

(* ------------------------------------------------------------------ what a trial reconcile plans *)

Lemma utc_mu cf now t o js dbw cs ct :
  update_trial_condition cf now t o js = (dbw, cs, ct) -> has_cond (t_conds t) TSucceeded = false ->
  has_cond cs TMetricsUnavailable = true ->
  has_cond (t_conds t) TMetricsUnavailable = true \/ (js = JSSucceeded /\ obs_available o = false).
Proof.
  unfold update_trial_condition. intros U S0 M. rewrite S0 in U. cbn [negb] in U. rewrite andb_true_r in U.
  destruct (has_cond (t_conds t) TMetricsUnavailable) eqn:M0; [now left|right].
  destruct js.
  - exfalso. destruct (_ && _); inversion U; subst; [|congruence].
    unfold tmark_off_and, mark in M. rewrite has_set, has_turn_off in M. cbn in M. congruence.
  - split; [reflexivity|]. destruct (obs_available o); [|reflexivity]. exfalso.
    destruct (negb (has_cond (t_conds t) TEarlyStopped)); inversion U; subst; [|congruence].
    unfold tmark_off_and, mark in M. rewrite has_set, has_turn_off in M. cbn in M. congruence.
  - exfalso. destruct (_ && _); inversion U; subst; [|congruence].
    unfold mark in M. rewrite has_set in M. cbn in M. congruence.
Qed.

Lemma db_obs_unavailable key db (o0 : obs) :
  obs_available (match db_get key db with Some v => Some v | None => o0 end) = false -> nodbobj key db = true.
Proof. unfold nodbobj. destruct (db_get key db) as [[z|]|]; cbn; congruence. Qed.

Lemma plan_trial_main_mu w t dberr n cs o ct rv onf :
  In (WTrialStatus n cs o ct rv, onf) (plan_trial_main w t dberr) -> tgood t ->
  has_cond cs TMetricsUnavailable = true ->
  has_cond (t_conds t) TMetricsUnavailable = true \/ nodbobj (t_name t) (w_db w) = true.
Proof.
  unfold plan_trial_main. intros H G M.
  assert (S0 : t_completed t = false \/ t_is t TEarlyStopped = true -> has_cond (t_conds t) TSucceeded = false).
  { intros [C|E]; [apply not_completed_parts in C; unfold t_is in C; tauto|].
    destruct (has_cond (t_conds t) TSucceeded) eqn:S; [|reflexivity]. destruct G as [G1 _]. destruct (G1 S) as (_&_&E'&_).
    unfold t_is in E. congruence. }
  assert (UT : forall js o' dbw cs' ct', update_trial_condition (w_cfg w) (w_clock w) t o' js = (dbw, cs', ct') ->
               has_cond (t_conds t) TSucceeded = false -> has_cond cs' TMetricsUnavailable = true ->
               o' = (if match js with JSSucceeded => true | _ => t_is t TEarlyStopped end
                     then match db_get (t_name t) (w_db w) with Some v => Some v | None => t_obs t end else t_obs t) ->
               has_cond (t_conds t) TMetricsUnavailable = true \/ nodbobj (t_name t) (w_db w) = true).
  { intros js o' dbw cs' ct' U S M' Eo. destruct (utc_mu _ _ _ _ _ _ _ _ U S M') as [K|[-> K]]; [now left|right].
    subst o'. now apply db_obs_unavailable in K. }
  destruct (find_job (t_name t) (w_jobs w)) as [j|].
  - destruct (t_completed t && negb (c_retain (w_cfg w))).
    + destruct (t_is t TEarlyStopped && negb (t_obs_available t)); [|destruct H as [X|[]]; inversion X].
      destruct dberr; [destruct H as [X|[]]; inversion X|].
      apply in_app_or in H as [[X|[]]|H]; [inversion X|]. apply in_trial_status_write in H. inversion H; subst. now left.
    + destruct (negb (t_completed t) || t_is t TEarlyStopped) eqn:Gd; [|destruct H].
      destruct (match j_phase j with JFail => Some JSFailed | JSucc => Some JSSucceeded
                                | JActive => if negb (t_is t TRunning) then Some JSRunning else None end) as [js|]; [|destruct H].
      match type of H with In _ (if ?c then _ else _) => destruct c end; [destruct H|].
      match type of H with In _ (if ?c then _ else _) => destruct c end; [destruct H|].
      destruct (update_trial_condition _ _ _ _ _) as [[dbw cs'] ct'] eqn:U.
      apply in_app_or in H as [H|H]; [destruct H|]. apply in_app_or in H as [H|H].
      * apply (update_trial_condition_db _ _ _ _ _ _ _ _ _ U) in H as [X _]. inversion X.
      * apply in_trial_status_write in H. inversion H; subst. eapply UT; [exact U| |exact M|reflexivity].
        apply S0. apply orb_true_iff in Gd as [Gd|Gd]; [left; now apply negb_true_iff in Gd|now right].
  - destruct (t_completed t) eqn:C.
    + destruct (t_is t TEarlyStopped && negb (t_obs_available t)); [|destruct H].
      destruct dberr; [destruct H|]. cbn [app] in H. apply in_trial_status_write in H. inversion H; subst. now left.
    + cbn [negb orb] in H.
      destruct (if negb (t_is t TRunning) then Some JSRunning else None) as [js|]; [|destruct H as [X|[]]; inversion X].
      match type of H with In _ (if ?c then _ else _) => destruct c end; [destruct H as [X|[]]; inversion X|].
      match type of H with In _ (if ?c then _ else _) => destruct c end; [destruct H as [X|[]]; inversion X|].
      destruct (update_trial_condition _ _ _ _ _) as [[dbw cs'] ct'] eqn:U.
      apply in_app_or in H as [H|H]; [destruct H as [X|[]]; inversion X|].
      apply in_app_or in H as [H|H].
      * apply (update_trial_condition_db _ _ _ _ _ _ _ _ _ U) in H as [X _]. inversion X.
      * apply in_trial_status_write in H. inversion H; subst. eapply UT; [exact U| |exact M|reflexivity].
        apply S0. now left.
Qed.

Lemma plan_trial_mu w key dberr n cs o ct rv onf :
  In (WTrialStatus n cs o ct rv, onf) (plan_trial w key dberr) ->
  n = key /\ exists t, find_trial key (c_trials w) = Some t /\ rv = t_rv t /\
    (tgood t -> has_cond cs TMetricsUnavailable = true ->
     has_cond (t_conds t) TMetricsUnavailable = true \/ nodbobj key (w_db w) = true).
Proof.
  intro H. destruct (plan_trial_obs _ _ _ _ _ _ _ _ _ H) as (->&t&F&Rv&_).
  split; [reflexivity|]. exists t. split; [exact F|]. split; [exact Rv|]. intros G M.
  destruct (find_trial_name _ _ _ F) as [N _].
  unfold plan_trial in H. rewrite F in H.
  destruct (negb (t_deleting t) && negb (t_fin t)); [destruct H as [X|[]]; inversion X|].
  destruct (t_deleting t && t_fin t); [destruct H as [X|[X|[]]]; inversion X|].
  destruct (negb (t_is t TCreated)).
  - apply in_trial_status_write in H. inversion H; subst. left. unfold mark in M. rewrite has_set in M. cbn in M. exact M.
  - rewrite <- N. eapply plan_trial_main_mu; eauto.
Qed.

(* a pending write after a step was pending before, or has just been planned by a Begin of that very controller that found
   nothing pending *)
Lemma step_pending2 w a c x :
  In x (pending_of (step w a) c) ->
  In x (pending_of w c) \/
  (pending_of w c = [] /\ exists key resp dberr, a = Begin c key resp dberr /\
     match c with CExp => In x (plan_exp w) | CSug => In x (fst (plan_sug w resp)) | CTrial => In x (plan_trial w key dberr) end).
Proof.
  assert (Same : forall w', pending_of w' c = pending_of w c -> In x (pending_of w' c) ->
    In x (pending_of w c) \/
    (pending_of w c = [] /\ exists key resp dberr, a = Begin c key resp dberr /\
       match c with CExp => In x (plan_exp w) | CSug => In x (fst (plan_sug w resp)) | CTrial => In x (plan_trial w key dberr) end)).
  { intros w' E H. rewrite E in H. now left. }
  destruct a; cbn [step].
  - destruct (pending_of w c0) eqn:Ep; [|apply Same; reflexivity].
    destruct c0.
    + destruct c; cbn; [|apply Same; reflexivity|apply Same; reflexivity].
      intro H. right. split; [exact Ep|]. exists key, resp, dberr. split; [reflexivity|exact H].
    + destruct (plan_sug w resp) as [p rpcs] eqn:Ps.
      destruct c; cbn; [apply Same; reflexivity| |apply Same; reflexivity].
      intro H. right. split; [exact Ep|]. exists key, resp, dberr. split; [reflexivity|]. now rewrite Ps.
    + destruct c; cbn; [apply Same; reflexivity|apply Same; reflexivity|].
      intro H. right. split; [exact Ep|]. exists key, resp, dberr. split; [reflexivity|exact H].
  - destruct (pending_of w c0) as [|[wr onf] rest] eqn:Ep; [apply Same; reflexivity|].
    destruct (ctl_dec c0 c) as [->|Ne].
    + destruct (if inject_failure then None else apply_write (count_write w) wr) as [w1|] eqn:A;
        rewrite pending_set_same; intro H; left; rewrite Ep; [right; exact H|].
      destruct onf; [destruct H|right; exact H].
    + destruct (if inject_failure then None else apply_write (count_write w) wr) as [w1|] eqn:A;
        rewrite pending_set_other by exact Ne; [|apply Same; destruct c; reflexivity].
      destruct inject_failure; [discriminate|]. destruct (apply_write_side0 _ _ _ A) as (_&_&E). rewrite E. apply Same. destruct c; reflexivity.
  - intro H. left. destruct c0, c; cbn in H; try exact H; destruct H.
  - apply Same. reflexivity.
  - apply Same. reflexivity.
  - destruct (find_trial t (w_trials w)); apply Same; reflexivity.
  - destruct (find_trial t (w_trials w)) as [tr|]; [|apply Same; reflexivity]. destruct (_ && _); [|apply Same; reflexivity].
    apply Same. cbn. destruct v, (db_get t (w_db w)); destruct c; reflexivity.
  - destruct (i_dep (w_infra w)); apply Same; destruct c; reflexivity.
  - apply Same. destruct c; reflexivity.
  - apply Same. destruct c; reflexivity.
  - apply Same. destruct c; reflexivity.
  - destruct (w_exp w) as [e|]; [|apply Same; reflexivity]. destruct (e_max e); [|apply Same; reflexivity].
    destruct (_ && _ && _); apply Same; destruct c; reflexivity.
  - destruct (w_exp w) as [e|]; [|apply Same; reflexivity]. destruct (e_fin e); apply Same; destruct c; reflexivity.
  - destruct (w_exp w), (find_trial t (w_trials w)) as [tr|]; try (apply Same; reflexivity). destruct (t_fin tr); apply Same; destruct c; reflexivity.
Qed.

(* ------------------------------------------------------------------ the invariant *)

Definition muw_ok (snap : snapshot) (w : world) (x : write * onfail) : Prop :=
  match fst x with
  | WTrialStatus n cs o ct rv =>
      has_cond cs TMetricsUnavailable = true ->
      forall t, find_trial n (w_trials w) = Some t -> rv = t_rv t ->
      has_cond (t_conds t) TMetricsUnavailable = true \/ exists db, snap = Some (n, db) /\ nodbobj n db = true
  | _ => True
  end.

Definition MuInv (snap : snapshot) (w : world) : Prop :=
  (forall c, Forall (muw_ok snap w) (pending_of w c)) /\
  (* status writes of trials are pending with the trial controller only *)
  (forall c x, In x (pending_of w c) -> match fst x with WTrialStatus _ _ _ _ _ => c = CTrial | _ => True end).

Lemma MuInv_init c : MuInv None (init c).
Proof. split; [intros []; constructor|intros [] x []]. Qed.

Lemma step_mu snap w a : Inv w -> MuInv snap w -> is_teardown a = false -> MuInv (snap_next w a snap) (step w a).
Proof.
  intros Iv [T K] NT. pose proof Iv as [I P].
  destruct (step_inv2 w a NT Iv) as [Iv' Ev].
  assert (Kind : forall c x, In x (pending_of (step w a) c) ->
                 match fst x with
                 | WTrialStatus _ _ _ _ _ =>
                     c = CTrial /\ (In x (p_trial w) \/ (p_trial w = [] /\ exists key resp dberr, a = Begin CTrial key resp dberr /\ In x (plan_trial w key dberr)))
                 | _ => True end).
  { intros c x Hx. destruct x as [wr onf]. cbn [fst]. destruct wr; auto.
    destruct (step_pending2 _ _ _ _ Hx) as [H|(Ep&key&resp&dberr&Ea&H)].
    - pose proof (K _ _ H) as Kc. cbn [fst] in Kc. subst c. split; [reflexivity|now left].
    - destruct c.
      + exfalso. pose proof (ek_plan_exp_kinds w) as E. rewrite forallb_forall in E. specialize (E _ H). discriminate.
      + exfalso. destruct (plan_sug_shape _ _ _ H) as (cs0&Hc&[(k&[X|X])|(st&X&_)]); discriminate.
      + split; [reflexivity|right]. split; [exact Ep|]. exists key, resp, dberr. auto. }
  split; [|intros c x Hx; specialize (Kind c x Hx); destruct (fst x); auto; tauto].
  intro c. apply Forall_forall. intros x Hx. pose proof (Kind c x Hx) as Kx.
  destruct x as [wr onf]. unfold muw_ok. cbn [fst] in *. destruct wr; auto.
  destruct Kx as [-> [H|(Ep&key&resp&dberr&Ea&H)]].
  - (* was pending before: the snapshot is the same one (a Begin of the trial controller is ignored while something is pending) *)
    assert (Sn : snap_next w a snap = snap).
    { unfold snap_next. destruct a; try reflexivity. destruct c; try reflexivity.
      destruct (p_trial w); [destruct H|reflexivity]. }
    rewrite Sn.
    pose proof (T CTrial) as F. rewrite Forall_forall in F. specialize (F _ H). unfold muw_ok in F. cbn [fst] in F.
    pose proof (pending_of_ok w CTrial P) as WO. rewrite Forall_forall in WO. specialize (WO _ H).
    unfold write_ok in WO. cbn [fst] in WO. destruct WO as (t&Ft&Rle&_).
    intros M t' F' Rv.
    destruct (tlag_find _ _ _ _ (ev_trials _ _ Ev) Ft) as (t''&F''&(_&R2&E2&_)). rewrite F' in F''. inversion F''; subst t''.
    assert (Q : t_rv t = t_rv t') by lia. rewrite <- (E2 Q). apply F; [exact M|exact Ft|lia].
  - (* planned by this very step: it is a Begin of the trial controller with nothing pending *)
    destruct (plan_trial_mu _ _ _ _ _ _ _ _ _ H) as (->&t&F&->&Mu).
    intros M t' F' Rv.
    destruct (tlag_find _ _ _ _ (i_tlag _ I) F) as (ts&Fs&(_&R1&E1&_)).
    destruct (tlag_find _ _ _ _ (ev_trials _ _ Ev) Fs) as (t2&F2&(_&R2&E2&_)). rewrite F' in F2. inversion F2; subst t2.
    assert (Q1 : t_rv t = t_rv ts) by lia. assert (Q2 : t_rv ts = t_rv t') by lia.
    assert (Gt : tgood t). { rewrite (E1 Q1). exact (inv_trial_good _ _ _ I Fs). }
    rewrite <- (E2 Q2), <- (E1 Q1).
    destruct (Mu Gt M) as [L|R]; [now left|right].
    subst a. unfold snap_next. rewrite Ep. exists (w_db w). split; [reflexivity|exact R].
Qed.
