(* C10 — the enum part of the monitor accepts the rows the model's own switches produce, for any list of values. *)
From KV Require Import Base.Prelude Model.Convert Model.Settings Proofs.SettingsP Proofs.ConvertP Corr.C10.
Open Scope string_scope.

Definition is_unknown_ok (ty v : string) : bool := existsb (fun p => (fst p =? ty) && (snd p =? v)) enum_unknown_ok.
Definition own_b (ty v : string) : bool := declared_in_model ty v && negb (is_unknown_ok ty v).

Definition model_rows (ty : string) (vs : list string) : list (string * bool * string) :=
  map (fun v => (v, declared_in_model ty v, enum_image ty v)) vs.

Definition mapped_types : list string := ["ParameterType"; "Distribution"; "ObjectiveType"; "TrialConditionType"].

Ltac cases_on v :=
  repeat match goal with
         | |- context [String.eqb v ?c] => destruct (String.eqb_spec v c) as [->|?]
         | |- context [String.eqb ?c v] => destruct (String.eqb_spec c v) as [<-|?]
         end.

Definition facts (ty : string) : Prop :=
  (forall v, own_b ty v = true -> enum_image ty v <> enum_unknown_name ty) /\
  (forall v v', own_b ty v = true -> own_b ty v' = true -> enum_image ty v = enum_image ty v' -> v = v') /\
  (forall v, declared_in_model ty v = false -> enum_image ty v = enum_unknown_name ty).

Lemma facts_from_faithful {B} (conv : string -> B) declared unk (name : B -> string) ty :
  enum_faithful conv declared unk ->
  (forall a b, name a = name b -> a = b) ->
  (forall v, enum_image ty v = name (conv v)) ->
  enum_unknown_name ty = name unk ->
  (forall v, own_b ty v = true -> In v declared) ->
  (forall v, declared_in_model ty v = false -> ~ In v declared) ->
  facts ty.
Proof.
  intros [Inj [NU U]] NI Img Unk Own Dec. unfold facts. rewrite Unk. repeat split.
  - intros v O E. rewrite Img in E. apply NI in E. exact (NU v (Own v O) E).
  - intros v v' O O' E. rewrite !Img in E. apply NI in E. exact (Inj v v' (Own v O) (Own v' O') E).
  - intros v D. rewrite Img. f_equal. apply U. now apply Dec.
Qed.

Ltac unfold_tables :=
  unfold own_b, is_unknown_ok, declared_in_model, enum_declared, enum_unknown_ok,
         ptype_declared, dist_declared, otype_declared, cond_declared, mem; cbn [existsb fst snd].
Ltac own_case v := intros v; unfold_tables; cases_on v; vm_compute; first [discriminate | intros _; tauto | tauto].
Ltac dec_case v := intros v; unfold_tables; cases_on v; vm_compute; first [discriminate | intros _ H; repeat (destruct H as [H|H]; [congruence|]); exact H].
Ltac name_inj := intros a b; destruct a, b; vm_compute; first [reflexivity | discriminate].

Lemma enum_facts ty : In ty mapped_types -> facts ty.
Proof.
  intro I. cbn [In mapped_types] in I. repeat (destruct I as [<-|I]; [|]); try contradiction.
  - apply (facts_from_faithful convert_ptype ptype_declared PT_UNKNOWN_TYPE ptype_name); try reflexivity.
    + apply ptype_faithful. + name_inj. + own_case v. + dec_case v.
  - apply (facts_from_faithful convert_dist dist_declared D_DISTRIBUTION_UNSPECIFIED dist_name); try reflexivity.
    + apply dist_faithful. + name_inj. + own_case v. + dec_case v.
  - apply (facts_from_faithful convert_otype otype_declared O_UNKNOWN otype_name); try reflexivity.
    + apply otype_faithful. + name_inj. + own_case v. + dec_case v.
  - apply (facts_from_faithful convert_cond cond_declared C_UNKNOWN cond_name); try reflexivity.
    + apply cond_faithful. + name_inj. + own_case v. + dec_case v.
Qed.

Theorem monitor_enum : forall ty vs, In ty mapped_types -> holds (CEnum ty (model_rows ty vs)) = true.
Proof.
  intros ty vs I. destruct (enum_facts ty I) as [F1 [F2 F3]]. cbn [holds].
  apply forallb_forall. intros [[v d] img] R. unfold model_rows in R. apply in_map_iff in R. destruct R as [v0 [[= <- <- <-] _]].
  fold (is_unknown_ok ty v0). fold (own_b ty v0).
  destruct (own_b ty v0) eqn:O.
  - apply andb_true_iff. split.
    + apply negb_true_iff. apply String.eqb_neq. now apply F1.
    + apply forallb_forall. intros [[v' d'] img'] R'. apply in_map_iff in R'. destruct R' as [v1 [[= <- <- <-] _]].
      fold (is_unknown_ok ty v1). fold (own_b ty v1). destruct (own_b ty v1) eqn:O'; [|reflexivity]. cbn [negb orb].
      destruct (String.eqb_spec v0 v1) as [E|NE]; [reflexivity|]. cbn [orb]. apply negb_true_iff. apply String.eqb_neq.
      intro E. apply NE. now apply F2.
  - destruct (declared_in_model ty v0) eqn:D; [reflexivity|]. apply String.eqb_eq. now apply F3.
Qed.
