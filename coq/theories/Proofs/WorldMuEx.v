(* Non-vacuity for C06_metrics_unavailable_justified: a concrete history of the model in which the collector first reports the
   metrics of a successful job without an objective value, the trial reconcile marks the trial MetricsUnavailable, and the
   objective value arrives afterwards -- the trial stays MetricsUnavailable although job and DB would now justify Succeeded. *)
From KV Require Import Base.Prelude Base.Cond Model.World Corr.WorldC Corr.WorldMon Proofs.WorldInv5 Proofs.MonSound.
Open Scope Z_scope.

Definition mu_cfg : cfg := {| c_max := Some 1; c_par := 1; c_maxfailed := None; c_goal := None; c_minimize := true;
   c_resume := Never; c_es := false; c_retain := true; c_push := false |}.
Definition mu_rsp (l : list nat) : sresp := {| r_valid := true; r_esvalid := true; r_reply := ReplyOk l None; r_esrules := true |}.
Definition mu_syncs := [SyncExp; SyncSug; SyncTrials].
Definition mu_ws c := [Write c false; Write c false; Write c false; Write c false; Write c false; Write c false; Write c false; Write c false].
(* one round: every controller looks (with fresh caches) and issues all its writes *)
Definition mu_round : list action :=
  mu_syncs ++ [Begin CExp 0%nat (mu_rsp []) false] ++ mu_ws CExp ++
  mu_syncs ++ [DeployAvailable true; Begin CSug 0%nat (mu_rsp [7%nat]) false] ++ mu_ws CSug ++
  mu_syncs ++ [Begin CTrial 7%nat (mu_rsp []) false] ++ mu_ws CTrial.
Definition mu_rounds (n : nat) := concat (repeat mu_round n).
Definition mu_acts : list action :=
  mu_rounds 10 ++ [JobDone 7%nat true; Metrics 7%nat None] ++ mu_rounds 3 ++ [Metrics 7%nat (Some 5)] ++ mu_rounds 3.

Lemma mu_valid : valid_cfg mu_cfg.
Proof. repeat split; cbn; lia. Qed.

Lemma mu_no_teardown : no_teardown mu_acts.
Proof. vm_compute. reflexivity. Qed.

Lemma mu_outcome :
  let w := run mu_cfg mu_acts in
  exists t, find_trial 7%nat (w_trials w) = Some t /\ t_is t TMetricsUnavailable = true /\ t_is t TSucceeded = false /\
            db_get 7%nat (w_db w) = Some (Some 5) /\ find_job 7%nat (w_jobs w) = Some {| j_name := 7%nat; j_phase := JSucc |}.
Proof. vm_compute. eexists. repeat split; reflexivity. Qed.
