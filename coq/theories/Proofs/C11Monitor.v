(* The boolean monitor of C11 is implied by the theorems about the model: a model output never
   fails the monitor, so an alarm of the monitor on an implementation output that agrees with the
   model is impossible. *)
From KV Require Import Base.Prelude Model.GetMetrics Proofs.GetMetricsP Corr.C11.
Open Scope Z_scope.

Lemma list_min_le d l : list_min d l <= d /\ forall z, In z l -> list_min d l <= z.
Proof.
  induction l as [|a r [IH1 IH2]]; simpl; [split; [lia|intros ? []]|].
  split; [lia|]. intros z [->|I]; [lia|]. specialize (IH2 z I). lia.
Qed.

Lemma list_min_in d l : list_min d l = d \/ In (list_min d l) l.
Proof.
  induction l as [|a r IH]; simpl; [now left|].
  destruct (Z.min_spec a (list_min d r)) as [[_ ->]|[_ ->]]; [right; now left|].
  destruct IH as [->|I]; [now left|right; now right].
Qed.

Lemma list_max_ge d l : d <= list_max d l /\ forall z, In z l -> z <= list_max d l.
Proof.
  induction l as [|a r [IH1 IH2]]; simpl; [split; [lia|intros ? []]|].
  split; [lia|]. intros z [->|I]; [lia|]. specialize (IH2 z I). lia.
Qed.

Lemma list_max_in d l : list_max d l = d \/ In (list_max d l) l.
Proof.
  induction l as [|a r IH]; simpl; [now left|].
  destruct (Z.max_spec a (list_max d r)) as [[_ ->]|[_ ->]]; [|right; now left].
  destruct IH as [->|I]; [now left|right; now right].
Qed.

Lemma zmin_of_unique l z0 : In z0 l -> (forall z, In z l -> z0 <= z) -> zmin_of l = Some z0.
Proof.
  destruct l as [|a r]; [intros []|]. intros I H. simpl. f_equal.
  destruct (list_min_le a r) as [L1 L2].
  assert (list_min a r <= z0) by (destruct I as [<-|I]; auto).
  assert (z0 <= list_min a r); [|lia].
  destruct (list_min_in a r) as [->|J]; apply H; [now left|now right].
Qed.

Lemma zmax_of_unique l z0 : In z0 l -> (forall z, In z l -> z <= z0) -> zmax_of l = Some z0.
Proof.
  destruct l as [|a r]; [intros []|]. intros I H. simpl. f_equal.
  destruct (list_max_ge a r) as [L1 L2].
  assert (z0 <= list_max a r) by (destruct I as [<-|I]; auto).
  assert (list_max a r <= z0); [|lia].
  destruct (list_max_in a r) as [->|J]; apply H; [now left|now right].
Qed.

Lemma reported_intro l e z : In e l -> vnum e = Some z -> reported l (vtext e) z = true.
Proof.
  intros I N. unfold reported. apply existsb_exists. exists e. split; [assumption|].
  rewrite Nat.eqb_refl, N, Z.eqb_refl. reflexivity.
Qed.

Lemma in_nums l e z : In e l -> vnum e = Some z -> In z (nums l).
Proof. intros I N. unfold nums. apply in_flat_map. exists e. split; [assumption|]. rewrite N. now left. Qed.

Lemma MM_monitor l s : MM l s ->
  match zmin_of (nums l) with None => Nat.eqb (smin s) unavailable | Some z => reported l (smin s) z end = true /\
  match zmax_of (nums l) with None => Nat.eqb (smax s) unavailable | Some z => reported l (smax s) z end = true.
Proof.
  intros [(Hn&H1&H2)|(a&b&Ia&Ib&Ha&Hb&Na&Nb&Hu&Hall)].
  - rewrite Hn, H1, H2. simpl. auto.
  - assert (E1 : zmin_of (nums l) = Some (nmin s)).
    { apply zmin_of_unique; [apply (in_nums l a); assumption|]. intros z I. apply Hall in I. lia. }
    assert (E2 : zmax_of (nums l) = Some (nmax s)).
    { apply zmax_of_unique; [apply (in_nums l b); assumption|]. intros z I. apply Hall in I. lia. }
    rewrite E1, E2, Ha, Hb. split; apply reported_intro; assumption.
Qed.

Lemma filter_none {A} (f : A -> bool) l : (forall x, In x l -> f x = false) -> filter f l = [].
Proof.
  induction l as [|a r IH]; intro H; simpl; [reflexivity|].
  rewrite (H a (or_introl eq_refl)). apply IH. intros x I. apply H. now right.
Qed.

Lemma LT_monitor l s : LT l s ->
  match latest_entry l with None => Nat.eqb (slatest s) unavailable | Some e => Nat.eqb (slatest s) (vtext e) end = true.
Proof.
  intros [(->&H1&_)|(l1&e&l2&->&H1&_&H3&H4)].
  - simpl. now rewrite H1.
  - unfold latest_entry.
    rewrite (zmax_of_unique (map ts_of (l1 ++ e :: l2)) (ts_of e)).
    + rewrite filter_app. cbn [filter]. rewrite Z.eqb_refl.
      rewrite (filter_none _ l2); [|intros x I; apply H4 in I; apply Z.eqb_neq; lia].
      rewrite last_last, H1. apply Nat.eqb_refl.
    + apply in_map. apply in_or_app. right. now left.
    + intros z I. apply in_map_iff in I as (x&<-&I).
      apply in_app_or in I as [I|[<-|I]]; [apply H3 in I|..|apply H4 in I]; lia.
Qed.

Lemma has_bad_ts_spec strategies l :
  has_bad_ts strategies l = true <-> exists e, In e l /\ In (ename e) strategies /\ ets e = None.
Proof.
  unfold has_bad_ts. rewrite existsb_exists. split.
  - intros (e&I&H). apply andb_true_iff in H as [T N]. apply tracked_spec in T.
    exists e. repeat split; auto. destruct (ets e); [discriminate|reflexivity].
  - intros (e&I&T&N). exists e. split; [assumption|]. apply tracked_spec in T. now rewrite T, N.
Qed.

Lemma of_name_wf m l : texts_wf l -> texts_wf (of_name m l).
Proof. intros H e I. apply H. now apply of_name_in in I. Qed.

Theorem monitor_model strategies l :
  texts_wf l -> monitor strategies l (get_metrics strategies l) = true.
Proof.
  intro Hwf. unfold monitor.
  destruct (has_bad_ts strategies l) eqn:B.
  - apply has_bad_ts_spec in B. apply bad_timestamp in B. now rewrite B.
  - destruct (get_metrics strategies l) as [out| |] eqn:G.
    + apply andb_true_iff. split.
      * revert G. unfold get_metrics. destruct (forallb _ l); [|discriminate]. intros [= <-].
        rewrite map_length. apply Nat.eqb_refl.
      * apply forallb_forall. intros m I. rewrite dedup_in in I.
        destruct (one_per_strategy strategies l out m G) as [H _].
        destruct (H I) as (s&Hs&->).
        unfold metric_ok.
        pose proof (min_max m l s Hwf Hs) as MMs. apply MM_monitor in MMs as [M1 M2].
        pose proof (latest m l s Hs) as LTs. apply LT_monitor in LTs.
        now rewrite M1, M2, LTs.
    + exfalso. assert (E : get_metrics strategies l = Err 1%nat).
      { revert G. unfold get_metrics. destruct (forallb _ l); [discriminate|reflexivity]. }
      apply bad_timestamp in E. apply has_bad_ts_spec in E. congruence.
    + revert G. unfold get_metrics. destruct (forallb _ l); discriminate.
Qed.

(* Consequently: if the implementation agrees with the model on a well-formed case, the monitor passes. *)
Lemma lookup_is_spec m r v : lookup_is m r v = true -> lookup m r = [v].
Proof.
  unfold lookup_is. destruct (lookup m r) as [|w [|? ?]]; try discriminate.
  destruct w as [[w1 w2] w3], v as [[v1 v2] v3]. simpl.
  rewrite !andb_true_iff, !Nat.eqb_eq. intros [[-> ->] ->]. reflexivity.
Qed.
