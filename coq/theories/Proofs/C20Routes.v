(* C20: obligations over the tables regenerated from the working tree on every run
   (Gen/Routes.v by harness/cmd/xlate-ui, Gen/RoutesDyn.v by harness/cmd/c20 routes).
   Not imported by Corr/C20.v: the case files still evaluate when an obligation here breaks. *)
From KV Require Import Base.Prelude Model.UiAuth Proofs.UiAuthP Gen.Routes Gen.RoutesDyn.
Open Scope string_scope.

(* the routes under the obligation: every route served by a KatibUIHandler method, except those listed with an
   OPEN known finding (findings.d/C20.json, KNOWN_FINDINGS.json; copied into Gen/Routes.v by the translator) *)
Definition checked_routes : list (string * handler) :=
  filter (fun r => negb (smem (fst r) open_findings)) (data_routes routes).

Theorem routes_checked : forallb (fun r => check (snd r)) checked_routes = true.
Proof. vm_compute. reflexivity. Qed.

Definition pair_eqb (a b : string * string) : bool := String.eqb (fst a) (fst b) && String.eqb (snd a) (snd b).

(* static route list (go/types walk of main.go) = the routes the dynamic side resolved on a live handler and called *)
Theorem route_complete :
  list_eqb pair_eqb (map (fun r => (route_path r, route_name r)) routes) exercised = true.
Proof. vm_compute. reflexivity. Qed.

(* every registration is either a checked handler route, the static file server, or an open finding *)
Theorem routes_classified :
  forallb (fun r => match r with
                    | RHandler p _ h => check h || smem p open_findings
                    | RStatic _ w => String.eqb w "http.FileServer"
                    end) routes = true.
Proof. vm_compute. reflexivity. Qed.

Theorem routes_safe : forall p h, In (p, h) checked_routes ->
  forall rq rb apis ch, safe rq (run h rq rb apis ch).
Proof.
  intros p h I. apply check_sound.
  pose proof routes_checked as H. rewrite forallb_forall in H. exact (H (p, h) I).
Qed.
