(* C18: the trial-mapping machine (syncTrials / findGoptunaTrialIDByParam) never fails on histories made of the service's own
   suggestions; shape of replies. *)
From KV Require Import Base.Prelude Model.Goptuna.
From Coq Require Import FinFun.
Open Scope Z_scope.

(* ------------------------------------------------------------------ reflect.DeepEqual on Params as an equivalence *)

Definition norm_rv (v : rv) : rv := match v with RFlt b => RFlt (nz b) | _ => v end.

Lemma rv_eqb_spec a b : rv_eqb a b = true <-> norm_rv a = norm_rv b.
Proof.
  destruct a, b; cbn; try (split; intro H; discriminate H).
  - rewrite Z.eqb_eq. split; congruence.
  - rewrite Z.eqb_eq. split; congruence.
  - rewrite String.eqb_eq. split; congruence.
Qed.

Definition pkey (p : params) : params := map (option_map norm_rv) p.

Lemma params_eqb_spec p q : params_eqb p q = true <-> pkey p = pkey q.
Proof.
  unfold params_eqb, pkey. revert q; induction p as [|a p IH]; intros [|b q]; cbn; try (split; intro H; discriminate H); [tauto|].
  rewrite andb_true_iff, IH. destruct a as [a|], b as [b|]; cbn.
  - rewrite rv_eqb_spec. split; [intros [-> ->]; reflexivity|intros [= -> ->]; auto].
  - split; [intros [H _]; discriminate H|intro H; discriminate H].
  - split; [intros [H _]; discriminate H|intro H; discriminate H].
  - split; [intros [_ ->]; reflexivity|intros [= ->]; auto].
Qed.

(* ------------------------------------------------------------------ list helpers *)

Lemma find_last_none {A} (f : nat -> A -> bool) l : forall i, find_last_from f i l = None ->
  forall j a, nth_error l j = Some a -> f (i + j)%nat a = false.
Proof.
  induction l as [|x l IH]; intros i H j a N; [destruct j; discriminate|].
  cbn in H. destruct (find_last_from f (S i) l) eqn:E; [discriminate|]. destruct (f i x) eqn:F; [discriminate|].
  destruct j; cbn in N.
  - injection N as <-. rewrite Nat.add_0_r. exact F.
  - rewrite <- Nat.add_succ_comm. eapply IH; eauto.
Qed.

Lemma find_last_some {A} (f : nat -> A -> bool) l : forall i k, find_last_from f i l = Some k ->
  exists j a, k = (i + j)%nat /\ nth_error l j = Some a /\ f k a = true.
Proof.
  induction l as [|x l IH]; intros i k H; [discriminate|].
  cbn in H. destruct (find_last_from f (S i) l) eqn:E.
  - injection H as <-. destruct (IH _ _ E) as (j & a & -> & N & F). exists (S j), a. repeat split; auto. lia.
  - destruct (f i x) eqn:F; [|discriminate]. injection H as <-. exists 0%nat, x. rewrite Nat.add_0_r. auto.
Qed.

Lemma lookup_map_in n m g : lookup_map n m = Some g -> In (n, g) m.
Proof.
  induction m as [|[k h] m IH]; cbn; [discriminate|]. destruct (Nat.eqb k n) eqn:E.
  - apply Nat.eqb_eq in E. intros [= <-]. left. congruence.
  - intro H. right. auto.
Qed.

Lemma lookup_map_none n m : lookup_map n m = None -> ~ In n (map fst m).
Proof.
  induction m as [|[k h] m IH]; cbn; [tauto|]. destruct (Nat.eqb k n) eqn:E; [discriminate|].
  apply Nat.eqb_neq in E. intros H [F|F]; [congruence|]. exact (IH H F).
Qed.

Lemma mapped_gid_iff m g : mapped_gid m g = true <-> In g (map snd m).
Proof.
  unfold mapped_gid. rewrite existsb_exists, in_map_iff. split.
  - intros (e & I & E). apply Nat.eqb_eq in E. eauto.
  - intros (e & E & I). exists e. split; auto. apply Nat.eqb_eq. auto.
Qed.

Lemma nth_error_set_nth_other {A} (x : A) l : forall g g', g' <> g -> nth_error (set_nth g x l) g' = nth_error l g'.
Proof.
  induction l as [|a l IH]; intros g g' N; [destruct g; reflexivity|].
  destruct g, g'; cbn; try reflexivity; [congruence|]. apply IH. congruence.
Qed.

Lemma map_set_nth_same {A B} (f : A -> B) (x : A) l : forall g a, nth_error l g = Some a -> f x = f a ->
  map f (set_nth g x l) = map f l.
Proof.
  induction l as [|b l IH]; intros g a N E; [destruct g; discriminate|].
  destruct g; cbn in *.
  - injection N as ->. congruence.
  - f_equal. eauto.
Qed.

Lemma NoDup_snoc {A} (l : list A) x : NoDup l -> ~ In x l -> NoDup (l ++ [x]).
Proof.
  induction l as [|a l IH]; cbn; intros ND NI; [constructor; [tauto|constructor]|].
  inversion ND as [|? ? Ha Hl]; subst. constructor.
  - rewrite in_app_iff. cbn. intros [I|[->|[]]]; tauto.
  - apply IH; tauto.
Qed.

Lemma NoDup_map_filter {A B} (f : A -> B) (P : A -> bool) l : NoDup (map f l) -> NoDup (map f (filter P l)).
Proof.
  induction l as [|a l IH]; cbn; intro ND; [constructor|].
  inversion ND as [|? ? Ha Hl]; subst. destruct (P a); cbn; [constructor|]; auto.
  intro I. apply Ha. apply in_map_iff in I. destruct I as (e & E & I). apply filter_In in I.
  apply in_map_iff. exists e. tauto.
Qed.

(* ------------------------------------------------------------------ the invariant *)

Section History.
Variable origin : nat -> nat.        (* Katib trial name -> index (= goptuna trial id) of the suggestion the trial was created from *)
Hypothesis origin_inj : forall a b, origin a = origin b -> a = b.

Definition getp (sugg : list params) (g : nat) : params := nth g sugg [].

Record Inv (sugg : list params) (s : st) : Prop := {
  inv_params : map g_params (gts s) = sugg;
  inv_nd_names : NoDup (map fst (mp s));
  inv_nd_gids : NoDup (map snd (mp s));
  inv_mp : forall n g, In (n, g) (mp s) ->
      (g < length sugg)%nat /\ (origin n < length sugg)%nat /\ pkey (getp sugg g) = pkey (getp sugg (origin n));
  inv_running : forall g gt, nth_error (gts s) g = Some gt -> mapped_gid (mp s) g = false -> g_state gt = GRunning }.

Lemma inv_init : Inv [] init.
Proof. split; cbn; try constructor; try tauto. intros [|g] gt H; discriminate H. Qed.

Lemma inv_len sugg s : Inv sugg s -> length (gts s) = length sugg.
Proof. intros I. rewrite <- (inv_params _ _ I), map_length. reflexivity. Qed.

Lemma inv_getp sugg s g gt : Inv sugg s -> nth_error (gts s) g = Some gt -> getp sugg g = g_params gt.
Proof.
  intros I N. unfold getp. rewrite <- (inv_params _ _ I).
  apply nth_error_nth. rewrite nth_error_map, N. reflexivity.
Qed.

Lemma update_inv sugg s g f : Inv sugg s -> In g (map snd (mp s)) -> (g < length sugg)%nat ->
  exists s', update s g f = Ok s' /\ Inv sugg s'.
Proof.
  intros I Hin Hlt. unfold update.
  destruct (nth_error (gts s) g) as [gt|] eqn:N.
  2:{ apply nth_error_None in N. rewrite (inv_len _ _ I) in N. lia. }
  destruct (finished (g_state gt)); [eauto|].
  destruct (gstate_eqb (f_state f) (g_state gt)); [eauto|].
  eexists. split; [reflexivity|]. destruct I as [Ip In1 In2 Imp Ir]. split; cbn; auto.
  - rewrite <- Ip. eapply map_set_nth_same; eauto.
  - intros g' gt' N' U. assert (g' <> g).
    { intros ->. apply (proj2 (mapped_gid_iff _ _)) in Hin. unfold mapped_gid in *. congruence. }
    rewrite nth_error_set_nth_other in N' by auto. eauto.
Qed.

(* the pigeonhole step: an unmapped name whose origin exists always finds a Running, unmapped goptuna trial with equal parameters *)
Lemma exists_candidate sugg s n p q : Inv sugg s -> ~ In n (map fst (mp s)) ->
  nth_error sugg (origin n) = Some p -> pkey q = pkey p -> find_gid s q <> None.
Proof.
  intros I Hn Hp Hq Hnone. unfold find_gid in Hnone.
  pose proof (find_last_none _ _ _ Hnone) as Hc. cbn in Hc.
  set (cls := fun g : nat => params_eqb p (getp sugg g)).
  set (Mp := filter (fun e : nat * nat => cls (snd e)) (mp s)).
  set (X := origin n :: map origin (map fst Mp)).
  set (Y := map snd Mp).
  assert (HgetO : getp sugg (origin n) = p) by (apply nth_error_nth; exact Hp).
  assert (Hcls : forall x, (x < length sugg)%nat -> cls x = true -> In x Y).
  { intros x Hx Cx. destruct (nth_error (gts s) x) as [gt|] eqn:N.
    2:{ apply nth_error_None in N. rewrite (inv_len _ _ I) in N. lia. }
    specialize (Hc x gt N). unfold candidate in Hc.
    pose proof (inv_getp _ _ _ _ I N) as G.
    assert (P : params_eqb q (g_params gt) = true).
    { apply params_eqb_spec. rewrite Hq, <- G. apply params_eqb_spec. exact Cx. }
    rewrite P, andb_true_r in Hc.
    destruct (mapped_gid (mp s) x) eqn:M.
    - apply (proj1 (mapped_gid_iff _ _)) in M. apply in_map_iff in M. destruct M as (e & E & Ie).
      apply in_map_iff. exists e. split; [exact E|]. apply filter_In. split; [exact Ie|]. rewrite E. exact Cx.
    - rewrite (inv_running _ _ I _ _ N M) in Hc. discriminate Hc. }
  assert (NDX : NoDup X).
  { constructor.
    - intro H. apply in_map_iff in H. destruct H as (m & E & Im). apply origin_inj in E. subst m.
      apply Hn. apply in_map_iff in Im. destruct Im as (e & E & Ie). apply filter_In in Ie.
      apply in_map_iff. exists e. tauto.
    - apply Injective_map_NoDup; [exact origin_inj|]. apply NoDup_map_filter. exact (inv_nd_names _ _ I). }
  assert (INC : incl X Y).
  { intros x [<-|H].
    - apply Hcls.
      + apply nth_error_Some. congruence.
      + unfold cls. rewrite HgetO. apply params_eqb_spec. reflexivity.
    - apply in_map_iff in H. destruct H as (m & <- & Im). apply in_map_iff in Im. destruct Im as ([m' g] & E & Ie).
      cbn in E. subst m'. apply filter_In in Ie. destruct Ie as [Ie Ce]. cbn in Ce.
      destruct (inv_mp _ _ I _ _ Ie) as (Hg & Ho & K). apply Hcls; [exact Ho|].
      unfold cls in *. apply params_eqb_spec. rewrite <- K. apply params_eqb_spec. exact Ce. }
  pose proof (NoDup_incl_length NDX INC) as L. unfold X, Y in L. cbn in L. rewrite !map_length in L. lia.
Qed.

Lemma sync_one_inv sugg s f p : Inv sugg s -> nth_error sugg (origin (f_name f)) = Some p -> pkey (f_params f) = pkey p ->
  exists s', sync_one s f = Ok s' /\ Inv sugg s'.
Proof.
  intros I Hp Hk. unfold sync_one. destruct (lookup_map (f_name f) (mp s)) as [g|] eqn:L.
  - apply lookup_map_in in L. destruct (inv_mp _ _ I _ _ L) as (Hg & _ & _).
    apply update_inv; auto. apply in_map_iff. exists (f_name f, g). auto.
  - apply lookup_map_none in L.
    destruct (find_gid s (f_params f)) as [g|] eqn:F.
    2:{ exfalso. eapply exists_candidate; eauto. }
    unfold find_gid in F. apply find_last_some in F. destruct F as (j & gt & -> & N & C). cbn in N, C.
    unfold candidate in C. apply andb_true_iff in C. destruct C as [C C3]. apply andb_true_iff in C. destruct C as [C1 C2].
    apply negb_true_iff in C2. apply params_eqb_spec in C3.
    assert (Hj : (j < length sugg)%nat).
    { rewrite <- (inv_len _ _ I). apply nth_error_Some. congruence. }
    apply update_inv; cbn.
    + destruct I as [Ip In1 In2 Imp Ir]. split; cbn; auto.
      * rewrite map_app. cbn. apply NoDup_snoc; auto.
      * rewrite map_app. cbn. apply NoDup_snoc; auto. intro H. apply (proj2 (mapped_gid_iff _ _)) in H. congruence.
      * intros n g H. apply in_app_iff in H. destruct H as [H|[[= <- <-]|[]]]; [auto|].
        split; [exact Hj|]. split; [apply nth_error_Some; congruence|].
        assert (G : getp sugg j = g_params gt).
        { unfold getp. rewrite <- Ip. apply nth_error_nth. rewrite nth_error_map, N. reflexivity. }
        rewrite G, <- C3, Hk. f_equal. symmetry. apply nth_error_nth. exact Hp.
      * intros g' gt' N' U. unfold mapped_gid in U. rewrite existsb_app in U. apply orb_false_iff in U. destruct U as [U _].
        eapply Ir; eauto.
    + rewrite map_app, in_app_iff. right. cbn. auto.
    + exact Hj.
Qed.

Definition ftrial_wf (sugg : list params) (f : ftrial) : Prop :=
  exists p, nth_error sugg (origin (f_name f)) = Some p /\ pkey (f_params f) = pkey p.

Lemma sync_inv sugg fs : forall s, Inv sugg s -> Forall (ftrial_wf sugg) fs -> exists s', sync s fs = Ok s' /\ Inv sugg s'.
Proof.
  induction fs as [|f fs IH]; intros s I W; cbn; [eauto|].
  inversion W as [|? ? (p & Hp & Hk) W']; subst.
  destruct (sync_one_inv _ _ _ _ I Hp Hk) as (s1 & -> & I1). apply IH; auto.
Qed.

(* ------------------------------------------------------------------ conversion of well-formed trials *)

Definition good_cond (c : nat) : Prop := c = 0%nat \/ c = 1%nat \/ c = 2%nat \/ c = 4%nat \/ c = 6%nat.

(* A trial of a request is well formed w.r.t. the suggestions made so far:
   - its timestamps parse; its condition is CREATED, RUNNING, SUCCEEDED, FAILED or EARLYSTOPPED;
   - a SUCCEEDED trial carries a parsable objective metric;
   - its name belongs to an earlier suggestion (origin), its assignment texts convert (strconv succeeds, categorical values
     are in the list), and — THE ROUND-TRIP ASSUMPTION — the parameters re-derived from the texts (parse, then ToExternalRepr
     again) are DeepEqual to the parameters goptuna stored for that suggestion. *)
Definition trial_wf (sp : space) (obj : nat) (sugg : list params) (k : ktrial) : Prop :=
  k_ts_ok k = true /\ good_cond (k_cond k) /\
  (k_cond k = 2%nat -> exists v, final_metric obj (k_metrics k) = Ok v) /\
  exists m p, conv_assigns sp (k_assigns k) = Ok m /\ nth_error sugg (origin (k_name k)) = Some p /\
              pkey (params_of sp m) = pkey p.

Lemma conv_trial_ok sp obj sugg k : trial_wf sp obj sugg k ->
  exists f, conv_trial sp obj k = Ok f /\ ftrial_wf sugg f.
Proof.
  intros (T & C & M & m & p & A & O & K). unfold conv_trial. rewrite T. cbn [negb].
  assert (exists gs, to_gstate (k_cond k) = Ok gs /\ (gstate_eqb gs GComplete = true -> k_cond k = 2%nat)) as (gs & G & G2).
  { destruct C as [-> | [-> | [-> | [-> | ->]]]]; cbn; eexists; split; try reflexivity; intro H; try discriminate H; reflexivity. }
  rewrite G. destruct (gstate_eqb gs GComplete) eqn:E.
  - destruct (M (G2 eq_refl)) as (v & ->). rewrite A. eexists. split; [reflexivity|]. exists p. cbn. auto.
  - rewrite A. eexists. split; [reflexivity|]. exists p. cbn. auto.
Qed.

Lemma conv_trials_ok sp obj sugg kts : Forall (trial_wf sp obj sugg) kts ->
  exists fs, conv_trials sp obj kts = Ok fs /\ Forall (ftrial_wf sugg) fs.
Proof.
  induction kts as [|k kts IH]; intro W; cbn; [eauto|].
  inversion W as [|? ? Wk W']; subst. destruct (conv_trial_ok _ _ _ _ Wk) as (f & -> & Wf).
  destruct (IH W') as (fs & -> & Wfs). eauto.
Qed.

(* ------------------------------------------------------------------ sampling *)

(* the replies of the sampling loop do not depend on the state *)
Fixpoint sample_reps (sp : space) (n : nat) (draws : list (list (nat * draw))) : outcome reply :=
  match n with
  | O => Ok []
  | S n' =>
      match draws with
      | [] => Err 9
      | dr :: rest =>
          match sample_params sp dr with
          | Ok a => match sample_reps sp n' rest with Ok r => Ok (a :: r) | Err e => Err e | Crash c => Crash c end
          | Err e => Err e
          | Crash c => Crash c
          end
      end
  end.

Definition aparams (a : list (nat * rv)) : params := map (fun e => Some (snd e)) a.

Lemma inv_append sugg s a : Inv sugg s -> Inv (sugg ++ [aparams a]) (St (gts s ++ [GT (aparams a) GRunning 0]) (mp s)).
Proof.
  intros [Ip In1 In2 Imp Ir]. split; cbn; auto.
  - rewrite map_app, Ip. reflexivity.
  - intros n g H. destruct (Imp _ _ H) as (Hg & Ho & K). rewrite app_length. cbn.
    split; [lia|]. split; [lia|]. unfold getp in *. rewrite !app_nth1 by lia. exact K.
  - intros g gt N U. destruct (Nat.lt_ge_cases g (length (gts s))) as [L|L].
    + rewrite nth_error_app1 in N by exact L. eauto.
    + rewrite nth_error_app2 in N by exact L. destruct (g - length (gts s))%nat as [|[|x]]; cbn in N; try discriminate N.
      injection N as <-. reflexivity.
Qed.

Lemma sample_n_inv sp n : forall draws s rep sugg, sample_reps sp n draws = Ok rep -> Inv sugg s ->
  exists s', sample_n sp s n draws = Ok (s', rep) /\ Inv (sugg ++ map aparams rep) s'.
Proof.
  induction n as [|n IH]; intros draws s rep sugg H I; cbn in *.
  - injection H as <-. cbn. rewrite app_nil_r. eauto.
  - destruct draws as [|dr rest]; [discriminate|]. destruct (sample_params sp dr) as [a| |]; try discriminate.
    destruct (sample_reps sp n rest) as [r| |] eqn:R; try discriminate. injection H as <-.
    destruct (IH _ _ _ _ R (inv_append _ _ a I)) as (s' & E & I').
    change (aparams a) with (map (fun e : nat * rv => Some (snd e)) a) in E. rewrite E. eexists. split; [reflexivity|].
    cbn. rewrite <- app_assoc in I'. exact I'.
Qed.

(* ------------------------------------------------------------------ histories *)

Definition round := (list ktrial * nat * list (list (nat * draw)))%type.

Fixpoint run (sp : space) (obj : nat) (s : st) (h : list round) : outcome st :=
  match h with
  | [] => Ok s
  | (kts, n, dr) :: h' =>
      match get_suggestions sp obj s kts n dr with
      | Ok (s', _) => run sp obj s' h'
      | Err e => Err e
      | Crash c => Crash c
      end
  end.

(* every request feeds back well-formed trials (w.r.t. everything suggested before it), and the sampler delivers draws
   on which sampleNextParam itself does not fail (the samplers are not modelled) *)
Fixpoint hist_wf (sp : space) (obj : nat) (sugg : list params) (h : list round) : Prop :=
  match h with
  | [] => True
  | (kts, n, dr) :: h' =>
      Forall (trial_wf sp obj sugg) kts /\
      exists rep, sample_reps sp n dr = Ok rep /\ hist_wf sp obj (sugg ++ map aparams rep) h'
  end.

Lemma run_ok sp obj h : forall sugg s, Inv sugg s -> hist_wf sp obj sugg h -> exists s', run sp obj s h = Ok s'.
Proof.
  induction h as [|[[kts n] dr] h IH]; intros sugg s I W; cbn; [eauto|].
  destruct W as (Wk & rep & R & W'). unfold get_suggestions.
  destruct (conv_trials_ok _ _ _ _ Wk) as (fs & -> & Wf).
  destruct (sync_inv _ _ _ I Wf) as (s1 & -> & I1).
  destruct (sample_n_inv _ _ _ _ _ _ R I1) as (s2 & -> & I2). eauto.
Qed.

(* no request of a well-formed history fails; in particular syncTrials never returns "Same parameter is not found" (Err 3) *)
Lemma history sp obj h : hist_wf sp obj [] h -> exists s, run sp obj init h = Ok s.
Proof. intro W. eapply run_ok; eauto. apply inv_init. Qed.

(* the mapping step alone, for any request order and without any assumption on the sampler *)
Lemma sync_never_fails sp obj sugg s kts : Inv sugg s -> Forall (trial_wf sp obj sugg) kts ->
  exists fs s', conv_trials sp obj kts = Ok fs /\ sync s fs = Ok s' /\ Inv sugg s'.
Proof.
  intros I W. destruct (conv_trials_ok _ _ _ _ W) as (fs & C & Wf). destruct (sync_inv _ _ _ I Wf) as (s' & S & I'). eauto.
Qed.

End History.

(* ------------------------------------------------------------------ shape of replies *)

Lemma sample_params_names sp dr : forall a, sample_params sp dr = Ok a -> map fst a = map fst sp.
Proof.
  induction sp as [|[n ds] sp IH]; cbn; intros a H; [injection H as <-; reflexivity|].
  destruct (lookup_draw n dr); [|discriminate]. destruct (sample_one ds d); try discriminate.
  destruct (sample_params sp dr); try discriminate. injection H as <-. cbn. f_equal. auto.
Qed.

Lemma sample_n_shape sp n : forall s draws s' rep, sample_n sp s n draws = Ok (s', rep) ->
  length rep = n /\ Forall (fun a => map fst a = map fst sp) rep.
Proof.
  induction n as [|n IH]; cbn; intros s draws s' rep H.
  - injection H as _ <-. auto.
  - destruct draws as [|dr rest]; [discriminate|]. destruct (sample_params sp dr) as [a| |] eqn:A; try discriminate.
    destruct (sample_n sp _ n rest) as [[s2 r]| |] eqn:R; try discriminate. injection H as _ <-.
    destruct (IH _ _ _ _ R) as (L & F). cbn. split; [congruence|]. constructor; auto. eapply sample_params_names; eauto.
Qed.

Lemma shape sp obj s kts n draws s' rep : get_suggestions sp obj s kts n draws = Ok (s', rep) ->
  length rep = n /\ Forall (fun a => map fst a = map fst sp) rep.
Proof.
  unfold get_suggestions. destruct (conv_trials sp obj kts); try discriminate. destruct (sync s a); try discriminate.
  apply sample_n_shape.
Qed.

(* REFUTED for the other conditions: the service's own first suggestion fed back as KILLED (3) makes the next request fail;
   likewise METRICSUNAVAILABLE (5) and UNKNOWN (7) *)
Lemma killed_refuted : forall c, c = 3%nat \/ c = 5%nat \/ c = 7%nat ->
  let sp := [(0%nat, DInt 0 5)] in
  let d := [[(0%nat, Draw 3 0 0)]] in
  exists s1, get_suggestions sp 0%nat init [] 1 d = Ok (s1, [[(0%nat, RInt 3)]]) /\
    get_suggestions sp 0%nat s1 [KT 0 c true [] [KA 0 "3" (Some 3) None]] 1 d = Err 2.
Proof. intros c [-> | [-> | ->]]; eexists; split; vm_compute; reflexivity. Qed.
