(* C04 / C16: the at-rest clause of the quiescence monitor (Corr/WorldMon.verdict_at_rest, used by quiescent_ok and
   restart_progress) holds on the model's own projected states: whenever the final state of a history is the projection of a
   quiescent reachable world, the boolean clause evaluates to true.  The bridge is env_done_project: the monitor's boolean
   "the environment is done" on a projection implies the model's WorldQuiet.env_done on the world. *)
From KV Require Import Base.Prelude Base.Cond Model.World Proofs.WorldPlan Proofs.WorldInv Proofs.WorldInv2 Proofs.WorldInv5 Proofs.WorldThm Proofs.WorldQuiet
  Proofs.WorldNames Corr.WorldC Corr.WorldMon Proofs.MonSound.
Open Scope Z_scope.

Lemma env_done_project w : WorldMon.env_done (project w) = true -> WorldQuiet.env_done w.
Proof.
  unfold WorldMon.env_done. intro H.
  apply andb_prop in H as [H Hs]. apply andb_prop in H as [Hj Ht].
  rewrite forallb_forall in Hj. rewrite forallb_forall in Ht.
  split; [|split].
  - intros j Ij E. specialize (Hj j (proj2 (in_sort_jobs _ _) Ij)). rewrite E in Hj. discriminate Hj.
  - intros t It.
    specialize (Ht _ (in_map (fun t => {| pt_name := t_name t; pt_conds := t_conds t; pt_obs := t_obs t; pt_ctime := is_some (t_ctime t);
                                          pt_fin := t_fin t; pt_deleting := t_deleting t |}) _ _ It)).
    cbn [pt_name project pj_db] in Ht. unfold pt_is in Ht. cbn [pt_conds] in Ht.
    destruct (db_get (t_name t) (w_db w)) as [v|]; [|discriminate Ht].
    exists v. split; [reflexivity|]. intros Es Ev. subst v. unfold t_is in Es. rewrite Es in Ht. discriminate Ht.
  - intros s Hs' Nc Hd. cbn [project pj_sug pj_infra] in Hs. rewrite Hs', Hd in Hs.
    unfold ps_is in Hs. cbn [ps_conds] in Hs. unfold s_completed, s_is in Nc. cbn [orb] in Hs. rewrite Nc in Hs. discriminate Hs.
Qed.

(* the clause on a projected quiescent reachable state *)
Theorem verdict_at_rest_model c acts :
  valid_cfg c -> no_teardown acts -> fresh_run c acts -> quiescent (run c acts) ->
  forall k, last_state k = project (run c acts) -> verdict_at_rest k = true.
Proof.
  intros V NT F Qu k Hk. unfold verdict_at_rest. rewrite Hk.
  destruct (WorldMon.env_done (project (run c acts))) eqn:En; [|reflexivity].
  cbn [negb orb]. apply env_done_project in En.
  cbn [project pj_exp]. destruct (w_exp (run c acts)) as [e|] eqn:He; [|reflexivity].
  cbn [pe_max]. destruct (e_max e) as [m|] eqn:Hm; [|reflexivity].
  cbn [is_some negb orb].
  pose proof (no_wedge_fresh c acts e m V NT F Qu En He Hm) as C.
  unfold pe_completed, pe_is. cbn [pe_conds]. exact C.
Qed.

(* hence both uses of the clause *)
Corollary restart_progress_model c acts :
  valid_cfg c -> no_teardown acts -> fresh_run c acts -> quiescent (run c acts) ->
  forall k, last_state k = project (run c acts) -> restart_progress k = true.
Proof.
  intros V NT F Qu k Hk. unfold restart_progress. destruct (k_quiet k); [|reflexivity].
  rewrite (verdict_at_rest_model c acts V NT F Qu k Hk). apply orb_true_r.
Qed.

(* Non-vacuity: the final state of the F18 history (751 actions, a raise of maxTrialCount) meets every premise, its environment
   is done in the monitor's boolean sense and its experiment has a budget, so the clause really demands the verdict there. *)
From KV Require Import Proofs.F18.
Example at_rest_premises_hold :
  valid_cfg f18_cfg /\ no_teardown f18_acts /\ fresh_run f18_cfg f18_acts /\ quiescent (run f18_cfg f18_acts) /\
  WorldMon.env_done (project (run f18_cfg f18_acts)) = true /\
  exists e, pj_exp (project (run f18_cfg f18_acts)) = Some e /\ pe_max e = Some 2 /\ pe_completed e = true.
Proof.
  destruct f18_premises_hold as (V&NT&_&Q&_&_).
  split; [exact V|]. split; [exact NT|]. split; [exact f18_fresh|]. split; [exact Q|].
  split; [vm_compute; reflexivity|].
  eexists. split; [vm_compute; reflexivity|]. split; vm_compute; reflexivity.
Qed.

(* ------------------------------------------------------------------ restart_taken *)
From KV Require Import Proofs.WorldRest2.

(* over runs, with the configuration of the run *)
Theorem no_restart_left_at_rest c acts e :
  valid_cfg c -> no_teardown acts -> quiescent (run c acts) -> w_exp (run c acts) = Some e -> restart_enabled_e c e = false.
Proof.
  intros V NT Q He. assert (Cf : w_cfg (run c acts) = c) by (unfold run; now rewrite run_cfg).
  rewrite <- Cf. exact (quiescent_no_restart _ e (Inv_reachable c acts V NT) Q He).
Qed.

(* the at-rest clause "no restart is left enabled" on a projected quiescent reachable state *)
Theorem restart_taken_model c acts :
  valid_cfg c -> no_teardown acts -> quiescent (run c acts) ->
  forall k, k_cfg k = c -> last_state k = project (run c acts) -> restart_taken k = true.
Proof.
  intros V NT Qu k Hc Hk. unfold restart_taken. destruct (k_quiet k); [|reflexivity].
  rewrite Hk, Hc. assert (Cf : w_cfg (run c acts) = c) by (unfold run; now rewrite run_cfg).
  destruct (w_exp (run c acts)) as [e|] eqn:He.
  - rewrite <- Cf at 1. rewrite (restart_enabled_project _ e He).
    rewrite (quiescent_no_restart _ e (Inv_reachable c acts V NT) Qu He). reflexivity.
  - unfold restart_enabled. cbn [project pj_exp]. now rewrite He.
Qed.

(* Non-vacuity: the F18 history contains a raise of maxTrialCount and ends quiescent with an experiment. *)
Example restart_taken_premises_hold :
  valid_cfg f18_cfg /\ no_teardown f18_acts /\ quiescent (run f18_cfg f18_acts) /\
  existsb (fun a => match a with UserRaiseMax _ => true | _ => false end) f18_acts = true /\
  exists e, w_exp (run f18_cfg f18_acts) = Some e /\ e_max e = Some 2.
Proof.
  destruct f18_premises_hold as (V&NT&Ra&Q&_&e&s&He&Hm&_).
  split; [exact V|]. split; [exact NT|]. split; [exact Q|]. split; [exact Ra|]. exists e. split; assumption.
Qed.
