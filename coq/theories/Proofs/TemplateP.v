(* Proofs about Model/Template.v, part 1: the text level, over the abstract alphabet.
   Main results: [substitution] (every replacement order yields the simultaneous substitution) and
   [no_leftover] (no "${trialParameters." remains). *)
From KV Require Import Base.Prelude Model.Template.
From Coq Require Import Permutation.

Section GenP.
Variable A : Type.
Variable eqb : A -> A -> bool.
Hypothesis eqb_spec : forall a b, reflect (a = b) (eqb a b).
Variables d lb rb : A.
Variable pre : list A.
Hypothesis d_lb : d <> lb.
Hypothesis lb_rb : lb <> rb.
Hypothesis d_rb : d <> rb.
Hypothesis pre_no_d : ~ In d pre.

Local Notation prefixb := (prefixb A eqb).
Local Notation repl := (repl A eqb).
Local Notation ph := (ph A d lb rb pre).
Local Notation render := (render A d lb rb pre).
Local Notation seqb := (seqb A eqb).
Local Notation lookup := (lookup A eqb).
Local Notation set := (set A eqb).
Local Notation subst_all := (subst_all A eqb).
Local Notation subst_one := (subst_one A eqb).
Local Notation render_subst := (render_subst A eqb d lb rb pre).
Local Notation replace_seq := (replace_seq A eqb d lb rb pre).
Local Notation diverges := (diverges A eqb).
Local Notation lit_ok := (lit_ok A eqb d lb pre).
Local Notation name_okb := (name_okb A eqb lb rb).
Local Notation val_okb := (val_okb A eqb d).
Local Notation chunk_okb := (chunk_okb A eqb d lb rb pre).
Local Notation occursb := (occursb A eqb).
Local Notation ph_names := (ph_names A).
Local Notation declaredb := (declaredb A eqb).
Local Notation chunk := (chunk A).
Local Notation smap := (smap A).

Definition name_ok (n : list A) : Prop := ~ In lb n /\ ~ In rb n.
Definition val_ok (v : list A) : Prop := ~ In d v.

Definition chunk_ok (c : chunk) : Prop :=
  match c with
  | Lit l => lit_ok l = true
  | Val v => val_ok v
  | Ph n => name_ok n
  end.

Definition all_ok (cs : list chunk) : Prop := Forall chunk_ok cs.
Definition env_ok (e : smap) : Prop := Forall (fun nv => name_ok (fst nv) /\ val_ok (snd nv)) e.
Definition declared (cs : list chunk) (e : smap) : Prop := forall n, In n (ph_names cs) -> lookup n e <> None.

Lemma eqb_refl a : eqb a a = true.
Proof. destruct (eqb_spec a a); congruence. Qed.
Lemma eqb_neq a b : a <> b -> eqb a b = false.
Proof. intro H; destruct (eqb_spec a b); congruence. Qed.
Lemma eqb_iff a b : eqb a b = true <-> a = b.
Proof. destruct (eqb_spec a b); split; congruence. Qed.

Lemma seqb_spec a b : seqb a b = true <-> a = b.
Proof. apply list_eqb_spec. exact eqb_iff. Qed.
Lemma seqb_refl a : seqb a a = true.
Proof. now apply seqb_spec. Qed.
Lemma seqb_neq a b : a <> b -> seqb a b = false.
Proof. intro H. destruct (seqb a b) eqn:E; [apply seqb_spec in E; contradiction|reflexivity]. Qed.

(* boolean forms used by the monitor *)
Lemma name_okb_spec n : name_okb n = true <-> name_ok n.
Proof.
  unfold name_okb, name_ok. rewrite forallb_forall. split.
  - intro H. split; intro I; apply H in I; apply andb_prop in I as [I1 I2];
      rewrite eqb_refl in *; discriminate.
  - intros [H1 H2] c I. destruct (eqb_spec c lb) as [->|]; [contradiction|].
    destruct (eqb_spec c rb) as [->|]; [contradiction|]. reflexivity.
Qed.

Lemma val_okb_spec v : val_okb v = true <-> val_ok v.
Proof.
  unfold val_okb, val_ok. rewrite forallb_forall. split.
  - intros H I. apply H in I. rewrite eqb_refl in I. discriminate.
  - intros H c I. destruct (eqb_spec c d) as [->|]; [contradiction|reflexivity].
Qed.

Lemma chunk_okb_spec c : chunk_okb c = true <-> chunk_ok c.
Proof. destruct c; simpl; [tauto|apply val_okb_spec|apply name_okb_spec]. Qed.

Lemma all_okb_spec cs : forallb chunk_okb cs = true <-> all_ok cs.
Proof.
  unfold all_ok. rewrite forallb_forall, Forall_forall. split; intros H c I; apply chunk_okb_spec; auto.
Qed.

(* ------------------------------------------------------------------ scanning *)

Lemma prefixb_app p r : prefixb p (p ++ r) = true.
Proof. induction p as [|a p IH]; simpl; [reflexivity|]. now rewrite eqb_refl, IH. Qed.

Lemma prefixb_app_l p q s : prefixb (p ++ q) (p ++ s) = prefixb q s.
Proof. induction p as [|a p IH]; simpl; [reflexivity|]. now rewrite eqb_refl, IH. Qed.

Lemma repl_skip p v s1 s2 : repl p v (length s1) (s1 ++ s2) = repl p v 0 s2.
Proof. induction s1 as [|a s1 IH]; simpl; [reflexivity|exact IH]. Qed.

(* names without '}' : equal iff one followed by '}' is a prefix of the other followed by '}' *)
Lemma name_prefix_eq n m r : name_ok n -> name_ok m ->
  prefixb (n ++ [rb]) (m ++ rb :: r) = true -> n = m.
Proof.
  revert m; induction n as [|a n IH]; intros m [Hn1 Hn2] [Hm1 Hm2] H.
  - destruct m as [|b m]; [reflexivity|]. simpl in H.
    destruct (eqb_spec rb b) as [<-|]; [|discriminate]. exfalso; apply Hm2; now left.
  - destruct m as [|b m]; simpl in H.
    + destruct (eqb_spec a rb) as [->|]; [|discriminate]. exfalso; apply Hn2; now left.
    + destruct (eqb_spec a b) as [->|]; [|discriminate]. simpl in H. f_equal.
      apply IH; try split; try assumption; intro X; [apply Hn1|apply Hn2|apply Hm1|apply Hm2]; now right.
Qed.

Lemma ph_prefix_ph n m r : name_ok n -> name_ok m ->
  prefixb (ph n) (ph m ++ r) = true -> n = m.
Proof.
  intros Hn Hm. unfold Template.ph. simpl. rewrite !eqb_refl. simpl.
  rewrite <- !app_assoc. rewrite prefixb_app_l. simpl. apply name_prefix_eq; assumption.
Qed.

Lemma prefixb_head_neq p c0 c s : c <> c0 -> prefixb (c0 :: p) (c :: s) = false.
Proof. intro H. simpl. rewrite (eqb_neq c0 c); [reflexivity|congruence]. Qed.

Lemma diverges_no_prefix (p0 : list A) t r q : diverges t p0 = true -> prefixb (p0 ++ q) (t ++ r) = false.
Proof.
  revert t; induction p0 as [|b p IH]; intros t H.
  - destruct t; discriminate.
  - destruct t as [|a t]; [discriminate|]. simpl in *.
    destruct (eqb_spec a b) as [->|Hab].
    + rewrite eqb_refl. simpl in *. apply IH. exact H.
    + rewrite (eqb_neq b a); [reflexivity|congruence].
Qed.

(* at a position inside literal text nothing that starts with "${trialParameters." matches, whatever follows the literal *)
Lemma lit_head_no_open a l r q : lit_ok (a :: l) = true -> prefixb (d :: lb :: pre ++ q) (a :: l ++ r) = false.
Proof.
  intro H. simpl in H. apply andb_prop in H as [H1 _].
  destruct (eqb_spec a d) as [->|Had]; [|apply prefixb_head_neq; assumption].
  destruct l as [|b t]; [discriminate|].
  simpl. rewrite eqb_refl. simpl.
  destruct (eqb_spec b lb) as [->|Hb].
  - rewrite eqb_refl. simpl. apply diverges_no_prefix. exact H1.
  - rewrite (eqb_neq lb b); [reflexivity|congruence].
Qed.

Lemma lit_ok_tail a l : lit_ok (a :: l) = true -> lit_ok l = true.
Proof. intro H. simpl in H. now apply andb_prop in H as [_ H]. Qed.

Lemma repl_lit n v l r : lit_ok l = true ->
  repl (ph n) v 0 (l ++ r) = l ++ repl (ph n) v 0 r.
Proof.
  induction l as [|a l IH]; intro H; [reflexivity|].
  change ((a :: l) ++ r) with (a :: (l ++ r)).
  cbn [Template.repl].
  assert (E : prefixb (ph n) (a :: l ++ r) = false) by (apply (lit_head_no_open a l r (n ++ [rb])); exact H).
  rewrite E. simpl. f_equal. apply IH. eapply lit_ok_tail; eassumption.
Qed.

Lemma repl_val n v w r : val_ok w ->
  repl (ph n) v 0 (w ++ r) = w ++ repl (ph n) v 0 r.
Proof.
  induction w as [|a w IH]; intro H; [reflexivity|].
  change ((a :: w) ++ r) with (a :: (w ++ r)). cbn [Template.repl].
  unfold Template.ph at 1. rewrite prefixb_head_neq; [|intro E; apply H; left; congruence].
  simpl. f_equal. apply IH. intro X; apply H; now right.
Qed.

Lemma lit_ok_nod s t : ~ In d s -> lit_ok t = true -> lit_ok (s ++ t) = true.
Proof.
  induction s as [|a s IH]; intros Hs Ht; [exact Ht|]. simpl.
  rewrite (eqb_neq a d); [|intro E; apply Hs; now left]. simpl.
  apply IH; [intro X; apply Hs; now right|exact Ht].
Qed.

Lemma lit_ok_name m : name_ok m -> lit_ok (m ++ [rb]) = true.
Proof.
  intros [H1 H2]. induction m as [|a m IH]; simpl.
  - rewrite (eqb_neq rb d); [reflexivity|congruence].
  - rewrite IH; [|intro X; apply H1; now right|intro X; apply H2; now right].
    rewrite andb_true_r. destruct (eqb_spec a d) as [->|]; [|reflexivity].
    destruct m as [|b m]; simpl.
    + rewrite (eqb_neq rb lb); [reflexivity|congruence].
    + rewrite (eqb_neq b lb); [reflexivity|]. intro E; apply H1; right; left; congruence.
Qed.

Lemma repl_step_false p v c s : prefixb p (c :: s) = false -> repl p v 0 (c :: s) = c :: repl p v 0 s.
Proof. intro H. cbn [Template.repl]. now rewrite H. Qed.
Lemma repl_step_true p v c s : prefixb p (c :: s) = true -> repl p v 0 (c :: s) = v ++ repl p v (length p - 1) s.
Proof. intro H. cbn [Template.repl]. now rewrite H. Qed.
Lemma ph_cons m r : ph m ++ r = d :: ((lb :: pre ++ m ++ [rb]) ++ r).
Proof. reflexivity. Qed.

(* the rest of a placeholder after its '$' is inert text *)
Lemma ph_tail_lit_ok m : name_ok m -> lit_ok (lb :: pre ++ m ++ [rb]) = true.
Proof.
  intro Hm. change (lb :: pre ++ m ++ [rb]) with ((lb :: pre) ++ m ++ [rb]).
  apply lit_ok_nod; [|apply lit_ok_name; exact Hm].
  intros [X|X]; [congruence|exact (pre_no_d X)].
Qed.

Lemma repl_other_ph n v m r : name_ok n -> name_ok m -> n <> m ->
  repl (ph n) v 0 (ph m ++ r) = ph m ++ repl (ph n) v 0 r.
Proof.
  intros Hn Hm Hne.
  assert (P : prefixb (ph n) (ph m ++ r) = false).
  { destruct (prefixb (ph n) (ph m ++ r)) eqn:P; [|reflexivity].
    exfalso. apply Hne. eapply ph_prefix_ph; eassumption. }
  rewrite ph_cons in *. rewrite repl_step_false by exact P. f_equal.
  rewrite repl_lit; [reflexivity|]. apply ph_tail_lit_ok. exact Hm.
Qed.

Lemma repl_same_ph n v r :
  repl (ph n) v 0 (ph n ++ r) = v ++ repl (ph n) v 0 r.
Proof.
  assert (P := prefixb_app (ph n) r). rewrite ph_cons in *.
  rewrite repl_step_true by exact P. f_equal.
  assert (L: length (ph n) - 1 = length (lb :: pre ++ n ++ [rb])) by (unfold Template.ph; simpl; lia).
  rewrite L. apply repl_skip.
Qed.

(* ------------------------------------------------------------------ one replacement = substitution of one name *)

Theorem subst_one_correct n v cs : name_ok n -> all_ok cs ->
  repl (ph n) v 0 (render cs) = render (subst_one n v cs).
Proof.
  intros Hn H. induction H as [|c cs Hc Hcs IH]; [reflexivity|].
  destruct c as [l|w|m]; cbn [Template.render Template.subst_one]; cbn [chunk_ok] in Hc.
  - rewrite repl_lit by exact Hc. now rewrite IH.
  - rewrite repl_val by exact Hc. now rewrite IH.
  - destruct (seqb m n) eqn:T.
    + apply seqb_spec in T. subst m. cbn [Template.render]. rewrite repl_same_ph. now rewrite IH.
    + assert (n <> m) by (intros ->; rewrite seqb_refl in T; discriminate).
      cbn [Template.render]. rewrite repl_other_ph by assumption. now rewrite IH.
Qed.

Lemma subst_one_ok n v cs : val_ok v -> all_ok cs -> all_ok (subst_one n v cs).
Proof.
  intros Hv H. induction H as [|c cs Hc Hcs IH]; [constructor|].
  destruct c as [l|w|m]; cbn [Template.subst_one]; constructor; try assumption.
  destruct (seqb m n); [exact Hv|exact Hc].
Qed.

(* ------------------------------------------------------------------ maps *)

Lemma lookup_Some_In n v (e : smap) : lookup n e = Some v -> In (n, v) e.
Proof.
  induction e as [|[m w] e IH]; simpl; [discriminate|].
  destruct (seqb n m) eqn:E.
  - apply seqb_spec in E. subst. intros [= ->]. now left.
  - intro H. right. auto.
Qed.

Lemma lookup_None n (e : smap) : lookup n e = None <-> ~ In n (map fst e).
Proof.
  induction e as [|[m w] e IH]; simpl; [tauto|].
  destruct (seqb n m) eqn:E.
  - apply seqb_spec in E. subst. split; [discriminate|]. intro H. exfalso. apply H. now left.
  - rewrite IH. split; [|tauto]. intros H [X|X]; [subst; rewrite seqb_refl in E; discriminate|contradiction].
Qed.

Lemma lookup_In n v (e : smap) : NoDup (map fst e) -> In (n, v) e -> lookup n e = Some v.
Proof.
  induction e as [|[m w] e IH]; simpl; [intros _ []|].
  intros ND [[= -> ->]|I].
  - now rewrite seqb_refl.
  - inversion ND as [|? ? NI ND']; subst. destruct (seqb n m) eqn:E.
    + apply seqb_spec in E. subst. exfalso. apply NI. apply (in_map fst) in I. exact I.
    + auto.
Qed.

Lemma lookup_perm n (e1 e2 : smap) : Permutation e1 e2 -> NoDup (map fst e2) -> lookup n e1 = lookup n e2.
Proof.
  intros P ND2.
  assert (ND1 : NoDup (map fst e1)).
  { eapply Permutation_NoDup; [|exact ND2]. apply Permutation_map. now apply Permutation_sym. }
  destruct (lookup n e1) as [v|] eqn:L1.
  - symmetry. apply lookup_In; [assumption|]. eapply Permutation_in; [exact P|]. now apply lookup_Some_In.
  - destruct (lookup n e2) as [v|] eqn:L2; [|reflexivity].
    apply lookup_Some_In in L2. eapply Permutation_in in L2; [|apply Permutation_sym; exact P].
    apply lookup_In in L2; [congruence|assumption].
Qed.

Lemma lookup_set_same n v (e : smap) : lookup n (set n v e) = Some v.
Proof.
  induction e as [|[m w] e IH]; simpl; [now rewrite seqb_refl|].
  destruct (seqb n m) eqn:E; simpl; rewrite E; [reflexivity|exact IH].
Qed.

Lemma lookup_set_other n m v (e : smap) : m <> n -> lookup m (set n v e) = lookup m e.
Proof.
  intro H. induction e as [|[k w] e IH]; simpl.
  - now rewrite seqb_neq.
  - destruct (seqb n k) eqn:E; simpl.
    + apply seqb_spec in E. subst k. now rewrite seqb_neq.
    + destruct (seqb m k); [reflexivity|exact IH].
Qed.

Lemma set_keys n v (e : smap) k : In k (map fst (set n v e)) <-> k = n \/ In k (map fst e).
Proof.
  induction e as [|[m w] e IH]; simpl; [intuition|].
  destruct (seqb n m) eqn:E; simpl.
  - apply seqb_spec in E. subst. intuition.
  - rewrite IH. intuition.
Qed.

Lemma set_NoDup n v (e : smap) : NoDup (map fst e) -> NoDup (map fst (set n v e)).
Proof.
  induction e as [|[m w] e IH]; simpl; intro ND.
  - constructor; [intros []|constructor].
  - inversion ND as [|? ? NI ND']; subst. destruct (seqb n m) eqn:E; simpl.
    + constructor; assumption.
    + constructor; [|auto]. rewrite set_keys. intros [->|X]; [rewrite seqb_refl in E; discriminate|contradiction].
Qed.

Lemma set_values_ok (P : list A -> Prop) n v (e : smap) :
  P v -> Forall (fun nv => P (snd nv)) e -> Forall (fun nv => P (snd nv)) (set n v e).
Proof.
  intros Hv H. induction H as [|[m w] e Hm He IH]; simpl; [repeat constructor; exact Hv|].
  destruct (seqb n m); constructor; auto.
Qed.

(* ------------------------------------------------------------------ every order = simultaneous substitution *)

Lemma subst_all_nil cs : subst_all [] cs = cs.
Proof. induction cs as [|[l|w|m] cs IH]; simpl; now rewrite ?IH. Qed.

Lemma subst_all_cons n v (e : smap) cs : lookup n e = None ->
  subst_all e (subst_one n v cs) = subst_all ((n, v) :: e) cs.
Proof.
  intro HN. induction cs as [|[l|w|m] cs IH]; cbn [Template.subst_all Template.subst_one]; try (now rewrite IH); [reflexivity|].
  cbn [Template.lookup]. destruct (seqb m n) eqn:E; cbn [Template.subst_all]; now rewrite IH.
Qed.

Lemma replace_seq_correct (ord : smap) : forall cs, all_ok cs -> env_ok ord -> NoDup (map fst ord) ->
  replace_seq ord (render cs) = render (subst_all ord cs).
Proof.
  induction ord as [|[n v] ord IH]; intros cs Hcs He ND.
  - simpl. now rewrite subst_all_nil.
  - unfold Template.replace_seq. cbn [fold_left fst snd].
    inversion He as [|? ? [Hn Hv] He']; subst. inversion ND as [|? ? NI ND']; subst. cbn [fst snd] in *.
    rewrite subst_one_correct by assumption.
    fold (replace_seq ord (render (subst_one n v cs))).
    rewrite IH; [|apply subst_one_ok; assumption|assumption|assumption].
    rewrite subst_all_cons; [reflexivity|]. now apply lookup_None.
Qed.

Lemma subst_all_ext (e1 e2 : smap) cs : (forall n, lookup n e1 = lookup n e2) -> subst_all e1 cs = subst_all e2 cs.
Proof. intro H. induction cs as [|[l|w|m] cs IH]; simpl; rewrite ?IH, ?H; reflexivity. Qed.

(* C02_substitution, alphabet-generic form *)
Theorem substitution : forall (cs : list chunk) (env ord : smap),
  all_ok cs -> env_ok env -> NoDup (map fst env) -> Permutation ord env ->
  replace_seq ord (render cs) = render_subst env cs.
Proof.
  intros cs env ord Hcs He ND P. unfold Template.render_subst.
  rewrite replace_seq_correct.
  - f_equal. apply subst_all_ext. intro n. now apply lookup_perm.
  - assumption.
  - unfold env_ok in *. rewrite Forall_forall in *. intros x I. apply He. eapply Permutation_in; eassumption.
  - eapply Permutation_NoDup; [|exact ND]. apply Permutation_map. now apply Permutation_sym.
Qed.

(* substitution is local: it distributes over concatenation (JSON/YAML structure text between string leaves
   is just more literal text) *)
Lemma render_app cs1 cs2 : render (cs1 ++ cs2) = render cs1 ++ render cs2.
Proof. induction cs1 as [|[l|w|m] cs1 IH]; simpl; rewrite ?IH, <- ?app_assoc; reflexivity. Qed.

Lemma render_subst_app e cs1 cs2 : render_subst e (cs1 ++ cs2) = render_subst e cs1 ++ render_subst e cs2.
Proof.
  unfold Template.render_subst. rewrite <- render_app. f_equal.
  induction cs1 as [|[l|w|m] cs1 IH]; simpl; now rewrite ?IH.
Qed.

(* ------------------------------------------------------------------ nothing left over *)

Local Notation opn := (d :: lb :: pre).

Lemma occurs_lit l r : lit_ok l = true -> occursb opn (l ++ r) = occursb opn r.
Proof.
  induction l as [|a l IH]; intro H; [reflexivity|].
  change ((a :: l) ++ r) with (a :: (l ++ r)). cbn [Template.occursb].
  assert (E := lit_head_no_open a l r [] H). rewrite app_nil_r in E. rewrite E. simpl.
  apply IH. eapply lit_ok_tail; eassumption.
Qed.

Lemma occurs_val w r : val_ok w -> occursb opn (w ++ r) = occursb opn r.
Proof.
  induction w as [|a w IH]; intro H; [reflexivity|].
  change ((a :: w) ++ r) with (a :: (w ++ r)). cbn [Template.occursb].
  rewrite prefixb_head_neq; [|intro E; apply H; left; congruence]. simpl.
  apply IH. intro X; apply H; now right.
Qed.

Lemma env_ok_lookup (e : smap) n v : env_ok e -> lookup n e = Some v -> val_ok v.
Proof.
  intros He L. apply lookup_Some_In in L. unfold env_ok in He. rewrite Forall_forall in He.
  apply He in L. exact (proj2 L).
Qed.

(* C02_no_leftover, alphabet-generic form *)
Theorem no_leftover : forall (cs : list chunk) (env : smap),
  all_ok cs -> env_ok env -> declared cs env ->
  occursb opn (render_subst env cs) = false.
Proof.
  intros cs env Hcs He. unfold Template.render_subst. induction Hcs as [|c cs Hc Hcs IH]; intro D.
  - simpl. reflexivity.
  - assert (D' : declared cs env).
    { intros n I. apply D. unfold Template.ph_names in *. simpl. apply in_or_app. now right. }
    destruct c as [l|w|m]; cbn [Template.subst_all Template.render]; cbn [chunk_ok] in Hc.
    + rewrite occurs_lit by exact Hc. auto.
    + rewrite occurs_val by exact Hc. auto.
    + destruct (lookup m env) as [v|] eqn:L.
      * cbn [Template.render]. rewrite occurs_val by (eapply env_ok_lookup; eassumption). auto.
      * exfalso. apply (D m); [|exact L]. unfold Template.ph_names. simpl. now left.
Qed.

Lemma declaredb_spec cs (e : smap) : declaredb cs e = true <-> declared cs e.
Proof.
  unfold Template.declaredb, declared. rewrite forallb_forall. split; intros H n I; specialize (H n I).
  - destruct (lookup n e); [discriminate|discriminate].
  - destruct (lookup n e); [reflexivity|contradiction].
Qed.


(* ================================================================== literals that end in '$'
   A second form of the theorems: a literal may end in '$' provided nothing that can follow it starts with '{':
   statically, up to the next non-empty literal no literal/value chunk starts with '{' ([safe_after]), and substituted
   values do not start with '{'.  (With values that may start with '{' this is false, see C02_lits_ok_necessary_dollar.) *)

Fixpoint lit_ok2 (l : list A) : bool :=
  match l with
  | [] => true
  | a :: l' =>
    (if eqb a d then
       match l' with
       | [] => true
       | b :: t => if eqb b lb then diverges t pre else true
       end
     else true) && lit_ok2 l'
  end.

Fixpoint ends_d (l : list A) : bool :=
  match l with
  | [] => false
  | a :: l' => match l' with [] => eqb a d | _ :: _ => ends_d l' end
  end.

Definition head_not_lb (v : list A) : bool := match v with [] => true | c :: _ => negb (eqb c lb) end.

Fixpoint safe_after (cs : list chunk) : bool :=
  match cs with
  | [] => true
  | Lit [] :: r => safe_after r
  | Lit (c :: _) :: _ => negb (eqb c lb)
  | Val [] :: r => safe_after r
  | Val (c :: _) :: _ => negb (eqb c lb)
  | Ph _ :: r => safe_after r
  end.

Fixpoint wf2 (cs : list chunk) : Prop :=
  match cs with
  | [] => True
  | Lit l :: r => lit_ok2 l = true /\ (ends_d l = true -> safe_after r = true) /\ wf2 r
  | Val v :: r => val_ok v /\ wf2 r
  | Ph n :: r => name_ok n /\ wf2 r
  end.

Definition env_ok2 (e : smap) : Prop :=
  Forall (fun nv => name_ok (fst nv) /\ val_ok (snd nv) /\ head_not_lb (snd nv) = true) e.

Lemma lit_ok_lit_ok2 l : lit_ok l = true -> lit_ok2 l = true /\ ends_d l = false.
Proof.
  induction l as [|a l IH]; [split; reflexivity|]. intro H. assert (H' := H). apply lit_ok_tail in H'.
  destruct (IH H') as [I1 I2]. simpl in H. apply andb_prop in H as [H _]. split.
  - simpl. rewrite I1, andb_true_r. destruct (eqb a d); [|reflexivity]. destruct l; [discriminate|exact H].
  - destruct l as [|b l]; [|exact I2]. simpl. destruct (eqb a d); [discriminate|reflexivity].
Qed.

Lemma safe_after_render cs : safe_after cs = true -> head_not_lb (render cs) = true.
Proof.
  induction cs as [|[l|w|m] cs IH]; intro H; [reflexivity| | |].
  - destruct l as [|c l]; [exact (IH H)|exact H].
  - destruct w as [|c w]; [exact (IH H)|exact H].
  - simpl. rewrite (eqb_neq d lb d_lb). reflexivity.
Qed.

Lemma lit2_head_no_open a l r q : lit_ok2 (a :: l) = true -> (ends_d (a :: l) = true -> head_not_lb r = true) ->
  prefixb (d :: lb :: pre ++ q) (a :: l ++ r) = false.
Proof.
  intros H HE. simpl in H. apply andb_prop in H as [H1 _].
  destruct (eqb_spec a d) as [->|Had]; [|apply prefixb_head_neq; assumption].
  destruct l as [|b t].
  - simpl in HE. rewrite eqb_refl in HE. specialize (HE eq_refl). simpl. rewrite eqb_refl. simpl.
    destruct r as [|c r]; [reflexivity|]. simpl in HE. apply negb_true_iff in HE.
    destruct (eqb_spec lb c) as [<-|]; [rewrite eqb_refl in HE; discriminate|reflexivity].
  - simpl. rewrite eqb_refl. simpl.
    destruct (eqb_spec b lb) as [->|Hb].
    + rewrite eqb_refl. simpl. apply diverges_no_prefix. exact H1.
    + rewrite (eqb_neq lb b); [reflexivity|congruence].
Qed.

Lemma lit_ok2_tail a l : lit_ok2 (a :: l) = true -> lit_ok2 l = true.
Proof. intro H. simpl in H. now apply andb_prop in H as [_ H]. Qed.

Lemma ends_d_tail a l : l <> [] -> ends_d (a :: l) = ends_d l.
Proof. destruct l; [contradiction|reflexivity]. Qed.

Lemma repl_lit2 n v l r : lit_ok2 l = true -> (ends_d l = true -> head_not_lb r = true) ->
  repl (ph n) v 0 (l ++ r) = l ++ repl (ph n) v 0 r.
Proof.
  induction l as [|a l IH]; intros H HE; [reflexivity|].
  change ((a :: l) ++ r) with (a :: (l ++ r)).
  cbn [Template.repl].
  assert (E : prefixb (ph n) (a :: l ++ r) = false) by (apply (lit2_head_no_open a l r (n ++ [rb])); assumption).
  rewrite E. simpl. f_equal. destruct l as [|b l]; [reflexivity|].
  apply IH; [eapply lit_ok2_tail; eassumption|]. rewrite <- (ends_d_tail a (b :: l)) by discriminate. exact HE.
Qed.

Lemma occurs_lit2 l r : lit_ok2 l = true -> (ends_d l = true -> head_not_lb r = true) ->
  occursb (d :: lb :: pre) (l ++ r) = occursb (d :: lb :: pre) r.
Proof.
  induction l as [|a l IH]; intros H HE; [reflexivity|].
  change ((a :: l) ++ r) with (a :: (l ++ r)). cbn [Template.occursb].
  assert (E := lit2_head_no_open a l r [] H HE). rewrite app_nil_r in E. rewrite E. simpl.
  destruct l as [|b l]; [reflexivity|].
  apply IH; [eapply lit_ok2_tail; eassumption|]. rewrite <- (ends_d_tail a (b :: l)) by discriminate. exact HE.
Qed.

Lemma safe_after_subst_one n v cs : head_not_lb v = true -> safe_after cs = true -> safe_after (subst_one n v cs) = true.
Proof.
  intro Hv. induction cs as [|[l|w|m] cs IH]; intro H; [reflexivity| | |].
  - destruct l as [|c l]; [exact (IH H)|exact H].
  - destruct w as [|c w]; [exact (IH H)|exact H].
  - cbn [Template.subst_one]. destruct (seqb m n).
    + destruct v as [|c v]; [exact (IH H)|exact Hv].
    + exact (IH H).
Qed.

Lemma subst_one_correct2 n v : name_ok n -> forall cs, wf2 cs ->
  repl (ph n) v 0 (render cs) = render (subst_one n v cs).
Proof.
  intros Hn cs. induction cs as [|[l|w|m] cs IH]; intro H; [reflexivity| | |]; cbn [Template.render Template.subst_one]; cbn [wf2] in H.
  - destruct H as (H1 & H2 & H3). rewrite repl_lit2; [now rewrite IH|exact H1|].
    intro E. apply safe_after_render. now apply H2.
  - destruct H as (H1 & H2). rewrite repl_val by exact H1. now rewrite IH.
  - destruct H as (H1 & H2). destruct (seqb m n) eqn:T.
    + apply seqb_spec in T. subst m. cbn [Template.render]. rewrite repl_same_ph. now rewrite IH.
    + assert (n <> m) by (intros ->; rewrite seqb_refl in T; discriminate).
      cbn [Template.render]. rewrite repl_other_ph by assumption. now rewrite IH.
Qed.

Lemma subst_one_wf2 n v cs : val_ok v -> head_not_lb v = true -> wf2 cs -> wf2 (subst_one n v cs).
Proof.
  intros Hv Hh. induction cs as [|[l|w|m] cs IH]; intro H; [exact I| | |]; cbn [Template.subst_one wf2] in *.
  - destruct H as (H1 & H2 & H3). repeat split; [exact H1| |now apply IH].
    intro E. apply safe_after_subst_one; [exact Hh|now apply H2].
  - destruct H as (H1 & H2). split; [exact H1|now apply IH].
  - destruct H as (H1 & H2). destruct (seqb m n); cbn [wf2]; split; auto.
Qed.

Lemma replace_seq_correct2 (ord : smap) : forall cs, wf2 cs -> env_ok2 ord -> NoDup (map fst ord) ->
  replace_seq ord (render cs) = render (subst_all ord cs).
Proof.
  induction ord as [|[n v] ord IH]; intros cs Hcs He ND.
  - simpl. now rewrite subst_all_nil.
  - unfold Template.replace_seq. cbn [fold_left fst snd].
    inversion He as [|? ? (Hn & Hv & Hh) He']; subst. inversion ND as [|? ? NI ND']; subst. cbn [fst snd] in *.
    rewrite subst_one_correct2 by assumption.
    fold (replace_seq ord (render (subst_one n v cs))).
    rewrite IH; [|apply subst_one_wf2; assumption|assumption|assumption].
    rewrite subst_all_cons; [reflexivity|]. now apply lookup_None.
Qed.

Theorem substitution2 : forall (cs : list chunk) (env ord : smap),
  wf2 cs -> env_ok2 env -> NoDup (map fst env) -> Permutation ord env ->
  replace_seq ord (render cs) = render_subst env cs.
Proof.
  intros cs env ord Hcs He ND P. unfold Template.render_subst.
  rewrite replace_seq_correct2.
  - f_equal. apply subst_all_ext. intro n. now apply lookup_perm.
  - assumption.
  - unfold env_ok2 in *. rewrite Forall_forall in *. intros x I. apply He. eapply Permutation_in; eassumption.
  - eapply Permutation_NoDup; [|exact ND]. apply Permutation_map. now apply Permutation_sym.
Qed.

Lemma env_ok2_lookup (e : smap) n v : env_ok2 e -> lookup n e = Some v -> val_ok v /\ head_not_lb v = true.
Proof.
  intros He L. apply lookup_Some_In in L. unfold env_ok2 in He. rewrite Forall_forall in He.
  apply He in L. exact (proj2 L).
Qed.

Lemma safe_after_subst_all (e : smap) cs : env_ok2 e -> safe_after cs = true -> safe_after (subst_all e cs) = true.
Proof.
  intro He. induction cs as [|[l|w|m] cs IH]; intro H; [reflexivity| | |].
  - destruct l as [|c l]; [exact (IH H)|exact H].
  - destruct w as [|c w]; [exact (IH H)|exact H].
  - cbn [Template.subst_all]. destruct (lookup m e) as [v|] eqn:L; [|exact (IH H)].
    destruct (env_ok2_lookup e m v He L) as [_ Hh]. destruct v as [|c v]; [exact (IH H)|exact Hh].
Qed.

Theorem no_leftover2 : forall (cs : list chunk) (env : smap),
  wf2 cs -> env_ok2 env -> declared cs env ->
  occursb (d :: lb :: pre) (render_subst env cs) = false.
Proof.
  intros cs env Hcs He. unfold Template.render_subst. induction cs as [|c cs IH]; intro D; [reflexivity|].
  assert (D' : declared cs env).
  { intros n I. apply D. unfold Template.ph_names in *. simpl. apply in_or_app. now right. }
  destruct c as [l|w|m]; cbn [Template.subst_all Template.render]; cbn [wf2] in Hcs.
  - destruct Hcs as (H1 & H2 & H3). rewrite occurs_lit2; [auto|exact H1|].
    intro E. apply safe_after_render. apply safe_after_subst_all; [exact He|now apply H2].
  - destruct Hcs as (H1 & H2). rewrite occurs_val by exact H1. auto.
  - destruct Hcs as (H1 & H2). destruct (lookup m env) as [v|] eqn:L.
    + cbn [Template.render]. rewrite occurs_val by (eapply env_ok2_lookup; eassumption). auto.
    + exfalso. apply (D m); [|exact L]. unfold Template.ph_names. simpl. now left.
Qed.


(* boolean forms *)
Fixpoint wf2b (cs : list chunk) : bool :=
  match cs with
  | [] => true
  | Lit l :: r => lit_ok2 l && (negb (ends_d l) || safe_after r) && wf2b r
  | Val v :: r => val_okb v && wf2b r
  | Ph n :: r => name_okb n && wf2b r
  end.

Lemma wf2b_spec cs : wf2b cs = true -> wf2 cs.
Proof.
  induction cs as [|[l|w|m] cs IH]; intro H; [exact I| | |]; cbn [wf2b wf2] in *.
  - apply andb_prop in H as [H H3]. apply andb_prop in H as [H1 H2]. repeat split; [exact H1| |auto].
    intro E. rewrite E in H2. exact H2.
  - apply andb_prop in H as [H1 H2]. split; [now apply val_okb_spec|auto].
  - apply andb_prop in H as [H1 H2]. split; [now apply name_okb_spec|auto].
Qed.

Definition env_ok2b (e : smap) : bool :=
  forallb (fun nv => name_okb (fst nv) && val_okb (snd nv) && head_not_lb (snd nv)) e.

Lemma env_ok2b_spec e : env_ok2b e = true -> env_ok2 e.
Proof.
  unfold env_ok2b, env_ok2. rewrite forallb_forall, Forall_forall. intros H x I. specialize (H x I).
  apply andb_prop in H as [H H3]. apply andb_prop in H as [H1 H2].
  split; [now apply name_okb_spec|]. split; [now apply val_okb_spec|exact H3].
Qed.

(* the first form is a special case of the second when no value starts with '{' *)
Lemma all_ok_wf2 cs : all_ok cs -> wf2 cs.
Proof.
  intro H. induction H as [|c cs Hc Hcs IH]; [exact I|]. destruct c as [l|w|m]; cbn [wf2 chunk_ok] in *.
  - destruct (lit_ok_lit_ok2 l Hc) as [H1 H2]. repeat split; [exact H1| |exact IH]. rewrite H2. discriminate.
  - split; assumption.
  - split; assumption.
Qed.

End GenP.
