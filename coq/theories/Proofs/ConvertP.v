(* C10 — lemmas about the conversion model (Model/Convert.v). *)
From KV Require Import Base.Prelude Model.Convert Model.Settings Proofs.SettingsP.
Open Scope string_scope.

(* case analysis on the comparisons of a string variable with literals *)
Ltac case_strings s :=
  repeat match goal with
         | |- context [String.eqb s ?c] =>
             destruct (String.eqb_spec s c) as [->|?]; [try (vm_compute; reflexivity)|]
         end.

(* ------------------------------------------------------------------ enums *)

Definition enum_faithful {B} (conv : string -> B) (declared : list string) (unknown : B) : Prop :=
  (forall a b, In a declared -> In b declared -> conv a = conv b -> a = b) /\
  (forall a, In a declared -> conv a <> unknown) /\
  (forall a, ~ In a declared -> conv a = unknown).

Ltac in_cases H := cbn [In] in H; repeat (destruct H as [<-|H]; [|]); try contradiction.

Ltac faithful conv :=
  split; [|split];
  [ intros a b Ha Hb; in_cases Ha; in_cases Hb; vm_compute; congruence
  | intros a Ha; in_cases Ha; vm_compute; discriminate
  | intros a Ha; unfold conv; case_strings a; try reflexivity; exfalso; apply Ha;
    unfold ptype_declared, dist_declared, otype_declared, cond_declared; cbn [In];
    repeat (first [left; reflexivity | right]) ].

Lemma ptype_faithful : enum_faithful convert_ptype ptype_declared PT_UNKNOWN_TYPE.
Proof. faithful convert_ptype. Qed.
Lemma dist_faithful : enum_faithful convert_dist dist_declared D_DISTRIBUTION_UNSPECIFIED.
Proof. faithful convert_dist. Qed.
Lemma otype_faithful : enum_faithful convert_otype otype_declared O_UNKNOWN.
Proof. faithful convert_otype. Qed.
Lemma cond_faithful : enum_faithful convert_cond cond_declared C_UNKNOWN.
Proof. faithful convert_cond. Qed.

Theorem enum_injective :
  enum_faithful convert_ptype ptype_declared PT_UNKNOWN_TYPE /\
  enum_faithful convert_dist dist_declared D_DISTRIBUTION_UNSPECIFIED /\
  enum_faithful convert_otype otype_declared O_UNKNOWN /\
  enum_faithful convert_cond cond_declared C_UNKNOWN.
Proof. repeat split; first [apply ptype_faithful|apply dist_faithful|apply otype_faithful|apply cond_faithful]. Qed.

Lemma uc_ptype s : unconvert_ptype (convert_ptype s) = canon_ptype s.
Proof. unfold convert_ptype, canon_ptype, ptype_declared, mem. cbn [existsb]. case_strings s. reflexivity. Qed.
Lemma uc_dist s : unconvert_dist (convert_dist s) = canon_dist s.
Proof. unfold convert_dist, canon_dist, dist_declared, mem. cbn [existsb]. case_strings s. reflexivity. Qed.
Lemma uc_otype s : unconvert_otype (convert_otype s) = canon_otype s.
Proof. unfold convert_otype, canon_otype, otype_declared, mem. cbn [existsb]. case_strings s. reflexivity. Qed.
Lemma uc_cond s : unconvert_cond (convert_cond s) = canon_cond s.
Proof. unfold convert_cond, canon_cond, cond_declared, mem. cbn [existsb]. case_strings s. reflexivity. Qed.

(* canon_* fix the declared values (and the designated unknown) *)
Lemma canon_ptype_fix s : In s ptype_declared \/ s = "unknown" -> canon_ptype s = s.
Proof. intros [H| ->]; [in_cases H|]; reflexivity. Qed.
Lemma canon_dist_fix s : In s dist_declared \/ s = "unknown" -> canon_dist s = s.
Proof. intros [H| ->]; [in_cases H|]; reflexivity. Qed.
Lemma canon_otype_fix s : In s otype_declared \/ s = "" -> canon_otype s = s.
Proof. intros [H| ->]; [in_cases H|]; reflexivity. Qed.
Lemma canon_cond_fix s : In s cond_declared -> canon_cond s = s.
Proof. intros H; in_cases H; reflexivity. Qed.

(* ------------------------------------------------------------------ ConvertExperiment *)

Lemma uc_param p : unconvert_param (convert_param p) = view_param p.
Proof.
  destruct p as [n t [mx mn l st d]]. unfold unconvert_param, convert_param, view_param, unconvert_feasible, convert_feasible, view_feasible.
  cbn. now rewrite uc_ptype, uc_dist.
Qed.

Lemma uc_params ps : map unconvert_param (map convert_param ps) = map view_param ps.
Proof. rewrite map_map. apply map_ext. exact uc_param. Qed.

Lemma uc_objective o : unconvert_objective (convert_objective o) = view_objective o.
Proof. destruct o. unfold unconvert_objective, convert_objective, view_objective. cbn. now rewrite uc_otype. Qed.

Lemma uc_algorithm a : unconvert_algorithm (convert_algorithm a) = a.
Proof. now destruct a. Qed.

Lemma uc_nas n : unconvert_nas (convert_nas n) = view_nas n.
Proof.
  destruct n as [[ly i o] ops]. unfold unconvert_nas, convert_nas, view_nas, unconvert_graph, convert_graph, view_graph. cbn. f_equal.
  rewrite map_map. apply map_ext. intros [ty ps]. unfold unconvert_operation, convert_operation, view_operation. cbn. now rewrite uc_params.
Qed.

Theorem lossless_experiment : forall e pe,
  convert_experiment e = Ok pe -> unconvert_experiment pe = view_experiment e.
Proof.
  intros e pe. unfold convert_experiment.
  destruct (e_algorithm e) as [a|] eqn:A; [|discriminate]. destruct (e_objective e) as [o|] eqn:O; [|discriminate].
  intros [= <-]. unfold unconvert_experiment, view_experiment. cbn. rewrite A, O, uc_params, uc_objective, uc_algorithm. cbn. f_equal.
  - destruct (e_early e); cbn; [now rewrite uc_algorithm|reflexivity].
  - destruct (e_nas e); cbn; [now rewrite uc_nas|reflexivity].
Qed.

Theorem convert_experiment_total : forall e,
  (forall c, convert_experiment e <> Err c) /\
  ((exists s, convert_experiment e = Crash s) <-> e_algorithm e = None \/ e_objective e = None).
Proof.
  intro e. unfold convert_experiment. destruct (e_algorithm e), (e_objective e); (split; [discriminate|]); split;
    try (intros [s H]; discriminate); try (intros [H|H]; discriminate); eauto.
Qed.

Lemma map_fix {A} (f : A -> A) l : (forall x, In x l -> f x = x) -> map f l = l.
Proof. intro H. rewrite <- (map_id l) at 2. apply map_ext_in. exact H. Qed.

Lemma view_param_fix p : wf_param p -> view_param p = p.
Proof.
  destruct p as [n t [mx mn l st d]]. unfold wf_param, view_param, view_feasible. cbn. intros [Ht Hd].
  now rewrite canon_ptype_fix, canon_dist_fix.
Qed.

Lemma view_objective_fix o : wf_objective o -> view_objective o = o.
Proof.
  destruct o as [t g m a s]. unfold wf_objective, view_objective. cbn. intros [Ht [[k ->] ->]]. now rewrite canon_otype_fix.
Qed.

Lemma view_nas_fix n : wf_nas n -> view_nas n = n.
Proof.
  destruct n as [[ly i o] ops]. unfold wf_nas, view_nas, view_graph. cbn. intros [[k ->] H]. cbn. f_equal.
  apply map_fix. intros [ty ps] I. unfold view_operation. cbn. f_equal. apply map_fix. intros p Ip. apply view_param_fix. exact (H _ I _ Ip).
Qed.

Lemma view_experiment_fix e : wf_experiment e -> view_experiment e = e.
Proof.
  destruct e as [n ps o a es pa mx ns]. unfold wf_experiment, view_experiment. cbn.
  intros [Hp [[o' [-> Ho]] [[a' ->] [[k1 ->] [[k2 ->] Hn]]]]]. cbn. rewrite view_objective_fix by exact Ho.
  rewrite (map_fix view_param) by (intros; now apply view_param_fix, Hp). f_equal.
  destruct ns as [n'|]; cbn; [|reflexivity]. now rewrite view_nas_fix by now apply Hn.
Qed.

Theorem lossless_experiment_exact : forall e,
  wf_experiment e -> exists pe, convert_experiment e = Ok pe /\ unconvert_experiment pe = e.
Proof.
  intros e W. pose proof (view_experiment_fix e W) as V. destruct W as [_ [[o [O _]] [[a A] _]]].
  destruct (convert_experiment e) as [pe|c|s] eqn:C.
  - exists pe. split; [reflexivity|]. rewrite <- V. now apply lossless_experiment.
  - unfold convert_experiment in C. rewrite A, O in C. discriminate.
  - unfold convert_experiment in C. rewrite A, O in C. discriminate.
Qed.

(* ------------------------------------------------------------------ ConvertTrials *)

Definition sent (ts : list trial) : list trial := filter (fun t => negb (skipped t)) ts.

Lemma uc_trial t o : t_objective t = Some o ->
  exists p, convert_trial t = Ok p /\ unconvert_trial p = view_trial o t.
Proof.
  intro O. unfold convert_trial. rewrite O. eexists. split; [reflexivity|].
  unfold unconvert_trial, view_trial. cbn. rewrite uc_objective. f_equal.
  unfold last_condition. destruct (t_conditions t); [reflexivity|apply uc_cond].
Qed.

Theorem lossless_trials : forall ts out,
  convert_trials ts = Ok out ->
  Forall2 (fun t p => exists o, t_objective t = Some o /\ unconvert_trial p = view_trial o t) (sent ts) out.
Proof.
  induction ts as [|t r IH]; intros out; cbn [convert_trials sent filter].
  - intros [= <-]. constructor.
  - destruct (skipped t); cbn [negb]; [apply IH|].
    destruct (t_objective t) as [o|] eqn:O.
    + destruct (uc_trial t o O) as [p [-> U]]. destruct (convert_trials r) as [ps| |]; try discriminate.
      intros [= <-]. constructor; [eauto|]. now apply IH.
    + unfold convert_trial. rewrite O. discriminate.
Qed.

Theorem convert_trials_total : forall ts,
  (forall c, convert_trials ts <> Err c) /\
  ((exists s, convert_trials ts = Crash s) <-> exists t, In t (sent ts) /\ t_objective t = None).
Proof.
  induction ts as [|t r [IH1 IH2]]; cbn [convert_trials sent filter].
  - split; [discriminate|]. split; [intros [s H]; discriminate|intros [t [[] _]]].
  - destruct (skipped t); cbn [negb]; [now split|].
    unfold convert_trial. destruct (t_objective t) as [o|] eqn:O.
    + fold (sent r). destruct (convert_trials r) as [ps|c|s] eqn:R.
      * split; [discriminate|]. split; [intros [s H]; discriminate|].
        intros [x [[<-|I] N]]; [congruence|]. destruct (proj2 IH2) as [s H]; [eauto|discriminate].
      * now destruct (IH1 c).
      * split; [discriminate|]. split; [|eauto]. intros _. destruct (proj1 IH2) as [x [I N]]; [eauto|].
        exists x. split; [now right|exact N].
    + split; [discriminate|]. split; [|eauto]. intros _. exists t. split; [now left|exact O].
Qed.

(* ------------------------------------------------------------------ metric strategies *)

Lemma strategy_of_snoc l s n : strategy_of (l ++ [s]) n = if k_name s =? n then k_value s else strategy_of l n.
Proof. unfold strategy_of. now rewrite fold_left_app. Qed.

(* the strategy of a metric is the value of the LAST strategy entry of that name; "" when there is none *)
Theorem strategy_of_spec : forall strategies n,
  ((forall s, In s strategies -> k_name s <> n) /\ strategy_of strategies n = "") \/
  (exists l1 s l2, strategies = (l1 ++ s :: l2)%list /\ k_name s = n /\ (forall x, In x l2 -> k_name x <> n) /\
                   strategy_of strategies n = k_value s).
Proof.
  intros strategies n. induction strategies as [|s l IH] using rev_ind.
  - left. split; [intros s []|reflexivity].
  - rewrite strategy_of_snoc. destruct (String.eqb_spec (k_name s) n) as [E|NE].
    + right. exists l, s, []. repeat split; auto; intros x [].
    + destruct IH as [[H1 H2]|[l1 [s' [l2 [-> [E [H3 H4]]]]]]].
      * left. split; [|exact H2]. intros x I. apply in_app_iff in I. destruct I as [I|[<-|[]]]; auto.
      * right. exists l1, s', (l2 ++ [s])%list. rewrite <- app_assoc. repeat split; auto.
        intros x I. apply in_app_iff in I. destruct I as [I|[<-|[]]]; auto.
Qed.

Definition selected_ok (st : string) (m : metric) (v : string) : Prop :=
  (st = "min" /\ m_min m <> unavailable /\ v = m_min m) \/
  (st = "min" /\ m_min m = unavailable /\ v = m_latest m) \/
  (st = "max" /\ m_max m <> unavailable /\ v = m_max m) \/
  (st = "max" /\ m_max m = unavailable /\ v = m_latest m) \/
  (st = "latest" /\ v = m_latest m) \/
  (st <> "min" /\ st <> "max" /\ st <> "latest" /\ v = "").

Lemma metric_value_ok st m : selected_ok st m (metric_value st m).
Proof.
  unfold metric_value, selected_ok.
  destruct (String.eqb_spec st "min") as [->|N1].
  { destruct (String.eqb_spec (m_min m) unavailable); tauto. }
  destruct (String.eqb_spec st "max") as [->|N2].
  { destruct (String.eqb_spec (m_max m) unavailable); tauto. }
  destruct (String.eqb_spec st "latest") as [->|N3]; tauto.
Qed.

Theorem metric_strategy : forall strategies ms,
  Forall2 (fun m r => k_name r = m_name m /\ selected_ok (strategy_of strategies (m_name m)) m (k_value r))
          ms (convert_observation strategies (Some ms)).
Proof.
  intros strategies ms. cbn [convert_observation]. induction ms as [|m r IH]; cbn [map]; constructor; [|exact IH].
  split; [reflexivity|apply metric_value_ok].
Qed.

(* ------------------------------------------------------------------ MetricsUnavailable is never the reported condition of a
   trial for which it is True (why its missing switch case is harmless for conditions as the controllers write them) *)

Lemma find_unique (ty : string) l c :
  ~ In ty (map c_type l) -> c_type c = ty -> find (fun x => c_type x =? ty) (l ++ [c]) = Some c.
Proof.
  intros N E. induction l as [|a l IH]; cbn [app find].
  - now rewrite (proj2 (String.eqb_eq _ _) E).
  - cbn [map In] in N. destruct (String.eqb_spec (c_type a) ty); [tauto|]. apply IH. tauto.
Qed.

Lemma last_cons {A} (r : list A) : forall c d, last (c :: r) d = last r c.
Proof.
  induction r as [|a r IH]; intros c d; [reflexivity|].
  change (last (c :: a :: r) d) with (last (a :: r) d). now rewrite !IH.
Qed.

Theorem metrics_unavailable_not_sent : forall t,
  NoDup (map c_type (t_conditions t)) -> skipped t = false ->
  forall c r, t_conditions t = c :: r -> ~ (c_type (last r c) = "MetricsUnavailable" /\ c_status (last r c) = cond_true).
Proof.
  intros t ND SK c r E [Ty St]. unfold skipped in SK. apply orb_false_iff in SK. destruct SK as [SK _].
  unfold has_condition, get_condition in SK. rewrite E in SK, ND.
  assert (X : exists l, c :: r = (l ++ [last r c])%list).
  { exists (removelast (c :: r)). rewrite <- (last_cons r c c). apply app_removelast_last. discriminate. }
  destruct X as [l X]. rewrite X in SK, ND. rewrite map_app in ND. cbn [map] in ND. apply NoDup_remove_2 in ND. rewrite app_nil_r in ND.
  rewrite find_unique in SK; [|now rewrite <- Ty|exact Ty]. rewrite St in SK. now rewrite String.eqb_refl in SK.
Qed.

(* ------------------------------------------------------------------ the request of SyncAssignments *)

Lemma append_ok e a sug : e_algorithm e = Some a ->
  append_from_suggestion e sug = Ok (with_settings e (merge_settings (a_settings a) sug)).
Proof.
  intro A. unfold append_from_suggestion, with_settings. rewrite A. destruct sug as [|s r]; [|reflexivity].
  destruct e, a. cbn in *. now subst.
Qed.

(* What the services receive in a request: the experiment with the remembered settings merged over the spec's, and the trials. *)
Theorem sync_request_spec : forall e sug ts pe pts,
  sync_request e sug ts = Ok (pe, pts) ->
  exists a, e_algorithm e = Some a /\
            unconvert_experiment pe = view_experiment (with_settings e (merge_settings (a_settings a) sug)) /\
            pa_settings (pe_algorithm pe) = merge_settings (a_settings a) sug /\
            convert_trials ts = Ok pts.
Proof.
  intros e sug ts pe pts. unfold sync_request.
  destruct (e_algorithm e) as [a|] eqn:A.
  - rewrite (append_ok e a sug A).
    destruct (convert_experiment (with_settings e (merge_settings (a_settings a) sug))) as [pe'|c|s] eqn:C; try discriminate.
    destruct (convert_trials ts) as [pts'|c|s] eqn:T; try discriminate. intros [= <- <-].
    exists a. repeat split; auto.
    + now apply lossless_experiment.
    + unfold convert_experiment, with_settings in C. cbn in C. rewrite A in C. cbn in C.
      destruct (e_objective e); [|discriminate]. now injection C as <-.
  - unfold append_from_suggestion. rewrite A. destruct sug.
    + unfold convert_experiment. rewrite A. discriminate.
    + discriminate.
Qed.
