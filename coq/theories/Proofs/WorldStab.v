(* Stability of trials (no teardown): an objective value, once a trial has it, stays; a completed trial stays completed and
   keeps its class (the way the experiment status counts it).  Invariant TS: every pending trial-status write respects
   this for the trial version it was planned from, and the trial cache is a pointwise-earlier version of the stored trials
   in this sense. *)
From KV Require Import Base.Prelude Base.Cond Model.World Proofs.WorldPlan Proofs.WorldInv Proofs.WorldInv2 Proofs.WorldInv4
  Proofs.WorldInv5 Proofs.WorldSucc Proofs.WorldTrials Proofs.WorldJob Proofs.WorldObs.
Open Scope Z_scope.

(* classify, as a function of the conditions *)
Definition cclass (cs : conds) : class :=
  if has_cond cs TKilled then KKilled else if has_cond cs TFailed then KFailed else if has_cond cs TSucceeded then KSucceeded
  else if has_cond cs TEarlyStopped then KEarlyStopped else if has_cond cs TRunning then KRunning
  else if has_cond cs TMetricsUnavailable then KMetricsUnavailable else KPending.

Lemma classify_cclass t : classify t = cclass (t_conds t).
Proof. reflexivity. Qed.

(* what a status write (cs, o) must respect relative to the trial version t it replaces *)
Definition stab (t : trial) (cs : conds) (o : obs) : Prop :=
  (forall z, objective t = Some z -> objv o = Some z) /\
  (t_completed t = true -> cs_completed cs = true /\ cclass cs = classify t).

Definition tst (t t' : trial) : Prop :=
  t_name t = t_name t' /\
  (forall z, objective t = Some z -> objective t' = Some z) /\
  (t_completed t = true -> t_completed t' = true /\ classify t' = classify t).

Lemma tst_refl t : tst t t.
Proof. repeat split; auto. Qed.

Lemma tst_trans a b c : tst a b -> tst b c -> tst a c.
Proof.
  intros (N1&O1&K1) (N2&O2&K2). split; [congruence|]. split; [auto|].
  intro C. destruct (K1 C) as [C1 E1]. destruct (K2 C1) as [C2 E2]. split; [exact C2|congruence].
Qed.

(* pointwise on the common prefix; the later list may be longer *)
Inductive plag (R : trial -> trial -> Prop) : list trial -> list trial -> Prop :=
| pl_nil l : plag R [] l
| pl_cons t t' l l' : R t t' -> plag R l l' -> plag R (t :: l) (t' :: l').

Lemma plag_refl (R : trial -> trial -> Prop) l : (forall t, R t t) -> plag R l l.
Proof. intro H. induction l; constructor; auto. Qed.

Lemma plag_grow (R S : trial -> trial -> Prop) a b c :
  (forall x y z, R x y -> S y z -> R x z) -> plag R a b -> tgrow S b c -> plag R a c.
Proof.
  intros T P. revert c. induction P as [l|t t' l l' Rt P IH]; intros c G; [constructor|].
  inversion G as [|? t'' ? c' St G']; subst. constructor; [eapply T; eauto|apply IH; exact G'].
Qed.

Lemma plag_in (R : trial -> trial -> Prop) a b t : plag R a b -> In t a -> exists t', In t' b /\ R t t'.
Proof.
  intro P. induction P as [l|x x' l l' Rx P IH]; intro I; [destruct I|].
  destruct I as [<-|I]; [exists x'; split; [now left|exact Rx]|]. destruct (IH I) as (t'&I'&Rt). exists t'. split; [now right|exact Rt].
Qed.

(* ------------------------------------------------------------------ planned status writes respect the version they were planned from *)

Lemma cclass_mark_created cs : cclass (mark cs TCreated RCreated) = cclass cs.
Proof. unfold cclass, mark. now rewrite !has_set. Qed.

(* UpdateTrialStatusCondition on an early-stopped trial: still completed, still counted as early-stopped *)
Lemma utc_es_class cf now t o js dbw cs ct :
  update_trial_condition cf now t o js = (dbw, cs, ct) -> t_is t TEarlyStopped = true ->
  cs_completed cs = true /\ cclass cs = classify t.
Proof.
  unfold update_trial_condition. intros U E. unfold t_is in E.
  assert (Same : cs = t_conds t -> cs_completed cs = true /\ cclass cs = classify t).
  { intros ->. split; [|reflexivity]. unfold cs_completed. rewrite E. now rewrite !orb_true_r. }
  destruct js.
  - rewrite E in U. cbn [negb andb] in U. rewrite andb_false_r in U. inversion U; subst. auto.
  - destruct (obs_available o && negb (has_cond (t_conds t) TSucceeded)).
    + rewrite E in U. cbn [negb] in U. inversion U; subst. auto.
    + destruct (negb (has_cond (t_conds t) TMetricsUnavailable)); [|inversion U; subst; auto].
      inversion U; subst. unfold tmark_off_and, mark. split.
      * unfold cs_completed. rewrite !has_set, !has_turn_off. cbn. rewrite E. now rewrite !orb_true_r.
      * unfold classify, t_is, cclass. rewrite !has_set, !has_turn_off. cbn. rewrite E.
        destruct (has_cond (t_conds t) TKilled), (has_cond (t_conds t) TFailed), (has_cond (t_conds t) TSucceeded); reflexivity.
  - rewrite E in U. cbn [negb andb] in U. rewrite andb_false_r in U. inversion U; subst. auto.
Qed.

Lemma completed_cs_same t : t_completed t = true -> cs_completed (t_conds t) = true /\ cclass (t_conds t) = classify t.
Proof. intro C. split; [now rewrite <- t_completed_cs|reflexivity]. Qed.

Lemma plan_trial_main_class w t dberr n cs o ct rv onf :
  In (WTrialStatus n cs o ct rv, onf) (plan_trial_main w t dberr) -> t_completed t = true ->
  cs_completed cs = true /\ cclass cs = classify t.
Proof.
  unfold plan_trial_main. intros H C. rewrite C in H. cbn [negb orb] in H.
  destruct (find_job (t_name t) (w_jobs w)) as [j|] eqn:J.
  - destruct (negb (c_retain (w_cfg w))); cbn [andb] in H.
    + destruct (t_is t TEarlyStopped && negb (t_obs_available t)); [|destruct H as [H|[]]; discriminate].
      destruct dberr; [destruct H as [H|[]]; discriminate|]. apply in_app_or in H as [[H|[]]|H]; [discriminate|].
      apply in_trial_status_write in H. inversion H; subst. now apply completed_cs_same.
    + destruct (t_is t TEarlyStopped) eqn:E; [|destruct H].
      destruct (match j_phase j with JFail => Some JSFailed | JSucc => Some JSSucceeded
                                | JActive => if negb (t_is t TRunning) then Some JSRunning else None end) as [js|]; [|destruct H].
      match type of H with In _ (if ?c then _ else _) => destruct c end; [destruct H|].
      match type of H with In _ (if ?c then _ else _) => destruct c end; [destruct H|].
      destruct (update_trial_condition _ _ _ _ _) as [[dbw cs'] ct'] eqn:U.
      apply in_app_or in H as [H|H]; [destruct H|]. apply in_app_or in H as [H|H].
      * apply (update_trial_condition_db _ _ _ _ _ _ _ _ _ U) in H as [H _]. discriminate.
      * apply in_trial_status_write in H. inversion H; subst. eapply utc_es_class; eauto.
  - destruct (t_is t TEarlyStopped && negb (t_obs_available t)); [|destruct H].
    destruct dberr; [destruct H|]. cbn [app] in H. apply in_trial_status_write in H. inversion H; subst. now apply completed_cs_same.
Qed.

Lemma plan_trial_stab w key dberr n cs o ct rv onf :
  ObInv w -> In (WTrialStatus n cs o ct rv, onf) (plan_trial w key dberr) ->
  n = key /\ exists t, find_trial key (c_trials w) = Some t /\ rv = t_rv t /\ stab t cs o.
Proof.
  intros OB H. destruct (plan_trial_obs _ _ _ _ _ _ _ _ _ H) as (->&t&F&Rv&Ob).
  split; [reflexivity|]. exists t. split; [exact F|]. split; [exact Rv|].
  destruct (find_trial_name _ _ _ F) as [N It]. split.
  - intros z Oz. destruct Ob as [->|(v&G&->)]; [exact Oz|].
    rewrite <- N in G. rewrite (ob_cache _ OB _ _ It Oz) in G. inversion G; subst. reflexivity.
  - intro C. unfold plan_trial in H. rewrite F in H.
    destruct (negb (t_deleting t) && negb (t_fin t)); [destruct H as [H|[]]; discriminate|].
    destruct (t_deleting t && t_fin t); [destruct H as [H|[H|[]]]; discriminate|].
    destruct (negb (t_is t TCreated)).
    + apply in_trial_status_write in H. inversion H; subst. rewrite cs_completed_mark_created, cclass_mark_created. now apply completed_cs_same.
    + eapply plan_trial_main_class; eauto.
Qed.

(* ------------------------------------------------------------------ the invariant *)

Definition tsw_ok (w : world) (x : write * onfail) : Prop :=
  match fst x with
  | WTrialStatus n cs o ct rv => forall t, find_trial n (w_trials w) = Some t -> rv = t_rv t -> stab t cs o
  | _ => True
  end.

Record TS (w : world) : Prop := {
  ts_pend : forall c, Forall (tsw_ok w) (pending_of w c);
  ts_lag : plag tst (c_trials w) (w_trials w) }.

Lemma tev_tst w t t' : Inv w -> TS w -> In t (w_trials w) -> tev w t t' -> tst t t'.
Proof.
  intros [I _] T It E.
  destruct E as [t|t t' N Cc Ob Ct|t t' c cs o ct onf Ip N Cc Ob|t t' Nc Cr J N Cc Ob].
  - apply tst_refl.
  - split; [auto|]. split.
    + intros z. unfold objective. now rewrite Ob.
    + intro C. rewrite !t_completed_cs, !classify_cclass, Cc in *. auto.
  - pose proof (ts_pend _ T c) as F. rewrite Forall_forall in F. specialize (F _ Ip). unfold tsw_ok in F. cbn [fst] in F.
    destruct (F t (find_trial_in _ _ _ (i_nodup _ I) It eq_refl) eq_refl) as [SO SK].
    split; [auto|]. split.
    + intros z Oz. unfold objective. rewrite Ob. auto.
    + intro C. destruct (SK C) as [C1 C2]. rewrite t_completed_cs, classify_cclass, Cc. auto.
  - split; [auto|]. split.
    + intros z. unfold objective. now rewrite Ob.
    + intro C. congruence.
Qed.

Lemma step_ts w a : Inv w -> ObInv w -> TS w -> is_teardown a = false -> TS (step w a).
Proof.
  intros Iv OB T NT. pose proof Iv as [I P].
  destruct (step_inv2 w a NT Iv) as [Iv' Ev].
  assert (G : tgrow tst (w_trials w) (w_trials (step w a))).
  { apply (tgrow_impl (tev w) tst _ _ (fun t t' It E => tev_tst w t t' Iv T It E)). apply (step_trials w a Iv NT). }
  constructor.
  - intro c. apply Forall_forall. intros x Hx.
    destruct (step_pending _ _ _ _ Hx) as [H|[H|[(resp&H)|(key&dberr&H)]]].
    + (* was pending before *)
      pose proof (ts_pend _ T c) as F. rewrite Forall_forall in F. specialize (F _ H).
      pose proof (pending_of_ok w c P) as WO. rewrite Forall_forall in WO. specialize (WO _ H).
      destruct x as [wr onf]. unfold tsw_ok in *. cbn [fst] in *. destruct wr; auto.
      intros t' F' Rv. unfold write_ok in WO. cbn [fst] in WO. destruct WO as (t&Ft&Rle&_).
      destruct (tlag_find _ _ _ _ (ev_trials _ _ Ev) Ft) as (t''&F''&(_&R2&E2&_)). rewrite F' in F''. inversion F''; subst t''.
      assert (Q : t_rv t = t_rv t') by lia. rewrite <- (E2 Q). apply F; [exact Ft|lia].
    + destruct x as [wr onf]. unfold tsw_ok. cbn [fst]. destruct wr; auto.
      exfalso. pose proof (ek_plan_exp_kinds w) as K. rewrite forallb_forall in K. specialize (K _ H). discriminate.
    + destruct x as [wr onf]. unfold tsw_ok. cbn [fst]. destruct wr; auto.
      exfalso. destruct (plan_sug_shape _ _ _ H) as (cs0&Hc&[(k&[X|X])|(st&X&_)]); discriminate.
    + destruct x as [wr onf]. unfold tsw_ok. cbn [fst]. destruct wr; auto.
      destruct (plan_trial_stab _ _ _ _ _ _ _ _ _ OB H) as (->&t&F&->&St).
      intros t' F' Rv.
      (* the step is the Begin of that reconcile: the store is unchanged *)
      assert (Es : w_trials (step w a) = w_trials w \/ True) by now right.
      destruct (tlag_find _ _ _ _ (i_tlag _ I) F) as (ts&Fs&(_&R1&E1&_)).
      destruct (tlag_find _ _ _ _ (ev_trials _ _ Ev) Fs) as (t2&F2&(_&R2&E2&_)). rewrite F' in F2. inversion F2; subst t2.
      assert (Q1 : t_rv t = t_rv ts) by lia. assert (Q2 : t_rv ts = t_rv t') by lia.
      rewrite <- (E2 Q2), <- (E1 Q1). exact St.
  - destruct (step_ctrials w a) as [E|E]; rewrite E.
    + eapply plag_grow; [|apply (ts_lag _ T)|exact G]. intros x y z. apply tst_trans.
    + apply plag_refl. apply tst_refl.
Qed.

Lemma TS_init c : TS (init c).
Proof. constructor; [intros []; constructor|constructor]. Qed.

Lemma ObInv_init c : ObInv (init c).
Proof.
  constructor; cbn.
  - intros t z [].
  - intros t z [].
  - intros [] n cs o ct rv onf [].
  - intros [] n onf [].
Qed.

(* ------------------------------------------------------------------ over runs *)

Lemma tgrow_plag (R : trial -> trial -> Prop) a b : tgrow R a b -> plag R a b.
Proof. induction 1; constructor; auto. Qed.

Lemma plag_trans (R : trial -> trial -> Prop) a b c :
  (forall x y z, R x y -> R y z -> R x z) -> plag R a b -> plag R b c -> plag R a c.
Proof.
  intros T P. revert c. induction P as [l|t t' l l' Rt P IH]; intros c Q; [constructor|].
  inversion Q as [|? t'' ? c' R2 Q']; subst. constructor; [eapply T; eauto|apply IH; exact Q'].
Qed.

Lemma stab_invs c acts : valid_cfg c -> no_teardown acts -> Inv (run c acts) /\ ObInv (run c acts) /\ TS (run c acts).
Proof.
  intros V NT. unfold run.
  assert (H : forall l w, Inv w -> ObInv w -> TS w -> no_teardown l ->
              Inv (fold_left step l w) /\ ObInv (fold_left step l w) /\ TS (fold_left step l w)).
  { induction l as [|a l IH]; intros w I O T Nt; [auto|]. apply no_teardown_cons in Nt as [Na Nt]. cbn.
    apply IH; [now apply step_inv|now apply step_ob|now apply step_ts|exact Nt]. }
  apply H; auto using Inv_init, ObInv_init, TS_init.
Qed.

(* Every later version of the stored trial list is, position by position, a stable continuation of every earlier one: same
   name, an objective value once present stays the same, a completed trial stays completed and keeps its class. *)
Theorem trials_stable c acts1 acts2 :
  valid_cfg c -> no_teardown (acts1 ++ acts2) -> plag tst (w_trials (run c acts1)) (w_trials (run c (acts1 ++ acts2))).
Proof.
  intros V. revert acts1. induction acts2 as [|a l IH]; intros acts1 NT.
  - rewrite app_nil_r. apply plag_refl. apply tst_refl.
  - replace (acts1 ++ a :: l) with ((acts1 ++ [a]) ++ l) in * by (now rewrite <- app_assoc).
    eapply plag_trans; [intros x y z; apply tst_trans| |apply IH; exact NT].
    apply no_teardown_app in NT as [N1 _]. pose proof N1 as N1'. apply no_teardown_app in N1 as [N0 Na]. apply no_teardown_cons in Na as [Na _].
    destruct (stab_invs c acts1 V N0) as (I&O&T).
    assert (Hrun : run c (acts1 ++ [a]) = step (run c acts1) a) by (unfold run; now rewrite fold_left_app). rewrite Hrun.
    apply tgrow_plag. apply (tgrow_impl (tev (run c acts1)) tst _ _ (fun t t' It E0 => tev_tst _ t t' I T It E0)).
    now apply step_trials.
Qed.

(* the objective value a stored trial carries is the one in the metrics DB *)
Theorem objective_is_db_value c acts t z :
  valid_cfg c -> no_teardown acts -> In t (w_trials (run c acts)) -> objective t = Some z ->
  db_get (t_name t) (w_db (run c acts)) = Some (Some z).
Proof. intros V NT. destruct (stab_invs c acts V NT) as (_&O&_). apply (ob_store _ O). Qed.
