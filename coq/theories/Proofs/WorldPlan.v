(* Per-reconcile ("plan level") facts about the planning functions of Model/World.v: what a single reconcile can
   and cannot decide, for EVERY snapshot it may be looking at (no reachability assumption). *)
From KV Require Import Base.Prelude Base.Cond Model.World.
Open Scope Z_scope.

Definition writes (p : pending) : list write := map fst p.

Lemma in_trial_status_write t cs o ct x :
  In x (trial_status_write t cs o ct) -> x = (WTrialStatus (t_name t) cs o ct (t_rv t), Stop).
Proof. unfold trial_status_write. destruct (_ && _ && _); [intros []|intros [<-|[]]; reflexivity]. Qed.

Definition terminal_types : list nat := [TSucceeded; TFailed; TKilled; TMetricsUnavailable; TEarlyStopped].

Lemma terminal_cases k : In k terminal_types ->
  k = TSucceeded \/ k = TFailed \/ k = TKilled \/ k = TMetricsUnavailable \/ k = TEarlyStopped.
Proof. cbn. intuition. Qed.

Lemma terminal_not_running k : In k terminal_types -> Nat.eqb TRunning k = false.
Proof. intro H. apply terminal_cases in H. destruct H as [->|[->|[->|[->| ->]]]]; reflexivity. Qed.

(* marking a verdict (Running turned off, verdict condition set) keeps every terminal condition *)
Lemma tmark_keeps cs k r k' :
  In k' terminal_types -> has_cond cs k' = true -> has_cond (tmark_off_and cs k r) k' = true.
Proof.
  intros T H. unfold tmark_off_and, mark. rewrite has_set. destruct (Nat.eqb k k'); [reflexivity|].
  rewrite has_turn_off, terminal_not_running by assumption. exact H.
Qed.

Lemma mark_keeps cs k r k' : has_cond cs k' = true -> has_cond (mark cs k r) k' = true.
Proof. intro H. unfold mark. rewrite has_set. destruct (Nat.eqb k k'); [reflexivity|exact H]. Qed.

(* UpdateTrialStatusCondition never withdraws a terminal condition *)
Lemma update_trial_condition_keeps cf now t o js dbw cs ct k :
  update_trial_condition cf now t o js = (dbw, cs, ct) ->
  In k terminal_types -> has_cond (t_conds t) k = true -> has_cond cs k = true.
Proof.
  unfold update_trial_condition. intros U T H.
  destruct js; repeat match type of U with context [if ?c then _ else _] => destruct c end;
    inversion U; subst; auto using tmark_keeps, mark_keeps.
Qed.

(* the DB effect of UpdateTrialStatusCondition *)
Lemma update_trial_condition_db cf now t o js dbw cs ct x :
  update_trial_condition cf now t o js = (dbw, cs, ct) -> In x dbw ->
  x = (WDbReportUnavailable (t_name t), Stop) /\ c_push cf = true.
Proof.
  unfold update_trial_condition. intros U H.
  destruct js; repeat match type of U with context [if ?c then _ else _] => destruct c eqn:? end;
    inversion U; subst; try (destruct H; fail).
  destruct H as [<-|[]]. auto.
Qed.

(* every write of reconcileTrial, classified *)
Lemma plan_trial_main_shape w t dberr x :
  In x (plan_trial_main w t dberr) ->
     (x = (WJobCreate (t_name t), Stop) /\ t_completed t = false /\ find_job (t_name t) (w_jobs w) = None)
  \/ (x = (WJobDelete (t_name t), Stop) /\ t_completed t = true /\ c_retain (w_cfg w) = false /\ find_job (t_name t) (w_jobs w) <> None)
  \/ (x = (WDbReportUnavailable (t_name t), Stop) /\ c_push (w_cfg w) = true)
  \/ (exists cs o ct, x = (WTrialStatus (t_name t) cs o ct (t_rv t), Stop) /\
        forall k, In k terminal_types -> has_cond (t_conds t) k = true -> has_cond cs k = true).
Proof.
  unfold plan_trial_main.
  destruct (find_job (t_name t) (w_jobs w)) as [j|] eqn:J.
  - destruct (t_completed t && negb (c_retain (w_cfg w))) eqn:E4.
    + apply andb_true_iff in E4 as [C R]. apply negb_true_iff in R.
      assert (D : forall y, y = (WJobDelete (t_name t), Stop) ->
                  y = (WJobDelete (t_name t), Stop) /\ t_completed t = true /\ c_retain (w_cfg w) = false /\ Some j <> None)
        by (intros y ->; repeat split; auto; congruence).
      destruct (t_is t TEarlyStopped && negb (t_obs_available t)).
      * destruct dberr.
        -- intros [<-|[]]. right. left. now apply D.
        -- intro H. apply in_app_or in H as [[<-|[]]|H]; [right; left; now apply D|].
           apply in_trial_status_write in H. subst x. do 3 right. eauto.
      * intros [<-|[]]. right. left. now apply D.
    + destruct (negb (t_completed t) || t_is t TEarlyStopped); [|intros []].
      destruct (match j_phase j with JFail => Some JSFailed | JSucc => Some JSSucceeded
                                | JActive => if negb (t_is t TRunning) then Some JSRunning else None end) as [js|]; [|intros []].
      match goal with |- In x (if ?c then _ else _) -> _ => destruct c end; [intros []|].
      match goal with |- In x (if ?c then _ else _) -> _ => destruct c end; [intros []|].
      destruct (update_trial_condition _ _ _ _ _) as [[dbw cs] ct] eqn:U.
      intro H. apply in_app_or in H as [H|H]; [destruct H|]. apply in_app_or in H as [H|H].
      * apply (update_trial_condition_db _ _ _ _ _ _ _ _ _ U) in H as [-> P]. do 2 right. left. auto.
      * apply in_trial_status_write in H. subst x. do 3 right. exists cs; eexists; exists ct. split; [reflexivity|].
        intros k T Hk. eapply update_trial_condition_keeps; eauto.
  - destruct (t_completed t) eqn:C.
    + destruct (t_is t TEarlyStopped && negb (t_obs_available t)); [|intros []].
      destruct dberr; [intros []|]. cbn [app]. intro H.
      apply in_trial_status_write in H. subst x. do 3 right. eauto.
    + cbn [negb orb].
      assert (D : forall y, y = (WJobCreate (t_name t), Stop) ->
                  y = (WJobCreate (t_name t), Stop) /\ false = false /\ @None job = None) by (intros y ->; auto).
      destruct (if negb (t_is t TRunning) then Some JSRunning else None) as [js|].
      * match goal with |- In x (if ?c then _ else _) -> _ => destruct c end; [intros [<-|[]]; left; now apply D|].
        match goal with |- In x (if ?c then _ else _) -> _ => destruct c end; [intros [<-|[]]; left; now apply D|].
        destruct (update_trial_condition _ _ _ _ _) as [[dbw cs] ct] eqn:U.
        intro H. apply in_app_or in H as [H|H]; [destruct H as [<-|[]]; left; now apply D|].
        apply in_app_or in H as [H|H].
        -- apply (update_trial_condition_db _ _ _ _ _ _ _ _ _ U) in H as [-> P]. do 2 right. left. auto.
        -- apply in_trial_status_write in H. subst x. do 3 right. exists cs; eexists; exists ct. split; [reflexivity|].
           intros k T Hk. eapply update_trial_condition_keeps; eauto.
      * intros [<-|[]]. left. now apply D.
Qed.

Lemma find_trial_name n ts t : find_trial n ts = Some t -> t_name t = n /\ In t ts.
Proof. unfold find_trial. intro H. apply find_some in H as [I E]. apply Nat.eqb_eq in E. auto. Qed.

(* every write the trial controller can plan *)
Lemma plan_trial_shape w key dberr x :
  In x (plan_trial w key dberr) ->
  exists t, find_trial key (c_trials w) = Some t /\ t_name t = key /\
  (   (x = (WTrialFin key true (t_rv t), Stop) /\ t_deleting t = false)
   \/ (plan_trial w key dberr = [(WDbDelete key, Stop); (WTrialFin key false (t_rv t), Stop)] /\ t_deleting t = true)
   \/ (x = (WJobCreate key, Stop) /\ t_completed t = false /\ find_job key (w_jobs w) = None)
   \/ (x = (WJobDelete key, Stop) /\ t_completed t = true /\ c_retain (w_cfg w) = false /\ find_job key (w_jobs w) <> None)
   \/ (x = (WDbReportUnavailable key, Stop) /\ c_push (w_cfg w) = true)
   \/ (exists cs o ct, x = (WTrialStatus key cs o ct (t_rv t), Stop) /\
         forall k, In k terminal_types -> has_cond (t_conds t) k = true -> has_cond cs k = true)).
Proof.
  unfold plan_trial. destruct (find_trial key (c_trials w)) as [t|] eqn:F; [|intros []].
  destruct (find_trial_name _ _ _ F) as [N _].
  intro H. exists t. split; [reflexivity|]. split; [exact N|].
  destruct (negb (t_deleting t) && negb (t_fin t)) eqn:E1.
  { apply andb_true_iff in E1 as [D _]. apply negb_true_iff in D. destruct H as [<-|[]]. left. auto. }
  destruct (t_deleting t && t_fin t) eqn:E2.
  { apply andb_true_iff in E2 as [D _]. right. left. auto. }
  destruct (negb (t_is t TCreated)) eqn:E3.
  { apply in_trial_status_write in H. subst x. do 5 right. rewrite N. exists (mark (t_conds t) TCreated RCreated), (t_obs t), (t_ctime t).
    split; [reflexivity|]. intros k _ Hk. now apply mark_keeps. }
  apply plan_trial_main_shape in H. rewrite N in H.
  destruct H as [H|[H|[H|H]]]; [do 2 right; left|do 3 right; left|do 4 right; left|do 5 right]; exact H.
Qed.

(* ------------------------------------------------------------------ C07 at plan level *)

Theorem plan_job_create_not_completed w key dberr n :
  In (WJobCreate n) (writes (plan_trial w key dberr)) ->
  n = key /\ exists t, find_trial key (c_trials w) = Some t /\ t_completed t = false /\ find_job key (w_jobs w) = None.
Proof.
  unfold writes. rewrite in_map_iff. intros ((wr&onf)&E&H). cbn in E. subst wr.
  destruct (plan_trial_shape _ _ _ _ H) as (t&F&N&[(X&_)|[(P&D)|[(X&C&J)|[(X&_)|[(X&_)|(cs&o&ct&X&_)]]]]]); try (inversion X; fail).
  - rewrite P in H. destruct H as [X|[X|[]]]; inversion X.
  - inversion X; subst. eauto.
Qed.

Theorem plan_job_delete_completed w key dberr n :
  In (WJobDelete n) (writes (plan_trial w key dberr)) ->
  n = key /\ c_retain (w_cfg w) = false /\ exists t, find_trial key (c_trials w) = Some t /\ t_completed t = true.
Proof.
  unfold writes. rewrite in_map_iff. intros ((wr&onf)&E&H). cbn in E. subst wr.
  destruct (plan_trial_shape _ _ _ _ H) as (t&F&N&[(X&_)|[(P&D)|[(X&_)|[(X&C&R&J)|[(X&_)|(cs&o&ct&X&_)]]]]]); try (inversion X; fail).
  - rewrite P in H. destruct H as [X|[X|[]]]; inversion X.
  - inversion X; subst. eauto.
Qed.

(* releasing the finalizer of a deleted trial is planned only right behind the deletion of its observation log,
   and the plan stops if that deletion fails *)
Theorem plan_db_delete_before_finalizer w key dberr n rv onf :
  In (WTrialFin n false rv, onf) (plan_trial w key dberr) ->
  plan_trial w key dberr = [(WDbDelete key, Stop); (WTrialFin key false rv, Stop)].
Proof.
  intro H.
  destruct (plan_trial_shape _ _ _ _ H) as (t&F&N&[(X&_)|[(P&D)|[(X&_)|[(X&_)|[(X&_)|(cs&o&ct&X&_)]]]]]); try (inversion X; fail).
  rewrite P in H. destruct H as [X|[X|[]]]; inversion X; subst. exact P.
Qed.

(* C06: Succeeded is only ever set from a successful job with an available objective, on a trial that is not
   early stopped; Failed only from a failed job; MetricsUnavailable only from a successful job *)
Theorem update_condition_succeeded cf now t o js dbw cs ct :
  update_trial_condition cf now t o js = (dbw, cs, ct) ->
  has_cond (t_conds t) TSucceeded = false -> has_cond cs TSucceeded = true ->
  js = JSSucceeded /\ obs_available o = true /\ has_cond (t_conds t) TEarlyStopped = false.
Proof.
  unfold update_trial_condition. intros U H0 H1.
  destruct js; repeat match type of U with context [if ?c then _ else _] => destruct c eqn:? end;
    inversion U; subst; try congruence;
    unfold tmark_off_and, mark in H1; rewrite ?has_set, ?has_turn_off in H1; cbn in H1; try congruence.
  - repeat match goal with E : _ && _ = true |- _ => apply andb_true_iff in E as [? ?] end.
    repeat match goal with E : negb _ = true |- _ => apply negb_true_iff in E end. auto.
Qed.

Theorem update_condition_failed cf now t o js dbw cs ct :
  update_trial_condition cf now t o js = (dbw, cs, ct) ->
  has_cond (t_conds t) TFailed = false -> has_cond cs TFailed = true -> js = JSFailed.
Proof.
  unfold update_trial_condition. intros U H0 H1.
  destruct js; repeat match type of U with context [if ?c then _ else _] => destruct c eqn:? end;
    inversion U; subst; try congruence;
    unfold tmark_off_and, mark in H1; rewrite ?has_set, ?has_turn_off in H1; cbn in H1; congruence.
Qed.

Theorem update_condition_mu cf now t o js dbw cs ct :
  update_trial_condition cf now t o js = (dbw, cs, ct) ->
  has_cond (t_conds t) TMetricsUnavailable = false -> has_cond cs TMetricsUnavailable = true ->
  js = JSSucceeded /\ (obs_available o = false \/ has_cond (t_conds t) TSucceeded = true).
Proof.
  unfold update_trial_condition. intros U H0 H1.
  destruct js; repeat match type of U with context [if ?c then _ else _] => destruct c eqn:? end;
    inversion U; subst; try congruence;
    unfold tmark_off_and, mark in H1; rewrite ?has_set, ?has_turn_off in H1; cbn in H1; try congruence.
  all: split; [reflexivity|].
  all: match goal with E : _ && _ = false |- _ => apply andb_false_iff in E as [E1|E1] end; [now left|right; now apply negb_false_iff in E1].
Qed.

(* ------------------------------------------------------------------ experiment controller *)

Lemma update_condition_counts cf mx now st reached : es_counts (update_condition cf mx now st reached) = es_counts st.
Proof. unfold update_condition. repeat match goal with |- context [if ?c then _ else _] => destruct c end; reflexivity. Qed.

Lemma update_status_counts cf mx now st ts :
  es_counts (update_status cf mx now st ts) = counts_of (map (fun t => (t_name t, classify t)) ts).
Proof.
  unfold update_status. destruct (scan_best _ _ _ _ _) as [best reached].
  match goal with |- context [if ?c then _ else _] => destruct c end; [reflexivity|].
  now rewrite update_condition_counts.
Qed.

Definition requests_of (ts : list trial) (add : Z) : Z :=
  Z.of_nat (length ts) + add - Z.of_nat (length (filter (fun t => negb (t_obs_available t) && t_is t TEarlyStopped) ts)).

Definition restart_write (s : sugobj) : write * onfail :=
  (WSugStatus (s_with_conds (s_st s) (smark_running (ss_conds (s_st s)) CFalse RSugRestart)) (s_rv s), Stop).

Lemma plan_create_shape cf st ts sug add x :
  In x (fst (plan_create cf st ts sug add)) ->
     (sug = None /\ x = (WSugCreate (requests_of ts add), Stop))
  \/ (exists s, sug = Some s /\ (x = (WSugSpec (requests_of ts add) (s_rv s), Stop) \/
                                exists n, x = (WTrialCreate n, Cont) /\ In n (ss_names (s_st s))))
  \/ (exists s, sug = Some s /\ x = restart_write s /\ s_is (s_st s) SSucceeded = true /\ c_resume cf = FromVolume).
Proof.
  unfold plan_create. fold (requests_of ts add). destruct sug as [s|].
  - destruct (s_is (s_st s) SFailed); [intros []|].
    destruct (s_is (s_st s) SSucceeded && _) eqn:RS.
    { cbn [fst]. apply andb_true_iff in RS as [S R]. destruct (s_restarting (s_st s)); [intros []|]. intros [<-|[]].
      right. right. exists s. repeat split; auto. destruct (c_resume cf); try discriminate; reflexivity. }
    cbn [fst]. intro H. right. left. exists s. split; [reflexivity|].
    apply in_app_or in H as [H|H].
    + destruct (s_requests s =? requests_of ts add); [destruct H|]. destruct H as [<-|[]]. now left.
    + apply in_map_iff in H as (n&<-&I). right. exists n. split; [reflexivity|].
      destruct (_ <? _); [|destruct I]. now apply filter_In in I as [I _].
  - intros [<-|[]]. now left.
Qed.

Lemma plan_create_counts cf st ts sug add : es_counts (snd (plan_create cf st ts sug add)) = es_counts st.
Proof. unfold plan_create. destruct sug as [s|]; [|reflexivity]. destruct (s_is _ _); [reflexivity|]. destruct (_ && _); reflexivity. Qed.

Lemma plan_trials_counts cf mx st ts sug : es_counts (snd (plan_trials cf mx st ts sug)) = es_counts st.
Proof.
  unfold plan_trials. destruct (_ <? _); [reflexivity|]. destruct (_ <? _); [|reflexivity].
  destruct (0 <? _); [apply plan_create_counts|reflexivity].
Qed.

(* ReconcileTrials: the budget arithmetic.  [comp] bounds the completed trials the reconcile has counted. *)
Lemma plan_trials_shape cf mx st ts sug x :
  In x (fst (plan_trials cf mx st ts sug)) ->
  Z.of_nat (length ts) <= n_pending (es_counts st) + n_running (es_counts st) + completed_count (es_counts st) ->
  0 <= n_pending (es_counts st) + n_running (es_counts st) -> 0 <= completed_count (es_counts st) ->
  x = (WDeleteTrials, Stop) \/
  (exists r, r <= completed_count (es_counts st) + c_par cf /\ (forall m, mx = Some m -> r <= m) /\
            (ts = [] -> r <= c_par cf) /\
     ((sug = None /\ x = (WSugCreate r, Stop))
      \/ (exists s, sug = Some s /\ (x = (WSugSpec r (s_rv s), Stop) \/
                                    exists n, x = (WTrialCreate n, Cont) /\ In n (ss_names (s_st s)))))) \/
  (exists s, sug = Some s /\ x = restart_write s /\ s_is (s_st s) SSucceeded = true /\ c_resume cf = FromVolume).
Proof.
  unfold plan_trials. set (c := es_counts st). intros H Hlen Hact Hcomp.
  destruct (c_par cf <? n_pending c + n_running c) eqn:E1; [destruct H as [<-|[]]; now left|].
  destruct (n_pending c + n_running c <? c_par cf) eqn:E2; [|destruct H].
  apply Z.ltb_lt in E2.
  set (required := match mx with None => c_par cf | Some m => Z.min (m - completed_count c) (c_par cf) end) in *.
  set (add := Z.max 0 (required - (n_pending c + n_running c))) in *.
  destruct (0 <? add) eqn:E3; [|destruct H]. apply Z.ltb_lt in E3.
  apply plan_create_shape in H. destruct H as [H|[H|H]]; [| |right; right; exact H].
  all: right; left; exists (requests_of ts add).
  all: assert (Hreq : required <= c_par cf) by (unfold required; destruct mx; lia).
  all: assert (Hadd : add = required - (n_pending c + n_running c)) by lia.
  all: assert (Hies : 0 <= Z.of_nat (length (filter (fun t => negb (t_obs_available t) && t_is t TEarlyStopped) ts))) by lia.
  all: (split; [unfold requests_of; lia|]); split.
  all: try (intros m ->; unfold requests_of, required in *; lia).
  all: split; [intros ->; unfold requests_of; cbn; lia|]; auto.
Qed.

Lemma in_status_write e st x : In x (status_write e st) -> x = (WExpStatus st (e_rv e), Stop).
Proof. unfold status_write. destruct (estatus_eqb _ _); [intros []|intros [<-|[]]; reflexivity]. Qed.

Definition counts_nonneg (c : counts) : Prop :=
  0 <= n_pending c /\ 0 <= n_running c /\ 0 <= n_succeeded c /\ 0 <= n_failed c /\ 0 <= n_killed c /\ 0 <= n_es c /\ 0 <= n_mu c.

Lemma count_class_nonneg k l : 0 <= count_class k l.
Proof. unfold count_class. lia. Qed.

Lemma counts_of_nonneg l : counts_nonneg (counts_of l).
Proof. unfold counts_nonneg, counts_of; cbn; repeat split; apply count_class_nonneg. Qed.

(* ------------------------------------------------------------------ C16 at plan level *)

(* a reconcile that sees the suggestion Succeeded issues no RPC and nothing but the deletion of Deployment and Service *)
Theorem plan_sug_succeeded w resp s :
  c_sug w = Some s -> s_is (s_st s) SSucceeded = true ->
  snd (plan_sug w resp) = [] /\
  forall x, In x (fst (plan_sug w resp)) -> x = (WInfraDelete IDep, Stop) \/ x = (WInfraDelete ISvc, Stop).
Proof.
  intros Hc Hs. unfold plan_sug. rewrite Hc, Hs. cbn [fst snd]. split; [reflexivity|].
  intros x H. apply in_app_or in H as [H|H].
  - destruct (i_dep (w_infra w)); [destruct H as [<-|[]]; now left|destruct H].
  - destruct (i_svc (w_infra w)); [destruct H as [<-|[]]; now right|destruct H].
Qed.

Definition restart_enabled_e (cf : cfg) (e : expobj) : bool :=
  restartable cf (e_st e) && match e_max e with Some m => n_trials (es_counts (e_st e)) <? m | None => false end.

(* the verdict is withdrawn in memory (restart) only if the experiment succeeded by reaching max trials under
   LongRunning/FromVolume and maxTrialCount now exceeds the trials counted in its status *)
Theorem plan_restart_only_when_allowed cf e sug ws st1 stop :
  plan_exp_completed cf e sug = (ws, st1, stop) ->
  st1 <> e_st e -> e_completed (e_st e) = true /\ restart_enabled_e cf e = true /\ st1 = mark_restarting (e_st e).
Proof.
  unfold plan_exp_completed, restart_enabled_e. destruct (e_completed (e_st e)); [|intros [= <- <- <-] N; congruence].
  destruct (restartable cf (e_st e) && _); intros [= <- <- <-] N; [auto|congruence].
Qed.

(* a completed experiment whose restart is not enabled: the reconcile leaves the status in memory as it is,
   asks the suggestion for nothing and creates no trial *)
Theorem plan_completed_stable cf e sug ws st1 stop :
  plan_exp_completed cf e sug = (ws, st1, stop) ->
  e_completed (e_st e) = true -> restart_enabled_e cf e = false -> st1 = e_st e.
Proof.
  unfold plan_exp_completed, restart_enabled_e. intros P C R. rewrite C, R in P. now inversion P.
Qed.

(* ------------------------------------------------------------------ C04 at plan level: a trial cannot be stuck *)

Lemma trial_status_write_nonempty t cs o ct :
  conds_eqb (t_conds t) cs = false -> trial_status_write t cs o ct <> [].
Proof. unfold trial_status_write. intros ->. cbn. discriminate. Qed.

Lemma conds_eqb_refl_false cs cs' : (forall k, has_cond cs k = has_cond cs' k) -> True.
Proof. trivial. Qed.

Lemma conds_eqb_has cs cs' k : conds_eqb cs cs' = true -> has_cond cs k = has_cond cs' k.
Proof.
  unfold conds_eqb. intro H. apply (list_eqb_spec cond_eqb cond_eqb_spec) in H. now subst.
Qed.

(* A trial that is created, carries its finalizer, is not being deleted and is not completed always gives its
   reconcile something to do, once its job has finished and its metrics are in the DB (or its job does not exist,
   or is not yet reflected as Running): the trial controller cannot be what wedges an experiment. *)
Theorem trial_progress w t :
  t_is t TCreated = true -> t_completed t = false ->
  match find_job (t_name t) (w_jobs w) with
  | None => True
  | Some j => match j_phase j with
              | JActive => t_is t TRunning = false
              | JFail => True
              | JSucc => db_get (t_name t) (w_db w) <> None
              end
  end ->
  plan_trial_main w t false <> [].
Proof.
  intros Cr Nc Env. unfold plan_trial_main. rewrite Nc. cbn [andb negb orb].
  destruct (find_job (t_name t) (w_jobs w)) as [j|].
  - assert (NS : t_is t TSucceeded = false /\ t_is t TFailed = false /\ t_is t TMetricsUnavailable = false /\ t_is t TEarlyStopped = false).
    { unfold t_completed in Nc. repeat (apply orb_false_iff in Nc as [Nc ?]). auto. }
    destruct NS as (N1&N2&N3&N4).
    destruct (j_phase j).
    + rewrite Env. cbn [negb]. rewrite N4. cbn [andb].
      unfold update_trial_condition. unfold t_is in *. rewrite Env, N4. cbn [negb andb].
      cbn [app]. apply trial_status_write_nonempty.
      destruct (conds_eqb (t_conds t) (mark (t_conds t) TRunning RRunning)) eqn:E; [|reflexivity].
      apply (conds_eqb_has _ _ TRunning) in E. unfold mark in E. rewrite has_set, Nat.eqb_refl in E. cbn in E. congruence.
    + cbn [andb]. destruct (db_get (t_name t) (w_db w)) as [v|] eqn:D; [|exfalso; now apply Env].
      cbn [andb]. unfold update_trial_condition. unfold t_is in *. rewrite N1, N3, N4. cbn [negb andb].
      destruct (obs_available (Some v)).
      * cbn [app]. apply trial_status_write_nonempty.
        destruct (conds_eqb _ _) eqn:E; [|reflexivity].
        apply (conds_eqb_has _ _ TSucceeded) in E. unfold tmark_off_and, mark in E. rewrite has_set, Nat.eqb_refl in E. cbn in E. congruence.
      * destruct (c_push (w_cfg w)); [cbn; discriminate|]. cbn [app]. apply trial_status_write_nonempty.
        destruct (conds_eqb _ _) eqn:E; [|reflexivity].
        apply (conds_eqb_has _ _ TMetricsUnavailable) in E. unfold tmark_off_and, mark in E. rewrite has_set, Nat.eqb_refl in E. cbn in E. congruence.
    + rewrite N4. cbn [andb]. unfold update_trial_condition. unfold t_is in *. rewrite N2, N4. cbn [negb andb app].
      apply trial_status_write_nonempty.
      destruct (conds_eqb _ _) eqn:E; [|reflexivity].
      apply (conds_eqb_has _ _ TFailed) in E. unfold tmark_off_and, mark in E. rewrite has_set, Nat.eqb_refl in E. cbn in E. congruence.
  - destruct (negb (t_is t TRunning)); [|cbn; discriminate].
    rewrite andb_false_r. cbn [andb]. destruct (update_trial_condition _ _ _ _ _) as [[dbw cs] ct].
    intro H. apply app_eq_nil in H as [H _]. discriminate.
Qed.

(* ------------------------------------------------------------------ C06: Succeeded is exclusive and needs an objective value *)

Definition good_conds (cs : conds) (o : obs) : Prop :=
  (has_cond cs TSucceeded = true ->
   has_cond cs TFailed = false /\ has_cond cs TMetricsUnavailable = false /\ has_cond cs TEarlyStopped = false /\ obs_available o = true)
  /\ (has_cond cs TMetricsUnavailable = true -> has_cond cs TRunning = false).

Definition tgood (t : trial) : Prop := good_conds (t_conds t) (t_obs t).

Lemma not_completed_parts t : t_completed t = false ->
  t_is t TSucceeded = false /\ t_is t TFailed = false /\ t_is t TKilled = false /\ t_is t TEarlyStopped = false /\ t_is t TMetricsUnavailable = false.
Proof. unfold t_completed. intro H. repeat (apply orb_false_iff in H as [H ?]). auto. Qed.

Lemma utc_good cf now t o js dbw cs ct :
  update_trial_condition cf now t o js = (dbw, cs, ct) ->
  t_completed t = false \/ t_is t TEarlyStopped = true -> tgood t -> good_conds cs o.
Proof.
  intros U G [T1 T2].
  assert (S0 : has_cond (t_conds t) TSucceeded = false).
  { destruct G as [G|G]; [apply not_completed_parts in G; tauto|].
    destruct (has_cond (t_conds t) TSucceeded) eqn:S; [|reflexivity]. destruct (T1 eq_refl) as (_&_&E&_). unfold t_is in G. congruence. }
  unfold update_trial_condition in U.
  destruct js; repeat match type of U with context [if ?c then _ else _] => destruct c eqn:? end; inversion U; subst;
    unfold good_conds, tmark_off_and, mark; rewrite ?has_set, ?has_turn_off; cbn [Nat.eqb TSucceeded TFailed TMetricsUnavailable TEarlyStopped TRunning];
    repeat match goal with E : _ && _ = true |- _ => apply andb_true_iff in E as [? ?] end;
    repeat match goal with E : negb _ = true |- _ => apply negb_true_iff in E end;
    try (split; [intro K; congruence|]); try (split; [|intro K; congruence]); auto.
  - (* Succeeded marked *)
    intros _. destruct G as [G|G]; [|unfold t_is in G; congruence].
    apply not_completed_parts in G. unfold t_is in G. tauto.
  - (* Running marked: the trial is not MetricsUnavailable *)
    intro K. exfalso. destruct G as [G|G]; [apply not_completed_parts in G; unfold t_is in G; destruct G as (_&_&_&_&G); congruence|unfold t_is in G; congruence].
Qed.

Lemma plan_trial_main_good w t dberr n cs o ct rv onf :
  In (WTrialStatus n cs o ct rv, onf) (plan_trial_main w t dberr) -> tgood t -> good_conds cs o.
Proof.
  unfold plan_trial_main.
  assert (ES : forall o', t_is t TEarlyStopped = true -> tgood t -> good_conds (t_conds t) o').
  { intros o' E [T1 T2]. split; [|exact T2]. intro S. destruct (T1 S) as (_&_&E'&_). unfold t_is in E. congruence. }
  destruct (find_job (t_name t) (w_jobs w)) as [j|].
  - destruct (t_completed t && negb (c_retain (w_cfg w))).
    + destruct (t_is t TEarlyStopped && negb (t_obs_available t)) eqn:E.
      * apply andb_true_iff in E as [E _]. destruct dberr; [intros [X|[]]; inversion X|].
        intro H. apply in_app_or in H as [[X|[]]|H]; [inversion X|]. apply in_trial_status_write in H. inversion H; subst. now apply ES.
      * intros [X|[]]; inversion X.
    + destruct (negb (t_completed t) || t_is t TEarlyStopped) eqn:G; [|intros []].
      destruct (match j_phase j with JFail => Some JSFailed | JSucc => Some JSSucceeded
                                | JActive => if negb (t_is t TRunning) then Some JSRunning else None end) as [js|]; [|intros []].
      match goal with |- In _ (if ?c then _ else _) -> _ => destruct c end; [intros []|].
      match goal with |- In _ (if ?c then _ else _) -> _ => destruct c end; [intros []|].
      destruct (update_trial_condition _ _ _ _ _) as [[dbw cs'] ct'] eqn:U.
      intro H. apply in_app_or in H as [H|H]; [destruct H|]. apply in_app_or in H as [H|H].
      * apply (update_trial_condition_db _ _ _ _ _ _ _ _ _ U) in H as [X _]. inversion X.
      * apply in_trial_status_write in H. inversion H; subst. eapply utc_good; eauto.
        apply orb_true_iff in G as [G|G]; [left; now apply negb_true_iff in G|now right].
  - destruct (t_completed t) eqn:C.
    + destruct (t_is t TEarlyStopped && negb (t_obs_available t)) eqn:E; [|intros []].
      apply andb_true_iff in E as [E _]. destruct dberr; [intros []|].
      intro H. apply in_app_or in H as [[]|H]. apply in_trial_status_write in H. inversion H; subst. now apply ES.
    + cbn [negb orb].
      destruct (if negb (t_is t TRunning) then Some JSRunning else None) as [js|]; [|intros [X|[]]; inversion X].
      match goal with |- In _ (if ?c then _ else _) -> _ => destruct c end; [intros [X|[]]; inversion X|].
      match goal with |- In _ (if ?c then _ else _) -> _ => destruct c end; [intros [X|[]]; inversion X|].
      destruct (update_trial_condition _ _ _ _ _) as [[dbw cs'] ct'] eqn:U.
      intro H. apply in_app_or in H as [H|H]; [destruct H as [X|[]]; inversion X|].
      apply in_app_or in H as [H|H].
      * apply (update_trial_condition_db _ _ _ _ _ _ _ _ _ U) in H as [X _]. inversion X.
      * apply in_trial_status_write in H. inversion H; subst. eapply utc_good; eauto.
Qed.

Lemma plan_trial_good w key dberr n cs o ct rv onf :
  In (WTrialStatus n cs o ct rv, onf) (plan_trial w key dberr) ->
  exists t, find_trial key (c_trials w) = Some t /\ (tgood t -> good_conds cs o).
Proof.
  unfold plan_trial. destruct (find_trial key (c_trials w)) as [t|]; [|intros []]. intro H. exists t. split; [reflexivity|].
  destruct (negb (t_deleting t) && negb (t_fin t)); [destruct H as [X|[]]; inversion X|].
  destruct (t_deleting t && t_fin t); [destruct H as [X|[X|[]]]; inversion X|].
  destruct (negb (t_is t TCreated)).
  - apply in_trial_status_write in H. inversion H; subst. intros [T1 T2]. unfold good_conds, mark. rewrite !has_set. cbn. split; assumption.
  - intro T. eapply plan_trial_main_good; eauto.
Qed.

(* ------------------------------------------------------------------ C03: a reconcile that sees a settled verdict does not touch it *)

Definition verdict_same (a b : estatus) : Prop :=
  get_cond (es_conds b) ESucceeded = get_cond (es_conds a) ESucceeded /\
  get_cond (es_conds b) EFailed = get_cond (es_conds a) EFailed /\
  has_cond (es_conds b) ERunning = has_cond (es_conds a) ERunning /\
  es_ctime b = es_ctime a.

Lemma verdict_same_refl a : verdict_same a a.
Proof. repeat split. Qed.

Lemma update_status_completed cf mx now st ts :
  e_completed st = true ->
  es_conds (update_status cf mx now st ts) = es_conds st /\ es_ctime (update_status cf mx now st ts) = es_ctime st.
Proof.
  intro C. unfold update_status. destruct (scan_best _ _ _ _ _) as [best reached].
  match goal with |- context [if ?c then _ else _] => assert (E : c = true) by exact C end. rewrite E. split; reflexivity.
Qed.

Lemma plan_exp_settled w e st rv onf :
  c_exp w = Some e -> In (WExpStatus st rv, onf) (plan_exp w) ->
  e_completed (e_st e) = true -> restart_enabled_e (w_cfg w) e = false -> verdict_same (e_st e) st.
Proof.
  intros Hc H C R. unfold plan_exp in H. rewrite Hc in H.
  destruct (negb (e_deleting e) && negb (e_fin e)); [destruct H as [X|[]]; inversion X|].
  destruct (e_deleting e && e_fin e); [destruct H as [X|[]]; inversion X|].
  destruct (plan_exp_completed (w_cfg w) e (c_sug w)) as [[ws1 st1] stop] eqn:PC.
  assert (S1 : st1 = e_st e) by (eapply plan_completed_stable; eauto). subst st1.
  assert (N1 : ~ In (WExpStatus st rv, onf) ws1).
  { intro I. revert PC. unfold plan_exp_completed. rewrite C. unfold restart_enabled_e in R. rewrite R. intros [= <- _].
    destruct (c_resume (w_cfg w)), (c_sug w) as [s|]; try (destruct I; fail);
      (destruct (s_completed (s_st s) || s_restarting (s_st s)); [destruct I|destruct I as [X|[]]; inversion X]). }
  destruct stop; [contradiction|].
  destruct (negb (e_is (e_st e) ECreated)).
  - apply in_app_or in H as [H|H]; [contradiction|]. apply in_status_write in H. inversion H; subst.
    unfold verdict_same, mark. cbn [es_conds es_ctime with_conds]. rewrite !get_set_other by discriminate. rewrite has_set. cbn. auto.
  - apply in_app_or in H as [H|H]; [contradiction|]. unfold plan_exp_reconcile in H.
    set (st2 := match c_trials w with [] => e_st e | _ => update_status (w_cfg w) (e_max e) (w_clock w) (e_st e) (c_trials w) end) in *.
    assert (S2 : es_conds st2 = es_conds (e_st e) /\ es_ctime st2 = es_ctime (e_st e)).
    { unfold st2. destruct (c_trials w); [auto|]. now apply update_status_completed. }
    destruct S2 as [S2 S3].
    assert (C2 : e_completed st2 = true) by (unfold e_completed, e_is in *; now rewrite S2).
    rewrite C2 in H. apply in_status_write in H. inversion H; subst.
    unfold verdict_same. rewrite S2, S3. auto.
Qed.

(* ------------------------------------------------------------------ the status counters are those of the class list *)

Definition status_wf (st : estatus) : Prop := es_counts st = counts_of (es_classes st).

Lemma update_condition_classes cf mx now st reached : es_classes (update_condition cf mx now st reached) = es_classes st.
Proof. unfold update_condition. repeat match goal with |- context [if ?c then _ else _] => destruct c end; reflexivity. Qed.

Lemma update_status_classes cf mx now st ts :
  es_classes (update_status cf mx now st ts) = map (fun t => (t_name t, classify t)) ts.
Proof.
  unfold update_status. destruct (scan_best _ _ _ _ _) as [best reached].
  match goal with |- context [if ?c then _ else _] => destruct c end; [reflexivity|].
  now rewrite update_condition_classes.
Qed.

Lemma plan_create_classes cf st ts sug add : es_classes (snd (plan_create cf st ts sug add)) = es_classes st.
Proof. unfold plan_create. destruct sug as [s|]; [|reflexivity]. destruct (s_is _ _); [reflexivity|]. destruct (_ && _); reflexivity. Qed.

Lemma plan_trials_classes cf mx st ts sug : es_classes (snd (plan_trials cf mx st ts sug)) = es_classes st.
Proof.
  unfold plan_trials. destruct (_ <? _); [reflexivity|]. destruct (_ <? _); [|reflexivity].
  destruct (0 <? _); [apply plan_create_classes|reflexivity].
Qed.

Lemma plan_exp_completed_classes cf e sug ws st1 stop :
  plan_exp_completed cf e sug = (ws, st1, stop) -> es_classes st1 = es_classes (e_st e) /\ es_counts st1 = es_counts (e_st e).
Proof.
  unfold plan_exp_completed. destruct (e_completed (e_st e)); [|now intros [= <- <- <-]].
  destruct (restartable cf (e_st e) && _); now intros [= <- <- <-].
Qed.

(* every experiment status the controller plans to write either keeps the counters and class list of the status it
   read, or carries the class list of the trials it listed together with the counters of that list *)
Lemma plan_exp_status_classes w e st rv onf :
  c_exp w = Some e -> In (WExpStatus st rv, onf) (plan_exp w) ->
  (es_classes st = es_classes (e_st e) /\ es_counts st = es_counts (e_st e)) \/
  (es_classes st = map (fun t => (t_name t, classify t)) (c_trials w) /\ es_counts st = counts_of (es_classes st)).
Proof.
  intros Hc H. unfold plan_exp in H. rewrite Hc in H.
  destruct (negb (e_deleting e) && negb (e_fin e)); [destruct H as [X|[]]; inversion X|].
  destruct (e_deleting e && e_fin e); [destruct H as [X|[]]; inversion X|].
  destruct (plan_exp_completed (w_cfg w) e (c_sug w)) as [[ws1 st1] stop] eqn:PC.
  destruct (plan_exp_completed_classes _ _ _ _ _ _ PC) as [K1 K2].
  assert (N1 : ~ In (WExpStatus st rv, onf) ws1).
  { intro I. revert PC. unfold plan_exp_completed.
    destruct (e_completed (e_st e)); [|intros [= <- _ _]; destruct I].
    assert (C : forall l, In (WExpStatus st rv, onf) l ->
                (forall x, In x l -> exists s0 st0, x = (WSugStatus st0 (s_rv s0), Stop)) -> False).
    { intros l Il Hl. destruct (Hl _ Il) as (s0&st0&X). inversion X. }
    destruct (restartable (w_cfg w) (e_st e) && _); intros [= <- _ _].
    - apply (C _ I). intros x Hx. apply in_app_or in Hx as [Hx|Hx].
      + destruct (c_resume (w_cfg w)), (c_sug w) as [s|]; try (destruct Hx; fail);
          (destruct (s_completed (s_st s) || s_restarting (s_st s)); [destruct Hx|destruct Hx as [<-|[]]; eauto]).
      + destruct (c_resume (w_cfg w)), (c_sug w) as [s|]; try (destruct Hx; fail).
        destruct (s_restarting (s_st s)); [destruct Hx|destruct Hx as [<-|[]]; eauto].
    - apply (C _ I). intros x Hx.
      destruct (c_resume (w_cfg w)), (c_sug w) as [s|]; try (destruct Hx; fail);
        (destruct (s_completed (s_st s) || s_restarting (s_st s)); [destruct Hx|destruct Hx as [<-|[]]; eauto]). }
  destruct stop; [contradiction|].
  destruct (negb (e_is st1 ECreated)).
  - apply in_app_or in H as [H|H]; [contradiction|]. apply in_status_write in H. inversion H; subst. left. cbn. auto.
  - apply in_app_or in H as [H|H]; [contradiction|]. unfold plan_exp_reconcile in H.
    set (st2 := match c_trials w with [] => st1 | _ => update_status (w_cfg w) (e_max e) (w_clock w) st1 (c_trials w) end) in *.
    assert (S2 : (es_classes st2 = es_classes (e_st e) /\ es_counts st2 = es_counts (e_st e)) \/
                 (es_classes st2 = map (fun t => (t_name t, classify t)) (c_trials w) /\ es_counts st2 = counts_of (es_classes st2))).
    { unfold st2. destruct (c_trials w) as [|t0 ts'] eqn:Et; [left; auto|]. right.
      rewrite update_status_classes, update_status_counts. auto. }
    destruct (e_completed st2).
    + apply in_status_write in H. inversion H; subst. exact S2.
    + destruct (plan_trials (w_cfg w) (e_max e) st2 (c_trials w) (c_sug w)) as [ws2 st3] eqn:PT.
      assert (E3 : es_classes st3 = es_classes st2 /\ es_counts st3 = es_counts st2).
      { change st3 with (snd (ws2, st3)). rewrite <- PT. split; [apply plan_trials_classes|apply plan_trials_counts]. }
      destruct E3 as [E3 E4].
      apply in_app_or in H as [H|H].
      * exfalso. assert (H' : In (WExpStatus st rv, onf) (fst (plan_trials (w_cfg w) (e_max e) st2 (c_trials w) (c_sug w)))) by now rewrite PT.
        clear -H'. unfold plan_trials in H'. destruct (_ <? _); [destruct H' as [X|[]]; inversion X|].
        destruct (_ <? _); [|destruct H']. destruct (0 <? _); [|destruct H'].
        apply plan_create_shape in H' as [(_&X)|[(s&_&[X|(n&X&_)])|(s&_&X&_)]]; inversion X.
      * apply in_status_write in H. inversion H; subst. rewrite E3, E4. exact S2.
Qed.
