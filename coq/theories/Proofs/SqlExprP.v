(* C19: soundness of the syntactic check [data_free] on SQL-argument expression trees (Model/SqlExpr.v):
   the text of a data-free expression is the same whatever the string data are, for every run. *)
From KV Require Import Base.Prelude Model.SqlExpr.

Lemma data_free_nth defs i : forallb data_free defs = true -> data_free (nth i defs (XLit EmptyString)) = true.
Proof.
  revert i. induction defs as [|a defs IH]; intros [|i] H; simpl in *; try reflexivity;
    apply andb_true_iff in H as [H1 H2]; auto.
Qed.

Theorem data_free_sound (d1 d2 : string -> string) :
  forall r e self, data_free e = true -> eval d1 self r e = eval d2 self r e.
Proof.
  induction r as [|zs|r1 IH1 r2 IH2|lo hi r IH| |i ri IHi before IHb]; intros e self H;
    destruct e as [s|a b| |fmt n|a|nm defs|k]; cbn [eval]; try reflexivity; try discriminate H.
  - cbn [data_free] in H. apply andb_true_iff in H as [Ha Hb]. rewrite (IH1 a self Ha), (IH2 b self Hb). reflexivity.
  - cbn [data_free] in H. rewrite (IH a self H). reflexivity.
  - rewrite (IHb (XVar nm defs) self H). apply IHi. cbn [data_free] in H. apply data_free_nth. exact H.
Qed.

(* the same, for two runs that agree (they are the same run): stated as in DESIGN.md — two environments that agree on
   integers and branch decisions, i.e. share the run, and differ arbitrarily on string data, give the same text *)
Corollary data_free_text_independent_of_data e :
  data_free e = true -> forall r d1 d2 self, eval d1 self r e = eval d2 self r e.
Proof. intros H r d1 d2 self. apply data_free_sound. exact H. Qed.

(* the check is not vacuous: an expression that mentions data does depend on it *)
Example data_dependence_detected :
  data_free (XCat (XLit "x = '") (XOther "trialName")) = false /\
  eval (fun _ => "a"%string) EmptyString (RCat RUnit RUnit) (XCat (XLit "x = '") (XOther "trialName")) <>
  eval (fun _ => "b"%string) EmptyString (RCat RUnit RUnit) (XCat (XLit "x = '") (XOther "trialName")).
Proof. split; [reflexivity|discriminate]. Qed.
