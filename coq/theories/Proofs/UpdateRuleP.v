(* Lemmas about Model/UpdateRule.v (C15) *)
From KV Require Import Base.Prelude Model.Validator Model.UpdateRule Proofs.ValidatorP.
Open Scope list_scope.
Open Scope Z_scope.

Lemma optZ_eqb_spec a b : optZ_eqb a b = true <-> a = b.
Proof. unfold optZ_eqb. apply option_eqb_spec. intros x y. apply Z.eqb_eq. Qed.

Lemma budget_eqb_spec a b : budget_eqb a b = true <-> a = b.
Proof.
  destruct a as [p m f], b as [p' m' f']. unfold budget_eqb; cbn.
  rewrite !andb_true_iff, !optZ_eqb_spec. split; [intros [[-> ->] ->]; reflexivity|intros [= -> -> ->]; auto].
Qed.

Section Update.
  Variable R : Type.
  Variable dec : forall a b : R, {a = b} + {a <> b}.

  Lemma R_eqb_spec a b : R_eqb R dec a b = true <-> a = b.
  Proof. unfold R_eqb. destruct (dec a b); split; congruence. Qed.

  Lemma update_errs_nil nb rest (o : stored R) :
    update_errs dec nb rest o = [] <->
    rest = o_rest o /\
    (nb <> stored_budget o ->
     (forall m, b_max nb = Some m -> o_trials o < m) /\ (is_completed (o_conds o) = true -> restartable o = true)).
  Proof.
    unfold update_errs.
    destruct (R_eqb R dec rest (o_rest o)) eqn:ER.
    - apply R_eqb_spec in ER. rewrite andb_true_r. cbn [negb when]. rewrite app_nil_r.
      destruct (budget_eqb nb (stored_budget o)) eqn:EB.
      + apply budget_eqb_spec in EB. cbn. split; [intros _; split; [exact ER|congruence]|reflexivity].
      + assert (NB : nb <> stored_budget o) by (intro H; apply budget_eqb_spec in H; congruence).
        cbn [negb andb]. split.
        * intro H. apply app_eq_nil in H. destruct H as [H7 H8]. apply when_E_nil in H7, H8.
          split; [exact ER|]. intros _. split.
          -- intros m Em. rewrite Em in H8. now apply Z.leb_gt in H8.
          -- intro C. rewrite C in H7. cbn in H7. now apply negb_false_iff in H7.
        * intros [_ H]. destruct (H NB) as [H8 H7].
          replace (is_completed (o_conds o) && negb (restartable o))%bool with false.
          2:{ destruct (is_completed (o_conds o)); [rewrite (H7 eq_refl)|]; reflexivity. }
          replace (match b_max nb with Some m => m <=? o_trials o | None => false end) with false; [reflexivity|].
          destruct (b_max nb) as [m|]; [|reflexivity]. symmetry. apply Z.leb_gt. auto.
    - assert (NR : rest <> o_rest o) by (intro H; apply R_eqb_spec in H; congruence).
      split; [|intros [H _]; congruence].
      intro H. apply app_eq_nil in H. destruct H as [_ H]. apply app_eq_nil in H. destruct H as [_ H]. discriminate.
  Qed.

  (* C15_update *)
  Lemma update_iff en e rest (o : stored R) :
    validate_update dec en e rest o = Ok [] <->
    validate en e = Ok [] /\ rest = o_rest o /\
    (budget_of e <> stored_budget o ->
     (forall m, e_max e = Some m -> o_trials o < m) /\ (is_completed (o_conds o) = true -> restartable o = true)).
  Proof.
    unfold validate_update, validate. rewrite validate_gen_mid, update_errs_nil. reflexivity.
  Qed.

  (* C15_noop *)
  Lemma update_noop en e rest (o : stored R) :
    validate en e = Ok [] -> budget_of e = stored_budget o -> rest = o_rest o -> validate_update dec en e rest o = Ok [].
  Proof. intros V B Rr. apply update_iff. split; [exact V|]. split; [exact Rr|]. congruence. Qed.

  (* an update of a defaulted object never panics either *)
  Lemma update_no_crash en e0 rest (o : stored R) s : validate_update dec en (set_default e0) rest o <> Crash s.
  Proof. apply validate_gen_no_crash. Qed.
End Update.

Lemma restartable_spec : forall (R : Type) (o : stored R),
  restartable o = true <->
  (exists c, get_ocond (o_conds o) 3 = Some c /\ oc_true c = true /\ oc_maxreached c = true) /\ (o_resume o = RLong \/ o_resume o = RVolume).
Proof.
  intros R o. unfold restartable, is_succeeded, has_ocond, max_trials_reached.
  destruct (get_ocond (o_conds o) 3) as [c|].
  - rewrite !andb_true_iff. split.
    + intros [[T [_ M]] P]. split; [exists c; auto|]. destruct (o_resume o); try discriminate; auto.
    + intros [(c' & [= <-] & T & M) P]. repeat split; auto. destruct P as [-> | ->]; reflexivity.
  - split; [discriminate|]. intros [(c & E & _) _]. discriminate.
Qed.
