(* Proofs about Model/TrialInstance.v: what every field of the Trial built by getTrialInstance is. *)
From KV Require Import Base.Prelude Model.TrialInstance.

Lemma nlookup_nset_same k v m : nlookup k (nset k v m) = Some v.
Proof.
  induction m as [|[k' w] m IH]; simpl; [now rewrite Nat.eqb_refl|].
  destruct (Nat.eqb k k') eqn:E; simpl; rewrite E; [reflexivity|exact IH].
Qed.

Lemma nlookup_nset_other k k0 v m : k <> k0 -> nlookup k (nset k0 v m) = nlookup k m.
Proof.
  intro H. induction m as [|[k' w] m IH]; simpl.
  - apply Nat.eqb_neq in H. now rewrite H.
  - destruct (Nat.eqb k0 k') eqn:E; simpl.
    + apply Nat.eqb_eq in E. subst k'. apply Nat.eqb_neq in H. now rewrite H.
    + destruct (Nat.eqb k k'); [reflexivity|exact IH].
Qed.

Lemma nlookup_app k l1 l2 :
  nlookup k (l1 ++ l2) = match nlookup k l1 with Some v => Some v | None => nlookup k l2 end.
Proof. induction l1 as [|[k' w] l1 IH]; simpl; [reflexivity|]. destruct (Nat.eqb k k'); [reflexivity|exact IH]. Qed.

(* in [overlay dst src] the LAST binding of a key in src wins, then dst *)
Lemma nlookup_overlay k src : forall dst,
  nlookup k (overlay dst src) = match nlookup k (rev src) with Some v => Some v | None => nlookup k dst end.
Proof.
  induction src as [|[k0 v0] src IH]; intro dst; [reflexivity|].
  unfold overlay in *. cbn [fold_left fst snd rev]. rewrite IH, nlookup_app.
  destruct (nlookup k (rev src)); [reflexivity|]. simpl.
  destruct (Nat.eqb k k0) eqn:E.
  - apply Nat.eqb_eq in E. subst. apply nlookup_nset_same.
  - apply Nat.eqb_neq in E. now apply nlookup_nset_other.
Qed.

(* util.TrialLabels: the experiment's labels, with the experiment-name label forced *)
Lemma trial_labels_spec e k :
  nlookup k (trial_labels e) = if Nat.eqb k label_experiment then Some (e_name e) else nlookup k (rev (e_labels e)).
Proof.
  unfold trial_labels. destruct (Nat.eqb k label_experiment) eqn:E.
  - apply Nat.eqb_eq in E. subst. apply nlookup_nset_same.
  - apply Nat.eqb_neq in E. rewrite nlookup_nset_other by exact E. rewrite nlookup_overlay.
    destruct (nlookup k (rev (e_labels e))); reflexivity.
Qed.

Definition controller_ref (e : experiment) : owner_ref :=
  {| o_apiv := apiv_experiment; o_kind := kind_experiment; o_name := e_name e; o_uid := e_uid e;
     o_controller := true; o_block := true |}.

Theorem trial_fields : forall gen e a t, get_trial_instance gen e a = Ok t ->
  exists tpl, e_tt e = Some tpl
  /\ t_name t = a_name a
  /\ t_ns t = e_ns e
  /\ (forall k, nlookup k (t_labels t) =
        match match a_labels a with Some al => nlookup k (rev al) | None => None end with
        | Some v => Some v                                            (* the assignment's label *)
        | None => if Nat.eqb k label_experiment then Some (e_name e)  (* katib.kubeflow.org/experiment = experiment name *)
                  else nlookup k (rev (e_labels e))                   (* the experiment's label *)
        end)
  /\ t_owners t = [controller_ref e]
  /\ t_objective t = e_objective e
  /\ t_params t = a_params a
  /\ t_rules t = (if e_es e then a_rules a else [])
  /\ gen (a_name a) (e_ns e) (a_params a) = Ok (t_runspec t)
  /\ t_retain t = tt_retain tpl
  /\ t_collector t = e_collector e
  /\ t_ppl t = tt_ppl tpl
  /\ t_pcn t = tt_pcn tpl
  /\ (tt_succ tpl <> 0 -> tt_fail tpl <> 0 -> t_succ t = tt_succ tpl /\ t_fail t = tt_fail tpl)
  /\ t_status_empty t = true.
Proof.
  intros gen e a t H. unfold get_trial_instance in H.
  destruct (e_tt e) as [tpl|]; [|discriminate]. exists tpl.
  destruct (gen (a_name a) (e_ns e) (a_params a)) as [rs| |] eqn:G; try discriminate.
  injection H as <-. cbn. repeat split; try reflexivity.
  - intro k. destruct (a_labels a) as [al|].
    + rewrite nlookup_overlay. destruct (nlookup k (rev al)); [reflexivity|apply trial_labels_spec].
    + apply trial_labels_spec.
  - apply Nat.eqb_neq in H, H0. now rewrite H, H0.
  - apply Nat.eqb_neq in H, H0. now rewrite H, H0.
Qed.

(* failures of the generator are passed on; no trial is built *)
Theorem trial_gen_error : forall gen e a tpl c, e_tt e = Some tpl ->
  gen (a_name a) (e_ns e) (a_params a) = Err c -> get_trial_instance gen e a = Err c.
Proof. intros gen e a tpl c T G. unfold get_trial_instance. now rewrite T, G. Qed.
