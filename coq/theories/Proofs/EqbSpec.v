(* The boolean equalities used for "did the status change?" decide equality. *)
From KV Require Import Base.Prelude Base.Cond Model.World.
Open Scope Z_scope.

Lemma conds_eqb_eq a b : conds_eqb a b = true <-> a = b.
Proof. apply list_eqb_spec. apply cond_eqb_spec. Qed.

Lemma class_eqb_eq a b : class_eqb a b = true <-> a = b.
Proof. destruct a, b; cbn; split; congruence. Qed.

Lemma optZ_eqb_eq a b : optZ_eqb a b = true <-> a = b.
Proof. apply option_eqb_spec. apply Z.eqb_eq. Qed.

Lemma obs_eqb_eq a b : obs_eqb a b = true <-> a = b.
Proof. apply option_eqb_spec. apply optZ_eqb_eq. Qed.

Lemma optnat_eqb_eq a b : optnat_eqb a b = true <-> a = b.
Proof. apply option_eqb_spec. apply Nat.eqb_eq. Qed.

Lemma counts_eqb_eq a b : counts_eqb a b = true <-> a = b.
Proof.
  destruct a, b. unfold counts_eqb. cbn. rewrite !andb_true_iff, !Z.eqb_eq. split.
  - intros [[[[[[[-> ->] ->] ->] ->] ->] ->] ->]. reflexivity.
  - intros [= -> -> -> -> -> -> -> ->]. repeat split.
Qed.

Lemma estatus_eqb_eq a b : estatus_eqb a b = true <-> a = b.
Proof.
  destruct a as [c1 n1 l1 o1 t1], b as [c2 n2 l2 o2 t2]. unfold estatus_eqb. cbn.
  rewrite !andb_true_iff, conds_eqb_eq, counts_eqb_eq, optnat_eqb_eq.
  rewrite (list_eqb_spec (fun p q : nat * class => Nat.eqb (fst p) (fst q) && class_eqb (snd p) (snd q))).
  2: { intros [x1 y1] [x2 y2]. cbn. rewrite andb_true_iff, Nat.eqb_eq, class_eqb_eq. split; [intros [-> ->]; reflexivity|intros [= -> ->]; auto]. }
  rewrite (option_eqb_spec (fun p q : nat * obs => Nat.eqb (fst p) (fst q) && obs_eqb (snd p) (snd q))).
  2: { intros [x1 y1] [x2 y2]. cbn. rewrite andb_true_iff, Nat.eqb_eq, obs_eqb_eq. split; [intros [-> ->]; reflexivity|intros [= -> ->]; auto]. }
  split; [intros [[[[-> ->] ->] ->] ->]; reflexivity|intros [= -> -> -> -> ->]; auto].
Qed.

Lemma sstatus_eqb_eq a b : sstatus_eqb a b = true <-> a = b.
Proof.
  destruct a as [n1 c1 k1 s1], b as [n2 c2 k2 s2]. unfold sstatus_eqb. cbn.
  rewrite !andb_true_iff, conds_eqb_eq, Z.eqb_eq, Nat.eqb_eq, (list_eqb_spec Nat.eqb Nat.eqb_eq).
  split; [intros [[[-> ->] ->] ->]; reflexivity|intros [= -> -> -> ->]; auto].
Qed.

Lemma status_write_nil e st : status_write e st = [] -> st = e_st e.
Proof.
  unfold status_write. destruct (estatus_eqb (e_st e) st) eqn:E; [|discriminate]. intros _. symmetry. now apply estatus_eqb_eq.
Qed.

Lemma sstatus_write_nil s st : sstatus_write s st = [] -> st = s_st s.
Proof.
  unfold sstatus_write. destruct (sstatus_eqb (s_st s) st) eqn:E; [|discriminate]. intros _. symmetry. now apply sstatus_eqb_eq.
Qed.

Lemma trial_status_write_nil t cs o ct : trial_status_write t cs o ct = [] -> cs = t_conds t /\ o = t_obs t /\ ct = t_ctime t.
Proof.
  unfold trial_status_write. destruct (conds_eqb (t_conds t) cs && obs_eqb (t_obs t) o && optnat_eqb (t_ctime t) ct) eqn:E; [|discriminate].
  intros _. rewrite !andb_true_iff, conds_eqb_eq, obs_eqb_eq, optnat_eqb_eq in E. destruct E as [[-> ->] ->]. auto.
Qed.
