From KV Require Import Base.Prelude Model.Select.

(* every trial was built by getTrialInstance of its owner, in the owner's namespace, and carries the owner's name under the
   experiment-name label (the labels the algorithm attached to its assignment did not override THAT label; any other label
   of the trial may differ from the experiment's current ones) *)
Definition trial_wf (exps : list sexp) (t : strial) : Prop :=
  exists e, nth_error exps (st_owner t) = Some e /\ st_ns t = se_ns e /\ lookup KEY_EXPERIMENT (st_labels t) = Some (se_name e).

Definition cluster_wf (exps : list sexp) (cl : list strial) : Prop :=
  (forall i j ei ej, nth_error exps i = Some ei -> nth_error exps j = Some ej ->
                     se_ns ei = se_ns ej -> se_name ei = se_name ej -> i = j)
  /\ Forall (trial_wf exps) cl.

Lemma lookup_set_same k v l : lookup k (set_label k v l) = Some v.
Proof.
  induction l as [|[k' v'] r IH]; cbn; [now rewrite Nat.eqb_refl|].
  destruct (Nat.eqb k' k) eqn:E; cbn; [now rewrite Nat.eqb_refl|now rewrite E].
Qed.

Lemma in_set_label k v l : In (k, v) (set_label k v l).
Proof.
  induction l as [|[k' v'] r IH]; cbn; [now left|].
  destruct (Nat.eqb k' k); [now left|now right].
Qed.

(* a trial matching the selector of e carries e's name under the experiment key, and conversely *)
Lemma matches_key e lab : matches (name_selector e) lab = true <-> lookup KEY_EXPERIMENT lab = Some (se_name e).
Proof.
  unfold matches, name_selector. cbn [forallb fst snd]. rewrite andb_true_r.
  destruct (lookup KEY_EXPERIMENT lab) as [v|]; [|split; discriminate].
  rewrite Nat.eqb_eq. split; [intros ->; reflexivity|intros [= ->]; reflexivity].
Qed.

Lemma matches_all_key e lab : matches (trial_labels e) lab = true -> lookup KEY_EXPERIMENT lab = Some (se_name e).
Proof.
  unfold matches. rewrite forallb_forall. intro H.
  specialize (H _ (in_set_label KEY_EXPERIMENT (se_name e) (se_labels e))). cbn in H.
  destruct (lookup KEY_EXPERIMENT lab) as [v|]; [|discriminate]. apply Nat.eqb_eq in H. now subst.
Qed.

Theorem selection exps cl eid e :
  cluster_wf exps cl -> nth_error exps eid = Some e -> select e cl = own eid cl.
Proof.
  intros (U&W) He. unfold select, own. apply filter_ext_in. intros t It.
  rewrite Forall_forall in W. destruct (W _ It) as (e'&He'&Ns&M).
  destruct (Nat.eqb (st_owner t) eid) eqn:Eo.
  - apply Nat.eqb_eq in Eo. rewrite Eo, He in He'. inversion He'; subst e'. rewrite Ns, Nat.eqb_refl. cbn [andb]. now apply matches_key.
  - destruct (Nat.eqb (st_ns t) (se_ns e)) eqn:En; [|reflexivity]. cbn [andb].
    destruct (matches (name_selector e) (st_labels t)) eqn:Me; [|reflexivity]. exfalso.
    apply Nat.eqb_eq in En. apply matches_key in Me. rewrite M in Me. inversion Me.
    apply Nat.eqb_neq in Eo. apply Eo. eapply U; eauto. congruence.
Qed.

Theorem sent_spec exps cl eid e :
  cluster_wf exps cl -> nth_error exps eid = Some e ->
  sent e cl = map st_name (filter (fun t => negb (st_mu t) && negb (st_es t && negb (st_obs t))) (own eid cl)).
Proof. intros W He. unfold sent. now rewrite (selection exps cl eid e W He). Qed.

(* nothing of another experiment or namespace is ever sent *)
Theorem isolation exps cl eid e t :
  cluster_wf exps cl -> nth_error exps eid = Some e -> In t (select e cl) -> st_owner t = eid /\ st_ns t = se_ns e.
Proof.
  intros W He I. pose proof I as I'. rewrite (selection exps cl eid e W He) in I. unfold own in I. apply filter_In in I as [_ Eo].
  apply Nat.eqb_eq in Eo. split; [exact Eo|]. unfold select in I'. apply filter_In in I' as [_ H]. apply andb_true_iff in H as [H _].
  now apply Nat.eqb_eq in H.
Qed.

(* without the namespace restriction (the pinned tree before the fix) isolation fails *)
Definition select_no_ns (e : sexp) (cl : list strial) : list strial :=
  filter (fun t => matches (name_selector e) (st_labels t)) cl.

Theorem selection_without_namespace_refuted :
  exists exps cl eid e, cluster_wf exps cl /\ nth_error exps eid = Some e /\ select_no_ns e cl <> own eid cl.
Proof.
  exists [ {| se_ns := 1; se_name := 7; se_labels := [] |}; {| se_ns := 2; se_name := 7; se_labels := [] |} ],
         [ {| st_ns := 2; st_name := 100; st_labels := [(0, 7)]; st_owner := 1; st_mu := false; st_es := false; st_obs := false |} ],
         0, {| se_ns := 1; se_name := 7; se_labels := [] |}.
  split; [|split; [reflexivity|vm_compute; discriminate]].
  split.
  - intros i j ei ej Hi Hj Hns _.
    destruct i as [|[|i]], j as [|[|j]]; cbn in Hi, Hj; try reflexivity;
      try (destruct i; discriminate); try (destruct j; discriminate);
      inversion Hi; inversion Hj; subst; cbn in Hns; discriminate.
  - repeat constructor. eexists. split; [reflexivity|]. split; reflexivity.
Qed.

(* F19 (repaired by katib 88eea22): selecting with ALL labels the experiment carries now is not ownership -- one experiment,
   labelled team=1 (key 5), whose trial t100 got the label team=2 from the algorithm's assignment: the trial is the experiment's
   own, built by getTrialInstance, and is not selected.  The same happens to every trial created before the experiment's
   labels were changed. *)
Theorem selection_all_labels_refuted :
  exists exps cl eid e, cluster_wf exps cl /\ nth_error exps eid = Some e /\ select_all_labels e cl <> own eid cl /\ select e cl = own eid cl.
Proof.
  exists [ {| se_ns := 1; se_name := 7; se_labels := [(5, 1)] |} ],
         [ {| st_ns := 1; st_name := 100; st_labels := [(0, 7); (5, 2)]; st_owner := 0; st_mu := false; st_es := false; st_obs := true |} ],
         0, {| se_ns := 1; se_name := 7; se_labels := [(5, 1)] |}.
  split; [|split; [reflexivity|split; [vm_compute; discriminate|vm_compute; reflexivity]]].
  split.
  - intros i j ei ej Hi Hj _ _. destruct i as [|i], j as [|j]; cbn in Hi, Hj; try reflexivity;
      try (destruct i; discriminate); try (destruct j; discriminate).
  - repeat constructor. eexists. split; [reflexivity|]. split; reflexivity.
Qed.
