(* C13 — lemmas about Model/LogParse.v *)
From KV Require Import Base.Prelude Base.Bytes Model.LogParse.
Open Scope Z_scope.

Lemma flat_map_nil_all {A C} (f : A -> list C) l : (forall x, In x l -> f x = []) -> flat_map f l = [].
Proof.
  induction l as [|a r IH]; intro H; [reflexivity|]. simpl. rewrite (H a (or_introl eq_refl)), IH; [reflexivity|].
  intros x I. apply H. now right.
Qed.

Lemma flat_map_ext_in {A C} (f g : A -> list C) l : (forall x, In x l -> f x = g x) -> flat_map f l = flat_map g l.
Proof.
  induction l as [|a r IH]; intro H; [reflexivity|]. simpl. rewrite (H a (or_introl eq_refl)), IH; [reflexivity|].
  intros x I. apply H. now right.
Qed.

Lemma dedup_In m ms : forall seen, In m (dedup seen ms) <-> In m ms /\ ~ In m seen.
Proof.
  induction ms as [|a r IH]; intro seen; cbn [dedup].
  - split; [intros []|intros [[] _]].
  - destruct (mem a seen) eqn:M.
    + rewrite IH. apply mem_In in M. split.
      * intros [I N]. split; [now right|exact N].
      * intros [[<-|I] N]; [contradiction|now split].
    + assert (Na : ~ In a seen) by (intro I; apply mem_In in I; congruence).
      cbn [In]. rewrite IH. split.
      * intros [<-|[I N]]; [split; [now left|exact Na]|]. split; [now right|]. intro I'. apply N. now right.
      * intros [[<-|I] N]; [now left|]. destruct (list_eq_dec ascii_dec a m) as [<-|D]; [now left|].
        right. split; [exact I|]. intros [E|I']; [contradiction|contradiction].
Qed.

Lemma dedup_NoDup ms : forall seen, NoDup (dedup seen ms).
Proof.
  induction ms as [|a r IH]; intro seen; cbn [dedup]; [constructor|].
  destruct (mem a seen); [apply IH|]. constructor; [|apply IH].
  intro I. apply dedup_In in I. destruct I as [_ N]. apply N. now left.
Qed.

Section LogParseP.
  Variable filt : Type.
  Variable default_filter : filt.
  Variable compiles : filt -> bool.
  Variable matches : filt -> str -> list (list str).
  Variable rfc3339 : str -> bool.
  Variable decode : str -> jline.

  Notation effective := (effective filt default_filter).
  Notation filters_records := (filters_records filt compiles matches).
  Notation text_lines := (text_lines filt compiles matches rfc3339).
  Notation parse_text := (parse_text filt default_filter compiles matches rfc3339).
  Notation line_timestamp := (line_timestamp rfc3339).
  Notation spec_line := (spec_line filt matches rfc3339).
  Notation spec_text := (spec_text filt default_filter matches rfc3339).
  Notation json_lines := (json_lines rfc3339 decode).
  Notation parse_json := (parse_json rfc3339 decode).
  Notation json_records := (json_records rfc3339).
  Notation spec_json_line := (spec_json_line rfc3339 decode).
  Notation spec_json := (spec_json rfc3339 decode).
  Notation collect := (collect filt default_filter compiles matches rfc3339 decode).

  (* the regexp engine returns pieces of the line *)
  Definition groups_substr : Prop := forall f l kev g, In kev (matches f l) -> In g kev -> substr g l.

  (* ---------------------------------------------------------------- the loop with break *)
  Lemma metric_loop_spec t name value ms :
    metric_loop t name value ms = if mem name ms then [MLog t name value] else [].
  Proof.
    induction ms as [|m r IH]; [reflexivity|]. cbn [metric_loop mem existsb]. fold (mem name r).
    destruct (str_eqb name m); [reflexivity|exact IH].
  Qed.

  Lemma kev_records_spec t ms kev : kev_records t ms kev = spec_kev t ms kev.
  Proof.
    destruct kev as [|w [|n [|v r]]]; try reflexivity. cbn [kev_records spec_kev]. apply metric_loop_spec.
  Qed.

  Lemma filters_records_ok t ms l fs :
    forallb compiles fs = true ->
    filters_records t ms l fs = Ok (flat_map (fun f => flat_map (spec_kev t ms) (matches f l)) fs).
  Proof.
    induction fs as [|f r IH]; intro H; [reflexivity|]. cbn [forallb] in H. apply andb_true_iff in H. destruct H as [Hf Hr].
    cbn [LogParse.filters_records flat_map]. rewrite Hf, (IH Hr). do 2 f_equal.
    apply flat_map_ext_in. intros kev _. apply kev_records_spec.
  Qed.

  Lemma filters_records_crash t ms l fs :
    forallb compiles fs = false -> filters_records t ms l fs = Crash 2.
  Proof.
    induction fs as [|f r IH]; intro H; [discriminate|]. cbn [forallb] in H. cbn [LogParse.filters_records].
    destruct (compiles f); [|reflexivity]. cbn [andb] in H. now rewrite (IH H).
  Qed.

  (* ---------------------------------------------------------------- soundness of the pre-filter *)
  Lemma prefilter_sound ms fs l :
    groups_substr -> is_metric_line ms l = false -> spec_line ms fs l = [].
  Proof.
    intros Hsub Hpre. unfold LogParse.spec_line. apply flat_map_nil_all. intros f _.
    apply flat_map_nil_all. intros kev Hkev.
    destruct kev as [|w [|n [|v r]]]; try reflexivity. cbn [spec_kev].
    destruct (mem (trim_space n) ms) eqn:Hm; [|reflexivity]. exfalso.
    apply mem_In in Hm.
    assert (S : substr (trim_space n) l).
    { eapply substr_trans; [apply trim_space_substr|]. eapply Hsub; [exact Hkev|]. right. now left. }
    apply containsb_spec in S.
    unfold is_metric_line in Hpre.
    assert (E : existsb (fun m => containsb m l) ms = true) by (apply existsb_exists; eauto).
    congruence.
  Qed.

  (* a line that has a match for a tracked name passes the pre-filter *)
  Lemma prefilter_keeps ms fs l x :
    groups_substr -> In x (spec_line ms fs l) -> is_metric_line ms l = true.
  Proof.
    intros Hsub I. destruct (is_metric_line ms l) eqn:E; [reflexivity|].
    rewrite (prefilter_sound ms fs l Hsub E) in I. destruct I.
  Qed.

  Lemma text_lines_ok ms fs lines :
    groups_substr -> forallb compiles fs = true ->
    text_lines ms fs lines = Ok (flat_map (spec_line ms fs) lines).
  Proof.
    intros Hsub Hc. induction lines as [|l r IH]; [reflexivity|].
    cbn [LogParse.text_lines flat_map]. rewrite IH.
    destruct (is_metric_line ms l) eqn:E.
    - now rewrite (filters_records_ok _ ms l fs Hc).
    - now rewrite (prefilter_sound ms fs l Hsub E).
  Qed.

  Lemma new_observation_log_ok ms found : ms <> [] -> new_observation_log ms found = Ok (fallback ms found).
  Proof.
    destruct ms as [|obj r]; [contradiction|]. intros _. cbn [new_observation_log fallback].
    now destruct (reports obj found).
  Qed.

  Lemma text_spec ms fs lines :
    groups_substr -> ms <> [] -> forallb compiles (effective fs) = true ->
    parse_text ms fs lines = Ok (spec_text ms fs lines).
  Proof.
    intros Hsub Hms Hc. unfold LogParse.parse_text, LogParse.spec_text.
    rewrite (text_lines_ok ms (effective fs) lines Hsub Hc). now apply new_observation_log_ok.
  Qed.

  (* ---------------------------------------------------------------- crashes of the TEXT parser *)
  Lemma is_metric_line_nil l : is_metric_line [] l = false.
  Proof. reflexivity. Qed.

  Lemma text_lines_no_metrics fs lines : text_lines [] fs lines = Ok [].
  Proof. induction lines as [|l r IH]; [reflexivity|]. cbn [LogParse.text_lines is_metric_line existsb]. exact IH. Qed.

  Lemma parse_text_no_metrics fs lines : parse_text [] fs lines = Crash 1.
  Proof. unfold LogParse.parse_text. now rewrite text_lines_no_metrics. Qed.

  Lemma text_lines_crash ms fs lines :
    forallb compiles fs = false ->
    text_lines ms fs lines = if existsb (is_metric_line ms) lines then Crash 2 else Ok [].
  Proof.
    intro Hc. induction lines as [|l r IH]; [reflexivity|]. cbn [LogParse.text_lines existsb].
    destruct (is_metric_line ms l).
    - now rewrite (filters_records_crash _ ms l fs Hc).
    - cbn [orb]. exact IH.
  Qed.

  (* ---------------------------------------------------------------- JSON *)
  Lemma json_lines_ok ms lines :
    existsb (malformed decode) lines = false ->
    json_lines ms lines = Ok (flat_map (spec_json_line ms) (filter nonempty lines)).
  Proof.
    induction lines as [|l r IH]; intro H; [reflexivity|]. cbn [existsb] in H. apply orb_false_iff in H. destruct H as [Hl Hr].
    cbn [LogParse.json_lines filter]. destruct l as [|c l']; [cbn [nonempty]; exact (IH Hr)|].
    cbn [nonempty flat_map]. unfold malformed in Hl. cbn [nonempty andb] in Hl.
    unfold LogParse.spec_json_line at 1. destruct (decode (c :: l')); [discriminate|]. now rewrite (IH Hr).
  Qed.

  Lemma json_lines_bad ms lines :
    existsb (malformed decode) lines = true -> json_lines ms lines = Err 1.
  Proof.
    induction lines as [|l r IH]; intro H; [discriminate|]. cbn [existsb] in H. cbn [LogParse.json_lines].
    destruct l as [|c l'].
    - unfold malformed in H. cbn [nonempty andb orb] in H. exact (IH H).
    - unfold malformed in H. cbn [nonempty andb] in H. destruct (decode (c :: l')); [reflexivity|].
      cbn [orb] in H. now rewrite (IH H).
  Qed.

  Lemma json_spec_ok ms lines :
    ms <> [] -> existsb (malformed decode) lines = false -> parse_json ms lines = Ok (spec_json ms lines).
  Proof.
    intros Hms H. unfold LogParse.parse_json, LogParse.spec_json. rewrite (json_lines_ok ms lines H).
    now apply new_observation_log_ok.
  Qed.

  Lemma json_spec_bad ms lines : existsb (malformed decode) lines = true -> parse_json ms lines = Err 1.
  Proof. intro H. unfold LogParse.parse_json. now rewrite (json_lines_bad ms lines H). Qed.

  Lemma json_no_metrics lines :
    existsb (malformed decode) lines = false -> parse_json [] lines = Crash 1.
  Proof. intro H. unfold LogParse.parse_json. now rewrite (json_lines_ok [] lines H). Qed.

  (* membership form for JSON, and the timestamp of a JSON line *)
  Lemma json_records_exact ms kvs x :
    In x (json_records ms kvs) <->
    exists m v, In m ms /\ jlookup m kvs = Some (JString v) /\ x = MLog (json_timestamp rfc3339 kvs) m v.
  Proof.
    unfold LogParse.json_records. rewrite in_flat_map. split.
    - intros [m [Im I]]. apply dedup_In in Im. destruct Im as [Im _].
      destruct (jlookup m kvs) as [[v|r|]|] eqn:L; [|destruct I|destruct I|destruct I]. destruct I as [<-|[]]. now exists m, v.
    - intros [m [v [Im [L ->]]]]. exists m. split; [apply dedup_In; split; [exact Im|intros []]|]. rewrite L. now left.
  Qed.

  Lemma json_found_exact ms lines x :
    In x (flat_map (spec_json_line ms) (filter nonempty lines)) <->
    exists l kvs m v, In l lines /\ l <> [] /\ decode l = JObj kvs /\ In m ms /\ jlookup m kvs = Some (JString v) /\
                      x = MLog (json_timestamp rfc3339 kvs) m v.
  Proof.
    rewrite in_flat_map. split.
    - intros [l [Il I]]. apply filter_In in Il. destruct Il as [Il Ne]. unfold LogParse.spec_json_line in I.
      destruct (decode l) as [|kvs] eqn:D; [destruct I|]. apply json_records_exact in I. destruct I as [m [v [Im [L E]]]].
      exists l, kvs, m, v. repeat split; try assumption. intros ->. discriminate.
    - intros [l [kvs [m [v [Il [Ne [D [Im [L E]]]]]]]]]. exists l. split.
      + apply filter_In. split; [exact Il|]. destruct l; [contradiction|reflexivity].
      + unfold LogParse.spec_json_line. rewrite D. apply json_records_exact. now exists m, v.
  Qed.

  (* one JSON line never yields the same record twice, whatever the list of tracked names *)
  Lemma json_records_nodup ms kvs : NoDup (json_records ms kvs).
  Proof.
    unfold LogParse.json_records. generalize (dedup_NoDup ms []). generalize (dedup [] ms). clear ms.
    intros ms ND. induction ND as [|m r Hm Hr IH]; [constructor|].
    cbn [flat_map].
    destruct (jlookup m kvs) as [[v|q|]|]; try exact IH. cbn [app]. constructor; [|exact IH].
    intro I. apply in_flat_map in I. destruct I as [m' [Im' I]].
    destruct (jlookup m' kvs) as [[v'|q'|]|]; [|destruct I|destruct I|destruct I]. destruct I as [E|[]]. injection E as -> _. contradiction.
  Qed.

  Lemma dedup_fresh ms : forall seen, NoDup ms -> (forall m, In m ms -> ~ In m seen) -> dedup seen ms = ms.
  Proof.
    induction ms as [|m r IH]; intros seen ND Hd; [reflexivity|]. cbn [dedup].
    destruct (mem m seen) eqn:M.
    - apply mem_In in M. exfalso. exact (Hd m (or_introl eq_refl) M).
    - inversion ND as [|? ? Hm Hr]; subst. rewrite IH; [reflexivity|exact Hr|].
      intros x Ix [<-|Is]; [contradiction|]. exact (Hd x (or_intror Ix) Is).
  Qed.

  (* the repaired loop and the pinned loop agree when no tracked name is listed twice *)
  Lemma json_records_pinned_nodup ms kvs : NoDup ms -> json_records_pinned rfc3339 ms kvs = json_records ms kvs.
  Proof.
    intro ND. unfold LogParse.json_records, json_records_pinned. rewrite (dedup_fresh ms [] ND); [reflexivity|]. intros ? _ [].
  Qed.

  Lemma json_timestamp_cases kvs :
    match jlookup timestamp_key kvs with
    | Some (JString s) => json_timestamp rfc3339 kvs = if nonempty s && rfc3339 s then TsText s else TsText zero_time
    | Some (JNumber repr) => json_timestamp rfc3339 kvs = match epoch_instant repr with Some z => TsUnix z | None => TsText zero_time end
    | _ => json_timestamp rfc3339 kvs = TsText zero_time
    end.
  Proof.
    unfold json_timestamp. destruct (jlookup timestamp_key kvs) as [[s|repr|]|]; try reflexivity.
    - cbn [parse_timestamp]. destruct s as [|c s']; [reflexivity|]. change (str_eqb (c :: s') []) with false.
      cbn [nonempty andb]. now destruct (rfc3339 (c :: s')).
    - cbn [parse_timestamp]. now destruct (epoch_instant repr).
  Qed.

  (* ---------------------------------------------------------------- the fallback record *)
  Lemma reports_true obj found : reports obj found = true <-> exists x, In x found /\ mname x = obj.
  Proof.
    unfold reports. rewrite existsb_exists. split; intros [x [I E]]; exists x; (split; [exact I|]); now apply str_eqb_eq.
  Qed.

  Lemma fallback_missing obj rest found :
    (forall x, In x found -> mname x <> obj) ->
    fallback (obj :: rest) found = [MLog (TsText zero_time) obj unavailable].
  Proof.
    intro H. cbn [fallback]. destruct (reports obj found) eqn:E; [|reflexivity].
    apply reports_true in E. destruct E as [x [I E]]. now apply H in I.
  Qed.

  Lemma fallback_present obj rest found :
    (exists x, In x found /\ mname x = obj) -> fallback (obj :: rest) found = found.
  Proof. intro H. apply reports_true in H. cbn [fallback]. now rewrite H. Qed.

  (* ---------------------------------------------------------------- timestamp of a TEXT line *)
  Lemma timestamp_text l :
    (exists a b, l = a ++ space :: b /\ ~ In space a /\ rfc3339 a = true /\ line_timestamp l = a) \/
    ((forall a b, l = a ++ space :: b -> ~ In space a -> rfc3339 a = false) /\ line_timestamp l = zero_time).
  Proof.
    unfold LogParse.line_timestamp. destruct (split_space l) as [[a b]|] eqn:S.
    - apply split_space_some in S. destruct S as [-> N]. destruct (rfc3339 a) eqn:R.
      + left. now exists a, b.
      + right. split; [|reflexivity]. intros a' b' E N'.
        assert (S1 : split_space (a ++ space :: b) = Some (a, b)) by now apply split_space_app.
        assert (S2 : split_space (a ++ space :: b) = Some (a', b')) by (rewrite E; now apply split_space_app).
        rewrite S1 in S2. now injection S2 as <- <-.
    - right. split; [|reflexivity]. intros a b -> N. apply split_space_none in S. exfalso. apply S.
      apply in_or_app. right. now left.
  Qed.

  (* every record of a TEXT line carries that line's timestamp *)
  Lemma spec_line_ts ms fs l x : In x (spec_line ms fs l) -> ts x = TsText (line_timestamp l) /\ In (mname x) ms.
  Proof.
    unfold LogParse.spec_line. intro I. apply in_flat_map in I. destruct I as [f [_ I]].
    apply in_flat_map in I. destruct I as [kev [_ I]].
    destruct kev as [|w [|n [|v r]]]; try destruct I. cbn [spec_kev] in I.
    destruct (mem (trim_space n) ms) eqn:M; [|destruct I]. destruct I as [<-|[]]. split; [reflexivity|]. now apply mem_In.
  Qed.

  (* membership form of the comprehension: a record is found iff it is an occurrence of a tracked name *)
  Lemma spec_line_exact ms fs l x :
    In x (spec_line ms fs l) <->
    exists f w n v r, In f fs /\ In (w :: n :: v :: r) (matches f l) /\ In (trim_space n) ms /\
                      x = MLog (TsText (line_timestamp l)) (trim_space n) (trim_space v).
  Proof.
    unfold LogParse.spec_line. rewrite in_flat_map. split.
    - intros [f [If I]]. apply in_flat_map in I. destruct I as [kev [Ik I]].
      destruct kev as [|w [|n [|v r]]]; try destruct I. cbn [spec_kev] in I.
      destruct (mem (trim_space n) ms) eqn:M; [|destruct I]. destruct I as [<-|[]].
      exists f, w, n, v, r. repeat split; [exact If|exact Ik|now apply mem_In].
    - intros [f [w [n [v [r [If [Ik [Im ->]]]]]]]]. exists f. split; [exact If|].
      apply in_flat_map. exists (w :: n :: v :: r). split; [exact Ik|]. cbn [spec_kev].
      apply mem_In in Im. rewrite Im. now left.
  Qed.

  Lemma text_found_exact ms fs lines x :
    In x (flat_map (spec_line ms fs) lines) <->
    exists l f w n v r, In l lines /\ In f fs /\ In (w :: n :: v :: r) (matches f l) /\ In (trim_space n) ms /\
                        x = MLog (TsText (line_timestamp l)) (trim_space n) (trim_space v).
  Proof.
    rewrite in_flat_map. split.
    - intros [l [Il I]]. apply spec_line_exact in I. destruct I as [f [w [n [v [r [H1 [H2 [H3 H4]]]]]]]]. exists l, f, w, n, v, r. repeat split; assumption.
    - intros [l [f [w [n [v [r [Il H]]]]]]]. exists l. split; [exact Il|]. apply spec_line_exact. exists f, w, n, v, r. exact H.
  Qed.

  (* ---------------------------------------------------------------- totality / crash sites of CollectObservationLog *)
  Lemma collect_text_ok ms fs content :
    groups_substr -> ms <> [] -> forallb compiles (effective fs) = true ->
    collect TEXT ms fs content = Ok (spec_text ms fs (split_lines content)).
  Proof. intros. now apply text_spec. Qed.

  Lemma collect_json_total ms fs content :
    ms <> [] ->
    (existsb (malformed decode) (split_lines content) = false /\ collect JSON ms fs content = Ok (spec_json ms (split_lines content))) \/
    (existsb (malformed decode) (split_lines content) = true /\ collect JSON ms fs content = Err 1).
  Proof.
    intro Hms. cbn [LogParse.collect]. destruct (existsb (malformed decode) (split_lines content)) eqn:E.
    - right. split; [reflexivity|]. now apply json_spec_bad.
    - left. split; [reflexivity|]. now apply json_spec_ok.
  Qed.

  Lemma text_total ms fs lines :
    ms <> [] -> forallb compiles (effective fs) = true -> exists r, parse_text ms fs lines = Ok r.
  Proof.
    intros Hms Hc. unfold LogParse.parse_text.
    assert (T : exists r, text_lines ms (effective fs) lines = Ok r).
    { induction lines as [|l r IH]; [now exists []|]. destruct IH as [b Hb]. cbn [LogParse.text_lines]. rewrite Hb.
      destruct (is_metric_line ms l); [|now exists b]. rewrite (filters_records_ok _ ms l _ Hc). eauto. }
    destruct T as [r ->]. rewrite (new_observation_log_ok ms r Hms). eauto.
  Qed.

  Lemma collect_total fmt ms fs content :
    ms <> [] -> forallb compiles (effective fs) = true ->
    is_crash (collect fmt ms fs content) = false.
  Proof.
    intros Hms Hc. destruct fmt; cbn [LogParse.collect].
    - destruct (text_total ms fs (split_lines content) Hms Hc) as [r ->]. reflexivity.
    - destruct (collect_json_total ms fs content Hms) as [[_ H]|[_ H]]; cbn [LogParse.collect] in H; now rewrite H.
    - reflexivity.
  Qed.

  Lemma collect_crash_sites fmt ms fs content s :
    collect fmt ms fs content = Crash s ->
    (s = 1%nat /\ ms = []) \/
    (s = 2%nat /\ fmt = TEXT /\ forallb compiles (effective fs) = false /\ existsb (is_metric_line ms) (split_lines content) = true).
  Proof.
    intro H. destruct ms as [|obj rest].
    - left. split; [|reflexivity]. destruct fmt; cbn [LogParse.collect] in H.
      + rewrite parse_text_no_metrics in H. now injection H as <-.
      + destruct (existsb (malformed decode) (split_lines content)) eqn:E.
        * rewrite (json_spec_bad _ _ E) in H. discriminate.
        * rewrite (json_no_metrics _ E) in H. now injection H as <-.
      + discriminate.
    - right. destruct fmt; cbn [LogParse.collect] in H.
      + destruct (forallb compiles (effective fs)) eqn:Hc.
        * destruct (text_total (obj :: rest) fs (split_lines content)) as [r Hr]; [discriminate|exact Hc|]. congruence.
        * unfold LogParse.parse_text in H. rewrite (text_lines_crash _ _ _ Hc) in H.
          destruct (existsb (is_metric_line (obj :: rest)) (split_lines content)) eqn:E.
          -- injection H as <-. auto.
          -- cbn [new_observation_log] in H. destruct (reports obj []); discriminate.
      + destruct (collect_json_total (obj :: rest) fs content) as [[_ H']|[_ H']]; [discriminate| |]; cbn [LogParse.collect] in H'; congruence.
      + discriminate.
  Qed.

  Lemma collect_no_metrics_text fs content : collect TEXT [] fs content = Crash 1.
  Proof. apply parse_text_no_metrics. Qed.

End LogParseP.

Lemma fallback_both obj rest found :
  ((forall x, In x found -> mname x <> obj) -> fallback (obj :: rest) found = [MLog (TsText zero_time) obj unavailable]) /\
  ((exists x, In x found /\ mname x = obj) -> fallback (obj :: rest) found = found).
Proof. split; [apply fallback_missing|apply fallback_present]. Qed.

Lemma timestamp_text_both filt (matches : filt -> str -> list (list str)) rfc3339 ms fs l :
  ((exists a b, l = a ++ space :: b /\ ~ In space a /\ rfc3339 a = true /\ line_timestamp rfc3339 l = a) \/
   ((forall a b, l = a ++ space :: b -> ~ In space a -> rfc3339 a = false) /\ line_timestamp rfc3339 l = zero_time)) /\
  (forall x, In x (spec_line filt matches rfc3339 ms fs l) -> ts x = TsText (line_timestamp rfc3339 l) /\ In (mname x) ms).
Proof. split; [apply timestamp_text|apply spec_line_ts]. Qed.

(* ------------------------------------------------------------------ epoch timestamps *)

Lemma parse_int64_signed s v : parse_signed s = Some v -> in_int64 v = true -> parse_int64 s = Some v.
Proof. intros H R. unfold parse_int64. now rewrite H, R. Qed.

Lemma epoch_integral repr v :
  ~ In dot repr -> parse_signed repr = Some v -> in_int64 v = true -> epoch_instant repr = Some (v * 10 ^ 9).
Proof.
  intros N P R. unfold epoch_instant. rewrite (split_on_no_occurrence dot repr N). cbn [hd length Nat.eqb].
  now rewrite (parse_int64_signed repr v P R).
Qed.

Lemma epoch_fraction ip fp sec nsec :
  ~ In dot ip -> ~ In dot fp -> parse_int64 ip = Some sec -> parse_int64 fp = Some nsec ->
  epoch_instant (ip ++ dot :: fp) = Some (sec * 10 ^ 9 + nsec).
Proof.
  intros Ni Nf Pi Pf. unfold epoch_instant.
  change (ip ++ dot :: fp) with (join dot [ip; fp]).
  rewrite split_on_unique; [|discriminate|repeat constructor; assumption].
  cbn [hd length Nat.eqb nth]. now rewrite Pi, Pf.
Qed.

Lemma epoch_out_of_range repr v :
  ~ In dot repr -> parse_signed repr = Some v -> in_int64 v = false -> epoch_instant repr = None.
Proof.
  intros N P R. unfold epoch_instant. rewrite (split_on_no_occurrence dot repr N). cbn [hd].
  unfold parse_int64. now rewrite P, R.
Qed.

(* ------------------------------------------------------------------ the lines of the file *)
Lemma split_lines_spec content :
  join newline (split_lines content) = content /\ Forall (fun l => ~ In newline l) (split_lines content) /\
  (forall ls, ls <> [] -> Forall (fun l => ~ In newline l) ls -> join newline ls = content -> ls = split_lines content).
Proof.
  unfold split_lines. split; [apply join_split_on|]. split; [apply split_on_no_sep|].
  intros ls NE F <-. symmetry. now apply split_on_unique.
Qed.

(* the pinned loop reports a tracked name that is listed twice twice *)
Lemma json_dup_refuted :
  exists ms kvs, ~ NoDup (json_records_pinned (fun _ => false) ms kvs) /\
                 json_records_pinned (fun _ => false) ms kvs <> json_records (fun _ => false) ms kvs.
Proof.
  exists [B "loss"; B "acc"; B "acc"], [(B "acc", JString (B "0.9")); (B "loss", JString (B "0.3"))]. split.
  - vm_compute. intro H. inversion H as [|? ? _ H1]. inversion H1 as [|? ? N _]. apply N. now left.
  - vm_compute. discriminate.
Qed.
