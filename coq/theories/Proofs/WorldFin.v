(* C07, last clause, over ALL runs (teardown included, no invariant needed): the finalizer of a trial is released only
   after its observation log has been deleted from the metrics DB. *)
From KV Require Import Base.Prelude Base.Cond Model.World Proofs.WorldPlan Proofs.WorldInv Proofs.WorldSucc.
Open Scope Z_scope.

(* the trial whose finalizer a write releases *)
Definition rel (x : write * onfail) : option nat :=
  match fst x with WTrialFin n false _ => Some n | _ => None end.

(* writes of the experiment controller *)
Definition ek (x : write * onfail) : bool :=
  match fst x with
  | WExpFin _ _ | WExpStatus _ _ | WSugCreate _ | WSugSpec _ _ | WSugStatus _ _ | WTrialCreate _ | WDeleteTrials => true
  | _ => false
  end.

Lemma ek_status_write e st : forallb ek (status_write e st) = true.
Proof. unfold status_write. destruct (estatus_eqb _ _); reflexivity. Qed.

Lemma ek_creates l : forallb ek (map (fun n => (WTrialCreate n, Cont)) l) = true.
Proof. induction l; cbn; auto. Qed.

Lemma ek_plan_create cf st ts sug add : forallb ek (fst (plan_create cf st ts sug add)) = true.
Proof.
  unfold plan_create. destruct sug as [s|]; [|reflexivity]. destruct (s_is (s_st s) SFailed); [reflexivity|].
  destruct (s_is (s_st s) SSucceeded && _); [cbn [fst]; destruct (s_restarting (s_st s)); reflexivity|].
  cbn [fst]. rewrite forallb_app, ek_creates. destruct (s_requests s =? _); reflexivity.
Qed.

Lemma ek_plan_trials cf mx st ts sug : forallb ek (fst (plan_trials cf mx st ts sug)) = true.
Proof.
  unfold plan_trials. destruct (_ <? _); [reflexivity|]. destruct (_ <? _); [|reflexivity].
  destruct (0 <? _); [apply ek_plan_create|reflexivity].
Qed.

Lemma ek_plan_exp_completed cf e sug : forallb ek (fst (fst (plan_exp_completed cf e sug))) = true.
Proof.
  unfold plan_exp_completed. destruct (e_completed (e_st e)); [|reflexivity].
  assert (C : forallb ek (match c_resume cf, sug with
                  | LongRunning, _ | _, None => []
                  | _, Some s => if s_completed (s_st s) || s_restarting (s_st s) then []
                                 else [(WSugStatus (s_with_conds (s_st s) (smark_succeeded (ss_conds (s_st s)))) (s_rv s), Stop)]
                  end) = true).
  { destruct (c_resume cf), sug as [s|]; try reflexivity; destruct (s_completed (s_st s) || s_restarting (s_st s)); reflexivity. }
  destruct (restartable cf (e_st e) && _); cbn [fst]; [|exact C].
  rewrite forallb_app, C. destruct (c_resume cf), sug as [s|]; try reflexivity. destruct (s_restarting (s_st s)); reflexivity.
Qed.

Lemma ek_plan_exp_reconcile w e st1 : forallb ek (plan_exp_reconcile w e st1) = true.
Proof.
  unfold plan_exp_reconcile.
  destruct (e_completed _); [apply ek_status_write|].
  destruct (plan_trials _ _ _ _ _) as [ws2 st3] eqn:PT.
  rewrite forallb_app, ek_status_write, andb_true_r. change ws2 with (fst (ws2, st3)). rewrite <- PT. apply ek_plan_trials.
Qed.

Lemma ek_plan_exp w : forallb ek (plan_exp w) = true.
Proof.
  unfold plan_exp. destruct (c_exp w) as [e|]; [|reflexivity].
  destruct (negb (e_deleting e) && negb (e_fin e)); [reflexivity|].
  destruct (e_deleting e && e_fin e); [reflexivity|].
  pose proof (ek_plan_exp_completed (w_cfg w) e (c_sug w)) as H.
  destruct (plan_exp_completed (w_cfg w) e (c_sug w)) as [[ws1 st1] stop]. cbn [fst] in H.
  destruct stop; [exact H|].
  destruct (negb (e_is st1 ECreated)); rewrite forallb_app, H; [apply ek_status_write|apply ek_plan_exp_reconcile].
Qed.

Lemma ek_no_rel x : ek x = true -> rel x = None.
Proof. unfold ek, rel. destruct (fst x); try discriminate; reflexivity. Qed.

Lemma plan_exp_no_rel w x : In x (plan_exp w) -> rel x = None.
Proof. intro H. apply ek_no_rel. pose proof (ek_plan_exp w) as K. rewrite forallb_forall in K. auto. Qed.

Lemma plan_sug_no_rel w resp x : In x (fst (plan_sug w resp)) -> rel x = None.
Proof. intro H. destruct (plan_sug_shape _ _ _ H) as (cs&Hc&[(k&[->| ->])|(st&->&Sh)]); reflexivity. Qed.

(* the trial controller releases a finalizer only directly behind the deletion of the observation log, which stops the
   reconcile when it fails *)
Lemma plan_trial_rel w key dberr pre x post m :
  plan_trial w key dberr = pre ++ x :: post -> rel x = Some m -> pre = [(WDbDelete m, Stop)].
Proof.
  intros E R.
  assert (Hx : In x (plan_trial w key dberr)) by (rewrite E; apply in_or_app; right; now left).
  destruct (plan_trial_shape _ _ _ _ Hx) as (t&F&N&[(->&_)|[(P&_)|[(->&_)|[(->&_)|[(->&_)|(cs&o&ct&->&_)]]]]]); try discriminate.
  rewrite P in E.
  destruct pre as [|a [|b pre]]; cbn in E.
  - inversion E; subst. discriminate.
  - inversion E; subst. cbn in R. now inversion R.
  - inversion E as [[Ea Eb Ec]]. destruct pre; discriminate.
Qed.

(* ------------------------------------------------------------------ the invariant *)

Definition just (w : world) (l : pending) : Prop :=
  forall pre x post m, l = pre ++ x :: post -> rel x = Some m -> In m (g_dbdeletes w) \/ In (WDbDelete m, Stop) pre.

Record FinInv (w : world) : Prop := {
  f_log : incl (g_finreleased w) (g_dbdeletes w);
  f_pend : forall c, just w (pending_of w c) }.

Lemma just_mono w w' l : incl (g_dbdeletes w) (g_dbdeletes w') -> just w l -> just w' l.
Proof. intros I J pre x post m E R. destruct (J pre x post m E R); auto. Qed.

Lemma just_no_rel w l : (forall x, In x l -> rel x = None) -> just w l.
Proof.
  intros H pre x post m E R. rewrite H in R; [discriminate|]. rewrite E. apply in_or_app. right. now left.
Qed.

Lemma just_nil w : just w [].
Proof. apply just_no_rel. intros x []. Qed.

Lemma apply_write_logs w wr w1 :
  apply_write w wr = Some w1 ->
  incl (g_dbdeletes w) (g_dbdeletes w1) /\ (forall m, wr = WDbDelete m -> In m (g_dbdeletes w1)) /\
  forall n, In n (g_finreleased w1) -> In n (g_finreleased w) \/ exists rv, wr = WTrialFin n false rv.
Proof.
  intro A. destruct wr; cbn [apply_write] in A; repeat aw_cases A w; inversion A; subst; cbn;
    (split; [try apply incl_refl; try (apply incl_appl, incl_refl)|split; [intros m E; try discriminate|intros n0 H; auto]]).
  - (* WTrialFin release *)
    apply in_app_or in H as [H|[<-|[]]]; [auto|]. right.
    match goal with H : negb ?a && _ = true |- _ => destruct a; [discriminate|] end. eauto.
  - inversion E; subst. apply in_or_app. right. now left.
Qed.

Lemma step_env_frame w a :
  match a with
  | Begin _ _ _ _ | Write _ _ | Abort _ => True
  | _ => g_dbdeletes (step w a) = g_dbdeletes w /\ g_finreleased (step w a) = g_finreleased w /\
         forall c, pending_of (step w a) c = pending_of w c
  end.
Proof.
  destruct a; cbn [step]; try exact I; try (repeat split; intros []; reflexivity).
  - destruct (find_trial t (w_trials w)), (db_get t (w_db w)); repeat split; intros []; reflexivity.
  - destruct (find_trial t (w_trials w)) as [tr|]; [|repeat split; intros []; reflexivity].
    destruct (_ && _); [|repeat split; intros []; reflexivity].
    destruct v, (db_get t (w_db w)); repeat split; intros []; reflexivity.
  - destruct (i_dep (w_infra w)); repeat split; intros []; reflexivity.
  - destruct (w_exp w) as [e|]; [|repeat split; intros []; reflexivity]. destruct (e_max e); [|repeat split; intros []; reflexivity].
    destruct (_ && _ && _); repeat split; intros []; reflexivity.
  - destruct (w_exp w) as [e|]; [|repeat split; intros []; reflexivity]. destruct (e_fin e); repeat split; intros []; reflexivity.
  - destruct (w_exp w), (find_trial t (w_trials w)) as [tr|]; try (repeat split; intros []; reflexivity).
    destruct (t_fin tr); repeat split; intros []; reflexivity.
Qed.

Lemma just_tail_cont w wr rest : just w ((wr, Cont) :: rest) -> just w rest.
Proof.
  intros J pre x post m E R. destruct (J ((wr, Cont) :: pre) x post m) as [K|K]; [now rewrite E|exact R|auto|].
  destruct K as [K|K]; [discriminate|auto].
Qed.

Lemma just_same_db w w' l : g_dbdeletes w' = g_dbdeletes w -> just w l -> just w' l.
Proof. intros E. apply just_mono. rewrite E. apply incl_refl. Qed.

Lemma step_fin w a : FinInv w -> FinInv (step w a).
Proof.
  intros [L Pn].
  pose proof (step_env_frame w a) as Env.
  destruct a; try (destruct Env as (E1&E2&E3); constructor; [rewrite E1, E2; exact L|intro c; rewrite E3; eapply just_mono; [|apply Pn]; rewrite E1; apply incl_refl]).
  - (* Begin *)
    cbn [step]. destruct (pending_of w c) eqn:Ep; [|constructor; assumption].
    destruct c.
    + constructor; [exact L|]. intro c'. apply (just_same_db w); [reflexivity|].
      destruct c'; [|exact (Pn CSug)|exact (Pn CTrial)]. cbn. apply just_no_rel. apply plan_exp_no_rel.
    + destruct (plan_sug w resp) as [p rpcs] eqn:Ps. constructor; [exact L|]. intro c'. apply (just_same_db w); [reflexivity|].
      destruct c'; [exact (Pn CExp)| |exact (Pn CTrial)]. cbn.
      apply just_no_rel. intros x Hx. apply (plan_sug_no_rel w resp). now rewrite Ps.
    + constructor; [exact L|]. intro c'. apply (just_same_db w); [reflexivity|].
      destruct c'; [exact (Pn CExp)|exact (Pn CSug)|]. cbn.
      intros pre x post m E R. right. rewrite (plan_trial_rel _ _ _ _ _ _ _ E R). now left.
  - (* Write *)
    cbn [step]. destruct (pending_of w c) as [|[wr onf] rest] eqn:Ep; [constructor; assumption|].
    pose proof (Pn c) as Jc. rewrite Ep in Jc.
    destruct (if inject_failure then None else apply_write (count_write w) wr) as [w1|] eqn:A.
    + destruct inject_failure; [discriminate|].
      destruct (apply_write_logs _ _ _ A) as (Inc&Db&Fin). destruct (apply_write_side0 _ _ _ A) as (_&_&Epend).
      constructor.
      * intros n Hn. assert (Hn' : In n (g_finreleased w1)) by (destruct c; exact Hn).
        assert (G : In n (g_dbdeletes w1) -> In n (g_dbdeletes (set_pending w1 c rest))) by (destruct c; auto).
        apply G. destruct (Fin n Hn') as [K|(rv&->)]; [apply Inc; apply L; exact K|].
        destruct (Jc [] (WTrialFin n false rv, onf) rest n eq_refl eq_refl) as [K|[]]. apply Inc. exact K.
      * intro c'. assert (G : incl (g_dbdeletes w1) (g_dbdeletes (set_pending w1 c rest))) by (destruct c; apply incl_refl).
        destruct (ctl_dec c c') as [<-|Ne].
        -- rewrite pending_set_same. intros pre x post m E R.
           destruct (Jc ((wr, onf) :: pre) x post m) as [K|[K|K]]; [now rewrite E|exact R|left; apply G, Inc, K| |right; exact K].
           inversion K; subst. left. apply G. now apply Db.
        -- rewrite pending_set_other by exact Ne. rewrite Epend. eapply just_mono; [|apply (Pn c')]. intros n Hn. apply G, Inc. exact Hn.
    + constructor; [destruct c; exact L|].
      intro c'. destruct (ctl_dec c c') as [<-|Ne].
      * rewrite pending_set_same. destruct onf; [apply just_nil|]. eapply just_mono; [|eapply just_tail_cont; exact Jc]. destruct c; apply incl_refl.
      * rewrite pending_set_other by exact Ne. eapply just_mono; [|apply (Pn c')]. destruct c; apply incl_refl.
  - (* Abort *)
    cbn [step]. constructor; [destruct c; exact L|]. intro c'. destruct (ctl_dec c c') as [<-|Ne].
    + rewrite pending_set_same. apply just_nil.
    + rewrite pending_set_other by exact Ne. eapply just_mono; [|apply (Pn c')]. destruct c; apply incl_refl.
Qed.

Lemma FinInv_init c : FinInv (init c).
Proof. constructor; [intros ? []|intros []; apply just_nil]. Qed.

(* for every history whatsoever of the joint model *)
Theorem finalizer_after_db_delete c acts n :
  In n (g_finreleased (run c acts)) -> In n (g_dbdeletes (run c acts)).
Proof.
  assert (H : forall l w, FinInv w -> FinInv (fold_left step l w)).
  { induction l as [|a l IH]; intros w F; [exact F|]. cbn. apply IH. now apply step_fin. }
  intro Hn. exact (f_log _ (H acts (init c) (FinInv_init c)) n Hn).
Qed.
