(* The C01 monitor (Corr/WorldMon.budget_walk), which is evaluated on the IMPLEMENTATION's projected states, holds on the
   model's own projected states for every history without teardown: so whenever implementation and model agree (the
   correspondence check) the monitor cannot alarm -- it is implied by the theorems and never demands more than they give. *)
From KV Require Import Base.Prelude Base.Cond Model.World Proofs.WorldPlan Proofs.WorldInv Proofs.WorldInv2 Proofs.WorldInv4
  Proofs.WorldInv5 Proofs.WorldThm Proofs.WorldObs Proofs.WorldStab Proofs.WorldSugFail Proofs.WorldNoCreate Corr.WorldMon.
Open Scope Z_scope.

(* the projected states of a run of the model *)
Fixpoint msteps (w : world) (acts : list action) : list (action * proj) :=
  match acts with [] => [] | a :: r => (a, project (step w a)) :: msteps (step w a) r end.

Lemma trial_names_project w : trial_names (project w) = names (w_trials w).
Proof. unfold trial_names, project, names. cbn. rewrite map_map. reflexivity. Qed.

Lemma mem_in n l : mem n l = true <-> In n l.
Proof.
  unfold mem. rewrite existsb_exists. split.
  - intros (x&I&E). apply Nat.eqb_eq in E. now subst.
  - intro I. exists n. split; [exact I|apply Nat.eqb_refl].
Qed.

Lemma union_spec seen l : NoDup seen -> NoDup (union seen l) /\ (forall x, In x (union seen l) <-> In x seen \/ In x l).
Proof.
  unfold union. revert seen. induction l as [|a l IH]; intros seen ND; cbn [fold_left].
  - split; [exact ND|]. intro x. cbn. tauto.
  - destruct (mem a seen) eqn:M.
    + destruct (IH seen ND) as [N1 S1]. split; [exact N1|]. intro x. rewrite S1. apply mem_in in M. cbn. split; [tauto|].
      intros [H|[<-|H]]; auto.
    + assert (ND' : NoDup (seen ++ [a])).
      { apply NoDup_snoc; [exact ND|]. intro I. apply mem_in in I. congruence. }
      destruct (IH _ ND') as [N1 S1]. split; [exact N1|]. intro x. rewrite S1, in_app_iff. cbn. tauto.
Qed.

Lemma length_filter_map {A B} (f : B -> bool) (g : A -> B) l : length (filter f (map g l)) = length (filter (fun x => f (g x)) l).
Proof. induction l as [|a l IH]; cbn; [reflexivity|]. destruct (f (g a)); cbn; now rewrite IH. Qed.

Definition AllInv (w : world) : Prop := Inv w /\ ObInv w /\ TS w /\ SFInv w /\ NCInv w.

Lemma AllInv_step w a : AllInv w -> is_teardown a = false -> AllInv (step w a).
Proof.
  intros (I&O&T&S&N) NT. split; [now apply step_inv|]. split; [now apply step_ob|]. split; [now apply step_ts|]. split; [now apply step_sf|now apply step_nc].
Qed.

Theorem budget_walk_model w acts seen :
  AllInv w -> no_teardown acts -> NoDup seen -> incl seen (names (w_trials w)) ->
  budget_walk (w_cfg w) seen (project w) (msteps w acts) = true.
Proof.
  revert w seen. induction acts as [|a acts IH]; intros w seen A NT ND Inc; [reflexivity|].
  apply no_teardown_cons in NT as [Na NT]. pose proof A as (Iv&_&_&_&N). pose proof Iv as [I _].
  pose proof (AllInv_step w a A Na) as A'. pose proof A' as ([I' _]&_).
  cbn [msteps budget_walk].
  assert (Inc' : incl seen (names (w_trials (step w a)))).
  { intros x Hx. apply (step_names_incl w a Na Iv). auto. }
  destruct (union_spec seen (trial_names (project (step w a))) ND) as [ND' US]. rewrite trial_names_project in *.
  assert (Sub : incl (union seen (names (w_trials (step w a)))) (names (w_trials (step w a)))).
  { intros x Hx. apply US in Hx as [Hx|Hx]; auto. }
  rewrite !andb_true_iff. repeat split.
  - (* at most maxTrialCount trials ever *)
    unfold project at 1. cbn [pj_exp]. destruct (w_exp (step w a)) as [e'|] eqn:He'; [|reflexivity]. cbn [pe_max].
    destruct (e_max e') as [m|] eqn:Hm; [|reflexivity]. apply Z.leb_le.
    destruct (budget_of_inv _ I') as [B _]. specialize (B _ _ He' Hm).
    pose proof (NoDup_incl_length ND' Sub) as L. unfold names in L at 2. rewrite map_length in L. lia.
  - (* at most parallelTrialCount non-completed trials *)
    apply Z.leb_le. destruct (budget_of_inv _ I') as [_ B]. rewrite step_cfg in B.
    unfold project. cbn [pj_trials]. rewrite length_filter_map. exact B.
  - (* no new trial once a verdict exists, unless a restart is enabled *)
    destruct (filter (fun n => negb (mem n (trial_names (project w)))) (names (w_trials (step w a)))) as [|n0 fr] eqn:Fr; [reflexivity|].
    destruct (negb (exp_completed (project w)) || restart_enabled (w_cfg w) (project w)) eqn:G; [reflexivity|]. exfalso.
    apply orb_false_iff in G as [G1 G2]. apply negb_false_iff in G1.
    destruct (inv_exp_some _ I) as (e&He&_).
    assert (S : settled (w_cfg w) e).
    { unfold exp_completed, restart_enabled, project in G1, G2. cbn [pj_exp] in G1, G2. rewrite He in G1, G2. cbn [pe_max pe_counts pe_conds] in G1, G2.
      split; [exact G1|]. unfold restart_enabled_e, restartable.
      destruct (get_cond (es_conds (e_st e)) ESucceeded) as [c0|]; [|reflexivity].
      destruct (cstatus_eqb (cstat c0) CTrue && Nat.eqb (creason c0) RMaxTrialsReached) eqn:X; cbn [andb] in *; [|reflexivity].
      destruct (c_resume (w_cfg w)); cbn [andb] in *; first [exact G2|reflexivity]. }
    pose proof (step_no_create w a e Iv N Na He S) as E.
    assert (In n0 (filter (fun n => negb (mem n (trial_names (project w)))) (names (w_trials (step w a))))) by (rewrite Fr; now left).
    apply filter_In in H as [H1 H2]. rewrite E in H1. rewrite trial_names_project in H2.
    apply negb_true_iff in H2. apply mem_in in H1. congruence.
  - rewrite <- (step_cfg w a). apply IH; auto.
Qed.

(* the monitor, as it is evaluated on case files, on a run of the model from the initial state *)
Theorem budget_monitor_sound c acts :
  valid_cfg c -> no_teardown acts -> budget_walk c [] (project (init c)) (msteps (init c) acts) = true.
Proof.
  intros V NT. apply (budget_walk_model (init c) acts []); [|exact NT|constructor|intros ? []].
  exact (all_invs c [] V eq_refl).
Qed.

(* ------------------------------------------------------------------ the C06 step monitor *)

Definition ptr (t : trial) : ptrial :=
  {| pt_name := t_name t; pt_conds := t_conds t; pt_obs := t_obs t; pt_ctime := is_some (t_ctime t); pt_fin := t_fin t; pt_deleting := t_deleting t |}.

Lemma find_pt_project n w : find_pt n (project w) = option_map ptr (find_trial n (w_trials w)).
Proof.
  unfold find_pt, find_trial, project. cbn [pj_trials]. induction (w_trials w) as [|t l IH]; [reflexivity|].
  cbn. destruct (Nat.eqb (t_name t) n); [reflexivity|exact IH].
Qed.

Theorem trial_step_model w a : Inv w -> is_teardown a = false -> trial_step (project w) a (project (step w a)) = true.
Proof.
  intros Iv NT. destruct (step_inv2 w a NT Iv) as [[I' _] Ev].
  unfold trial_step. apply forallb_forall. intros pt Hpt. unfold project in Hpt. cbn [pj_trials] in Hpt.
  apply in_map_iff in Hpt as (t&<-&It). fold (ptr t).
  pose proof (i_tgood _ I') as G. rewrite Forall_forall in G. destruct (G _ It) as [G1 _].
  rewrite !andb_true_iff. repeat split.
  - unfold pt_is, ptr. cbn [pt_conds]. destruct (has_cond (t_conds t) TSucceeded) eqn:S; [|reflexivity].
    destruct (G1 eq_refl) as (F&M&E&_). now rewrite F, M, E.
  - unfold pt_is, ptr. cbn [pt_conds pt_obs]. destruct (has_cond (t_conds t) TSucceeded) eqn:S; [|reflexivity].
    destruct (G1 eq_refl) as (_&_&_&O). exact O.
  - rewrite find_pt_project. cbn [pt_name ptr]. destruct (find_trial (t_name t) (w_trials w)) as [t0|] eqn:F0; [|reflexivity].
    cbn [option_map]. destruct (tlag_find _ _ _ _ (ev_trials _ _ Ev) F0) as (t'&F'&(_&_&_&K)).
    rewrite (find_trial_in _ _ t (i_nodup _ I') It eq_refl) in F'. inversion F'; subst t'.
    apply forallb_forall. intros k Hk. unfold pt_is, ptr. cbn [pt_conds].
    destruct (has_cond (t_conds t0) k) eqn:H0; [|reflexivity]. cbn. apply K; [|exact H0].
    unfold WorldMon.terminal_types in Hk. unfold WorldPlan.terminal_types. exact Hk.
Qed.

Theorem trial_steps_model w acts : Inv w -> no_teardown acts -> all_steps trial_step (project w) (msteps w acts) = true.
Proof.
  revert w. induction acts as [|a l IH]; intros w I NT; [reflexivity|].
  apply no_teardown_cons in NT as [Na NT]. cbn [msteps all_steps]. rewrite trial_step_model by assumption. cbn.
  apply IH; [now apply step_inv|exact NT].
Qed.
