(* The C01 monitor (Corr/WorldMon.budget_walk), which is evaluated on the IMPLEMENTATION's projected states, holds on the
   model's own projected states for every history without teardown: so whenever implementation and model agree (the
   correspondence check) the monitor cannot alarm -- it is implied by the theorems and never demands more than they give. *)
From KV Require Import Base.Prelude Base.Cond Model.World Proofs.WorldPlan Proofs.WorldInv Proofs.WorldInv2 Proofs.WorldInv4
  Proofs.WorldInv5 Proofs.WorldThm Proofs.WorldObs Proofs.WorldStab Proofs.WorldSugFail Proofs.WorldNoCreate Corr.WorldMon.
Open Scope Z_scope.

(* the projected states of a run of the model *)
Fixpoint msteps (w : world) (acts : list action) : list (action * proj) :=
  match acts with [] => [] | a :: r => (a, project (step w a)) :: msteps (step w a) r end.

Lemma trial_names_project w : trial_names (project w) = names (w_trials w).
Proof. unfold trial_names, project, names. cbn. rewrite map_map. reflexivity. Qed.

Lemma mem_in n l : mem n l = true <-> In n l.
Proof.
  unfold mem. rewrite existsb_exists. split.
  - intros (x&I&E). apply Nat.eqb_eq in E. now subst.
  - intro I. exists n. split; [exact I|apply Nat.eqb_refl].
Qed.

Lemma union_spec seen l : NoDup seen -> NoDup (union seen l) /\ (forall x, In x (union seen l) <-> In x seen \/ In x l).
Proof.
  unfold union. revert seen. induction l as [|a l IH]; intros seen ND; cbn [fold_left].
  - split; [exact ND|]. intro x. cbn. tauto.
  - destruct (mem a seen) eqn:M.
    + destruct (IH seen ND) as [N1 S1]. split; [exact N1|]. intro x. rewrite S1. apply mem_in in M. cbn. split; [tauto|].
      intros [H|[<-|H]]; auto.
    + assert (ND' : NoDup (seen ++ [a])).
      { apply NoDup_snoc; [exact ND|]. intro I. apply mem_in in I. congruence. }
      destruct (IH _ ND') as [N1 S1]. split; [exact N1|]. intro x. rewrite S1, in_app_iff. cbn. tauto.
Qed.

Lemma length_filter_map {A B} (f : B -> bool) (g : A -> B) l : length (filter f (map g l)) = length (filter (fun x => f (g x)) l).
Proof. induction l as [|a l IH]; cbn; [reflexivity|]. destruct (f (g a)); cbn; now rewrite IH. Qed.

Definition AllInv (w : world) : Prop := Inv w /\ ObInv w /\ TS w /\ SFInv w /\ NCInv w.

Lemma AllInv_step w a : AllInv w -> is_teardown a = false -> AllInv (step w a).
Proof.
  intros (I&O&T&S&N) NT. split; [now apply step_inv|]. split; [now apply step_ob|]. split; [now apply step_ts|]. split; [now apply step_sf|now apply step_nc].
Qed.

Theorem budget_walk_model w acts seen :
  AllInv w -> no_teardown acts -> NoDup seen -> incl seen (names (w_trials w)) ->
  budget_walk (w_cfg w) seen (project w) (msteps w acts) = true.
Proof.
  revert w seen. induction acts as [|a acts IH]; intros w seen A NT ND Inc; [reflexivity|].
  apply no_teardown_cons in NT as [Na NT]. pose proof A as (Iv&_&_&_&N). pose proof Iv as [I _].
  pose proof (AllInv_step w a A Na) as A'. pose proof A' as ([I' _]&_).
  cbn [msteps budget_walk].
  assert (Inc' : incl seen (names (w_trials (step w a)))).
  { intros x Hx. apply (step_names_incl w a Na Iv). auto. }
  destruct (union_spec seen (trial_names (project (step w a))) ND) as [ND' US]. rewrite trial_names_project in *.
  assert (Sub : incl (union seen (names (w_trials (step w a)))) (names (w_trials (step w a)))).
  { intros x Hx. apply US in Hx as [Hx|Hx]; auto. }
  rewrite !andb_true_iff. repeat split.
  - (* at most maxTrialCount trials ever *)
    unfold project at 1. cbn [pj_exp]. destruct (w_exp (step w a)) as [e'|] eqn:He'; [|reflexivity]. cbn [pe_max].
    destruct (e_max e') as [m|] eqn:Hm; [|reflexivity]. apply Z.leb_le.
    destruct (budget_of_inv _ I') as [B _]. specialize (B _ _ He' Hm).
    pose proof (NoDup_incl_length ND' Sub) as L. unfold names in L at 2. rewrite map_length in L. lia.
  - (* at most parallelTrialCount non-completed trials *)
    apply Z.leb_le. destruct (budget_of_inv _ I') as [_ B]. rewrite step_cfg in B.
    unfold project. cbn [pj_trials]. rewrite length_filter_map. exact B.
  - (* no new trial once a verdict exists, unless a restart is enabled *)
    destruct (filter (fun n => negb (mem n (trial_names (project w)))) (names (w_trials (step w a)))) as [|n0 fr] eqn:Fr; [reflexivity|].
    destruct (negb (exp_completed (project w)) || restart_enabled (w_cfg w) (project w)) eqn:G; [reflexivity|]. exfalso.
    apply orb_false_iff in G as [G1 G2]. apply negb_false_iff in G1.
    destruct (inv_exp_some _ I) as (e&He&_).
    assert (S : settled (w_cfg w) e).
    { unfold exp_completed, restart_enabled, project in G1, G2. cbn [pj_exp] in G1, G2. rewrite He in G1, G2. cbn [pe_max pe_counts pe_conds] in G1, G2.
      split; [exact G1|]. unfold restart_enabled_e, restartable.
      destruct (get_cond (es_conds (e_st e)) ESucceeded) as [c0|]; [|reflexivity].
      destruct (cstatus_eqb (cstat c0) CTrue && Nat.eqb (creason c0) RMaxTrialsReached) eqn:X; cbn [andb] in *; [|reflexivity].
      destruct (c_resume (w_cfg w)); cbn [andb] in *; first [exact G2|reflexivity]. }
    pose proof (step_no_create w a e Iv N Na He S) as E.
    assert (In n0 (filter (fun n => negb (mem n (trial_names (project w)))) (names (w_trials (step w a))))) by (rewrite Fr; now left).
    apply filter_In in H as [H1 H2]. rewrite E in H1. rewrite trial_names_project in H2.
    apply negb_true_iff in H2. apply mem_in in H1. congruence.
  - rewrite <- (step_cfg w a). apply IH; auto.
Qed.

(* the monitor, as it is evaluated on case files, on a run of the model from the initial state *)
Theorem budget_monitor_sound c acts :
  valid_cfg c -> no_teardown acts -> budget_walk c [] (project (init c)) (msteps (init c) acts) = true.
Proof.
  intros V NT. apply (budget_walk_model (init c) acts []); [|exact NT|constructor|intros ? []].
  exact (all_invs c [] V eq_refl).
Qed.

(* ------------------------------------------------------------------ the C06 step monitor *)

Definition ptr (t : trial) : ptrial :=
  {| pt_name := t_name t; pt_conds := t_conds t; pt_obs := t_obs t; pt_ctime := is_some (t_ctime t); pt_fin := t_fin t; pt_deleting := t_deleting t |}.

Lemma find_pt_project n w : find_pt n (project w) = option_map ptr (find_trial n (w_trials w)).
Proof.
  unfold find_pt, find_trial, project. cbn [pj_trials]. induction (w_trials w) as [|t l IH]; [reflexivity|].
  cbn. destruct (Nat.eqb (t_name t) n); [reflexivity|exact IH].
Qed.

Theorem trial_step_model w a : Inv w -> is_teardown a = false -> trial_step (project w) a (project (step w a)) = true.
Proof.
  intros Iv NT. destruct (step_inv2 w a NT Iv) as [[I' _] Ev].
  unfold trial_step. apply forallb_forall. intros pt Hpt. unfold project in Hpt. cbn [pj_trials] in Hpt.
  apply in_map_iff in Hpt as (t&<-&It). fold (ptr t).
  pose proof (i_tgood _ I') as G. rewrite Forall_forall in G. destruct (G _ It) as [G1 _].
  rewrite !andb_true_iff. repeat split.
  - unfold pt_is, ptr. cbn [pt_conds]. destruct (has_cond (t_conds t) TSucceeded) eqn:S; [|reflexivity].
    destruct (G1 eq_refl) as (F&M&E&_). now rewrite F, M, E.
  - unfold pt_is, ptr. cbn [pt_conds pt_obs]. destruct (has_cond (t_conds t) TSucceeded) eqn:S; [|reflexivity].
    destruct (G1 eq_refl) as (_&_&_&O). exact O.
  - rewrite find_pt_project. cbn [pt_name ptr]. destruct (find_trial (t_name t) (w_trials w)) as [t0|] eqn:F0; [|reflexivity].
    cbn [option_map]. destruct (tlag_find _ _ _ _ (ev_trials _ _ Ev) F0) as (t'&F'&(_&_&_&K)).
    rewrite (find_trial_in _ _ t (i_nodup _ I') It eq_refl) in F'. inversion F'; subst t'.
    apply forallb_forall. intros k Hk. unfold pt_is, ptr. cbn [pt_conds].
    destruct (has_cond (t_conds t0) k) eqn:H0; [|reflexivity]. cbn. apply K; [|exact H0].
    unfold WorldMon.terminal_types in Hk. unfold WorldPlan.terminal_types. exact Hk.
Qed.

Theorem trial_steps_model w acts : Inv w -> no_teardown acts -> all_steps trial_step (project w) (msteps w acts) = true.
Proof.
  revert w. induction acts as [|a l IH]; intros w I NT; [reflexivity|].
  apply no_teardown_cons in NT as [Na NT]. cbn [msteps all_steps]. rewrite trial_step_model by assumption. cbn.
  apply IH; [now apply step_inv|exact NT].
Qed.

(* ------------------------------------------------------------------ the C07 step monitor *)
From KV Require Import Proofs.WorldSucc Proofs.WorldJob Proofs.WorldTrials Proofs.WorldObs.

Lemma in_insert_job j x l : In x (insert_job j l) <-> x = j \/ In x l.
Proof.
  induction l as [|h t IH]; cbn; [intuition|]. destruct (Nat.leb (j_name j) (j_name h)); cbn; [intuition|]. rewrite IH. intuition.
Qed.

Lemma in_sort_jobs x l : In x (sort_jobs l) <-> In x l.
Proof. unfold sort_jobs. induction l as [|h t IH]; cbn; [tauto|]. rewrite in_insert_job, IH. intuition. Qed.

Lemma job_names_project n w : In n (job_names (project w)) <-> find_job n (w_jobs w) <> None.
Proof.
  unfold job_names, project. cbn [pj_jobs]. rewrite in_map_iff, find_job_some_in. split.
  - intros (j&E&I). apply (proj1 (in_sort_jobs _ _)) in I. exists j. split; assumption.
  - intros (j&I&E). exists j. split; [exact E|exact (proj2 (in_sort_jobs _ _) I)].
Qed.

Lemma pt_completed_ptr t : pt_completed (ptr t) = t_completed t.
Proof. reflexivity. Qed.

(* how one step changes the set of run objects (no teardown, no external deletion) *)
Lemma step_jobs w a n :
  Inv w -> JobInv w -> job_safe a = true ->
  (find_job n (w_jobs (step w a)) <> None -> find_job n (w_jobs w) <> None \/
     (exists onf rest, pending_of w CTrial = (WJobCreate n, onf) :: rest)) /\
  (find_job n (w_jobs w) <> None -> find_job n (w_jobs (step w a)) <> None \/
     (exists onf rest, pending_of w CTrial = (WJobDelete n, onf) :: rest)).
Proof.
  intros [I P] J Sf.
  assert (Same : forall w', w_jobs w' = w_jobs w ->
     (find_job n (w_jobs w') <> None -> find_job n (w_jobs w) <> None \/ (exists onf rest, pending_of w CTrial = (WJobCreate n, onf) :: rest)) /\
     (find_job n (w_jobs w) <> None -> find_job n (w_jobs w') <> None \/ (exists onf rest, pending_of w CTrial = (WJobDelete n, onf) :: rest))).
  { intros w' ->. split; auto. }
  destruct a; try discriminate; cbn [step].
  - destruct (pending_of w c); [|apply Same; reflexivity]. destruct c; [|destruct (plan_sug w resp)|]; apply Same; reflexivity.
  - destruct (pending_of w c) as [|[wr onf] rest] eqn:Ep; [apply Same; reflexivity|].
    destruct (if inject_failure then None else apply_write (count_write w) wr) as [w1|] eqn:A; [|apply Same; destruct c; reflexivity].
    destruct inject_failure; [discriminate|].
    assert (E1 : w_jobs (set_pending w1 c rest) = w_jobs w1) by (destruct c; reflexivity). rewrite E1.
    destruct (no_job_write (wr, onf)) eqn:N.
    + destruct (apply_write_job_frame _ _ _ _ A N) as (_&F2&_). rewrite F2. split; auto.
    + assert (c = CTrial).
      { destruct c; [| |reflexivity]; cbn in Ep.
        - pose proof (j_pexp _ J) as H. rewrite Ep in H. apply forallb_tail in H as [H _]. congruence.
        - pose proof (j_psug _ J) as H. rewrite Ep in H. apply forallb_tail in H as [H _]. congruence. }
      subst c. destruct wr; cbn in N; try discriminate; cbn [apply_write] in A.
      * (* status write: run objects untouched *)
        destruct (find_trial name (w_trials (count_write w))); [|discriminate]. destruct (Nat.eqb (t_rv t) rv); [|discriminate].
        inversion A; subst. cbn. split; auto.
      * destruct (find_job name (w_jobs (count_write w))) eqn:Fj; [discriminate|]. inversion A; subst. cbn -[find_job] in *.
        split.
        -- intro H. destruct (Nat.eq_dec n name) as [->|Ne]; [right; eauto|]. left. rewrite find_job_app_other in H; auto.
        -- intro H. left. apply find_job_some_in in H as (j&Ij&Ej). apply find_job_some_in. exists j. split; [apply in_or_app; now left|exact Ej].
      * destruct (find_job name (w_jobs (count_write w))) eqn:Fj; [|discriminate]. inversion A; subst. cbn -[find_job] in *.
        split.
        -- intro H. left. apply find_job_some_in in H as (j0&Ij&Ej). apply filter_In in Ij as [Ij _]. apply find_job_some_in. eauto.
        -- intro H. destruct (Nat.eq_dec n name) as [->|Ne]; [right; eauto|]. left. rewrite find_job_filter_other; auto.
  - apply Same. destruct c; reflexivity.
  - (* JobDone *)
    cbn. split; intro H; left.
    + revert H. apply find_job_map. intro j. destruct (Nat.eqb (j_name j) t); [|reflexivity]. destruct (j_phase j); reflexivity.
    + apply find_job_map; [|exact H]. intro j. destruct (Nat.eqb (j_name j) t); [|reflexivity]. destruct (j_phase j); reflexivity.
  - destruct (find_trial t (w_trials w)), (db_get t (w_db w)); apply Same; reflexivity.
  - destruct (find_trial t (w_trials w)) as [tr|]; [|apply Same; reflexivity]. destruct (_ && _); [|apply Same; reflexivity].
    apply Same. cbn. destruct v, (db_get t (w_db w)); reflexivity.
  - destruct (i_dep (w_infra w)); apply Same; reflexivity.
  - apply Same. reflexivity.
  - apply Same. reflexivity.
  - apply Same. reflexivity.
  - destruct (w_exp w) as [e|]; [|apply Same; reflexivity]. destruct (e_max e); [|apply Same; reflexivity].
    destruct (_ && _ && _); apply Same; reflexivity.
Qed.

(* a pending creation of a run object is for a trial that exists in the store *)
Definition CreateEx (w : world) : Prop :=
  forall c n onf, In (WJobCreate n, onf) (pending_of w c) -> find_trial n (w_trials w) <> None.

Lemma find_trial_some_in n ts : find_trial n ts <> None <-> In n (names ts).
Proof.
  pose proof (find_trial_none n ts) as H. split.
  - intro K. destruct (in_dec Nat.eq_dec n (names ts)) as [I|NI]; [exact I|]. apply H in NI. contradiction.
  - intros I E. apply H in E. contradiction.
Qed.

Lemma step_createex w a : Inv w -> CreateEx w -> is_teardown a = false -> CreateEx (step w a).
Proof.
  intros Iv CE NT c n onf Hx. pose proof Iv as [I _].
  apply find_trial_some_in. apply (step_names_incl w a NT Iv). apply find_trial_some_in.
  destruct (step_pending _ _ _ _ Hx) as [H|[H|[(resp&H)|(key&dberr&H)]]].
  - eapply CE; eauto.
  - exfalso. pose proof (ek_plan_exp_kinds w) as K. rewrite forallb_forall in K. specialize (K _ H). discriminate.
  - exfalso. destruct (plan_sug_shape _ _ _ H) as (cs0&Hc&[(k&[X|X])|(st&X&_)]); discriminate.
  - destruct (plan_trial_shape _ _ _ _ H) as (t&F&N&[(E&_)|[(Pl&_)|[(E&_)|[(E&_)|[(E&_)|(cs&o&ct&E&_)]]]]]); try discriminate.
    + rewrite Pl in H. destruct H as [X|[X|[]]]; discriminate.
    + inversion E; subst. destruct (tlag_find _ _ _ _ (i_tlag _ I) F) as (t'&F'&_). congruence.
Qed.

Theorem job_step_model w a :
  Inv w -> JobInv w -> CreateEx w -> job_safe a = true -> job_step (project w) a (project (step w a)) = true.
Proof.
  intros Iv J CE Sf. pose proof Iv as [I _]. unfold job_step. apply andb_true_iff. split.
  - apply forallb_forall. intros n Hn. apply job_names_project in Hn.
    destruct (proj1 (step_jobs w a n Iv J Sf) Hn) as [H|(onf&rest&Ep)].
    + apply orb_true_iff. left. apply mem_in. now apply job_names_project.
    + apply orb_true_iff. right. rewrite find_pt_project.
      assert (Ix : In (WJobCreate n, onf) (pending_of w CTrial)) by (rewrite Ep; now left).
      destruct (find_trial n (w_trials w)) as [t|] eqn:F; [|exfalso; eapply CE; eauto].
      cbn [option_map]. rewrite pt_completed_ptr.
      destruct (t_completed t) eqn:C; [|reflexivity]. exfalso.
      destruct (find_trial_name _ _ _ F) as [N It]. pose proof (j_done _ J t It C) as Cr. rewrite N in Cr.
      pose proof (j_ptrial _ J) as PT. cbn in Ep. rewrite Ep in PT. destruct PT as [_ [Nin _]]. contradiction.
  - apply forallb_forall. intros n Hn. apply job_names_project in Hn.
    destruct (proj2 (step_jobs w a n Iv J Sf) Hn) as [H|(onf&rest&Ep)].
    + apply orb_true_iff. left. apply mem_in. now apply job_names_project.
    + apply orb_true_iff. right. rewrite find_pt_project.
      destruct (find_trial n (w_trials w)) as [t|] eqn:F; [|reflexivity]. cbn [option_map]. rewrite pt_completed_ptr.
      pose proof (j_ptrial _ J) as PT. cbn in Ep. rewrite Ep in PT. destruct PT as [Fa _]. inversion Fa as [|? ? OK _]; subst.
      unfold jw_ok in OK. cbn [fst] in OK. destruct OK as [_ Cc].
      destruct (cached_completed_store w n I Cc) as (t'&F'&C'). rewrite F in F'. inversion F'; subst. exact C'.
Qed.

Theorem job_steps_model w acts :
  Inv w -> JobInv w -> CreateEx w -> job_safe_acts acts -> all_steps job_step (project w) (msteps w acts) = true.
Proof.
  revert w. induction acts as [|a l IH]; intros w I J CE Sf; [reflexivity|].
  unfold job_safe_acts in Sf. cbn in Sf. apply andb_true_iff in Sf as [Sa Sl].
  cbn [msteps all_steps]. rewrite job_step_model by assumption. cbn.
  apply IH; [apply step_inv; [now apply job_safe_no_teardown|exact I]|now apply step_job
            |apply step_createex; [exact I|exact CE|now apply job_safe_no_teardown]|exact Sl].
Qed.

Theorem job_monitor_sound c acts :
  valid_cfg c -> job_safe_acts acts -> all_steps job_step (project (init c)) (msteps (init c) acts) = true.
Proof.
  intros V Sf. apply job_steps_model; [now apply Inv_init|apply JobInv_init| |exact Sf]. intros [] n onf [].
Qed.

(* ------------------------------------------------------------------ C16 step monitors *)
From KV Require Import Proofs.WorldRpc.

Lemma exp_completed_project w : exp_completed (project w) = match w_exp w with Some e => e_completed (e_st e) | None => false end.
Proof. unfold exp_completed, project. cbn [pj_exp]. destruct (w_exp w); reflexivity. Qed.

Lemma restart_enabled_project w e : w_exp w = Some e -> restart_enabled (w_cfg w) (project w) = restart_enabled_e (w_cfg w) e.
Proof.
  intro He. unfold restart_enabled, project, restart_enabled_e, restartable. cbn [pj_exp]. rewrite He. cbn [pe_conds pe_max pe_counts].
  destruct (get_cond (es_conds (e_st e)) ESucceeded) as [c0|]; [|reflexivity].
  destruct (cstatus_eqb (cstat c0) CTrue && Nat.eqb (creason c0) RMaxTrialsReached); cbn [andb]; [|reflexivity].
  destruct (c_resume (w_cfg w)); reflexivity.
Qed.

(* a verdict is withdrawn only when the restart is enabled *)
Theorem restart_step_model w a : Inv w -> is_teardown a = false -> restart_step (w_cfg w) (project w) a (project (step w a)) = true.
Proof.
  intros Iv NT. unfold restart_step. rewrite !exp_completed_project.
  pose proof Iv as [I _]. destruct (inv_exp_some _ I) as (e&He&_). rewrite He.
  destruct (e_completed (e_st e)) eqn:C; [|reflexivity]. cbn [andb].
  destruct (restart_enabled (w_cfg w) (project w)) eqn:R; [now destruct (_ && _)|].
  rewrite (restart_enabled_project w e He) in R.
  destruct (verdict_stable_step w a e Iv NT He C R) as (e'&He'&S). rewrite He'.
  now rewrite (verdict_same_completed _ _ S C).
Qed.

Theorem restart_steps_model w acts : Inv w -> no_teardown acts -> all_steps (restart_step (w_cfg w)) (project w) (msteps w acts) = true.
Proof.
  revert w. induction acts as [|a l IH]; intros w I NT; [reflexivity|].
  apply no_teardown_cons in NT as [Na NT]. cbn [msteps all_steps]. rewrite restart_step_model by assumption. cbn.
  rewrite <- (step_cfg w a). apply IH; [now apply step_inv|exact NT].
Qed.

(* no algorithm call by a suggestion reconcile that sees the suggestion Succeeded: the monitor's "cached" suggestion is the
   model's suggestion cache *)
Definition psug_of (s : sugobj) : psug :=
  {| ps_requests := s_requests s; ps_names := ss_names (s_st s); ps_count := ss_count (s_st s); ps_conds := ss_conds (s_st s); ps_settings := ss_settings (s_st s) |}.

Lemma pj_sug_project w : pj_sug (project w) = option_map psug_of (w_sug w).
Proof. unfold project. cbn [pj_sug]. destruct (w_sug w); reflexivity. Qed.

Lemma action_eq_syncsug a : a = SyncSug \/ a <> SyncSug.
Proof. destruct a; try (right; discriminate). now left. Qed.

Lemma step_csug_same w a : a <> SyncSug -> c_sug (step w a) = c_sug w.
Proof.
  intro Ne. destruct a; cbn [step].
  - destruct (pending_of w c); [|reflexivity]. destruct c; [|destruct (plan_sug w resp)|]; reflexivity.
  - destruct (pending_of w c) as [|[wr onf] rest]; [reflexivity|].
    destruct (if inject_failure then None else apply_write (count_write w) wr) as [w1|] eqn:A; [|destruct c; reflexivity].
    destruct inject_failure; [discriminate|]. destruct (apply_write_side0 _ _ _ A) as (_&E&_). destruct c; cbn; rewrite E; reflexivity.
  - destruct c; reflexivity.
  - reflexivity.
  - reflexivity.
  - destruct (find_trial t (w_trials w)), (db_get t (w_db w)); reflexivity.
  - destruct (find_trial t (w_trials w)) as [tr|]; [|reflexivity]. destruct (_ && _); [|reflexivity]. cbn. destruct v, (db_get t (w_db w)); reflexivity.
  - destruct (i_dep (w_infra w)); reflexivity.
  - reflexivity.
  - contradiction.
  - reflexivity.
  - destruct (w_exp w) as [e|]; [|reflexivity]. destruct (e_max e); [|reflexivity]. destruct (_ && _ && _); reflexivity.
  - destruct (w_exp w) as [e|]; [|reflexivity]. destruct (e_fin e); reflexivity.
  - destruct (w_exp w), (find_trial t (w_trials w)) as [tr|]; try reflexivity. destruct (t_fin tr); reflexivity.
Qed.

Theorem rpc_walk_model w acts : rpc_walk (option_map psug_of (c_sug w)) (project w) (msteps w acts) = true.
Proof.
  revert w. induction acts as [|a l IH]; intro w; [reflexivity|]. cbn [msteps rpc_walk].
  apply andb_true_iff. split.
  - destruct a; try reflexivity. destruct c; try reflexivity.
    destruct (c_sug w) as [s|] eqn:Hs; [|reflexivity]. cbn [option_map].
    destruct (ps_is (psug_of s) SSucceeded) eqn:S; [|reflexivity]. cbn [negb orb].
    unfold project. cbn [pj_nrpc]. rewrite (no_rpc_while_succeeded w _ s Hs S). apply Nat.eqb_refl.
  - assert (E : match a with SyncSug => pj_sug (project w) | _ => option_map psug_of (c_sug w) end = option_map psug_of (c_sug (step w a))).
    { destruct (action_eq_syncsug a) as [->|Ne].
      - cbn [step set_caches c_sug]. apply pj_sug_project.
      - rewrite (step_csug_same w a Ne). destruct a; try reflexivity. contradiction. }
    rewrite E. apply IH.
Qed.

(* under LongRunning the suggestion is never Succeeded: the step clause of the C16 monitor on the model's projections *)
Lemma sug_succeeded_project w : sug_succeeded (project w) = match w_sug w with Some s => s_is (s_st s) SSucceeded | None => false end.
Proof. unfold sug_succeeded, project. cbn [pj_sug]. destruct (w_sug w); reflexivity. Qed.

Lemma longrunning_state w : SuccInv w -> c_resume (w_cfg w) = LongRunning -> sug_succeeded (project w) = false.
Proof.
  intros S R. rewrite sug_succeeded_project. destruct (w_sug w) as [s|] eqn:Hs; [|reflexivity].
  destruct (s_is (s_st s) SSucceeded) eqn:E; [|reflexivity]. destruct (si_sug _ S _ Hs E) as [N _]. congruence.
Qed.

Theorem longrunning_never_succeeded_model w acts :
  Inv w -> SuccInv w -> c_resume (w_cfg w) = LongRunning -> no_teardown acts ->
  all_states (fun p => negb (sug_succeeded p)) (project w) (msteps w acts) = true.
Proof.
  intros I S R NT. unfold all_states. rewrite (longrunning_state w S R). cbn [negb andb].
  revert w I S R NT. induction acts as [|a l IH]; intros w I S R NT; [reflexivity|].
  apply no_teardown_cons in NT as [Na NT]. cbn [msteps forallb snd].
  assert (S' : SuccInv (step w a)) by (apply step_succ; auto; rewrite R; discriminate).
  assert (R' : c_resume (w_cfg (step w a)) = LongRunning) by now rewrite step_cfg.
  rewrite (longrunning_state _ S' R'). cbn [negb andb]. apply IH; auto. now apply step_inv.
Qed.

(* ------------------------------------------------------------------ the C06 walk monitor: MetricsUnavailable is justified by the
   DB as of the Begin of the reporting reconcile *)
From KV Require Import Proofs.WorldMu.

Lemma begin_trials w c key resp dberr : w_trials (step w (Begin c key resp dberr)) = w_trials w.
Proof.
  cbn [step]. destruct (pending_of w c); [|reflexivity]. destruct c; [|destruct (plan_sug w resp)|]; reflexivity.
Qed.

Lemma snap_next_project w a snap :
  match a with
  | Begin CTrial k _ _ => match pj_pending (project w) with (_, _, true) => snap | _ => Some (k, pj_db (project w)) end
  | _ => snap end = snap_next w a snap.
Proof.
  unfold snap_next. destruct a; try reflexivity. destruct c; try reflexivity.
  unfold project. cbn [pj_pending pj_db]. destruct (p_trial w); reflexivity.
Qed.

Lemma has_cond_snoc_es cs : has_cond (cs ++ [es_cond]) TMetricsUnavailable = has_cond cs TMetricsUnavailable.
Proof. unfold has_cond. rewrite get_app. destruct (get_cond cs TMetricsUnavailable); reflexivity. Qed.

Theorem mu_step_model snap w a :
  Inv w -> MuInv snap w -> is_teardown a = false ->
  forallb (fun t =>
    match find_pt (pt_name t) (project w) with
    | Some t0 =>
        if pt_is t TMetricsUnavailable && negb (pt_is t0 TMetricsUnavailable) then
          match snap_next w a snap with
          | Some (k, db) => Nat.eqb k (pt_name t) && match db_get (pt_name t) db with Some (Some _) => false | _ => true end
          | None => false
          end
        else true
    | None => negb (pt_is t TMetricsUnavailable)
    end) (pj_trials (project (step w a))) = true.
Proof.
  intros Iv [T K] NT. pose proof Iv as [I _].
  apply forallb_forall. intros pt Hpt. unfold project in Hpt. cbn [pj_trials] in Hpt.
  apply in_map_iff in Hpt as (t'&<-&It'). fold (ptr t'). rewrite find_pt_project. cbn [pt_name ptr].
  destruct (tgrow_in _ _ _ _ (step_trials w a Iv NT) It') as [(t&It&E)|(n&->)].
  2:{ (* a new trial carries no condition *)
      destruct (find_trial _ _); cbn [option_map]; reflexivity. }
  assert (Same : t_name t' = t_name t -> has_cond (t_conds t') TMetricsUnavailable = has_cond (t_conds t) TMetricsUnavailable ->
          match option_map ptr (find_trial (t_name t') (w_trials w)) with
          | Some t0 => if pt_is (ptr t') TMetricsUnavailable && negb (pt_is t0 TMetricsUnavailable)
                       then match snap_next w a snap with
                            | Some (k, db) => Nat.eqb k (t_name t') && match db_get (t_name t') db with Some (Some _) => false | _ => true end
                            | None => false end
                       else true
          | None => negb (pt_is (ptr t') TMetricsUnavailable) end = true).
  { intros N C. rewrite N, (find_trial_in _ _ t (i_nodup _ I) It eq_refl). cbn [option_map]. unfold pt_is, ptr. cbn [pt_conds].
    rewrite C. now destruct (has_cond (t_conds t) TMetricsUnavailable). }
  destruct E as [t|t t' N Cc Ob Ct|t t' c cs o ct onf Ip N Cc Ob|t t' Nc Cr J N Cc Ob].
  - apply Same; reflexivity.
  - apply Same; [exact N|now rewrite Cc].
  - (* a pending status write lands: the step is not a Begin, so the snapshot is the one of the invariant *)
    rewrite N, (find_trial_in _ _ t (i_nodup _ I) It eq_refl). cbn [option_map]. unfold pt_is, ptr. cbn [pt_conds]. rewrite Cc.
    destruct (has_cond cs TMetricsUnavailable) eqn:M; [|reflexivity].
    destruct (has_cond (t_conds t) TMetricsUnavailable) eqn:M0; [reflexivity|]. cbn [negb andb].
    pose proof (T c) as F. rewrite Forall_forall in F. specialize (F _ Ip). unfold muw_ok in F. cbn [fst] in F.
    destruct (F M t (find_trial_in _ _ t (i_nodup _ I) It eq_refl) eq_refl) as [L|(db&Es&Nd)]; [congruence|].
    assert (Sn : snap_next w a snap = snap).
    { unfold snap_next. destruct a; try reflexivity. destruct c0; try reflexivity.
      (* a Begin leaves the stored trials alone: the stored trial would not have changed *)
      exfalso. pose proof (begin_trials w CTrial key resp dberr) as Bt.
      pose proof (i_nodup _ I) as ND.
      assert (It2 : In t' (w_trials w)) by (rewrite <- Bt; exact It').
      assert (t' = t).
      { pose proof (find_trial_in _ _ t ND It eq_refl) as F1. pose proof (find_trial_in _ _ t' ND It2 eq_refl) as F2.
        rewrite N in F2. rewrite F1 in F2. now inversion F2. }
      subst t'. congruence. }
    rewrite Sn, Es. rewrite Nat.eqb_refl. cbn [andb]. unfold nodbobj in Nd. exact Nd.
  - apply Same; [exact N|]. rewrite Cc. apply has_cond_snoc_es.
Qed.

Theorem mu_walk_model snap w acts :
  Inv w -> MuInv snap w -> no_teardown acts -> mu_walk snap (project w) (msteps w acts) = true.
Proof.
  revert snap w. induction acts as [|a l IH]; intros snap w I M NT; [reflexivity|].
  apply no_teardown_cons in NT as [Na NT]. cbn [msteps mu_walk]. rewrite snap_next_project.
  apply andb_true_iff. split; [now apply mu_step_model|].
  apply IH; [now apply step_inv|now apply step_mu|exact NT].
Qed.

(* the monitor, as it is evaluated on case files, on a run of the model from the initial state *)
Theorem mu_monitor_sound c acts :
  valid_cfg c -> no_teardown acts -> mu_walk None (project (init c)) (msteps (init c) acts) = true.
Proof. intros V NT. apply mu_walk_model; [now apply Inv_init|apply MuInv_init|exact NT]. Qed.
