(* C07: the at-rest clause of the run-object monitor (Corr/WorldMon.job_final: for a completed trial, with retain the run object is
   still there if it was ever created, without retain it is gone) holds on the model's own projections, for every history without
   teardown and without external deletion of run objects that ends quiescent with the environment done. *)
From KV Require Import Base.Prelude Base.Cond Model.World Proofs.WorldPlan Proofs.WorldInv Proofs.WorldInv2 Proofs.WorldInv5
  Proofs.WorldThm Proofs.WorldQuiet Proofs.WorldJob Corr.WorldC Corr.WorldMon Proofs.MonSound Proofs.WorldRest.
Open Scope Z_scope.

Lemma mem_job_names n w : mem n (job_names (project w)) = true <-> find_job n (w_jobs w) <> None.
Proof. rewrite mem_in. apply job_names_project. Qed.

Theorem job_final_model c acts :
  valid_cfg c -> job_safe_acts acts -> quiescent (run c acts) ->
  WorldMon.env_done (project (run c acts)) = true ->
  forall k, k_cfg k = c -> k_jobcreates k = g_jobcreates (run c acts) -> job_final k (project (run c acts)) = true.
Proof.
  intros V Sf Qu En k Hc Hj. apply env_done_project in En.
  destruct (Inv_reachable c acts V (job_safe_acts_no_teardown _ Sf)) as [I _].
  assert (Cf : w_cfg (run c acts) = c) by (unfold run; now rewrite run_cfg).
  unfold job_final. apply forallb_forall. intros pt Hin.
  cbn [project pj_trials] in Hin. apply in_map_iff in Hin as (t&<-&It).
  match goal with |- (if pt_completed ?x then _ else _) = true => change x with (ptr t) end.
  destruct (pt_completed (ptr t)); [|reflexivity].
  cbn [ptr pt_name]. rewrite Hc, Hj.
  destruct (c_retain c) eqn:R.
  - destruct (mem (t_name t) (g_jobcreates (run c acts))) eqn:M; [|now rewrite orb_true_r].
    apply mem_in in M. pose proof (job_kept_with_retain c acts _ V Sf R M) as K.
    apply mem_job_names in K. now rewrite K.
  - assert (R' : c_retain (w_cfg (run c acts)) = false) by now rewrite Cf.
    pose proof (quiescent_job_removed _ t I Qu En It R') as G.
    destruct (mem (t_name t) (job_names (project (run c acts)))) eqn:M; [|reflexivity].
    apply mem_job_names in M. congruence.
Qed.

(* Non-vacuity: the F18 history (retain = true) is free of teardown and external deletions, ends quiescent with the environment
   done, two completed trials whose run objects were created and are still there. *)
From KV Require Import Proofs.F18.
Example job_final_premises_hold :
  valid_cfg f18_cfg /\ job_safe_acts f18_acts /\ quiescent (run f18_cfg f18_acts) /\
  WorldMon.env_done (project (run f18_cfg f18_acts)) = true /\ c_retain f18_cfg = true /\
  g_jobcreates (run f18_cfg f18_acts) = [1%nat; 2%nat] /\
  map t_completed (w_trials (run f18_cfg f18_acts)) = [true; true].
Proof.
  destruct at_rest_premises_hold as (V&_&_&Q&En&_).
  split; [exact V|]. split; [vm_compute; reflexivity|]. split; [exact Q|]. split; [exact En|].
  split; [reflexivity|]. split; vm_compute; reflexivity.
Qed.
