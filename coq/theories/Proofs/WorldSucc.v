(* "The suggestion is Succeeded only if the experiment has a verdict": an invariant of the joint model under resumePolicy
   Never and LongRunning (under FromVolume it fails: Proofs/F18.v).  It discharges the second hypothesis of C04_no_wedge. *)
From KV Require Import Base.Prelude Base.Cond Model.World Proofs.WorldPlan Proofs.EqbRefl Proofs.WorldInv Proofs.WorldInv2
  Proofs.WorldInv4 Proofs.WorldInv5 Proofs.WorldThm Proofs.WorldQuiet.
Open Scope Z_scope.

Definition exp_done (w : world) : Prop := exists e, w_exp w = Some e /\ e_completed (e_st e) = true.

(* what a Succeeded suggestion status implies *)
Definition Q (w : world) : Prop := c_resume (w_cfg w) = Never /\ exp_done w.
Definition sdone (w : world) (st : sstatus) : Prop := s_is st SSucceeded = true -> Q w.
Definition wdone (w : world) (x : write * onfail) : Prop :=
  match fst x with WSugStatus st _ => sdone w st | _ => True end.

Record SuccInv (w : world) : Prop := {
  si_cexp : c_resume (w_cfg w) = Never -> forall ce, c_exp w = Some ce -> e_completed (e_st ce) = true -> exp_done w;
  si_sug : forall s, w_sug w = Some s -> sdone w (s_st s);
  si_csug : forall s, c_sug w = Some s -> sdone w (s_st s);
  si_pend : forall c, Forall (wdone w) (pending_of w c) }.

(* ------------------------------------------------------------------ which planned writes carry Succeeded *)

Lemma smark_running_not_succeeded cs st r : has_cond (smark_running cs st r) SSucceeded = false.
Proof.
  unfold smark_running. rewrite has_set. cbn [Nat.eqb SRunning SSucceeded]. unfold has_cond. now rewrite get_remove_same.
Qed.

Lemma plan_exp_completed_succ cf e sug ws st1 stop st rv onf :
  plan_exp_completed cf e sug = (ws, st1, stop) -> In (WSugStatus st rv, onf) ws -> s_is st SSucceeded = true ->
  c_resume cf <> LongRunning /\ e_completed (e_st e) = true.
Proof.
  unfold plan_exp_completed. intros P I S.
  destruct (e_completed (e_st e)) eqn:C; [|inversion P; subst; destruct I].
  set (cleanup := match c_resume cf, sug with
                  | LongRunning, _ | _, None => []
                  | _, Some s => if s_completed (s_st s) || s_restarting (s_st s) then []
                                 else [(WSugStatus (s_with_conds (s_st s) (smark_succeeded (ss_conds (s_st s)))) (s_rv s), Stop)]
                  end) in *.
  assert (K : In (WSugStatus st rv, onf) cleanup -> c_resume cf <> LongRunning).
  { unfold cleanup. destruct (c_resume cf); try (intros _; discriminate); intros []. }
  destruct (restartable cf (e_st e) && _).
  - inversion P; subst. apply in_app_or in I as [I|I]; [split; auto|].
    exfalso. destruct (c_resume cf), sug as [s|]; try (destruct I; fail).
    destruct (s_restarting (s_st s)); [destruct I|]. destruct I as [I|[]]. inversion I; subst.
    unfold s_is, s_with_conds in S. cbn [ss_conds] in S. now rewrite smark_running_not_succeeded in S.
  - inversion P; subst. split; auto.
Qed.

Lemma plan_exp_succ w st rv onf :
  InvS w -> In (WSugStatus st rv, onf) (plan_exp w) -> s_is st SSucceeded = true ->
  c_resume (w_cfg w) <> LongRunning /\ exists ce, c_exp w = Some ce /\ e_completed (e_st ce) = true.
Proof.
  intros I H S. unfold plan_exp in H. destruct (c_exp w) as [e|] eqn:Hce; [|destruct H].
  destruct (i_exp _ I) as (e0&ce&He0&Hce'&_&_&_&_&Nce). rewrite Hce in Hce'. inversion Hce'; subst ce.
  pose proof (status_ok_nonneg _ _ Nce) as NN.
  destruct (negb (e_deleting e) && negb (e_fin e)); [destruct H as [H|[]]; discriminate|].
  destruct (e_deleting e && e_fin e); [destruct H as [H|[]]; discriminate|].
  destruct (plan_exp_completed (w_cfg w) e (c_sug w)) as [[ws1 st1] stop] eqn:PC.
  assert (C1 : In (WSugStatus st rv, onf) ws1 -> c_resume (w_cfg w) <> LongRunning /\ exists ce, Some e = Some ce /\ e_completed (e_st ce) = true).
  { intro I1. destruct (plan_exp_completed_succ _ _ _ _ _ _ _ _ _ PC I1 S). eauto. }
  assert (NN1 : counts_nonneg (es_counts st1)) by (rewrite (plan_exp_completed_counts _ _ _ _ _ _ PC); exact NN).
  destruct stop; [auto|].
  destruct (negb (e_is st1 ECreated)).
  - apply in_app_or in H as [H|H]; [auto|]. apply in_status_write in H. discriminate.
  - apply in_app_or in H as [H|H]; [auto|].
    apply plan_exp_reconcile_shape in H; [|exact NN1].
    destruct H as [(x&H&_)|[H|[(r&_&[(_&H)|(s&_&[H|(n&H&_)])])|(s&_&H&_)]]]; try discriminate.
    exfalso. inversion H; subst. unfold s_is, s_with_conds in S. cbn [ss_conds] in S. now rewrite smark_running_not_succeeded in S.
Qed.

Lemma plan_sug_succ w resp st rv onf :
  In (WSugStatus st rv, onf) (fst (plan_sug w resp)) -> s_is st SSucceeded = false.
Proof.
  unfold plan_sug. destruct (c_sug w) as [s|]; [|intros []]. intro H.
  destruct (s_is (s_st s) SSucceeded) eqn:NS.
  { cbn [fst] in H. apply in_app_or in H as [H|H].
    - destruct (i_dep (w_infra w)); [destruct H as [H|[]]; discriminate|destruct H].
    - destruct (i_svc (w_infra w)); [destruct H as [H|[]]; discriminate|destruct H]. }
  unfold s_is in NS.
  assert (W : forall cs, has_cond cs SSucceeded = false ->
              In (WSugStatus st rv, onf) (sstatus_write s (s_with_conds (s_st s) cs)) -> s_is st SSucceeded = false).
  { intros cs Hc I. apply in_sstatus_write in I. inversion I; subst. exact Hc. }
  assert (WC : forall cs, has_cond cs SSucceeded = false ->
              In (WSugStatus st rv, onf) (sstatus_write_conds s cs) -> s_is st SSucceeded = false).
  { intros cs Hc I. apply in_sstatus_write_conds in I. inversion I; subst. exact Hc. }
  assert (IC : ~ In (WSugStatus st rv, onf) (infra_creates (w_cfg w) (w_infra w))).
  { intro I. apply in_infra_creates in I as (k&I). discriminate. }
  assert (S1 : forall k st0 r, k <> SSucceeded -> has_cond (set_cond (ss_conds (s_st s)) k st0 r) SSucceeded = false).
  { intros k st0 r Hk. rewrite has_set. destruct (Nat.eqb k SSucceeded) eqn:E; [apply Nat.eqb_eq in E; contradiction|exact NS]. }
  destruct (negb (s_is (s_st s) SCreated)).
  { cbn [fst] in H. eapply W; [|exact H]. unfold mark. apply S1. discriminate. }
  destruct (i_dep (w_infra w)) as [[|]|].
  2,3: cbn [fst] in H; apply in_app_or in H as [H|H]; [contradiction|]; (eapply W; [|exact H]); apply S1; discriminate.
  set (cs1 := set_cond (ss_conds (s_st s)) SDeploymentReady CTrue RDeploymentReady) in *.
  assert (N1 : has_cond cs1 SSucceeded = false) by (apply S1; discriminate).
  destruct (c_exp w); [|cbn [fst] in H; apply in_app_or in H as [H|H]; [contradiction|]; eapply WC; eauto].
  assert (NF : has_cond (smark_failed cs1) SSucceeded = false).
  { unfold smark_failed, mark. rewrite has_set. cbn [Nat.eqb SFailed SSucceeded]. rewrite has_turn_off. cbn [Nat.eqb SRunning SSucceeded]. exact N1. }
  assert (NR : has_cond (smark_running cs1 CTrue RRunning) SSucceeded = false) by apply smark_running_not_succeeded.
  destruct (if has_cond cs1 SRunning then (cs1, [], false)
            else if negb (r_valid resp) then (smark_failed cs1, [RpcValidate], true)
            else if c_es (w_cfg w) && negb (r_esvalid resp) then (smark_failed cs1, [RpcValidate; RpcValidateES], true)
            else (smark_running cs1 CTrue RRunning, if c_es (w_cfg w) then [RpcValidate; RpcValidateES] else [RpcValidate], false))
    as [[cs2 rpcs1] failed] eqn:V.
  assert (N2 : has_cond cs2 SSucceeded = false).
  { destruct (has_cond cs1 SRunning); [inversion V; subst; exact N1|].
    destruct (negb (r_valid resp)); [inversion V; subst; exact NF|].
    destruct (c_es (w_cfg w) && negb (r_esvalid resp)); inversion V; subst; assumption. }
  destruct failed; [cbn [fst] in H; apply in_app_or in H as [H|H]; [contradiction|]; eapply W; eauto|].
  destruct (s_requests s - ss_count (s_st s) <=? 0); [cbn [fst] in H; apply in_app_or in H as [H|H]; [contradiction|]; eapply W; eauto|].
  destruct (r_reply resp) as [|names settings]; [cbn [fst] in H; apply in_app_or in H as [H|H]; [contradiction|]; eapply WC; eauto|].
  destruct (negb (Z.of_nat (length names) =? s_requests s - ss_count (s_st s)));
    [cbn [fst] in H; apply in_app_or in H as [H|H]; [contradiction|]; eapply WC; eauto|].
  destruct (c_es (w_cfg w) && negb (r_esrules resp));
    [cbn [fst] in H; apply in_app_or in H as [H|H]; [contradiction|]; eapply WC; eauto|].
  cbn [fst] in H. apply in_app_or in H as [H|H]; [contradiction|]. apply in_sstatus_write in H. inversion H; subst. exact N2.
Qed.

Lemma plan_trial_no_sug w key dberr st rv onf : ~ In (WSugStatus st rv, onf) (plan_trial w key dberr).
Proof.
  intro H. destruct (plan_trial_shape _ _ _ _ H) as (t&F&N&[(E&_)|[(P&_)|[(E&_)|[(E&_)|[(E&_)|(cs&o&ct&E&K)]]]]]); try discriminate.
  rewrite P in H. destruct H as [H|[H|[]]]; discriminate.
Qed.

(* ------------------------------------------------------------------ what a step does to the parts the invariant looks at *)

Ltac aw_cases A w :=
  match type of A with
  | context [match w_exp w with _ => _ end] => destruct (w_exp w) as [?e|]; try discriminate
  | context [match w_sug w with _ => _ end] => destruct (w_sug w) as [?s|] eqn:?Hs; try discriminate
  | context [match find_trial ?n (w_trials w) with _ => _ end] => destruct (find_trial n (w_trials w)) as [?t|]; try discriminate
  | context [match find_job ?n (w_jobs w) with _ => _ end] => destruct (find_job n (w_jobs w)); try discriminate
  | context [if ?b then _ else _] => destruct b eqn:?; try discriminate
  end.

Lemma apply_write_side0 w wr w1 :
  apply_write w wr = Some w1 ->
  c_exp w1 = c_exp w /\ c_sug w1 = c_sug w /\ forall c, pending_of w1 c = pending_of w c.
Proof.
  intro A. destruct wr; cbn [apply_write] in A; repeat aw_cases A w; inversion A; subst; cbn;
    (split; [reflexivity|split; [reflexivity|intro c; destruct c; reflexivity]]).
Qed.

Lemma apply_write_sug w wr w1 s1 :
  apply_write w wr = Some w1 -> w_sug w1 = Some s1 ->
  (exists s, w_sug w = Some s /\ s_st s1 = s_st s) \/ (exists rv, wr = WSugStatus (s_st s1) rv) \/ ss_conds (s_st s1) = [].
Proof.
  intros A H. destruct wr; cbn [apply_write] in A; repeat aw_cases A w; inversion A; subst; cbn in H;
    try (left; eexists; split; [eassumption|reflexivity]; fail);
    try (inversion H; subst; cbn; eauto; fail).
  all: try (left; rewrite ?Hs in *; eexists; split; [eassumption|reflexivity]).
Qed.

Lemma count_write_sug w : w_sug (count_write w) = w_sug w. Proof. reflexivity. Qed.

Lemma step_cexp w a : c_exp (step w a) = c_exp w \/ c_exp (step w a) = w_exp (step w a).
Proof.
  destruct a; cbn [step].
  - destruct (pending_of w c); [|auto]. destruct c; [|destruct (plan_sug w resp)|]; auto.
  - destruct (pending_of w c) as [|[wr onf] rest]; [auto|].
    destruct (if inject_failure then None else apply_write (count_write w) wr) as [w1|] eqn:A; [|destruct c; auto].
    destruct inject_failure; [discriminate|]. destruct (apply_write_side0 _ _ _ A) as (E&_&_). left. destruct c; cbn; rewrite E; reflexivity.
  - destruct c; auto.
  - auto.
  - auto.
  - destruct (find_trial t (w_trials w)), (db_get t (w_db w)); auto.
  - destruct (find_trial t (w_trials w)) as [tr|]; [|auto]. destruct (_ && _); [|auto]. left. cbn. destruct v, (db_get t (w_db w)); reflexivity.
  - destruct (i_dep (w_infra w)); auto.
  - auto.
  - auto.
  - auto.
  - destruct (w_exp w) as [e|]; [|auto]. destruct (e_max e); [|auto]. destruct (_ && _ && _); auto.
  - destruct (w_exp w) as [e|]; [|auto]. destruct (e_fin e); auto.
  - destruct (w_exp w), (find_trial t (w_trials w)) as [tr|]; auto. destruct (t_fin tr); auto.
Qed.

Lemma step_csug w a : c_sug (step w a) = c_sug w \/ c_sug (step w a) = w_sug (step w a).
Proof.
  destruct a; cbn [step].
  - destruct (pending_of w c); [|auto]. destruct c; [|destruct (plan_sug w resp)|]; auto.
  - destruct (pending_of w c) as [|[wr onf] rest]; [auto|].
    destruct (if inject_failure then None else apply_write (count_write w) wr) as [w1|] eqn:A; [|destruct c; auto].
    destruct inject_failure; [discriminate|]. destruct (apply_write_side0 _ _ _ A) as (_&E&_). left. destruct c; cbn; rewrite E; reflexivity.
  - destruct c; auto.
  - auto.
  - auto.
  - destruct (find_trial t (w_trials w)), (db_get t (w_db w)); auto.
  - destruct (find_trial t (w_trials w)) as [tr|]; [|auto]. destruct (_ && _); [|auto]. left. cbn. destruct v, (db_get t (w_db w)); reflexivity.
  - destruct (i_dep (w_infra w)); auto.
  - auto.
  - auto.
  - auto.
  - destruct (w_exp w) as [e|]; [|auto]. destruct (e_max e); [|auto]. destruct (_ && _ && _); auto.
  - destruct (w_exp w) as [e|]; [|auto]. destruct (e_fin e); auto.
  - destruct (w_exp w), (find_trial t (w_trials w)) as [tr|]; auto. destruct (t_fin tr); auto.
Qed.

(* the stored suggestion status after a step: the old one, one that was pending, or the empty status of a new object *)
Lemma step_sug w a s1 :
  w_sug (step w a) = Some s1 ->
  (exists s, w_sug w = Some s /\ s_st s1 = s_st s) \/
  (exists c rv onf, In (WSugStatus (s_st s1) rv, onf) (pending_of w c)) \/ ss_conds (s_st s1) = [].
Proof.
  assert (Same : forall w', w_sug w' = w_sug w -> w_sug w' = Some s1 -> (exists s, w_sug w = Some s /\ s_st s1 = s_st s) \/
              (exists c rv onf, In (WSugStatus (s_st s1) rv, onf) (pending_of w c)) \/ ss_conds (s_st s1) = []).
  { intros w' E H. rewrite E in H. left. eauto. }
  destruct a; cbn [step].
  - destruct (pending_of w c); [|apply Same; reflexivity]. destruct c; [|destruct (plan_sug w resp)|]; apply Same; reflexivity.
  - destruct (pending_of w c) as [|[wr onf] rest] eqn:Ep; [apply Same; reflexivity|].
    destruct (if inject_failure then None else apply_write (count_write w) wr) as [w1|] eqn:A; [|apply Same; destruct c; reflexivity].
    destruct inject_failure; [discriminate|]. intro H.
    assert (H1 : w_sug w1 = Some s1) by (destruct c; exact H).
    destruct (apply_write_sug _ _ _ _ A H1) as [K|[(rv&->)|K]]; [left; exact K| |auto].
    right. left. exists c, rv, onf. rewrite Ep. now left.
  - apply Same. destruct c; reflexivity.
  - apply Same. reflexivity.
  - apply Same. reflexivity.
  - destruct (find_trial t (w_trials w)), (db_get t (w_db w)); apply Same; reflexivity.
  - destruct (find_trial t (w_trials w)) as [tr|]; [|apply Same; reflexivity]. destruct (_ && _); [|apply Same; reflexivity].
    apply Same. cbn. destruct v, (db_get t (w_db w)); reflexivity.
  - destruct (i_dep (w_infra w)); apply Same; reflexivity.
  - apply Same. reflexivity.
  - apply Same. reflexivity.
  - apply Same. reflexivity.
  - destruct (w_exp w) as [e|]; [|apply Same; reflexivity]. destruct (e_max e); [|apply Same; reflexivity].
    destruct (_ && _ && _); apply Same; reflexivity.
  - destruct (w_exp w) as [e|]; [|apply Same; reflexivity]. destruct (e_fin e); apply Same; reflexivity.
  - destruct (w_exp w), (find_trial t (w_trials w)) as [tr|]; try (apply Same; reflexivity). destruct (t_fin tr); apply Same; reflexivity.
Qed.

Lemma ctl_dec (a b : ctl) : {a = b} + {a <> b}.
Proof. decide equality. Qed.

Lemma pending_set_same w c p : pending_of (set_pending w c p) c = p.
Proof. destruct c; reflexivity. Qed.

Lemma pending_set_other w c0 p c : c0 <> c -> pending_of (set_pending w c0 p) c = pending_of w c.
Proof. destruct c0, c; intro H; try reflexivity; contradiction. Qed.

(* a pending write after a step was pending before, or has just been planned *)
Lemma step_pending w a c x :
  In x (pending_of (step w a) c) ->
  In x (pending_of w c) \/ In x (plan_exp w) \/ (exists resp, In x (fst (plan_sug w resp))) \/ (exists key dberr, In x (plan_trial w key dberr)).
Proof.
  assert (Same : forall w', pending_of w' c = pending_of w c -> In x (pending_of w' c) ->
    In x (pending_of w c) \/ In x (plan_exp w) \/ (exists resp, In x (fst (plan_sug w resp))) \/ (exists key dberr, In x (plan_trial w key dberr))).
  { intros w' E H. rewrite E in H. now left. }
  destruct a; cbn [step].
  - destruct (pending_of w c0) eqn:Ep; [|apply Same; reflexivity].
    destruct c0.
    + destruct c; cbn; [intro H; right; left; exact H|apply Same; reflexivity|apply Same; reflexivity].
    + destruct (plan_sug w resp) as [p rpcs] eqn:Ps.
      destruct c; cbn; [apply Same; reflexivity| |apply Same; reflexivity].
      intro H. right. right. left. exists resp. now rewrite Ps.
    + destruct c; cbn; [apply Same; reflexivity|apply Same; reflexivity|]. intro H. do 3 right. eauto.
  - destruct (pending_of w c0) as [|[wr onf] rest] eqn:Ep; [apply Same; reflexivity|].
    destruct (ctl_dec c0 c) as [->|Ne].
    + destruct (if inject_failure then None else apply_write (count_write w) wr) as [w1|] eqn:A;
        rewrite pending_set_same; intro H; left; rewrite Ep; [right; exact H|].
      destruct onf; [destruct H|right; exact H].
    + destruct (if inject_failure then None else apply_write (count_write w) wr) as [w1|] eqn:A;
        rewrite pending_set_other by exact Ne; [|apply Same; destruct c; reflexivity].
      destruct inject_failure; [discriminate|]. destruct (apply_write_side0 _ _ _ A) as (_&_&E). rewrite E. apply Same. destruct c; reflexivity.
  - intro H. left. destruct c0, c; cbn in H; try exact H; destruct H.
  - apply Same. reflexivity.
  - apply Same. reflexivity.
  - destruct (find_trial t (w_trials w)), (db_get t (w_db w)); apply Same; reflexivity.
  - destruct (find_trial t (w_trials w)) as [tr|]; [|apply Same; reflexivity]. destruct (_ && _); [|apply Same; reflexivity].
    apply Same. cbn. destruct v, (db_get t (w_db w)); destruct c; reflexivity.
  - destruct (i_dep (w_infra w)); apply Same; destruct c; reflexivity.
  - apply Same. destruct c; reflexivity.
  - apply Same. destruct c; reflexivity.
  - apply Same. destruct c; reflexivity.
  - destruct (w_exp w) as [e|]; [|apply Same; reflexivity]. destruct (e_max e); [|apply Same; reflexivity].
    destruct (_ && _ && _); apply Same; destruct c; reflexivity.
  - destruct (w_exp w) as [e|]; [|apply Same; reflexivity]. destruct (e_fin e); apply Same; destruct c; reflexivity.
  - destruct (w_exp w), (find_trial t (w_trials w)) as [tr|]; try (apply Same; reflexivity). destruct (t_fin tr); apply Same; destruct c; reflexivity.
Qed.

(* ------------------------------------------------------------------ the invariant is inductive *)

Lemma never_no_restart cf e : c_resume cf = Never -> restart_enabled_e cf e = false.
Proof.
  intro H. unfold restart_enabled_e, restartable. rewrite H. destruct (get_cond (es_conds (e_st e)) ESucceeded); [|reflexivity].
  now rewrite andb_false_r.
Qed.

Lemma exp_done_step w a : Inv w -> is_teardown a = false -> c_resume (w_cfg w) = Never -> exp_done w -> exp_done (step w a).
Proof.
  intros I NT R (e&He&C).
  destruct (verdict_stable_step w a e I NT He C (never_no_restart _ _ R)) as (e'&He'&S).
  exists e'. split; [exact He'|]. eapply verdict_same_completed; eauto.
Qed.

Lemma Q_step w a : Inv w -> is_teardown a = false -> Q w -> Q (step w a).
Proof. intros I NT [R D]. split; [now rewrite step_cfg|now apply exp_done_step]. Qed.

Lemma step_succ w a :
  Inv w -> is_teardown a = false -> c_resume (w_cfg w) <> FromVolume -> SuccInv w -> SuccInv (step w a).
Proof.
  intros I NT Pol [A B C D].
  assert (QS : Q w -> Q (step w a)) by (apply Q_step; assumption).
  assert (SD : forall st, sdone w st -> sdone (step w a) st) by (intros st H S; auto).
  assert (Bs : forall s, w_sug (step w a) = Some s -> sdone (step w a) (s_st s)).
  { intros s1 H. destruct (step_sug _ _ _ H) as [(s&Hs&E)|[(c&rv&onf&In)|E]].
    - rewrite E. apply SD. now apply B.
    - apply SD. specialize (D c). rewrite Forall_forall in D. exact (D _ In).
    - intro S. unfold s_is, has_cond in S. rewrite E in S. discriminate. }
  constructor.
  - rewrite step_cfg. intros R ce Hce Cc.
    destruct (step_cexp w a) as [E|E].
    + rewrite E in Hce. apply exp_done_step; auto. eapply A; eauto.
    + rewrite E in Hce. exists ce. auto.
  - exact Bs.
  - intros s Hs. destruct (step_csug w a) as [E|E]; rewrite E in Hs; [apply SD; now apply C|now apply Bs].
  - intro c. apply Forall_forall. intros x Hx.
    destruct (step_pending _ _ _ _ Hx) as [H|[H|[(resp&H)|(key&dberr&H)]]].
    + specialize (D c). rewrite Forall_forall in D. specialize (D _ H). unfold wdone in *. destruct (fst x); auto.
    + destruct x as [wr onf]. unfold wdone. cbn [fst]. destruct wr; auto. intro S. apply QS.
      destruct I as [IS _]. destruct (plan_exp_succ _ _ _ _ IS H S) as (NL&ce&Hce&Cc).
      assert (R : c_resume (w_cfg w) = Never) by (destruct (c_resume (w_cfg w)); congruence).
      split; [exact R|eapply A; eauto].
    + destruct x as [wr onf]. unfold wdone. cbn [fst]. destruct wr; auto. intro S.
      rewrite (plan_sug_succ _ _ _ _ _ H) in S. discriminate.
    + destruct x as [wr onf]. unfold wdone. cbn [fst]. destruct wr; auto. exfalso. eapply plan_trial_no_sug; eauto.
Qed.

Lemma SuccInv_init c : SuccInv (init c).
Proof.
  constructor; cbn.
  - intros _ ce [= <-]. discriminate.
  - discriminate.
  - discriminate.
  - intros []; constructor.
Qed.

Lemma SuccInv_steps acts : forall w, Inv w -> SuccInv w -> c_resume (w_cfg w) <> FromVolume -> no_teardown acts ->
  SuccInv (fold_left step acts w).
Proof.
  induction acts as [|a acts IH]; intros w I S P NT; [exact S|].
  apply no_teardown_cons in NT as [Na NT]. cbn. apply IH; [now apply step_inv|now apply step_succ|now rewrite step_cfg|exact NT].
Qed.

(* Under resumePolicy Never or LongRunning, in every reachable state: a Succeeded suggestion means the experiment has its verdict
   (and the policy is Never: under LongRunning the suggestion is never marked Succeeded). *)
Theorem succeeded_implies_verdict c acts s :
  valid_cfg c -> no_teardown acts -> c_resume c <> FromVolume ->
  w_sug (run c acts) = Some s -> s_is (s_st s) SSucceeded = true ->
  c_resume c = Never /\ exists e, w_exp (run c acts) = Some e /\ e_completed (e_st e) = true.
Proof.
  intros V NT P Hs S.
  assert (SI : SuccInv (run c acts)) by (apply SuccInv_steps; auto using Inv_init, SuccInv_init).
  destruct (si_sug _ SI _ Hs S) as [R D]. unfold run in R. rewrite run_cfg in R. split; [exact R|exact D].
Qed.

(* C04 without the "suggestion not Succeeded" hypothesis, for the two policies under which it is an invariant *)
Theorem no_wedge_reachable c acts e m :
  valid_cfg c -> no_teardown acts -> c_resume c <> FromVolume ->
  quiescent (run c acts) -> env_done (run c acts) ->
  w_exp (run c acts) = Some e -> e_max e = Some m -> c_par c <= m ->
  (forall s, w_sug (run c acts) = Some s -> NoDup (ss_names (s_st s))) ->
  e_completed (e_st e) = true.
Proof.
  intros V NT P Qu En He Hm Pm ND.
  destruct (e_completed (e_st e)) eqn:C; [reflexivity|].
  assert (Cf : w_cfg (run c acts) = c) by (unfold run; now rewrite run_cfg).
  rewrite <- C. eapply (quiescent_completed (run c acts) e m); eauto.
  - now apply Inv_reachable.
  - rewrite Cf. destruct V; assumption.
  - now rewrite Cf.
  - intros s Hs. split; [auto|]. intro S. exfalso.
    destruct (succeeded_implies_verdict c acts s V NT P Hs S) as (_&e'&He'&C'). rewrite He in He'. inversion He'; subst. congruence.
Qed.

(* ------------------------------------------------------------------ the premises are satisfiable *)
From KV Require Import Proofs.F18.

Definition never_cfg : cfg := Build_cfg (Some 1) 1 None None false Never false true false.
Definition never_acts : list action := firstn 143 f18_acts.
Definition never_w : world := Eval vm_compute in run never_cfg never_acts.

Example no_wedge_premises_hold :
  valid_cfg never_cfg /\ no_teardown never_acts /\ c_resume never_cfg <> FromVolume /\
  quiescent (run never_cfg never_acts) /\ env_done (run never_cfg never_acts) /\
  exists e s, w_exp (run never_cfg never_acts) = Some e /\ e_max e = Some 1 /\ c_par never_cfg <= 1 /\
              w_sug (run never_cfg never_acts) = Some s /\ NoDup (ss_names (s_st s)) /\ s_is (s_st s) SSucceeded = true /\
              e_completed (e_st e) = true.
Proof.
  assert (E : run never_cfg never_acts = never_w) by (vm_compute; reflexivity). rewrite E.
  split; [repeat split; cbn; lia|]. split; [vm_compute; reflexivity|]. split; [discriminate|].
  split.
  { split; [repeat split; reflexivity|]. split; [vm_compute; reflexivity|]. split.
    - intro key. unfold plan_trial. change (c_trials never_w) with (w_trials never_w).
      destruct (Nat.eqb 1 key) eqn:K.
      + apply Nat.eqb_eq in K. subst key. vm_compute. reflexivity.
      + unfold find_trial, never_w; cbn [c_trials w_trials find t_name]. rewrite K. reflexivity.
    - intros resp _. destruct resp as [v ev rp er]. vm_compute. reflexivity. }
  split.
  { split; [|split].
    - intros j [<-|[]]. discriminate.
    - intros t [<-|[]]. eexists. split; [reflexivity|]. discriminate.
    - intros s [= <-]. discriminate. }
  do 2 eexists. split; [reflexivity|]. split; [reflexivity|]. split; [cbn; lia|]. split; [reflexivity|].
  split; [repeat constructor; intros []|]. split; reflexivity.
Qed.

(* ------------------------------------------------------------------ C16: the Succeeded condition is withdrawn only for an enabled restart *)

Lemma smark_succeeded_is cs : has_cond (smark_succeeded cs) SSucceeded = true.
Proof. unfold smark_succeeded. rewrite has_set. reflexivity. Qed.

Theorem sug_restart_only_when_enabled cf e sug ws st1 stop st rv onf :
  plan_exp_completed cf e sug = (ws, st1, stop) -> In (WSugStatus st rv, onf) ws -> s_is st SSucceeded = false ->
  restart_enabled_e cf e = true /\ c_resume cf = FromVolume.
Proof.
  unfold plan_exp_completed, restart_enabled_e. intros P I S.
  destruct (e_completed (e_st e)); [|inversion P; subst; destruct I].
  assert (K : ~ In (WSugStatus st rv, onf)
                (match c_resume cf, sug with
                 | LongRunning, _ | _, None => []
                 | _, Some s => if s_completed (s_st s) || s_restarting (s_st s) then []
                                else [(WSugStatus (s_with_conds (s_st s) (smark_succeeded (ss_conds (s_st s)))) (s_rv s), Stop)]
                 end)).
  { destruct (c_resume cf), sug as [s|]; try (intros []; fail);
      (destruct (s_completed (s_st s) || s_restarting (s_st s)); [intros []|intros [H|[]]; inversion H; subst];
       unfold s_is, s_with_conds in S; cbn [ss_conds] in S; rewrite smark_succeeded_is in S; discriminate). }
  destruct (restartable cf (e_st e) && _) eqn:R.
  - inversion P; subst. apply in_app_or in I as [I|I]; [contradiction|]. split; [reflexivity|].
    destruct (c_resume cf); try (destruct I; fail); try reflexivity.
  - inversion P; subst. contradiction.
Qed.
