(* The boolean monitor of C18 is implied by the theorems about the model: a reply computed by the model from draws inside the
   samplers' ranges passes [assign_ok] (every parameter exactly once, feasibly).  For double parameters the three binary64
   comparisons are evaluated in Go and are not part of the model: they are taken as true here. *)
From KV Require Import Base.Prelude Model.Goptuna Proofs.GoptunaP Proofs.GoptunaHistory Corr.C18.
Open Scope Z_scope.

(* the reply entry the harness would print for a model value (texts of numbers are irrelevant to the monitor) *)
Definition ra_of (e : nat * rv) : rassign :=
  match snd e with
  | RInt z => RA (fst e) "" (Some z) None true true true
  | RFlt b => RA (fst e) "" None (Some b) true true true
  | RStr s => RA (fst e) s None None true true true
  end.

(* the raw draw lies in the sampler's range for this parameter *)
Definition draw_in_range (p : pspec) (d : draw) : Prop :=
  0 <= d_k d /\
  match p_type p with
  | PInt =>
      exists lo hi, p_min_i p = Some lo /\ p_max_i p = Some hi /\ lo <= hi /\
        lo * 2 ^ d_k d <= d_num d <= hi * 2 ^ d_k d /\
        (p_step_empty p = false -> exists stp, p_step_i p = Some stp /\ 0 < stp /\
            (d_num d <= top_grid lo hi stp * 2 ^ d_k d \/ 2 * ((hi - lo) mod stp) < stp))
  | PDiscrete | PCategorical => 0 <= d_num d < Z.of_nat (length (p_list p)) * 2 ^ d_k d
  | _ => True
  end.

Lemma feasible_param p ds d v : to_dist p = Ok ds -> draw_in_range p d -> sample_one ds d = Ok v ->
  feasible p (ra_of (p_name p, v)) = true.
Proof.
  intros TD [Hk R] S. unfold to_dist in TD. unfold feasible. destruct (p_type p) eqn:T; cbv beta iota in TD.
  - (* int *)
    destruct R as (lo & hi & Emin & Emax & Hlh & Hr & Hst). rewrite Emin, Emax in TD.
    destruct (p_step_empty p) eqn:SE.
    + injection TD as <-. cbn in S. destruct (hi <? lo); [discriminate|]. injection S as <-. cbn. rewrite Emin, Emax.
      destruct (int_feasible lo hi d Hk Hr) as [A B]. rewrite andb_true_r.
      apply andb_true_iff. split; apply Z.leb_le; assumption.
    + destruct (Hst eq_refl) as (stp & Est & Hpos & Hcase). rewrite Est in TD. injection TD as <-. cbn in S.
      destruct (hi <? lo); [discriminate|]. destruct (stp <=? 0); [discriminate|]. injection S as <-. cbn. rewrite Emin, Emax.
      assert (lo <= ext_stepint lo stp d <= hi /\ (ext_stepint lo stp d - lo) mod stp = 0) as [[A B] G].
      { destruct Hcase as [Ht|Hd].
        - apply stepint_feasible_top; auto. lia.
        - apply stepint_feasible_rounddown; auto. }
      apply andb_true_iff. split; [apply andb_true_iff; split; apply Z.leb_le; assumption|]. rewrite Est. apply Z.eqb_eq. exact G.
  - (* double: comparisons are Go-side booleans *)
    destruct (p_max_f p), (p_min_f p); try discriminate. destruct (p_step_empty p).
    + injection TD as <-. unfold sample_one in S. destruct (f64_lt_bits z z0); [discriminate|]. injection S as <-. reflexivity.
    + destruct (p_step_f p); [|discriminate]. injection TD as <-. unfold sample_one in S. destruct (f64_lt_bits z z0); [discriminate|].
      injection S as <-. reflexivity.
  - (* discrete *)
    injection TD as <-. cbn in S. destruct (p_list p) as [|c0 l] eqn:L; [discriminate|]. rewrite <- L in *.
    destruct (cat_feasible (p_list p) d Hk R) as (c & E & I). rewrite E in S. injection S as <-. cbn.
    apply existsb_exists. exists c. split; [exact I|apply String.eqb_refl].
  - (* categorical *)
    injection TD as <-. cbn in S. destruct (p_list p) as [|c0 l] eqn:L; [discriminate|]. rewrite <- L in *.
    destruct (cat_feasible (p_list p) d Hk R) as (c & E & I). rewrite E in S. injection S as <-. cbn.
    apply existsb_exists. exists c. split; [exact I|apply String.eqb_refl].
  - discriminate.
Qed.

(* lifting to a whole assignment list *)

Lemma to_search_space_cons p ps sp : to_search_space (p :: ps) = Ok sp ->
  exists ds sp', to_dist p = Ok ds /\ to_search_space ps = Ok sp' /\ sp = (p_name p, ds) :: sp'.
Proof.
  cbn. destruct (to_dist p) as [ds| |]; try discriminate. destruct (to_search_space ps) as [sp'| |]; try discriminate.
  intros [= <-]. eauto.
Qed.

Lemma to_search_space_names ps : forall sp, to_search_space ps = Ok sp -> map fst sp = map p_name ps.
Proof.
  induction ps as [|p ps IH]; intros sp H; [injection H as <-; reflexivity|].
  destruct (to_search_space_cons _ _ _ H) as (ds & sp' & _ & H' & ->). cbn. f_equal. auto.
Qed.

Lemma filter_name_absent n a : ~ In n (map fst a) -> filter (fun x => Nat.eqb (ra_name x) n) (map ra_of a) = [].
Proof.
  induction a as [|[m v] a IH]; cbn; intro NI; [reflexivity|].
  assert (ra_name (ra_of (m, v)) = m) as -> by (unfold ra_of; cbn; destruct v; reflexivity).
  destruct (Nat.eqb m n) eqn:E; [apply Nat.eqb_eq in E; tauto|]. apply IH. tauto.
Qed.

Lemma monitor_model ps : forall sp dr a, to_search_space ps = Ok sp -> NoDup (map p_name ps) ->
  (forall p d, In p ps -> lookup_draw (p_name p) dr = Some d -> draw_in_range p d) ->
  sample_params sp dr = Ok a ->
  Nat.eqb (length (map ra_of a)) (length ps) = true /\
  forallb (fun p => match filter (fun x => Nat.eqb (ra_name x) (p_name p)) (map ra_of a) with [x] => feasible p x | _ => false end) ps = true.
Proof.
  induction ps as [|p ps IH]; intros sp dr a TS ND R S.
  - injection TS as <-. injection S as <-. auto.
  - destruct (to_search_space_cons _ _ _ TS) as (ds & sp' & TD & TS' & ->). cbn in S.
    destruct (lookup_draw (p_name p) dr) as [d|] eqn:LD; [|discriminate].
    destruct (sample_one ds d) as [v| |] eqn:S1; try discriminate.
    destruct (sample_params sp' dr) as [a'| |] eqn:S'; try discriminate. injection S as <-.
    inversion ND as [|? ? NI ND']; subst.
    destruct (IH _ _ _ TS' ND' (fun q d0 I => R q d0 (or_intror I)) S') as (L & F).
    pose proof (sample_params_names _ _ _ S') as Na. rewrite (to_search_space_names _ _ TS') in Na.
    split; [cbn; exact L|]. cbn [forallb map filter].
    assert (Hn : ra_name (ra_of (p_name p, v)) = p_name p) by (unfold ra_of; cbn; destruct v; reflexivity).
    rewrite Hn, Nat.eqb_refl. rewrite filter_name_absent by (rewrite Na; exact NI).
    rewrite (feasible_param _ _ _ _ TD (R p d (or_introl eq_refl) LD) S1). cbn [andb].
    rewrite forallb_forall in F |- *. intros q Iq. specialize (F q Iq).
    assert (Nat.eqb (p_name p) (p_name q) = false) as ->.
    { apply Nat.eqb_neq. intro E. apply NI. rewrite E. apply in_map. exact Iq. }
    exact F.
Qed.

Lemma monitor_sound ps sp dr a : to_search_space ps = Ok sp -> NoDup (map p_name ps) ->
  (forall p d, In p ps -> lookup_draw (p_name p) dr = Some d -> draw_in_range p d) ->
  sample_params sp dr = Ok a -> assign_ok ps (map ra_of a) = true.
Proof.
  intros TS ND R S. destruct (monitor_model _ _ _ _ TS ND R S) as (L & F). unfold assign_ok. rewrite L, F. reflexivity.
Qed.
