(* Proofs about Model/Template.v, part 2: the ascii instance and applyParameters
   (placeholder map, count check, error branches, run spec). *)
From KV Require Import Base.Prelude Model.Template Proofs.TemplateP.
From Coq Require Import Permutation.

(* ------------------------------------------------------------------ the ascii instance of the text theorems *)

Lemma c_d_lb : c_d <> c_lb. Proof. discriminate. Qed.
Lemma c_lb_rb : c_lb <> c_rb. Proof. discriminate. Qed.
Lemma c_d_rb : c_d <> c_rb. Proof. discriminate. Qed.
Lemma c_pre_no_d : ~ In c_d c_pre.
Proof. intro H. repeat (destruct H as [H|H]; [discriminate H|]). exact H. Qed.

Definition a_name_ok : str -> Prop := name_ok ascii c_lb c_rb.     (* no '{', no '}' *)
Definition a_val_ok : str -> Prop := val_ok ascii c_d.              (* no '$' *)
Definition a_all_ok : list achunk -> Prop := all_ok ascii Ascii.eqb c_d c_lb c_rb c_pre.
Definition a_env_ok : amap -> Prop := env_ok ascii c_d c_lb c_rb.
Definition a_declared : list achunk -> amap -> Prop := declared ascii Ascii.eqb.

(* the hypotheses of C02_substitution, by name (DESIGN.md section 6) *)
Definition names_ok (cs : list achunk) (e : amap) : Prop :=
  (forall n, In (Ph n) cs -> a_name_ok n) /\ (forall n, In n (map fst e) -> a_name_ok n).
Definition lits_ok (cs : list achunk) : Prop := forall l, In (Lit l) cs -> a_lit_ok l = true.
Definition vals_ok (cs : list achunk) (e : amap) : Prop :=
  (forall v, In (Val v) cs -> a_val_ok v) /\ (forall v, In v (map snd e) -> a_val_ok v).

Lemma hyps_all_ok cs e : names_ok cs e -> lits_ok cs -> vals_ok cs e -> a_all_ok cs /\ a_env_ok e.
Proof.
  intros [N1 N2] L [V1 V2]. split.
  - apply Forall_forall. intros [l|v|n] I; simpl; [apply L|apply V1|apply N1]; exact I.
  - apply Forall_forall. intros [n v] I. simpl. split.
    + apply N2. apply (in_map fst) in I. exact I.
    + apply V2. apply (in_map snd) in I. exact I.
Qed.

Theorem a_substitution : forall (chunks : list achunk) (env ord : amap),
  names_ok chunks env -> lits_ok chunks -> vals_ok chunks env ->
  NoDup (map fst env) -> Permutation ord env ->
  a_replace_seq ord (a_render chunks) = a_render_subst env chunks.
Proof.
  intros cs env ord N L V ND P. destruct (hyps_all_ok cs env N L V) as [H1 H2].
  exact (substitution ascii Ascii.eqb Ascii.eqb_spec c_d c_lb c_rb c_pre c_d_lb c_lb_rb c_d_rb c_pre_no_d
           cs env ord H1 H2 ND P).
Qed.

Theorem a_no_leftover : forall (chunks : list achunk) (env : amap),
  names_ok chunks env -> lits_ok chunks -> vals_ok chunks env -> a_declared chunks env ->
  a_occursb c_open (a_render_subst env chunks) = false.
Proof.
  intros cs env N L V D. destruct (hyps_all_ok cs env N L V) as [H1 H2].
  exact (no_leftover ascii Ascii.eqb Ascii.eqb_spec c_d c_lb c_rb c_pre cs env H1 H2 D).
Qed.

Lemma a_eqb_spec a b : a_eqb a b = true <-> a = b.
Proof. apply (seqb_spec ascii Ascii.eqb Ascii.eqb_spec). Qed.
Lemma a_eqb_refl a : a_eqb a a = true.
Proof. now apply a_eqb_spec. Qed.

Definition L_Some_In := lookup_Some_In ascii Ascii.eqb Ascii.eqb_spec.
Definition L_None := lookup_None ascii Ascii.eqb Ascii.eqb_spec.
Definition L_In := lookup_In ascii Ascii.eqb Ascii.eqb_spec.
Definition L_set_same := lookup_set_same ascii Ascii.eqb Ascii.eqb_spec.
Definition L_set_other := lookup_set_other ascii Ascii.eqb Ascii.eqb_spec.
Definition L_set_keys := set_keys ascii Ascii.eqb Ascii.eqb_spec.
Definition L_set_NoDup := set_NoDup ascii Ascii.eqb Ascii.eqb_spec.
Definition L_set_values := set_values_ok ascii Ascii.eqb.

(* ------------------------------------------------------------------ assignmentsMap *)

Lemma amap_fold_notin r (l : list (str * str)) : forall m, ~ In r (map fst l) ->
  a_lookup r (fold_left (fun m a => a_set (fst a) (snd a) m) l m) = a_lookup r m.
Proof.
  induction l as [|[n v] l IH]; intros m H; [reflexivity|]. cbn [fold_left fst snd].
  rewrite IH by (intro X; apply H; now right).
  apply L_set_other. intro E. apply H. left. now rewrite E.
Qed.

Lemma amap_fold_In r v (l : list (str * str)) : forall m, NoDup (map fst l) -> In (r, v) l ->
  a_lookup r (fold_left (fun m a => a_set (fst a) (snd a) m) l m) = Some v.
Proof.
  induction l as [|[n w] l IH]; intros m ND I; [destruct I|]. cbn [fold_left fst snd].
  inversion ND as [|? ? NI ND']; subst. destruct I as [[= -> ->]|I].
  - rewrite amap_fold_notin by exact NI. apply L_set_same.
  - now apply IH.
Qed.

Lemma amap_fold_Some r v (l : list (str * str)) : forall m,
  a_lookup r (fold_left (fun m a => a_set (fst a) (snd a) m) l m) = Some v -> In (r, v) l \/ a_lookup r m = Some v.
Proof.
  induction l as [|[n w] l IH]; intros m H; [now right|]. cbn [fold_left fst snd] in H.
  apply IH in H as [H|H]; [left; now right|].
  destruct (list_eq_dec ascii_dec r n) as [->|NE].
  - unfold a_lookup, a_set in H. rewrite L_set_same in H. injection H as ->. left. now left.
  - unfold a_lookup, a_set in H. rewrite L_set_other in H by exact NE. now right.
Qed.

(* a name is assigned iff it is a key of assignmentsMap *)
Lemma assign_map_Some gi r v : a_lookup r (assign_map (gi_assign gi)) = Some v -> In (r, v) (gi_assign gi).
Proof. intro H. apply amap_fold_Some in H as [H|H]; [exact H|discriminate]. Qed.

Lemma assign_map_In gi r v : NoDup (map fst (gi_assign gi)) -> In (r, v) (gi_assign gi) ->
  a_lookup r (assign_map (gi_assign gi)) = Some v.
Proof. apply amap_fold_In. Qed.

(* ------------------------------------------------------------------ the loop *)

Definition is_plain (ref : str) : bool := match find_meta ref with None => true | Some _ => false end.

(* What a reference denotes: an assignment's value, or a piece of trial metadata. *)
Definition meaning (gi : gen_input) (ref : str) : outcome str :=
  match find_meta ref with
  | None =>
      match a_lookup ref (assign_map (gi_assign gi)) with
      | Some v => Ok v
      | None => Err E_no_assignment
      end
  | Some key0 =>
      let '(key, idx) := match parse_index key0 with Some (k, i) => (k, i) | None => (key0, []) end in
      meta_value gi key idx
  end.

Definition plain_refs (ps : list (str * str)) : list str := filter is_plain (map snd ps).

Lemma step_meaning gi e cnt n r :
  param_step gi (assign_map (gi_assign gi)) (e, cnt) (n, r) =
  match meaning gi r with
  | Ok v => Ok (a_set n v e, if is_plain r then S cnt else cnt)
  | Err c => Err c
  | Crash c => Crash c
  end.
Proof.
  unfold param_step, meaning, is_plain. destruct (find_meta r) as [key0|].
  - destruct (match parse_index key0 with Some (k, i) => (k, i) | None => (key0, []) end) as [key idx].
    destruct (meta_value gi key idx); reflexivity.
  - destruct (a_lookup r (assign_map (gi_assign gi))); reflexivity.
Qed.

Lemma meaning_no_crash gi r c : meaning gi r <> Crash c.
Proof.
  unfold meaning. destruct (find_meta r) as [key0|].
  - destruct (match parse_index key0 with Some (k, i) => (k, i) | None => (key0, []) end) as [key idx].
    unfold meta_value.
    repeat match goal with |- context [if ?b then _ else _] => destruct b end; try discriminate;
      match goal with |- context [a_lookup ?i ?m] => destruct (a_lookup i m) end; discriminate.
  - destruct (a_lookup r (assign_map (gi_assign gi))); discriminate.
Qed.

Definition loop (gi : gen_input) := param_loop gi (assign_map (gi_assign gi)).

(* failure: the first parameter whose reference denotes nothing decides the error *)
Lemma loop_err gi : forall ps1 st n r ps2 c,
  Forall (fun p => is_ok (meaning gi (snd p)) = true) ps1 -> meaning gi r = Err c ->
  loop gi st (ps1 ++ (n, r) :: ps2) = Err c.
Proof.
  induction ps1 as [|[m q] ps1 IH]; intros [e cnt] n r ps2 c F M; unfold loop in *; cbn [app param_loop].
  - rewrite step_meaning, M. reflexivity.
  - inversion F as [|? ? F1 F2]; subst. cbn [snd] in F1. rewrite step_meaning.
    destruct (meaning gi q) eqn:Q; try discriminate. apply IH; assumption.
Qed.

Lemma loop_ok gi : forall ps e cnt e' cnt',
  loop gi (e, cnt) ps = Ok (e', cnt') ->
  Forall (fun p => is_ok (meaning gi (snd p)) = true) ps
  /\ cnt' = cnt + length (plain_refs ps)
  /\ (forall k, In k (map fst e') <-> In k (map fst e) \/ In k (map fst ps))
  /\ (NoDup (map fst e) -> NoDup (map fst e'))
  /\ (forall k, ~ In k (map fst ps) -> a_lookup k e' = a_lookup k e)
  /\ (NoDup (map fst ps) -> forall n r, In (n, r) ps -> exists v, meaning gi r = Ok v /\ a_lookup n e' = Some v)
  /\ (forall P : str -> Prop, (forall r v, In r (map snd ps) -> meaning gi r = Ok v -> P v) ->
        Forall (fun nv => P (snd nv)) e -> Forall (fun nv => P (snd nv)) e').
Proof.
  induction ps as [|[n r] ps IH]; intros e cnt e' cnt' H; unfold loop in *; cbn [param_loop] in H.
  - injection H as <- <-. repeat split; auto; try tauto.
    + intros [X|[]]. exact X.
    + intros _ ? ? [].
  - rewrite step_meaning in H. destruct (meaning gi r) as [v| |] eqn:M; try discriminate.
    apply IH in H as (F & C & K & ND & O & V & PV). repeat split.
    + constructor; [cbn [snd]; now rewrite M|exact F].
    + rewrite C. unfold plain_refs. cbn [map snd filter]. destruct (is_plain r); simpl; lia.
    + rewrite K. unfold a_set. rewrite L_set_keys. simpl. intuition.
    + rewrite K. unfold a_set. rewrite L_set_keys. simpl. intuition.
    + intro N0. apply ND. apply L_set_NoDup. exact N0.
    + intros k NI. rewrite O by (intro X; apply NI; now right).
      apply L_set_other. intro E. apply NI. left. simpl. congruence.
    + intros N0 m q I. inversion N0 as [|? ? NI N1]; subst. destruct I as [[= -> ->]|I].
      * exists v. split; [exact M|]. rewrite O by exact NI. apply L_set_same.
      * apply V; assumption.
    + intros P HP F0. apply PV.
      * intros q w I. apply HP. now right.
      * apply L_set_values; [|exact F0]. apply (HP r v); [now left|exact M].
Qed.

Lemma loop_total gi : forall ps st,
  Forall (fun p => is_ok (meaning gi (snd p)) = true) ps -> exists st', loop gi st ps = Ok st'.
Proof.
  induction ps as [|[n r] ps IH]; intros [e cnt] F; unfold loop in *; cbn [param_loop].
  - eexists; reflexivity.
  - inversion F as [|? ? F1 F2]; subst. cbn [snd] in F1. rewrite step_meaning.
    destruct (meaning gi r); try discriminate. apply IH. exact F2.
Qed.

Lemma loop_no_crash gi : forall ps st c, loop gi st ps <> Crash c.
Proof.
  induction ps as [|[m q] ps IH]; intros [e cnt] c L; unfold loop in *; cbn [param_loop] in L; [discriminate|].
  rewrite step_meaning in L. destruct (meaning gi q) eqn:Q; try discriminate.
  - eapply IH; exact L.
  - exact (meaning_no_crash gi q _ Q).
Qed.

(* ------------------------------------------------------------------ build_env *)

Definition refs_resolve (gi : gen_input) : Prop :=
  Forall (fun p => is_ok (meaning gi (snd p)) = true) (gi_tps gi).

Theorem build_env_ok gi e : build_env gi = Ok e ->
  refs_resolve gi
  /\ length (gi_assign gi) = length (plain_refs (gi_tps gi))
  /\ NoDup (map fst e)
  /\ (forall k, In k (map fst e) <-> In k (map fst (gi_tps gi)))
  /\ (NoDup (map fst (gi_tps gi)) -> forall n r, In (n, r) (gi_tps gi) ->
        exists v, meaning gi r = Ok v /\ a_lookup n e = Some v)
  /\ (forall P : str -> Prop, (forall r v, In r (map snd (gi_tps gi)) -> meaning gi r = Ok v -> P v) ->
        forall v, In v (map snd e) -> P v).
Proof.
  unfold build_env. fold (loop gi ([], 0) (gi_tps gi)).
  destruct (loop gi ([], 0) (gi_tps gi)) as [[e' cnt]| |] eqn:L; try discriminate.
  destruct (Nat.eqb (length (gi_assign gi)) cnt) eqn:C; try discriminate. intros [= <-].
  apply Nat.eqb_eq in C. apply loop_ok in L as (F & Cn & K & ND & O & V & PV). repeat split.
  - exact F.
  - simpl in Cn. congruence.
  - apply ND. constructor.
  - rewrite K. simpl. tauto.
  - rewrite K. simpl. tauto.
  - exact V.
  - intros P HP v I. specialize (PV P HP (Forall_nil _)). rewrite Forall_forall in PV.
    apply in_map_iff in I as ([n w] & <- & I). exact (PV _ I).
Qed.

(* the converse: when every reference resolves and the counts agree, the map is built *)
Theorem build_env_total gi : refs_resolve gi -> length (gi_assign gi) = length (plain_refs (gi_tps gi)) ->
  exists e, build_env gi = Ok e.
Proof.
  intros F C. unfold build_env. fold (loop gi ([], 0) (gi_tps gi)).
  destruct (loop_total gi (gi_tps gi) ([], 0) F) as [[e cnt] L]. rewrite L.
  apply loop_ok in L as (_ & Cn & _). simpl in Cn. rewrite Cn, C, Nat.eqb_refl. eexists; reflexivity.
Qed.

(* error branches *)
Theorem build_env_first_error gi ps1 n r ps2 c :
  gi_tps gi = ps1 ++ (n, r) :: ps2 ->
  Forall (fun p => is_ok (meaning gi (snd p)) = true) ps1 -> meaning gi r = Err c ->
  build_env gi = Err c.
Proof.
  intros E F M. unfold build_env. fold (loop gi ([], 0) (gi_tps gi)). rewrite E.
  rewrite (loop_err gi ps1 _ n r ps2 c F M). reflexivity.
Qed.

Theorem build_env_count_error gi : refs_resolve gi ->
  length (gi_assign gi) <> length (plain_refs (gi_tps gi)) -> build_env gi = Err E_count.
Proof.
  intros F C. unfold build_env. fold (loop gi ([], 0) (gi_tps gi)).
  destruct (loop_total gi (gi_tps gi) ([], 0) F) as [[e cnt] L]. rewrite L.
  apply loop_ok in L as (_ & Cn & _). simpl in Cn. subst cnt.
  destruct (Nat.eqb (length (gi_assign gi)) (length (plain_refs (gi_tps gi)))) eqn:Q; [|reflexivity].
  apply Nat.eqb_eq in Q. contradiction.
Qed.

Lemma meaning_plain_assigned gi r v : is_plain r = true -> meaning gi r = Ok v -> In (r, v) (gi_assign gi).
Proof.
  unfold is_plain, meaning. destruct (find_meta r); [discriminate|]. intros _.
  destruct (a_lookup r (assign_map (gi_assign gi))) eqn:L; [|discriminate]. intros [= ->].
  now apply assign_map_Some.
Qed.

Lemma meaning_plain_missing gi r : is_plain r = true -> ~ In r (map fst (gi_assign gi)) ->
  meaning gi r = Err E_no_assignment.
Proof.
  unfold is_plain, meaning. destruct (find_meta r); [discriminate|]. intros _ NI.
  destruct (a_lookup r (assign_map (gi_assign gi))) eqn:L; [|reflexivity].
  apply assign_map_Some in L. exfalso. apply NI. apply (in_map fst) in L. exact L.
Qed.

(* a non-meta reference without assignment: never a map (the error is that of the first failing parameter) *)
Theorem count_check_missing gi n r :
  In (n, r) (gi_tps gi) -> is_plain r = true -> ~ In r (map fst (gi_assign gi)) ->
  exists c, build_env gi = Err c /\ (c = E_no_assignment \/ c = E_bad_meta).
Proof.
  intros I P NI.
  assert (M := meaning_plain_missing gi r P NI).
  (* split at the first parameter that does not resolve *)
  assert (S : forall ps, In (n, r) ps ->
     exists ps1 m q ps2 c, ps = ps1 ++ (m, q) :: ps2 /\ Forall (fun p => is_ok (meaning gi (snd p)) = true) ps1 /\ meaning gi q = Err c).
  { induction ps as [|[m q] ps IH]; intros J; [destruct J|].
    destruct (meaning gi q) as [v|c|c] eqn:Q.
    - destruct J as [[= -> ->]|J]; [congruence|].
      destruct (IH J) as (ps1 & m' & q' & ps2 & c & -> & F & Mq).
      exists ((m, q) :: ps1), m', q', ps2, c. repeat split; [|exact Mq]. constructor; [cbn [snd]; now rewrite Q|exact F].
    - exists [], m, q, ps, c. repeat split; [constructor|exact Q].
    - exfalso. exact (meaning_no_crash gi q c Q). }
  destruct (S _ I) as (ps1 & m & q & ps2 & c & E & F & Mq).
  exists c. split; [eapply build_env_first_error; eassumption|].
  unfold meaning in Mq. destruct (find_meta q) as [key0|].
  - right. destruct (match parse_index key0 with Some (k, i) => (k, i) | None => (key0, []) end) as [key idx].
    unfold meta_value in Mq.
    repeat match type of Mq with context [if ?b then _ else _] => destruct b end; try discriminate;
      try (match type of Mq with context [a_lookup ?i ?mm] => destruct (a_lookup i mm) end; try discriminate);
      now injection Mq as <-.
  - left. destruct (a_lookup q (assign_map (gi_assign gi))); [discriminate|]. now injection Mq as <-.
Qed.

(* an assignment consumed by no non-meta trial parameter: never a map *)
Theorem count_check_extra gi a :
  NoDup (map fst (gi_assign gi)) -> NoDup (plain_refs (gi_tps gi)) ->
  In a (map fst (gi_assign gi)) -> ~ In a (plain_refs (gi_tps gi)) ->
  exists c, build_env gi = Err c /\ (refs_resolve gi -> c = E_count).
Proof.
  intros ND1 ND2 I NI.
  destruct (build_env gi) as [e|c|c] eqn:B.
  - exfalso. apply build_env_ok in B as (F & C & _).
    assert (Inc : incl (plain_refs (gi_tps gi)) (map fst (gi_assign gi))).
    { intros r J. unfold plain_refs in J. apply filter_In in J as [J P].
      unfold refs_resolve in F. rewrite Forall_forall in F. apply in_map_iff in J as ([m q] & <- & J).
      specialize (F _ J). cbn [snd] in *. destruct (meaning gi q) as [v| |] eqn:M; try discriminate.
      apply meaning_plain_assigned in M; [|exact P]. apply (in_map fst) in M. exact M. }
    apply NI. eapply NoDup_length_incl; [exact ND2| |exact Inc|exact I]. rewrite map_length. lia.
  - exists c. split; [reflexivity|]. intro F.
    destruct (Nat.eq_dec (length (gi_assign gi)) (length (plain_refs (gi_tps gi)))) as [E|E].
    + destruct (build_env_total gi F E) as [e X]. congruence.
    + rewrite (build_env_count_error gi F E) in B. now injection B.
  - exfalso. unfold build_env in B. fold (loop gi ([], 0) (gi_tps gi)) in B.
    destruct (loop gi ([], 0) (gi_tps gi)) as [[e' cnt]| |] eqn:L; try discriminate.
    + destruct (Nat.eqb (length (gi_assign gi)) cnt); discriminate.
    + exact (loop_no_crash gi _ _ _ L).
Qed.

(* when the map is built, assignments and non-meta parameters correspond one to one *)
Theorem count_check_ok gi e : build_env gi = Ok e ->
  (forall r, In r (plain_refs (gi_tps gi)) -> In r (map fst (gi_assign gi)))
  /\ (NoDup (map fst (gi_assign gi)) -> NoDup (plain_refs (gi_tps gi)) ->
      forall a, In a (map fst (gi_assign gi)) -> In a (plain_refs (gi_tps gi))).
Proof.
  intro B. assert (B' := B). apply build_env_ok in B as (F & C & _).
  assert (Inc : forall r, In r (plain_refs (gi_tps gi)) -> In r (map fst (gi_assign gi))).
  { intros r J. unfold plain_refs in J. apply filter_In in J as [J P].
    unfold refs_resolve in F. rewrite Forall_forall in F. apply in_map_iff in J as ([m q] & <- & J).
    specialize (F _ J). cbn [snd] in *. destruct (meaning gi q) as [v| |] eqn:M; try discriminate.
    apply meaning_plain_assigned in M; [|exact P]. apply (in_map fst) in M. exact M. }
  split; [exact Inc|]. intros ND1 ND2 a I.
  destruct (in_dec (list_eq_dec ascii_dec) a (plain_refs (gi_tps gi))) as [Y|N]; [exact Y|].
  destruct (count_check_extra gi a ND1 ND2 I N) as (c & X & _). congruence.
Qed.

(* ------------------------------------------------------------------ values *)

(* every value that can be substituted is free of '$' *)
Definition gi_vals_ok (gi : gen_input) : Prop :=
  (forall v, In v (map snd (gi_assign gi)) -> a_val_ok v)
  /\ a_val_ok (gi_tname gi) /\ a_val_ok (gi_tns gi) /\ a_val_ok (gi_kind gi) /\ a_val_ok (gi_apiv gi)
  /\ (forall v, In v (map snd (gi_annots gi)) -> a_val_ok v)
  /\ (forall v, In v (map snd (gi_labels gi)) -> a_val_ok v).

Lemma meaning_val_ok gi r v : gi_vals_ok gi -> meaning gi r = Ok v -> a_val_ok v.
Proof.
  intros (A & N & S & K & V & AN & LB). unfold meaning. destruct (find_meta r) as [key0|].
  - destruct (match parse_index key0 with Some (k, i) => (k, i) | None => (key0, []) end) as [key idx].
    unfold meta_value.
    repeat match goal with |- context [if ?b then _ else _] => destruct b end; try discriminate;
      try (intros [= <-]; assumption).
    + destruct (a_lookup idx (gi_annots gi)) eqn:L; [|discriminate]. intros [= <-].
      apply AN. apply L_Some_In in L. apply (in_map snd) in L. exact L.
    + destruct (a_lookup idx (gi_labels gi)) eqn:L; [|discriminate]. intros [= <-].
      apply LB. apply L_Some_In in L. apply (in_map snd) in L. exact L.
  - destruct (a_lookup r (assign_map (gi_assign gi))) eqn:L; [|discriminate]. intros [= <-].
    apply A. apply assign_map_Some in L. apply (in_map snd) in L. exact L.
Qed.

(* ------------------------------------------------------------------ applyParameters, for every map order *)

Definition tpl_names_ok (gi : gen_input) (cs : list achunk) : Prop :=
  (forall n, In (Ph n) cs -> a_name_ok n) /\ (forall n, In n (map fst (gi_tps gi)) -> a_name_ok n).
Definition tpl_vals_ok (cs : list achunk) : Prop := forall v, In (Val v) cs -> a_val_ok v.

Theorem apply_parameters_ok : forall gi chunks env (reorder : amap -> amap),
  (forall e, Permutation (reorder e) e) ->
  tpl_names_ok gi chunks -> lits_ok chunks -> tpl_vals_ok chunks -> gi_vals_ok gi ->
  build_env gi = Ok env ->
  apply_parameters reorder gi (a_render chunks) = Ok (a_render_subst env chunks).
Proof.
  intros gi cs env reorder P [N1 N2] L V G B. unfold apply_parameters. rewrite B. f_equal.
  assert (B' := B). apply build_env_ok in B' as (_ & _ & ND & K & _ & PV).
  apply a_substitution; try assumption.
  - split; [exact N1|]. intros n I. apply N2. now apply K.
  - split; [exact V|]. apply PV. intros r v _ M. eapply meaning_val_ok; eassumption.
  - apply P.
Qed.

(* every placeholder of the template is a declared trial parameter => nothing is left over *)
Theorem apply_parameters_no_leftover : forall gi chunks env,
  tpl_names_ok gi chunks -> lits_ok chunks -> tpl_vals_ok chunks -> gi_vals_ok gi ->
  build_env gi = Ok env ->
  (forall n, In (Ph n) chunks -> In n (map fst (gi_tps gi))) ->
  a_occursb c_open (a_render_subst env chunks) = false.
Proof.
  intros gi cs env [N1 N2] L V G B D.
  assert (B' := B). apply build_env_ok in B' as (_ & _ & ND & K & _ & PV).
  apply a_no_leftover; try assumption.
  - split; [exact N1|]. intros n I. apply N2. now apply K.
  - split; [exact V|]. apply PV. intros r v _ M. eapply meaning_val_ok; eassumption.
  - intros n I X. apply L_None in X. apply X. apply K. apply D.
    unfold ph_names in I. apply in_flat_map in I as ([l|w|m] & I & J); simpl in J; try destruct J as [J|[]]; try contradiction.
    now subst.
Qed.

(* ------------------------------------------------------------------ GetRunSpecWithHyperParameters *)

Theorem run_spec_named : forall reorder src gi leaves rs,
  get_run_spec reorder src gi leaves = Ok rs ->
  rs_name rs = gi_tname gi /\ rs_ns rs = gi_tns gi /\ get_template_check src = Ok tt /\
  exists env, build_env gi = Ok env /\ rs_leaves rs = map (a_replace_seq (reorder env)) leaves.
Proof.
  intros reorder src gi leaves rs H. unfold get_run_spec in H.
  destruct (get_template_check src) as [[]| |]; try discriminate.
  destruct (build_env gi) as [env| |]; try discriminate. injection H as <-. cbn.
  repeat split; try reflexivity. exists env. split; reflexivity.
Qed.

(* the run spec of a well-formed document: every leaf is the simultaneous substitution, whatever the map order *)
Theorem run_spec_ok : forall (reorder : amap -> amap) src gi (tpl : list (list achunk)) env,
  (forall e, Permutation (reorder e) e) ->
  Forall (fun cs => tpl_names_ok gi cs /\ lits_ok cs /\ tpl_vals_ok cs) tpl -> gi_vals_ok gi ->
  get_template_check src = Ok tt -> build_env gi = Ok env ->
  get_run_spec reorder src gi (map a_render tpl) =
  Ok {| rs_leaves := map (a_render_subst env) tpl; rs_name := gi_tname gi; rs_ns := gi_tns gi |}.
Proof.
  intros reorder src gi tpl env P D G T B. unfold get_run_spec. rewrite T, B. f_equal. f_equal.
  rewrite map_map. apply map_ext_in. intros cs I. rewrite Forall_forall in D. destruct (D cs I) as (N & L & V).
  assert (A := apply_parameters_ok gi cs env reorder P N L V G B). unfold apply_parameters in A. rewrite B in A.
  now injection A.
Qed.

(* errors of the template source come first *)
Theorem run_spec_source_error : forall reorder src gi leaves c,
  get_template_check src = Err c -> get_run_spec reorder src gi leaves = Err c.
Proof. intros. unfold get_run_spec. now rewrite H. Qed.

(* ------------------------------------------------------------------ what references denote *)

Theorem meaning_plain : forall gi r v, is_plain r = true ->
  (meaning gi r = Ok v -> In (r, v) (gi_assign gi)) /\
  (NoDup (map fst (gi_assign gi)) -> In (r, v) (gi_assign gi) -> meaning gi r = Ok v).
Proof.
  intros gi r v P. split; [now apply meaning_plain_assigned|].
  intros ND I. unfold is_plain in P. unfold meaning. destruct (find_meta r); [discriminate|].
  now rewrite (assign_map_In gi r v ND I).
Qed.

Theorem meaning_simple : forall gi,
  meaning gi (s2l "${trialSpec.Name}") = Ok (gi_tname gi) /\
  meaning gi (s2l "${trialSpec.Namespace}") = Ok (gi_tns gi) /\
  meaning gi (s2l "${trialSpec.Kind}") = Ok (gi_kind gi) /\
  meaning gi (s2l "${trialSpec.APIVersion}") = Ok (gi_apiv gi).
Proof. intro gi. repeat split; reflexivity. Qed.

Definition index_ok (k : str) : Prop :=
  k <> [] /\ ~ In "["%char k /\ ~ In "]"%char k /\ ~ In c_rb k /\ ~ In c_nl k.

Lemma strip_prefix_app p s : strip_prefix p (p ++ s) = Some s.
Proof. induction p as [|a p IH]; cbn [strip_prefix app]; [reflexivity|]. now rewrite Ascii.eqb_refl. Qed.

Lemma ascii_eqb_neq a b : a <> b -> Ascii.eqb a b = false.
Proof. intro H. destruct (Ascii.eqb_spec a b); congruence. Qed.

Lemma upto_rb_app p q : ~ In c_rb p -> ~ In c_nl p -> upto_rb (p ++ c_rb :: q) = Some p.
Proof.
  induction p as [|a p IH]; intros H1 H2; cbn [upto_rb app].
  - now rewrite Ascii.eqb_refl.
  - rewrite (ascii_eqb_neq a c_rb) by (intro E; apply H1; left; exact E).
    rewrite (ascii_eqb_neq a c_nl) by (intro E; apply H2; left; exact E).
    rewrite IH; [reflexivity| |]; intro X; [apply H1|apply H2]; now right.
Qed.

Lemma find_meta_hit s k : meta_at s = Some k -> find_meta s = Some k.
Proof. intro H. destruct s; cbn [find_meta]; now rewrite H. Qed.

Lemma find_meta_form key q : key <> [] -> ~ In c_rb key -> ~ In c_nl key ->
  find_meta (meta_open ++ key ++ c_rb :: q) = Some key.
Proof.
  intros NE H1 H2. apply find_meta_hit. unfold meta_at. rewrite strip_prefix_app.
  destruct key as [|x p]; [contradiction|]. cbn [app].
  rewrite (ascii_eqb_neq x c_nl) by (intro E; apply H2; left; congruence).
  rewrite upto_rb_app; [reflexivity| |]; intro X; [apply H1|apply H2]; now right.
Qed.

Lemma split_first_app c p q : ~ In c p -> split_first c (p ++ c :: q) = Some (p, q).
Proof.
  induction p as [|a p IH]; intro H; cbn [split_first app].
  - now rewrite Ascii.eqb_refl.
  - rewrite (ascii_eqb_neq a c) by (intro E; apply H; left; congruence).
    rewrite IH; [reflexivity|]. intro X; apply H; now right.
Qed.

Lemma split_last_app c p q : ~ In c q -> split_last c (p ++ c :: q) = Some (p, q).
Proof.
  intro H. unfold split_last. rewrite rev_app_distr. cbn [rev]. rewrite <- app_assoc. cbn [app].
  rewrite split_first_app by (rewrite <- in_rev; exact H). now rewrite !rev_involutive.
Qed.

Lemma skipn_S_app (p : str) c l : skipn (S (length p)) (p ++ c :: l) = l.
Proof. induction p as [|a p IH]; simpl; [reflexivity|exact IH]. Qed.

Lemma parse_index_form pfx k : pfx <> [] -> k <> [] -> ~ In "["%char k -> ~ In "]"%char k ->
  parse_index (pfx ++ "["%char :: k ++ ["]"%char]) = Some (pfx, k).
Proof.
  intros NP NK H1 H2. unfold parse_index.
  replace (pfx ++ "["%char :: k ++ ["]"%char]) with ((pfx ++ "["%char :: k) ++ "]"%char :: []) by (now rewrite <- app_assoc).
  rewrite split_last_app by (intros []).
  rewrite removelast_app by discriminate.
  assert (R : removelast ("["%char :: k) = "["%char :: removelast k) by (destruct k; [contradiction|reflexivity]).
  rewrite R. rewrite split_last_app.
  - destruct pfx; [contradiction|]. now rewrite skipn_S_app.
  - intro X. apply H1. rewrite (app_removelast_last "a"%char NK). apply in_or_app. now left.
Qed.

Theorem meaning_indexed : forall gi k, index_ok k ->
  meaning gi (s2l "${trialSpec.Labels[" ++ k ++ s2l "]}") =
    match a_lookup k (gi_labels gi) with Some v => Ok v | None => Err E_bad_meta end /\
  meaning gi (s2l "${trialSpec.Annotations[" ++ k ++ s2l "]}") =
    match a_lookup k (gi_annots gi) with Some v => Ok v | None => Err E_bad_meta end.
Proof.
  intros gi k (NK & H1 & H2 & H3 & H4).
  assert (F : forall pfx, pfx <> [] -> ~ In c_rb pfx -> ~ In c_nl pfx ->
            find_meta ((meta_open ++ pfx ++ ["["%char]) ++ k ++ s2l "]}") = Some (pfx ++ "["%char :: k ++ ["]"%char])).
  { intros pfx NP P1 P2.
    replace ((meta_open ++ pfx ++ ["["%char]) ++ k ++ s2l "]}") with (meta_open ++ (pfx ++ "["%char :: k ++ ["]"%char]) ++ c_rb :: [])
      by (rewrite <- !app_assoc; cbn [app]; rewrite <- !app_assoc; reflexivity).
    apply find_meta_form.
    - destruct pfx; [contradiction|discriminate].
    - intro X. apply in_app_or in X as [X|[X|X]]; [contradiction|discriminate X|].
      apply in_app_or in X as [X|[X|[]]]; [contradiction|discriminate X].
    - intro X. apply in_app_or in X as [X|[X|X]]; [contradiction|discriminate X|].
      apply in_app_or in X as [X|[X|[]]]; [contradiction|discriminate X]. }
  split; unfold meaning.
  - change (s2l "${trialSpec.Labels[") with (meta_open ++ s2l "Labels" ++ ["["%char]).
    rewrite F; [|discriminate| |]; try (intro X; repeat (destruct X as [X|X]; [discriminate X|]); exact X).
    rewrite parse_index_form by (assumption || discriminate). reflexivity.
  - change (s2l "${trialSpec.Annotations[") with (meta_open ++ s2l "Annotations" ++ ["["%char]).
    rewrite F; [|discriminate| |]; try (intro X; repeat (destruct X as [X|X]; [discriminate X|]); exact X).
    rewrite parse_index_form by (assumption || discriminate). reflexivity.
Qed.

(* ------------------------------------------------------------------ end to end, hypotheses on the inputs only *)

Theorem run_spec_end_to_end : forall (reorder : amap -> amap) src gi (tpl : list (list achunk)),
  (forall e, Permutation (reorder e) e) ->
  Forall (fun cs => tpl_names_ok gi cs /\ lits_ok cs /\ tpl_vals_ok cs) tpl -> gi_vals_ok gi ->
  NoDup (map fst (gi_tps gi)) ->
  get_template_check src = Ok tt -> refs_resolve gi -> length (gi_assign gi) = length (plain_refs (gi_tps gi)) ->
  exists env,
    get_run_spec reorder src gi (map a_render tpl) =
      Ok {| rs_leaves := map (a_render_subst env) tpl; rs_name := gi_tname gi; rs_ns := gi_tns gi |}
    /\ (forall n r, In (n, r) (gi_tps gi) -> exists v, meaning gi r = Ok v /\ a_lookup n env = Some v)
    /\ (forall n, a_lookup n env <> None <-> In n (map fst (gi_tps gi))).
Proof.
  intros reorder src gi tpl P D G ND T R C.
  destruct (build_env_total gi R C) as [env B]. exists env. split; [now apply run_spec_ok|].
  assert (B' := B). apply build_env_ok in B' as (_ & _ & _ & K & V & _). split; [now apply V|].
  intro n. rewrite <- K. split.
  - intros H. destruct (in_dec (list_eq_dec ascii_dec) n (map fst env)) as [Y|N]; [exact Y|].
    apply L_None in N. contradiction.
  - intros I H. apply L_None in H. contradiction.
Qed.

Theorem run_spec_error : forall reorder src gi leaves c,
  get_template_check src = Ok tt -> build_env gi = Err c -> get_run_spec reorder src gi leaves = Err c.
Proof. intros reorder src gi leaves c T B. unfold get_run_spec. now rewrite T, B. Qed.

Theorem apply_parameters_error : forall reorder gi tpl c, build_env gi = Err c -> apply_parameters reorder gi tpl = Err c.
Proof. intros reorder gi tpl c B. unfold apply_parameters. now rewrite B. Qed.

(* the only errors of the placeholder map *)
Lemma loop_error_codes gi : forall ps st c, loop gi st ps = Err c -> c = E_no_assignment \/ c = E_bad_meta.
Proof.
  induction ps as [|[n r] ps IH]; intros [e cnt] c L; unfold loop in *; cbn [param_loop] in L; [discriminate|].
  rewrite step_meaning in L. destruct (meaning gi r) as [v|c2|c2] eqn:M; try discriminate.
  - eapply IH. exact L.
  - injection L as <-. unfold meaning in M. destruct (find_meta r) as [key0|].
    + right. destruct (match parse_index key0 with Some (k, i) => (k, i) | None => (key0, []) end) as [key idx].
      unfold meta_value in M.
      repeat match type of M with context [if ?b then _ else _] => destruct b end; try discriminate;
        try (match type of M with context [a_lookup ?i ?mm] => destruct (a_lookup i mm) end; try discriminate);
        now injection M as <-.
    + left. destruct (a_lookup r (assign_map (gi_assign gi))); [discriminate|]. now injection M as <-.
Qed.

Theorem build_env_error_codes : forall gi c, build_env gi = Err c -> c = E_no_assignment \/ c = E_bad_meta \/ c = E_count.
Proof.
  intros gi c. unfold build_env. fold (loop gi ([], 0) (gi_tps gi)).
  destruct (loop gi ([], 0) (gi_tps gi)) as [[e cnt]|c'|c'] eqn:L.
  - destruct (Nat.eqb (length (gi_assign gi)) cnt); [discriminate|]. intros [= <-]. now right; right.
  - intros [= <-]. apply loop_error_codes in L. tauto.
  - discriminate.
Qed.

(* ------------------------------------------------------------------ second form: literals may end in '$' *)

Definition a_wf2 : list achunk -> Prop := wf2 ascii Ascii.eqb c_d c_lb c_rb c_pre.
Definition a_env_ok2 : amap -> Prop := env_ok2 ascii Ascii.eqb c_d c_lb c_rb.
Definition a_wf2b : list achunk -> bool := wf2b ascii Ascii.eqb c_d c_lb c_rb c_pre.
Definition a_env_ok2b : amap -> bool := env_ok2b ascii Ascii.eqb c_d c_lb c_rb.

Theorem a_substitution2 : forall (chunks : list achunk) (env ord : amap),
  a_wf2 chunks -> a_env_ok2 env -> NoDup (map fst env) -> Permutation ord env ->
  a_replace_seq ord (a_render chunks) = a_render_subst env chunks.
Proof. exact (substitution2 ascii Ascii.eqb Ascii.eqb_spec c_d c_lb c_rb c_pre c_d_lb c_lb_rb c_d_rb c_pre_no_d). Qed.

Theorem a_no_leftover2 : forall (chunks : list achunk) (env : amap),
  a_wf2 chunks -> a_env_ok2 env -> a_declared chunks env ->
  a_occursb c_open (a_render_subst env chunks) = false.
Proof. exact (no_leftover2 ascii Ascii.eqb Ascii.eqb_spec c_d c_lb c_rb c_pre c_d_lb). Qed.

Lemma a_wf2b_spec cs : a_wf2b cs = true -> a_wf2 cs.
Proof. apply (wf2b_spec ascii Ascii.eqb Ascii.eqb_spec). Qed.
Lemma a_env_ok2b_spec e : a_env_ok2b e = true -> a_env_ok2 e.
Proof. apply (env_ok2b_spec ascii Ascii.eqb Ascii.eqb_spec). Qed.
