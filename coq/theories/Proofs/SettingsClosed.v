(* C10 — closed form of the settings merge: position by position, without any assumption on duplicate names. *)
From KV Require Import Base.Prelude Model.Convert Model.Settings Proofs.SettingsP.
Open Scope string_scope.

(* the entry [x] after the override: its value is the last one [sug] gives under its name, if any *)
Definition over_value (sug : list kv) (x : kv) : kv :=
  match lookup_last (k_name x) sug with Some v => KV (k_name x) v | None => KV (k_name x) (k_value x) end.

(* only the FIRST entry of each name is overridden ([contains] returns the first index); later duplicates keep their value *)
Fixpoint override_firsts (seen : list string) (spec sug : list kv) : list kv :=
  match spec with
  | [] => []
  | x :: r => (if mem (k_name x) seen then x else over_value sug x) :: override_firsts (seen ++ [k_name x]) r sug
  end.

Definition last_value (sug : list kv) (n : string) : kv :=
  KV n (match lookup_last n sug with Some v => v | None => "" end).

Definition expected_settings (spec sug : list kv) : list kv :=
  (override_firsts [] spec sug ++ map (last_value sug) (new_names (names spec) sug))%list.

Lemma kv_eta x : KV (k_name x) (k_value x) = x.
Proof. now destruct x. Qed.

Lemma lookup_last_cons_ne n s r : k_name s <> n -> lookup_last n (s :: r) = lookup_last n r.
Proof.
  intro NE. cbn [lookup_last]. destruct (lookup_last n r); [reflexivity|].
  destruct (String.eqb_spec (k_name s) n); [contradiction|reflexivity].
Qed.

Lemma over_value_cons_ne s r x : k_name s <> k_name x -> over_value (s :: r) x = over_value r x.
Proof. intro NE. unfold over_value. now rewrite lookup_last_cons_ne. Qed.

(* entries whose name was seen are kept; an entry of another name does not care about [s] *)
Lemma of_seen s r : forall l seen, In (k_name s) seen -> override_firsts seen l (s :: r) = override_firsts seen l r.
Proof.
  induction l as [|x l IH]; intros seen I; cbn [override_firsts]; [reflexivity|].
  rewrite IH by (apply in_app_iff; now left). f_equal.
  destruct (mem (k_name x) seen) eqn:M; [reflexivity|].
  apply over_value_cons_ne. intro E. apply mem_false in M. congruence.
Qed.

Lemma of_absent s r : forall l seen, ~ In (k_name s) (names l) -> override_firsts seen l (s :: r) = override_firsts seen l r.
Proof.
  induction l as [|x l IH]; intros seen N; cbn [override_firsts]; [reflexivity|].
  cbn [names map In] in N. fold (names l) in N. rewrite IH by tauto. f_equal.
  destruct (mem (k_name x) seen); [reflexivity|]. apply over_value_cons_ne. intro E. apply N. now left.
Qed.

Lemma of_upsert_present s r : forall l seen,
  In (k_name s) (names l) -> ~ In (k_name s) seen ->
  override_firsts seen (upsert l s) r = override_firsts seen l (s :: r).
Proof.
  induction l as [|x l IH]; intros seen I N; [destruct I|].
  cbn [upsert]. destruct (String.eqb_spec (k_name x) (k_name s)) as [E|NE]; cbn [override_firsts k_name].
  - rewrite of_seen by (apply in_app_iff; right; left; exact E). f_equal.
    assert (M : mem (k_name x) seen = false) by (apply mem_false; congruence). rewrite M.
    unfold over_value. cbn [k_name k_value lookup_last]. rewrite E.
    destruct (lookup_last (k_name s) r); [reflexivity|]. now rewrite String.eqb_refl.
  - cbn [names map In] in I. destruct I as [I|I]; [contradiction|].
    rewrite IH; [|exact I|]. 
    + f_equal. destruct (mem (k_name x) seen); [reflexivity|]. symmetry. apply over_value_cons_ne. congruence.
    + rewrite in_app_iff. cbn [In]. intros [H|[H|[]]]; [contradiction|congruence].
Qed.

Lemma of_snoc y sug : forall l seen,
  override_firsts seen (l ++ [y]) sug =
  (override_firsts seen l sug ++ [if mem (k_name y) (seen ++ names l) then y else over_value sug y])%list.
Proof.
  induction l as [|x l IH]; intro seen; cbn [app override_firsts names map].
  - now rewrite app_nil_r.
  - rewrite IH. fold (names l). now rewrite <- app_assoc.
Qed.

Lemma map_last_value_cons s r l : ~ In (k_name s) l -> map (last_value (s :: r)) l = map (last_value r) l.
Proof.
  intro N. apply map_ext_in. intros n I. unfold last_value. rewrite lookup_last_cons_ne; [reflexivity|].
  intro E. apply N. now rewrite E.
Qed.

Theorem merge_closed_form : forall sug spec, merge_settings spec sug = expected_settings spec sug.
Proof.
  unfold merge_settings. induction sug as [|s r IH]; intro spec; cbn [fold_left].
  - unfold expected_settings. cbn [new_names map]. rewrite app_nil_r.
    assert (G : forall l seen, override_firsts seen l [] = l).
    { induction l as [|x l IHl]; intro seen; cbn [override_firsts]; [reflexivity|]. rewrite IHl. f_equal.
      destruct (mem (k_name x) seen); [reflexivity|]. unfold over_value. cbn [lookup_last]. apply kv_eta. }
    now rewrite G.
  - rewrite IH, apply_upsert. unfold expected_settings. rewrite names_upsert. cbn [new_names].
    destruct (mem (k_name s) (names spec)) eqn:M.
    + apply mem_In in M. rewrite of_upsert_present by (auto; intros []). f_equal.
      symmetry. apply map_last_value_cons. rewrite new_names_In. tauto.
    + apply mem_false in M.
      assert (U : upsert spec s = (spec ++ [KV (k_name s) (k_value s)])%list).
      { clear -M. induction spec as [|x l IHl]; cbn [upsert app]; [reflexivity|]. cbn [names map In] in M.
        destruct (String.eqb_spec (k_name x) (k_name s)); [tauto|]. f_equal. apply IHl. tauto. }
      rewrite U, of_snoc. cbn [app k_name]. rewrite (proj2 (mem_false _ _) M), of_absent by exact M.
      rewrite <- app_assoc. f_equal. cbn [app map]. f_equal.
      * unfold over_value, last_value. cbn [k_name k_value lookup_last].
        destruct (lookup_last (k_name s) r); [reflexivity|]. now rewrite String.eqb_refl.
      * symmetry. apply map_last_value_cons. rewrite new_names_In, in_app_iff. cbn [In]. tauto.
Qed.
