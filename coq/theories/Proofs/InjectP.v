(* Lemmas about the model of the pod webhook (Model/Inject.v) against the specification notions of InjectSpec.v. *)
From KV Require Import Base.Prelude Model.Inject Model.InjectSpec.
Open Scope string_scope.
Open Scope list_scope.

Lemma seqb_eq a b : seqb a b = true <-> a = b.
Proof. apply String.eqb_eq. Qed.
Lemma seqb_neq a b : seqb a b = false <-> a <> b.
Proof. apply String.eqb_neq. Qed.
Lemma seqb_refl a : seqb a a = true.
Proof. apply String.eqb_refl. Qed.

Lemma flat_map_nil_all {A B} (f : A -> list B) l : (forall a, In a l -> f a = []) -> flat_map f l = [].
Proof.
  induction l as [|a r IH]; intro H; cbn; [reflexivity|].
  rewrite (H a (or_introl eq_refl)). apply IH. intros b I. apply H. now right.
Qed.

(* ================================================================== the ownership walk *)
Section Walk.
Variables (K : consts) (cl : list object) (ns : string).

Lemma walk_loop_found rec l k n :
  walk_loop cl ns rec l = Found k n ->
  exists r o, In r l /\ resolve cl ns r = Some o /\ rec o = Found k n.
Proof.
  induction l as [|r rest IH]; cbn [walk_loop]; [discriminate|].
  destruct (r_gv r) as [gv|] eqn:G; [|discriminate].
  destruct (find_object cl gv (r_kind r) ns (r_name r)) as [o|] eqn:F; [|discriminate].
  destruct (rec o) as [k' n'| |] eqn:R.
  - intros [= -> ->]. exists r, o. split; [now left|]. split; [|assumption]. unfold resolve. now rewrite G.
  - intro H. destruct (IH H) as (r'&o'&I&Hr&Hf). exists r', o'. split; [now right|auto].
  - discriminate.
Qed.

(* a Found answer names an object that really has a Trial owner and a non-empty kind *)
Lemma walk_sound fuel : forall kind name owners k n,
  get_katib_job K cl ns fuel kind name owners = Found k n ->
  descends K cl ns kind name owners n /\ k <> "".
Proof.
  induction fuel as [|f IH]; intros kind name owners k n; cbn [get_katib_job]; [discriminate|].
  destruct (existsb (is_trial_ref K) owners && negb (seqb kind "")) eqn:E.
  - intros [= <- <-]. apply andb_true_iff in E as [E1 E2].
    apply negb_true_iff, seqb_neq in E2. split; [now constructor|assumption].
  - intro H. apply walk_loop_found in H as (r&o&I&Hr&Hf). apply IH in Hf as [Hd Hk].
    split; [eapply D_up; eauto|assumption].
Qed.

Lemma walk_in_jobs fuel : forall kind name owners k n,
  get_katib_job K cl ns fuel kind name owners = Found k n -> In n (jobs K cl ns fuel kind name owners).
Proof.
  induction fuel as [|f IH]; intros kind name owners k n; cbn [get_katib_job jobs]; [discriminate|].
  destruct (existsb (is_trial_ref K) owners && negb (seqb kind "")) eqn:E.
  - intros [= <- <-]. now left.
  - intro H. apply walk_loop_found in H as (r&o&I&Hr&Hf). apply IH in Hf.
    apply in_flat_map. exists r. split; [assumption|]. now rewrite Hr.
Qed.

Lemma jobs_descends fuel : forall kind name owners n,
  In n (jobs K cl ns fuel kind name owners) -> descends K cl ns kind name owners n.
Proof.
  induction fuel as [|f IH]; intros kind name owners n; cbn [jobs]; [intros []|].
  intro H. destruct (existsb (is_trial_ref K) owners && negb (seqb kind "")) eqn:E.
  - destruct H as [<-|[]]. apply andb_true_iff in E as [E1 E2]. apply negb_true_iff, seqb_neq in E2. now constructor.
  - apply in_flat_map in H as (r&I&H). destruct (resolve cl ns r) as [o|] eqn:R; [|destruct H].
    eapply D_up; eauto.
Qed.

(* more fuel never changes an answer *)
Lemma walk_loop_ext rec1 rec2 l :
  (forall o, rec1 o <> OutOfFuel -> rec2 o = rec1 o) ->
  walk_loop cl ns rec1 l <> OutOfFuel -> walk_loop cl ns rec2 l = walk_loop cl ns rec1 l.
Proof.
  intro H. induction l as [|r rest IH]; cbn [walk_loop]; [reflexivity|].
  destruct (r_gv r) as [gv|]; [|reflexivity].
  destruct (find_object cl gv (r_kind r) ns (r_name r)) as [o|]; [|reflexivity].
  destruct (rec1 o) as [k n|e|] eqn:R; intro N.
  - rewrite (H o); rewrite R; [reflexivity|discriminate].
  - rewrite (H o); rewrite R; [now apply IH|discriminate].
  - now elim N.
Qed.

Lemma walk_mono fuel : forall kind name owners,
  get_katib_job K cl ns fuel kind name owners <> OutOfFuel ->
  get_katib_job K cl ns (S fuel) kind name owners = get_katib_job K cl ns fuel kind name owners.
Proof.
  induction fuel as [|f IH]; intros kind name owners; [cbn; intro N; now elim N|].
  remember (S f) as f1. cbn [get_katib_job]. subst f1. cbn [get_katib_job].
  destruct (existsb (is_trial_ref K) owners && negb (seqb kind "")); [reflexivity|].
  apply walk_loop_ext. intros o N. now apply IH.
Qed.

Lemma walk_mono_le fuel fuel' kind name owners :
  fuel <= fuel' -> get_katib_job K cl ns fuel kind name owners <> OutOfFuel ->
  get_katib_job K cl ns fuel' kind name owners = get_katib_job K cl ns fuel kind name owners.
Proof.
  induction 1 as [|m L IH]; [reflexivity|]. intro N. rewrite walk_mono; rewrite IH; auto.
Qed.

Lemma resolve_in r o : resolve cl ns r = Some o -> In o cl.
Proof.
  unfold resolve, find_object. destruct (r_gv r); [|discriminate]. intro H. now apply find_some in H as [H _].
Qed.

(* acyclic ownership (a decreasing rank) bounds the fuel that is needed *)
Lemma walk_loop_no_fuel rec l :
  (forall r o, In r l -> resolve cl ns r = Some o -> rec o <> OutOfFuel) -> walk_loop cl ns rec l <> OutOfFuel.
Proof.
  induction l as [|r rest IH]; intro H; cbn [walk_loop]; [discriminate|].
  destruct (r_gv r) as [gv|] eqn:G; [|discriminate].
  destruct (find_object cl gv (r_kind r) ns (r_name r)) as [o|] eqn:F; [|discriminate].
  assert (R : resolve cl ns r = Some o) by (unfold resolve; now rewrite G).
  pose proof (H r o (or_introl eq_refl) R) as N.
  destruct (rec o); [discriminate| |now elim N].
  apply IH. intros r' o' I. apply H. now right.
Qed.

Lemma walk_terminates rank : ranked cl ns rank -> forall n kind name owners,
  (forall r o, In r owners -> resolve cl ns r = Some o -> rank o < n) ->
  get_katib_job K cl ns (S n) kind name owners <> OutOfFuel.
Proof.
  intro Hr. induction n as [|n IH]; intros kind name owners Hb; cbn [get_katib_job].
  - destruct (_ && _); [discriminate|]. apply walk_loop_no_fuel. intros r o I R. specialize (Hb r o I R). lia.
  - destruct (existsb (is_trial_ref K) owners && negb (seqb kind "")); [discriminate|].
    apply walk_loop_no_fuel. intros r o I R. apply IH. intros r' o' I' R'.
    pose proof (Hb r o I R). pose proof (Hr o r' o' (resolve_in r o R) I' R'). lia.
Qed.

(* on a regular graph the walk finds a job whenever there is one, and never runs out of fuel *)
Lemma walk_loop_regular rec l :
  (forall r o, In r l -> resolve cl ns r = Some o -> rec o <> OutOfFuel) ->
  forallb (fun r => match resolve cl ns r with Some _ => true | None => false end) l = true ->
  (exists k n, walk_loop cl ns rec l = Found k n) \/
  (walk_loop cl ns rec l = WErr e_not_belong /\ forall r o, In r l -> resolve cl ns r = Some o -> exists e, rec o = WErr e).
Proof.
  induction l as [|r rest IH]; intros Hn Hr; cbn [walk_loop].
  - right. split; [reflexivity|intros ? ? []].
  - cbn [forallb] in Hr. apply andb_true_iff in Hr as [Hr1 Hr2].
    destruct (resolve cl ns r) as [o|] eqn:R; [|discriminate]. pose proof R as R0.
    unfold resolve in R. destruct (r_gv r) as [gv|]; [|discriminate]. rewrite R.
    pose proof (Hn r o (or_introl eq_refl) R0) as N.
    destruct (rec o) as [k n|e|] eqn:E; [left; eauto| |now elim N].
    destruct IH as [F|[W A]]; auto.
    + intros r' o' I. apply Hn. now right.
    + right. split; [assumption|]. intros r' o' [<-|I] R'; [|eauto]. rewrite R0 in R'. injection R' as <-. eauto.
Qed.

Lemma walk_regular fuel : forall kind name owners,
  regular K cl ns fuel kind owners = true ->
  (exists k n, get_katib_job K cl ns fuel kind name owners = Found k n) \/
  (get_katib_job K cl ns fuel kind name owners = WErr e_not_belong /\ jobs K cl ns fuel kind name owners = []).
Proof.
  induction fuel as [|f IH]; intros kind name owners Hr; [discriminate|].
  cbn [get_katib_job jobs regular] in *.
  destruct (existsb (is_trial_ref K) owners && negb (seqb kind "")); [left; eauto|].
  cbn [orb] in Hr. rewrite forallb_forall in Hr.
  assert (Hsub : forall r o, In r owners -> resolve cl ns r = Some o -> regular K cl ns f (o_kind o) (o_owners o) = true).
  { intros r o I R. specialize (Hr r I). now rewrite R in Hr. }
  assert (Hres : forallb (fun r => match resolve cl ns r with Some _ => true | None => false end) owners = true).
  { apply forallb_forall. intros r I. specialize (Hr r I). now destruct (resolve cl ns r). }
  destruct (walk_loop_regular (fun o => get_katib_job K cl ns f (o_kind o) (o_name o) (o_owners o)) owners) as [F|[Wn A]]; auto.
  - intros r o I R. destruct (IH (o_kind o) (o_name o) (o_owners o) (Hsub r o I R)) as [(k&n&->)|[-> _]]; discriminate.
  - right. split; [assumption|].
    apply flat_map_nil_all. intros r I. destruct (resolve cl ns r) as [o|] eqn:R; [|reflexivity].
    destruct (IH (o_kind o) (o_name o) (o_owners o) (Hsub r o I R)) as [(k&n&F)|[_ J]]; [|assumption].
    destruct (A r o I R) as (e&E). congruence.
Qed.
End Walk.

(* ================================================================== labels *)
Lemma lookup_set_label k v l k' :
  lookup_label k' (set_label k v l) = if seqb k' k then Some v else lookup_label k' l.
Proof.
  induction l as [|[k0 v0] r IH]; cbn [set_label lookup_label]; [reflexivity|].
  destruct (seqb k k0) eqn:E; cbn [lookup_label].
  - apply seqb_eq in E. subst k0. destruct (seqb k' k); reflexivity.
  - rewrite IH. destruct (seqb k' k) eqn:E2; [|reflexivity].
    apply seqb_eq in E2. subst k'. now rewrite E.
Qed.

Lemma lookup_app k l1 l2 :
  lookup_label k (l1 ++ l2) = match lookup_label k l1 with Some v => Some v | None => lookup_label k l2 end.
Proof. induction l1 as [|[k0 v0] r IH]; cbn [app lookup_label]; [reflexivity|]. destruct (seqb k k0); auto. Qed.

Lemma lookup_fold_set tl : forall acc k,
  lookup_label k (fold_left (fun acc kv => set_label (fst kv) (snd kv) acc) tl acc) =
  match lookup_label k (rev tl) with Some v => Some v | None => lookup_label k acc end.
Proof.
  induction tl as [|[k0 v0] r IH]; intros acc k; cbn [fold_left rev]; [reflexivity|].
  rewrite IH, lookup_app, lookup_set_label. cbn [fst snd lookup_label].
  destruct (lookup_label k (rev r)); [reflexivity|]. destruct (seqb k k0); reflexivity.
Qed.

(* the labels of the mutated pod, as a finite map *)
Lemma mutate_labels_spec K pl t k : lookup_label k (mutate_labels K pl t) = expected_label K t pl k.
Proof. unfold mutate_labels, expected_label. rewrite lookup_set_label, lookup_fold_set. reflexivity. Qed.

Lemma keys_set_label k v l :
  map fst (set_label k v l) = if existsb (seqb k) (map fst l) then map fst l else map fst l ++ [k].
Proof.
  induction l as [|[k0 v0] r IH]; cbn [set_label map fst existsb app]; [reflexivity|].
  destruct (seqb k k0) eqn:E; cbn [orb map fst].
  - apply seqb_eq in E. now subst.
  - rewrite IH. destruct (existsb (seqb k) (map fst r)); reflexivity.
Qed.

Lemma existsb_seqb_in k l : existsb (seqb k) l = true <-> In k l.
Proof.
  rewrite existsb_exists. split.
  - intros (x&I&E). apply seqb_eq in E. now subst.
  - intro I. exists k. split; [assumption|apply seqb_refl].
Qed.

Lemma NoDup_app_snoc {A} (l : list A) a : NoDup l -> ~ In a l -> NoDup (l ++ [a]).
Proof.
  induction l as [|b r IH]; intros N I; cbn; [constructor; [intros []|constructor]|].
  inversion N as [|? ? Nb Nr]; subst. constructor.
  - intro J. apply in_app_or in J as [J|[<-|[]]]; [contradiction|]. apply I. now left.
  - apply IH; [assumption|]. intro J. apply I. now right.
Qed.

Lemma nodup_set_label k v l : NoDup (map fst l) -> NoDup (map fst (set_label k v l)).
Proof.
  intro N. rewrite keys_set_label. destruct (existsb (seqb k) (map fst l)) eqn:E; [assumption|].
  apply NoDup_app_snoc; [assumption|]. intro I. apply existsb_seqb_in in I. congruence.
Qed.

Lemma nodup_mutate_labels K pl t : NoDup (map fst pl) -> NoDup (map fst (mutate_labels K pl t)).
Proof.
  intro N. unfold mutate_labels. apply nodup_set_label.
  generalize dependent pl. induction (t_labels t) as [|a r IH]; intros pl N; cbn [fold_left]; [assumption|].
  apply IH. now apply nodup_set_label.
Qed.

(* ================================================================== lists by position *)
Lemma mapi_from_ext {A B} (f g : nat -> A -> B) l : forall n,
  (forall j a, n <= j -> f j a = g j a) -> mapi_from f n l = mapi_from g n l.
Proof.
  induction l as [|a r IH]; intros n H; cbn [mapi_from]; [reflexivity|].
  rewrite (H n a (le_n n)). f_equal. apply IH. intros j b L. apply H. lia.
Qed.

Lemma mapi_from_ext_in {A B} (f g : nat -> A -> B) l : forall n,
  (forall j a, nth_error l (j - n) = Some a -> n <= j -> f j a = g j a) -> mapi_from f n l = mapi_from g n l.
Proof.
  induction l as [|a r IH]; intros n H; cbn [mapi_from]; [reflexivity|].
  rewrite (H n a); [|now rewrite Nat.sub_diag|lia]. f_equal. apply IH. intros j b E L. apply H; [|lia].
  replace (j - n) with (S (j - S n)) by lia. exact E.
Qed.

Lemma mapi_from_mapi_from {A B C} (f : nat -> A -> B) (g : nat -> B -> C) l : forall n,
  mapi_from g n (mapi_from f n l) = mapi_from (fun j a => g j (f j a)) n l.
Proof. induction l as [|a r IH]; intro n; cbn [mapi_from]; [reflexivity|]. now rewrite IH. Qed.

Lemma mapi_from_app {A B} (f : nat -> A -> B) l1 l2 : forall n,
  mapi_from f n (l1 ++ l2) = mapi_from f n l1 ++ mapi_from f (n + length l1) l2.
Proof.
  induction l1 as [|a r IH]; intro n; cbn [mapi_from app length].
  - now rewrite Nat.add_0_r.
  - rewrite IH. f_equal. f_equal. f_equal. lia.
Qed.

Lemma map_mapi_from {A B} (f : A -> B) l n : map f l = mapi_from (fun _ => f) n l.
Proof. revert n. induction l as [|a r IH]; intro n; cbn [map mapi_from]; [reflexivity|]. now rewrite <- IH. Qed.

Lemma mapi_from_length {A B} (f : nat -> A -> B) l n : length (mapi_from f n l) = length l.
Proof. revert n. induction l as [|a r IH]; intro n; cbn; [reflexivity|]. now rewrite IH. Qed.

Lemma update_nth_mapi_from {A} (g : A -> A) l : forall i n,
  update_nth i g l = mapi_from (fun j a => if Nat.eqb j (n + i) then g a else a) n l.
Proof.
  induction l as [|a r IH]; intros i n; [destruct i; reflexivity|].
  destruct i as [|i]; cbn [update_nth mapi_from].
  - rewrite Nat.add_0_r, Nat.eqb_refl. f_equal.
    transitivity (mapi_from (fun (_ : nat) (a : A) => a) (S n) r).
    + clear. generalize (S n). induction r as [|b r IH]; intro m; cbn; [reflexivity|]. now rewrite <- IH.
    + apply mapi_from_ext. intros j b L. destruct (Nat.eqb_spec j n); [lia|reflexivity].
  - destruct (Nat.eqb_spec n (n + S i)); [lia|]. f_equal. rewrite (IH i (S n)).
    apply mapi_from_ext. intros j b L. replace (S n + i) with (n + S i) by lia. reflexivity.
Qed.

Lemma update_nth_mapi {A} (g : A -> A) l i :
  update_nth i g l = mapi (fun j a => if Nat.eqb j i then g a else a) l.
Proof. unfold mapi. now rewrite (update_nth_mapi_from g l i 0). Qed.

Lemma nth_error_mapi_from {A B} (f : nat -> A -> B) l : forall n i,
  nth_error (mapi_from f n l) i = option_map (f (n + i)) (nth_error l i).
Proof.
  induction l as [|a r IH]; intros n i; [destruct i; reflexivity|].
  destruct i as [|i]; cbn [mapi_from nth_error option_map]; [now rewrite Nat.add_0_r|].
  rewrite IH. now replace (S n + i) with (n + S i) by lia.
Qed.

(* ================================================================== the primary container *)
Lemma primary_index_spec cs name i :
  primary_index cs name = Some i ->
  exists c, nth_error cs i = Some c /\ c_name c = name /\
            forall j c', j < i -> nth_error cs j = Some c' -> c_name c' <> name.
Proof.
  revert i. induction cs as [|c r IH]; intro i; cbn [primary_index]; [discriminate|].
  destruct (seqb (c_name c) name) eqn:E.
  - intros [= <-]. exists c. apply seqb_eq in E. repeat split; auto. intros j c' L. lia.
  - destruct (primary_index r name) as [k|]; [|discriminate]. intros [= <-].
    destruct (IH k eq_refl) as (c0&N&Hn&Hf). exists c0. repeat split; auto.
    intros [|j] c' L; cbn [nth_error]; [intros [= <-]; now apply seqb_neq|]. apply Hf. lia.
Qed.

Lemma primary_index_lt cs name i : primary_index cs name = Some i -> i < length cs.
Proof.
  intro H. apply primary_index_spec in H as (c&N&_). apply nth_error_Some. congruence.
Qed.

Lemma primary_index_names cs cs' name :
  map c_name cs = map c_name cs' -> primary_index cs name = primary_index cs' name.
Proof.
  revert cs'. induction cs as [|c r IH]; intros [|c' r']; cbn [map]; try discriminate; [reflexivity|].
  intros [= E1 E2]. cbn [primary_index]. rewrite E1, (IH r' E2). reflexivity.
Qed.

Lemma primary_index_app cs l name i : primary_index cs name = Some i -> primary_index (cs ++ l) name = Some i.
Proof.
  revert i. induction cs as [|c r IH]; intro i; cbn [primary_index app]; [discriminate|].
  destruct (seqb (c_name c) name); [auto|]. destruct (primary_index r name) as [k|]; [|discriminate].
  intros [= <-]. now rewrite (IH k eq_refl).
Qed.

Lemma primary_index_none cs name :
  primary_index cs name = None <-> forall c, In c cs -> c_name c <> name.
Proof.
  induction cs as [|c r IH]; cbn [primary_index].
  - split; [intros _ ? []|reflexivity].
  - destruct (seqb (c_name c) name) eqn:E.
    + split; [discriminate|]. intro H. apply seqb_eq in E. now elim (H c (or_introl eq_refl)).
    + destruct (primary_index r name) as [k|].
      * split; [discriminate|]. intro H. assert (Some k = None); [|discriminate]. apply IH. intros c' I. apply H. now right.
      * split; [|reflexivity]. intros _ c' [<-|I]; [now apply seqb_neq|]. now apply IH.
Qed.

Lemma names_mapi_from (f : nat -> container -> container) l n :
  (forall j c, c_name (f j c) = c_name c) -> map c_name (mapi_from f n l) = map c_name l.
Proof.
  intro H. revert n. induction l as [|a r IH]; intro n; cbn [mapi_from map]; [reflexivity|]. now rewrite H, IH.
Qed.

(* ================================================================== wrapping *)
Lemma wrap_container_ok W t mp isf c c' :
  wrap_container W t mp isf c = Ok c' ->
  exists argv, container_command W c = Ok argv /\ argv <> [] /\ c' = wrapped W t mp isf argv c.
Proof.
  unfold wrap_container, wrapped. destruct (container_command W c) as [argv| |]; try discriminate.
  destruct argv as [|a0 rest]; [discriminate|].
  destruct (split_shell (a0 :: rest)) as [cmd payload] eqn:S. intros [= <-]. exists (a0 :: rest).
  rewrite S. cbn [fst snd]. repeat split; auto; discriminate.
Qed.

Lemma wrap_at_ok W t mp isf : forall i cs cs',
  wrap_at W t mp isf i cs = Ok cs' -> i < length cs ->
  exists c argv, nth_error cs i = Some c /\ container_command W c = Ok argv /\ argv <> [] /\
                 cs' = update_nth i (wrapped W t mp isf argv) cs.
Proof.
  induction i as [|i IH]; intros [|c r] cs'; cbn [wrap_at length]; try lia.
  - destruct (wrap_container W t mp isf c) as [c'| |] eqn:Wc; try discriminate. intros [= <-] _.
    apply wrap_container_ok in Wc as (argv&C&N&->). exists c, argv. repeat split; auto.
  - destruct (wrap_at W t mp isf i r) as [r'| |] eqn:Wr; try discriminate. intros [= <-] L.
    destruct (IH r r' Wr) as (c0&argv&Nth&C&N&->); [lia|]. exists c0, argv. repeat split; auto.
Qed.

(* command line of a container with an explicit command *)
Lemma container_command_explicit W c : c_command c <> [] -> container_command W c = Ok (c_command c ++ c_args c).
Proof. unfold container_command. destruct (c_command c); [congruence|reflexivity]. Qed.

(* the wrapped argument starts with the (remaining) original command line, words joined by one space *)
Lemma concat_app_prefix sep a b : String.prefix (String.concat sep a) (String.concat sep (a ++ b)) = true.
Proof.
  assert (P : forall s u, String.prefix s (s +++ u) = true).
  { induction s as [|ch s IH]; intro u; cbn; [now destruct u|]. destruct (ascii_dec ch ch); [apply IH|congruence]. }
  induction a as [|x r IH]; cbn [app].
  - cbn. now destruct (String.concat sep b).
  - destruct r as [|y r'].
    + cbn [app String.concat]. destruct b; [cbn; rewrite <- (P x ""); f_equal; clear; induction x; cbn; congruence|apply P].
    + cbn [app String.concat] in *. 
      assert (Q : forall s u v, String.prefix u v = true -> String.prefix (s +++ u) (s +++ v) = true).
      { induction s as [|ch s IHs]; intros u v H; cbn; [assumption|]. destruct (ascii_dec ch ch); [now apply IHs|congruence]. }
      apply Q. apply Q. exact IH.
Qed.

(* ================================================================== Mutate on the primary pod *)
Lemma mapi_from_id {A} (l : list A) n : mapi_from (fun _ a => a) n l = l.
Proof. revert n. induction l as [|a r IH]; intro n; cbn; [reflexivity|]. now rewrite IH. Qed.

Lemma container_command_add_env W e c : container_command W (add_env e c) = container_command W c.
Proof. reflexivity. Qed.
Lemma container_command_add_mount W m c : container_command W (add_mount m c) = container_command W c.
Proof. reflexivity. Qed.

Lemma not_push {A} (k : ckind) (X Y : A) :
  k <> KPush -> match k with KPush => X | _ => Y end = Y.
Proof. destruct k; congruence. Qed.

Section Primary.
Variables (W : world) (t : trial) (p : pod).
Let K := w_consts W.
Let cs := p_containers p.
Let prim := t_primary_container t.

Lemma sugg_volume_shape l vs l' vs' i :
  mutate_suggestion_volume W t l vs = Ok (l', vs') ->
  primary_index l prim = Some i ->
  l' = mapi (fun j c => if Nat.eqb j i && negb (seqb (sugg_checkpoint W t) "") then add_mount (sugg_mount W t) c else c) l /\
  vs' = vs ++ (if seqb (sugg_checkpoint W t) "" then []
               else match find_suggestion W (t_ns t) (experiment_name (w_consts W) t) with
                    | Some s => [Vol (k_sugg_volume (w_consts W)) (VPVC (sg_pvc s))]
                    | None => []
                    end).
Proof.
  unfold mutate_suggestion_volume, sugg_mount, sugg_checkpoint. fold prim.
  destruct (negb (existsb _ (w_experiments W))); [discriminate|].
  destruct (find_suggestion W (t_ns t) (experiment_name (w_consts W) t)) as [s|]; [|discriminate].
  intros H PI. rewrite PI in H.
  destruct (seqb (checkpoint_path (k_sugg_mount_key (w_consts W)) (sg_settings s)) "") eqn:E.
  - injection H as <- <-. split; [|now rewrite app_nil_r].
    unfold mapi. rewrite <- (mapi_from_id l 0) at 1. apply mapi_from_ext. intros j c _. cbn [negb]. now rewrite andb_false_r.
  - injection H as <- <-. split; [|reflexivity]. rewrite update_nth_mapi. unfold mapi.
    apply mapi_from_ext. intros j c _. cbn [negb]. now rewrite andb_true_r.
Qed.

Theorem primary_shape p' :
  mutate_with W t p = Ok p' ->
  is_primary_pod (p_labels p) (t_primary_pod_labels t) = true ->
  t_kind t <> KPush ->
  exists pidx pc col mp isf argv,
    primary_index cs prim = Some pidx /\
    nth_error cs pidx = Some pc /\
    collector_container W t p = Ok col /\
    get_mount_path K t = Ok (mp, isf) /\
    (need_wrap (t_kind t) = true -> container_command W pc = Ok argv /\ argv <> []) /\
    p' = set_pod p (mutate_labels K (p_labels p) t)
           (mapi (expected_container W t (c_name col) mp isf pidx argv) cs ++ [expected_collector W mp isf col])
           (expected_volumes W t mp (p_volumes p)) (Some true).
Proof.
  unfold mutate_with. intros H Pp Np. rewrite Pp in H. cbn [negb] in H. rewrite (not_push _ _ _ Np) in H.
  unfold mutate_pod_env in H. fold cs prim K in H.
  destruct (primary_index cs prim) as [pidx|] eqn:PI; [|discriminate].
  destruct (collector_container W t p) as [col| |] eqn:CC; try discriminate.
  set (G1 := fun j c => if Nat.eqb j pidx then add_env (trial_env K) c else c) in *.
  assert (E1 : update_nth pidx (add_env (trial_env K)) cs ++ [col] = mapi_from G1 0 (cs ++ [col])).
  { rewrite mapi_from_app, update_nth_mapi. unfold mapi. f_equal. cbn [mapi_from]. unfold G1.
    pose proof (primary_index_lt _ _ _ PI). destruct (Nat.eqb_spec (0 + length cs) pidx); [lia|reflexivity]. }
  rewrite E1 in H.
  assert (N1 : forall j c, c_name (G1 j c) = c_name c) by (intros j c; unfold G1; destruct (Nat.eqb j pidx); reflexivity).
  assert (PI2 : primary_index (mapi_from G1 0 (cs ++ [col])) prim = Some pidx).
  { rewrite (primary_index_names _ (cs ++ [col])); [now apply primary_index_app|now apply names_mapi_from]. }
  destruct (mutate_suggestion_volume W t _ (p_volumes p)) as [[cs3 vs3]| |] eqn:SV; try discriminate.
  destruct (sugg_volume_shape _ _ _ _ _ SV PI2) as [-> ->].
  unfold finish_mutate in H. fold K in H.
  destruct (get_mount_path K t) as [[mp isf]| |] eqn:MP; try discriminate.
  unfold mapi in H. rewrite mapi_from_mapi_from in H.
  set (G4 := fun c => if negb (seqb mp "") && (seqb (c_name c) (c_name col) || seqb (c_name c) prim)
                      then add_mount (metrics_mount W mp isf) c else c).
  match type of H with context [mapi_from ?f 0 (cs ++ [col])] => set (G3 := f) in * end.
  match type of H with context [mutate_mc_volume W _ ?v] => set (vs3 := v) in * end.
  assert (E4 : (if seqb mp "" then (mapi_from G3 0 (cs ++ [col]), vs3)
                 else mutate_mc_volume W (mapi_from G3 0 (cs ++ [col])) vs3 mp (c_name col) prim isf)
                = (mapi_from (fun j c => G4 (G3 j c)) 0 (cs ++ [col]), expected_volumes W t mp (p_volumes p))).
  { unfold expected_volumes, mutate_mc_volume, G4, vs3. destruct (seqb mp "") eqn:Emp; cbn [negb andb].
    - rewrite app_nil_r. reflexivity.
    - rewrite (map_mapi_from _ _ 0), mapi_from_mapi_from, app_assoc. reflexivity. }
  fold prim in H. rewrite E4 in H. clear E4.
  assert (N3 : forall j c, c_name (G4 (G3 j c)) = c_name c).
  { assert (N3' : forall j c, c_name (G3 j c) = c_name c).
    { intros j c. unfold G3. cbn beta. destruct (Nat.eqb j pidx && _); cbn; apply N1. }
    intros j c. unfold G4. destruct (negb (seqb mp "") && _); cbn; apply N3'. }
  destruct (primary_index_spec _ _ _ PI) as (pc&Npc&_).
  (* the wrapping step, in both cases *)
  assert (Hw : exists argv,
             (need_wrap (t_kind t) = true -> container_command W pc = Ok argv /\ argv <> []) /\
             p' = set_pod p (mutate_labels K (p_labels p) t)
                    (mapi_from (fun j c => if Nat.eqb j pidx && need_wrap (t_kind t)
                                           then wrapped W t mp isf argv (G4 (G3 j c)) else G4 (G3 j c)) 0 (cs ++ [col]))
                    (expected_volumes W t mp (p_volumes p)) (Some true)).
  { destruct (need_wrap (t_kind t)) eqn:NW.
    - unfold wrap_worker in H. rewrite (primary_index_names _ (cs ++ [col])) in H by now apply names_mapi_from.
      rewrite (primary_index_app _ _ _ _ PI) in H.
      destruct (wrap_at W t mp isf pidx _) as [cs5| |] eqn:WA; try discriminate. injection H as <-.
      apply wrap_at_ok in WA as (c4&argv&N4&C4&Ne&->).
      2:{ rewrite mapi_from_length, app_length. pose proof (primary_index_lt _ _ _ PI). fold cs. lia. }
      exists argv. split.
      + intros _. split; [|assumption]. rewrite nth_error_mapi_from, nth_error_app1 in N4 by (apply nth_error_Some; congruence).
        rewrite Npc in N4. cbn [option_map] in N4. injection N4 as <-. revert C4. unfold G4, G3, G1.
        cbn [Nat.add]. rewrite Nat.eqb_refl. cbn [andb].
        repeat match goal with |- context [if ?b then _ else _] => destruct b end;
          rewrite ?container_command_add_mount, ?container_command_add_env; auto.
      + f_equal. rewrite (update_nth_mapi_from _ _ pidx 0), mapi_from_mapi_from. apply mapi_from_ext.
        intros j c _. cbn [Nat.add]. now rewrite andb_true_r.
    - injection H as <-. exists []. split; [discriminate|]. f_equal. apply mapi_from_ext. intros j c _. now rewrite andb_false_r. }
  destruct Hw as (argv&Ha&->).
  exists pidx, pc, col, mp, isf, argv. do 4 (split; [auto|]). split; [exact Ha|]. f_equal.
  rewrite mapi_from_app. unfold mapi. f_equal.
  - apply mapi_from_ext. intros j c _. unfold expected_container, G4, G3, G1. cbn beta.
    destruct (Nat.eqb j pidx), (negb (seqb (sugg_checkpoint W t) "")); cbn [andb];
      cbn [c_name add_mount add_env]; reflexivity.
  - cbn [mapi_from]. pose proof (primary_index_lt _ _ _ PI). fold cs in H.
    unfold expected_collector, G4, G3, G1. destruct (Nat.eqb_spec (0 + length cs) pidx); [lia|]. cbn [andb].
    rewrite seqb_refl. cbn [orb]. rewrite andb_true_r. reflexivity.
Qed.
End Primary.

(* ================================================================== when the primary pod is admitted *)
Lemma get_mount_path_ok K t : source_ok t = true -> exists mp isf, get_mount_path K t = Ok (mp, isf).
Proof.
  unfold source_ok, get_mount_path. destruct (t_kind t); try (intros _; solve [eauto]);
    destruct (t_source t) as [[[fp|] fs]|]; try discriminate; intros _; eauto.
Qed.

Lemma builtin_collector_ok W t p :
  match collector_config W t with Ok _ => true | _ => false end && source_ok t = true ->
  suggestion_exists W t = true -> exists col, builtin_collector W t p = Ok col.
Proof.
  unfold suggestion_exists, builtin_collector. intros R S. apply andb_true_iff in R as [R1 R2].
  destruct (collector_config W t) as [cfg| |]; [|discriminate|discriminate].
  destruct (get_mount_path_ok (w_consts W) t R2) as (mp&isf&MP).
  unfold collector_args. rewrite MP. destruct (t_rules t); [eauto|].
  destruct (find_suggestion W (t_ns t) (experiment_name (w_consts W) t)); [eauto|discriminate].
Qed.

Lemma collector_container_ok W t p :
  collector_ready W t = true -> suggestion_exists W t = true -> exists col, collector_container W t p = Ok col.
Proof.
  unfold collector_ready, collector_container. intros R S.
  destruct (t_kind t); try (now apply builtin_collector_ok).
  destruct (t_custom t); [eauto|discriminate].
Qed.

Lemma wrap_at_total W t mp isf : forall i l c argv,
  nth_error l i = Some c -> container_command W c = Ok argv -> argv <> [] -> exists l', wrap_at W t mp isf i l = Ok l'.
Proof.
  induction i as [|i IH]; intros [|c0 r] c argv; cbn [nth_error wrap_at]; try discriminate.
  - intros [= ->] C N. unfold wrap_container. rewrite C. destruct argv; [congruence|].
    destruct (split_shell _). eauto.
  - intros Nth C N. destruct (IH r c argv Nth C N) as (r'&->). eauto.
Qed.

Theorem primary_admitted W t p pidx pc :
  is_primary_pod (p_labels p) (t_primary_pod_labels t) = true ->
  t_kind t <> KPush ->
  primary_index (p_containers p) (t_primary_container t) = Some pidx ->
  nth_error (p_containers p) pidx = Some pc ->
  (need_wrap (t_kind t) = true -> c_command pc <> []) ->
  collector_ready W t = true -> experiment_exists W t = true -> suggestion_exists W t = true ->
  exists p', mutate_with W t p = Ok p'.
Proof.
  intros Pp Np PI Npc Hc CR EX SX.
  destruct (collector_container_ok W t p CR SX) as (col&CC).
  assert (SO : exists mp isf, get_mount_path (w_consts W) t = Ok (mp, isf)).
  { unfold collector_ready in CR. destruct (t_kind t) eqn:Kd;
      try (apply andb_true_iff in CR as [_ CR]; apply get_mount_path_ok; assumption).
    unfold get_mount_path. rewrite Kd. destruct (t_source t) as [[[fp|] fs]|]; eauto. }
  destruct SO as (mp&isf&MP).
  unfold mutate_with. rewrite Pp. cbn [negb]. rewrite (not_push _ _ _ Np).
  unfold mutate_pod_env. rewrite PI, CC.
  set (cs1 := update_nth pidx (add_env (trial_env (w_consts W))) (p_containers p)).
  assert (N1 : map c_name cs1 = map c_name (p_containers p)).
  { unfold cs1. rewrite update_nth_mapi. apply names_mapi_from. intros j c. destruct (Nat.eqb j pidx); reflexivity. }
  assert (PI2 : primary_index (cs1 ++ [col]) (t_primary_container t) = Some pidx).
  { apply primary_index_app. now rewrite (primary_index_names _ _ _ N1). }
  assert (Nth1 : exists c1, nth_error cs1 pidx = Some c1 /\ container_command W c1 = container_command W pc).
  { unfold cs1. rewrite update_nth_mapi. unfold mapi. rewrite nth_error_mapi_from, Npc. cbn [option_map Nat.add].
    rewrite Nat.eqb_refl. eauto. }
  destruct Nth1 as (c1&Nc1&Cc1).
  (* the end of Mutate succeeds on every list that keeps the names and the primary container's command *)
  assert (Fin : forall cs3 vs3 c3, map c_name cs3 = map c_name (cs1 ++ [col]) ->
            nth_error cs3 pidx = Some c3 -> container_command W c3 = container_command W pc ->
            exists p', finish_mutate W t p (mutate_labels (w_consts W) (p_labels p) t) (c_name col) cs3 vs3 = Ok p').
  { intros cs3 vs3 c3 N3 Nc3 Cc3. unfold finish_mutate. rewrite MP.
    set (r4 := if seqb mp "" then (cs3, vs3) else _).
    assert (exists cs4 vs4, r4 = (cs4, vs4) /\ map c_name cs4 = map c_name (cs1 ++ [col]) /\
            exists c4, nth_error cs4 pidx = Some c4 /\ container_command W c4 = container_command W pc) as (cs4&vs4&->&N4&c4&Nc4&Cc4).
    { unfold r4, mutate_mc_volume. destruct (seqb mp "").
      - do 2 eexists. split; [reflexivity|]. split; [assumption|]. eauto.
      - do 2 eexists. split; [reflexivity|]. split.
        + rewrite <- N3. rewrite map_map. apply map_ext. intro c. destruct (_ || _); reflexivity.
        + rewrite nth_error_map, Nc3. cbn [option_map]. eexists. split; [reflexivity|].
          destruct (_ || _); [rewrite container_command_add_mount|]; assumption. }
    destruct (need_wrap (t_kind t)) eqn:NW; [|eauto].
    unfold wrap_worker. rewrite (primary_index_names _ _ _ N4), PI2.
    destruct (wrap_at_total W t mp isf pidx cs4 c4 (c_command pc ++ c_args pc)) as (cs5&->); eauto.
    - rewrite Cc4. apply container_command_explicit. auto.
    - specialize (Hc eq_refl). destruct (c_command pc); [congruence|discriminate]. }
  (* the suggestion volume *)
  unfold mutate_suggestion_volume. unfold experiment_exists in EX. rewrite EX. cbn [negb].
  unfold suggestion_exists in SX. destruct (find_suggestion W (t_ns t) (experiment_name (w_consts W) t)) as [s|]; [|discriminate].
  rewrite PI2.
  destruct (seqb (checkpoint_path _ _) "").
  - apply (Fin _ _ c1); [reflexivity| |assumption].
    rewrite nth_error_app1; [assumption|]. apply nth_error_Some. congruence.
  - eapply Fin.
    + rewrite update_nth_mapi. apply names_mapi_from. intros j c. destruct (Nat.eqb j pidx); reflexivity.
    + rewrite update_nth_mapi. unfold mapi. rewrite nth_error_mapi_from, nth_error_app1 by (apply nth_error_Some; congruence).
      rewrite Nc1. cbn [option_map Nat.add]. rewrite Nat.eqb_refl. reflexivity.
    + rewrite container_command_add_mount. assumption.
Qed.

(* ================================================================== Handle *)
Lemma handle_not_katib W ns fuel p :
  (forall job, ~ descends (w_consts W) (w_objects W) ns (p_kind p) (p_name p) (p_owners p) job) ->
  walk_pod W ns fuel p <> OutOfFuel -> handle W ns fuel p = Unchanged.
Proof.
  intros Hn Nf. unfold handle, mutation_required. destruct (walk_pod W ns fuel p) as [k n|e|] eqn:Wk.
  - apply walk_sound in Wk as [D _]. now elim (Hn n).
  - reflexivity.
  - now elim Nf.
Qed.

Lemma handle_katib W ns fuel p k job t :
  walk_pod W ns fuel p = Found k job -> find_trial W ns job = Some t ->
  handle W ns fuel p = match mutate_with W t p with Ok p' => Patched p' | Err e => Rejected 2 e | Crash s => Panicked s end.
Proof. intros Wk Ft. unfold handle, mutation_required, mutate. rewrite Wk, Ft. reflexivity. Qed.

Lemma handle_no_trial W ns fuel p k job :
  walk_pod W ns fuel p = Found k job -> find_trial W ns job = None -> handle W ns fuel p = Rejected 1 1.
Proof. intros Wk Ft. unfold handle, mutation_required. rewrite Wk, Ft. reflexivity. Qed.

(* non-primary pods and pods of Push-collector Trials: labels and KATIB_TRIAL_NAME only (repaired F5: never rejected) *)
Lemma labels_only W t p :
  is_primary_pod (p_labels p) (t_primary_pod_labels t) = false \/ t_kind t = KPush ->
  mutate_with W t p =
  Ok (set_pod p (mutate_labels (w_consts W) (p_labels p) t)
              (match primary_index (p_containers p) (t_primary_container t) with
               | Some i => update_nth i (add_env (trial_env (w_consts W))) (p_containers p)
               | None => p_containers p
               end) (p_volumes p) (p_share p)).
Proof.
  unfold mutate_with, mutate_pod_env. intros [H|H].
  - rewrite H. cbn [negb]. destruct (primary_index _ _); reflexivity.
  - rewrite H. destruct (negb _); destruct (primary_index _ _); reflexivity.
Qed.

(* ================================================================== the collector container *)
Lemma collector_args_spec W t cfg args :
  collector_args W t cfg = Ok args ->
  exists mp isf, get_mount_path (w_consts W) t = Ok (mp, isf) /\ args = expected_args W t cfg mp (es_endpoint W t).
Proof.
  unfold collector_args, expected_args, es_endpoint.
  destruct (get_mount_path (w_consts W) t) as [[mp isf]| |]; try discriminate.
  intro H. exists mp, isf. split; [reflexivity|].
  destruct (t_rules t) as [|r rs].
  - injection H as <-. rewrite ?app_nil_r, <- ?app_assoc. reflexivity.
  - destruct (find_suggestion W (t_ns t) (experiment_name (w_consts W) t)); [|discriminate].
    injection H as <-. rewrite <- ?app_assoc. reflexivity.
Qed.

Lemma collector_base_spec W t p col :
  collector_container W t p = Ok col -> expected_collector_base W t p = Some col.
Proof.
  unfold collector_container, expected_collector_base.
  assert (B : builtin_collector W t p = Ok col ->
              match w_config W, get_mount_path (w_consts W) t with
              | Cfg l, Ok (mp, _) =>
                  match find_mc_config l (t_kind_text t) with
                  | Some cfg =>
                      Some (Ctr (sidecar_name (w_consts W) (t_kind t)) (mc_image cfg) []
                                (expected_args W t cfg mp (es_endpoint W t)) [] []
                                (mc_pull cfg) (mc_resources cfg)
                                (if w_inject_secctx W then match p_containers p with c :: _ => c_secctx c | [] => 0 end else 0) 0)
                  | None => None
                  end
              | _, _ => None
              end = Some col).
  { unfold builtin_collector, collector_config. destruct (w_config W) as [| | |l]; try discriminate.
    destruct (find_mc_config l (t_kind_text t)) as [cfg|]; [|discriminate].
    destruct (mc_image_blank cfg); [discriminate|].
    destruct (collector_args W t cfg) as [args| |] eqn:A; try discriminate.
    apply collector_args_spec in A as (mp&isf&MP&->). rewrite MP. intros [= <-]. reflexivity. }
  destruct (t_kind t); auto. destruct (t_custom t); [intros [= <-]; reflexivity|discriminate].
Qed.

(* ================================================================== consequences of the shape *)
(* what is kept of every original container *)
Lemma expected_container_keeps W t col mp isf pidx argv j c :
  let c' := expected_container W t col mp isf pidx argv j c in
  c_name c' = c_name c /\ c_image c' = c_image c /\ c_pull c' = c_pull c /\ c_resources c' = c_resources c /\
  c_secctx c' = c_secctx c /\ c_rest c' = c_rest c /\
  c_env c' = c_env c ++ (if Nat.eqb j pidx then [trial_env (w_consts W)] else []) /\
  c_mounts c' = c_mounts c ++
                (if Nat.eqb j pidx && negb (seqb (sugg_checkpoint W t) "") then [sugg_mount W t] else []) ++
                (if negb (seqb mp "") && (seqb (c_name c) col || seqb (c_name c) (t_primary_container t))
                 then [metrics_mount W mp isf] else []) /\
  (Nat.eqb j pidx && need_wrap (t_kind t) = false -> c_command c' = c_command c /\ c_args c' = c_args c).
Proof.
  unfold expected_container.
  destruct (Nat.eqb j pidx), (negb (seqb (sugg_checkpoint W t) "")), (need_wrap (t_kind t)),
    (negb (seqb mp "") && (seqb (c_name c) col || seqb (c_name c) (t_primary_container t)));
    cbn; rewrite ?app_nil_r, <- ?app_assoc; repeat split; auto; discriminate.
Qed.

(* the shell wrapper: sh -c (or the container's own sh|bash -c) and ONE argument that starts with the original words *)
Lemma split_shell_spec argv :
  (fst (split_shell argv) = ["sh"; "-c"] /\ snd (split_shell argv) = argv) \/
  (exists a0 rest, argv = a0 :: "-c" :: rest /\ (a0 = "sh" \/ a0 = "bash") /\
                   fst (split_shell argv) = [a0; "-c"] /\ snd (split_shell argv) = rest).
Proof.
  unfold split_shell. destruct argv as [|a0 [|a1 rest]]; auto.
  destruct (is_shell a0 && seqb a1 "-c") eqn:E; auto. right.
  apply andb_true_iff in E as [E1 E2]. apply seqb_eq in E2. subst a1. exists a0, rest.
  unfold is_shell in E1. apply orb_true_iff in E1 as [E1|E1]; apply seqb_eq in E1; auto.
Qed.

Lemma wrapped_spec W t mp isf argv c :
  let c' := wrapped W t mp isf argv c in
  c_command c' = fst (split_shell argv) /\
  exists s, c_args c' = [s] /\ s = String.concat " " (snd (split_shell argv) ++ wrap_tail W t mp isf) /\
            String.prefix (String.concat " " (snd (split_shell argv))) s = true.
Proof.
  cbn. split; [reflexivity|]. eexists. split; [reflexivity|]. split; [reflexivity|]. apply concat_app_prefix.
Qed.

(* with distinct container names, the metrics volume is mounted in the primary container and in the collector only *)
Lemma metrics_mount_exact (cs : list container) col prim pidx pc :
  NoDup (map c_name cs ++ [col]) -> nth_error cs pidx = Some pc -> c_name pc = prim ->
  forall j c, nth_error cs j = Some c -> (seqb (c_name c) col || seqb (c_name c) prim = true <-> j = pidx).
Proof.
  intros N Np Hp j c Nj.
  assert (Nc : c_name c <> col).
  { intro E. apply NoDup_remove_2 in N. rewrite app_nil_r in N. apply N. rewrite <- E.
    apply in_map. eapply nth_error_In; eauto. }
  apply NoDup_remove_1 in N. rewrite app_nil_r in N.
  apply seqb_neq in Nc. rewrite Nc. cbn [orb]. rewrite seqb_eq. split.
  - intro E. apply (proj1 (NoDup_nth_error (map c_name cs)) N).
    + rewrite map_length. apply nth_error_Some. congruence.
    + rewrite !nth_error_map, Nj, Np. cbn. congruence.
  - intros ->. congruence.
Qed.

(* ================================================================== the two classes, at the level of Handle *)
Lemma labels_only_handle W ns fuel p k job t :
  walk_pod W ns fuel p = Found k job -> find_trial W ns job = Some t ->
  is_primary_pod (p_labels p) (t_primary_pod_labels t) = false \/ t_kind t = KPush ->
  exists p', handle W ns fuel p = Patched p' /\
    p_containers p' = match primary_index (p_containers p) (t_primary_container t) with
                      | Some i => update_nth i (add_env (trial_env (w_consts W))) (p_containers p)
                      | None => p_containers p
                      end /\
    p_volumes p' = p_volumes p /\ p_share p' = p_share p /\
    p_kind p' = p_kind p /\ p_name p' = p_name p /\ p_owners p' = p_owners p /\ p_rest p' = p_rest p /\
    forall key, lookup_label key (p_labels p') = expected_label (w_consts W) t (p_labels p) key.
Proof.
  intros Wk Ft C. rewrite (handle_katib _ _ _ _ _ _ _ Wk Ft), (labels_only W t p C).
  eexists. split; [reflexivity|]. cbn. repeat split; auto. intro key. apply mutate_labels_spec.
Qed.

Lemma primary_handle W ns fuel p k job t p' :
  walk_pod W ns fuel p = Found k job -> find_trial W ns job = Some t ->
  is_primary_pod (p_labels p) (t_primary_pod_labels t) = true -> t_kind t <> KPush ->
  handle W ns fuel p = Patched p' ->
  exists pidx pc col mp isf argv,
    primary_index (p_containers p) (t_primary_container t) = Some pidx /\
    nth_error (p_containers p) pidx = Some pc /\
    collector_container W t p = Ok col /\
    get_mount_path (w_consts W) t = Ok (mp, isf) /\
    (need_wrap (t_kind t) = true -> container_command W pc = Ok argv /\ argv <> []) /\
    p_containers p' = mapi (expected_container W t (c_name col) mp isf pidx argv) (p_containers p)
                      ++ [expected_collector W mp isf col] /\
    p_volumes p' = expected_volumes W t mp (p_volumes p) /\
    p_share p' = Some true /\
    p_kind p' = p_kind p /\ p_name p' = p_name p /\ p_owners p' = p_owners p /\ p_rest p' = p_rest p /\
    forall key, lookup_label key (p_labels p') = expected_label (w_consts W) t (p_labels p) key.
Proof.
  intros Wk Ft Pp Np H. rewrite (handle_katib _ _ _ _ _ _ _ Wk Ft) in H.
  destruct (mutate_with W t p) as [q| |] eqn:M; try discriminate. injection H as ->.
  destruct (primary_shape W t p p' M Pp Np) as (pidx&pc&col&mp&isf&argv&PI&Npc&CC&MP&Ha&->).
  exists pidx, pc, col, mp, isf, argv. cbn. repeat split; auto; try apply Ha; auto. intro key. apply mutate_labels_spec.
Qed.

Lemma primary_admitted_handle W ns fuel p k job t pidx pc :
  walk_pod W ns fuel p = Found k job -> find_trial W ns job = Some t ->
  is_primary_pod (p_labels p) (t_primary_pod_labels t) = true -> t_kind t <> KPush ->
  primary_index (p_containers p) (t_primary_container t) = Some pidx ->
  nth_error (p_containers p) pidx = Some pc ->
  (need_wrap (t_kind t) = true -> c_command pc <> []) ->
  collector_ready W t = true -> experiment_exists W t = true -> suggestion_exists W t = true ->
  exists p', handle W ns fuel p = Patched p'.
Proof.
  intros Wk Ft Pp Np PI Npc Hc CR EX SX. rewrite (handle_katib _ _ _ _ _ _ _ Wk Ft).
  destruct (primary_admitted W t p pidx pc Pp Np PI Npc Hc CR EX SX) as (p'&->). eauto.
Qed.
