(* Preservation of the invariant by every write. *)
From KV Require Import Base.Prelude Base.Cond Model.World Proofs.WorldPlan Proofs.WorldInv Proofs.WorldInv2.
Open Scope Z_scope.

Definition core_eq (w w' : world) : Prop :=
  w_cfg w' = w_cfg w /\ w_exp w' = w_exp w /\ w_sug w' = w_sug w /\ w_trials w' = w_trials w /\
  c_exp w' = c_exp w /\ c_sug w' = c_sug w /\ c_trials w' = c_trials w /\ g_maxreq w' = g_maxreq w.

Lemma InvS_frame w w' : core_eq w w' -> InvS w -> InvS w'.
Proof.
  intros (E1&E2&E3&E4&E5&E6&E7&E8) [A B C D F G H I J].
  constructor; unfold status_ok in *; rewrite ?E1, ?E2, ?E3, ?E4, ?E5, ?E6, ?E7, ?E8; assumption.
Qed.

Lemma evolves_core w w' : core_eq w w' -> evolves w w'.
Proof.
  intros (E1&E2&E3&E4&E5&E6&E7&E8). constructor; rewrite ?E1, ?E2, ?E3, ?E4, ?E8; auto using tlag_refl; try lia.
  - intros e H. exists e. auto using ele_refl.
  - intros e H. exists e. auto using ele_refl.
  - intros s H. exists s. auto using sle_refl.
Qed.

Lemma write_ok_frame w w' x : core_eq w w' -> write_ok w x -> write_ok w' x.
Proof. intro E. apply write_ok_mono. now apply evolves_core. Qed.

Definition side_eq (w w' : world) : Prop :=
  w_cfg w' = w_cfg w /\ c_exp w' = c_exp w /\ c_sug w' = c_sug w /\ c_trials w' = c_trials w /\
  p_exp w' = p_exp w /\ p_sug w' = p_sug w /\ p_trial w' = p_trial w.

(* ------------------------------------------------------------------ experiment object updates *)

Lemma exp_update_inv w e e' :
  InvS w -> w_exp w = Some e ->
  e_max e' = e_max e -> e_deleting e' = false -> e_rv e' = S (e_rv e) -> status_ok w (e_st e') ->
  InvS (set_exp w (Some e')) /\ evolves w (set_exp w (Some e')).
Proof.
  intros [A B C D F G H I J] He M Dl R NN.
  assert (L : ele e e') by (repeat split; [lia|lia|rewrite M; apply max_le_refl]).
  split.
  - constructor; cbn; auto.
    + destruct B as (e0&ce&He0&Hce&L0&D0&D1&N0&N1). rewrite He in He0. inversion He0; subst e0.
      exists e', ce. split; [reflexivity|]. split; [exact Hce|]. split; [eapply ele_trans; eauto|]. auto.
    + destruct I as (I1&I2&I3). repeat split; auto. intros e1 m [= <-] Hm. rewrite M in Hm. eauto.
  - constructor; cbn; auto using tlag_refl; try lia.
    + intros e1 [= <-]. eauto.
    + intros e1 He1. rewrite He in He1. inversion He1; subst e1. eauto.
    + intros s Hs. exists s. auto using sle_refl.
Qed.

(* ------------------------------------------------------------------ suggestion object updates *)

Lemma sug_update_inv w s' g' :
  InvS w ->
  (match w_sug w with Some s => sle s s' | None => ss_names (s_st s') = [] end) ->
  swf s' -> ss_count (s_st s') <= g' -> s_requests s' <= g' -> g_maxreq w <= g' ->
  g' <= completed_n (w_trials w) + c_par (w_cfg w) ->
  (forall e m, w_exp w = Some e -> e_max e = Some m -> g' <= m) ->
  let w1 := set_ghost (set_sug w (Some s')) g' (g_rpcs w) (g_jobcreates w) (g_jobdeletes w) (g_dbdeletes w) (g_finreleased w) (g_writes w) in
  InvS w1 /\ evolves w w1.
Proof.
  intros [A B C D F G H I J] L W Cn Rq Gm Gb Gx w1.
  split.
  - constructor; cbn; auto.
    + destruct (w_sug w) as [s|] eqn:Es.
      * destruct H as (W0&C0&R0&In0&Hc). split; [exact W|]. split; [exact Cn|]. split; [exact Rq|]. split.
        -- destruct L as (_&_&l&N). rewrite N. intros x Hx. apply in_or_app. left. auto.
        -- destruct (c_sug w) as [cs|]; [|exact Logic.I]. destruct Hc as (L1&W1&C1&R1).
           split; [eapply sle_trans; eauto|]. split; [exact W1|]. split; lia.
      * destruct H as (Hc&Ht). rewrite Hc, Ht. repeat split; auto. intros x [].
    + destruct I as (I1&I2&I3). repeat split; auto. lia.
  - constructor; cbn; auto using tlag_refl.
    + intros e He. exists e. auto using ele_refl.
    + intros e He. exists e. auto using ele_refl.
    + intros s Hs. rewrite Hs in L. eauto.
Qed.

(* ------------------------------------------------------------------ trial updates *)

Lemma upd_trial_map n f ts : upd_trial n f ts = map (fun t => if Nat.eqb (t_name t) n then f t else t) ts.
Proof. reflexivity. Qed.

Lemma trial_update_inv w n f t :
  InvS w -> find_trial n (w_trials w) = Some t ->
  (forall x, t_name (f x) = t_name x) -> (forall x, t_deleting (f x) = t_deleting x) ->
  tle t (f t) -> tgood (f t) ->
  let w1 := set_trials w (upd_trial n f (w_trials w)) in
  InvS w1 /\ evolves w w1.
Proof.
  intros [A B C D F G H I J] Ft Fn Fd L TG w1.
  assert (P : forall x, In x (w_trials w) -> tle x (if Nat.eqb (t_name x) n then f x else x)).
  { intros x Ix. destruct (Nat.eqb (t_name x) n) eqn:E; [|apply tle_refl].
    apply Nat.eqb_eq in E. rewrite (find_trial_in n _ x C Ix E) in Ft. inversion Ft; subst. exact L. }
  assert (TL : tlag (w_trials w) (upd_trial n f (w_trials w))).
  { rewrite upd_trial_map. clear -P. induction (w_trials w) as [|a l IH]; cbn; constructor.
    - apply P. now left.
    - apply IH. intros x Ix. apply P. now right. }
  split.
  - constructor; cbn; auto.
    + destruct B as (e0&ce&He0&Hce&L0&D0&D1&(N0&N0')&(N1&N1')). exists e0, ce. unfold status_ok. cbn. rewrite upd_trial_length.
      split; [exact He0|]. split; [exact Hce|]. split; [exact L0|]. split; [exact D0|]. split; [exact D1|]. split; split; assumption.
    + now rewrite upd_trial_names.
    + rewrite upd_trial_map. apply Forall_forall. intros x Hx. apply in_map_iff in Hx as (y&<-&Iy).
      rewrite Forall_forall in D. destruct (Nat.eqb (t_name y) n); [rewrite Fd|]; auto.
    + eapply tlag_trans; eauto.
    + destruct (w_sug w) as [s|].
      * rewrite upd_trial_names by assumption. exact H.
      * destruct H as (_&Ht). rewrite Ht in Ft. discriminate.
    + destruct I as (I1&I2&I3). repeat split; auto. pose proof (tlag_completed _ _ TL). lia.
    + rewrite upd_trial_map. apply Forall_forall. intros x Hx. apply in_map_iff in Hx as (y&<-&Iy).
      rewrite Forall_forall in J. destruct (Nat.eqb (t_name y) n) eqn:E; [|auto].
      apply Nat.eqb_eq in E. rewrite (find_trial_in n _ y C Iy E) in Ft. inversion Ft; subst. exact TG.
  - constructor; cbn; auto; try lia.
    + intros e He. exists e. auto using ele_refl.
    + intros e He. exists e. auto using ele_refl.
    + intros s Hs. exists s. auto using sle_refl.
Qed.

Lemma new_trial_not_completed n : t_completed (new_trial n) = false.
Proof. reflexivity. Qed.

Lemma trial_create_inv w n s :
  InvS w -> w_sug w = Some s -> In n (ss_names (s_st s)) -> find_trial n (w_trials w) = None ->
  let w1 := set_trials w (w_trials w ++ [new_trial n]) in
  InvS w1 /\ evolves w w1.
Proof.
  intros [A B C D F G H I J] Hs In Fn w1. split.
  - constructor; cbn; auto.
    + destruct B as (e0&ce&He0&Hce&L0&D0&D1&(N0&N0')&(N1&N1')). exists e0, ce. unfold status_ok. cbn. rewrite app_length. cbn.
      split; [exact He0|]. split; [exact Hce|]. split; [exact L0|]. split; [exact D0|]. split; [exact D1|]. split; split; (assumption || lia).
    + unfold names. rewrite map_app. cbn. apply NoDup_snoc; [exact C|]. now apply find_trial_none.
    + apply Forall_app. split; [exact D|]. repeat constructor.
    + now apply tlag_app.
    + rewrite Hs in *. destruct H as (W0&C0&R0&In0&Hc). repeat split; auto.
      unfold names. rewrite map_app. cbn. intros x Hx. apply in_app_or in Hx as [Hx|[<-|[]]]; auto.
    + destruct I as (I1&I2&I3). repeat split; auto. rewrite completed_app. unfold completed_n at 2. cbn. lia.
    + apply Forall_app. split; [exact J|]. constructor; [|constructor]. unfold tgood, good_conds. cbn. split; discriminate.
  - constructor; cbn; auto; try lia.
    + intros e He. exists e. auto using ele_refl.
    + intros e He. exists e. auto using ele_refl.
    + intros s0 Hs0. exists s0. auto using sle_refl.
    + apply tlag_app, tlag_refl.
Qed.
