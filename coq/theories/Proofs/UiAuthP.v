(* C20: lemmas about the skeleton semantics of Model/UiAuth.v.
   Main results: [check_sound] (a checked skeleton only produces safe traces, for every request, RBAC oracle,
   API answers and data-dependent choices) and [safeb_safe] (the boolean monitor implies the declarative [safe]). *)
From KV Require Import Base.Prelude Model.UiAuth.
Open Scope string_scope.
Open Scope list_scope.

(* ------------------------------------------------------------------ a nested induction principle *)

Definition leaf (i : instr) : bool :=
  match i with
  | IfErr _ | IfOk _ | ForEachName _ _ _ | ForEachObj _ _ _ | IfNsEq _ _ _ _ | Alt _ _ | Repeat _ => false
  | _ => true
  end.

Section InstrInd.
  Variables (P : instr -> Prop) (Q : list instr -> Prop).
  Hypothesis Qnil : Q [].
  Hypothesis Qcons : forall i l, P i -> Q l -> Q (i :: l).
  Hypothesis Hleaf : forall i, leaf i = true -> P i.
  Hypothesis HIfErr : forall b, Q b -> P (IfErr b).
  Hypothesis HIfOk : forall b, Q b -> P (IfOk b).
  Hypothesis HName : forall v src b, Q b -> P (ForEachName v src b).
  Hypothesis HObj : forall v src b, Q b -> P (ForEachObj v src b).
  Hypothesis HNsEq : forall e c a b, Q a -> Q b -> P (IfNsEq e c a b).
  Hypothesis HAlt : forall a b, Q a -> Q b -> P (Alt a b).
  Hypothesis HRepeat : forall b, Q b -> P (Repeat b).

  Fixpoint instr_ind2 (i : instr) : P i :=
    let fix go (l : list instr) : Q l :=
      match l with [] => Qnil | a :: r => Qcons a r (instr_ind2 a) (go r) end in
    match i as i0 return P i0 with
    | IfErr b => HIfErr b (go b)
    | IfOk b => HIfOk b (go b)
    | ForEachName v src b => HName v src b (go b)
    | ForEachObj v src b => HObj v src b (go b)
    | IfNsEq e c a b => HNsEq e c a b (go a) (go b)
    | Alt a b => HAlt a b (go a) (go b)
    | Repeat b => HRepeat b (go b)
    | x => Hleaf x eq_refl
    end.

  Lemma instrs_ind2 (l : list instr) : Q l.
  Proof. induction l; [exact Qnil|apply Qcons; [apply instr_ind2|assumption]]. Qed.
End InstrInd.

(* ------------------------------------------------------------------ covering *)

Fixpoint auths (evs : list event) : list string :=
  match evs with
  | [] => []
  | EAuth _ _ _ n true :: r => n :: auths r
  | _ :: r => auths r
  end.

Definition covl (A : list string) (n : string) : bool := existsb (fun a => covers a n) A.
Definition cov (evs : list event) (n : string) : bool := covl (auths evs) n.

Lemma covers_refl n : covers n n = true.
Proof. unfold covers. now rewrite String.eqb_refl. Qed.

Lemma covers_empty a x : covers a "" = true -> covers a x = true.
Proof.
  unfold covers. rewrite !orb_true_iff. intros [H|H]; apply String.eqb_eq in H; subst; right; reflexivity.
Qed.

Lemma covl_all A x : covl A "" = true -> covl A x = true.
Proof.
  unfold covl. rewrite !existsb_exists. intros (a & I & C). exists a. split; [assumption|now apply covers_empty].
Qed.

Lemma covl_incl A B n : incl A B -> covl A n = true -> covl B n = true.
Proof. unfold covl. rewrite !existsb_exists. intros H (a & I & C). exists a. auto. Qed.

Lemma auths_app l evs : incl (auths evs) (auths (l ++ evs)).
Proof.
  induction l as [|e l IH]; simpl; [apply incl_refl|].
  destruct e as [u v r n [|]|o k n]; [apply incl_tl; exact IH|exact IH|exact IH].
Qed.

Definition ext (old new : list event) : Prop := exists l, new = l ++ old.

Lemma ext_refl evs : ext evs evs.
Proof. now exists []. Qed.

Lemma ext_trans a b c : ext a b -> ext b c -> ext a c.
Proof. intros [l1 ->] [l2 ->]. exists (l2 ++ l1). now rewrite app_assoc. Qed.

Lemma ext_cons e evs : ext evs (e :: evs).
Proof. now exists [e]. Qed.

Lemma cov_ext old new n : ext old new -> cov old n = true -> cov new n = true.
Proof. intros [l ->]. apply covl_incl, auths_app. Qed.

(* allowing reviews with their verb and resource (for the write clause) *)
Fixpoint wauths (evs : list event) : list (string * string * string) :=
  match evs with
  | [] => []
  | EAuth _ v r n true :: rest => (v, r, n) :: wauths rest
  | _ :: rest => wauths rest
  end.

Definition wcov (evs : list event) (v r n : string) : bool := wcovl (wauths evs) v r n.

Lemma wcovl_incl A B v r n : incl A B -> wcovl A v r n = true -> wcovl B v r n = true.
Proof. unfold wcovl. rewrite !existsb_exists. intros H (a & I & C). exists a. auto. Qed.

Lemma wauths_app l evs : incl (wauths evs) (wauths (l ++ evs)).
Proof.
  induction l as [|e l IH]; simpl; [apply incl_refl|].
  destruct e as [u v r n [|]|o k n]; [apply incl_tl; exact IH|exact IH|exact IH].
Qed.

Lemma wcov_ext old new v r n : ext old new -> wcov old v r n = true -> wcov new v r n = true.
Proof. intros [l ->]. apply wcovl_incl, wauths_app. Qed.

Lemma wcov_cov evs v r n : wcov evs v r n = true -> cov evs n = true.
Proof.
  unfold wcov, cov. induction evs as [|e evs IH]; simpl; [discriminate|].
  destruct e as [u v' r' a [|]|o k a]; simpl; auto.
  rewrite !orb_true_iff. intros [H|H]; [left|right; auto].
  apply andb_true_iff in H. tauto.
Qed.

(* ------------------------------------------------------------------ small facts on stores *)

Lemma nassoc_nset_same {A} k (x : A) l : nassoc k (nset k x l) = Some x.
Proof. unfold nset. simpl. now rewrite Nat.eqb_refl. Qed.

Lemma nassoc_filter_other {A} k j (l : list (nat * A)) :
  j <> k -> nassoc j (filter (fun p => negb (Nat.eqb (fst p) k)) l) = nassoc j l.
Proof.
  intro N. induction l as [|[a b] l IH]; simpl; [reflexivity|].
  destruct (Nat.eqb a k) eqn:E; simpl.
  - apply Nat.eqb_eq in E. subst. destruct (Nat.eqb k j) eqn:E2; [apply Nat.eqb_eq in E2; congruence|exact IH].
  - destruct (Nat.eqb a j); [reflexivity|exact IH].
Qed.

Lemma nassoc_nset_other {A} k j (x : A) l : j <> k -> nassoc j (nset k x l) = nassoc j l.
Proof.
  intro N. unfold nset. simpl. destruct (Nat.eqb k j) eqn:E; [apply Nat.eqb_eq in E; congruence|].
  now apply nassoc_filter_other.
Qed.

Lemma nget_nset k j x l : nget j (nset k x l) = if Nat.eqb j k then x else nget j l.
Proof.
  unfold nget. destruct (Nat.eqb j k) eqn:E.
  - apply Nat.eqb_eq in E. subst. now rewrite nassoc_nset_same.
  - apply Nat.eqb_neq in E. now rewrite nassoc_nset_other.
Qed.

Definition store_ok (evs : list event) (o : list (nat * list string)) : Prop :=
  forall d l x, In (d, l) o -> In x l -> cov evs x = true.

Lemma nassoc_in {A} k (l : list (nat * A)) y : nassoc k l = Some y -> In (k, y) l.
Proof.
  induction l as [|[a b] l IH]; simpl; [discriminate|].
  destruct (Nat.eqb a k) eqn:E; [apply Nat.eqb_eq in E; intros [= <-]; subst; now left|intro H; right; auto].
Qed.

Lemma nget_ok evs o d x : store_ok evs o -> In x (nget d o) -> cov evs x = true.
Proof.
  unfold nget. intros H I. destruct (nassoc d o) eqn:E; [|destruct I].
  apply nassoc_in in E. eapply H; eauto.
Qed.

Lemma store_ok_ext old new o : ext old new -> store_ok old o -> store_ok new o.
Proof. intros E H d l x I J. eapply cov_ext; eauto. Qed.

Lemma store_ok_filter evs f o : store_ok evs o -> store_ok evs (filter f o).
Proof. intros H d l x I. apply filter_In in I. destruct I. eapply H; eauto. Qed.

Lemma store_ok_nset evs k l o :
  store_ok evs o -> (forall x, In x l -> cov evs x = true) -> store_ok evs (nset k l o).
Proof.
  intros H Hl d l' x [[= <- <-]|I] J; [auto|]. apply filter_In in I. destruct I. eapply H; eauto.
Qed.

Lemma store_ok_nil evs : store_ok evs [].
Proof. intros ? ? ? []. Qed.

(* ------------------------------------------------------------------ the invariant *)

Section Sound.
Variables (rq : req) (rb : rbac).

Definition hdr : bool := negb (String.eqb (r_header rq) "").

(* reversed event list: every review so far allowed, issued for the user of the (present) header;
   every access to namespaced data covered by an earlier allowing review *)
Fixpoint okr (evs : list event) : Prop :=
  match evs with
  | [] => True
  | EAuth u v r n b :: rest => u = eff_user rq /\ hdr = true /\ b = true /\ okr rest
  | EAcc o k n :: rest =>
      (namespaced k = true -> cov rest n = true) /\
      (namespaced k = true -> is_read o = false -> wcov rest (verb_of o) (plural_of k) n = true) /\ okr rest
  end.

Record base (s : st) : Prop := {
  b_ok : okr (s_evs s);
  b_objs : store_ok (s_evs s) (s_objs s);
  b_last : store_ok (s_evs s) (s_last s);
  b_body : forall x, In x (s_body s) -> cov (s_evs s) x = true }.

Definition ent_ok (evs : list event) (env : list (nat * string)) (a : aent) : Prop :=
  match fst a with
  | None => cov evs (eval rq env (snd a)) = true
  | Some (v, r) => wcov evs v r (eval rq env (snd a)) = true
  end.

Definition authd (A : list aent) (s : st) : Prop :=
  forall a, In a A -> ent_ok (s_evs s) (s_env s) a.

Lemma ent_ok_ext old new env a : ext old new -> ent_ok old env a -> ent_ok new env a.
Proof.
  unfold ent_ok. intros X. destruct (fst a) as [[v r]|]; [now apply wcov_ext|now apply cov_ext].
Qed.

Lemma ent_ok_cov evs env a : ent_ok evs env a -> cov evs (eval rq env (snd a)) = true.
Proof. unfold ent_ok. destruct (fst a) as [[v r]|]; [apply wcov_cov|auto]. Qed.

Definition stop_ok (c : nat) (s : st) : Prop :=
  okr (s_evs s) \/
  exists v r n evs', s_evs s = EAuth (eff_user rq) v r n false :: evs' /\ okr evs' /\ hdr = true /\ (c = 401 \/ c = 403).

Definition post (A' : list aent) (s : st) (r : res) : Prop :=
  match r with
  | Go s' => base s' /\ authd A' s' /\ s_env s' = s_env s /\ ext (s_evs s) (s_evs s')
  | Stop c s' => stop_ok c s'
  end.

Definition sound_i (i : instr) : Prop :=
  forall A A' s, chk A i = Some A' -> base s -> authd A s -> post A' s (exec rq rb i s).
Definition sound_l (l : list instr) : Prop :=
  forall A A' s, chks A l = Some A' -> base s -> authd A s -> post A' s (execs rq rb l s).

Lemma authd_frame A s s' : authd A s -> s_env s' = s_env s -> ext (s_evs s) (s_evs s') -> authd A s'.
Proof. intros H E X e I. rewrite E. eapply ent_ok_ext; eauto. Qed.

Lemma authd_incl A B s : incl B A -> authd A s -> authd B s.
Proof. intros H K e I. apply K, H, I. Qed.

Lemma drop_var_incl v A : incl (drop_var v A) A.
Proof. intros e I. apply filter_In in I. tauto. Qed.

Lemma eval_drop_var v x env A a : In a (drop_var v A) -> eval rq (nset v x env) (snd a) = eval rq env (snd a).
Proof.
  intro I. apply filter_In in I. destruct I as [_ H]. destruct (snd a) as [| | |w|]; try reflexivity.
  apply negb_true_iff, Nat.eqb_neq in H. cbn [eval]. rewrite nassoc_nset_other; [reflexivity|congruence].
Qed.

Lemma nsexpr_eqb_eq a b : nsexpr_eqb a b = true -> a = b.
Proof.
  destruct a, b; simpl; try discriminate; intro H;
    try (apply String.eqb_eq in H; congruence); apply Nat.eqb_eq in H; congruence.
Qed.

Lemma ent_ok_drop_var v x env evs A a : In a (drop_var v A) -> ent_ok evs env a -> ent_ok evs (nset v x env) a.
Proof. intros I. unfold ent_ok. now rewrite (eval_drop_var v x env A a I). Qed.

Lemma rmem_in e A : rmem e A = true -> exists m, In (m, e) A.
Proof.
  unfold rmem. rewrite existsb_exists. intros ([m x] & I & E). apply nsexpr_eqb_eq in E. simpl in E. subst. eauto.
Qed.

Lemma wmem_in v r e A : wmem v r e A = true -> In (Some (v, r), e) A.
Proof.
  unfold wmem. rewrite existsb_exists. intros ([[[v' r']|] x] & I & E); simpl in E; [|discriminate].
  apply andb_true_iff in E. destruct E as [E1 E2]. apply andb_true_iff in E1. destruct E1 as [Ev Er].
  apply String.eqb_eq in Ev, Er. apply nsexpr_eqb_eq in E2. now subst.
Qed.

(* states differing only in bookkeeping fields *)
Lemma base_same s s' :
  s_evs s' = s_evs s -> s_objs s' = s_objs s -> s_last s' = s_last s -> s_body s' = s_body s -> base s -> base s'.
Proof. intros E1 E2 E3 E4 [H1 H2 H3 H4]. constructor; rewrite ?E1, ?E2, ?E3, ?E4; assumption. Qed.

Lemma post_go_same A s s' :
  s_evs s' = s_evs s -> s_objs s' = s_objs s -> s_last s' = s_last s -> s_body s' = s_body s -> s_env s' = s_env s ->
  base s -> authd A s -> post A s (Go s').
Proof.
  intros E1 E2 E3 E4 E5 B H. simpl. split; [|split; [|split]].
  - eapply base_same; eauto.
  - intros e I. rewrite E1, E5. now apply H.
  - exact E5.
  - rewrite E1. apply ext_refl.
Qed.

Lemma post_stop_same c s s' : s_evs s' = s_evs s -> base s -> stop_ok c s'.
Proof. intros E B. left. rewrite E. apply B. Qed.

Lemma pop_api_same s : let '(a, s') := pop_api s in
  s_evs s' = s_evs s /\ s_objs s' = s_objs s /\ s_last s' = s_last s /\ s_body s' = s_body s /\ s_env s' = s_env s.
Proof. unfold pop_api. destruct (s_apis s); simpl; auto 10. Qed.

Lemma pop_ch_same s : let '(a, s') := pop_ch s in
  s_evs s' = s_evs s /\ s_objs s' = s_objs s /\ s_last s' = s_last s /\ s_body s' = s_body s /\ s_env s' = s_env s.
Proof. unfold pop_ch. destruct (s_ch s); simpl; auto 10. Qed.

Lemma post_go_intro A' s s' :
  base s' -> authd A' s' -> s_env s' = s_env s -> ext (s_evs s) (s_evs s') -> post A' s (Go s').
Proof. simpl. auto. Qed.

(* sequencing *)
Lemma post_trans A1 A2 s s1 r :
  base s1 -> authd A1 s1 -> s_env s1 = s_env s -> ext (s_evs s) (s_evs s1) -> post A2 s1 r -> post A2 s r.
Proof.
  intros B H E X P. destruct r as [s2|c s2]; simpl in *; [|exact P].
  destruct P as (B2 & H2 & E2 & X2). split; [|split; [|split]]; auto; [congruence|eapply ext_trans; eauto].
Qed.

Lemma sound_nil : sound_l [].
Proof.
  intros A A' s [= <-] B H. simpl. split; [|split; [|split]]; auto. apply ext_refl.
Qed.

Lemma sound_cons i l : sound_i i -> sound_l l -> sound_l (i :: l).
Proof.
  intros Hi Hl A A' s C B H. simpl in C. destruct (chk A i) as [A1|] eqn:E; [|discriminate].
  specialize (Hi A A1 s E B H). simpl. destruct (exec rq rb i s) as [s1|c s1]; simpl in Hi; [|exact Hi].
  destruct Hi as (B1 & H1 & E1 & X1). apply (post_trans A1 A' s s1); auto. apply (Hl A1 A' s1); auto.
Qed.

(* a body checked under A whose result set is discarded *)
Lemma body_post A A1 s b : sound_l b -> chks A b = Some A1 -> base s -> authd A s ->
  post A s (execs rq rb b s).
Proof.
  intros Hb C B H. specialize (Hb A A1 s C B H). destruct (execs rq rb b s) as [s1|c s1]; simpl in *; [|exact Hb].
  destruct Hb as (B1 & _ & E1 & X1). split; [|split; [|split]]; auto. eapply authd_frame; eauto.
Qed.

Definition okb (o : option (list aent)) : bool := match o with Some _ => true | None => false end.
Lemma okb_some o : okb o = true -> exists A1, o = Some A1.
Proof. destruct o; [eauto|discriminate]. Qed.

(* ------------------------------------------------------------------ leaves *)

Lemma eff_user_hdr : hdr = true -> eff_user rq = r_user rq.
Proof. unfold hdr, eff_user. destruct (String.eqb (r_header rq) ""); [discriminate|reflexivity]. Qed.

Lemma sound_auth v r e g : sound_i (Auth v r e g).
Proof.
  intros A A' s C B H.
  assert (G : g = GStd /\ A' = (Some (v, r), e) :: A).
  { simpl in C. destruct g; try discriminate. destruct e; try discriminate; injection C as <-; auto. }
  destruct G as [-> ->]. clear C. cbn [exec]. unfold do_auth.
  destruct (String.eqb (r_header rq) "") eqn:Eh.
  - left. apply B.
  - assert (Hh : hdr = true) by (unfold hdr; now rewrite Eh).
    destruct (rb (r_user rq) v r (eval rq (s_env s) e)) eqn:Eb.
    + simpl. split; [|split; [|split]].
      * constructor; simpl.
        -- repeat split; auto; [symmetry; now apply eff_user_hdr|apply B].
        -- eapply store_ok_ext; [apply ext_cons|apply B].
        -- eapply store_ok_ext; [apply ext_cons|apply B].
        -- intros x I. eapply cov_ext; [apply ext_cons|now apply B].
      * intros e' [<-|I].
        -- unfold ent_ok, wcov, wcovl. simpl. now rewrite !String.eqb_refl, covers_refl.
        -- eapply ent_ok_ext; [apply ext_cons|now apply H].
      * reflexivity.
      * apply ext_cons.
    + right. simpl. exists v, r, (eval rq (s_env s) e), (s_evs s). rewrite (eff_user_hdr Hh).
      repeat split; auto; [apply B|]. unfold deny_code. destruct (String.eqb (eff_user rq) ""); auto.
Qed.

Lemma sound_access o k e d : sound_i (Access o k e d).
Proof.
  intros A A' s C B H. simpl in C.
  destruct (negb (namespaced k) || (if is_read o then rmem e A else wmem (verb_of o) (plural_of k) e A)) eqn:E;
    [|discriminate]. injection C as <-.
  cbn [exec]. unfold do_access.
  pose proof (pop_api_same s) as P. destruct (pop_api s) as [a s0]. destruct P as (P1 & P2 & P3 & P4 & P5).
  set (n := eval rq (s_env s) e).
  assert (Hc : namespaced k = true -> cov (s_evs s) n = true).
  { intro Nk. rewrite Nk in E. simpl in E. destruct (is_read o).
    - apply rmem_in in E. destruct E as [m I]. apply (ent_ok_cov _ _ (m, e)). now apply H.
    - apply wmem_in in E. apply (ent_ok_cov _ _ (Some (verb_of o, plural_of k), e)). now apply H. }
  assert (Hw : namespaced k = true -> is_read o = false -> wcov (s_evs s) (verb_of o) (plural_of k) n = true).
  { intros Nk Ro. rewrite Nk, Ro in E. simpl in E. apply wmem_in in E. exact (H _ E). }
  assert (Hok : okr (EAcc o k n :: s_evs s0)).
  { simpl. rewrite P1. split; [assumption|split; [assumption|apply B]]. }
  assert (X : ext (s_evs s) (EAcc o k n :: s_evs s0)) by (rewrite P1; apply ext_cons).
  assert (S1 : store_ok (EAcc o k n :: s_evs s0) (s_objs s0)).
  { rewrite P2. eapply store_ok_ext; [exact X|apply B]. }
  assert (S2 : store_ok (EAcc o k n :: s_evs s0) (s_last s0)).
  { rewrite P3. eapply store_ok_ext; [exact X|apply B]. }
  assert (S3 : forall x, In x (s_body s0) -> cov (EAcc o k n :: s_evs s0) x = true).
  { rewrite P4. intros x I. eapply cov_ext; [exact X|now apply B]. }
  assert (HA : forall s', s_evs s' = EAcc o k n :: s_evs s0 -> s_env s' = s_env s0 -> authd A s').
  { intros s' E1 E2 e' I. rewrite E1, E2, P5. eapply ent_ok_ext; [exact X|now apply H]. }
  assert (Hnil : store_ok (EAcc o k n :: s_evs s0) (nset d [] (s_last s0))).
  { apply store_ok_nset; [exact S2|intros ? []]. }
  destruct a as [objs| |]; lazy iota beta zeta.
  - destruct (is_read o); [destruct (namespaced k) eqn:Nk|]; lazy iota beta zeta.
    + (* namespaced read: the returned objects are covered *)
      set (got := if String.eqb n "" then objs else map (fun _ : string => n) objs).
      assert (Hg : forall x, In x got -> cov (EAcc o k n :: s_evs s0) x = true).
      { intros x I. eapply cov_ext; [exact X|]. specialize (Hc eq_refl). subst got.
        destruct (String.eqb n "") eqn:En.
        - apply String.eqb_eq in En. rewrite En in Hc. now apply covl_all.
        - apply in_map_iff in I. destruct I as (_ & <- & _). exact Hc. }
      apply post_go_intro; [|apply HA; reflexivity|exact P5|exact X].
      constructor; simpl; auto.
      * fold n. fold got. apply store_ok_nset; [exact S1|]. intros x I. apply in_app_or in I. destruct I as [I|I]; [|now apply Hg].
        apply (nget_ok _ (s_objs s0) d); [exact S1|exact I].
      * now apply store_ok_nset.
    + apply post_go_intro; [|apply HA; reflexivity|exact P5|exact X]. constructor; simpl; auto.
    + apply post_go_intro; [|apply HA; reflexivity|exact P5|exact X]. constructor; simpl; auto.
  - apply post_go_intro; [|apply HA; reflexivity|exact P5|exact X]. constructor; simpl; auto.
  - apply post_go_intro; [|apply HA; reflexivity|exact P5|exact X]. constructor; simpl; auto.
Qed.

Lemma sound_leaf i : leaf i = true -> sound_i i.
Proof.
  destruct i; try discriminate; intros _; try apply sound_auth; try apply sound_access;
    intros A A' s C B H; try discriminate C; injection C as <-; cbn [exec].
  - destruct (smem p (map fst (r_params rq))); [apply post_go_same; auto|left; apply B].
  - destruct (smem p (map fst (r_params rq))); [apply post_go_same; auto|left; apply B].
  - destruct (smem k (r_keys rq)); [apply post_go_same; auto|left; apply B].
  - destruct (smem k (map fst (r_body rq))); [apply post_go_same; auto|left; apply B].
  - destruct (smem what (r_libfail rq)); [left; apply B|apply post_go_same; auto].
  - destruct (s_err s); [left; apply B|apply post_go_same; auto].
  - destruct (s_err s && negb (s_nf s)); [left; apply B|apply post_go_same; auto].
  - apply post_go_same; auto.
  - left; apply B.
  - destruct (s_err s); apply post_go_same; auto.
  - (* Respond *)
    simpl. split; [|split; [|split]]; auto; [|apply ext_refl].
    destruct B as [B1 B2 B3 B4]. constructor; simpl; auto.
    intros x I. apply in_app_or in I. destruct I as [I|I]; [now apply B4|].
    apply in_flat_map in I. destruct I as (d & _ & I). apply (nget_ok _ (s_objs s) d); assumption.
Qed.

(* ------------------------------------------------------------------ compound instructions *)

Definition iter_post (s0 : st) (r : res) : Prop :=
  match r with
  | Go s' => base s' /\ ext (s_evs s0) (s_evs s')
  | Stop c s' => stop_ok c s'
  end.

Lemma iter_list_post {X} (f : X -> st -> res) l s0 :
  (forall x s', In x l -> base s' -> ext (s_evs s0) (s_evs s') -> iter_post s' (f x s')) ->
  forall s', base s' -> ext (s_evs s0) (s_evs s') -> iter_post s0 (iter_list f l s').
Proof.
  induction l as [|a l IH]; intros Hf s' B X0; simpl; [auto|].
  pose proof (Hf a s' (or_introl eq_refl) B X0) as P.
  destruct (f a s') as [s1|c s1]; simpl in P; [|exact P].
  destruct P as [B1 X1]. apply IH; auto.
  - intros x s2 I. apply Hf. now right.
  - eapply ext_trans; eauto.
Qed.

Lemma iter_n_post (f : st -> res) n s0 :
  (forall s', base s' -> ext (s_evs s0) (s_evs s') -> iter_post s' (f s')) ->
  forall s', base s' -> ext (s_evs s0) (s_evs s') -> iter_post s0 (iter_n f n s').
Proof.
  intro Hf. induction n as [|n IH]; intros s' B X0; simpl; [auto|].
  pose proof (Hf s' B X0) as P.
  destruct (f s') as [s1|c s1]; simpl in P; [|exact P].
  destruct P as [B1 X1]. apply IH; auto. eapply ext_trans; eauto.
Qed.

(* running a checked body from a state reached later, with another environment that agrees on A0 *)
Lemma body_iter A0 A1 b s' env' :
  sound_l b -> chks A0 b = Some A1 -> base s' ->
  (forall a, In a A0 -> ent_ok (s_evs s') env' a) ->
  iter_post s' (execs rq rb b (set_env s' env')).
Proof.
  intros Hb C B H.
  assert (B' : base (set_env s' env')) by (apply (base_same s'); auto).
  specialize (Hb A0 A1 (set_env s' env') C B' H).
  destruct (execs rq rb b (set_env s' env')) as [s1|c s1]; simpl in *; [|exact Hb].
  destruct Hb as (B1 & _ & _ & X1). auto.
Qed.

Lemma set_env_same s : set_env s (s_env s) = s.
Proof. destruct s; reflexivity. Qed.

Lemma sound_IfErr b : sound_l b -> sound_i (IfErr b).
Proof.
  intros Hb A A' s C B H.
  change (chk A (IfErr b)) with (if okb (chks A b) then Some A else None) in C.
  destruct (okb (chks A b)) eqn:E; [|discriminate]. injection C as <-. apply okb_some in E. destruct E as [A1 E].
  change (exec rq rb (IfErr b) s) with (if s_err s then execs rq rb b s else Go s).
  destruct (s_err s); [eapply body_post; eauto|apply post_go_same; auto].
Qed.

Lemma sound_IfOk b : sound_l b -> sound_i (IfOk b).
Proof.
  intros Hb A A' s C B H.
  change (chk A (IfOk b)) with (if okb (chks A b) then Some A else None) in C.
  destruct (okb (chks A b)) eqn:E; [|discriminate]. injection C as <-. apply okb_some in E. destruct E as [A1 E].
  change (exec rq rb (IfOk b) s) with (if s_err s then Go s else execs rq rb b s).
  destruct (s_err s); [apply post_go_same; auto|eapply body_post; eauto].
Qed.

Lemma sound_IfNsEq e c a b : sound_l a -> sound_l b -> sound_i (IfNsEq e c a b).
Proof.
  intros Ha Hb A A' s C B H.
  change (chk A (IfNsEq e c a b)) with (if okb (chks A a) && okb (chks A b) then Some A else None) in C.
  destruct (okb (chks A a)) eqn:E1; [|discriminate]. destruct (okb (chks A b)) eqn:E2; [|discriminate].
  injection C as <-. apply okb_some in E1, E2. destruct E1 as [A1 E1], E2 as [A2 E2].
  change (exec rq rb (IfNsEq e c a b) s) with (if String.eqb (eval rq (s_env s) e) c then execs rq rb a s else execs rq rb b s).
  destruct (String.eqb (eval rq (s_env s) e) c); eapply body_post; eauto.
Qed.

Lemma sound_Alt a b : sound_l a -> sound_l b -> sound_i (Alt a b).
Proof.
  intros Ha Hb A A' s C B H.
  change (chk A (Alt a b)) with (if okb (chks A a) && okb (chks A b) then Some A else None) in C.
  destruct (okb (chks A a)) eqn:E1; [|discriminate]. destruct (okb (chks A b)) eqn:E2; [|discriminate].
  injection C as <-. apply okb_some in E1, E2. destruct E1 as [A1 E1], E2 as [A2 E2].
  change (exec rq rb (Alt a b) s) with (match pop_ch s with (O, s') => execs rq rb a s' | (_, s') => execs rq rb b s' end).
  pose proof (pop_ch_same s) as P. destruct (pop_ch s) as [k s0]. destruct P as (P1 & P2 & P3 & P4 & P5).
  assert (B0 : base s0) by (eapply base_same; eauto).
  assert (H0 : authd A s0) by (intros x I; rewrite P1, P5; now apply H).
  assert (X0 : ext (s_evs s) (s_evs s0)) by (rewrite P1; apply ext_refl).
  destruct k; (apply (post_trans A A s s0); auto); eapply body_post; eauto.
Qed.

Lemma iter_n_post2 A s (f : st -> res) n :
  (forall s', post A s (Go s') -> post A s (f s')) ->
  forall s', post A s (Go s') -> post A s (iter_n f n s').
Proof.
  intro Hf. induction n as [|n IH]; intros s' P; simpl; [exact P|].
  pose proof (Hf s' P) as P1. destruct (f s') as [s1|c s1]; [apply IH; exact P1|exact P1].
Qed.

Lemma sound_Repeat b : sound_l b -> sound_i (Repeat b).
Proof.
  intros Hb A A' s C B H.
  change (chk A (Repeat b)) with (if okb (chks A b) then Some A else None) in C.
  destruct (okb (chks A b)) eqn:E; [|discriminate]. injection C as <-. apply okb_some in E. destruct E as [A1 E].
  change (exec rq rb (Repeat b) s) with
    (match pop_ch s with
     | (k, s') => iter_n (fun s'' => execs rq rb b (set_objs s'' (clear_objs (flat_map dsts b) (s_objs s'')))) (S k) s'
     end).
  pose proof (pop_ch_same s) as P. destruct (pop_ch s) as [k s0]. destruct P as (P1 & P2 & P3 & P4 & P5).
  apply iter_n_post2.
  - intros s' (B1 & H1 & E1 & X1).
    set (t := set_objs s' (clear_objs (flat_map dsts b) (s_objs s'))).
    assert (Bt : base t).
    { destruct B1 as [Q1 Q2 Q3 Q4]. constructor; simpl; auto. now apply store_ok_filter. }
    assert (Ht : authd A t) by (intros e I; simpl; now apply H1).
    apply (post_trans A A s t); auto. eapply body_post; eauto.
  - apply post_go_same; auto.
Qed.

Lemma foreach_post v A s (f : string -> st -> res) l :
  base s -> authd A s ->
  (forall x s', In x l -> base s' -> ext (s_evs s) (s_evs s') -> iter_post s' (f x s')) ->
  post (drop_var v A) s
    (match iter_list f l s with Go s' => Go (set_env s' (s_env s)) | Stop c s' => Stop c s' end).
Proof.
  intros B H Hf.
  pose proof (iter_list_post f l s Hf s B (ext_refl _)) as P.
  destruct (iter_list f l s) as [s1|c s1]; simpl in P; [|exact P].
  destruct P as [B1 X1]. apply post_go_intro; auto.
  - apply (base_same s1); auto.
  - intros e I. simpl. eapply ent_ok_ext; [exact X1|]. apply H. now apply drop_var_incl in I.
Qed.

Lemma sound_ForEachName v src b : sound_l b -> sound_i (ForEachName v src b).
Proof.
  intros Hb A A' s C B H.
  change (chk A (ForEachName v src b)) with (if okb (chks (drop_var v A) b) then Some (drop_var v A) else None) in C.
  destruct (okb (chks (drop_var v A) b)) eqn:E; [|discriminate]. injection C as <-.
  apply okb_some in E. destruct E as [A1 E].
  change (exec rq rb (ForEachName v src b) s) with
    (match iter_list (fun x s' => execs rq rb b (set_env s' (nset v x (s_env s)))) (nget src (s_names s)) s with
     | Go s' => Go (set_env s' (s_env s)) | Stop c s' => Stop c s' end).
  apply foreach_post; auto.
  intros x s' _ B' X'. eapply body_iter; eauto.
  intros e I. apply (ent_ok_drop_var v x _ _ A e I).
  eapply ent_ok_ext; [exact X'|]. apply H. now apply drop_var_incl in I.
Qed.

Lemma sound_ForEachObj v src b : sound_l b -> sound_i (ForEachObj v src b).
Proof.
  intros Hb A A' s C B H.
  change (chk A (ForEachObj v src b)) with
    (if okb (chks ((None, NsVar v) :: drop_var v A) b) then Some (drop_var v A) else None) in C.
  destruct (okb (chks ((None, NsVar v) :: drop_var v A) b)) eqn:E; [|discriminate]. injection C as <-.
  apply okb_some in E. destruct E as [A1 E].
  change (exec rq rb (ForEachObj v src b) s) with
    (match iter_list (fun x s' => execs rq rb b (set_env s' (nset v x (s_env s)))) (nget src (s_last s)) s with
     | Go s' => Go (set_env s' (s_env s)) | Stop c s' => Stop c s' end).
  apply foreach_post; auto.
  intros x s' Ix B' X'. eapply body_iter; eauto.
  intros e [<-|I].
  - (* the object comes from the latest result of a checked (hence authorised) read *)
    unfold ent_ok. cbn [fst snd eval]. rewrite nassoc_nset_same. eapply cov_ext; [exact X'|].
    apply (nget_ok _ (s_last s) src); [apply B|exact Ix].
  - apply (ent_ok_drop_var v x _ _ A e I).
    eapply ent_ok_ext; [exact X'|]. apply H. now apply drop_var_incl in I.
Qed.

Theorem exec_sound : forall i, sound_i i.
Proof.
  apply (instr_ind2 sound_i sound_l); auto using sound_nil, sound_cons, sound_leaf, sound_IfErr, sound_IfOk,
    sound_ForEachName, sound_ForEachObj, sound_IfNsEq, sound_Alt, sound_Repeat.
Qed.

Theorem execs_sound : forall l, sound_l l.
Proof. induction l; [apply sound_nil|apply sound_cons; [apply exec_sound|assumption]]. Qed.

End Sound.

(* ------------------------------------------------------------------ from the invariant to the monitor *)

Lemma scan_rev_ok rq st evs : okr rq evs ->
  forall tail, scan (eff_user rq) (hdr rq) st [] (rev evs ++ tail) = scan (eff_user rq) (hdr rq) st (auths evs) tail.
Proof.
  induction evs as [|e evs IH]; intros O tail; [reflexivity|].
  simpl rev. rewrite <- app_assoc. simpl app.
  destruct e as [u v r n b|o k n]; simpl in O.
  - destruct O as (-> & Hh & -> & O). rewrite (IH O). simpl. rewrite String.eqb_refl, Hh. reflexivity.
  - destruct O as (Hc & _ & O). rewrite (IH O). simpl.
    destruct (namespaced k) eqn:Nk; simpl; [|reflexivity].
    unfold cov, covl in Hc. now rewrite (Hc eq_refl).
Qed.

Lemma wscan_rev_ok rq evs : okr rq evs ->
  forall tail, wscan [] (rev evs ++ tail) = wscan (wauths evs) tail.
Proof.
  induction evs as [|e evs IH]; intros O tail; [reflexivity|].
  simpl rev. rewrite <- app_assoc. simpl app.
  destruct e as [u v r n b|o k n]; simpl in O.
  - destruct O as (_ & _ & -> & O). rewrite (IH O). reflexivity.
  - destruct O as (_ & Hw & O). rewrite (IH O). simpl.
    destruct (is_read o) eqn:Ro; simpl; [reflexivity|].
    destruct (namespaced k) eqn:Nk; simpl; [|reflexivity].
    unfold wcov in Hw. now rewrite (Hw eq_refl eq_refl).
Qed.

Theorem check_safeb h rq rb apis ch : check h = true -> safeb rq (run h rq rb apis ch) = true.
Proof.
  unfold check. intro C. destruct (chks [] h) as [A'|] eqn:E; [clear C|discriminate].
  assert (B0 : base rq (init apis ch)).
  { constructor; simpl; auto; try apply store_ok_nil; try (intros ? []). }
  assert (H0 : authd rq [] (init apis ch)) by (intros ? []).
  pose proof (execs_sound rq rb h [] A' (init apis ch) E B0 H0) as P.
  unfold run. destruct (execs rq rb h (init apis ch)) as [s|c s]; simpl in P; unfold safeb, trace_of; cbn [t_evs t_status t_body].
  - destruct P as (B & _ & _ & _).
    change (negb (String.eqb (r_header rq) "")) with (hdr rq).
    rewrite <- (app_nil_r (rev (s_evs s))), (wscan_rev_ok rq _ (b_ok _ _ B)), (scan_rev_ok rq 200 _ (b_ok _ _ B)). simpl.
    apply forallb_forall. intros x I. apply (b_body _ _ B x I).
  - change (negb (String.eqb (r_header rq) "")) with (hdr rq).
    destruct P as [O|(v & r & n & evs' & Es & O & Hh & Hc)].
    + rewrite <- (app_nil_r (rev (s_evs s))), (wscan_rev_ok rq _ O), (scan_rev_ok rq c _ O). simpl. now rewrite orb_true_r.
    + rewrite Es. simpl rev. rewrite (wscan_rev_ok rq _ O), (scan_rev_ok rq c _ O). simpl.
      rewrite String.eqb_refl, Hh. simpl.
      destruct Hc as [-> | ->]; simpl; reflexivity.
Qed.

(* ------------------------------------------------------------------ the monitor implies the declarative statement *)

Lemma covl_allowed_in (A : list string) pre n :
  (forall a, In a A -> exists u v r, In (EAuth u v r a true) pre) -> covl A n = true -> allowed_in pre n.
Proof.
  unfold covl. rewrite existsb_exists. intros H (a & I & C). destruct (H a I) as (u & v & r & J).
  exists u, v, r, a. auto.
Qed.

Lemma scan_spec user h st l : forall A A' pre,
  scan user h st A l = Some A' ->
  (forall a, In a A -> exists u v r, In (EAuth u v r a true) pre) ->
  (forall p o k n q, l = p ++ EAcc o k n :: q -> namespaced k = true -> allowed_in (pre ++ p) n) /\
  (forall a, In a A' -> exists u v r, In (EAuth u v r a true) (pre ++ l)) /\
  (forall p u v r n q, l = p ++ EAuth u v r n false :: q -> q = [] /\ (st = 401 \/ st = 403)) /\
  (forall u v r n b, In (EAuth u v r n b) l -> u = user /\ h = true).
Proof.
  induction l as [|e l IH]; intros A A' pre S HA.
  - injection S as <-. rewrite app_nil_r. split; [|split; [|split]].
    + intros [|] ? ? ? ? ?; discriminate.
    + exact HA.
    + intros [|] ? ? ? ? ? ?; discriminate.
    + intros ? ? ? ? ? [].
  - destruct e as [u v r n b|o k n]; simpl in S.
    + destruct (String.eqb u user && h) eqn:Eu; [|discriminate].
      apply andb_true_iff in Eu. destruct Eu as [Eu Eh]. apply String.eqb_eq in Eu. subst u.
      destruct b.
      * assert (HA' : forall a, In a (n :: A) -> exists u1 v1 r1, In (EAuth u1 v1 r1 a true) (pre ++ [EAuth user v r n true])).
        { intros a [<-|I]; [exists user, v, r; apply in_or_app; right; now left|].
          destruct (HA a I) as (u & v0 & r0 & J). exists u, v0, r0. apply in_or_app. now left. }
        destruct (IH (n :: A) A' (pre ++ [EAuth user v r n true]) S HA') as (I1 & I2 & I3 & I4). rewrite <- app_assoc in I2. simpl in I2.
        split; [|split; [|split]].
        -- intros [|e p] o k m q E Nk; [discriminate|]. injection E as <- E.
           specialize (I1 p o k m q E Nk). rewrite <- app_assoc in I1. exact I1.
        -- exact I2.
        -- intros [|e p] u v0 r0 m q E; [discriminate|]. injection E as <- E. eapply I3; eauto.
        -- intros u v0 r0 m b [E|I]; [injection E as <- _ _ _ _; auto|]. eapply I4; eauto.
      * destruct l as [|e l]; [|discriminate].
        destruct (Nat.eqb st 401 || Nat.eqb st 403) eqn:Es; [|discriminate]. injection S as <-.
        apply orb_true_iff in Es. rewrite !Nat.eqb_eq in Es.
        split; [|split; [|split]].
        -- intros [|e [|e' p]] o k m q E; discriminate.
        -- intros a I. destruct (HA a I) as (u & v0 & r0 & J). exists u, v0, r0. apply in_or_app. now left.
        -- intros [|e [|e' p]] u v0 r0 m q E; try discriminate. injection E as _ _ _ _ <-. auto.
        -- intros u v0 r0 m b [E|[]]. injection E as <- _ _ _ _. auto.
    + destruct (negb (namespaced k) || existsb (fun a => covers a n) A) eqn:Ec; [|discriminate].
      assert (HA' : forall a, In a A -> exists u1 v1 r1, In (EAuth u1 v1 r1 a true) (pre ++ [EAcc o k n])).
      { intros a I. destruct (HA a I) as (u & v & r & J). exists u, v, r. apply in_or_app. now left. }
      destruct (IH A A' (pre ++ [EAcc o k n]) S HA') as (I1 & I2 & I3 & I4). rewrite <- app_assoc in I2. simpl in I2.
      split; [|split; [|split]].
      * intros [|e p] o' k' m q E Nk.
        -- injection E as <- <- <- <-. rewrite Nk in Ec. simpl in Ec. rewrite app_nil_r.
           eapply covl_allowed_in; eauto.
        -- injection E as <- E. specialize (I1 p o' k' m q E Nk). rewrite <- app_assoc in I1. exact I1.
      * exact I2.
      * intros [|e p] u v r m q E; [discriminate|]. injection E as <- E. eapply I3; eauto.
      * intros u v r m b [I|I]; [discriminate|]. eapply I4; eauto.
Qed.

Lemma wscan_spec l : forall W pre,
  wscan W l = true ->
  (forall v r a, In (v, r, a) W -> exists u, In (EAuth u v r a true) pre) ->
  forall p o k n q, l = p ++ EAcc o k n :: q -> namespaced k = true -> is_read o = false ->
  exists u a, In (EAuth u (verb_of o) (plural_of k) a true) (pre ++ p) /\ covers a n = true.
Proof.
  induction l as [|e l IH]; intros W pre S HW p o k n q E Nk Ro; [destruct p; discriminate|].
  destruct p as [|e' p].
  - injection E as -> ->. simpl in S. rewrite Ro, Nk in S. simpl in S.
    apply andb_true_iff in S. destruct S as [S _]. unfold wcovl in S. rewrite existsb_exists in S.
    destruct S as ([[v r] a] & I & C). apply andb_true_iff in C. destruct C as [C Cc].
    apply andb_true_iff in C. destruct C as [Cv Cr]. apply String.eqb_eq in Cv, Cr. subst v r.
    destruct (HW _ _ _ I) as [u J]. exists u, a. rewrite app_nil_r. auto.
  - injection E as <- E.
    assert (K : exists W', wscan W' l = true /\
                (forall v r a, In (v, r, a) W' -> exists u, In (EAuth u v r a true) (pre ++ [e]))).
    { destruct e as [u v r a [|]|o' k' n']; simpl in S.
      - exists ((v, r, a) :: W). split; [exact S|]. intros v0 r0 a0 [[= <- <- <-]|I].
        + exists u. apply in_or_app. right. now left.
        + destruct (HW _ _ _ I) as [u0 J]. exists u0. apply in_or_app. now left.
      - exists W. split; [exact S|]. intros v0 r0 a0 I. destruct (HW _ _ _ I) as [u0 J]. exists u0. apply in_or_app. now left.
      - apply andb_true_iff in S. exists W. split; [apply S|].
        intros v0 r0 a0 I. destruct (HW _ _ _ I) as [u0 J]. exists u0. apply in_or_app. now left. }
    destruct K as (W' & S' & HW').
    destruct (IH W' (pre ++ [e]) S' HW' p o k n q E Nk Ro) as (u & a & J & C).
    exists u, a. rewrite <- app_assoc in J. auto.
Qed.

Theorem safeb_safe rq t : safeb rq t = true -> safe rq t.
Proof.
  unfold safeb. intro S. apply andb_true_iff in S. destruct S as [SW S].
  destruct (scan (eff_user rq) (negb (String.eqb (r_header rq) "")) (t_status t) [] (t_evs t)) as [A'|] eqn:E; [|discriminate].
  destruct (scan_spec _ _ _ _ [] A' [] E) as (I1 & I2 & I3 & I4); [intros ? []|].
  simpl in *. repeat split.
  - intros pre o k n post Et Nk. exact (I1 pre o k n post Et Nk).
  - intros X n I. rewrite X in S. simpl in S. rewrite forallb_forall in S.
    eapply covl_allowed_in; [exact I2|]. now apply S.
  - eapply I3; eauto.
  - eapply I3; eauto.
  - eapply I4; eauto.
  - destruct (I4 _ _ _ _ _ H) as [_ Hh]. apply negb_true_iff in Hh. intro K. rewrite K in Hh. discriminate.
  - intros pre o k n post Et Nk Ro.
    apply (wscan_spec (t_evs t) [] [] SW (fun _ _ _ F => match F with end) pre o k n post Et Nk Ro).
Qed.

Theorem check_sound h : check h = true -> forall rq rb apis ch, safe rq (run h rq rb apis ch).
Proof. intros C rq rb apis ch. apply safeb_safe, check_safeb, C. Qed.

(* ------------------------------------------------------------------ consequences of [safe] *)

Lemma allowed_in_auth evs n : allowed_in evs n -> exists u v r a, In (EAuth u v r a true) evs.
Proof. intros (u & v & r & a & I & _). eauto. Qed.

(* no allowing review in the trace (missing user header, or an oracle that denies everything):
   no access to namespaced data at all and no object in the body *)
Lemma safe_without_allow rq t : safe rq t ->
  (forall u v r a, ~ In (EAuth u v r a true) (t_evs t)) ->
  (forall o k n, In (EAcc o k n) (t_evs t) -> namespaced k = false) /\
  (is2xx (t_status t) = true -> t_body t = []).
Proof.
  intros (S1 & S2 & _ & _) N. split.
  - intros o k n I. destruct (namespaced k) eqn:Nk; [exfalso|reflexivity].
    apply in_split in I. destruct I as (pre & post & E).
    destruct (allowed_in_auth _ _ (S1 pre o k n post E Nk)) as (u & v & r & a & J).
    apply (N u v r a). rewrite E. apply in_or_app. now left.
  - intro X. destruct (t_body t) as [|n l] eqn:Eb; [reflexivity|exfalso].
    destruct (allowed_in_auth _ _ (S2 X n (or_introl eq_refl))) as (u & v & r & a & J). exact (N u v r a J).
Qed.

Lemma safe_no_header rq t : safe rq t -> r_header rq = "" ->
  (forall u v r n b, ~ In (EAuth u v r n b) (t_evs t)) /\
  (forall o k n, In (EAcc o k n) (t_evs t) -> namespaced k = false) /\
  (is2xx (t_status t) = true -> t_body t = []).
Proof.
  intros S H.
  assert (N : forall u v r n b, ~ In (EAuth u v r n b) (t_evs t)).
  { intros u v r n b I. destruct S as (_ & _ & _ & S4 & _). destruct (S4 u v r n b I) as [_ K]. contradiction. }
  split; [exact N|]. apply (safe_without_allow rq t S). intros u v r a. apply N.
Qed.

(* ------------------------------------------------------------------ the reviews of a model trace carry the oracle's answers *)

Section Oracle.
Variables (rq : req) (rb : rbac).

Definition ev_cons (e : event) : Prop :=
  match e with EAuth u v r n b => b = rb u v r n | EAcc _ _ _ => True end.
Definition cons (s : st) : Prop := Forall ev_cons (s_evs s).
Definition evs_of (r : res) : st := match r with Go s | Stop _ s => s end.
Definition keeps_i (i : instr) : Prop := forall s, cons s -> cons (evs_of (exec rq rb i s)).
Definition keeps_l (l : list instr) : Prop := forall s, cons s -> cons (evs_of (execs rq rb l s)).

Lemma cons_same s s' : s_evs s' = s_evs s -> cons s -> cons s'.
Proof. unfold cons. now intros ->. Qed.

Lemma keeps_iter_list {X} (f : X -> st -> res) l :
  (forall x s, cons s -> cons (evs_of (f x s))) -> forall s, cons s -> cons (evs_of (iter_list f l s)).
Proof.
  intro Hf. induction l as [|a l IH]; intros s C; simpl; [exact C|].
  specialize (Hf a s C). destruct (f a s); simpl in *; auto.
Qed.

Lemma keeps_iter_n (f : st -> res) n :
  (forall s, cons s -> cons (evs_of (f s))) -> forall s, cons s -> cons (evs_of (iter_n f n s)).
Proof.
  intro Hf. induction n as [|n IH]; intros s C; simpl; [exact C|].
  specialize (Hf s C). destruct (f s); simpl in *; auto.
Qed.

Lemma keeps_leaf i : leaf i = true -> keeps_i i.
Proof.
  destruct i; try discriminate; intros _ s C; cbn [exec];
    try (match goal with |- context [if ?c then _ else _] => destruct c end; simpl; auto; fail);
    try (simpl; exact C).
  - (* Auth *)
    unfold do_auth. destruct (String.eqb (r_header rq) "").
    + destruct g; simpl; auto.
    + destruct (rb (r_user rq) verb res (eval rq (s_env s) ns)) eqn:E.
      * simpl. constructor; [simpl; now rewrite E|exact C].
      * assert (K : cons (push_ev s (EAuth (r_user rq) verb res (eval rq (s_env s) ns) false))).
        { constructor; [simpl; now rewrite E|exact C]. }
        destruct g; simpl; auto.
  - (* Access *)
    unfold do_access. pose proof (pop_api_same s) as P. destruct (pop_api s) as [a s0]. destruct P as (P1 & _).
    assert (K : cons (push_ev s0 (EAcc o k (eval rq (s_env s) ns)))).
    { constructor; [exact I|]. unfold cons in C. now rewrite P1. }
    destruct a; [destruct (is_read o); [destruct (namespaced k)|]|..]; simpl; exact K.
Qed.

Theorem keeps_all : forall i, keeps_i i.
Proof.
  apply (instr_ind2 keeps_i keeps_l).
  - intros s C. exact C.
  - intros i l Hi Hl s C. simpl. specialize (Hi s C). destruct (exec rq rb i s); simpl in *; auto.
  - apply keeps_leaf.
  - intros b Hb s C. change (exec rq rb (IfErr b) s) with (if s_err s then execs rq rb b s else Go s).
    destruct (s_err s); [apply Hb, C|exact C].
  - intros b Hb s C. change (exec rq rb (IfOk b) s) with (if s_err s then Go s else execs rq rb b s).
    destruct (s_err s); [exact C|apply Hb, C].
  - intros v src b Hb s C.
    change (exec rq rb (ForEachName v src b) s) with
      (match iter_list (fun x s' => execs rq rb b (set_env s' (nset v x (s_env s)))) (nget src (s_names s)) s with
       | Go s' => Go (set_env s' (s_env s)) | Stop c s' => Stop c s' end).
    pose proof (keeps_iter_list (fun x s' => execs rq rb b (set_env s' (nset v x (s_env s)))) (nget src (s_names s))
                  (fun x s' C' => Hb (set_env s' (nset v x (s_env s))) (cons_same s' (set_env s' (nset v x (s_env s))) eq_refl C')) s C) as K.
    destruct (iter_list _ _ s); simpl in *; exact K.
  - intros v src b Hb s C.
    change (exec rq rb (ForEachObj v src b) s) with
      (match iter_list (fun x s' => execs rq rb b (set_env s' (nset v x (s_env s)))) (nget src (s_last s)) s with
       | Go s' => Go (set_env s' (s_env s)) | Stop c s' => Stop c s' end).
    pose proof (keeps_iter_list (fun x s' => execs rq rb b (set_env s' (nset v x (s_env s)))) (nget src (s_last s))
                  (fun x s' C' => Hb (set_env s' (nset v x (s_env s))) (cons_same s' (set_env s' (nset v x (s_env s))) eq_refl C')) s C) as K.
    destruct (iter_list _ _ s); simpl in *; exact K.
  - intros e c a b Ha Hb s C.
    change (exec rq rb (IfNsEq e c a b) s) with (if String.eqb (eval rq (s_env s) e) c then execs rq rb a s else execs rq rb b s).
    destruct (String.eqb (eval rq (s_env s) e) c); [apply Ha, C|apply Hb, C].
  - intros a b Ha Hb s C.
    change (exec rq rb (Alt a b) s) with (match pop_ch s with (O, s') => execs rq rb a s' | (_, s') => execs rq rb b s' end).
    pose proof (pop_ch_same s) as P. destruct (pop_ch s) as [k s0]. destruct P as (P1 & _).
    assert (C0 : cons s0) by (eapply cons_same; eauto).
    destruct k; [apply Ha, C0|apply Hb, C0].
  - intros b Hb s C.
    change (exec rq rb (Repeat b) s) with
      (match pop_ch s with
       | (k, s') => iter_n (fun s'' => execs rq rb b (set_objs s'' (clear_objs (flat_map dsts b) (s_objs s'')))) (S k) s'
       end).
    pose proof (pop_ch_same s) as P. destruct (pop_ch s) as [k s0]. destruct P as (P1 & _).
    apply keeps_iter_n; [|eapply cons_same; eauto].
    intros s' C'. apply Hb. eapply cons_same; eauto.
Qed.

Lemma run_oracle h apis ch u v r n b :
  In (EAuth u v r n b) (t_evs (run h rq rb apis ch)) -> b = rb u v r n.
Proof.
  assert (K : keeps_l h) by (apply (instrs_ind2 keeps_i keeps_l); auto using keeps_all;
                              [intros s C; exact C|intros i l Hi Hl s C; simpl; specialize (Hi s C); destruct (exec rq rb i s); simpl in *; auto]).
  specialize (K (init apis ch) (Forall_nil _)). unfold run.
  destruct (execs rq rb h (init apis ch)) as [s|c s]; simpl in *; intro I; apply in_rev in I;
    unfold cons in K; rewrite Forall_forall in K; exact (K _ I).
Qed.

End Oracle.

(* An oracle that denies everything: a checked handler touches no namespaced data and answers with no object. *)
Theorem deny_all h rq rb apis ch : check h = true -> (forall u v r n, rb u v r n = false) ->
  let t := run h rq rb apis ch in
  (forall o k n, In (EAcc o k n) (t_evs t) -> namespaced k = false) /\
  (is2xx (t_status t) = true -> t_body t = []).
Proof.
  intros C D t. apply (safe_without_allow rq t); [now apply check_sound|].
  intros u v r a I. apply run_oracle in I. rewrite D in I. discriminate.
Qed.

(* ------------------------------------------------------------------ the write clause *)

Lemma safe_write rq t : safe rq t ->
  forall pre o k n post, t_evs t = pre ++ EAcc o k n :: post -> namespaced k = true -> is_read o = false ->
  exists a, In (EAuth (eff_user rq) (verb_of o) (plural_of k) a true) pre /\ covers a n = true.
Proof.
  intros (_ & _ & _ & S4 & S5) pre o k n post E Nk Ro.
  destruct (S5 pre o k n post E Nk Ro) as (u & a & I & C). exists a. split; [|exact C].
  assert (J : In (EAuth u (verb_of o) (plural_of k) a true) (t_evs t)) by (rewrite E; apply in_or_app; now left).
  destruct (S4 _ _ _ _ _ J) as [-> _]. exact I.
Qed.

(* A user whom the oracle never allows to create, update or delete: a checked handler performs no write. *)
Theorem read_only_no_write h rq rb apis ch : check h = true ->
  (forall u v r n, v = "create" \/ v = "update" \/ v = "delete" -> rb u v r n = false) ->
  forall o k n, In (EAcc o k n) (t_evs (run h rq rb apis ch)) -> namespaced k = true -> is_read o = true.
Proof.
  intros C D o k n I Nk. destruct (is_read o) eqn:Ro; [reflexivity|exfalso].
  apply in_split in I. destruct I as (pre & post & E).
  destruct (safe_write rq _ (check_sound h C rq rb apis ch) pre o k n post E Nk Ro) as (a & J & _).
  assert (K : In (EAuth (eff_user rq) (verb_of o) (plural_of k) a true) (t_evs (run h rq rb apis ch))).
  { rewrite E. apply in_or_app. now left. }
  apply run_oracle in K. rewrite D in K; [discriminate|]. destruct o; try discriminate Ro; simpl; auto.
Qed.
