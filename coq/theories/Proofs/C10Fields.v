(* C10_field_coverage — the obligation over the REGENERATED tables of Gen/Fields.v (reflection over the API structs and proto
   messages of the current tree, parsed enum constants).  A field or constant that is added to / dropped from the tree changes
   Gen/Fields.v, this file is recompiled, and the [vm_compute] below fails until the model's tables (Model/Settings.v) and,
   where needed, the conversion model account for it.  Not imported by Corr/C10.v. *)
From KV Require Import Base.Prelude Model.Convert Model.Settings Gen.Fields.
Open Scope string_scope.

Definition key (x : string * string * string) : string * string := fst x.
Definition key_eqb (a b : string * string) : bool := (fst a =? fst b) && (snd a =? snd b).
Definition in_keys (k : string * string) (l : list (string * string)) : bool := existsb (key_eqb k) l.
Fixpoint nodupb (l : list (string * string)) : bool :=
  match l with [] => true | x :: r => negb (in_keys x r) && nodupb r end.

(* the two lists of keys are equal as sets and the second has no repetition *)
Definition same_keys (table classified : list (string * string)) : bool :=
  forallb (fun k => in_keys k classified) table && forallb (fun k => in_keys k table) classified && nodupb classified.

Definition api_classified : list (string * string) :=
  (map key carried_fields ++ map key consumed_fields ++ map key reverse_fields)%list.

(* every field of the named API structs is carried / consumed / reverse, exactly once, and nothing listed is stale *)
Definition api_fields_ok : bool := same_keys (map key api_fields) api_classified.
(* every field of the proto messages is written by the conversion, and nothing listed is stale *)
Definition pb_fields_ok : bool := same_keys (map key pb_fields) (map key pb_written_fields).

Definition mapped (ty : string) : bool := existsb (String.eqb ty) (map fst pb_enum_names).
Definition unknown_ok (ty v : string) : bool := existsb (fun p => (fst p =? ty) && (snd p =? v)) enum_unknown_ok.

Definition enum_key (x : string * string * string) : string * string := (fst (fst x), snd x).   (* (type, value) *)

Definition api_enums_ok : bool :=
  (* every constant declared in the tree is known to the model ... *)
  forallb (fun x => declared_in_model (fst (enum_key x)) (snd (enum_key x))) api_enums &&
  (* ... every value the model lists is declared in the tree ... *)
  forallb (fun p => forallb (fun v => in_keys (fst p, v) (map enum_key api_enums)) (snd p)) enum_declared &&
  forallb (fun p => in_keys p (map enum_key api_enums)) enum_unknown_ok &&
  (* ... and every declared value of a mapped type, except the justified ones, has an image other than UNKNOWN,
     different from the image of every other such value *)
  forallb (fun x => let '(ty, v) := enum_key x in
                    negb (mapped ty) || unknown_ok ty v ||
                    (negb (enum_image ty v =? enum_unknown_name ty) &&
                     forallb (fun y => let '(ty', v') := enum_key y in
                                       negb (ty =? ty') || unknown_ok ty v' || (v =? v') ||
                                       negb (enum_image ty v =? enum_image ty v')) api_enums)) api_enums.

(* the proto enums are exactly the model's inductive types: same NAMEs, numbered 0.. in the order of the constructors *)
Definition pb_enums_ok : bool :=
  forallb (fun p => let rows := filter (fun x => fst (fst x) =? fst p) pb_enums in
                    list_eqb String.eqb (map (fun x => snd (fst x)) rows) (snd p) &&
                    list_eqb Z.eqb (map snd rows) (map Z.of_nat (seq 0 (length (snd p))))) pb_enum_names &&
  forallb (fun x => mapped (fst (fst x))) pb_enums.

Definition consts_ok : bool := (unavailable_metric_value =? unavailable) && (condition_true =? cond_true).

(* ------------------------------------------------------------------ the obligations (re-checked whenever Gen/Fields.v changes) *)

Theorem C10_field_coverage : api_fields_ok = true /\ pb_fields_ok = true.
Proof. split; vm_compute; reflexivity. Qed.

Theorem C10_enum_coverage : api_enums_ok = true /\ pb_enums_ok = true /\ consts_ok = true.
Proof. repeat split; vm_compute; reflexivity. Qed.

Print Assumptions C10_field_coverage.
Print Assumptions C10_enum_coverage.

(* ------------------------------------------------------------------ what the boolean obligations mean *)

Lemma key_eqb_eq a b : key_eqb a b = true <-> a = b.
Proof.
  destruct a, b. unfold key_eqb. cbn. rewrite andb_true_iff, !String.eqb_eq. split; [intros [-> ->]; reflexivity|intros [= -> ->]; auto].
Qed.

Lemma in_keys_In k l : in_keys k l = true <-> In k l.
Proof.
  unfold in_keys. rewrite existsb_exists. split.
  - intros [x [I E]]. apply key_eqb_eq in E. now subst.
  - intro I. exists k. split; [exact I|now apply key_eqb_eq].
Qed.

Lemma nodupb_NoDup l : nodupb l = true -> NoDup l.
Proof.
  induction l as [|x r IH]; cbn [nodupb]; [constructor|]. rewrite andb_true_iff, negb_true_iff. intros [N R].
  constructor; [|now apply IH]. intro I. apply in_keys_In in I. congruence.
Qed.

Lemma same_keys_sound table classified : same_keys table classified = true ->
  (forall k, In k table <-> In k classified) /\ NoDup classified.
Proof.
  unfold same_keys. rewrite !andb_true_iff, !forallb_forall. intros [[A B] C]. split; [|now apply nodupb_NoDup].
  intro k. split; intro I; apply in_keys_In; auto.
Qed.

(* Every field of the API structs named by the property (as reflection finds them in the current tree) is accounted for by
   exactly one of the model's lists, and every listed field exists in the tree. *)
Theorem field_coverage_meaning :
  (forall s f, (exists ty, In (s, f, ty) api_fields) <-> In (s, f) api_classified) /\ NoDup api_classified.
Proof.
  destruct (same_keys_sound _ _ (proj1 C10_field_coverage)) as [E N]. split; [|exact N].
  intros s f. rewrite <- E. unfold key. rewrite in_map_iff. split.
  - intros [ty I]. exists (s, f, ty). auto.
  - intros [[[s' f'] ty] [[= -> ->] I]]. eauto.
Qed.
Print Assumptions field_coverage_meaning.
