(* C08: the walk monitor Corr/WorldMon.sug_walk (evaluated on the implementation's projected states) holds on the model's own
   projected states for every history without teardown whose algorithm replies are fresh. *)
From KV Require Import Base.Prelude Base.Cond Model.World Proofs.WorldPlan Proofs.WorldInv Proofs.WorldInv2 Proofs.WorldInv4
  Proofs.WorldInv5 Proofs.WorldThm Proofs.WorldSucc Proofs.WorldNames Proofs.WorldMu Corr.WorldC Corr.WorldMon Proofs.MonSound.
Open Scope Z_scope.

(* ------------------------------------------------------------------ how one step changes the stored suggestion *)

Definition with_requests (s : sugobj) (r : Z) : sugobj := {| s_requests := r; s_st := s_st s; s_rv := S (s_rv s) |}.
Definition with_status (s : sugobj) (st : sstatus) : sugobj := {| s_requests := s_requests s; s_st := st; s_rv := S (s_rv s) |}.
Definition fresh_sug (r : Z) : sugobj :=
  {| s_requests := r; s_st := {| ss_names := []; ss_count := 0; ss_conds := []; ss_settings := 0%nat |}; s_rv := 1%nat |}.

Definition is_begin (a : action) : bool := match a with Begin _ _ _ _ => true | _ => false end.

Inductive sugev (w : world) (a : action) : world -> Prop :=
| sv_same w' : w_sug w' = w_sug w -> g_maxreq w' = g_maxreq w -> sugev w a w'
| sv_create w' r : w_sug w = None -> w_sug w' = Some (fresh_sug r) -> g_maxreq w' = Z.max (g_maxreq w) r -> sugev w a w'
| sv_spec w' s r : w_sug w = Some s -> w_sug w' = Some (with_requests s r) -> g_maxreq w' = Z.max (g_maxreq w) r -> sugev w a w'
| sv_status w' s st c onf :
    w_sug w = Some s -> In (WSugStatus st (s_rv s), onf) (pending_of w c) -> is_begin a = false ->
    w_sug w' = Some (with_status s st) -> g_maxreq w' = g_maxreq w -> sugev w a w'.

Lemma apply_write_sugev w a wr w1 c onf :
  In (wr, onf) (pending_of w c) -> is_begin a = false -> apply_write (count_write w) wr = Some w1 ->
  forall w', w_sug w' = w_sug w1 -> g_maxreq w' = g_maxreq w1 -> sugev w a w'.
Proof.
  intros Ip Nb A w' E1 E2.
  destruct wr; cbn [apply_write] in A; repeat aw_cases A (count_write w); inversion A; subst; cbn in E1, E2;
    try (apply sv_same; assumption).
  - (* create *) eapply sv_create; [exact Hs|exact E1|exact E2].
  - (* spec *) apply Nat.eqb_eq in Heqb. eapply sv_spec; [exact Hs|exact E1|exact E2].
  - (* status *) apply Nat.eqb_eq in Heqb. subst rv. eapply sv_status; [exact Hs|exact Ip|exact Nb|exact E1|exact E2].
Qed.

Lemma step_sugev w a : is_teardown a = false -> sugev w a (step w a).
Proof.
  intro NT.
  assert (Same : forall w', w_sug w' = w_sug w -> g_maxreq w' = g_maxreq w -> sugev w a w') by (intros; now apply sv_same).
  destruct a; try discriminate; cbn [step].
  - destruct (pending_of w c); [|apply Same; reflexivity]. destruct c; [|destruct (plan_sug w resp)|]; apply Same; reflexivity.
  - destruct (pending_of w c) as [|[wr onf] rest] eqn:Ep; [apply Same; reflexivity|].
    destruct (if inject_failure then None else apply_write (count_write w) wr) as [w1|] eqn:A; [|apply Same; destruct c; reflexivity].
    destruct inject_failure; [discriminate|].
    eapply (apply_write_sugev w _ wr w1 c onf); [rewrite Ep; now left|reflexivity|exact A| |]; destruct c; reflexivity.
  - apply Same; destruct c; reflexivity.
  - apply Same; reflexivity.
  - apply Same; reflexivity.
  - destruct (find_trial t (w_trials w)); apply Same; reflexivity.
  - destruct (find_trial t (w_trials w)) as [tr|]; [|apply Same; reflexivity]. destruct (_ && _); [|apply Same; reflexivity].
    apply Same; cbn; destruct v, (db_get t (w_db w)); reflexivity.
  - destruct (i_dep (w_infra w)); apply Same; reflexivity.
  - apply Same; reflexivity.
  - apply Same; reflexivity.
  - apply Same; reflexivity.
  - destruct (w_exp w) as [e|]; [|apply Same; reflexivity]. destruct (e_max e); [|apply Same; reflexivity].
    destruct (_ && _ && _); apply Same; reflexivity.
Qed.

(* ------------------------------------------------------------------ the ghost and the invariant *)
From KV Require Import Proofs.WorldSugFail.

(* the names of a reply count only when the whole sync succeeds: with early stopping the rules call must succeed too *)
Definition reply_names (cf : cfg) (resp : sresp) : option (list nat) :=
  match r_reply resp with
  | ReplyOk names _ => if negb (c_es cf) || r_esrules resp then Some names else None
  | ReplyErr => None end.

(* a status with a longer assignment list is planned only when every call of the sync succeeded *)
Lemma plan_sug_grows_es w resp st rv onf s :
  In (WSugStatus st rv, onf) (fst (plan_sug w resp)) -> c_sug w = Some s -> ss_names st <> ss_names (s_st s) ->
  negb (c_es (w_cfg w)) || r_esrules resp = true.
Proof.
  unfold plan_sug. intros H Hs Ne. rewrite Hs in H.
  assert (W : forall cs, In (WSugStatus st rv, onf) (sstatus_write s (s_with_conds (s_st s) cs)) -> False).
  { intros cs I. apply in_sstatus_write in I. inversion I; subst. now apply Ne. }
  assert (WC : forall cs, In (WSugStatus st rv, onf) (sstatus_write_conds s cs) -> False).
  { intros cs I. apply in_sstatus_write_conds in I. inversion I; subst. now apply Ne. }
  assert (IC : In (WSugStatus st rv, onf) (infra_creates (w_cfg w) (w_infra w)) -> False).
  { intro I. apply in_infra_creates in I as (k&X). discriminate. }
  destruct (s_is (s_st s) SSucceeded).
  { cbn [fst] in H. apply in_app_or in H as [H|H].
    - destruct (i_dep (w_infra w)); [destruct H as [X|[]]; discriminate|destruct H].
    - destruct (i_svc (w_infra w)); [destruct H as [X|[]]; discriminate|destruct H]. }
  destruct (negb (s_is (s_st s) SCreated)); [cbn [fst] in H; exfalso; eapply W; eauto|].
  destruct (i_dep (w_infra w)) as [[|]|].
  2,3: cbn [fst] in H; apply in_app_or in H as [H|H]; exfalso; [now apply IC|eapply W; eauto].
  destruct (c_exp w); [|cbn [fst] in H; apply in_app_or in H as [H|H]; exfalso; [now apply IC|eapply WC; eauto]].
  set (cs1 := set_cond (ss_conds (s_st s)) SDeploymentReady CTrue RDeploymentReady) in H.
  assert (Failed : forall cs2 rpcs, In (WSugStatus st rv, onf) (fst (infra_creates (w_cfg w) (w_infra w) ++ sstatus_write s (s_with_conds (s_st s) cs2), rpcs : list rpc)) -> False).
  { intros cs2 rpcs I. cbn [fst] in I. apply in_app_or in I as [I|I]; [now apply IC|eapply W; eauto]. }
  destruct (has_cond cs1 SRunning);
    [|destruct (negb (r_valid resp)); [exfalso; eapply Failed; exact H|];
      destruct (c_es (w_cfg w) && negb (r_esvalid resp)); [exfalso; eapply Failed; exact H|]];
    cbv beta iota zeta in H.
  all: destruct (s_requests s - ss_count (s_st s) <=? 0); [cbn [fst] in H; apply in_app_or in H as [H|H]; exfalso; [now apply IC|eapply W; eauto]|].
  all: destruct (r_reply resp) as [|names sett]; [cbn [fst] in H; apply in_app_or in H as [H|H]; exfalso; [now apply IC|eapply WC; eauto]|].
  all: destruct (negb (Z.of_nat (length names) =? s_requests s - ss_count (s_st s)));
    [cbn [fst] in H; apply in_app_or in H as [H|H]; exfalso; [now apply IC|eapply WC; eauto]|].
  all: destruct (c_es (w_cfg w) && negb (r_esrules resp)) eqn:E;
    [cbn [fst] in H; apply in_app_or in H as [H|H]; exfalso; [now apply IC|eapply WC; eauto]|].
  all: destruct (c_es (w_cfg w)), (r_esrules resp); cbn in *; congruence.
Qed.

(* the reply handed to the suggestion reconcile in progress: a Begin that finds something pending is ignored *)
Definition lr_next (w : world) (a : action) (lr : option (list nat)) : option (list nat) :=
  match a with
  | Begin CSug _ resp _ => match p_sug w with [] => reply_names (w_cfg w) resp | _ :: _ => lr end
  | _ => lr
  end.

Definition keeps (st : sstatus) (s : sugobj) : Prop :=
  ss_names st = ss_names (s_st s) /\ ss_count st = ss_count (s_st s) /\ ss_settings st = ss_settings (s_st s).

Definition appends (lr : option (list nat)) (st : sstatus) (s : sugobj) : Prop :=
  exists names, lr = Some names /\ ss_names st = ss_names (s_st s) ++ names /\
                Z.of_nat (length names) = s_requests s - ss_count (s_st s) /\ 0 < s_requests s - ss_count (s_st s).

Definition SgInv (lr : option (list nat)) (w : world) : Prop :=
  forall c st rv onf, In (WSugStatus st rv, onf) (pending_of w c) ->
  forall s, w_sug w = Some s -> rv = s_rv s -> keeps st s \/ (c = CSug /\ appends lr st s).

Lemma SgInv_init c : SgInv None (init c).
Proof. intros [] st rv onf []. Qed.

Lemma begin_store_sug w c key resp dberr : w_sug (step w (Begin c key resp dberr)) = w_sug w.
Proof. cbn [step]. destruct (pending_of w c); [|reflexivity]. destruct c; [|destruct (plan_sug w resp)|]; reflexivity. Qed.

Lemma step_sg lr w a : Inv w -> SgInv lr w -> is_teardown a = false -> SgInv (lr_next w a lr) (step w a).
Proof.
  intros Iv T NT. pose proof Iv as [I P].
  intros c st rv onf Hx s1 Hs1 Rv.
  destruct (step_pending2 _ _ _ _ Hx) as [H|(Ep&key&resp&dberr&Ea&H)].
  - (* was pending before *)
    pose proof (pending_of_ok w c P) as WO. rewrite Forall_forall in WO. specialize (WO _ H).
    unfold write_ok in WO. cbn [fst] in WO. destruct WO as (_&_&s&Hs&Rle&_).
    assert (Lr : c = CSug -> lr_next w a lr = lr).
    { intros ->. unfold lr_next. destruct a; try reflexivity. destruct c; try reflexivity.
      cbn [pending_of] in H. destruct (p_sug w); [destruct H|reflexivity]. }
    destruct (step_sugev w a NT) as [w' E1 _|w' r N _ _|w' s0 r Hs0 E1 _|w' s0 st0 c0 onf0 Hs0 _ _ E1 _].
    + rewrite E1, Hs in Hs1. inversion Hs1; subst s1.
      destruct (T _ _ _ _ H s Hs Rv) as [K|[Ec K]]; [now left|right]. split; [exact Ec|]. now rewrite (Lr Ec).
    + congruence.
    + rewrite Hs in Hs0. inversion Hs0; subst s0. rewrite E1 in Hs1. inversion Hs1; subst s1. cbn in Rv. lia.
    + rewrite Hs in Hs0. inversion Hs0; subst s0. rewrite E1 in Hs1. inversion Hs1; subst s1. cbn in Rv. lia.
  - (* planned by this very step, a Begin of controller c that found nothing pending: the store is as before *)
    subst a. rewrite begin_store_sug in Hs1.
    assert (K0 : forall cs, c_sug w = Some cs -> sle cs s1).
    { intros cs Hcs. pose proof (i_sug _ I) as IS. rewrite Hs1, Hcs in IS. tauto. }
    destruct c.
    + (* experiment controller: conditions only *)
      destruct (plan_exp_sug_forms _ _ _ _ I H) as (cs&Hcs&Erv&F).
      pose proof (K0 _ Hcs) as Le. destruct Le as (_&Eq&_). rewrite Erv in Rv. rewrite (Eq Rv) in F.
      left. destruct F as [-> | ->]; repeat split; reflexivity.
    + (* suggestion controller *)
      destruct (plan_sug_shape _ _ _ H) as (cs&Hcs&[(k&[X|X])|(st'&X&Sh)]); try discriminate.
      inversion X as [[Est Erv]]. subst st'. pose proof (K0 _ Hcs) as Le. destruct Le as (_&Eq&_). rewrite Erv in Rv. rewrite (Eq Rv) in Sh.
      destruct Sh as [K|(names&sett&Rp&Len&Pos&N&_)]; [now left|right]. split; [reflexivity|].
      assert (Es : negb (c_es (w_cfg w)) || r_esrules resp = true).
      { apply (plan_sug_grows_es w resp st rv onf cs H Hcs). rewrite (Eq Rv), N. intro Q.
        rewrite <- (app_nil_r (ss_names (s_st s1))) in Q at 2. apply app_inv_head in Q. subst names. cbn in Len. lia. }
      exists names. unfold lr_next. cbn [pending_of] in Ep. rewrite Ep. unfold reply_names. rewrite Rp, Es. auto.
    + exfalso. eapply plan_trial_no_sug; eauto.
Qed.

(* ------------------------------------------------------------------ the monitor on the model's projected states *)

Lemma NoDup_nodupb l : NoDup l -> nodupb l = true.
Proof.
  induction 1 as [|a l N _ IH]; [reflexivity|]. cbn. rewrite IH, andb_true_r. apply negb_true_iff.
  destruct (mem a l) eqn:M; [|reflexivity]. apply mem_in in M. contradiction.
Qed.

Lemma prefixb_app l r : prefixb l (l ++ r) = true.
Proof. induction l as [|a l IH]; [reflexivity|]. cbn. now rewrite Nat.eqb_refl, IH. Qed.

Lemma prefixb_refl l : prefixb l l = true.
Proof. rewrite <- (app_nil_r l) at 2. apply prefixb_app. Qed.

Lemma skipn_app_exact {A} (l r : list A) : skipn (length l) (l ++ r) = r.
Proof. induction l as [|a l IH]; [reflexivity|exact IH]. Qed.

Lemma nats_eqb_refl l : list_eqb Nat.eqb l l = true.
Proof. apply list_eqb_spec; [intros a b; apply Nat.eqb_eq|reflexivity]. Qed.

Lemma lr_next_project w a lr :
  match a with
  | Begin CSug _ resp _ =>
      match pj_pending (project w) with
      | (_, true, _) => lr
      | _ => match r_reply resp with
             | ReplyOk names _ => if negb (c_es (w_cfg w)) || r_esrules resp then Some names else None
             | ReplyErr => None end
      end
  | _ => lr end = lr_next w a lr.
Proof.
  unfold lr_next, reply_names. destruct a; try reflexivity. destruct c; try reflexivity.
  unfold project. cbn [pj_pending]. destruct (p_sug w), (p_exp w); reflexivity.
Qed.

Theorem sug_walk_model maxreq lr w acts :
  Inv w -> NDInv w -> SgInv lr w -> g_maxreq w <= maxreq -> no_teardown acts -> fresh_from w acts ->
  sug_walk (w_cfg w) maxreq lr (project w) (msteps w acts) = true.
Proof.
  revert maxreq lr w. induction acts as [|a l IH]; intros maxreq lr w Iv Nd Sg G NT Fr; [reflexivity|].
  apply no_teardown_cons in NT as [Na NT]. destruct Fr as [Fa Fr].
  pose proof (step_inv w a Na Iv) as Iv'. pose proof (step_nd w a Iv Nd Fa) as Nd'. pose proof (step_sg lr w a Iv Sg Na) as Sg'.
  pose proof Iv' as [I' _].
  cbn [msteps sug_walk]. rewrite lr_next_project. rewrite !pj_sug_project.
  pose proof (step_sugev w a Na) as Ev.
  destruct (w_sug (step w a)) as [s1|] eqn:Hs1; cbn [option_map].
  - assert (G' : g_maxreq (step w a) <= Z.max maxreq (s_requests s1)).
    { inversion Ev as [w' E1 E2|w' r N E1 E2|w' s0 r Hs0 E1 E2|w' s0 st0 c0 onf0 Hs0 Ip Nb E1 E2]; subst w'.
      - lia.
      - rewrite Hs1 in E1. inversion E1; subst s1. cbn. lia.
      - rewrite Hs1 in E1. inversion E1; subst s1. cbn. lia.
      - lia. }
    rewrite !andb_true_iff. repeat split.
    + apply NoDup_nodupb. exact (nd_sug _ Nd' _ Hs1).
    + apply Z.eqb_eq. pose proof (i_sug _ I') as IS. rewrite Hs1 in IS. destruct IS as (W&_). exact W.
    + apply Z.leb_le. pose proof (i_sug _ I') as IS. rewrite Hs1 in IS. destruct IS as (_&C&_). cbn [ps_count ps_requests psug_of]. lia.
    + inversion Ev as [w' E1 E2|w' r N E1 E2|w' s0 r Hs0 E1 E2|w' s0 st0 c0 onf0 Hs0 Ip Nb E1 E2]; subst w'.
      * rewrite <- E1, Hs1. cbn [option_map psug_of ps_names ps_count ps_settings]. rewrite prefixb_refl, Nat.eqb_refl, Z.eqb_refl, Nat.eqb_refl. reflexivity.
      * rewrite N. cbn [option_map]. rewrite Hs1 in E1. inversion E1; subst s1. reflexivity.
      * rewrite Hs0. cbn [option_map]. rewrite Hs1 in E1. inversion E1; subst s1.
        cbn [psug_of with_requests ps_names ps_count ps_settings s_st]. rewrite prefixb_refl, Nat.eqb_refl, Z.eqb_refl, Nat.eqb_refl. reflexivity.
      * rewrite Hs0. cbn [option_map]. rewrite Hs1 in E1. inversion E1; subst s1.
        assert (Lr : lr_next w a lr = lr) by (unfold lr_next; destruct a; try reflexivity; discriminate).
        cbn [psug_of with_status ps_names ps_count ps_settings ps_requests s_st s_requests].
        destruct (Sg _ _ _ _ Ip s0 Hs0 eq_refl) as [(K1&K2&K3)|(_&nm&El&K1&K2&K3)].
        -- rewrite K1, K2, K3. rewrite prefixb_refl, Nat.eqb_refl, Z.eqb_refl, Nat.eqb_refl. reflexivity.
        -- rewrite K1. rewrite prefixb_app. cbn [andb].
           destruct (Nat.eqb (length (ss_names (s_st s0))) (length (ss_names (s_st s0) ++ nm))) eqn:El2.
           ++ exfalso. apply Nat.eqb_eq in El2. rewrite app_length in El2. lia.
           ++ rewrite Lr, El. rewrite skipn_app_exact, nats_eqb_refl, andb_true_r. apply Z.eqb_eq. rewrite app_length. lia.
    + rewrite <- (step_cfg w a). apply IH; auto.
  - rewrite <- (step_cfg w a). apply IH; auto.
    inversion Ev as [w' E1 E2|w' r N E1 E2|w' s0 r Hs0 E1 E2|w' s0 st0 c0 onf0 Hs0 Ip Nb E1 E2]; subst w'; try congruence; try lia.
Qed.

Theorem sug_monitor_sound c acts :
  valid_cfg c -> no_teardown acts -> fresh_run c acts -> sug_walk c 0 None (project (init c)) (msteps (init c) acts) = true.
Proof.
  intros V NT Fr. change c with (w_cfg (init c)) at 1. apply sug_walk_model; [now apply Inv_init|apply NDInv_init|apply SgInv_init|cbn; lia|exact NT|exact Fr].
Qed.
