(* Observations and the metrics DB (no teardown): an objective value a trial carries is the one stored in the DB, DB entries
   are never changed or removed, hence an objective value, once a trial has it, stays. *)
From KV Require Import Base.Prelude Base.Cond Model.World Proofs.WorldPlan Proofs.WorldInv Proofs.WorldInv2 Proofs.WorldInv4
  Proofs.WorldInv5 Proofs.WorldSucc Proofs.WorldTrials Proofs.WorldFin.
Open Scope Z_scope.

Definition objv (o : obs) : option Z := match o with Some (Some z) => Some z | _ => None end.

Lemma objective_objv t : objective t = objv (t_obs t).
Proof. reflexivity. Qed.

(* ------------------------------------------------------------------ the DB only grows *)

Lemma db_get_app_keep n db e x : db_get n db = Some x -> db_get n (db ++ [e]) = Some x.
Proof.
  unfold db_get. induction db as [|a l IH]; cbn; [discriminate|].
  destruct (Nat.eqb (fst a) n); [auto|exact IH].
Qed.

Lemma db_get_app_new n db v : db_get n db = None -> db_get n (db ++ [(n, v)]) = Some v.
Proof.
  unfold db_get. induction db as [|a l IH]; cbn.
  - now rewrite Nat.eqb_refl.
  - destruct (Nat.eqb (fst a) n); [discriminate|exact IH].
Qed.

Lemma apply_write_db w wr w1 k x :
  apply_write w wr = Some w1 -> (forall n, wr <> WDbDelete n) -> db_get k (w_db w) = Some x -> db_get k (w_db w1) = Some x.
Proof.
  intros A N H. destruct wr; cbn [apply_write] in A; try (repeat aw_cases A w; inversion A; subst; exact H).
  - exfalso. eapply N; reflexivity.
  - inversion A; subst. cbn. destruct (db_get name (w_db w)); [exact H|now apply db_get_app_keep].
Qed.

(* ------------------------------------------------------------------ the observation a planned status write carries *)

Lemma plan_trial_main_obs w t dberr n cs o ct rv onf :
  In (WTrialStatus n cs o ct rv, onf) (plan_trial_main w t dberr) ->
  o = t_obs t \/ exists v, db_get (t_name t) (w_db w) = Some v /\ o = Some v.
Proof.
  unfold plan_trial_main.
  assert (K : forall v0 : option (option Z), (match db_get (t_name t) (w_db w) with Some v => Some v | None => t_obs t end) = v0 ->
              v0 = t_obs t \/ exists v, db_get (t_name t) (w_db w) = Some v /\ v0 = Some v).
  { intros v0 <-. destruct (db_get (t_name t) (w_db w)) as [v|]; [right; eauto|now left]. }
  destruct (find_job (t_name t) (w_jobs w)) as [j|] eqn:J.
  - destruct (t_completed t && negb (c_retain (w_cfg w))).
    + destruct (t_is t TEarlyStopped && negb (t_obs_available t)); [|intros [H|[]]; discriminate].
      destruct dberr; [intros [H|[]]; discriminate|]. intro H. apply in_app_or in H as [[H|[]]|H]; [discriminate|].
      apply in_trial_status_write in H. inversion H; subst. now apply K.
    + destruct (negb (t_completed t) || t_is t TEarlyStopped); [|intros []].
      destruct (match j_phase j with JFail => Some JSFailed | JSucc => Some JSSucceeded
                                | JActive => if negb (t_is t TRunning) then Some JSRunning else None end) as [js|]; [|intros []].
      match goal with |- In _ (if ?c then _ else _) -> _ => destruct c end; [intros []|].
      match goal with |- In _ (if ?c then _ else _) -> _ => destruct c end; [intros []|].
      destruct (update_trial_condition _ _ _ _ _) as [[dbw cs'] ct'] eqn:U.
      intro H. apply in_app_or in H as [H|H]; [destruct H|]. apply in_app_or in H as [H|H].
      * apply (update_trial_condition_db _ _ _ _ _ _ _ _ _ U) in H as [H _]. discriminate.
      * apply in_trial_status_write in H. inversion H; subst.
        destruct (match js with JSSucceeded => true | _ => t_is t TEarlyStopped end); [now apply K|now left].
  - destruct (t_completed t) eqn:C.
    + destruct (t_is t TEarlyStopped && negb (t_obs_available t)); [|intros []].
      destruct dberr; [intros []|]. cbn [app]. intro H.
      apply in_trial_status_write in H. inversion H; subst. now apply K.
    + cbn [negb orb].
      destruct (if negb (t_is t TRunning) then Some JSRunning else None) as [js|] eqn:Ejs; [|intros [H|[]]; discriminate].
      assert (js = JSRunning) by (destruct (negb (t_is t TRunning)); inversion Ejs; reflexivity). subst js.
      match goal with |- In _ (if ?c then _ else _) -> _ => destruct c end; [intros [H|[]]; discriminate|].
      match goal with |- In _ (if ?c then _ else _) -> _ => destruct c end; [intros [H|[]]; discriminate|].
      destruct (update_trial_condition _ _ _ _ _) as [[dbw cs'] ct'] eqn:U.
      intro H. apply in_app_or in H as [H|H]; [destruct H as [H|[]]; discriminate|].
      apply in_app_or in H as [H|H].
      * apply (update_trial_condition_db _ _ _ _ _ _ _ _ _ U) in H as [H _]. discriminate.
      * apply in_trial_status_write in H. inversion H; subst.
        destruct (t_is t TEarlyStopped); [now apply K|now left].
Qed.

Lemma plan_trial_obs w key dberr n cs o ct rv onf :
  In (WTrialStatus n cs o ct rv, onf) (plan_trial w key dberr) ->
  n = key /\ exists t, find_trial key (c_trials w) = Some t /\ rv = t_rv t /\
                       (o = t_obs t \/ exists v, db_get key (w_db w) = Some v /\ o = Some v).
Proof.
  unfold plan_trial. destruct (find_trial key (c_trials w)) as [t|] eqn:F; [|intros []].
  destruct (find_trial_name _ _ _ F) as [N _]. intro H.
  destruct (negb (t_deleting t) && negb (t_fin t)); [destruct H as [H|[]]; discriminate|].
  destruct (t_deleting t && t_fin t); [destruct H as [H|[H|[]]]; discriminate|].
  destruct (negb (t_is t TCreated)).
  - apply in_trial_status_write in H. inversion H; subst. split; [reflexivity|]. exists t. auto.
  - assert (E : n = t_name t /\ rv = t_rv t).
    { pose proof H as H'. apply plan_trial_main_shape in H'. destruct H' as [(X&_)|[(X&_)|[(X&_)|(cs'&o'&ct'&X&_)]]]; try discriminate. now inversion X. }
    destruct E as [-> ->]. split; [exact N|]. exists t. split; [reflexivity|]. split; [reflexivity|]. rewrite <- N. eapply plan_trial_main_obs; eauto.
Qed.

(* writes of the experiment controller are never trial-status or DB writes *)
Definition ekind (x : write * onfail) : bool :=
  match fst x with
  | WExpFin _ _ | WExpStatus _ _ | WSugCreate _ | WSugSpec _ _ | WSugStatus _ _ | WTrialCreate _ | WDeleteTrials => true
  | _ => false
  end.

Lemma ek_plan_exp_kinds w : forallb ekind (plan_exp w) = true.
Proof. exact (WorldFin.ek_plan_exp w). Qed.

(* ------------------------------------------------------------------ the invariant *)

Record ObInv (w : world) : Prop := {
  ob_store : forall t z, In t (w_trials w) -> objective t = Some z -> db_get (t_name t) (w_db w) = Some (Some z);
  ob_cache : forall t z, In t (c_trials w) -> objective t = Some z -> db_get (t_name t) (w_db w) = Some (Some z);
  ob_pend : forall c n cs o ct rv onf, In (WTrialStatus n cs o ct rv, onf) (pending_of w c) ->
            forall z, objv o = Some z -> db_get n (w_db w) = Some (Some z);
  ob_nodel : forall c n onf, ~ In (WDbDelete n, onf) (pending_of w c) }.

Lemma step_ctrials w a : c_trials (step w a) = c_trials w \/ c_trials (step w a) = w_trials (step w a).
Proof.
  destruct a; cbn [step].
  - destruct (pending_of w c); [|auto]. destruct c; [|destruct (plan_sug w resp)|]; auto.
  - destruct (pending_of w c) as [|[wr onf] rest]; [auto|].
    destruct (if inject_failure then None else apply_write (count_write w) wr) as [w1|] eqn:A; [|destruct c; auto].
    destruct inject_failure; [discriminate|]. left.
    assert (E : c_trials w1 = c_trials w).
    { clear -A. destruct wr; cbn [apply_write] in A; repeat aw_cases A (count_write w); inversion A; subst; reflexivity. }
    destruct c; exact E.
  - destruct c; auto.
  - auto.
  - auto.
  - destruct (find_trial t (w_trials w)), (db_get t (w_db w)); auto.
  - destruct (find_trial t (w_trials w)) as [tr|]; [|auto]. destruct (_ && _); [|auto]. left. cbn. destruct v, (db_get t (w_db w)); reflexivity.
  - destruct (i_dep (w_infra w)); auto.
  - auto.
  - auto.
  - right. reflexivity.
  - destruct (w_exp w) as [e|]; [|auto]. destruct (e_max e); [|auto]. destruct (_ && _ && _); auto.
  - destruct (w_exp w) as [e|]; [|auto]. destruct (e_fin e); auto.
  - destruct (w_exp w), (find_trial t (w_trials w)) as [tr|]; auto. destruct (t_fin tr); auto.
Qed.

Lemma db_get_map_upgrade k t z0 db x :
  db_get k db = Some (Some x) ->
  db_get k (map (fun p => if Nat.eqb (fst p) t then (t, Some z0) else p) db) = Some (Some x) \/ (k = t /\ True).
Proof.
  unfold db_get. induction db as [|a l IH]; cbn; [discriminate|].
  destruct (Nat.eqb (fst a) k) eqn:Ek.
  - intros [= E]. destruct (Nat.eqb (fst a) t) eqn:Et.
    + right. apply Nat.eqb_eq in Ek, Et. split; [congruence|exact I].
    + left. cbn. rewrite Ek. now rewrite E.
  - intro H. destruct (Nat.eqb (fst a) t) eqn:Et.
    + cbn. destruct (Nat.eqb t k) eqn:Etk.
      * right. apply Nat.eqb_eq in Etk. auto.
      * exact (IH H).
    + cbn. rewrite Ek. exact (IH H).
Qed.

(* an objective value in the DB is permanent (metrics arrive progressively: an entry without objective value may get one) *)
Lemma metrics_db_keep k t v db z : db_get k db = Some (Some z) -> db_get k (metrics_db t v db) = Some (Some z).
Proof.
  intro H. unfold metrics_db. destruct (db_get t db) as [[z1|]|] eqn:G; [exact H| |now apply db_get_app_keep].
  destruct v as [z0|]; [|exact H].
  destruct (db_get_map_upgrade k t z0 db z H) as [K|[-> _]]; [exact K|]. congruence.
Qed.

(* DB entries with an objective value are permanent as long as no deletion of an observation log is pending *)
Lemma step_db_keep w a k z :
  (forall c n onf, ~ In (WDbDelete n, onf) (pending_of w c)) ->
  db_get k (w_db w) = Some (Some z) -> db_get k (w_db (step w a)) = Some (Some z).
Proof.
  intros ND H.
  assert (Same : forall w', w_db w' = w_db w -> db_get k (w_db w') = Some (Some z)) by (intros w' ->; exact H).
  destruct a; cbn [step].
  - destruct (pending_of w c); [|exact H]. destruct c; [|destruct (plan_sug w resp)|]; apply Same; reflexivity.
  - destruct (pending_of w c) as [|[wr onf] rest] eqn:Ep; [exact H|].
    destruct (if inject_failure then None else apply_write (count_write w) wr) as [w1|] eqn:A; [|apply Same; destruct c; reflexivity].
    destruct inject_failure; [discriminate|].
    assert (E : w_db (set_pending w1 c rest) = w_db w1) by (destruct c; reflexivity). rewrite E.
    eapply apply_write_db; [exact A| |exact H].
    intros n ->. apply (ND c n onf). rewrite Ep. now left.
  - apply Same. destruct c; reflexivity.
  - apply Same. reflexivity.
  - apply Same. reflexivity.
  - destruct (find_trial t (w_trials w)); [|exact H]. cbn. now apply metrics_db_keep.
  - destruct (find_trial t (w_trials w)) as [tr|]; [|exact H]. destruct (_ && _); [|exact H]. cbn.
    destruct v, (db_get t (w_db w)); try exact H. cbn. now apply db_get_app_keep.
  - destruct (i_dep (w_infra w)); apply Same; reflexivity.
  - apply Same. reflexivity.
  - apply Same. reflexivity.
  - apply Same. reflexivity.
  - destruct (w_exp w) as [e|]; [|exact H]. destruct (e_max e); [|exact H]. destruct (_ && _ && _); apply Same; reflexivity.
  - destruct (w_exp w) as [e|]; [|exact H]. destruct (e_fin e); apply Same; reflexivity.
  - destruct (w_exp w), (find_trial t (w_trials w)) as [tr|]; try exact H. destruct (t_fin tr); apply Same; reflexivity.
Qed.

Lemma step_ob w a : Inv w -> ObInv w -> is_teardown a = false -> ObInv (step w a).
Proof.
  intros Iv [A B C D] NT. pose proof Iv as [I P].
  assert (Keep : forall k z, db_get k (w_db w) = Some (Some z) -> db_get k (w_db (step w a)) = Some (Some z)) by (intros; now apply step_db_keep).
  assert (St : forall t z, In t (w_trials (step w a)) -> objective t = Some z -> db_get (t_name t) (w_db (step w a)) = Some (Some z)).
  { intros t' z I' O.
    destruct (tgrow_in _ _ _ _ (step_trials w a Iv NT) I') as [(t&It&E)|(n&->)]; [|discriminate].
    destruct E as [t|t t' N Cc Ob Ct|t t' c cs o ct onf Ip N Cc Ob|t t' Nc Cr J N Cc Ob].
    - apply Keep. now apply A.
    - rewrite N. apply Keep. apply A; [exact It|]. unfold objective in *. now rewrite <- Ob.
    - rewrite N. apply Keep. eapply C; [exact Ip|]. unfold objective in O. rewrite Ob in O. exact O.
    - rewrite N. apply Keep. apply A; [exact It|]. unfold objective in *. now rewrite <- Ob. }
  constructor.
  - exact St.
  - intros t z It O. destruct (step_ctrials w a) as [E|E]; rewrite E in It; [apply Keep; now apply B|now apply St].
  - intros c n cs o ct rv onf Hx z Oz.
    destruct (step_pending _ _ _ _ Hx) as [H|[H|[(resp&H)|(key&dberr&H)]]].
    + apply Keep. eapply C; eauto.
    + exfalso. pose proof (ek_plan_exp_kinds w) as K. rewrite forallb_forall in K. specialize (K _ H). discriminate.
    + exfalso. destruct (plan_sug_shape _ _ _ H) as (cs0&Hc&[(k&[X|X])|(st&X&_)]); discriminate.
    + destruct (plan_trial_obs _ _ _ _ _ _ _ _ _ H) as (->&t&F&_&[->|(v&G&->)]).
      * apply Keep. destruct (find_trial_name _ _ _ F) as [N It]. rewrite <- N. apply B; [exact It|exact Oz].
      * apply Keep. cbn in Oz. destruct v as [z0|]; [|discriminate]. inversion Oz; subst. exact G.
  - intros c n onf Hx.
    destruct (step_pending _ _ _ _ Hx) as [H|[H|[(resp&H)|(key&dberr&H)]]].
    + eapply D; eauto.
    + pose proof (ek_plan_exp_kinds w) as K. rewrite forallb_forall in K. specialize (K _ H). discriminate.
    + destruct (plan_sug_shape _ _ _ H) as (cs0&Hc&[(k&[X|X])|(st&X&_)]); discriminate.
    + destruct (plan_trial_shape _ _ _ _ H) as (t&F&N&[(E&_)|[(Pl&Dl)|[(E&_)|[(E&_)|[(E&_)|(cs&o&ct&E&_)]]]]]); try discriminate.
      destruct (find_trial_name _ _ _ F) as [_ It]. pose proof (i_cdel _ I) as Cd. rewrite Forall_forall in Cd. rewrite (Cd _ It) in Dl. discriminate.
Qed.
