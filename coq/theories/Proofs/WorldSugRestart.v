(* C16: the Succeeded condition of the stored suggestion is withdrawn only on behalf of a restart that was enabled in the STORED
   experiment at that step or at an earlier step of the history -- the walk monitor Corr/WorldMon.sug_restart_walk holds on the
   model's own projected states. *)
From KV Require Import Base.Prelude Base.Cond Model.World Proofs.WorldPlan Proofs.EqbRefl Proofs.WorldInv Proofs.WorldInv2
  Proofs.WorldInv4 Proofs.WorldInv5 Proofs.WorldThm Proofs.WorldSucc Proofs.WorldCalm Proofs.WorldTrials Proofs.WorldJob
  Proofs.WorldObs Proofs.WorldStab Proofs.WorldDecide Proofs.WorldSugFail Proofs.WorldFin Proofs.WorldNoCreate Proofs.WorldMu
  Proofs.WorldSugMon Proofs.WorldVerdict Corr.WorldC Corr.WorldMon Proofs.MonSound.
Open Scope Z_scope.

Definition re_now (w : world) : bool := match w_exp w with Some e => restart_enabled_e (w_cfg w) e | None => false end.
Definition exp_done_b (w : world) : bool := match w_exp w with Some e => e_completed (e_st e) | None => false end.
Definition sug_succ_b (w : world) : bool := match w_sug w with Some s => s_is (s_st s) SSucceeded | None => false end.

(* "seen" at the next step: a restart was enabled in the stored experiment at some state of the walk up to and including w *)
Definition sn (seen : bool) (w : world) : Prop := seen || re_now w = true.

(* ------------------------------------------------------------------ what an experiment reconcile plans for the suggestion *)

Lemma plan_exp_sug_kinds w ce st rv onf :
  InvS w -> c_exp w = Some ce -> In (WSugStatus st rv, onf) (plan_exp w) ->
  (s_is st SSucceeded = true /\ e_completed (e_st ce) = true) \/
  (s_is st SSucceeded = false /\
   (restart_enabled_e (w_cfg w) ce = true \/ exists st1, existsb is_sug_status (plan_exp_reconcile w ce st1) = true)).
Proof.
  intros I Hce H. unfold plan_exp in H. rewrite Hce in H.
  destruct (i_exp _ I) as (e0&ce'&He0&Hce'&_&_&_&_&Nce). rewrite Hce in Hce'. inversion Hce'; subst ce'.
  pose proof (status_ok_nonneg _ _ Nce) as NN.
  destruct (negb (e_deleting ce) && negb (e_fin ce)); [destruct H as [H|[]]; discriminate|].
  destruct (e_deleting ce && e_fin ce); [destruct H as [H|[]]; discriminate|].
  destruct (plan_exp_completed (w_cfg w) ce (c_sug w)) as [[ws1 st1] stop] eqn:PC.
  assert (C1 : In (WSugStatus st rv, onf) ws1 ->
    (s_is st SSucceeded = true /\ e_completed (e_st ce) = true) \/
    (s_is st SSucceeded = false /\
     (restart_enabled_e (w_cfg w) ce = true \/ exists st1, existsb is_sug_status (plan_exp_reconcile w ce st1) = true))).
  { intro I1. destruct (s_is st SSucceeded) eqn:S.
    - left. split; [reflexivity|]. revert PC. unfold plan_exp_completed. destruct (e_completed (e_st ce)); [reflexivity|].
      intros [= <- _ _]. destruct I1.
    - right. split; [reflexivity|]. left. exact (proj1 (sug_restart_only_when_enabled _ _ _ _ _ _ _ _ _ PC I1 S)). }
  destruct stop; [auto|].
  destruct (negb (e_is st1 ECreated)).
  - apply in_app_or in H as [H|H]; [auto|]. apply in_status_write in H. discriminate.
  - apply in_app_or in H as [H|H]; [auto|].
    assert (X : existsb is_sug_status (plan_exp_reconcile w ce st1) = true).
    { apply existsb_exists. eexists. split; [exact H|reflexivity]. }
    assert (NN1 : counts_nonneg (es_counts st1)) by (rewrite (plan_exp_completed_counts _ _ _ _ _ _ PC); exact NN).
    apply plan_exp_reconcile_shape in H; [|exact NN1].
    destruct H as [(x&H&_)|[H|[(r&_&[(_&H)|(s&_&[H|(n&H&_)])])|(s&Hs&H&_)]]]; try discriminate.
    unfold restart_write in H. inversion H; subst. right. split; [|right; eauto].
    unfold s_is, s_with_conds, smark_running. cbn [ss_conds]. rewrite has_set. cbn. unfold has_cond. now rewrite get_remove_same.
Qed.

Lemma plan_sug_not_from_succ w resp st rv onf cs :
  In (WSugStatus st rv, onf) (fst (plan_sug w resp)) -> c_sug w = Some cs -> s_is (s_st cs) SSucceeded = false.
Proof.
  unfold plan_sug. intros H Hcs. rewrite Hcs in H. destruct (s_is (s_st cs) SSucceeded); [|reflexivity]. exfalso.
  cbn [fst] in H. apply in_app_or in H as [H|H].
  - destruct (i_dep (w_infra w)); [destruct H as [X|[]]; discriminate|destruct H].
  - destruct (i_svc (w_infra w)); [destruct H as [X|[]]; discriminate|destruct H].
Qed.

(* ------------------------------------------------------------------ the invariant *)

Record SwInv (seen : bool) (w : world) : Prop := {
  k1 : forall ce, c_exp w = Some ce -> restart_enabled_e (w_cfg w) ce = true -> sn seen w;
  k2 : forall ce, c_exp w = Some ce -> e_completed (e_st ce) = true -> exp_done_b w = false -> sn seen w;
  k3 : forall st rv onf, In (WSugStatus st rv, onf) (p_exp w) -> s_is st SSucceeded = true -> exp_done_b w = false -> sn seen w;
  i1 : sug_succ_b w = true -> exp_done_b w = false -> sn seen w;
  k5 : forall st rv onf, In (WSugStatus st rv, onf) (p_exp w) -> s_is st SSucceeded = false ->
       forall s, w_sug w = Some s -> rv = s_rv s -> s_is (s_st s) SSucceeded = true -> sn seen w;
  k6 : forall st rv onf, In (WSugStatus st rv, onf) (p_sug w) -> forall s, w_sug w = Some s -> rv = s_rv s -> s_is (s_st s) SSucceeded = false;
  k7 : forall c st rv onf, In (WSugStatus st rv, onf) (pending_of w c) -> c = CExp \/ (c = CSug /\ s_is st SSucceeded = false) }.

Lemma SwInv_init c : SwInv false (init c).
Proof.
  constructor; cbn.
  - intros ce [= <-]. cbn. unfold restart_enabled_e, restartable. cbn. discriminate.
  - intros ce [= <-]. cbn. discriminate.
  - intros st rv onf [].
  - discriminate.
  - intros st rv onf [].
  - intros st rv onf [].
  - intros [] st rv onf [].
Qed.

Lemma sn_next seen w w' : sn seen w -> sn (seen || re_now w) w'.
Proof. unfold sn. intro H. now rewrite H. Qed.

Lemma sn_now seen w w' : re_now w = true -> sn (seen || re_now w) w'.
Proof. unfold sn. intros ->. now rewrite orb_true_r. Qed.

(* a verdict of the stored experiment is withdrawn only when the restart is enabled *)
Lemma exp_undone w a : Inv w -> is_teardown a = false -> exp_done_b w = true -> exp_done_b (step w a) = false -> re_now w = true.
Proof.
  intros Iv NT D D'. unfold exp_done_b, re_now in *. destruct (w_exp w) as [e|] eqn:He; [|discriminate].
  destruct (restart_enabled_e (w_cfg w) e) eqn:R; [reflexivity|]. exfalso.
  destruct (verdict_stable_step w a e Iv NT He D R) as (e'&He'&S). rewrite He' in D'.
  rewrite (verdict_same_completed _ _ S D) in D'. discriminate.
Qed.

Lemma begin_exp_sug w key resp dberr : w_sug (step w (Begin CExp key resp dberr)) = w_sug w.
Proof. apply begin_store_sug. Qed.

Lemma step_sw seen w a : AllInv w -> SwInv seen w -> is_teardown a = false -> SwInv (seen || re_now w) (step w a).
Proof.
  intros A [K1 K2 K3 I1 K5 K6 K7] NT. pose proof A as (Iv&_&_&_&N). pose proof Iv as [I P].
  destruct (step_inv2 w a NT Iv) as [Iv' Ev]. pose proof Iv' as [I' _].
  assert (Done : exp_done_b w = true -> exp_done_b (step w a) = false -> sn (seen || re_now w) (step w a)).
  { intros D D'. apply sn_now. now apply (exp_undone w a). }
  assert (Cfg : w_cfg (step w a) = w_cfg w) by apply step_cfg.
  constructor.
  - (* k1 *)
    intros ce Hce R. rewrite Cfg in R. destruct (step_cexp w a) as [E|E]; rewrite E in Hce.
    + apply sn_next. eapply K1; eauto.
    + unfold sn, re_now. rewrite Hce, Cfg, R. now rewrite !orb_true_r.
  - (* k2 *)
    intros ce Hce C D'. destruct (step_cexp w a) as [E|E]; rewrite E in Hce.
    + destruct (exp_done_b w) eqn:D; [now apply Done|]. apply sn_next. eapply K2; eauto.
    + exfalso. unfold exp_done_b in D'. rewrite Hce in D'. congruence.
  - (* k3 *)
    intros st rv onf Hx S D'. change (p_exp (step w a)) with (pending_of (step w a) CExp) in Hx.
    destruct (step_pending2 _ _ _ _ Hx) as [H|(Ep&key&resp&dberr&Ea&H)].
    + destruct (exp_done_b w) eqn:D; [now apply Done|]. apply sn_next. eapply K3; eauto.
    + subst a. destruct (i_exp _ I) as (e0&ce&_&Hce&_).
      destruct (plan_exp_sug_kinds w ce st rv onf I Hce H) as [(_&C)|(S'&_)]; [|congruence].
      destruct (begin_exp_store w key resp dberr) as (E1&_). unfold exp_done_b in D'. rewrite E1 in D'.
      apply sn_next. eapply K2; eauto.
  - (* i1 *)
    intros Sg D'.
    destruct (exp_done_b w) eqn:D; [now apply Done|].
    destruct (sug_succ_b w) eqn:Sg0; [apply sn_next; now apply I1|].
    (* the suggestion became Succeeded at this step: a pending write landed *)
    unfold sug_succ_b in Sg, Sg0.
    destruct (step_sugev w a NT) as [w' E1 _|w' r Nn E1 _|w' s0 r Hs0 E1 _|w' s0 st0 c0 onf0 Hs0 Ip Nb E1 _].
    + rewrite E1 in Sg. congruence.
    + rewrite E1 in Sg. cbn in Sg. discriminate.
    + rewrite E1 in Sg. rewrite Hs0 in Sg0. cbn in Sg. congruence.
    + rewrite E1 in Sg. cbn in Sg. destruct (K7 _ _ _ _ Ip) as [-> |(_&X)]; [|congruence].
      apply sn_next. eapply K3; eauto.
  - (* k5 *)
    intros st rv onf Hx S s' Hs' Rv Sg'. change (p_exp (step w a)) with (pending_of (step w a) CExp) in Hx.
    destruct (step_pending2 _ _ _ _ Hx) as [H|(Ep&key&resp&dberr&Ea&H)].
    + pose proof (pending_of_ok w CExp P) as WO. rewrite Forall_forall in WO. specialize (WO _ H).
      unfold write_ok in WO. cbn [fst] in WO. destruct WO as (_&_&s&Hs&Rle&_).
      destruct (step_sugev w a NT) as [w' E1 _|w' r Nn E1 _|w' s0 r Hs0 E1 _|w' s0 st0 c0 onf0 Hs0 Ip Nb E1 _].
      * rewrite E1, Hs in Hs'. inversion Hs'; subst s'. apply sn_next. eapply K5; eauto.
      * congruence.
      * rewrite Hs in Hs0. inversion Hs0; subst s0. rewrite E1 in Hs'. inversion Hs'; subst s'. cbn in Rv. lia.
      * rewrite Hs in Hs0. inversion Hs0; subst s0. rewrite E1 in Hs'. inversion Hs'; subst s'. cbn in Rv. lia.
    + subst a. rewrite begin_exp_sug in Hs'.
      destruct (i_exp _ I) as (e0&ce&He0&Hce&Le&_).
      destruct (plan_exp_sug_kinds w ce st rv onf I Hce H) as [(S'&_)|(_&[R|(st1&X)])]; [congruence| |].
      * apply sn_next. eapply K1; eauto.
      * (* the repair branch: the stored suggestion is Succeeded *)
        assert (Sg0 : sug_succ_b w = true) by (unfold sug_succ_b; now rewrite Hs').
        destruct (exp_done_b w) eqn:D; [|apply sn_next; now apply I1].
        destruct (Bool.bool_dec (re_now w) true) as [Rn|Rn]; [now apply sn_now|apply Bool.not_true_is_false in Rn]. exfalso.
        unfold exp_done_b, re_now in D, Rn. rewrite He0 in D, Rn.
        assert (J : justified w (e_max ce)).
        { eapply justified_max_le; [destruct Le as (_&_&M); exact M|]. eapply (nc_v _ N); eauto. split; assumption. }
        rewrite (reconcile_no_sug_status w ce st1 (or_intror J)) in X. discriminate.
  - (* k6 *)
    intros st rv onf Hx s' Hs' Rv. change (p_sug (step w a)) with (pending_of (step w a) CSug) in Hx.
    destruct (step_pending2 _ _ _ _ Hx) as [H|(Ep&key&resp&dberr&Ea&H)].
    + pose proof (pending_of_ok w CSug P) as WO. rewrite Forall_forall in WO. specialize (WO _ H).
      unfold write_ok in WO. cbn [fst] in WO. destruct WO as (_&_&s&Hs&Rle&_).
      destruct (step_sugev w a NT) as [w' E1 _|w' r Nn E1 _|w' s0 r Hs0 E1 _|w' s0 st0 c0 onf0 Hs0 Ip Nb E1 _].
      * rewrite E1, Hs in Hs'. inversion Hs'; subst s'. eapply K6; eauto.
      * congruence.
      * rewrite Hs in Hs0. inversion Hs0; subst s0. rewrite E1 in Hs'. inversion Hs'; subst s'. cbn in Rv. lia.
      * rewrite Hs in Hs0. inversion Hs0; subst s0. rewrite E1 in Hs'. inversion Hs'; subst s'. cbn in Rv. lia.
    + subst a. rewrite begin_store_sug in Hs'.
      destruct (plan_sug_shape _ _ _ H) as (cs&Hcs&[(k&[X|X])|(st'&X&_)]); try discriminate.
      inversion X as [[Est Erv]].
      assert (Le : sle cs s'). { pose proof (i_sug _ I) as IS. rewrite Hs', Hcs in IS. tauto. }
      destruct Le as (_&Eq&_). rewrite Erv in Rv. rewrite <- (Eq Rv).
      eapply plan_sug_not_from_succ; eauto.
  - (* k7 *)
    intros c st rv onf Hx. destruct (step_pending2 _ _ _ _ Hx) as [H|(Ep&key&resp&dberr&Ea&H)]; [eauto|].
    destruct c; [now left|right|exfalso].
    + split; [reflexivity|]. eapply plan_sug_succ; eauto.
    + eapply plan_trial_no_sug; eauto.
Qed.

(* ------------------------------------------------------------------ the walk monitor on the model's projections *)

Lemma re_now_project w : Inv w -> restart_enabled (w_cfg w) (project w) = re_now w.
Proof.
  intros [I _]. destruct (inv_exp_some _ I) as (e&He&_). unfold re_now. rewrite He. now apply restart_enabled_project.
Qed.

Lemma sug_succ_project w : sug_succeeded (project w) = sug_succ_b w.
Proof. unfold sug_succ_b. apply sug_succeeded_project. Qed.

Theorem sug_restart_step_model seen w a :
  AllInv w -> SwInv seen w -> is_teardown a = false ->
  (if sug_succeeded (project w) && negb (sug_succeeded (project (step w a))) && is_some (pj_sug (project (step w a)))
   then seen || restart_enabled (w_cfg w) (project w) else true) = true.
Proof.
  intros A [K1 K2 K3 I1 K5 K6 K7] NT. pose proof A as (Iv&_).
  rewrite !sug_succ_project, (re_now_project w Iv).
  destruct (sug_succ_b w) eqn:Sg0; [|reflexivity]. destruct (sug_succ_b (step w a)) eqn:Sg1; [reflexivity|]. cbn [negb andb].
  rewrite pj_sug_project. destruct (w_sug (step w a)) as [s1|] eqn:Hs1; [|reflexivity]. cbn [option_map is_some].
  unfold sug_succ_b in Sg0, Sg1. rewrite Hs1 in Sg1.
  destruct (step_sugev w a NT) as [w' E1 _|w' r Nn E1 _|w' s0 r Hs0 E1 _|w' s0 st0 c0 onf0 Hs0 Ip Nb E1 _].
  - rewrite <- E1, Hs1 in Sg0. congruence.
  - rewrite Nn in Sg0. discriminate.
  - rewrite Hs0 in Sg0. rewrite Hs1 in E1. inversion E1; subst s1. cbn in Sg1. congruence.
  - rewrite Hs0 in Sg0. rewrite Hs1 in E1. inversion E1; subst s1. cbn in Sg1.
    destruct (K7 _ _ _ _ Ip) as [-> |(-> &_)].
    + exact (K5 _ _ _ Ip Sg1 s0 Hs0 eq_refl Sg0).
    + pose proof (K6 _ _ _ Ip s0 Hs0 eq_refl). congruence.
Qed.

Theorem sug_restart_walk_model seen w acts :
  AllInv w -> SwInv seen w -> no_teardown acts -> sug_restart_walk (w_cfg w) seen (project w) (msteps w acts) = true.
Proof.
  revert seen w. induction acts as [|a l IH]; intros seen w A S NT; [reflexivity|].
  apply no_teardown_cons in NT as [Na NT]. pose proof A as (Iv&_). cbn [msteps sug_restart_walk].
  apply andb_true_iff. split; [now apply sug_restart_step_model|].
  rewrite (re_now_project w Iv). rewrite <- (step_cfg w a). apply IH; [now apply AllInv_step|now apply step_sw|exact NT].
Qed.

Theorem sug_restart_monitor_sound c acts :
  valid_cfg c -> no_teardown acts -> sug_restart_walk c false (project (init c)) (msteps (init c) acts) = true.
Proof.
  intros V NT. change c with (w_cfg (init c)) at 1.
  apply sug_restart_walk_model; [exact (all_invs c [] V eq_refl)|apply SwInv_init|exact NT].
Qed.

(* ------------------------------------------------------------------ the raise clause: an admissible raise is honoured *)
Theorem raise_step_model w a : raise_step (w_cfg w) (project w) a (project (step w a)) = true.
Proof.
  unfold raise_step. destruct a; try reflexivity.
  unfold project at 1. cbn [pj_exp]. destruct (w_exp w) as [e|] eqn:He; [|reflexivity]. cbn [pe_max pe_conds pe_deleting].
  destruct (e_max e) as [m|] eqn:Hm; [|reflexivity].
  cbn [step]. rewrite He, Hm.
  assert (Eq : (negb (pe_completed {| pe_max := Some m; pe_fin := e_fin e; pe_deleting := e_deleting e; pe_conds := es_conds (e_st e);
                                      pe_counts := es_counts (e_st e); pe_classes := es_classes (e_st e); pe_opt := es_opt (e_st e);
                                      pe_ctime := is_some (es_ctime (e_st e)) |})
               || match get_cond (es_conds (e_st e)) ESucceeded with
                  | Some c => cstatus_eqb (cstat c) CTrue && Nat.eqb (creason c) RMaxTrialsReached &&
                              match c_resume (w_cfg w) with LongRunning | FromVolume => true | Never => false end
                  | None => false end)
              = (negb (e_completed (e_st e)) || restartable (w_cfg w) (e_st e))) by reflexivity.
  rewrite Eq.
  destruct ((m <? n) && negb (e_deleting e) && (negb (e_completed (e_st e)) || restartable (w_cfg w) (e_st e))); [|reflexivity].
  unfold project. cbn. apply Z.eqb_refl.
Qed.

Theorem raise_steps_model w acts : all_steps (raise_step (w_cfg w)) (project w) (msteps w acts) = true.
Proof.
  revert w. induction acts as [|a l IH]; intro w; [reflexivity|]. cbn [msteps all_steps]. rewrite raise_step_model. cbn [andb].
  rewrite <- (step_cfg w a). apply IH.
Qed.
