(* Lemmas about the model of the Go suggestion service (C18): value post-processing. *)
From KV Require Import Base.Prelude Model.Goptuna.
From Coq Require Import Floats.
Close Scope float_scope.
Open Scope Z_scope.

(* ------------------------------------------------------------------ rounding *)

Lemma rnd_le a b H : 0 < b -> 0 <= H -> 2 * a + b < 2 * b * (H + 1) -> rnd_half_away a b <= H.
Proof.
  intros Hb HH Hlt. unfold rnd_half_away. destruct (0 <=? a) eqn:E.
  - assert ((2 * a + b) / (2 * b) < H + 1) by (apply Z.div_lt_upper_bound; lia). lia.
  - apply Z.leb_gt in E. assert (0 <= (2 * - a + b) / (2 * b)) by (apply Z.div_pos; lia). lia.
Qed.

Lemma rnd_ge a b L : 0 < b -> L * b <= a -> L <= rnd_half_away a b.
Proof.
  intros Hb Hle. unfold rnd_half_away. destruct (0 <=? a) eqn:E.
  - apply Z.leb_le in E. destruct (Z_le_gt_dec L 0) as [HL|HL].
    + assert (0 <= (2 * a + b) / (2 * b)) by (apply Z.div_pos; lia). lia.
    + apply Z.div_le_lower_bound; nia.
  - apply Z.leb_gt in E.
    assert ((2 * - a + b) / (2 * b) < - L + 1) by (apply Z.div_lt_upper_bound; nia). lia.
Qed.

Lemma rnd_le_int a b H : 0 < b -> a <= H * b -> rnd_half_away a b <= H.
Proof.
  intros Hb Hle. unfold rnd_half_away. destruct (0 <=? a) eqn:E.
  - apply Z.leb_le in E. assert ((2 * a + b) / (2 * b) < H + 1) by (apply Z.div_lt_upper_bound; nia). lia.
  - apply Z.leb_gt in E. destruct (Z_le_gt_dec 0 H) as [HH|HH].
    + assert (0 <= (2 * - a + b) / (2 * b)) by (apply Z.div_pos; lia). lia.
    + assert (- H <= (2 * - a + b) / (2 * b)) by (apply Z.div_le_lower_bound; nia). lia.
Qed.

Lemma pow2_pos k : 0 < 2 ^ k \/ 2 ^ k = 0.
Proof. destruct (Z_le_gt_dec 0 k); [left; apply Z.pow_pos_nonneg; lia|right; apply Z.pow_neg_r; lia]. Qed.

(* ------------------------------------------------------------------ int *)

(* IntUniformDistribution: a draw anywhere in [low, high] (TPE rounds, CMA-ES and Sobol give reals, random gives integers) *)
Lemma int_feasible lo hi d :
  0 <= d_k d -> lo * 2 ^ d_k d <= d_num d <= hi * 2 ^ d_k d -> lo <= ext_int d <= hi.
Proof.
  intros Hk [H1 H2]. unfold ext_int. assert (0 < 2 ^ d_k d) by (apply Z.pow_pos_nonneg; lia).
  split; [apply rnd_ge|apply rnd_le_int]; assumption.
Qed.

Definition top_grid (lo hi step : Z) : Z := lo + step * ((hi - lo) / step).

(* StepIntUniformDistribution, draw between low and the top grid point (random and Sobol samplers; every sampler once High is aligned) *)
Lemma stepint_feasible_top lo hi step d :
  0 <= d_k d -> 0 < step -> lo <= hi ->
  lo * 2 ^ d_k d <= d_num d <= top_grid lo hi step * 2 ^ d_k d ->
  lo <= ext_stepint lo step d <= hi /\ (ext_stepint lo step d - lo) mod step = 0.
Proof.
  intros Hk Hs Hlh [H1 H2]. unfold ext_stepint, top_grid in *.
  assert (HB : 0 < 2 ^ d_k d) by (apply Z.pow_pos_nonneg; lia).
  set (B := 2 ^ d_k d) in *. set (q := (hi - lo) / step) in *.
  assert (Hq : step * q <= hi - lo) by (apply Z.mul_div_le; lia).
  assert (Hq0 : 0 <= q) by (apply Z.div_pos; lia).
  assert (R1 : 0 <= rnd_half_away (d_num d - lo * B) (step * B)) by (apply rnd_ge; nia).
  assert (R2 : rnd_half_away (d_num d - lo * B) (step * B) <= q) by (apply rnd_le_int; nia).
  split; [nia|]. replace (rnd_half_away (d_num d - lo * B) (step * B) * step + lo - lo)
    with (rnd_half_away (d_num d - lo * B) (step * B) * step) by ring. apply Z_mod_mult.
Qed.

(* StepIntUniformDistribution, draw anywhere in [low, high] (TPE, CMA-ES) when the remainder of the range rounds DOWN *)
Lemma stepint_feasible_rounddown lo hi step d :
  0 <= d_k d -> 0 < step -> lo <= hi -> 2 * ((hi - lo) mod step) < step ->
  lo * 2 ^ d_k d <= d_num d <= hi * 2 ^ d_k d ->
  lo <= ext_stepint lo step d <= hi /\ (ext_stepint lo step d - lo) mod step = 0.
Proof.
  intros Hk Hs Hlh Hr [H1 H2]. unfold ext_stepint.
  assert (HB : 0 < 2 ^ d_k d) by (apply Z.pow_pos_nonneg; lia).
  set (B := 2 ^ d_k d) in *.
  pose proof (Z.div_mod (hi - lo) step ltac:(lia)) as Hdm.
  pose proof (Z.mod_pos_bound (hi - lo) step Hs) as Hmb.
  set (q := (hi - lo) / step) in *. set (r := (hi - lo) mod step) in *.
  assert (Hq0 : 0 <= q) by (apply Z.div_pos; lia).
  assert (R1 : 0 <= rnd_half_away (d_num d - lo * B) (step * B)) by (apply rnd_ge; nia).
  assert (R2 : rnd_half_away (d_num d - lo * B) (step * B) <= q) by (apply rnd_le; nia).
  split; [nia|]. replace (rnd_half_away (d_num d - lo * B) (step * B) * step + lo - lo)
    with (rnd_half_away (d_num d - lo * B) (step * B) * step) by ring. apply Z_mod_mult.
Qed.

(* the value is on the grid and not below low for every draw >= low, whatever the sampler *)
Lemma stepint_grid lo step d :
  0 <= d_k d -> 0 < step -> lo * 2 ^ d_k d <= d_num d ->
  lo <= ext_stepint lo step d /\ (ext_stepint lo step d - lo) mod step = 0.
Proof.
  intros Hk Hs H1. unfold ext_stepint.
  assert (HB : 0 < 2 ^ d_k d) by (apply Z.pow_pos_nonneg; lia).
  set (B := 2 ^ d_k d) in *.
  assert (R1 : 0 <= rnd_half_away (d_num d - lo * B) (step * B)) by (apply rnd_ge; nia).
  split; [nia|]. replace (rnd_half_away (d_num d - lo * B) (step * B) * step + lo - lo)
    with (rnd_half_away (d_num d - lo * B) (step * B) * step) by ring. apply Z_mod_mult.
Qed.

(* REFUTED for draws in [low, high] in general: min 0, max 5, step 3, draw 5 -> 6 *)
Lemma stepint_refuted :
  exists lo hi step d, 0 < step /\ lo <= hi /\ 0 <= d_k d /\
    lo * 2 ^ d_k d <= d_num d <= hi * 2 ^ d_k d /\ hi < ext_stepint lo step d.
Proof. exists 0, 5, 3, (Draw 5 0 0). vm_compute. repeat split; try reflexivity; discriminate. Qed.

(* ------------------------------------------------------------------ categorical / discrete *)

Lemma cat_feasible choices d :
  0 <= d_k d -> 0 <= d_num d < Z.of_nat (length choices) * 2 ^ d_k d ->
  exists c, ext_cat choices d = Ok c /\ In c choices.
Proof.
  intros Hk [H1 H2]. unfold ext_cat.
  assert (HB : 0 < 2 ^ d_k d) by (apply Z.pow_pos_nonneg; lia).
  rewrite Z.quot_div_nonneg by lia.
  assert (Hq : 0 <= d_num d / 2 ^ d_k d) by (apply Z.div_pos; lia).
  assert (Hq2 : d_num d / 2 ^ d_k d < Z.of_nat (length choices)) by (apply Z.div_lt_upper_bound; nia).
  destruct (d_num d / 2 ^ d_k d <? 0) eqn:E; [apply Z.ltb_lt in E; lia|].
  destruct (nth_error choices (Z.to_nat (d_num d / 2 ^ d_k d))) as [c|] eqn:N.
  - exists c. split; [reflexivity|]. eapply nth_error_In; eauto.
  - apply nth_error_None in N. lia.
Qed.

(* discrete and categorical parameters both become the categorical distribution over the parameter's own list *)
Lemma discrete_is_categorical p :
  p_type p = PDiscrete \/ p_type p = PCategorical -> to_dist p = Ok (DCat (p_list p)).
Proof. intros [H|H]; unfold to_dist; rewrite H; reflexivity. Qed.

(* ------------------------------------------------------------------ double *)

(* without step the external value is the draw itself: feasibility is exactly the sampler's range assumption *)
Lemma uniform_is_draw lo hi d v : sample_one (DUniform lo hi) d = Ok v -> v = RFlt (d_bits d).
Proof. unfold sample_one. destruct (f64_lt_bits hi lo); intro H; [discriminate|injection H as <-; reflexivity]. Qed.

(* REFUTED with step: min 0.1, max 0.9, step 0.3, draw 0.9 (inside [min,max]) -> 0.99999999999999989 > max *)
Lemma dstep_refuted :
  exists lo hi q x : float,
    PrimFloat.leb lo hi = true /\ PrimFloat.leb lo x = true /\ PrimFloat.leb x hi = true /\
    PrimFloat.ltb hi (dstep lo q x) = true.
Proof. exists 0x1.999999999999ap-4%float, 0x1.ccccccccccccdp-1%float, 0x1.3333333333333p-2%float, 0x1.ccccccccccccdp-1%float. vm_compute. auto. Qed.

(* ... and an aligned range does not help: min 0, max 0.3, step 0.1 -> 0.30000000000000004 *)
Lemma dstep_refuted_aligned :
  exists lo hi q x : float,
    PrimFloat.leb lo x = true /\ PrimFloat.leb x hi = true /\ PrimFloat.ltb hi (dstep lo q x) = true.
Proof. exists 0%float, 0x1.3333333333333p-2%float, 0x1.999999999999ap-4%float, 0x1.3333333333333p-2%float. vm_compute. auto. Qed.
