(* Reflexivity of the boolean equalities used for "did the status change?" *)
From KV Require Import Base.Prelude Base.Cond Model.World.
Open Scope Z_scope.

Lemma list_eqb_refl {A} (eqb : A -> A -> bool) l : (forall a, eqb a a = true) -> list_eqb eqb l l = true.
Proof. intro H. induction l as [|a l IH]; cbn; [reflexivity|]. now rewrite H, IH. Qed.

Lemma option_eqb_refl {A} (eqb : A -> A -> bool) o : (forall a, eqb a a = true) -> option_eqb eqb o o = true.
Proof. intro H. destruct o; cbn; auto. Qed.

Lemma cond_eqb_refl c : cond_eqb c c = true.
Proof. now apply cond_eqb_spec. Qed.

Lemma class_eqb_refl k : class_eqb k k = true.
Proof. destruct k; reflexivity. Qed.

Lemma obs_eqb_refl o : obs_eqb o o = true.
Proof. unfold obs_eqb, optZ_eqb. apply option_eqb_refl. intro a. apply option_eqb_refl. apply Z.eqb_refl. Qed.

Lemma counts_eqb_refl c : counts_eqb c c = true.
Proof. unfold counts_eqb. now rewrite !Z.eqb_refl. Qed.

Lemma estatus_eqb_refl st : estatus_eqb st st = true.
Proof.
  unfold estatus_eqb, conds_eqb, optnat_eqb.
  rewrite (list_eqb_refl cond_eqb _ cond_eqb_refl), counts_eqb_refl.
  rewrite list_eqb_refl by (intros [a b]; cbn; now rewrite Nat.eqb_refl, class_eqb_refl).
  rewrite option_eqb_refl by (intros [a b]; cbn; now rewrite Nat.eqb_refl, obs_eqb_refl).
  rewrite option_eqb_refl by apply Nat.eqb_refl. reflexivity.
Qed.

Lemma sstatus_eqb_refl st : sstatus_eqb st st = true.
Proof.
  unfold sstatus_eqb, conds_eqb.
  rewrite (list_eqb_refl Nat.eqb _ Nat.eqb_refl), Z.eqb_refl, (list_eqb_refl cond_eqb _ cond_eqb_refl), Nat.eqb_refl. reflexivity.
Qed.
