(* The boolean monitors of C02 are implied by the theorems about the model: on inputs satisfying the hypotheses of the
   theorems, the model's own output never fails the monitor, whatever order the placeholder map is iterated in. *)
From KV Require Import Base.Prelude Model.Template Model.TrialInstance Proofs.TemplateP Proofs.TemplateA Proofs.TrialInstanceP Corr.C02.
From Coq Require Import Permutation.

(* ------------------------------------------------------------------ small tools *)

Lemma existsb_a_eqb a l : existsb (a_eqb a) l = true <-> In a l.
Proof.
  rewrite existsb_exists. split.
  - intros (x & I & E). apply a_eqb_spec in E. now subst.
  - intro I. exists a. split; [exact I|apply a_eqb_refl].
Qed.

Lemma nodupb_spec l : nodupb l = true <-> NoDup l.
Proof.
  induction l as [|a l IH]; simpl.
  - split; [constructor|reflexivity].
  - rewrite andb_true_iff, negb_true_iff, IH. split.
    + intros [E N]. constructor; [|exact N]. intro I. apply existsb_a_eqb in I. congruence.
    + intro N. inversion N as [|? ? NI N']; subst. split; [|exact N'].
      destruct (existsb (a_eqb a) l) eqn:E; [|reflexivity]. apply existsb_a_eqb in E. contradiction.
Qed.

Lemma strs_eqb_refl l : strs_eqb l l = true.
Proof. apply (list_eqb_spec a_eqb a_eqb_spec). reflexivity. Qed.

Lemma s2l_inv l : s2l (string_of_list_ascii l) = l.
Proof. apply list_ascii_of_string_of_list_ascii. Qed.

(* ------------------------------------------------------------------ spec_env is the map built by the loop *)

Lemma loop_fold gi : forall ps e cnt e' cnt', loop gi (e, cnt) ps = Ok (e', cnt') ->
  e' = fold_left (fun m p => match meaning gi (snd p) with Ok v => a_set (fst p) v m | _ => m end) ps e.
Proof.
  induction ps as [|[n r] ps IH]; intros e cnt e' cnt' H; unfold loop in *; cbn [param_loop] in H.
  - now injection H as <- <-.
  - rewrite step_meaning in H. cbn [fold_left fst snd]. destruct (meaning gi r) eqn:M; try discriminate.
    now apply IH in H.
Qed.

Lemma build_env_spec_env gi e : build_env gi = Ok e -> spec_env gi = e.
Proof.
  unfold build_env. fold (loop gi ([], 0) (gi_tps gi)).
  destruct (loop gi ([], 0) (gi_tps gi)) as [[e' cnt]| |] eqn:L; try discriminate.
  destruct (Nat.eqb (length (gi_assign gi)) cnt); try discriminate. intros [= <-].
  symmetry. eapply loop_fold. exact L.
Qed.

(* ------------------------------------------------------------------ must_fail agrees with build_env *)

Lemma refs_resolve_b gi : forallb (fun p => is_ok (meaning gi (snd p))) (gi_tps gi) = true <-> refs_resolve gi.
Proof. unfold refs_resolve. rewrite forallb_forall, Forall_forall. tauto. Qed.

Lemma plain_refs_assigned gi : refs_resolve gi -> incl (plain_refs (gi_tps gi)) (map fst (gi_assign gi)).
Proof.
  intros F r J. unfold plain_refs in J. apply filter_In in J as [J P].
  unfold refs_resolve in F. rewrite Forall_forall in F. apply in_map_iff in J as ([m q] & <- & J).
  specialize (F _ J). cbn [snd] in *. destruct (meaning gi q) as [v| |] eqn:M; try discriminate.
  apply meaning_plain_assigned in M; [|exact P]. apply (in_map fst) in M. exact M.
Qed.

Lemma must_fail_sound src gi :
  match must_fail src gi with
  | Some true => get_template_check src <> Ok tt \/ forall e, build_env gi <> Ok e
  | Some false => get_template_check src = Ok tt /\ exists e, build_env gi = Ok e
  | None => True
  end.
Proof.
  unfold must_fail, source_available.
  destruct (get_template_check src) as [[]|c|c] eqn:T; cbn [is_ok negb]; [|left; discriminate|left; discriminate].
  destruct (forallb (fun p => is_ok (meaning gi (snd p))) (gi_tps gi)) eqn:F; cbn [negb].
  - apply refs_resolve_b in F.
    destruct (nodupb (map fst (gi_assign gi)) && nodupb (plain_refs (gi_tps gi))) eqn:ND; [|exact I].
    apply andb_prop in ND as [N1 N2]. apply nodupb_spec in N1, N2.
    destruct (forallb (fun a => existsb (a_eqb a) (plain_refs (gi_tps gi))) (map fst (gi_assign gi))) eqn:A; cbn [negb].
    + split; [reflexivity|]. apply build_env_total; [exact F|].
      assert (I1 : incl (map fst (gi_assign gi)) (plain_refs (gi_tps gi))).
      { intros a J. rewrite forallb_forall in A. apply existsb_a_eqb. now apply A. }
      assert (I2 := plain_refs_assigned gi F).
      assert (L1 := NoDup_incl_length N1 I1). assert (L2 := NoDup_incl_length N2 I2).
      rewrite map_length in *. lia.
    + right. intros e B. apply count_check_ok in B as [_ B]. specialize (B N1 N2).
      assert (X : forallb (fun a => existsb (a_eqb a) (plain_refs (gi_tps gi))) (map fst (gi_assign gi)) = true).
      { apply forallb_forall. intros a J. apply existsb_a_eqb. now apply B. }
      congruence.
  - right. intros e B. apply build_env_ok in B as (R & _). apply refs_resolve_b in R. congruence.
Qed.

(* ------------------------------------------------------------------ the generator monitor *)

Definition obs_of_run (r : outcome run_spec) : outcome gobs :=
  match r with
  | Ok rs => Ok {| go_leaves := map string_of_list_ascii (rs_leaves rs); go_name := string_of_list_ascii (rs_name rs);
                   go_ns := string_of_list_ascii (rs_ns rs); go_skeleton_same := true |}
  | Err c => Err c
  | Crash c => Crash c
  end.

(* hypotheses of the substitution theorem for a whole document (list of leaves) *)
Definition doc_ok (gi : gen_input) (tpl : list (list achunk)) : Prop :=
  Forall (fun cs => tpl_names_ok gi cs /\ lits_ok cs /\ tpl_vals_ok cs) tpl.

Lemma leaves_ok_model gi env (ord : amap) : forall tpl,
  doc_ok gi tpl -> gi_vals_ok gi -> build_env gi = Ok env -> Permutation ord env ->
  leaves_ok env tpl (map s2l (map string_of_list_ascii (map (a_replace_seq ord) (map a_render tpl)))) = true.
Proof.
  intros tpl D G B P. induction D as [|cs tpl (N & L & V) D IH]; [reflexivity|].
  cbn [map leaves_ok]. rewrite IH, andb_true_r. rewrite s2l_inv.
  assert (B' := B). apply build_env_ok in B' as (_ & _ & ND & K & _ & PV).
  destruct N as [N1 N2].
  assert (NO : names_ok cs env) by (split; [exact N1|]; intros n I; apply N2; now apply K).
  assert (VO : vals_ok cs env).
  { split; [exact V|]. apply PV. intros r v _ M. eapply meaning_val_ok; eassumption. }
  unfold leaf_ok. rewrite (a_substitution cs env ord NO L VO ND P), a_eqb_refl. cbn [andb].
  destruct (a_declaredb cs env) eqn:DC; [|reflexivity]. cbn [negb orb].
  rewrite a_no_leftover; try assumption; [reflexivity|].
  apply (declaredb_spec ascii Ascii.eqb) in DC. exact DC.
Qed.

Theorem g_monitor_model : forall (reorder : amap -> amap) src gi tpl,
  (forall e, Permutation (reorder e) e) -> doc_ok gi tpl -> gi_vals_ok gi ->
  g_monitor src gi tpl (obs_of_run (get_run_spec reorder src gi (map a_render tpl))) = true.
Proof.
  intros reorder src gi tpl P D G. unfold get_run_spec, g_monitor.
  assert (MF := must_fail_sound src gi).
  destruct (get_template_check src) as [[]|c|c] eqn:T.
  - destruct (build_env gi) as [env|c|c] eqn:B; cbn [obs_of_run].
    + destruct (must_fail src gi) as [[|]|].
      * destruct MF as [X|X]; [congruence|]. exfalso. exact (X env eq_refl).
      * cbn [go_leaves go_name go_ns go_skeleton_same rs_leaves rs_name rs_ns].
        rewrite (build_env_spec_env gi env B), !s2l_inv, !a_eqb_refl, !andb_true_r.
        apply (leaves_ok_model gi env (reorder env)); auto.
      * cbn [go_leaves go_name go_ns go_skeleton_same rs_leaves rs_name rs_ns].
        rewrite (build_env_spec_env gi env B), !s2l_inv, !a_eqb_refl, !andb_true_r.
        apply (leaves_ok_model gi env (reorder env)); auto.
    + destruct (must_fail src gi) as [[|]|]; try reflexivity. destruct MF as [_ [e X]]. congruence.
    + (* build_env never crashes *)
      exfalso. unfold build_env in B. fold (loop gi ([], 0) (gi_tps gi)) in B.
      destruct (loop gi ([], 0) (gi_tps gi)) as [[e' cnt]| |] eqn:L; try discriminate.
      * destruct (Nat.eqb (length (gi_assign gi)) cnt); discriminate.
      * exact (loop_no_crash gi _ _ _ L).
  - cbn [obs_of_run]. destruct (must_fail src gi) as [[|]|]; try reflexivity. destruct MF as [X _]. discriminate.
  - exfalso. destruct src as [|[k|] p b]; simpl in T; try discriminate.
    destruct (existsb (a_eqb p) k); [destruct b|]; discriminate.
Qed.

(* ------------------------------------------------------------------ the trial monitor *)

Lemma pair_eqb_refl p : pair_eqb p p = true.
Proof. unfold pair_eqb. now rewrite !Nat.eqb_refl. Qed.
Lemma owner_eqb_refl o : owner_eqb o o = true.
Proof. unfold owner_eqb. rewrite !Nat.eqb_refl, !eqb_reflx. reflexivity. Qed.
Lemma list_eqb_refl {A} (f : A -> A -> bool) l : (forall a, f a a = true) -> list_eqb f l l = true.
Proof. intro H. induction l; simpl; [reflexivity|]. now rewrite H, IHl. Qed.
Lemma option_nat_eqb_refl o : option_eqb Nat.eqb o o = true.
Proof. destruct o; simpl; [apply Nat.eqb_refl|reflexivity]. Qed.

Lemma nlookup_In k v m : nlookup k m = Some v -> In (k, v) m.
Proof.
  induction m as [|[k' w] m IH]; simpl; [discriminate|].
  destruct (Nat.eqb k k') eqn:E; [apply Nat.eqb_eq in E; subst; intros [= ->]; now left|]. intro H. right. auto.
Qed.

Lemma nlookup_nodup k v m : NoDup (map fst m) -> In (k, v) m -> nlookup k m = Some v.
Proof.
  induction m as [|[k' w] m IH]; simpl; [intros _ []|]. intros ND [[= -> ->]|I].
  - now rewrite Nat.eqb_refl.
  - inversion ND as [|? ? NI ND']; subst. destruct (Nat.eqb k k') eqn:E.
    + apply Nat.eqb_eq in E. subst. exfalso. apply NI. apply (in_map fst) in I. exact I.
    + auto.
Qed.

Lemma nlookup_rev k m : NoDup (map fst m) -> nlookup k (rev m) = nlookup k m.
Proof.
  intro ND. assert (ND' : NoDup (map fst (rev m))) by (rewrite map_rev; apply NoDup_rev; exact ND).
  destruct (nlookup k m) as [v|] eqn:L.
  - apply nlookup_nodup; [exact ND'|]. apply in_rev. rewrite rev_involutive. now apply nlookup_In.
  - destruct (nlookup k (rev m)) as [v|] eqn:L'; [|reflexivity].
    apply nlookup_In in L'. apply in_rev in L'. apply nlookup_nodup in L'; [congruence|exact ND].
Qed.

Lemma nset_keys k v m x : In x (map fst (nset k v m)) <-> x = k \/ In x (map fst m).
Proof.
  induction m as [|[k' w] m IH]; simpl; [intuition|].
  destruct (Nat.eqb k k') eqn:E; simpl.
  - apply Nat.eqb_eq in E. subst. intuition.
  - rewrite IH. intuition.
Qed.

Lemma overlay_keys src : forall dst x, In x (map fst (overlay dst src)) <-> In x (map fst dst) \/ In x (map fst src).
Proof.
  induction src as [|[k v] src IH]; intros dst x; unfold overlay in *; cbn [fold_left fst snd].
  - simpl. tauto.
  - rewrite IH, nset_keys. simpl. intuition.
Qed.

Definition labels_wf (e : experiment) (a : assignment) : Prop :=
  NoDup (map fst (e_labels e)) /\ match a_labels a with Some al => NoDup (map fst al) | None => True end.

Theorem t_monitor_model : forall gen e a, labels_wf e a ->
  t_monitor e a (gen (a_name a) (e_ns e) (a_params a)) (get_trial_instance gen e a) = true.
Proof.
  intros gen e a [W1 W2]. unfold t_monitor.
  destruct (e_tt e) as [tpl|] eqn:T; [|reflexivity].
  destruct (get_trial_instance gen e a) as [t|c|c] eqn:H.
  - apply trial_fields in H as (tpl' & T' & F1 & F2 & F3 & F4 & F5 & F6 & F7 & F8 & F9 & F10 & F11 & F12 & F13 & F14).
    rewrite T in T'. injection T' as <-. rewrite F8.
    rewrite F1, F2, F4, F5, F6, F7, F9, F10, F14, !Nat.eqb_refl, eqb_reflx, !option_nat_eqb_refl.
    rewrite (list_eqb_refl pair_eqb _ pair_eqb_refl), (list_eqb_refl Nat.eqb _ Nat.eqb_refl).
    cbn [list_eqb]. fold (controller_ref e). rewrite owner_eqb_refl. rewrite !andb_true_r. cbn [andb].
    apply andb_true_intro. split.
    + apply forallb_forall. intros k _. rewrite F3. unfold label_expected.
      destruct (a_labels a) as [al|].
      * rewrite (nlookup_rev k al W2), (nlookup_rev k (e_labels e) W1). apply option_nat_eqb_refl.
      * rewrite (nlookup_rev k (e_labels e) W1). apply option_nat_eqb_refl.
    + apply forallb_forall. intros [k v] I. cbn [fst]. rewrite existsb_exists. exists k. split; [|apply Nat.eqb_refl].
      assert (Hk : nlookup k (t_labels t) <> None).
      { intro N. clear -I N. induction (t_labels t) as [|[k' w] m IH]; [destruct I|]. simpl in N.
        destruct (Nat.eqb k k') eqn:E; [discriminate|]. destruct I as [[= -> _]|I]; [rewrite Nat.eqb_refl in E; discriminate|auto]. }
      rewrite F3 in Hk. unfold label_keys.
      destruct (a_labels a) as [al|].
      * destruct (nlookup k (rev al)) eqn:L1.
        -- apply nlookup_In in L1. apply in_rev in L1. apply (in_map fst) in L1. right. apply in_or_app. now right.
        -- destruct (Nat.eqb k label_experiment) eqn:E; [apply Nat.eqb_eq in E; now left|].
           destruct (nlookup k (rev (e_labels e))) eqn:L2; [|congruence].
           apply nlookup_In in L2. apply in_rev in L2. apply (in_map fst) in L2. right. apply in_or_app. now left.
      * destruct (Nat.eqb k label_experiment) eqn:E; [apply Nat.eqb_eq in E; now left|].
        destruct (nlookup k (rev (e_labels e))) eqn:L2; [|congruence].
        apply nlookup_In in L2. apply in_rev in L2. apply (in_map fst) in L2. right. apply in_or_app. now left.
  - unfold get_trial_instance in H. rewrite T in H.
    destruct (gen (a_name a) (e_ns e) (a_params a)); [discriminate|reflexivity|reflexivity].
  - unfold get_trial_instance in H. rewrite T in H.
    destruct (gen (a_name a) (e_ns e) (a_params a)); [discriminate|reflexivity|reflexivity].
Qed.

(* ------------------------------------------------------------------ the hypotheses are decidable (used by the Examples) *)

Lemma chunks_okb_intro cs : forallb a_chunk_okb cs = true ->
  (forall n, In (Ph n) cs -> a_name_ok n) /\ lits_ok cs /\ (forall v, In (Val v) cs -> a_val_ok v).
Proof.
  intro H. rewrite forallb_forall in H. repeat apply conj.
  - intros n I. apply (name_okb_spec ascii Ascii.eqb Ascii.eqb_spec). exact (H _ I).
  - intros l I. exact (H _ I).
  - intros v I. apply (val_okb_spec ascii Ascii.eqb Ascii.eqb_spec). exact (H _ I).
Qed.

Lemma keys_okb_intro (l : list str) : forallb a_name_okb l = true -> forall n, In n l -> a_name_ok n.
Proof. intro H. rewrite forallb_forall in H. intros n I. apply (name_okb_spec ascii Ascii.eqb Ascii.eqb_spec). exact (H _ I). Qed.

Lemma vals_okb_intro (l : list str) : forallb a_val_okb l = true -> forall v, In v l -> a_val_ok v.
Proof. intro H. rewrite forallb_forall in H. intros n I. apply (val_okb_spec ascii Ascii.eqb Ascii.eqb_spec). exact (H _ I). Qed.

Lemma hyps_b cs (e : amap) :
  forallb a_chunk_okb cs && forallb a_name_okb (map fst e) && forallb a_val_okb (map snd e) && nodupb (map fst e) = true ->
  names_ok cs e /\ lits_ok cs /\ vals_ok cs e /\ NoDup (map fst e).
Proof.
  intro H. apply andb_prop in H as [H H4]. apply andb_prop in H as [H H3]. apply andb_prop in H as [H1 H2].
  destruct (chunks_okb_intro cs H1) as (A & B & C).
  split; [split; [exact A|now apply keys_okb_intro]|].
  split; [exact B|]. split; [split; [exact C|now apply vals_okb_intro]|]. now apply nodupb_spec.
Qed.
