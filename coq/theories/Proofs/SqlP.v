(* C19: lemmas about the model of the observation-log storage (Model/Sql.v). *)
From KV Require Import Base.Prelude Model.Sql.
From Coq Require Import DecimalString Decimal.
Local Open Scope string_scope.

(* ------------------------------------------------------------------ strings *)

Lemma app_assoc_s (a b c : string) : (a ++ b) ++ c = a ++ (b ++ c).
Proof. induction a as [|x a IH]; simpl; [reflexivity|now rewrite IH]. Qed.

Lemma app_nil_r_s (a : string) : a ++ "" = a.
Proof. induction a as [|x a IH]; simpl; [reflexivity|now rewrite IH]. Qed.

Lemma count_char_app c (a b : string) : count_char c (a ++ b) = count_char c a + count_char c b.
Proof. induction a as [|x a IH]; simpl; [reflexivity|rewrite IH; lia]. Qed.

Lemma drop_last_snoc (a : string) (c : ascii) : drop_last (a ++ String c "") = a.
Proof.
  induction a as [|x a IH]; simpl; [reflexivity|].
  rewrite IH. destruct a; reflexivity.
Qed.

Lemma count_char_drop_last c (a : string) (x : ascii) :
  count_char c (drop_last (a ++ String x "")) + (if Ascii.eqb x c then 1 else 0) = count_char c (a ++ String x "").
Proof. rewrite drop_last_snoc, count_char_app. simpl. lia. Qed.

(* decimal numerals consist of digits only *)
Definition is_digit (c : ascii) : bool :=
  match c with
  | "0"%char | "1"%char | "2"%char | "3"%char | "4"%char | "5"%char | "6"%char | "7"%char | "8"%char | "9"%char => true
  | _ => false
  end.

Lemma count_nondigit_uint c u : is_digit c = false -> count_char c (NilEmpty.string_of_uint u) = 0.
Proof.
  intro H. induction u; cbn [NilEmpty.string_of_uint count_char]; rewrite ?IHu; try reflexivity;
    match goal with |- context [Ascii.eqb ?a c] => destruct (Ascii.eqb_spec a c) as [<-|_]; [discriminate H|reflexivity] end.
Qed.

Lemma count_nondigit_dec c n : is_digit c = false -> count_char c (dec n) = 0.
Proof.
  intro H. unfold dec, NilZero.string_of_uint.
  destruct (Nat.to_uint n) eqn:E; try (rewrite <- E; apply count_nondigit_uint; exact H).
  cbn [count_char]. destruct (Ascii.eqb_spec "0"%char c) as [<-|_]; [discriminate H|reflexivity].
Qed.

(* ------------------------------------------------------------------ the INSERT text as a function of the entry count *)

Fixpoint groups (d : dialect) (i k : nat) : string :=
  match k with 0 => "" | S k' => group d i ++ groups d (i + 4) k' end.

Definition insert_text (d : dialect) (k : nat) : string := drop_last (insert_head ++ groups d 1 k).

Definition good_count (l : obslog) : nat := length (filter timestamped_entry l).

Lemma groups_snoc d i k : groups d i k ++ group d (i + 4 * k) = groups d i (S k).
Proof.
  revert i. induction k as [|k IH]; intro i.
  - simpl. rewrite Nat.add_0_r. now rewrite app_nil_r_s.
  - change (groups d i (S k)) with (group d i ++ groups d (i + 4) k).
    rewrite app_assoc_s. replace (i + 4 * S k) with (i + 4 + 4 * k) by lia. rewrite IH. reflexivity.
Qed.

Lemma reg_loop_ok d trial (l : obslog) : forall a a',
  reg_loop d trial l a = Ok a' ->
  a_text a' = a_text a ++ groups d (a_idx a) (good_count l) /\
  a_args a' = (a_args a ++ flat_map (entry_row trial) l)%list /\
  a_idx a' = a_idx a + 4 * good_count l /\
  existsb entry_must_err l = false /\
  length (flat_map (entry_row trial) l) = 4 * good_count l.
Proof.
  unfold good_count. induction l as [|o l IH]; intros a a' H; simpl in H.
  - injection H as <-. simpl. rewrite app_nil_r_s, app_nil_r. repeat split; lia.
  - destruct o as [e|]; [|discriminate H].
    cbn [filter timestamped_entry existsb entry_must_err flat_map entry_row].
    destruct (e_ts e) as [| |t] eqn:Ets.
    + apply IH in H as (H1&H2&H3&H4&H5). simpl. repeat split; assumption.
    + discriminate H.
    + destruct (e_metric e) as [m|] eqn:Em; [|discriminate H].
      apply IH in H as (H1&H2&H3&H4&H5). cbn [a_text a_args a_idx] in *.
      cbn [length]. repeat split.
      * rewrite H1, app_assoc_s. reflexivity.
      * rewrite H2, <- app_assoc. reflexivity.
      * lia.
      * exact H4.
      * rewrite app_length, H5. simpl. lia.
Qed.

(* the loop succeeds exactly on the lists without an entry that cannot be served *)
Lemma reg_loop_total d trial (l : obslog) : forall a,
  existsb entry_must_err l = false -> exists a', reg_loop d trial l a = Ok a'.
Proof.
  induction l as [|o l IH]; intros a H; simpl.
  - eauto.
  - cbn [existsb] in H. apply orb_false_iff in H as [H1 H2].
    destruct o as [e|]; [|discriminate H1]. cbn [entry_must_err] in H1.
    destruct (e_ts e); [apply IH; exact H2|discriminate H1|].
    destruct (e_metric e); [apply IH; exact H2|discriminate H1].
Qed.

Lemma reg_loop_fails d trial (l : obslog) : forall a,
  existsb entry_must_err l = true ->
  reg_loop d trial l a = Err 1 \/
  (exists s, reg_loop d trial l a = Crash s /\ (s = 2 \/ s = 3) /\ existsb entry_nil_sub l = true).
Proof.
  induction l as [|o l IH]; intros a H; simpl; [discriminate H|].
  cbn [existsb] in H. cbn [existsb entry_nil_sub].
  destruct o as [e|]; [|right; exists 2; auto].
  cbn [entry_must_err] in H.
  destruct (e_ts e).
  - simpl in H. destruct (IH a H) as [E|(s&E&S&N)]; [now left|right; exists s; rewrite N, orb_true_r; auto].
  - now left.
  - destruct (e_metric e) eqn:Em.
    + simpl in H. match goal with |- context [reg_loop d trial l ?a'] => destruct (IH a' H) as [E|(s&E&S&N)] end;
        [now left|right; exists s; rewrite N, orb_true_r; auto].
    + right. exists 3. unfold entry_nil_sub. rewrite Em. auto.
Qed.

Lemma must_err_of_nil_entry (l : obslog) : forallb entry_present l = true -> existsb entry_nil_sub l = false.
Proof.
  induction l as [|o l IH]; simpl; [reflexivity|]. intro H. apply andb_true_iff in H as [H1 H2].
  rewrite (IH H2), orb_false_r. destruct o as [e|]; [|discriminate H1]. simpl in *. destruct (e_metric e); [reflexivity|discriminate H1].
Qed.

Lemma entry_present_of_not_nil (l : obslog) : existsb entry_nil_sub l = false -> forallb entry_present l = true.
Proof.
  induction l as [|o l IH]; simpl; [reflexivity|]. intro H. apply orb_false_iff in H as [H1 H2].
  rewrite (IH H2), andb_true_r. destruct o as [e|]; [|discriminate H1]. simpl in *. destruct (e_metric e); [reflexivity|discriminate H1].
Qed.

(* ------------------------------------------------------------------ register *)

Definition insert_stmts (d : dialect) (k : nat) (args : list nat) : list stmt :=
  [(CPrepare, insert_text d k, []); (CStmtExec, insert_text d k, args)].

Lemma register_ok d trial (l : obslog) s :
  register d trial (Some l) = Ok s ->
  s = insert_stmts d (good_count l) (flat_map (entry_row trial) l) /\
  existsb entry_must_err l = false /\
  length (flat_map (entry_row trial) l) = 4 * good_count l.
Proof.
  unfold register. destruct (reg_loop d trial l acc0) as [a| |] eqn:E; try discriminate.
  intros [= <-]. apply reg_loop_ok in E as (H1&H2&H3&H4&H5). cbn [acc0 a_text a_args a_idx] in *.
  rewrite H1, H2. simpl app. repeat split; assumption.
Qed.

Lemma register_total d trial (l : obslog) :
  existsb entry_must_err l = false -> exists s, register d trial (Some l) = Ok s.
Proof.
  intro H. destruct (reg_loop_total d trial l acc0 H) as (a&E). unfold register. rewrite E. eauto.
Qed.

Lemma register_fails d trial (l : obslog) :
  existsb entry_must_err l = true ->
  register d trial (Some l) = Err 1 \/
  (exists s, register d trial (Some l) = Crash s /\ (s = 2 \/ s = 3) /\ existsb entry_nil_sub l = true).
Proof.
  intro H. unfold register. destruct (reg_loop_fails d trial l acc0 H) as [E|(s&E&S&N)]; rewrite E; [now left|right; eauto].
Qed.

(* ------------------------------------------------------------------ get / delete *)

Definition bool_opt (b : bool) : option nat := if b then Some 0 else None.
Definition bool_ts (b : bool) : tstamp := if b then TsGood 0 else TsEmpty.

(* the SELECT text as a function of the flags "which filters are present" *)
Definition select_text (d : dialect) (m s e : bool) : string :=
  match get_log d {| g_trial := 0; g_metric := bool_opt m; g_start := bool_ts s; g_end := bool_ts e |} with
  | Ok [(_, t, _)] => t
  | _ => ""
  end.

Definition delete_text (d : dialect) : string := "DELETE FROM observation_logs WHERE trial_name = " ++ ph d 1.

Definition has_metric (g : get_req) : bool := match g_metric g with Some _ => true | None => false end.

Lemma get_ok d g s :
  get_log d g = Ok s ->
  s = [(CQuery, select_text d (has_metric g) (ts_present (g_start g)) (ts_present (g_end g)), expected_args (RGet g))] /\
  is_bad (g_start g) = false /\ is_bad (g_end g) = false.
Proof.
  destruct g as [t m st en]. unfold get_log, select_text, has_metric, expected_args.
  cbn [g_trial g_metric g_start g_end].
  destruct d, m as [m|], st as [| |st], en as [| |en]; cbn; intro H; try discriminate H;
    injection H as <-; repeat split; reflexivity.
Qed.

Lemma get_total d g : is_bad (g_start g) = false -> is_bad (g_end g) = false -> exists s, get_log d g = Ok s.
Proof.
  destruct g as [t m st en]. unfold get_log. cbn [g_trial g_metric g_start g_end].
  intros H1 H2. destruct st; try discriminate H1; destruct en; try discriminate H2;
    destruct (add_filter d _ _ _) as [[? ?] ?]; eauto.
Qed.

Lemma get_fails d g : is_bad (g_start g) || is_bad (g_end g) = true -> get_log d g = Err 1 \/ get_log d g = Err 2.
Proof.
  destruct g as [t m st en]. unfold get_log. cbn [g_trial g_metric g_start g_end].
  destruct st; cbn [is_bad orb]; intro H; auto; destruct en; try discriminate H; auto.
Qed.

(* ------------------------------------------------------------------ the text is a function of the shape *)

Definition shape_stmts (d : dialect) (sh : shape) : list (call * string) :=
  match sh with
  | ShReport k => [(CPrepare, insert_text d k); (CStmtExec, insert_text d k)]
  | ShGet m s e => [(CQuery, select_text d m s e)]
  | ShDelete => [(CExec, delete_text d)]
  end.

Theorem text_of_shape lv d q s : run_op lv d q = Ok s -> map call_text s = shape_stmts d (shape_of q).
Proof.
  destruct q as [r|g|t]; cbn [run_op shape_of].
  - assert (R : register d (r_trial r) (r_log r) = Ok s -> map call_text s = shape_stmts d (shape_of (RReport r))).
    { cbn [shape_of]. destruct (r_log r) as [l|]; [|discriminate]. intro H. apply register_ok in H as (->&_). reflexivity. }
    destruct lv; [exact R|]. unfold report. destruct (validate (r_log r)); [exact R|discriminate].
  - intro H. apply get_ok in H as (->&_). reflexivity.
  - unfold delete_log. intros [= <-]. reflexivity.
Qed.

Theorem text_depends_on_shape lv1 lv2 d q1 q2 s1 s2 :
  shape_of q1 = shape_of q2 -> run_op lv1 d q1 = Ok s1 -> run_op lv2 d q2 = Ok s2 ->
  map call_text s1 = map call_text s2.
Proof. intros E H1 H2. apply text_of_shape in H1, H2. congruence. Qed.

(* ------------------------------------------------------------------ bound values: data stays data *)

Theorem args_of_request lv d q s :
  run_op lv d q = Ok s ->
  exists c t, c <> CPrepare /\ (s = [(c, t, expected_args q)] \/ s = [(CPrepare, t, []); (c, t, expected_args q)]).
Proof.
  destruct q as [r|g|t]; cbn [run_op].
  - assert (R : register d (r_trial r) (r_log r) = Ok s ->
                exists c t, c <> CPrepare /\
                  (s = [(c, t, expected_args (RReport r))] \/ s = [(CPrepare, t, []); (c, t, expected_args (RReport r))])).
    { cbn [expected_args]. destruct (r_log r) as [l|]; [|discriminate]. intro H. apply register_ok in H as (->&_).
      exists CStmtExec, (insert_text d (good_count l)). split; [discriminate|]. right. reflexivity. }
    destruct lv; [exact R|]. unfold report. destruct (validate (r_log r)); [exact R|discriminate].
  - intro H. apply get_ok in H as (->&_). eexists _, _. split; [|left; reflexivity]. discriminate.
  - unfold delete_log. intros [= <-]. eexists _, _. split; [|left; reflexivity]. discriminate.
Qed.

(* one row (trial, utc time, name, value) per timestamped entry, in order *)
Definition row_of (trial : nat) (o : option entry) : list (nat * nat * nat * nat) :=
  match o with
  | Some e => match e_ts e, e_metric e with
              | TsGood t, Some m => [(trial, t, m_name m, m_value m)]
              | _, _ => []
              end
  | None => []
  end.

Definition rows (trial : nat) (l : obslog) : list (nat * nat * nat * nat) := flat_map (row_of trial) l.

Definition flatten_row (r : nat * nat * nat * nat) : list nat := let '(a, b, c, d) := r in [a; b; c; d].

Lemma rows_flatten trial (l : obslog) : flat_map flatten_row (rows trial l) = flat_map (entry_row trial) l.
Proof.
  unfold rows. induction l as [|o l IH]; simpl; [reflexivity|].
  rewrite flat_map_app, IH. f_equal. destruct o as [e|]; [|reflexivity]. simpl.
  destruct (e_ts e); try reflexivity. destruct (e_metric e); reflexivity.
Qed.

Lemma rows_count trial (l : obslog) : existsb entry_must_err l = false -> length (rows trial l) = good_count l.
Proof.
  unfold rows, good_count. induction l as [|o l IH]; simpl; [reflexivity|]. intro H. apply orb_false_iff in H as [H1 H2].
  rewrite app_length, (IH H2). destruct o as [e|]; [|discriminate H1]. simpl in *.
  destruct (e_ts e); [reflexivity|discriminate H1|]. destruct (e_metric e); [reflexivity|discriminate H1].
Qed.

(* each timestamped entry yields its own row, at its own position *)
Lemma rows_app trial (l1 l2 : obslog) : rows trial (l1 ++ l2)%list = (rows trial l1 ++ rows trial l2)%list.
Proof. unfold rows. apply flat_map_app. Qed.

Theorem register_rows d trial (l : obslog) s :
  register d trial (Some l) = Ok s ->
  s = insert_stmts d (length (rows trial l)) (flat_map flatten_row (rows trial l)) /\
  length (rows trial l) = good_count l /\
  (forall l1 e l2, l = (l1 ++ Some e :: l2)%list -> e_ts e <> TsEmpty ->
     exists t m, e_ts e = TsGood t /\ e_metric e = Some m /\
                 rows trial l = (rows trial l1 ++ (trial, t, m_name m, m_value m) :: rows trial l2)%list).
Proof.
  intro H. apply register_ok in H as (->&Hn&_). rewrite rows_flatten, (rows_count trial l Hn).
  repeat split. intros l1 e l2 -> Hts.
  rewrite existsb_app in Hn. apply orb_false_iff in Hn as [_ Hn]. cbn [existsb] in Hn. apply orb_false_iff in Hn as [He _].
  cbn [entry_must_err] in He.
  destruct (e_ts e) as [| |t] eqn:Ets; [congruence|discriminate He|].
  destruct (e_metric e) as [m|] eqn:Em; [|discriminate He].
  exists t, m. repeat split. rewrite rows_app. f_equal. unfold rows. cbn [flat_map row_of]. rewrite Ets, Em. reflexivity.
Qed.

(* ------------------------------------------------------------------ placeholders = bound values *)

Lemma count_group d i : count_char (ph_char d) (group d i) = 4.
Proof.
  destruct d; [reflexivity|]. unfold group. cbn [ph_char].
  repeat (rewrite count_char_app || rewrite count_nondigit_dec by reflexivity). reflexivity.
Qed.

Lemma count_groups d i k : count_char (ph_char d) (groups d i k) = 4 * k.
Proof.
  revert i. induction k as [|k IH]; intro i; [reflexivity|].
  cbn [groups]. rewrite count_char_app, count_group, IH. lia.
Qed.

Lemma ends_app (x y : string) : (exists a, y = a ++ ",") -> exists a, x ++ y = a ++ ",".
Proof. intros (a&->). exists (x ++ a). now rewrite app_assoc_s. Qed.

Lemma group_last d i : exists a, group d i = a ++ ",".
Proof.
  destruct d; cbn [group]; [exists "(?, ?, ?, ?)"; reflexivity|].
  do 8 apply ends_app. exists ")". reflexivity.
Qed.

Lemma groups_last d i k : exists a, groups d i (S k) = a ++ ",".
Proof. rewrite <- groups_snoc. apply ends_app, group_last. Qed.

Lemma count_insert_text d k : count_char (ph_char d) (insert_text d k) = 4 * k.
Proof.
  unfold insert_text. destruct k as [|k].
  - destruct d; reflexivity.
  - destruct (groups_last d 1 k) as (a&E).
    pose proof (count_groups d 1 (S k)) as C. rewrite E in *.
    rewrite <- app_assoc_s, drop_last_snoc, count_char_app.
    rewrite count_char_app in C. assert (count_char (ph_char d) insert_head = 0) by (destruct d; reflexivity).
    assert (count_char (ph_char d) "," = 0) by (destruct d; reflexivity). lia.
Qed.

Theorem placeholders_match lv d q s c t a :
  run_op lv d q = Ok s -> In (c, t, a) s -> c <> CPrepare -> count_char (ph_char d) t = length a.
Proof.
  destruct q as [r|g|tr]; cbn [run_op].
  - assert (R : register d (r_trial r) (r_log r) = Ok s -> In (c, t, a) s -> c <> CPrepare -> count_char (ph_char d) t = length a).
    { destruct (r_log r) as [l|]; [|discriminate]. intro H. apply register_ok in H as (->&_&L).
      intros [[= <- <- <-]|[[= <- <- <-]|[]]] NP; [congruence|]. rewrite count_insert_text, L. reflexivity. }
    destruct lv; [exact R|]. unfold report. destruct (validate (r_log r)); [exact R|discriminate].
  - intro H. destruct (get_ok d g s H) as (->&B1&B2). intros [[= <- <- <-]|[]] _. clear H.
    destruct g as [tt m st en]. unfold select_text, has_metric, expected_args. cbn [g_trial g_metric g_start g_end] in *.
    destruct d, m, st, en; try discriminate B1; try discriminate B2; reflexivity.
  - unfold delete_log. intros [= <-] [[= <- <- <-]|[]] _. destruct d; reflexivity.
Qed.

(* ------------------------------------------------------------------ crash freedom and error answers *)

Theorem handler_no_crash d q : is_crash (run_op LHandler d q) = false.
Proof.
  destruct q as [r|g|t]; cbn [run_op].
  - unfold report. destruct (validate (r_log r)) eqn:V; [|reflexivity].
    unfold validate in V. destruct (r_log r) as [l|]; [|discriminate V].
    destruct (existsb entry_must_err l) eqn:M.
    + destruct (register_fails d (r_trial r) l M) as [->|(s&_&_&N)]; [reflexivity|].
      rewrite (must_err_of_nil_entry l V) in N. discriminate N.
    + destruct (register_total d (r_trial r) l M) as (s&->). reflexivity.
  - unfold get_log. destruct (g_start g); try reflexivity; destruct (g_end g); try reflexivity;
      destruct (add_filter d " AND time <= " _ _) as [[? ?] ?]; reflexivity.
  - reflexivity.
Qed.

Theorem db_no_crash d q : has_nil q = false -> is_crash (run_op LDb d q) = false.
Proof.
  destruct q as [r|g|t]; cbn [run_op has_nil].
  - destruct (r_log r) as [l|]; [|discriminate]. intro N.
    destruct (existsb entry_must_err l) eqn:M.
    + destruct (register_fails d (r_trial r) l M) as [->|(s&_&_&N')]; [reflexivity|congruence].
    + destruct (register_total d (r_trial r) l M) as (s&->). reflexivity.
  - intros _. apply (handler_no_crash d (RGet g)).
  - reflexivity.
Qed.

Theorem db_crash_has_nil d q : is_crash (run_op LDb d q) = true -> has_nil q = true.
Proof. intro H. destruct (has_nil q) eqn:N; [reflexivity|]. rewrite (db_no_crash d q N) in H. discriminate H. Qed.

(* answers of the handlers, completely: an error exactly on the requests that cannot be served or lack a sub-message *)
Theorem handler_ok_iff d q : (exists s, run_op LHandler d q = Ok s) <-> (must_err q = false /\ has_nil q = false).
Proof.
  destruct q as [r|g|t]; cbn [run_op must_err has_nil].
  - unfold report, validate. destruct (r_log r) as [l|].
    + destruct (forallb entry_present l) eqn:V.
      * rewrite (must_err_of_nil_entry l V). split.
        -- intros (s&H). apply register_ok in H as (_&H&_). auto.
        -- intros [M _]. apply register_total. exact M.
      * split; [intros (s&H); discriminate H|]. intros [_ N]. rewrite (entry_present_of_not_nil l N) in V. discriminate V.
    + split; [intros (s&H); discriminate H|intros [H _]; discriminate H].
  - split.
    + intros (s&H). apply get_ok in H as (_&H1&H2). rewrite H1, H2. auto.
    + intros [H _]. apply orb_false_iff in H as [H1 H2]. apply get_total; assumption.
  - split; [auto|]. intros _. unfold delete_log. eauto.
Qed.

Theorem handler_err_iff d q : (exists c, run_op LHandler d q = Err c) <-> (must_err q = true \/ has_nil q = true).
Proof.
  pose proof (handler_ok_iff d q) as O. pose proof (handler_no_crash d q) as C.
  destruct (run_op LHandler d q) as [s|c|k] eqn:E; [| |discriminate C].
  - split; [intros (c&H); discriminate H|]. intro H.
    destruct O as [O _]. destruct (O (ex_intro _ s eq_refl)) as [M N]. rewrite M, N in H. destruct H; discriminate.
  - split; [|eauto]. intros _.
    destruct (must_err q) eqn:M; [now left|]. destruct (has_nil q) eqn:N; [now right|].
    destruct O as [_ O]. destruct (O (conj eq_refl eq_refl)) as (s&H). discriminate H.
Qed.

Theorem db_ok_iff d q : has_nil q = false -> ((exists s, run_op LDb d q = Ok s) <-> must_err q = false).
Proof.
  intro N. destruct q as [r|g|t]; cbn [run_op must_err has_nil] in *.
  - destruct (r_log r) as [l|]; [|discriminate N]. split.
    + intros (s&H). apply register_ok in H as (_&H&_). exact H.
    + apply register_total.
  - pose proof (handler_ok_iff d (RGet g)) as O. cbn [run_op must_err has_nil] in O. rewrite O. tauto.
  - split; [auto|]. intros _. unfold delete_log. eauto.
Qed.

(* the unchanged handler (no validation) does crash: finding F10 *)
Theorem unrepaired_handler_crashes :
  exists d r, is_crash (report_unrepaired d r) = true.
Proof. exists Mysql, {| r_trial := 0; r_log := None |}. reflexivity. Qed.

Theorem unrepaired_crash_iff d r :
  is_crash (report_unrepaired d r) = true ->
  has_nil (RReport r) = true.
Proof. apply (db_crash_has_nil d (RReport r)). Qed.

(* A report without any timestamped entry (empty list, or only entries with an empty time stamp) is not short-circuited:
   the code prepares and executes the statement below, which has no VALUES list. Its text depends on nothing, it binds
   nothing and inserts nothing, and a real database rejects it with a syntax error, so the request is answered with an
   error, not a crash: this is within the letter of C19 (recorded as an observation, not as a finding). *)
Definition values_less_insert : string := "INSERT INTO observation_logs (trial_name, time, metric_name, value) VALUES".

Theorem empty_report d trial (l : obslog) s :
  register d trial (Some l) = Ok s -> good_count l = 0 ->
  s = [(CPrepare, values_less_insert, []); (CStmtExec, values_less_insert, [])].
Proof.
  intros H Z. apply register_ok in H as (->&_&L). rewrite Z in *.
  destruct (flat_map (entry_row trial) l); [|discriminate L]. destruct d; reflexivity.
Qed.
