(* C03 over runs, reason by reason: when a verdict appears on the stored experiment it is backed by the STORED trials in the way
   its reason says (goal reached: some objective value meets the goal; max trials reached: maxTrialCount completed trials;
   failed: maxFailedTrialCount failed or metrics-unavailable trials, or a failed suggestion). *)
From KV Require Import Base.Prelude Base.Cond Model.World Proofs.WorldPlan Proofs.EqbRefl Proofs.WorldInv Proofs.WorldInv2
  Proofs.WorldInv4 Proofs.WorldInv5 Proofs.WorldThm Proofs.WorldSucc Proofs.WorldCalm Proofs.WorldTrials Proofs.WorldJob
  Proofs.WorldObs Proofs.WorldStab Proofs.WorldDecide Proofs.WorldSugFail Proofs.WorldFin Proofs.WorldNoCreate Proofs.WorldMu Proofs.WorldSugMon.
Open Scope Z_scope.

Definition failcase (cf : cfg) (ts : list trial) (sf : Prop) : Prop :=
  (exists f, c_maxfailed cf = Some f /\ 1 <= n_failed (counts_of (cls ts)) + n_mu (counts_of (cls ts)) /\
             f <= n_failed (counts_of (cls ts)) + n_mu (counts_of (cls ts))) \/ sf.

Definition okreason (cf : cfg) (mx : option Z) (ts : list trial) (sf : Prop) (cs : conds) : Prop :=
  match get_cond cs ESucceeded with
  | Some c => if cstatus_eqb (cstat c) CTrue then
                if Nat.eqb (creason c) RGoalReached then goal_hit (c_minimize cf) (c_goal cf) ts = true
                else if Nat.eqb (creason c) RMaxTrialsReached then exists m, mx = Some m /\ m <= completed_count (counts_of (cls ts))
                else False
              else failcase cf ts sf
  | None => failcase cf ts sf
  end.

Lemma not_succ_get cs : has_cond cs ESucceeded = false ->
  match get_cond cs ESucceeded with Some c => cstatus_eqb (cstat c) CTrue = false | None => True end.
Proof. unfold has_cond. destruct (get_cond cs ESucceeded); auto. Qed.

Lemma okreason_failed cf mx ts (sf : Prop) cs :
  has_cond cs ESucceeded = false -> failcase cf ts sf -> okreason cf mx ts sf (emark_verdict cs EFailed RFailed).
Proof.
  intros NS F. unfold okreason, emark_verdict, mark.
  rewrite get_set_other by discriminate.
  assert (E : get_cond (turn_off cs ERunning) ESucceeded = get_cond cs ESucceeded).
  { unfold turn_off. destruct (get_cond cs ERunning); [apply get_set_other; discriminate|reflexivity]. }
  rewrite E. pose proof (not_succ_get cs NS) as K. destruct (get_cond cs ESucceeded) as [c|]; [rewrite K|]; exact F.
Qed.

Lemma okreason_succ cf mx ts (sf : Prop) cs r :
  (if Nat.eqb r RGoalReached then goal_hit (c_minimize cf) (c_goal cf) ts = true
   else if Nat.eqb r RMaxTrialsReached then exists m, mx = Some m /\ m <= completed_count (counts_of (cls ts)) else False) ->
  okreason cf mx ts sf (emark_verdict cs ESucceeded r).
Proof.
  intro H. unfold okreason, emark_verdict, mark.
  destruct (get_set_same (turn_off cs ERunning) ESucceeded CTrue r) as (c&->&S&R&_). rewrite S, R. exact H.
Qed.

(* a verdict decided by UpdateExperimentStatus carries the reason of the rule that decided it *)
Lemma update_status_reason cf mx now st ts :
  e_completed st = false -> e_completed (update_status cf mx now st ts) = true ->
  okreason cf mx ts False (es_conds (update_status cf mx now st ts)).
Proof.
  intros NC C. unfold update_status in *. fold (cls ts) in *.
  pose proof (scan_reached (c_minimize cf) (c_goal cf) ts) as SR.
  destruct (scan_best (c_minimize cf) (c_goal cf) ts None false) as [best reached]. cbn [snd] in SR. subst reached.
  match type of C with context [if ?c then _ else _] => assert (E : c = false) by exact NC; rewrite E in *; clear E end.
  assert (NS : has_cond (es_conds st) ESucceeded = false).
  { unfold e_completed, e_is in NC. apply orb_false_iff in NC. tauto. }
  unfold update_condition in *. cbn [es_counts es_conds] in *.
  destruct (goal_hit (c_minimize cf) (c_goal cf) ts) eqn:G.
  { cbn [es_conds]. apply okreason_succ. cbn. exact G. }
  destruct (c_maxfailed cf) as [f|] eqn:MF.
  - destruct (negb (n_failed (counts_of (cls ts)) + n_mu (counts_of (cls ts)) =? 0) && (f <=? n_failed (counts_of (cls ts)) + n_mu (counts_of (cls ts)))) eqn:B.
    + cbn [es_conds]. apply okreason_failed; [exact NS|]. left. exists f. split; [exact MF|].
      apply andb_true_iff in B as [B1 B2]. apply negb_true_iff in B1. apply Z.eqb_neq in B1. apply Z.leb_le in B2.
      pose proof (count_class_nonneg KFailed (cls ts)). pose proof (count_class_nonneg KMetricsUnavailable (cls ts)).
      unfold counts_of in *. cbn [n_failed n_mu] in *. lia.
    + destruct mx as [m|].
      * destruct (m <=? completed_count (counts_of (cls ts))) eqn:M.
        -- cbn [es_conds]. apply okreason_succ. cbn. exists m. split; [reflexivity|now apply Z.leb_le].
        -- exfalso. unfold e_completed, e_is, mark in C. cbn [es_conds] in C. rewrite !has_set in C. cbn in C.
           unfold e_completed, e_is in NC. rewrite NC in C. discriminate.
      * exfalso. unfold e_completed, e_is, mark in C. cbn [es_conds] in C. rewrite !has_set in C. cbn in C.
        unfold e_completed, e_is in NC. rewrite NC in C. discriminate.
  - destruct mx as [m|].
    + destruct (m <=? completed_count (counts_of (cls ts))) eqn:M.
      * cbn [es_conds]. apply okreason_succ. cbn. exists m. split; [reflexivity|now apply Z.leb_le].
      * exfalso. unfold e_completed, e_is, mark in C. cbn [es_conds] in C. rewrite !has_set in C. cbn in C.
        unfold e_completed, e_is in NC. rewrite NC in C. discriminate.
    + exfalso. unfold e_completed, e_is, mark in C. cbn [es_conds] in C. rewrite !has_set in C. cbn in C.
      unfold e_completed, e_is in NC. rewrite NC in C. discriminate.
Qed.

Lemma okreason_sf cf mx ts (sf sf' : Prop) cs : (sf -> sf') -> okreason cf mx ts sf cs -> okreason cf mx ts sf' cs.
Proof.
  intros I. unfold okreason, failcase. destruct (get_cond cs ESucceeded) as [c|]; [destruct (cstatus_eqb (cstat c) CTrue)|]; tauto.
Qed.

Lemma plan_trials_failed_conds cf mx st2 ts sug :
  e_completed st2 = false -> e_completed (snd (plan_trials cf mx st2 ts sug)) = true ->
  es_conds (snd (plan_trials cf mx st2 ts sug)) = emark_verdict (es_conds st2) EFailed RFailed /\
  exists s, sug = Some s /\ sfailed (s_st s) = true.
Proof.
  intros C2. unfold plan_trials. destruct (_ <? _); [cbn; congruence|]. destruct (_ <? _); [|cbn; congruence].
  destruct (0 <? _); [|cbn; congruence].
  unfold plan_create. destruct sug as [s|]; [|cbn; congruence].
  destruct (s_is (s_st s) SFailed) eqn:F; [intros _; split; [reflexivity|exists s; auto]|].
  destruct (_ && _); cbn; congruence.
Qed.

Lemma reconcile_fresh_verdict w e st1 st rv onf :
  In (WExpStatus st rv, onf) (plan_exp_reconcile w e st1) -> e_completed st = true -> e_completed st1 = false ->
  okreason (w_cfg w) (e_max e) (c_trials w) (sugfail w) (es_conds st).
Proof.
  unfold plan_exp_reconcile. intros H C C1.
  assert (NS : forall st2, e_completed st2 = false -> has_cond (es_conds st2) ESucceeded = false).
  { intros st2 N. unfold e_completed, e_is in N. apply orb_false_iff in N. tauto. }
  destruct (c_trials w) as [|t0 ts'] eqn:Ets.
  - rewrite C1 in H. destruct (plan_trials (w_cfg w) (e_max e) st1 [] (c_sug w)) as [ws2 st3] eqn:PT.
    apply in_app_or in H as [H|H].
    + exfalso. assert (H' : In (WExpStatus st rv, onf) (fst (plan_trials (w_cfg w) (e_max e) st1 [] (c_sug w)))) by now rewrite PT.
      pose proof (ek_plan_trials_nostatus (w_cfg w) (e_max e) st1 [] (c_sug w)) as K. rewrite forallb_forall in K. specialize (K _ H'). discriminate.
    + apply in_status_write in H. inversion H; subst st3.
      assert (C3 : e_completed (snd (plan_trials (w_cfg w) (e_max e) st1 [] (c_sug w))) = true) by now rewrite PT.
      destruct (plan_trials_failed_conds _ _ _ _ _ C1 C3) as (Ec&s&Hs&Fs). rewrite PT in Ec. cbn [snd] in Ec. rewrite Ec.
      apply okreason_failed; [now apply NS|]. right. exists s. auto.
  - set (ts := t0 :: ts') in *.
    destruct (e_completed (update_status (w_cfg w) (e_max e) (w_clock w) st1 ts)) eqn:C2.
    + apply in_status_write in H. inversion H; subst.
      eapply okreason_sf; [|apply update_status_reason; assumption]. intros [].
    + destruct (plan_trials (w_cfg w) (e_max e) (update_status (w_cfg w) (e_max e) (w_clock w) st1 ts) ts (c_sug w)) as [ws2 st3] eqn:PT.
      apply in_app_or in H as [H|H].
      * exfalso. assert (H' : In (WExpStatus st rv, onf) (fst (plan_trials (w_cfg w) (e_max e) (update_status (w_cfg w) (e_max e) (w_clock w) st1 ts) ts (c_sug w)))) by now rewrite PT.
        pose proof (ek_plan_trials_nostatus (w_cfg w) (e_max e) (update_status (w_cfg w) (e_max e) (w_clock w) st1 ts) ts (c_sug w)) as K.
        rewrite forallb_forall in K. specialize (K _ H'). discriminate.
      * apply in_status_write in H. inversion H; subst st3.
        assert (C3 : e_completed (snd (plan_trials (w_cfg w) (e_max e) (update_status (w_cfg w) (e_max e) (w_clock w) st1 ts) ts (c_sug w))) = true) by now rewrite PT.
        destruct (plan_trials_failed_conds _ _ _ _ _ C2 C3) as (Ec&s&Hs&Fs). rewrite PT in Ec. cbn [snd] in Ec. rewrite Ec.
        apply okreason_failed; [now apply NS|]. right. exists s. auto.
Qed.

Lemma plan_exp_fresh_verdict w ce st rv onf :
  c_exp w = Some ce -> In (WExpStatus st rv, onf) (plan_exp w) -> e_completed st = true -> e_completed (e_st ce) = false ->
  rv = e_rv ce /\ okreason (w_cfg w) (e_max ce) (c_trials w) (sugfail w) (es_conds st).
Proof.
  intros Hce H C C0. unfold plan_exp in H. rewrite Hce in H.
  destruct (negb (e_deleting ce) && negb (e_fin ce)); [destruct H as [X|[]]; discriminate|].
  destruct (e_deleting ce && e_fin ce); [destruct H as [X|[]]; discriminate|].
  unfold plan_exp_completed in H. rewrite C0 in H. cbn [app] in H.
  destruct (negb (e_is (e_st ce) ECreated)).
  - exfalso. apply in_status_write in H. inversion H; subst.
    unfold e_completed, e_is, with_conds, mark in C. cbn [es_conds] in C. rewrite !has_set in C. cbn in C.
    unfold e_completed, e_is in C0. congruence.
  - split; [eapply reconcile_status_rv; eauto|]. eapply reconcile_fresh_verdict; eauto.
Qed.

(* ------------------------------------------------------------------ the justification only grows *)

Lemma okreason_mono cf mx ts ts' (sf : Prop) cs : plag tst ts ts' -> okreason cf mx ts sf cs -> okreason cf mx ts' sf cs.
Proof.
  intros P. unfold okreason, failcase.
  pose proof (count_class_mono KFailed _ _ eq_refl P) as MF.
  pose proof (count_class_mono KMetricsUnavailable _ _ eq_refl P) as MM.
  pose proof (count_class_mono KSucceeded _ _ eq_refl P) as MS.
  pose proof (count_class_mono KKilled _ _ eq_refl P) as MK.
  pose proof (count_class_mono KEarlyStopped _ _ eq_refl P) as ME.
  assert (F : (exists f, c_maxfailed cf = Some f /\ 1 <= n_failed (counts_of (cls ts)) + n_mu (counts_of (cls ts)) /\
                         f <= n_failed (counts_of (cls ts)) + n_mu (counts_of (cls ts))) \/ sf ->
              (exists f, c_maxfailed cf = Some f /\ 1 <= n_failed (counts_of (cls ts')) + n_mu (counts_of (cls ts')) /\
                         f <= n_failed (counts_of (cls ts')) + n_mu (counts_of (cls ts'))) \/ sf).
  { intros [(f&E&A&B)|S]; [left|now right]. exists f. split; [exact E|]. unfold counts_of in *. cbn [n_failed n_mu] in *. lia. }
  destruct (get_cond cs ESucceeded) as [c|]; [|exact F].
  destruct (cstatus_eqb (cstat c) CTrue); [|exact F].
  destruct (Nat.eqb (creason c) RGoalReached); [apply goal_hit_mono; exact P|].
  destruct (Nat.eqb (creason c) RMaxTrialsReached); [|auto].
  intros (m&E&L). exists m. split; [exact E|]. unfold completed_count, counts_of in *. cbn [n_succeeded n_failed n_killed n_es n_mu] in *. lia.
Qed.

Lemma sugfail_step w a : SFInv w -> sugfail w -> sugfail (step w a).
Proof.
  intros SF (cs&Hcs&F). unfold sugfail. destruct (step_csug w a) as [E|E]; rewrite E; [eauto|].
  destruct (sf_cache _ SF _ Hcs F) as (s&Hs&Fs). eapply step_sug_failed; eauto.
Qed.

Lemma ctrials_step w a : Inv w -> TS w -> is_teardown a = false -> plag tst (c_trials w) (c_trials (step w a)).
Proof.
  intros Iv T NT. destruct (step_ctrials w a) as [E|E]; rewrite E; [apply plag_refl; apply tst_refl|].
  assert (G : tgrow tst (w_trials w) (w_trials (step w a))).
  { apply (tgrow_impl (tev w) tst _ _ (fun t t' It E0 => tev_tst w t t' Iv T It E0)). apply (step_trials w a Iv NT). }
  eapply plag_grow; [|apply (ts_lag _ T)|exact G]. intros x y z. apply tst_trans.
Qed.

Lemma okreason_step w a mx cs :
  Inv w -> TS w -> SFInv w -> is_teardown a = false ->
  okreason (w_cfg w) mx (c_trials w) (sugfail w) cs -> okreason (w_cfg (step w a)) mx (c_trials (step w a)) (sugfail (step w a)) cs.
Proof.
  intros Iv T SF NT H. rewrite step_cfg.
  eapply okreason_sf; [apply (sugfail_step w a SF)|]. eapply okreason_mono; [apply ctrials_step; assumption|exact H].
Qed.

(* ------------------------------------------------------------------ the invariant: a pending verdict for a stored experiment
   that carries none yet is a fresh decision, justified by the cached trials according to its reason *)

Definition RsInv (w : world) : Prop :=
  forall st rv onf, In (WExpStatus st rv, onf) (p_exp w) -> e_completed st = true ->
  forall e, w_exp w = Some e -> e_rv e = rv -> e_completed (e_st e) = false ->
  okreason (w_cfg w) (e_max e) (c_trials w) (sugfail w) (es_conds st).

Lemma RsInv_init c : RsInv (init c).
Proof. intros st rv onf []. Qed.

Lemma begin_exp_store w key resp dberr :
  w_exp (step w (Begin CExp key resp dberr)) = w_exp w /\ c_trials (step w (Begin CExp key resp dberr)) = c_trials w /\
  c_sug (step w (Begin CExp key resp dberr)) = c_sug w /\ c_exp (step w (Begin CExp key resp dberr)) = c_exp w.
Proof. cbn [step]. destruct (pending_of w CExp); repeat split; reflexivity. Qed.

Lemma step_rs w a : Inv w -> TS w -> SFInv w -> RsInv w -> is_teardown a = false -> RsInv (step w a).
Proof.
  intros Iv T SF R NT. pose proof Iv as [I P].
  destruct (step_inv2 w a NT Iv) as [Iv' Ev].
  intros st rv onf Hx C e' He' Rv NC'.
  change (p_exp (step w a)) with (pending_of (step w a) CExp) in Hx.
  destruct (step_pending2 _ _ _ _ Hx) as [H|(Ep&key&resp&dberr&Ea&H)].
  - (* was pending before: the stored experiment is the same object (same resourceVersion) *)
    pose proof (pending_of_ok w CExp P) as WO. rewrite Forall_forall in WO. specialize (WO _ H).
    unfold write_ok in WO. cbn [fst] in WO. destruct WO as (_&e&He&Rle&_).
    destruct (ev_exp_fwd _ _ Ev _ He) as (e2&He2&(Le&Eq&_)). rewrite He' in He2. inversion He2; subst e2.
    assert (Q : e_rv e = e_rv e') by lia. pose proof (Eq Q) as Ee. subst e'.
    apply okreason_step; try assumption. apply (R st rv onf H C e He Rv NC').
  - (* planned by this very step *)
    subst a. destruct (begin_exp_store w key resp dberr) as (E1&E2&E3&E4).
    rewrite E1 in He'. rewrite step_cfg. unfold sugfail. rewrite E2, E3.
    destruct (i_exp _ I) as (e0&ce&He0&Hce&Le&_). rewrite He' in He0. inversion He0; subst e0.
    destruct (plan_exp_completed_status w ce st rv onf Hce H C) as (Erv&_).
    destruct Le as (_&Eq&_). assert (ce = e') by (apply Eq; congruence). subst ce.
    destruct (plan_exp_fresh_verdict w e' st rv onf Hce H C NC') as (_&O). exact O.
Qed.

(* ------------------------------------------------------------------ exclusivity over runs *)

Definition excl (cs : conds) : Prop :=
  (has_cond cs ESucceeded && has_cond cs EFailed = false) /\
  (has_cond cs ESucceeded || has_cond cs EFailed = true -> has_cond cs ERunning = false).

Lemma excl_not_completed cs : has_cond cs ESucceeded = false -> has_cond cs EFailed = false -> excl cs.
Proof. intros A B. unfold excl. rewrite A, B. split; [reflexivity|discriminate]. Qed.

Lemma excl_emark cs k r : has_cond cs ESucceeded = false -> has_cond cs EFailed = false -> k = ESucceeded \/ k = EFailed ->
  excl (emark_verdict cs k r).
Proof.
  intros A B K. unfold excl, emark_verdict, mark. rewrite !has_set, !has_turn_off.
  destruct K as [-> | ->]; cbn; rewrite ?A, ?B; split; auto.
Qed.

Lemma excl_mark_other cs k r : k <> ESucceeded -> k <> EFailed -> k <> ERunning -> excl cs -> excl (mark cs k r).
Proof.
  intros N1 N2 N3 E. unfold excl, mark in *. rewrite !has_set.
  apply Nat.eqb_neq in N1, N2, N3. rewrite N1, N2, N3. exact E.
Qed.

Lemma excl_mark_running cs r : has_cond cs ESucceeded = false -> has_cond cs EFailed = false -> excl (mark cs ERunning r).
Proof. intros A B. unfold excl, mark. rewrite !has_set. cbn. rewrite A, B. split; [reflexivity|discriminate]. Qed.

Lemma excl_restarting cs : excl (mark (remove_cond (remove_cond cs ESucceeded) EFailed) ERestarting RRestarting).
Proof.
  unfold excl, mark. rewrite !has_set. cbn. unfold has_cond.
  rewrite get_remove_other by discriminate. rewrite !get_remove_same. split; [reflexivity|discriminate].
Qed.

Lemma not_completed_parts_e st : e_completed st = false -> has_cond (es_conds st) ESucceeded = false /\ has_cond (es_conds st) EFailed = false.
Proof. unfold e_completed, e_is. intro H. apply orb_false_iff in H. exact H. Qed.

Lemma update_status_excl cf mx now st ts : excl (es_conds st) -> excl (es_conds (update_status cf mx now st ts)).
Proof.
  intro E. unfold update_status. destruct (scan_best (c_minimize cf) (c_goal cf) ts None false) as [best reached].
  match goal with |- context [if ?c then _ else _] => destruct c eqn:C end; [exact E|].
  assert (C' : e_completed st = false) by exact C. destruct (not_completed_parts_e _ C') as [A B].
  unfold update_condition. cbn [es_conds es_counts].
  destruct reached; [apply excl_emark; auto|].
  match goal with |- context [if ?c then _ else _] => destruct c end; [apply excl_emark; auto|].
  match goal with |- context [if ?c then _ else _] => destruct c end; [apply excl_emark; auto|].
  cbn [es_conds]. now apply excl_mark_running.
Qed.

Lemma plan_trials_excl cf mx st2 ts sug : e_completed st2 = false -> excl (es_conds st2) -> excl (es_conds (snd (plan_trials cf mx st2 ts sug))).
Proof.
  intros C E. unfold plan_trials. destruct (_ <? _); [exact E|]. destruct (_ <? _); [|exact E]. destruct (0 <? _); [|exact E].
  unfold plan_create. destruct sug as [s|]; [|exact E].
  destruct (s_is (s_st s) SFailed).
  - cbn [snd with_conds es_conds]. destruct (not_completed_parts_e _ C) as [A B]. apply excl_emark; auto.
  - destruct (_ && _); exact E.
Qed.

Lemma reconcile_excl w e st1 st rv onf :
  In (WExpStatus st rv, onf) (plan_exp_reconcile w e st1) -> excl (es_conds st1) -> excl (es_conds st).
Proof.
  unfold plan_exp_reconcile. intros H E.
  set (st2 := match c_trials w with [] => st1 | _ => update_status (w_cfg w) (e_max e) (w_clock w) st1 (c_trials w) end) in *.
  assert (E2 : excl (es_conds st2)) by (unfold st2; destruct (c_trials w); [exact E|now apply update_status_excl]).
  destruct (e_completed st2) eqn:C2; [apply in_status_write in H; inversion H; subst; exact E2|].
  pose proof (ek_plan_trials_nostatus (w_cfg w) (e_max e) st2 (c_trials w) (c_sug w)) as K.
  pose proof (plan_trials_excl (w_cfg w) (e_max e) st2 (c_trials w) (c_sug w) C2 E2) as E3.
  destruct (plan_trials (w_cfg w) (e_max e) st2 (c_trials w) (c_sug w)) as [ws2 st3]. cbn [fst snd] in *.
  apply in_app_or in H as [H|H]; [rewrite forallb_forall in K; specialize (K _ H); discriminate|].
  apply in_status_write in H. inversion H; subst. exact E3.
Qed.

Lemma plan_exp_excl w ce st rv onf :
  c_exp w = Some ce -> excl (es_conds (e_st ce)) -> In (WExpStatus st rv, onf) (plan_exp w) -> excl (es_conds st).
Proof.
  intros Hce E H. unfold plan_exp in H. rewrite Hce in H.
  destruct (negb (e_deleting ce) && negb (e_fin ce)); [destruct H as [X|[]]; discriminate|].
  destruct (e_deleting ce && e_fin ce); [destruct H as [X|[]]; discriminate|].
  destruct (plan_exp_completed (w_cfg w) ce (c_sug w)) as [[ws1 st1] stop] eqn:PC.
  assert (N1 : ~ In (WExpStatus st rv, onf) ws1).
  { intro I. destruct (plan_exp_completed_shape _ _ _ _ _ _ _ PC I) as (s&cs'&_&X). discriminate. }
  assert (E1 : excl (es_conds st1)).
  { revert PC. unfold plan_exp_completed. destruct (e_completed (e_st ce)); [|intros [= _ <- _]; exact E].
    destruct (restartable _ _ && _); intros [= _ <- _]; [apply excl_restarting|exact E]. }
  destruct stop; [contradiction|].
  destruct (negb (e_is st1 ECreated)).
  - apply in_app_or in H as [H|H]; [contradiction|]. apply in_status_write in H. inversion H; subst.
    cbn [with_conds es_conds]. apply excl_mark_other; try discriminate. exact E1.
  - apply in_app_or in H as [H|H]; [contradiction|]. eapply reconcile_excl; eauto.
Qed.

Record ExInv (w : world) : Prop := {
  ex_store : forall e, w_exp w = Some e -> excl (es_conds (e_st e));
  ex_cache : forall e, c_exp w = Some e -> excl (es_conds (e_st e));
  ex_pend : forall c st rv onf, In (WExpStatus st rv, onf) (pending_of w c) -> excl (es_conds st) }.

Lemma ExInv_init c : ExInv (init c).
Proof.
  constructor.
  - intros e H. cbn in H. inversion H; subst. cbn. apply excl_not_completed; reflexivity.
  - intros e H. cbn in H. inversion H; subst. cbn. apply excl_not_completed; reflexivity.
  - intros [] st rv onf [].
Qed.

(* the status of the stored experiment after a step is the old one or one that was pending *)
Lemma step_exp_status w a e1 :
  Inv w -> is_teardown a = false -> w_exp (step w a) = Some e1 ->
  exists e, w_exp w = Some e /\
    (e_st e1 = e_st e \/ exists c rv onf, In (WExpStatus (e_st e1) rv, onf) (pending_of w c) /\ rv = e_rv e /\ is_begin a = false /\ e_max e1 = e_max e).
Proof.
  intros [I P] NT.
  assert (Same : forall w', w_exp w' = w_exp w -> w_exp w' = Some e1 ->
            exists e, w_exp w = Some e /\
              (e_st e1 = e_st e \/ exists c rv onf, In (WExpStatus (e_st e1) rv, onf) (pending_of w c) /\ rv = e_rv e /\ is_begin a = false /\ e_max e1 = e_max e)).
  { intros w' E H. rewrite E in H. exists e1. auto. }
  destruct a; try discriminate; cbn [step].
  - destruct (pending_of w c); [|apply Same; reflexivity]. destruct c; [|destruct (plan_sug w resp)|]; apply Same; reflexivity.
  - destruct (pending_of w c) as [|[wr onf] rest] eqn:Ep; [apply Same; reflexivity|].
    destruct (if inject_failure then None else apply_write (count_write w) wr) as [w1|] eqn:A; [|apply Same; destruct c; reflexivity].
    destruct inject_failure; [discriminate|]. intro H.
    assert (H1 : w_exp w1 = Some e1) by (destruct c; exact H).
    destruct (inv_exp_some _ I) as (e&He&De&_).
    assert (He' : w_exp (count_write w) = Some e) by exact He.
    destruct (apply_write_exp _ _ _ _ A He' De) as (e2&He2&M2&K). rewrite H1 in He2. inversion He2; subst e2.
    exists e. split; [exact He|].
    destruct K as [K|(st&rv&->&Rv&K)]; [left; exact K|]. right. exists c, rv, onf. rewrite Ep, K. split; [now left|]. split; [exact Rv|]. split; [reflexivity|exact M2].
  - apply Same. destruct c; reflexivity.
  - apply Same. reflexivity.
  - apply Same. reflexivity.
  - destruct (find_trial t (w_trials w)); apply Same; reflexivity.
  - destruct (find_trial t (w_trials w)) as [tr|]; [|apply Same; reflexivity]. destruct (_ && _); [|apply Same; reflexivity].
    apply Same. cbn. destruct v, (db_get t (w_db w)); reflexivity.
  - destruct (i_dep (w_infra w)); apply Same; reflexivity.
  - apply Same. reflexivity.
  - apply Same. reflexivity.
  - apply Same. reflexivity.
  - clear Same. destruct (w_exp w) as [e|] eqn:He; [|intro H; rewrite He in H; discriminate].
    destruct (e_max e); [|intro H; rewrite He in H; inversion H; subst; exists e1; auto].
    destruct (_ && _ && _); [|intro H; rewrite He in H; inversion H; subst; exists e1; auto].
    cbn. intros [= <-]. exists e. split; [reflexivity|]. left. reflexivity.
Qed.

Lemma step_ex w a : Inv w -> ExInv w -> is_teardown a = false -> ExInv (step w a).
Proof.
  intros Iv [S C Pn] NT. pose proof Iv as [I P].
  assert (St : forall e1, w_exp (step w a) = Some e1 -> excl (es_conds (e_st e1))).
  { intros e1 H. destruct (step_exp_status w a e1 Iv NT H) as (e&He&[Q|(c&rv&onf&Ip&_)]); [rewrite Q; eauto|eauto]. }
  constructor.
  - exact St.
  - intros ce H. destruct (step_cexp w a) as [E|E]; rewrite E in H; eauto.
  - intros c st rv onf Hx. destruct (step_pending2 _ _ _ _ Hx) as [H|(Ep&key&resp&dberr&Ea&H)]; [eauto|].
    destruct c.
    + destruct (i_exp _ I) as (e0&ce&_&Hce&_). eapply plan_exp_excl; eauto.
    + exfalso. destruct (plan_sug_shape _ _ _ H) as (cs0&Hc&[(k&[X|X])|(st0&X&_)]); discriminate.
    + exfalso. pose proof (plan_trial_plain w key dberr) as K. rewrite forallb_forall in K. specialize (K _ H). discriminate.
Qed.

(* ------------------------------------------------------------------ counting on the projected trials *)
From KV Require Import Corr.WorldC Corr.WorldMon Proofs.MonSound.

Lemma count_class_cons k n t l : count_class k ((n, classify t) :: l) = (if class_eqb (classify t) k then 1 else 0) + count_class k l.
Proof. unfold count_class. cbn [filter snd]. destruct (class_eqb (classify t) k); cbn [length]; lia. Qed.

Lemma completed_count_le ts : completed_count (counts_of (cls ts)) <= Z.of_nat (length (filter t_completed ts)).
Proof.
  unfold completed_count, counts_of. cbn [n_succeeded n_failed n_killed n_es n_mu].
  induction ts as [|t ts IH]; [cbn; lia|].
  unfold cls in *. cbn [map]. rewrite !count_class_cons. cbn [filter].
  pose proof (classify_completed t) as K.
  destruct (classify t); cbn [class_eqb] in *; try rewrite K; cbn [length]; try lia; destruct (t_completed t); cbn [length]; lia.
Qed.

Lemma failed_count_le ts :
  n_failed (counts_of (cls ts)) + n_mu (counts_of (cls ts)) <=
  Z.of_nat (length (filter (fun t => t_is t TFailed || t_is t TMetricsUnavailable) ts)).
Proof.
  unfold counts_of. cbn [n_failed n_mu].
  induction ts as [|t ts IH]; [cbn; lia|].
  unfold cls in *. cbn [map]. rewrite !count_class_cons. cbn [filter].
  assert (K : match classify t with KFailed => t_is t TFailed = true | KMetricsUnavailable => t_is t TMetricsUnavailable = true | _ => True end).
  { unfold classify. destruct (t_is t TKilled); [exact I|]. destruct (t_is t TFailed); [reflexivity|]. destruct (t_is t TSucceeded); [exact I|].
    destruct (t_is t TEarlyStopped); [exact I|]. destruct (t_is t TRunning); [exact I|]. destruct (t_is t TMetricsUnavailable); [reflexivity|exact I]. }
  destruct (classify t); cbn [class_eqb] in *; try rewrite K; rewrite ?orb_true_r; cbn [orb length]; try lia;
    destruct (t_is t TFailed || t_is t TMetricsUnavailable); cbn [length]; lia.
Qed.

Lemma filter_ptr (f : ptrial -> bool) ts : length (filter f (map ptr ts)) = length (filter (fun t => f (ptr t)) ts).
Proof. induction ts as [|t ts IH]; [reflexivity|]. cbn. destruct (f (ptr t)); cbn; now rewrite IH. Qed.

Lemma pj_trials_project w : pj_trials (project w) = map ptr (w_trials w).
Proof. reflexivity. Qed.

Lemma goal_hit_projected cf ts : goal_hit (c_minimize cf) (c_goal cf) ts = true ->
  match c_goal cf with
  | Some g => existsb (fun t => match pt_obs t with Some (Some v) => WorldMon.meets cf g v | _ => false end) (map ptr ts)
  | None => false end = true.
Proof.
  unfold goal_hit. destruct (c_goal cf) as [g|]; [|discriminate]. intro H.
  apply existsb_exists in H as (t&It&Ht). apply existsb_exists. exists (ptr t). split; [now apply in_map|].
  unfold objective in Ht. cbn [pt_obs ptr]. destruct (t_obs t) as [[v|]|]; try discriminate. exact Ht.
Qed.

(* ------------------------------------------------------------------ the C03 step monitor on the model's projections *)

Definition FullInv (w : world) : Prop := AllInv w /\ RsInv w /\ ExInv w.

Lemma FullInv_step w a : FullInv w -> is_teardown a = false -> FullInv (step w a).
Proof.
  intros (A&R&E) NT. pose proof A as (I&O&T&S&N).
  split; [now apply AllInv_step|]. split; [now apply step_rs|now apply step_ex].
Qed.

Lemma FullInv_init c : valid_cfg c -> FullInv (init c).
Proof. intro V. split; [exact (all_invs c [] V eq_refl)|]. split; [apply RsInv_init|apply ExInv_init]. Qed.

Theorem justified_step_model w a : FullInv w -> is_teardown a = false -> justified_step (w_cfg w) (project w) (project (step w a)) = true.
Proof.
  intros (A&R&E) NT. pose proof A as (Iv&O&T&S&N). pose proof Iv as [I _].
  unfold justified_step. rewrite !exp_completed_project.
  destruct (inv_exp_some _ I) as (e&He&_). rewrite He.
  destruct (e_completed (e_st e)) eqn:C; [reflexivity|]. cbn [negb andb].
  destruct (w_exp (step w a)) as [e'|] eqn:He'; [|reflexivity].
  destruct (e_completed (e_st e')) eqn:C'; [|reflexivity].
  destruct (step_exp_status w a e' Iv NT He') as (e0&He0&[Q|(c&rv&onf&Ip&Rv&Nb&Mx)]); rewrite He in He0; inversion He0; subst e0;
    [rewrite Q in C'; congruence|].
  (* the write is pending with the experiment controller *)
  assert (Ec : c = CExp).
  { destruct c; [reflexivity|exfalso|exfalso].
    - pose proof (nc_sug _ N) as K. rewrite forallb_forall in K. specialize (K _ Ip). discriminate.
    - pose proof (nc_trial _ N) as K. rewrite forallb_forall in K. specialize (K _ Ip). discriminate. }
  subst c. pose proof (R _ _ _ Ip C' e He (eq_sym Rv) C) as OK.
  (* from the cached trials to the trials stored after the step *)
  assert (G : tgrow tst (w_trials w) (w_trials (step w a))).
  { apply (tgrow_impl (tev w) tst _ _ (fun t t' It E0 => tev_tst w t t' Iv T It E0)). apply (step_trials w a Iv NT). }
  assert (P : plag tst (c_trials w) (w_trials (step w a))).
  { eapply plag_grow; [|apply (ts_lag _ T)|exact G]. intros x y z. apply tst_trans. }
  pose proof (okreason_mono _ _ _ _ _ _ P OK) as OK'. clear OK.
  set (ts := w_trials (step w a)) in *.
  unfold project at 1. cbn [pj_exp]. rewrite He'. cbn [pe_conds pe_max].
  unfold pe_is. cbn [pe_conds]. rewrite pj_trials_project. fold ts. rewrite !filter_ptr.
  pose proof (completed_count_le ts) as CL. pose proof (failed_count_le ts) as FL.
  assert (FC : failcase (w_cfg w) ts (sugfail w) ->
               (match c_maxfailed (w_cfg w) with
                | Some f => (1 <=? Z.of_nat (length (filter (fun t => pt_is (ptr t) TFailed || pt_is (ptr t) TMetricsUnavailable) ts))) &&
                            (f <=? Z.of_nat (length (filter (fun t => pt_is (ptr t) TFailed || pt_is (ptr t) TMetricsUnavailable) ts)))
                | None => false end
                || match pj_sug (project (step w a)) with Some s => ps_is s SFailed | None => false end) = true).
  { intros [(f&Ef&A1&A2)|(cs&Hcs&Fs)].
    - rewrite Ef. apply orb_true_iff. left. change (fun t => pt_is (ptr t) TFailed || pt_is (ptr t) TMetricsUnavailable) with (fun t => t_is t TFailed || t_is t TMetricsUnavailable).
      apply andb_true_iff. split; apply Z.leb_le; lia.
    - apply orb_true_iff. right. destruct (sf_cache _ S _ Hcs Fs) as (s&Hs&F1).
      destruct (step_sug_failed w a s S Hs F1) as (s'&Hs'&F2). rewrite pj_sug_project, Hs'. cbn [option_map]. exact F2. }
  unfold okreason in OK'. unfold has_cond.
  destruct (get_cond (es_conds (e_st e')) ESucceeded) as [c0|]; [|now apply FC].
  destruct (cstatus_eqb (cstat c0) CTrue); [|now apply FC].
  destruct (Nat.eqb (creason c0) RGoalReached); [now apply goal_hit_projected|].
  destruct (Nat.eqb (creason c0) RMaxTrialsReached); [|destruct OK'].
  destruct OK' as (m&Em&Lm). rewrite Mx, Em. apply Z.leb_le.
  change (fun t => pt_completed (ptr t)) with t_completed. lia.
Qed.

Lemma ocond_eqb_refl (o : option cond) : option_eqb cond_eqb o o = true.
Proof. destruct o as [c|]; [|reflexivity]. cbn. now apply cond_eqb_spec. Qed.

Theorem verdict_step_model w a : FullInv w -> is_teardown a = false -> verdict_step (w_cfg w) (project w) a (project (step w a)) = true.
Proof.
  intros F NT. pose proof F as (A&R&E). pose proof A as (Iv&_). pose proof Iv as [I _].
  pose proof (FullInv_step w a F NT) as (_&_&E').
  unfold verdict_step. rewrite (justified_step_model w a F NT), andb_true_r.
  apply andb_true_iff. split.
  - (* exclusive *)
    unfold project at 1. cbn [pj_exp]. destruct (w_exp (step w a)) as [e'|] eqn:He'; [|reflexivity].
    destruct (ex_store _ E' _ He') as [X1 X2]. unfold pe_is, pe_completed, pe_is. cbn [pe_conds].
    rewrite X1. cbn [negb andb]. destruct (has_cond (es_conds (e_st e')) ESucceeded || has_cond (es_conds (e_st e')) EFailed) eqn:Cm; [|reflexivity].
    rewrite (X2 eq_refl). reflexivity.
  - (* stable *)
    rewrite exp_completed_project. destruct (inv_exp_some _ I) as (e&He&_). rewrite He.
    destruct (e_completed (e_st e)) eqn:C; [|reflexivity]. cbn [andb].
    destruct (restart_enabled (w_cfg w) (project w)) eqn:Rs; [reflexivity|]. cbn [negb andb].
    rewrite (restart_enabled_project w e He) in Rs.
    destruct (verdict_stable_step w a e Iv NT He C Rs) as (e'&He'&(S1&S2&_)).
    unfold verdict_conds, project. cbn [pj_exp pj_ctchange]. rewrite He, He'. cbn [is_some pe_conds negb].
    rewrite S1, S2. cbn [list_eqb]. now rewrite !ocond_eqb_refl.
Qed.

Theorem verdict_steps_model w acts :
  FullInv w -> no_teardown acts -> all_steps (verdict_step (w_cfg w)) (project w) (msteps w acts) = true.
Proof.
  revert w. induction acts as [|a l IH]; intros w F NT; [reflexivity|].
  apply no_teardown_cons in NT as [Na NT]. cbn [msteps all_steps]. rewrite verdict_step_model by assumption. cbn [andb].
  rewrite <- (step_cfg w a). apply IH; [now apply FullInv_step|exact NT].
Qed.

Theorem verdict_monitor_sound c acts :
  valid_cfg c -> no_teardown acts -> all_steps (verdict_step c) (project (init c)) (msteps (init c) acts) = true.
Proof. intros V NT. change c with (w_cfg (init c)) at 1. apply verdict_steps_model; [now apply FullInv_init|exact NT]. Qed.

(* the stored experiment never carries both verdicts, and is not Running once it carries one: for every reachable state *)
Theorem verdict_exclusive_run c acts e :
  valid_cfg c -> no_teardown acts -> w_exp (run c acts) = Some e ->
  (e_is (e_st e) ESucceeded && e_is (e_st e) EFailed = false) /\ (e_completed (e_st e) = true -> e_is (e_st e) ERunning = false).
Proof.
  intros V NT He.
  assert (H : forall l w, FullInv w -> no_teardown l -> FullInv (fold_left step l w)).
  { induction l as [|a l IH]; intros w F Nt; [exact F|]. apply no_teardown_cons in Nt as [Na Nt]. cbn. apply IH; [now apply FullInv_step|exact Nt]. }
  destruct (H acts (init c) (FullInv_init c V) NT) as (_&_&E). exact (ex_store _ E _ He).
Qed.
