(* C04 within the quantifier of the property: histories in which nobody edits the spec (no UserRaiseMax) and nothing is torn
   down.  Then a restart is never enabled, a settled verdict stays, a Succeeded suggestion implies a completed experiment --
   for all three resume policies -- and quiescence implies a verdict. *)
From KV Require Import Base.Prelude Base.Cond Model.World Proofs.WorldPlan Proofs.EqbRefl Proofs.WorldInv Proofs.WorldInv2
  Proofs.WorldInv3 Proofs.WorldInv4 Proofs.WorldInv5 Proofs.WorldThm Proofs.WorldQuiet Proofs.WorldSucc.
Open Scope Z_scope.

(* Succeeded with reason MaxTrialsReached *)
Definition mt (st : estatus) : bool :=
  match get_cond (es_conds st) ESucceeded with
  | Some c => cstatus_eqb (cstat c) CTrue && Nat.eqb (creason c) RMaxTrialsReached
  | None => false
  end.

Lemma restartable_mt cf st : restartable cf st = true -> mt st = true.
Proof.
  unfold restartable, mt. destruct (get_cond (es_conds st) ESucceeded); [|discriminate].
  intro H. apply andb_true_iff in H as [H _]. exact H.
Qed.

Lemma mt_conds a b : get_cond (es_conds a) ESucceeded = get_cond (es_conds b) ESucceeded -> mt a = mt b.
Proof. unfold mt. now intros ->. Qed.

Lemma get_turn_off_other cs off t : off <> t -> get_cond (turn_off cs off) t = get_cond cs t.
Proof. intro H. unfold turn_off. destruct (get_cond cs off); [now apply get_set_other|reflexivity]. Qed.

Lemma mt_mark_restarting st : mt (mark_restarting st) = false.
Proof.
  unfold mt, mark_restarting, mark. cbn [es_conds].
  rewrite get_set_other by discriminate. rewrite get_remove_other by discriminate. now rewrite get_remove_same.
Qed.

Lemma mt_completed st : mt st = true -> e_completed st = true.
Proof.
  unfold mt, e_completed, e_is, has_cond. destruct (get_cond (es_conds st) ESucceeded); [|discriminate].
  intro H. apply andb_true_iff in H as [H _]. now rewrite H.
Qed.

Lemma n_trials_counts_of ts : n_trials (counts_of (map (fun t => (t_name t, classify t)) ts)) = Z.of_nat (length ts).
Proof. unfold counts_of. cbn. now rewrite map_length. Qed.

Lemma completed_count_le_len l : completed_count (counts_of l) <= Z.of_nat (length l).
Proof.
  pose proof (classes_partition_counts l). pose proof (counts_of_nonneg l) as (A&B&_). lia.
Qed.

(* where a MaxTrialsReached verdict in a recomputed status comes from *)
Lemma update_status_mt cf mx now st ts :
  mt (update_status cf mx now st ts) = true ->
  mt st = true \/ exists m, mx = Some m /\ m <= Z.of_nat (length ts).
Proof.
  unfold update_status. destruct (scan_best _ _ _ _ _) as [best reached].
  match goal with |- context [if ?c then _ else _] => destruct c eqn:C end.
  - intro H. left. exact H.
  - unfold update_condition. cbn [es_counts es_conds es_classes].
    destruct reached.
    { unfold mt. cbn [es_conds]. unfold emark_verdict, mark.
      destruct (get_set_same (turn_off (es_conds st) ERunning) ESucceeded CTrue RGoalReached) as (c&->&_&R&_). rewrite R. cbn.
      rewrite andb_false_r. discriminate. }
    match goal with |- context [if ?c then _ else _] => destruct c end.
    { intro H. left. revert H. unfold mt. cbn [es_conds]. unfold emark_verdict, mark.
      rewrite get_set_other by discriminate. rewrite get_turn_off_other by discriminate. auto. }
    destruct mx as [m|].
    + destruct (m <=? completed_count _) eqn:L.
      * intros _. right. exists m. split; [reflexivity|]. apply Z.leb_le in L.
        pose proof (completed_count_le_len (map (fun t => (t_name t, classify t)) ts)). rewrite map_length in H. lia.
      * intro H. left. revert H. unfold mt. cbn [es_conds]. unfold mark. rewrite get_set_other by discriminate. auto.
    + intro H. left. revert H. unfold mt. cbn [es_conds]. unfold mark. rewrite get_set_other by discriminate. auto.
Qed.

Lemma plan_create_mt cf st ts sug add : mt (snd (plan_create cf st ts sug add)) = true -> mt st = true.
Proof.
  unfold plan_create. destruct sug as [s|]; [|auto]. destruct (s_is (s_st s) SFailed); [|destruct (_ && _); auto].
  cbn [snd]. unfold mt, with_conds. cbn [es_conds]. unfold emark_verdict, mark.
  rewrite get_set_other by discriminate. rewrite get_turn_off_other by discriminate. auto.
Qed.

Lemma plan_trials_mt cf mx st ts sug : mt (snd (plan_trials cf mx st ts sug)) = true -> mt st = true.
Proof.
  unfold plan_trials. destruct (_ <? _); [auto|]. destruct (_ <? _); [|auto].
  destruct (0 <? _); [apply plan_create_mt|auto].
Qed.

(* ReconcileTrials plans no experiment-status write *)
Definition nostatus (x : write * onfail) : bool := match fst x with WExpStatus _ _ => false | _ => true end.

Lemma ek_plan_trials_nostatus cf mx st ts sug : forallb nostatus (fst (plan_trials cf mx st ts sug)) = true.
Proof.
  unfold plan_trials. destruct (_ <? _); [reflexivity|]. destruct (_ <? _); [|reflexivity].
  destruct (0 <? _); [|reflexivity].
  unfold plan_create. destruct sug as [s|]; [|reflexivity]. destruct (s_is (s_st s) SFailed); [reflexivity|].
  destruct (s_is (s_st s) SSucceeded && _); [cbn [fst]; destruct (s_restarting (s_st s)); reflexivity|].
  cbn [fst]. rewrite forallb_app. destruct (s_requests s =? _); cbn [forallb nostatus fst andb];
    (induction (if _ <? _ then _ else _) as [|n l IH]; [reflexivity|exact IH]).
Qed.

(* ------------------------------------------------------------------ the invariant *)

Definition mt_ok (w : world) (st : estatus) : Prop :=
  mt st = true -> exists m, c_max (w_cfg w) = Some m /\ m <= n_trials (es_counts st) /\ m <= Z.of_nat (length (c_trials w)).

Record CalmInv (w : world) : Prop := {
  k_exp : forall e, w_exp w = Some e -> e_max e = c_max (w_cfg w) /\ mt_ok w (e_st e);
  k_cexp : forall e, c_exp w = Some e -> e_max e = c_max (w_cfg w) /\ mt_ok w (e_st e);
  k_pend : forall c st rv onf, In (WExpStatus st rv, onf) (pending_of w c) -> mt_ok w st }.

Lemma mt_ok_no_restart w e : e_max e = c_max (w_cfg w) -> mt_ok w (e_st e) -> restart_enabled_e (w_cfg w) e = false.
Proof.
  intros M K. unfold restart_enabled_e. destruct (restartable (w_cfg w) (e_st e)) eqn:R; [|reflexivity].
  destruct (K (restartable_mt _ _ R)) as (m&Hm&L&_). rewrite M, Hm. cbn. apply Z.ltb_ge. exact L.
Qed.

Lemma calm_store w e : CalmInv w -> w_exp w = Some e -> restart_enabled_e (w_cfg w) e = false.
Proof. intros K H. destruct (k_exp _ K _ H). now apply mt_ok_no_restart. Qed.

Lemma calm_cache w e : CalmInv w -> c_exp w = Some e -> restart_enabled_e (w_cfg w) e = false.
Proof. intros K H. destruct (k_cexp _ K _ H). now apply mt_ok_no_restart. Qed.

Lemma mt_ok_frame w w' st :
  w_cfg w' = w_cfg w -> (length (c_trials w) <= length (c_trials w'))%nat -> mt_ok w st -> mt_ok w' st.
Proof. intros Ec L K H. destruct (K H) as (m&A&B&C). exists m. rewrite Ec. repeat split; auto. lia. Qed.

(* every status the experiment controller plans to write keeps the invariant *)
Lemma plan_exp_mt w st rv onf : CalmInv w -> In (WExpStatus st rv, onf) (plan_exp w) -> mt_ok w st.
Proof.
  intros K H. unfold plan_exp in H. destruct (c_exp w) as [e|] eqn:Hce; [|destruct H].
  destruct (k_cexp _ K _ Hce) as [Mx Ok].
  destruct (negb (e_deleting e) && negb (e_fin e)); [destruct H as [X|[]]; discriminate|].
  destruct (e_deleting e && e_fin e); [destruct H as [X|[]]; discriminate|].
  destruct (plan_exp_completed (w_cfg w) e (c_sug w)) as [[ws1 st1] stop] eqn:PC.
  destruct (plan_exp_completed_classes _ _ _ _ _ _ PC) as [_ Cn].
  assert (N1 : ~ In (WExpStatus st rv, onf) ws1).
  { intro I. destruct (plan_exp_completed_shape _ _ _ _ _ _ _ PC I) as (s&cs'&_&E). discriminate. }
  assert (M1 : mt st1 = true -> mt (e_st e) = true).
  { revert PC. unfold plan_exp_completed. destruct (e_completed (e_st e)); [|now intros [= _ <- _]].
    destruct (restartable _ _ && _); intros [= _ <- _]; [now rewrite mt_mark_restarting|auto]. }
  assert (Ok1 : mt_ok w st1).
  { intro Hm. destruct (Ok (M1 Hm)) as (m&A&B&C). exists m. rewrite Cn. auto. }
  destruct stop; [contradiction|].
  destruct (negb (e_is st1 ECreated)).
  - apply in_app_or in H as [H|H]; [contradiction|]. apply in_status_write in H. inversion H; subst.
    intro Hm. apply Ok1. rewrite <- Hm. apply mt_conds. unfold with_conds, mark. cbn [es_conds]. now rewrite get_set_other by discriminate.
  - apply in_app_or in H as [H|H]; [contradiction|].
    unfold plan_exp_reconcile in H.
    set (ts := c_trials w) in *.
    set (st2 := match ts with [] => st1 | _ => update_status (w_cfg w) (e_max e) (w_clock w) st1 ts end) in *.
    assert (Ok2 : mt_ok w st2).
    { unfold st2. destruct ts as [|t0 ts'] eqn:Ets; [exact Ok1|]. fold ts in Ets. rewrite <- Ets.
      intro Hm. rewrite update_status_counts, n_trials_counts_of.
      destruct (update_status_mt _ _ _ _ _ Hm) as [H1|(m&Em&Lm)].
      - destruct (Ok1 H1) as (m&A&B&C). exists m. repeat split; auto.
      - exists m. rewrite <- Mx. repeat split; auto. }
    destruct (e_completed st2).
    + apply in_status_write in H. inversion H; subst. exact Ok2.
    + destruct (plan_trials (w_cfg w) (e_max e) st2 ts (c_sug w)) as [ws2 st3] eqn:PT.
      apply in_app_or in H as [H|H].
      * exfalso. assert (H' : In (WExpStatus st rv, onf) (fst (plan_trials (w_cfg w) (e_max e) st2 ts (c_sug w)))) by now rewrite PT.
        pose proof (ek_plan_trials_nostatus (w_cfg w) (e_max e) st2 ts (c_sug w)) as NS. rewrite forallb_forall in NS. specialize (NS _ H'). discriminate.
      * apply in_status_write in H. inversion H; subst.
        intro Hm. assert (E3 : st3 = snd (plan_trials (w_cfg w) (e_max e) st2 ts (c_sug w))) by now rewrite PT.
        assert (C3 : es_counts st3 = es_counts st2) by (rewrite E3; apply plan_trials_counts).
        rewrite E3 in Hm. apply plan_trials_mt in Hm. destruct (Ok2 Hm) as (m&A&B&C). exists m. rewrite C3. auto.
Qed.

(* ------------------------------------------------------------------ steps *)

Definition calm_safe (a : action) : bool :=
  match a with UserRaiseMax _ | DeleteExperiment | GcTrial _ => false | _ => true end.

Lemma calm_safe_no_teardown a : calm_safe a = true -> is_teardown a = false.
Proof. destruct a; cbn; congruence. Qed.

Lemma step_ctrials_len w a : InvS w -> (length (c_trials w) <= length (c_trials (step w a)))%nat.
Proof.
  intro I.
  assert (Same : forall w', c_trials w' = c_trials w -> (length (c_trials w) <= length (c_trials w'))%nat) by (intros w' ->; lia).
  destruct a; cbn [step].
  - destruct (pending_of w c); [|lia]. destruct c; [|destruct (plan_sug w resp)|]; apply Same; reflexivity.
  - destruct (pending_of w c) as [|[wr onf] rest]; [lia|].
    destruct (if inject_failure then None else apply_write (count_write w) wr) as [w1|] eqn:A; [|apply Same; destruct c; reflexivity].
    destruct inject_failure; [discriminate|]. apply Same.
    assert (E : c_trials w1 = c_trials w).
    { clear -A. destruct wr; cbn [apply_write] in A; repeat aw_cases A (count_write w); inversion A; subst; reflexivity. }
    destruct c; exact E.
  - apply Same. destruct c; reflexivity.
  - apply Same. reflexivity.
  - apply Same. reflexivity.
  - destruct (find_trial t (w_trials w)), (db_get t (w_db w)); apply Same; reflexivity.
  - destruct (find_trial t (w_trials w)) as [tr|]; [|lia]. destruct (_ && _); [|lia]. apply Same. cbn. destruct v, (db_get t (w_db w)); reflexivity.
  - destruct (i_dep (w_infra w)); apply Same; reflexivity.
  - apply Same. reflexivity.
  - apply Same. reflexivity.
  - cbn. apply (tlag_length _ _ (i_tlag _ I)).
  - destruct (w_exp w) as [e|]; [|lia]. destruct (e_max e); [|lia]. destruct (_ && _ && _); apply Same; reflexivity.
  - destruct (w_exp w) as [e|]; [|lia]. destruct (e_fin e); apply Same; reflexivity.
  - destruct (w_exp w), (find_trial t (w_trials w)) as [tr|]; try lia. destruct (t_fin tr); apply Same; reflexivity.
Qed.

(* the stored experiment after a step: same budget; its status is the old one or one that was pending *)
Lemma step_exp_store w a e1 :
  Inv w -> calm_safe a = true -> w_exp (step w a) = Some e1 ->
  exists e, w_exp w = Some e /\ e_max e1 = e_max e /\
    (e_st e1 = e_st e \/ exists c rv onf, In (WExpStatus (e_st e1) rv, onf) (pending_of w c)).
Proof.
  intros [I P] Sf.
  assert (Same : forall w', w_exp w' = w_exp w -> w_exp w' = Some e1 ->
            exists e, w_exp w = Some e /\ e_max e1 = e_max e /\
              (e_st e1 = e_st e \/ exists c rv onf, In (WExpStatus (e_st e1) rv, onf) (pending_of w c))).
  { intros w' E H. rewrite E in H. exists e1. auto. }
  destruct a; try discriminate; cbn [step].
  - destruct (pending_of w c); [|apply Same; reflexivity]. destruct c; [|destruct (plan_sug w resp)|]; apply Same; reflexivity.
  - destruct (pending_of w c) as [|[wr onf] rest] eqn:Ep; [apply Same; reflexivity|].
    destruct (if inject_failure then None else apply_write (count_write w) wr) as [w1|] eqn:A; [|apply Same; destruct c; reflexivity].
    destruct inject_failure; [discriminate|]. intro H.
    assert (H1 : w_exp w1 = Some e1) by (destruct c; exact H).
    destruct (inv_exp_some _ I) as (e&He&De&_).
    assert (He' : w_exp (count_write w) = Some e) by exact He.
    destruct (apply_write_exp _ _ _ _ A He' De) as (e2&He2&M2&K). rewrite H1 in He2. inversion He2; subst e2.
    exists e. split; [exact He|]. split; [exact M2|].
    destruct K as [K|(st&rv&->&_&K)]; [left; exact K|]. right. exists c, rv, onf. rewrite Ep, K. now left.
  - apply Same. destruct c; reflexivity.
  - apply Same. reflexivity.
  - apply Same. reflexivity.
  - destruct (find_trial t (w_trials w)), (db_get t (w_db w)); apply Same; reflexivity.
  - destruct (find_trial t (w_trials w)) as [tr|]; [|apply Same; reflexivity]. destruct (_ && _); [|apply Same; reflexivity].
    apply Same. cbn. destruct v, (db_get t (w_db w)); reflexivity.
  - destruct (i_dep (w_infra w)); apply Same; reflexivity.
  - apply Same. reflexivity.
  - apply Same. reflexivity.
  - apply Same. reflexivity.
Qed.

Lemma step_calm w a : Inv w -> CalmInv w -> calm_safe a = true -> CalmInv (step w a).
Proof.
  intros Iv K Sf. pose proof Iv as [I P].
  assert (Fr : forall st, mt_ok w st -> mt_ok (step w a) st).
  { intro st. apply mt_ok_frame; [apply step_cfg|now apply step_ctrials_len]. }
  assert (St : forall e1, w_exp (step w a) = Some e1 -> e_max e1 = c_max (w_cfg (step w a)) /\ mt_ok (step w a) (e_st e1)).
  { intros e1 H. destruct (step_exp_store _ _ _ Iv Sf H) as (e&He&M&Q). destruct (k_exp _ K _ He) as [Mx Ok].
    rewrite step_cfg. split; [congruence|].
    destruct Q as [->|(c&rv&onf&In')]; apply Fr; [exact Ok|eapply k_pend; eauto]. }
  constructor.
  - exact St.
  - intros ce H. destruct (step_cexp w a) as [E|E]; rewrite E in H.
    + destruct (k_cexp _ K _ H) as [Mx Ok]. rewrite step_cfg. split; [exact Mx|now apply Fr].
    + now apply St.
  - intros c st rv onf H.
    destruct (step_pending _ _ _ _ H) as [H1|[H1|[(resp&H1)|(key&dberr&H1)]]].
    + apply Fr. eapply k_pend; eauto.
    + apply Fr. eapply plan_exp_mt; eauto.
    + destruct (plan_sug_shape _ _ _ H1) as (cs&Hc&[(k&[X|X])|(st'&X&_)]); discriminate.
    + exfalso. destruct (plan_trial_shape _ _ _ _ H1) as (t&F&N&[(E&_)|[(Pl&_)|[(E&_)|[(E&_)|[(E&_)|(cs&o&ct&E&_)]]]]]); try discriminate.
      rewrite Pl in H1. destruct H1 as [X|[X|[]]]; discriminate.
Qed.

(* ------------------------------------------------------------------ Succeeded suggestion => completed experiment, all policies *)

Record SuccInv2 (w : world) : Prop := {
  s2_cexp : forall ce, c_exp w = Some ce -> e_completed (e_st ce) = true -> exp_done w;
  s2_sug : forall s, w_sug w = Some s -> s_is (s_st s) SSucceeded = true -> exp_done w;
  s2_csug : forall s, c_sug w = Some s -> s_is (s_st s) SSucceeded = true -> exp_done w;
  s2_pend : forall c st rv onf, In (WSugStatus st rv, onf) (pending_of w c) -> s_is st SSucceeded = true -> exp_done w }.

Lemma exp_done_step_calm w a : Inv w -> CalmInv w -> calm_safe a = true -> exp_done w -> exp_done (step w a).
Proof.
  intros I K Sf (e&He&C).
  destruct (verdict_stable_step w a e I (calm_safe_no_teardown _ Sf) He C (calm_store _ _ K He)) as (e'&He'&S).
  exists e'. split; [exact He'|]. eapply verdict_same_completed; eauto.
Qed.

Lemma step_succ2 w a : Inv w -> CalmInv w -> calm_safe a = true -> SuccInv2 w -> SuccInv2 (step w a).
Proof.
  intros I K Sf [A B C D].
  assert (QS : exp_done w -> exp_done (step w a)) by (apply exp_done_step_calm; assumption).
  assert (Bs : forall s, w_sug (step w a) = Some s -> s_is (s_st s) SSucceeded = true -> exp_done (step w a)).
  { intros s1 H S. destruct (step_sug _ _ _ H) as [(s&Hs&E)|[(c&rv&onf&In')|E]].
    - rewrite E in S. apply QS. eapply B; eauto.
    - apply QS. eapply D; eauto.
    - unfold s_is, has_cond in S. rewrite E in S. discriminate. }
  constructor.
  - intros ce Hce Cc. destruct (step_cexp w a) as [E|E]; rewrite E in Hce.
    + apply QS. eapply A; eauto.
    + exists ce. auto.
  - exact Bs.
  - intros s Hs S. destruct (step_csug w a) as [E|E]; rewrite E in Hs; [apply QS; eapply C; eauto|eapply Bs; eauto].
  - intros c st rv onf Hx S.
    destruct (step_pending _ _ _ _ Hx) as [H|[H|[(resp&H)|(key&dberr&H)]]].
    + apply QS. eapply D; eauto.
    + apply QS. destruct I as [IS _]. destruct (plan_exp_succ _ _ _ _ IS H S) as (_&ce&Hce&Cc). eapply A; eauto.
    + rewrite (plan_sug_succ _ _ _ _ _ H) in S. discriminate.
    + exfalso. eapply plan_trial_no_sug; eauto.
Qed.

Definition calm_acts (acts : list action) : Prop := forallb calm_safe acts = true.

Lemma calm_acts_no_teardown acts : calm_acts acts -> no_teardown acts.
Proof.
  unfold calm_acts, no_teardown. induction acts as [|a l IH]; cbn; [reflexivity|].
  intro H. apply andb_true_iff in H as [Ha Hl]. rewrite (calm_safe_no_teardown _ Ha). cbn. auto.
Qed.

Lemma CalmInv_init c : CalmInv (init c).
Proof.
  constructor; cbn.
  - intros e [= <-]. split; [reflexivity|]. intro H. discriminate.
  - intros e [= <-]. split; [reflexivity|]. intro H. discriminate.
  - intros [] st rv onf [].
Qed.

Lemma SuccInv2_init c : SuccInv2 (init c).
Proof.
  constructor; cbn.
  - intros ce [= <-]. discriminate.
  - discriminate.
  - discriminate.
  - intros [] st rv onf [].
Qed.

Lemma calm_steps acts : forall w, Inv w -> CalmInv w -> SuccInv2 w -> calm_acts acts ->
  Inv (fold_left step acts w) /\ CalmInv (fold_left step acts w) /\ SuccInv2 (fold_left step acts w).
Proof.
  induction acts as [|a l IH]; intros w I K S Sf; [auto|].
  unfold calm_acts in Sf. cbn in Sf. apply andb_true_iff in Sf as [Sa Sl]. cbn.
  apply IH; [apply step_inv; [now apply calm_safe_no_teardown|exact I]|now apply step_calm|now apply step_succ2|exact Sl].
Qed.

(* No spec edit, no teardown: a restart is never enabled ... *)
Theorem no_restart_without_edit c acts e :
  valid_cfg c -> calm_acts acts -> w_exp (run c acts) = Some e -> restart_enabled_e c e = false.
Proof.
  intros V Sf He. destruct (calm_steps acts (init c) (Inv_init c V) (CalmInv_init c) (SuccInv2_init c) Sf) as (_&K&_).
  pose proof (calm_store _ _ K He) as R. unfold run in R. now rewrite run_cfg in R.
Qed.

(* ... and a Succeeded suggestion goes with a completed experiment, whatever the resume policy. *)
Theorem succeeded_implies_verdict_no_edit c acts s :
  valid_cfg c -> calm_acts acts -> w_sug (run c acts) = Some s -> s_is (s_st s) SSucceeded = true ->
  exists e, w_exp (run c acts) = Some e /\ e_completed (e_st e) = true.
Proof.
  intros V Sf Hs S. destruct (calm_steps acts (init c) (Inv_init c V) (CalmInv_init c) (SuccInv2_init c) Sf) as (_&_&S2).
  exact (s2_sug _ S2 _ Hs S).
Qed.

(* C04 as the property states it (no spec edit): every history that ends quiescent with a finished environment ends with a
   verdict; the only assumption left is that the algorithm service never returned the same trial name twice. *)
Theorem no_wedge_no_edit c acts e m :
  valid_cfg c -> calm_acts acts ->
  quiescent (run c acts) -> env_done (run c acts) ->
  w_exp (run c acts) = Some e -> e_max e = Some m ->
  (forall s, w_sug (run c acts) = Some s -> NoDup (ss_names (s_st s))) ->
  e_completed (e_st e) = true.
Proof.
  intros V Sf Qu En He Hm ND.
  destruct (calm_steps acts (init c) (Inv_init c V) (CalmInv_init c) (SuccInv2_init c) Sf) as (I&K&S2).
  fold (run c acts) in I, K, S2.
  destruct (e_completed (e_st e)) eqn:C; [reflexivity|].
  assert (Cf : w_cfg (run c acts) = c) by (unfold run; now rewrite run_cfg).
  destruct (k_exp _ K _ He) as [Mx _]. rewrite Cf in Mx.
  rewrite <- C. eapply (quiescent_completed (run c acts) e m); eauto.
  - rewrite Cf. destruct V; assumption.
  - rewrite Cf. destruct V as (_&V2&_). rewrite <- Mx, Hm in V2. exact V2.
  - intros s Hs. split; [auto|]. intro S. exfalso.
    destruct (s2_sug _ S2 _ Hs S) as (e'&He'&C'). rewrite He in He'. inversion He'; subst. congruence.
Qed.

(* ------------------------------------------------------------------ the premises are satisfiable (resumePolicy FromVolume) *)
From KV Require Import Proofs.F18.

Definition fv_acts : list action := firstn 143 f18_acts.
Definition fv_w : world := Eval vm_compute in run f18_cfg fv_acts.

Example no_wedge_no_edit_premises_hold :
  valid_cfg f18_cfg /\ calm_acts fv_acts /\ quiescent (run f18_cfg fv_acts) /\ env_done (run f18_cfg fv_acts) /\
  exists e s, w_exp (run f18_cfg fv_acts) = Some e /\ e_max e = Some 1 /\
              w_sug (run f18_cfg fv_acts) = Some s /\ NoDup (ss_names (s_st s)) /\ s_is (s_st s) SSucceeded = true /\
              e_completed (e_st e) = true.
Proof.
  assert (E : run f18_cfg fv_acts = fv_w) by (vm_compute; reflexivity). rewrite E.
  split; [repeat split; cbn; lia|]. split; [vm_compute; reflexivity|].
  split.
  { split; [repeat split; reflexivity|]. split; [vm_compute; reflexivity|]. split.
    - intro key. unfold plan_trial. change (c_trials fv_w) with (w_trials fv_w).
      destruct (Nat.eqb 1 key) eqn:K.
      + apply Nat.eqb_eq in K. subst key. vm_compute. reflexivity.
      + unfold find_trial, fv_w; cbn [c_trials w_trials find t_name]. rewrite K. reflexivity.
    - intros resp _. destruct resp as [v ev rp er]. vm_compute. reflexivity. }
  split.
  { split; [|split].
    - intros j [<-|[]]. discriminate.
    - intros t [<-|[]]. eexists. split; [reflexivity|]. discriminate.
    - intros s [= <-]. discriminate. }
  do 2 eexists. split; [reflexivity|]. split; [reflexivity|]. split; [reflexivity|].
  split; [repeat constructor; intros []|]. split; reflexivity.
Qed.
