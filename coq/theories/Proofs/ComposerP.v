(* Lemmas about the composer model (C17). *)
From KV Require Import Base.Prelude Model.Composer.
Open Scope Z_scope.

(* ------------------------------------------------------------------ strings *)
Lemma seq_refl s : String.eqb s s = true.
Proof. apply String.eqb_refl. Qed.

Lemma cat_inj_l a b c : cat a b = cat a c -> b = c.
Proof. unfold cat. induction a as [|x a IH]; simpl; intro H; [assumption|]. injection H as H. auto. Qed.

(* ------------------------------------------------------------------ finite maps *)
Lemma mget_mdel k k' m : mget k' (mdel k m) = if String.eqb k k' then None else mget k' m.
Proof.
  induction m as [|[a v] m IH]; simpl.
  - destruct (String.eqb k k'); reflexivity.
  - destruct (String.eqb a k) eqn:E1; simpl.
    + apply String.eqb_eq in E1. subst a. rewrite IH. destruct (String.eqb k k'); reflexivity.
    + destruct (String.eqb a k') eqn:E2.
      * apply String.eqb_eq in E2. subst a. rewrite String.eqb_sym, E1. reflexivity.
      * exact IH.
Qed.

Lemma mget_mset_same k v m : mget k (mset k v m) = Some v.
Proof. unfold mset. simpl. rewrite seq_refl. reflexivity. Qed.

Lemma mget_mset_other k k' v m : k <> k' -> mget k' (mset k v m) = mget k' m.
Proof.
  intro N. unfold mset. simpl. apply String.eqb_neq in N. rewrite N, mget_mdel, N. reflexivity.
Qed.

Lemma mget_mset k k' v m : mget k' (mset k v m) = if String.eqb k k' then Some v else mget k' m.
Proof.
  destruct (String.eqb k k') eqn:E.
  - apply String.eqb_eq in E. subst. apply mget_mset_same.
  - apply String.eqb_neq in E. apply mget_mset_other. assumption.
Qed.

Lemma mget_in k v m : mget k m = Some v -> In (k, v) m.
Proof.
  induction m as [|[a w] m IH]; simpl; [discriminate|].
  destruct (String.eqb a k) eqn:E; [apply String.eqb_eq in E; intros [= <-]; subst; now left|]. intro H. right. auto.
Qed.

Lemma in_mget k v m : NoDup (map fst m) -> In (k, v) m -> mget k m = Some v.
Proof.
  induction m as [|[a w] m IH]; simpl; [intros _ []|].
  intros ND [[= -> ->]|I]; [rewrite seq_refl; reflexivity|].
  inversion ND as [|? ? NI ND']; subst.
  destruct (String.eqb a k) eqn:E; [|auto].
  apply String.eqb_eq in E. subst a. exfalso. apply NI. apply (in_map fst) in I. exact I.
Qed.

Lemma keys_mdel k m : NoDup (map fst m) -> NoDup (map fst (mdel k m)) /\ ~ In k (map fst (mdel k m)).
Proof.
  induction m as [|[a w] m IH]; simpl; intro ND; [split; [constructor|intros []]|].
  inversion ND as [|? ? NI ND']; subst. destruct (IH ND') as [IH1 IH2].
  destruct (String.eqb a k) eqn:E; simpl; [split; assumption|].
  split.
  - constructor; [|assumption]. intro I. apply NI. apply in_map_iff in I. destruct I as ([b x]&Hb&I). simpl in Hb. subst b.
    unfold mdel in I. apply filter_In in I. destruct I as [I _]. apply (in_map fst) in I. exact I.
  - intros [->|I]; [rewrite seq_refl in E; discriminate|auto].
Qed.

Lemma keys_mset k v m : NoDup (map fst m) -> NoDup (map fst (mset k v m)).
Proof. intro ND. unfold mset. simpl. destruct (keys_mdel k m ND). constructor; assumption. Qed.

Lemma keys_labels K s : NoDup (map fst (s_labels s)) -> NoDup (map fst (suggestion_labels K s)).
Proof. intro ND. unfold suggestion_labels. repeat apply keys_mset. assumption. Qed.

Lemma mset_nonempty k v m : mset k v m <> [].
Proof. unfold mset. discriminate. Qed.

(* ------------------------------------------------------------------ labels *)
Lemma labels_suggestion K s : mget (k_l_suggestion K) (suggestion_labels K s) = Some (s_name s).
Proof. unfold suggestion_labels. apply mget_mset_same. Qed.

Lemma labels_deployment K s :
  k_l_deployment K <> k_l_suggestion K -> k_l_deployment K <> k_l_experiment K ->
  mget (k_l_deployment K) (suggestion_labels K s) = Some (deployment_name s).
Proof.
  intros N1 N2. unfold suggestion_labels.
  rewrite mget_mset_other by congruence. rewrite mget_mset_other by congruence. apply mget_mset_same.
Qed.

Lemma labels_inherited K s k v :
  mget k (s_labels s) = Some v -> k <> k_l_suggestion K -> k <> k_l_experiment K -> k <> k_l_deployment K ->
  mget k (suggestion_labels K s) = Some v.
Proof.
  intros H N1 N2 N3. unfold suggestion_labels. repeat rewrite mget_mset_other by congruence. exact H.
Qed.

(* the selector generated for s1 matches the pod labels generated for s2 only if both have the same name and algorithm *)
Lemma selects_exclusive K s1 s2 :
  k_l_deployment K <> k_l_suggestion K -> k_l_deployment K <> k_l_experiment K ->
  (forall k v, mget k (suggestion_labels K s1) = Some v -> mget k (suggestion_labels K s2) = Some v) ->
  s_name s1 = s_name s2 /\ s_algorithm s1 = s_algorithm s2.
Proof.
  intros N1 N2 H.
  pose proof (H _ _ (labels_suggestion K s1)) as H1. rewrite labels_suggestion in H1. injection H1 as H1.
  pose proof (H _ _ (labels_deployment K s1 N1 N2)) as H2. rewrite labels_deployment in H2 by assumption. injection H2 as H2.
  split; [congruence|]. unfold deployment_name in H2. rewrite H1 in H2. apply cat_inj_l in H2. apply cat_inj_l in H2. congruence.
Qed.

(* ------------------------------------------------------------------ katibconfig *)
Lemma find_last_some {A} (f : A -> bool) l a : find_last f l = Some a -> In a l /\ f a = true.
Proof.
  revert a. induction l as [|x l IH]; simpl; intros a H; [discriminate|].
  destruct (find_last f l) as [b|] eqn:E.
  - injection H as <-. destruct (IH b eq_refl). split; [now right|assumption].
  - destruct (f x) eqn:F; [|discriminate]. injection H as <-. split; [now left|assumption].
Qed.

(* the LAST matching entry: nothing after it matches *)
Lemma find_last_last {A} (f : A -> bool) l a :
  find_last f l = Some a -> exists l1 l2, l = l1 ++ a :: l2 /\ f a = true /\ forall x, In x l2 -> f x = false.
Proof.
  revert a. induction l as [|x l IH]; simpl; intros a H; [discriminate|].
  destruct (find_last f l) as [b|] eqn:E.
  - injection H as <-. destruct (IH b eq_refl) as (l1&l2&->&F&N). exists (x :: l1), l2. auto.
  - destruct (f x) eqn:F; [|discriminate]. injection H as <-. exists [], l. split; [reflexivity|]. split; [assumption|].
    intros y I. destruct (f y) eqn:Fy; [|reflexivity]. exfalso.
    clear -E I Fy. induction l as [|z l IH]; [destruct I|]. simpl in E. destruct (find_last f l); [discriminate|].
    destruct I as [->|I]; [rewrite Fy in E; discriminate|]. apply IH; [reflexivity|assumption].
Qed.

Lemma find_last_none {A} (f : A -> bool) l : find_last f l = None <-> forall x, In x l -> f x = false.
Proof.
  induction l as [|x l IH]; simpl; [split; [intros _ ? []|reflexivity]|].
  destruct (find_last f l) as [b|] eqn:E.
  - split; [discriminate|]. intro H. destruct (find_last_some f l b E) as [I F]. rewrite (H b (or_intror I)) in F. discriminate.
  - destruct (f x) eqn:F.
    + split; [discriminate|]. intro H. rewrite (H x (or_introl eq_refl)) in F. discriminate.
    + split; [|reflexivity]. intros _ y [<-|I]; [assumption|]. apply IH; [reflexivity|assumption].
Qed.

Lemma get_suggestion_config_ok cfg alg sc :
  get_suggestion_config cfg alg = Ok sc ->
  exists c, cfg = Some c /\ In sc (kc_suggestions c) /\ sc_algorithm sc = alg /\ sc_image_blank sc = false.
Proof.
  unfold get_suggestion_config. destruct cfg as [c|]; [|discriminate].
  destruct (find_last _ _) as [e|] eqn:E; [|discriminate].
  destruct (sc_image_blank e) eqn:B; [discriminate|]. intros [= <-].
  apply find_last_some in E. destruct E as [I F]. apply String.eqb_eq in F. exists c. auto.
Qed.

Lemma get_es_config_not3 cfg alg : get_early_stopping_config cfg alg <> Err 3.
Proof.
  unfold get_early_stopping_config. destruct cfg as [c|]; [|discriminate].
  destruct (find_last _ _) as [e|]; [|discriminate]. destruct (ec_image_blank e); discriminate.
Qed.

(* ------------------------------------------------------------------ the shape of a generated deployment *)
Definition ec_for (cfg : option katib_config) (s : suggestion) : option esconfig :=
  if es_on s then match get_early_stopping_config cfg (es_name s) with Ok ec => Some ec | _ => None end else None.

Lemma deployment_shape K probe cfg s d :
  desired_deployment K probe cfg s = Ok d ->
  exists sc, get_suggestion_config cfg (s_algorithm s) = Ok sc /\ redefines_port K sc = false /\
    (es_on s = true -> exists ec, get_early_stopping_config cfg (es_name s) = Ok ec) /\
    d = Deployment (deployment_name s) (s_ns s) (s_labels s) (s_annotations s)
          (suggestion_labels K s) (suggestion_labels K s) (suggestion_annotations K s)
          (desired_containers K probe s sc (ec_for cfg s))
          (if es_on s && String.eqb (sc_sa sc) ""%string then rbac_name s else sc_sa sc)
          (if from_volume K s then [Volume (k_volume K) (pvc_name_of s)] else [])
          [controller_ref K s].
Proof.
  unfold desired_deployment, ec_for. cbv zeta.
  destruct (get_suggestion_config cfg (s_algorithm s)) as [sc|e|e]; try discriminate.
  destruct (redefines_port K sc) eqn:R; [discriminate|].
  destruct (es_on s) eqn:ES.
  - destruct (get_early_stopping_config cfg (es_name s)) as [ec|e|e] eqn:G; try discriminate.
    intros [= <-]. exists sc. split; [reflexivity|]. split; [assumption|]. split; [eauto|reflexivity].
  - intros [= <-]. exists sc. split; [reflexivity|]. split; [assumption|]. split; [discriminate|].
    unfold desired_containers. rewrite ES. reflexivity.
Qed.

Lemma has_port_name_spec ps n : has_port_name ps n = true <-> exists p, In p ps /\ p_name p = n.
Proof.
  unfold has_port_name. rewrite existsb_exists. split; intros (p&I&H); exists p; split; auto; apply String.eqb_eq; assumption.
Qed.

Lemma has_port_num_spec ps z : has_port_num ps z = true <-> exists p, In p ps /\ p_num p = z.
Proof.
  unfold has_port_num. rewrite existsb_exists. split; intros (p&I&H); exists p; split; auto; apply Z.eqb_eq; assumption.
Qed.

Lemma has_mount_spec ms n : has_mount ms n = true <-> exists m, In m ms /\ vm_name m = n.
Proof.
  unfold has_mount. rewrite existsb_exists. split; intros (p&I&H); exists p; split; auto; apply String.eqb_eq; assumption.
Qed.

Lemma redefines_spec K sc :
  redefines_port K sc = true <-> exists p, In p (ct_ports (sc_container sc)) /\ (p_name p = k_port_name K \/ p_num p = k_port K).
Proof.
  unfold redefines_port. rewrite orb_true_iff, has_port_name_spec, has_port_num_spec.
  split.
  - intros [(p&I&H)|(p&I&H)]; exists p; auto.
  - intros (p&I&[H|H]); [left|right]; exists p; auto.
Qed.

(* the suggestion container mounts the suggestion volume whenever the policy is FromVolume *)
Lemma suggestion_container_mounts K probe s sc :
  from_volume K s = true -> exists m, In m (ct_mounts (suggestion_container K probe s sc)) /\ vm_name m = k_volume K.
Proof.
  intro FV. unfold suggestion_container. cbn [ct_mounts]. rewrite FV. cbn [andb].
  destruct (has_mount (ct_mounts (sc_container sc)) (k_volume K)) eqn:H; cbn [negb].
  - apply has_mount_spec in H. exact H.
  - exists (VMount (k_volume K) (sc_mount_path sc)). split; [apply in_or_app; right; now left|reflexivity].
Qed.

(* ------------------------------------------------------------------ C17_selects *)
Lemma selects_thm K probe cfg s d :
  desired_deployment K probe cfg s = Ok d ->
  let sv := desired_service K s in
  sv_selector sv = d_tpl_labels d /\ d_selector d = d_tpl_labels d /\ sv_ns sv = d_ns d /\
  mget (k_l_suggestion K) (sv_selector sv) = Some (s_name s) /\
  (k_l_deployment K <> k_l_suggestion K -> k_l_deployment K <> k_l_experiment K ->
     mget (k_l_deployment K) (sv_selector sv) = Some (d_name d)) /\
  (forall k v, mget k (s_labels s) = Some v -> k <> k_l_suggestion K -> k <> k_l_experiment K -> k <> k_l_deployment K ->
     mget k (d_tpl_labels d) = Some v).
Proof.
  intro H. destruct (deployment_shape _ _ _ _ _ H) as (sc&_&_&_&->).
  cbn [desired_service sv_selector sv_ns d_tpl_labels d_selector d_ns d_name].
  split; [reflexivity|]. split; [reflexivity|]. split; [reflexivity|]. split; [apply labels_suggestion|].
  split; [apply labels_deployment|]. intros k v ? ? ? ?. apply labels_inherited; assumption.
Qed.

(* ------------------------------------------------------------------ C17_ports *)
Lemma ports_thm K probe cfg s d :
  desired_deployment K probe cfg s = Ok d ->
  let sv := desired_service K s in
  sv_ports sv = SPort (k_port_name K) (k_port K) TDefault ::
                (if es_on s then [SPort (k_es_port_name K) (k_es_port K) TDefault] else []) /\
  (exists c rest, d_containers d = c :: rest /\ In (Port (k_port_name K) (k_port K)) (ct_ports c) /\
     forall p, In p (ct_ports c) -> p_name p = k_port_name K \/ p_num p = k_port K -> p = Port (k_port_name K) (k_port K)) /\
  (es_on s = true -> exists c, In c (d_containers d) /\ ct_name c = k_ctr_es K /\ ct_ports c = [Port (k_es_port_name K) (k_es_port K)]) /\
  (forall sp, In sp (sv_ports sv) -> sp_target sp = TDefault /\
     exists c p, In c (d_containers d) /\ In p (ct_ports c) /\ p_num p = sp_port sp /\ p_name p = sp_name sp) /\
  algorithm_endpoint K s = endpoint (sv_name sv) (sv_ns sv) (k_port K) /\
  early_stopping_endpoint K s = endpoint (sv_name sv) (sv_ns sv) (k_es_port K) /\
  sv_type sv = k_cluster_ip K.
Proof.
  intro H. destruct (deployment_shape _ _ _ _ _ H) as (sc&G&R&ES&->). cbn [d_containers desired_service sv_ports sv_name sv_ns sv_type].
  assert (P1 : In (Port (k_port_name K) (k_port K)) (ct_ports (suggestion_container K probe s sc))).
  { unfold suggestion_container. cbn [ct_ports]. apply in_or_app. right. now left. }
  assert (P2 : es_on s = true -> exists c, In c (desired_containers K probe s sc (ec_for cfg s)) /\ ct_name c = k_ctr_es K /\
                                           ct_ports c = [Port (k_es_port_name K) (k_es_port K)]).
  { intro E. destruct (ES E) as (ec&Gec). unfold desired_containers, ec_for. rewrite E, Gec.
    exists (es_container K ec). split; [right; now left|]. split; reflexivity. }
  split; [reflexivity|]. split; [|split; [exact P2|split; [|split; [reflexivity|split; reflexivity]]]].
  - unfold desired_containers. eexists _, _. split; [reflexivity|]. split; [exact P1|].
    intros p I Hp. unfold suggestion_container in I. cbn [ct_ports] in I. apply in_app_or in I. destruct I as [I|[<-|[]]]; [|reflexivity].
    exfalso. assert (redefines_port K sc = true); [|congruence]. apply redefines_spec. exists p. auto.
  - intros sp [<-|I].
    + split; [reflexivity|]. exists (suggestion_container K probe s sc), (Port (k_port_name K) (k_port K)).
      split; [unfold desired_containers; now left|]. auto.
    + destruct (es_on s) eqn:E; [|destruct I]. destruct I as [<-|[]]. split; [reflexivity|].
      destruct (P2 eq_refl) as (c&I&_&Pc). exists c, (Port (k_es_port_name K) (k_es_port K)). rewrite Pc. cbn. auto.
Qed.

(* every endpoint the suggestion client dials is <service>.<namespace>:<an exposed port>, the right one for the client kind *)
Lemma dialled_exposed K s b t :
  es_wf s = true -> In (b, t) (dialled K s) ->
  let sv := desired_service K s in
  exists sp, In sp (sv_ports sv) /\ t = endpoint (sv_name sv) (sv_ns sv) (sp_port sp) /\
             sp_port sp = (if b then k_es_port K else k_port K).
Proof.
  intros W I. unfold dialled in I. cbn [desired_service sv_ports sv_name sv_ns]. destruct I as [[= <- <-]|I].
  - eexists. split; [now left|]. split; reflexivity.
  - assert (E : es_on s = true).
    { unfold es_dialled in I. unfold es_wf in W. unfold es_on. destruct (s_es s); [exact W|destruct I]. }
    rewrite E. destruct (es_dialled s); [|destruct I]. destruct I as [[= <- <-]|[]].
    eexists. split; [right; now left|]. split; reflexivity.
Qed.

(* ------------------------------------------------------------------ C17_volume *)
Lemma volume_ok K probe cfg s d :
  desired_deployment K probe cfg s = Ok d -> exists c pvo, desired_volume K cfg s = Ok (c, pvo).
Proof.
  intro H. destruct (deployment_shape _ _ _ _ _ H) as (sc&G&_). unfold desired_volume. rewrite G. eauto.
Qed.

Lemma volume_thm K probe cfg s d c pvo :
  desired_deployment K probe cfg s = Ok d -> desired_volume K cfg s = Ok (c, pvo) ->
  (from_volume K s = true ->
     d_volumes d = [Volume (k_volume K) (pvc_name c)] /\ pvc_ns c = d_ns d /\
     exists ct rest, d_containers d = ct :: rest /\ exists m, In m (ct_mounts ct) /\ vm_name m = k_volume K) /\
  (from_volume K s = false -> d_volumes d = []).
Proof.
  intros H V. destruct (deployment_shape _ _ _ _ _ H) as (sc&G&_&_&->).
  unfold desired_volume in V. rewrite G in V. injection V as <- <-. cbn [d_volumes d_ns d_containers pvc_name pvc_ns].
  split; intro FV; rewrite FV; [|reflexivity].
  split; [reflexivity|]. split; [reflexivity|]. unfold desired_containers. eexists _, _. split; [reflexivity|].
  apply suggestion_container_mounts. assumption.
Qed.

Lemma volume_pv K cfg s c pvo :
  desired_volume K cfg s = Ok (c, pvo) ->
  exists sc, get_suggestion_config cfg (s_algorithm s) = Ok sc /\ pvc_name c = pvc_name_of s /\ pvc_spec c = sc_pvc_spec sc /\
    match pvo with
    | Some v => sc_pv_spec sc = Some (pv_spec v) /\ pv_name v = pv_name_of s /\ pv_ns v = ""%string /\ pv_owners v = [] /\ pv_labels v = sc_pv_labels sc
    | None => sc_pv_spec sc = None
    end.
Proof.
  unfold desired_volume. destruct (get_suggestion_config cfg (s_algorithm s)) as [sc|e|e]; try discriminate.
  intros [= <- <-]. exists sc. cbn. repeat split. destruct (sc_pv_spec sc); cbn; auto.
Qed.

(* ------------------------------------------------------------------ C17_rbac *)
Lemma es_on_dialled s : es_on s = true -> es_dialled s = true.
Proof. unfold es_on, es_dialled. destruct (s_es s); [reflexivity|discriminate]. Qed.

Lemma rbac_thm K probe cfg s d sc :
  desired_deployment K probe cfg s = Ok d -> get_suggestion_config cfg (s_algorithm s) = Ok sc ->
  forall a r b, desired_rbac K s = (a, r, b) ->
  (es_on s = true -> sc_sa sc = ""%string ->
     d_sa d = sa_name a /\ sa_ns a = d_ns d /\
     rb_subjects b = [Subject (k_sa_kind K) (sa_name a) (sa_ns a)] /\
     rb_ref_kind b = "Role"%string /\ rb_ref_name b = ro_name r /\ rb_ref_group b = k_rbac_group K /\
     rb_ns b = ro_ns r /\ ro_ns r = sa_ns a /\
     ro_rules r = [Rule [k_trial_group K] [k_plural_trial K; cat (k_plural_trial K) "/status"%string] [k_verb_all K]] /\
     rbac_guard s d = true /\
     (let fr := first_reconcile K probe cfg s in
      snd fr = false /\ In (ObjRef (kind_id KServiceAccount) (sa_ns a) (sa_name a)) (fst fr) /\
      In (ObjRef (kind_id KRole) (ro_ns r) (ro_name r)) (fst fr) /\ In (ObjRef (kind_id KRoleBinding) (rb_ns b) (rb_name b)) (fst fr))) /\
  (sc_sa sc <> ""%string -> d_sa d = sc_sa sc) /\
  (es_on s = false -> d_sa d = sc_sa sc).
Proof.
  intros H G a r b RB. pose proof H as H0. destruct (deployment_shape _ _ _ _ _ H) as (sc'&G'&_&_&E).
  rewrite G in G'. injection G' as <-. unfold desired_rbac in RB. injection RB as <- <- <-.
  split; [|split].
  - intros ES SA. assert (Dsa : d_sa d = rbac_name s). { rewrite E. cbn [d_sa]. rewrite ES, SA. reflexivity. }
    assert (Guard : rbac_guard s d = true). { unfold rbac_guard. rewrite Dsa, seq_refl, (es_on_dialled s ES). reflexivity. }
    cbn [sa_name sa_ns rb_subjects rb_ref_kind rb_ref_name rb_ref_group rb_ns ro_ns ro_rules ro_name rb_name].
    repeat (split; [first [reflexivity|assumption|rewrite E; reflexivity]|]).
    unfold first_reconcile. unfold desired_volume. rewrite G, H0.
    cbn [desired_rbac]. rewrite Guard.
    destruct (from_volume K s); [destruct (sc_pv_spec sc)|]; cbn [fst snd];
      (split; [reflexivity|]); repeat split; apply in_or_app; right; apply in_or_app; left; cbn; auto.
  - intro SA. rewrite E. cbn [d_sa]. apply String.eqb_neq in SA. rewrite SA, andb_false_r. reflexivity.
  - intro ES. rewrite E. cbn [d_sa]. rewrite ES. reflexivity.
Qed.

(* ------------------------------------------------------------------ C17_owned *)
Lemma owned_thm K probe cfg s :
  let ref := OwnerRef (k_owner_api K) (k_owner_kind K) (s_name s) (s_uid s) true true in
  (forall d, desired_deployment K probe cfg s = Ok d -> d_ns d = s_ns s /\ d_owners d = [ref]) /\
  (sv_ns (desired_service K s) = s_ns s /\ sv_owners (desired_service K s) = [ref]) /\
  (forall c pvo, desired_volume K cfg s = Ok (c, pvo) ->
     pvc_ns c = s_ns s /\ pvc_owners c = [ref] /\ forall v, pvo = Some v -> pv_ns v = ""%string /\ pv_owners v = []) /\
  (forall a r b, desired_rbac K s = (a, r, b) ->
     sa_ns a = s_ns s /\ sa_owners a = [ref] /\ ro_ns r = s_ns s /\ ro_owners r = [ref] /\ rb_ns b = s_ns s /\ rb_owners b = [ref]).
Proof.
  cbn zeta. split; [|split; [|split]].
  - intros d H. destruct (deployment_shape _ _ _ _ _ H) as (sc&_&_&_&->). split; reflexivity.
  - split; reflexivity.
  - intros c pvo V. destruct (volume_pv _ _ _ _ _ V) as (sc&G&_&_&P). unfold desired_volume in V. rewrite G in V.
    injection V as <- _. split; [reflexivity|]. split; [reflexivity|]. intros v0 ->. tauto.
  - intros a r b [= <- <- <-]. repeat split.
Qed.

(* ------------------------------------------------------------------ C17_reject_port *)
Lemma reject_port_thm K probe cfg s sc :
  get_suggestion_config cfg (s_algorithm s) = Ok sc ->
  ((exists p, In p (ct_ports (sc_container sc)) /\ (p_name p = k_port_name K \/ p_num p = k_port K)) <->
   desired_deployment K probe cfg s = Err 3).
Proof.
  intro G. rewrite <- redefines_spec. unfold desired_deployment. cbv zeta. rewrite G.
  destruct (redefines_port K sc); [split; reflexivity|].
  split; [discriminate|]. destruct (es_on s); [|discriminate].
  pose proof (get_es_config_not3 cfg (es_name s)) as N.
  destruct (get_early_stopping_config cfg (es_name s)); try discriminate. intros [= ->]. congruence.
Qed.

(* when it is not rejected and the early-stopping entry is usable, the deployment is generated *)
Lemma deployment_generated K probe cfg s sc :
  get_suggestion_config cfg (s_algorithm s) = Ok sc -> redefines_port K sc = false ->
  (es_on s = true -> is_ok (get_early_stopping_config cfg (es_name s)) = true) ->
  exists d, desired_deployment K probe cfg s = Ok d.
Proof.
  intros G R ES. unfold desired_deployment. cbv zeta. rewrite G, R. destruct (es_on s); [|eauto].
  specialize (ES eq_refl). destruct (get_early_stopping_config cfg (es_name s)); try discriminate. eauto.
Qed.

(* ------------------------------------------------------------------ what the first reconcile creates *)
Lemma first_reconcile_ok K probe cfg s d sc :
  desired_deployment K probe cfg s = Ok d -> get_suggestion_config cfg (s_algorithm s) = Ok sc ->
  first_reconcile K probe cfg s =
    (((if from_volume K s then
         match sc_pv_spec sc with
         | Some _ => [ObjRef (kind_id KPV) ""%string (pv_name_of s); ObjRef (kind_id KPVC) (s_ns s) (pvc_name_of s)]
         | None => [ObjRef (kind_id KPVC) (s_ns s) (pvc_name_of s)]
         end
       else []) ++ [ObjRef (kind_id KService) (s_ns s) (service_name s)]) ++
     (if rbac_guard s d
      then [ObjRef (kind_id KServiceAccount) (s_ns s) (rbac_name s); ObjRef (kind_id KRole) (s_ns s) (rbac_name s);
            ObjRef (kind_id KRoleBinding) (s_ns s) (rbac_name s)]
      else []) ++ [ObjRef (kind_id KDeployment) (d_ns d) (d_name d)], false).
Proof.
  intros H G. unfold first_reconcile, desired_volume. rewrite G, H.
  destruct (from_volume K s); [destruct (sc_pv_spec sc)|]; reflexivity.
Qed.

(* everything the controller creates for a suggestion lives in the suggestion's namespace, except the cluster-scoped PV *)
Lemma first_reconcile_namespaced K probe cfg s o :
  In o (fst (first_reconcile K probe cfg s)) -> or_ns o = s_ns s \/ (or_kind o = kind_id KPV /\ or_ns o = ""%string).
Proof.
  unfold first_reconcile, desired_volume.
  destruct (get_suggestion_config cfg (s_algorithm s)) as [sc|e|e] eqn:G.
  - assert (V : forall vs, In o vs -> (forall x, In x vs -> or_ns x = s_ns s \/ (or_kind x = kind_id KPV /\ or_ns x = ""%string)) ->
                or_ns o = s_ns s \/ (or_kind o = kind_id KPV /\ or_ns o = ""%string)) by (intros vs I A; auto).
    set (vs := if from_volume K s then _ else _).
    assert (Hvs : exists l, vs = Some l /\ forall x, In x l -> or_ns x = s_ns s \/ (or_kind x = kind_id KPV /\ or_ns x = ""%string)).
    { subst vs. destruct (from_volume K s); [destruct (sc_pv_spec sc)|]; eexists; (split; [reflexivity|]); cbn;
        intros x Hx; repeat (destruct Hx as [<-|Hx]; [cbn; auto|]); destruct Hx. }
    destruct Hvs as (l&->&Hl).
    destruct (desired_deployment K probe cfg s) as [d|e|e] eqn:H; cbn [fst].
    + destruct (deployment_shape _ _ _ _ _ H) as (sc'&_&_&_&->). cbn [desired_rbac sa_ns sa_name ro_ns ro_name rb_ns rb_name d_ns d_name desired_service sv_ns sv_name].
      intro I. apply in_app_or in I. destruct I as [I|I]; [apply in_app_or in I; destruct I as [I|[<-|[]]]; [auto|now left]|].
      apply in_app_or in I. destruct I as [I|[<-|[]]]; [|now left].
      destruct (rbac_guard s _); [|destruct I]. repeat (destruct I as [<-|I]; [now left|]). destruct I.
    + intro I. apply in_app_or in I. destruct I as [I|[<-|[]]]; [auto|now left].
    + intro I. apply in_app_or in I. destruct I as [I|[<-|[]]]; [auto|now left].
  - destruct (from_volume K s); cbn [fst].
    + intros [].
    + destruct (desired_deployment K probe cfg s) eqn:H.
      * destruct (deployment_shape _ _ _ _ _ H) as (sc'&G'&_). congruence.
      * cbn. intros [<-|[]]. now left.
      * cbn. intros [<-|[]]. now left.
  - destruct (from_volume K s); cbn [fst].
    + intros [].
    + destruct (desired_deployment K probe cfg s) eqn:H.
      * destruct (deployment_shape _ _ _ _ _ H) as (sc'&G'&_). congruence.
      * cbn. intros [<-|[]]. now left.
      * cbn. intros [<-|[]]. now left.
Qed.

Lemma config_last_wins c alg sc :
  get_suggestion_config (Some c) alg = Ok sc ->
  exists l1 l2, kc_suggestions c = l1 ++ sc :: l2 /\ sc_algorithm sc = alg /\ forall x, In x l2 -> sc_algorithm x <> alg.
Proof.
  unfold get_suggestion_config. destruct (find_last _ _) as [e|] eqn:E; [|discriminate].
  destruct (sc_image_blank e); [discriminate|]. intros [= <-].
  destruct (find_last_last _ _ _ E) as (l1&l2&A&B&C). exists l1, l2. split; [assumption|].
  split; [apply String.eqb_eq; assumption|]. intros x I. apply String.eqb_neq. apply C. assumption.
Qed.

Lemma volume_full K probe cfg s d :
  desired_deployment K probe cfg s = Ok d ->
  (exists c pvo, desired_volume K cfg s = Ok (c, pvo)) /\
  forall c pvo, desired_volume K cfg s = Ok (c, pvo) ->
    (from_volume K s = true ->
       d_volumes d = [Volume (k_volume K) (pvc_name c)] /\ pvc_ns c = d_ns d /\
       exists ct rest, d_containers d = ct :: rest /\ exists m, In m (ct_mounts ct) /\ vm_name m = k_volume K) /\
    (from_volume K s = false -> d_volumes d = []).
Proof.
  intro H. split; [exact (volume_ok K probe cfg s d H)|]. intros c pvo V. exact (volume_thm K probe cfg s d c pvo H V).
Qed.
