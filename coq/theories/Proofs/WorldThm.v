(* Property-level consequences of the inductive invariant (Proofs/WorldInv*.v), stated over runs. *)
From KV Require Import Base.Prelude Base.Cond Model.World Proofs.WorldPlan Proofs.WorldInv Proofs.WorldInv2 Proofs.WorldInv3
  Proofs.WorldInv4 Proofs.WorldInv5.
Open Scope Z_scope.

(* ------------------------------------------------------------------ C01 *)

Theorem max_trials c acts : valid_cfg c -> no_teardown acts ->
  forall e m, w_exp (run c acts) = Some e -> e_max e = Some m -> Z.of_nat (length (w_trials (run c acts))) <= m.
Proof. intros V NT. destruct (Inv_reachable c acts V NT) as [I _]. apply (budget_of_inv _ I). Qed.

Lemma apply_write_cfg w wr w1 : apply_write w wr = Some w1 -> w_cfg w1 = w_cfg w.
Proof.
  destruct wr; cbn [apply_write];
    repeat match goal with
           | |- context [match ?x with _ => _ end] => destruct x
           | |- context [if ?x then _ else _] => destruct x
           end; intro H; inversion H; reflexivity.
Qed.

Lemma step_cfg w a : w_cfg (step w a) = w_cfg w.
Proof.
  destruct a; cbn [step].
  2: { destruct (pending_of w c) as [|[wr onf] rest]; [reflexivity|].
       destruct inject_failure; [destruct c; reflexivity|].
       destruct (apply_write (count_write w) wr) as [w1|] eqn:A; [|destruct c; reflexivity].
       apply apply_write_cfg in A. destruct c; exact A. }
  all: repeat match goal with
           | |- context [match ?x with _ => _ end] => destruct x
           | |- context [if ?x then _ else _] => destruct x
           end; reflexivity.
Qed.

Lemma run_cfg acts : forall w, w_cfg (fold_left step acts w) = w_cfg w.
Proof. induction acts as [|a acts IH]; intro w; [reflexivity|]. cbn. now rewrite IH, step_cfg. Qed.

Theorem parallel_trials c acts : valid_cfg c -> no_teardown acts ->
  Z.of_nat (length (filter (fun t => negb (t_completed t)) (w_trials (run c acts)))) <= c_par c.
Proof.
  intros V NT. destruct (Inv_reachable c acts V NT) as [I _]. destruct (budget_of_inv _ I) as [_ H].
  unfold run in *. now rewrite run_cfg in H.
Qed.

(* ------------------------------------------------------------------ C06: terminal trial conditions are permanent *)

Theorem terminal_permanent c acts1 acts2 n t k :
  valid_cfg c -> no_teardown (acts1 ++ acts2) ->
  find_trial n (w_trials (run c acts1)) = Some t -> In k terminal_types -> t_is t k = true ->
  exists t', find_trial n (w_trials (run c (acts1 ++ acts2))) = Some t' /\ t_is t' k = true.
Proof.
  intros V NT F K H. pose proof (evolves_later c acts1 acts2 V NT) as E.
  destruct (tlag_find _ _ _ _ (ev_trials _ _ E) F) as (t'&F'&(_&_&_&T)). eauto.
Qed.

(* ------------------------------------------------------------------ C08: suggestions append-only, counted *)

Theorem suggestions_append_only c acts1 acts2 s :
  valid_cfg c -> no_teardown (acts1 ++ acts2) -> w_sug (run c acts1) = Some s ->
  exists s' l, w_sug (run c (acts1 ++ acts2)) = Some s' /\ ss_names (s_st s') = ss_names (s_st s) ++ l.
Proof.
  intros V NT Hs. pose proof (evolves_later c acts1 acts2 V NT) as E.
  destruct (ev_sug _ _ E _ Hs) as (s'&Hs'&(_&_&l&N)). eauto.
Qed.

Theorem suggestions_counted c acts s :
  valid_cfg c -> no_teardown acts -> w_sug (run c acts) = Some s ->
  ss_count (s_st s) = Z.of_nat (length (ss_names (s_st s))) /\ ss_count (s_st s) <= g_maxreq (run c acts).
Proof.
  intros V NT Hs. destruct (Inv_reachable c acts V NT) as [I _]. pose proof (i_sug _ I) as S. rewrite Hs in S.
  destruct S as (W&C&_). auto.
Qed.

(* the ghost g_maxreq really is the largest spec.requests ever stored: it only changes together with spec.requests *)
Theorem maxreq_bounds_requests c acts s :
  valid_cfg c -> no_teardown acts -> w_sug (run c acts) = Some s -> s_requests s <= g_maxreq (run c acts).
Proof.
  intros V NT Hs. destruct (Inv_reachable c acts V NT) as [I _]. pose proof (i_sug _ I) as S. rewrite Hs in S. tauto.
Qed.

(* every trial is one assignment of the suggestion (C02_one_assignment_per_trial) *)
Theorem trial_is_assignment c acts n :
  valid_cfg c -> no_teardown acts -> In n (names (w_trials (run c acts))) ->
  exists s, w_sug (run c acts) = Some s /\ In n (ss_names (s_st s)) /\ NoDup (names (w_trials (run c acts))).
Proof.
  intros V NT H. destruct (Inv_reachable c acts V NT) as [I _]. pose proof (i_sug _ I) as S.
  destruct (w_sug (run c acts)) as [s|].
  - destruct S as (_&_&_&In&_). exists s. split; [reflexivity|]. split; [auto|apply (i_nodup _ I)].
  - destruct S as (_&E). rewrite E in H. destruct H.
Qed.
