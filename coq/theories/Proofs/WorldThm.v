(* Property-level consequences of the inductive invariant (Proofs/WorldInv*.v), stated over runs. *)
From KV Require Import Base.Prelude Base.Cond Model.World Proofs.WorldPlan Proofs.WorldInv Proofs.WorldInv2 Proofs.WorldInv3
  Proofs.WorldInv4 Proofs.WorldInv5.
Open Scope Z_scope.

(* ------------------------------------------------------------------ C01 *)

Theorem max_trials c acts : valid_cfg c -> no_teardown acts ->
  forall e m, w_exp (run c acts) = Some e -> e_max e = Some m -> Z.of_nat (length (w_trials (run c acts))) <= m.
Proof. intros V NT. destruct (Inv_reachable c acts V NT) as [I _]. apply (budget_of_inv _ I). Qed.

Lemma apply_write_cfg w wr w1 : apply_write w wr = Some w1 -> w_cfg w1 = w_cfg w.
Proof.
  destruct wr; cbn [apply_write];
    repeat match goal with
           | |- context [match ?x with _ => _ end] => destruct x
           | |- context [if ?x then _ else _] => destruct x
           end; intro H; inversion H; reflexivity.
Qed.

Lemma step_cfg w a : w_cfg (step w a) = w_cfg w.
Proof.
  destruct a; cbn [step].
  2: { destruct (pending_of w c) as [|[wr onf] rest]; [reflexivity|].
       destruct inject_failure; [destruct c; reflexivity|].
       destruct (apply_write (count_write w) wr) as [w1|] eqn:A; [|destruct c; reflexivity].
       apply apply_write_cfg in A. destruct c; exact A. }
  all: repeat match goal with
           | |- context [match ?x with _ => _ end] => destruct x
           | |- context [if ?x then _ else _] => destruct x
           end; reflexivity.
Qed.

Lemma run_cfg acts : forall w, w_cfg (fold_left step acts w) = w_cfg w.
Proof. induction acts as [|a acts IH]; intro w; [reflexivity|]. cbn. now rewrite IH, step_cfg. Qed.

Theorem parallel_trials c acts : valid_cfg c -> no_teardown acts ->
  Z.of_nat (length (filter (fun t => negb (t_completed t)) (w_trials (run c acts)))) <= c_par c.
Proof.
  intros V NT. destruct (Inv_reachable c acts V NT) as [I _]. destruct (budget_of_inv _ I) as [_ H].
  unfold run in *. now rewrite run_cfg in H.
Qed.

(* ------------------------------------------------------------------ C06: terminal trial conditions are permanent *)

Theorem terminal_permanent c acts1 acts2 n t k :
  valid_cfg c -> no_teardown (acts1 ++ acts2) ->
  find_trial n (w_trials (run c acts1)) = Some t -> In k terminal_types -> t_is t k = true ->
  exists t', find_trial n (w_trials (run c (acts1 ++ acts2))) = Some t' /\ t_is t' k = true.
Proof.
  intros V NT F K H. pose proof (evolves_later c acts1 acts2 V NT) as E.
  destruct (tlag_find _ _ _ _ (ev_trials _ _ E) F) as (t'&F'&(_&_&_&T)). eauto.
Qed.

(* ------------------------------------------------------------------ C08: suggestions append-only, counted *)

Theorem suggestions_append_only c acts1 acts2 s :
  valid_cfg c -> no_teardown (acts1 ++ acts2) -> w_sug (run c acts1) = Some s ->
  exists s' l, w_sug (run c (acts1 ++ acts2)) = Some s' /\ ss_names (s_st s') = ss_names (s_st s) ++ l.
Proof.
  intros V NT Hs. pose proof (evolves_later c acts1 acts2 V NT) as E.
  destruct (ev_sug _ _ E _ Hs) as (s'&Hs'&(_&_&l&N)). eauto.
Qed.

Theorem suggestions_counted c acts s :
  valid_cfg c -> no_teardown acts -> w_sug (run c acts) = Some s ->
  ss_count (s_st s) = Z.of_nat (length (ss_names (s_st s))) /\ ss_count (s_st s) <= g_maxreq (run c acts).
Proof.
  intros V NT Hs. destruct (Inv_reachable c acts V NT) as [I _]. pose proof (i_sug _ I) as S. rewrite Hs in S.
  destruct S as (W&C&_). auto.
Qed.

(* the ghost g_maxreq really is the largest spec.requests ever stored: it only changes together with spec.requests *)
Theorem maxreq_bounds_requests c acts s :
  valid_cfg c -> no_teardown acts -> w_sug (run c acts) = Some s -> s_requests s <= g_maxreq (run c acts).
Proof.
  intros V NT Hs. destruct (Inv_reachable c acts V NT) as [I _]. pose proof (i_sug _ I) as S. rewrite Hs in S. tauto.
Qed.

(* every trial is one assignment of the suggestion (C02_one_assignment_per_trial) *)
Theorem trial_is_assignment c acts n :
  valid_cfg c -> no_teardown acts -> In n (names (w_trials (run c acts))) ->
  exists s, w_sug (run c acts) = Some s /\ In n (ss_names (s_st s)) /\ NoDup (names (w_trials (run c acts))).
Proof.
  intros V NT H. destruct (Inv_reachable c acts V NT) as [I _]. pose proof (i_sug _ I) as S.
  destruct (w_sug (run c acts)) as [s|].
  - destruct S as (_&_&_&In&_). exists s. split; [reflexivity|]. split; [auto|apply (i_nodup _ I)].
  - destruct S as (_&E). rewrite E in H. destruct H.
Qed.

(* ------------------------------------------------------------------ C06: Succeeded is exclusive and backed by an objective value *)

Theorem trials_good c acts t :
  valid_cfg c -> no_teardown acts -> In t (w_trials (run c acts)) -> tgood t.
Proof.
  intros V NT I. destruct (Inv_reachable c acts V NT) as [Iv _]. pose proof (i_tgood _ Iv) as G.
  rewrite Forall_forall in G. auto.
Qed.

(* ------------------------------------------------------------------ C03: a settled verdict is not touched *)

Lemma apply_write_exp w wr w1 e :
  apply_write w wr = Some w1 -> w_exp w = Some e -> e_deleting e = false ->
  exists e1, w_exp w1 = Some e1 /\ e_max e1 = e_max e /\
    (e_st e1 = e_st e \/ exists st rv, wr = WExpStatus st rv /\ rv = e_rv e /\ e_st e1 = st).
Proof.
  intros A He De. destruct wr; cbn [apply_write] in A; rewrite ?He in A.
  - destruct (Nat.eqb (e_rv e) rv); [|discriminate]. rewrite De, andb_false_r in A. inversion A; subst. cbn. eexists. split; [reflexivity|]. cbn. auto.
  - destruct (Nat.eqb (e_rv e) rv) eqn:Er; [|discriminate]. apply Nat.eqb_eq in Er. inversion A; subst. cbn. eexists. split; [reflexivity|]. cbn.
    split; [reflexivity|]. right. eauto.
  - destruct (w_sug w); [discriminate|]. inversion A; subst. cbn. eauto.
  - destruct (w_sug w) as [s|]; [|discriminate]. destruct (Nat.eqb (s_rv s) rv); [|discriminate]. inversion A; subst. cbn. eauto.
  - destruct (w_sug w) as [s|]; [|discriminate]. destruct (Nat.eqb (s_rv s) rv); [|discriminate]. inversion A; subst. cbn. eauto.
  - destruct (find_trial name (w_trials w)); [discriminate|]. inversion A; subst. cbn. eauto.
  - destruct (find_trial name (w_trials w)) as [t|]; [|discriminate]. destruct (Nat.eqb (t_rv t) rv); [|discriminate].
    destruct (negb add && t_deleting t); inversion A; subst; cbn; eauto.
  - destruct (find_trial name (w_trials w)) as [t|]; [|discriminate]. destruct (Nat.eqb (t_rv t) rv); [|discriminate]. inversion A; subst. cbn. eauto.
  - destruct (find_job name (w_jobs w)); [discriminate|]. inversion A; subst. cbn. eauto.
  - destruct (find_job name (w_jobs w)); [|discriminate]. inversion A; subst. cbn. eauto.
  - destruct (infra_has (w_infra w) k); [discriminate|]. inversion A; subst. cbn. eauto.
  - destruct (infra_has (w_infra w) k); [|discriminate]. inversion A; subst. cbn. eauto.
  - inversion A; subst. cbn. eauto.
  - inversion A; subst. cbn. eauto.
  - discriminate.
Qed.

Theorem verdict_stable_step w a e :
  Inv w -> is_teardown a = false -> w_exp w = Some e ->
  e_completed (e_st e) = true -> restart_enabled_e (w_cfg w) e = false ->
  exists e', w_exp (step w a) = Some e' /\ verdict_same (e_st e) (e_st e').
Proof.
  intros [I P] NT He C R.
  assert (Same : forall w', w_exp w' = Some e -> exists e', w_exp w' = Some e' /\ verdict_same (e_st e) (e_st e')).
  { intros w' H. exists e. split; [exact H|apply verdict_same_refl]. }
  destruct a; try discriminate; cbn [step].
  - destruct (pending_of w c); [|auto]. destruct c; [| destruct (plan_sug w resp) |]; apply Same; exact He.
  - destruct (pending_of w c) as [|[wr onf] rest] eqn:Ep; [auto|].
    destruct (if inject_failure then None else apply_write (count_write w) wr) as [w1|] eqn:A; [|apply Same; destruct c; exact He].
    destruct inject_failure; [discriminate|].
    pose proof (pending_of_ok w c P) as Pc. rewrite Ep in Pc. inversion Pc as [|? ? OK _]; subst.
    destruct (inv_exp_some _ I) as (e0&He0&De&_). rewrite He in He0. inversion He0; subst e0.
    assert (He' : w_exp (count_write w) = Some e) by exact He.
    destruct (apply_write_exp _ _ _ _ A He' De) as (e1&He1&M1&[S|(st&rv&->&Rv&S)]).
    + exists e1. split; [destruct c; exact He1|]. rewrite S. apply verdict_same_refl.
    + exists e1. split; [destruct c; exact He1|]. rewrite S.
      unfold write_ok in OK. cbn [fst] in OK. destruct OK as (_&e2&He2&_&K). rewrite He in He2. inversion He2; subst e2. auto.
  - apply Same. destruct c; exact He.
  - apply Same. exact He.
  - apply Same. exact He.
  - destruct (find_trial t (w_trials w)), (db_get t (w_db w)); apply Same; exact He.
  - destruct (find_trial t (w_trials w)) as [tr|]; [|auto].
    destruct (c_es (w_cfg w) && t_is tr TCreated && negb (t_completed tr) && negb (t_deleting tr) && match find_job t (w_jobs w) with Some _ => true | None => false end); [|auto].
    apply Same. cbn. destruct v, (db_get t (w_db w)); exact He.
  - destruct (i_dep (w_infra w)); apply Same; exact He.
  - apply Same; exact He.
  - apply Same; exact He.
  - apply Same; exact He.
  - rewrite He. destruct (e_max e) as [m|]; [|auto].
    destruct (_ && _ && _); [|auto]. cbn. eexists. split; [reflexivity|]. cbn. apply verdict_same_refl.
Qed.

Lemma verdict_same_trans a b c : verdict_same a b -> verdict_same b c -> verdict_same a c.
Proof. intros (A1&A2&A3&A4) (B1&B2&B3&B4). repeat split; congruence. Qed.

Lemma verdict_same_completed a b : verdict_same a b -> e_completed a = true -> e_completed b = true.
Proof.
  intros (S&F&_&_). unfold e_completed, e_is, has_cond. now rewrite S, F.
Qed.

(* over runs: the verdict, its reason and the completion time stay as they are for as long as no restart is enabled *)
Theorem verdict_stable_run c acts1 acts2 e :
  valid_cfg c -> no_teardown (acts1 ++ acts2) -> w_exp (run c acts1) = Some e -> e_completed (e_st e) = true ->
  (forall pre post e1, acts2 = pre ++ post -> w_exp (run c (acts1 ++ pre)) = Some e1 -> restart_enabled_e c e1 = false) ->
  exists e', w_exp (run c (acts1 ++ acts2)) = Some e' /\ verdict_same (e_st e) (e_st e').
Proof.
  intros V NT. revert acts1 e NT. induction acts2 as [|a l IH]; intros acts1 e NT He C Dis.
  - rewrite app_nil_r. exists e. split; [exact He|apply verdict_same_refl].
  - pose proof NT as NT0. apply no_teardown_app in NT as [N1 N2]. apply no_teardown_cons in N2 as [Na N2].
    pose proof (Inv_reachable c acts1 V N1) as Iv.
    assert (R0 : restart_enabled_e (w_cfg (run c acts1)) e = false).
    { unfold run. rewrite run_cfg. cbn. apply (Dis [] (a :: l) e eq_refl). now rewrite app_nil_r. }
    destruct (verdict_stable_step _ a e Iv Na He C R0) as (e1&He1&S1).
    assert (Hrun : run c (acts1 ++ [a]) = step (run c acts1) a) by (unfold run; now rewrite fold_left_app).
    replace (acts1 ++ a :: l) with ((acts1 ++ [a]) ++ l) in * by (now rewrite <- app_assoc).
    rewrite <- Hrun in He1.
    destruct (IH (acts1 ++ [a]) e1 NT0 He1 (verdict_same_completed _ _ S1 C)) as (e2&He2&S2).
    + intros pre post e3 El H3. apply (Dis (a :: pre) post e3); [now rewrite El|]. now rewrite <- app_assoc in H3.
    + exists e2. split; [exact He2|eapply verdict_same_trans; eauto].
Qed.
