(* C04 / C16 with spec edits allowed (after the repair of F18): for every resume policy and every history without teardown
   -- raises of maxTrialCount included -- quiescence with a finished environment implies a verdict. *)
From KV Require Import Base.Prelude Base.Cond Model.World Proofs.WorldPlan Proofs.EqbRefl Proofs.WorldInv Proofs.WorldInv2
  Proofs.WorldInv4 Proofs.WorldInv5 Proofs.WorldThm Proofs.WorldQuiet Proofs.WorldSucc.
Open Scope Z_scope.

(* a Succeeded suggestion status is not marked "restarting" *)
Definition sr_ok (st : sstatus) : Prop := s_is st SSucceeded = true -> s_restarting st = false.

Lemma sr_ok_not_succeeded st : s_is st SSucceeded = false -> sr_ok st.
Proof. intros H S. congruence. Qed.

Lemma smark_succeeded_not_restarting cs : s_restarting {| ss_names := []; ss_count := 0; ss_conds := smark_succeeded cs; ss_settings := 0%nat |} = false.
Proof.
  unfold s_restarting, smark_succeeded. cbn [ss_conds].
  rewrite get_set_other by discriminate.
  set (cs1 := match get_cond cs SRunning with Some _ => set_cond cs SRunning CFalse RSugSucceeded | None => cs end).
  assert (G1 : match get_cond cs1 SRunning with Some c => cstatus_eqb (cstat c) CFalse && Nat.eqb (creason c) RSugRestart | None => false end = false).
  { unfold cs1. destruct (get_cond cs SRunning) as [c0|] eqn:G.
    - destruct (get_set_same cs SRunning CFalse RSugSucceeded) as (c&->&_&R&_). rewrite R. cbn. now rewrite andb_false_r.
    - now rewrite G. }
  destruct (get_cond cs1 SDeploymentReady); [rewrite get_set_other by discriminate|]; exact G1.
Qed.

Lemma sr_ok_smark_succeeded st : sr_ok (s_with_conds st (smark_succeeded (ss_conds st))).
Proof. intros _. unfold s_restarting, s_with_conds. cbn [ss_conds]. exact (smark_succeeded_not_restarting (ss_conds st)). Qed.

Lemma sr_ok_restart_write s st rv onf : (WSugStatus st rv, onf) = restart_write s -> sr_ok st.
Proof.
  unfold restart_write. intros [= -> _ _]. apply sr_ok_not_succeeded. unfold s_is, s_with_conds. cbn [ss_conds].
  apply smark_running_not_succeeded.
Qed.

(* every suggestion status the experiment controller plans to write *)
Lemma plan_exp_sr w st rv onf : InvS w -> In (WSugStatus st rv, onf) (plan_exp w) -> sr_ok st.
Proof.
  intros I H. unfold plan_exp in H. destruct (c_exp w) as [e|] eqn:Hce; [|destruct H].
  destruct (i_exp _ I) as (e0&ce&He0&Hce'&_&_&_&_&Nce). rewrite Hce in Hce'. inversion Hce'; subst ce.
  pose proof (status_ok_nonneg _ _ Nce) as NN.
  destruct (negb (e_deleting e) && negb (e_fin e)); [destruct H as [H|[]]; discriminate|].
  destruct (e_deleting e && e_fin e); [destruct H as [H|[]]; discriminate|].
  destruct (plan_exp_completed (w_cfg w) e (c_sug w)) as [[ws1 st1] stop] eqn:PC.
  assert (C1 : In (WSugStatus st rv, onf) ws1 -> sr_ok st).
  { revert PC. unfold plan_exp_completed. destruct (e_completed (e_st e)); [|intros [= <- _ _] []].
    assert (K : In (WSugStatus st rv, onf)
                (match c_resume (w_cfg w), c_sug w with
                 | LongRunning, _ | _, None => []
                 | _, Some s => if s_completed (s_st s) || s_restarting (s_st s) then []
                                else [(WSugStatus (s_with_conds (s_st s) (smark_succeeded (ss_conds (s_st s)))) (s_rv s), Stop)]
                 end) -> sr_ok st).
    { destruct (c_resume (w_cfg w)), (c_sug w) as [s|]; try (intros []; fail);
        (destruct (s_completed (s_st s) || s_restarting (s_st s)); [intros []|intros [X|[]]; inversion X; subst; apply sr_ok_smark_succeeded]). }
    destruct (restartable _ _ && _); intros [= <- _ _] I1; [|auto].
    apply in_app_or in I1 as [I1|I1]; [auto|].
    destruct (c_resume (w_cfg w)), (c_sug w) as [s|]; try (destruct I1; fail).
    destruct (s_restarting (s_st s)); [destruct I1|]. destruct I1 as [X|[]]. eapply (sr_ok_restart_write s); symmetry; exact X. }
  assert (NN1 : counts_nonneg (es_counts st1)) by (rewrite (plan_exp_completed_counts _ _ _ _ _ _ PC); exact NN).
  destruct stop; [auto|].
  destruct (negb (e_is st1 ECreated)).
  - apply in_app_or in H as [H|H]; [auto|]. apply in_status_write in H. discriminate.
  - apply in_app_or in H as [H|H]; [auto|].
    apply plan_exp_reconcile_shape in H; [|exact NN1].
    destruct H as [(x&H&_)|[H|[(r&_&[(_&H)|(s&_&[H|(n&H&_)])])|(s&_&H&_)]]]; try discriminate.
    eapply sr_ok_restart_write; eauto.
Qed.

Record SrInv (w : world) : Prop := {
  sr_sug : forall s, w_sug w = Some s -> sr_ok (s_st s);
  sr_pend : forall c st rv onf, In (WSugStatus st rv, onf) (pending_of w c) -> sr_ok st }.

Lemma step_sr w a : Inv w -> SrInv w -> SrInv (step w a).
Proof.
  intros [I _] [A B]. constructor.
  - intros s1 H. destruct (step_sug _ _ _ H) as [(s&Hs&E)|[(c&rv&onf&In')|E]].
    + rewrite E. eauto.
    + eauto.
    + apply sr_ok_not_succeeded. unfold s_is, has_cond. now rewrite E.
  - intros c st rv onf Hx. destruct (step_pending _ _ _ _ Hx) as [H|[H|[(resp&H)|(key&dberr&H)]]].
    + eauto.
    + eapply plan_exp_sr; eauto.
    + apply sr_ok_not_succeeded. eapply plan_sug_succ; eauto.
    + exfalso. eapply plan_trial_no_sug; eauto.
Qed.

Lemma SrInv_reachable c acts : valid_cfg c -> no_teardown acts -> SrInv (run c acts).
Proof.
  intros V NT. unfold run.
  assert (H : forall l w, Inv w -> SrInv w -> no_teardown l -> SrInv (fold_left step l w)).
  { induction l as [|a l IH]; intros w I S N; [exact S|]. apply no_teardown_cons in N as [Na N]. cbn.
    apply IH; [now apply step_inv|now apply step_sr|exact N]. }
  apply H; [now apply Inv_init| |exact NT]. constructor; cbn; [discriminate|intros [] ? ? ? []].
Qed.

(* maxTrialCount never falls below the configured value *)
Lemma max_grows c acts e m : valid_cfg c -> no_teardown acts -> w_exp (run c acts) = Some e -> e_max e = Some m -> c_par c <= m.
Proof.
  intros V NT He Hm.
  pose proof (evolves_steps acts (init c) (Inv_init c V) NT) as E. fold (run c acts) in E.
  destruct (ev_exp_fwd _ _ E _ eq_refl) as (e'&He'&(_&_&M)). rewrite He in He'. inversion He'; subst e'. cbn in M. rewrite Hm in M.
  destruct V as (_&V2&_). destruct (c_max c) as [m0|]; [|destruct M]. cbn in M. lia.
Qed.

(* THE theorem: every resume policy, every history without teardown (environment events, faults, aborts, cache lag, raises of
   maxTrialCount): at rest with a finished environment the experiment with a budget carries a verdict.  Only assumption: the
   algorithm service never returned the same trial name twice. *)
Theorem no_wedge_reachable_all c acts e m :
  valid_cfg c -> no_teardown acts ->
  quiescent (run c acts) -> env_done (run c acts) ->
  w_exp (run c acts) = Some e -> e_max e = Some m ->
  (forall s, w_sug (run c acts) = Some s -> NoDup (ss_names (s_st s))) ->
  e_completed (e_st e) = true.
Proof.
  intros V NT Qu En He Hm ND.
  destruct (e_completed (e_st e)) eqn:C; [reflexivity|].
  assert (Cf : w_cfg (run c acts) = c) by (unfold run; now rewrite run_cfg).
  rewrite <- C. eapply (quiescent_completed (run c acts) e m); eauto.
  - now apply Inv_reachable.
  - rewrite Cf. destruct V; assumption.
  - rewrite Cf. eapply max_grows; eauto.
  - intros s Hs. split; [auto|]. intro S. rewrite Cf.
    destruct (c_resume c) eqn:R.
    + exfalso. destruct (succeeded_implies_verdict c acts s V NT) as (_&e'&He'&C'); auto; [rewrite R; discriminate|].
      rewrite He in He'. inversion He'; subst. congruence.
    + exfalso. destruct (succeeded_implies_verdict c acts s V NT) as (_&e'&He'&C'); auto; [rewrite R; discriminate|].
      rewrite He in He'. inversion He'; subst. congruence.
    + split; [reflexivity|]. exact (sr_sug _ (SrInv_reachable c acts V NT) _ Hs S).
Qed.
