(* C19: the boolean monitor that runs on implementation outputs (Corr/C19.v) is implied by the theorems about the
   model: a case built from the model's own output never fails [holds], and a run made of such cases never fails the
   cross-case check. So an alarm on an implementation output that agrees with the model is impossible. *)
From KV Require Import Base.Prelude Model.Sql Proofs.SqlP Corr.C19.

Definition kind_of (o : outcome (list stmt)) : kind :=
  match o with Ok _ => KOk | Err _ => KErr | Crash _ => KCrash end.

(* the case the harness would write if the implementation behaved exactly like the model; [tw] is the twin request *)
Definition model_case (lv : level) (d : dialect) (f : nat) (q tw : request) : case :=
  let ot := with_fault f (run_op lv d q) in
  Case lv d f q (kind_of (fst ot)) (snd ot)
       (match run_op lv d tw with Ok ts => Some (map call_text ts) | _ => None end).

(* ------------------------------------------------------------------ reflexivity of the comparisons *)

Lemma call_eqb_spec a b : call_eqb a b = true <-> a = b.
Proof. destruct a, b; simpl; split; congruence. Qed.

Lemma ct_eqb_spec a b : ct_eqb a b = true <-> a = b.
Proof.
  destruct a as [a1 a2], b as [b1 b2]. unfold ct_eqb. simpl.
  rewrite andb_true_iff, call_eqb_spec, String.eqb_eq. split; [intros [-> ->]; reflexivity|intros [= -> ->]; auto].
Qed.

Lemma cts_eqb_refl l1 l2 : l1 = l2 -> list_eqb ct_eqb l1 l2 = true.
Proof. intro H. apply (list_eqb_spec ct_eqb ct_eqb_spec). exact H. Qed.

Lemma nats_eqb_refl (l : list nat) : list_eqb Nat.eqb l l = true.
Proof. apply (list_eqb_spec Nat.eqb Nat.eqb_eq). reflexivity. Qed.

(* ------------------------------------------------------------------ an ok answer of the model passes the statement checks *)

Lemma ok_checks lv d q s tw lv' ts :
  run_op lv d q = Ok s -> run_op lv' d tw = Ok ts -> shape_of tw = shape_of q ->
  rows_ok q s && placeholders_ok d s && twin_ok s (Some (map call_text ts)) = true.
Proof.
  intros H Ht Hs. rewrite !andb_true_iff. repeat split.
  - destruct (args_of_request lv d q s H) as (c&t&NP&[->| ->]); unfold rows_ok; cbn [filter is_prepare fst snd negb forallb];
      destruct c; try congruence; cbn [filter is_prepare fst snd negb forallb]; rewrite nats_eqb_refl; reflexivity.
  - unfold placeholders_ok. apply forallb_forall. intros [[c t] a] I.
    destruct c; cbn [is_prepare fst snd orb]; try reflexivity;
      apply Nat.eqb_eq; apply (placeholders_match lv d q s _ t a H I); discriminate.
  - unfold twin_ok. apply cts_eqb_refl. symmetry. apply (text_depends_on_shape lv' lv d tw q ts s Hs Ht H).
Qed.

Lemma with_fault_kind f o :
  (fst (with_fault f o) = o /\ snd (with_fault f o) = issued o) \/
  (exists s, o = Ok s /\ fst (with_fault f o) = Err 20 /\ (0 <? f) = true).
Proof.
  destruct o as [s|c|k]; cbn [with_fault]; [|left; auto|left; auto].
  destruct (0 <? f) eqn:F; cbn [andb]; [|left; auto].
  destruct (f <=? length s); [right; exists s; auto|left; auto].
Qed.

(* ------------------------------------------------------------------ the per-case monitor *)

Theorem monitor_model lv d f q tw :
  shape_of tw = shape_of q -> must_err tw = false -> has_nil tw = false ->
  holds (model_case lv d f q tw) = true.
Proof.
  intros Hs Tm Tn. unfold holds, model_case, skipped.
  cbn [c_level c_req c_kind c_stmts c_dialect c_fault c_twin].
  (* the twin is served *)
  assert (Ht : exists ts, run_op lv d tw = Ok ts).
  { destruct lv; [apply (db_ok_iff d tw Tn); exact Tm|apply handler_ok_iff; auto]. }
  destruct Ht as (ts&Ht). rewrite Ht.
  (* no crash on the requests the property speaks about *)
  assert (NC : (match lv with LDb => has_nil q | LHandler => false end) = false -> is_crash (run_op lv d q) = false).
  { destruct lv; [apply db_no_crash|intros _; apply handler_no_crash]. }
  destruct (match lv with LDb => has_nil q | LHandler => false end) eqn:SK; [reflexivity|].
  specialize (NC eq_refl).
  (* what the model answers *)
  assert (OK : (exists s, run_op lv d q = Ok s) <-> (must_err q = false /\ has_nil q = false)).
  { destruct lv; [|apply handler_ok_iff]. rewrite SK. rewrite (db_ok_iff d q SK). tauto. }
  destruct (run_op lv d q) as [s|c|k] eqn:R; [| |discriminate NC].
  - destruct OK as [OK _]. destruct (OK (ex_intro _ s eq_refl)) as [M N]. rewrite M, N.
    destruct (with_fault_kind f (Ok s)) as [[E1 E2]|(s'&_&E1&F)]; rewrite E1; cbn [kind_of is_kcrash negb andb].
    + rewrite E2. cbn [issued]. apply (ok_checks lv d q s tw lv ts R Ht Hs).
    + exact F.
  - cbn [with_fault fst snd kind_of is_kcrash negb andb is_kerr].
    destruct (must_err q) eqn:M; [reflexivity|]. destruct (has_nil q) eqn:N; [reflexivity|].
    destruct OK as [_ OK]. destruct (OK (conj eq_refl eq_refl)) as (s&H). discriminate H.
Qed.

(* ------------------------------------------------------------------ the cross-case check *)

Lemma shape_eqb_eq a b : shape_eqb a b = true -> a = b.
Proof.
  destruct a, b; simpl; try discriminate; [intro H; apply Nat.eqb_eq in H; congruence| |reflexivity].
  rewrite !andb_true_iff. intros [[H1 H2] H3]. apply Bool.eqb_prop in H1, H2, H3. congruence.
Qed.

Lemma dialect_eqb_eq a b : dialect_eqb a b = true -> a = b.
Proof. destruct a, b; simpl; congruence. Qed.

Definition is_model_case (c : case) : Prop := exists lv d f q tw, c = model_case lv d f q tw.

Lemma model_case_ok lv d f q tw :
  c_kind (model_case lv d f q tw) = KOk -> run_op lv d q = Ok (c_stmts (model_case lv d f q tw)).
Proof.
  unfold model_case. cbn [c_kind c_stmts].
  destruct (with_fault_kind f (run_op lv d q)) as [[E1 E2]|(s&_&E1&_)]; rewrite E1; [|discriminate].
  rewrite E2. destruct (run_op lv d q); cbn; congruence.
Qed.

Theorem cross_model cs :
  (forall i c, In (i, c) cs -> is_model_case c) -> forall i c, In (i, c) cs -> cross_ok cs c = true.
Proof.
  intros Hall i c Hin. unfold cross_ok. destruct (eligible c) eqn:Ec; [|reflexivity].
  destruct (find _ cs) as [[j p]|] eqn:F; [|reflexivity].
  apply find_some in F as [Hp Hg]. cbn [snd] in *. apply andb_true_iff in Hg as [Ep G].
  apply andb_true_iff in G as [Gd Gs]. apply dialect_eqb_eq in Gd. apply shape_eqb_eq in Gs.
  destruct (Hall _ _ Hin) as (lv&d&f&q&tw&->). destruct (Hall _ _ Hp) as (lv'&d'&f'&q'&tw'&->).
  assert (K1 : c_kind (model_case lv d f q tw) = KOk).
  { unfold eligible in Ec. apply andb_true_iff in Ec as [_ Ec]. destruct (c_kind _); congruence. }
  assert (K2 : c_kind (model_case lv' d' f' q' tw') = KOk).
  { unfold eligible in Ep. apply andb_true_iff in Ep as [_ Ep]. destruct (c_kind _); congruence. }
  apply model_case_ok in K1, K2.
  assert (D : d' = d) by exact Gd. subst d'.
  apply cts_eqb_refl. apply (text_depends_on_shape lv' lv d q' q _ _ Gs K2 K1).
Qed.

Theorem violations_model cs :
  (forall i c, In (i, c) cs -> exists lv d f q tw, c = model_case lv d f q tw /\
      shape_of tw = shape_of q /\ must_err tw = false /\ has_nil tw = false) ->
  violations cs = [].
Proof.
  intro Hall. unfold violations. apply failing_nil. intros i c Hin.
  apply andb_true_iff. split.
  - destruct (Hall _ _ Hin) as (lv&d&f&q&tw&->&H1&H2&H3). apply monitor_model; assumption.
  - apply (cross_model cs) with (i := i); [|exact Hin].
    intros j c' H'. destruct (Hall _ _ H') as (lv&d&f&q&tw&->&_). exists lv, d, f, q, tw. reflexivity.
Qed.

(* and the correspondence function accepts the model's own output *)
Theorem agrees_model lv d f q tw : agrees (model_case lv d f q tw) = true.
Proof.
  unfold agrees, model_case. cbn [c_level c_dialect c_fault c_req c_kind c_stmts].
  destruct (with_fault f (run_op lv d q)) as [o att]. cbn [fst snd].
  apply andb_true_iff. split.
  - destruct o, lv; reflexivity.
  - apply (list_eqb_spec stmt_eqb); [|reflexivity].
    intros [a1 a2] [b1 b2]. unfold stmt_eqb. cbn [fst snd].
    rewrite andb_true_iff, ct_eqb_spec, (list_eqb_spec Nat.eqb Nat.eqb_eq). split; [intros [-> ->]; reflexivity|intros [= -> ->]; auto].
Qed.

(* a database failure at any driver call turns the answer into an error, never into a crash *)
Theorem no_crash_under_db_failure f d q :
  is_crash (fst (with_fault f (run_op LHandler d q))) = false /\
  (forall s, run_op LHandler d q = Ok s -> 0 < f <= length s -> exists c, fst (with_fault f (run_op LHandler d q)) = Err c).
Proof.
  split.
  - destruct (with_fault_kind f (run_op LHandler d q)) as [[E _]|(s&_&E&_)]; rewrite E; [apply handler_no_crash|reflexivity].
  - intros s H [F1 F2]. rewrite H. cbn [with_fault].
    apply Nat.ltb_lt in F1. apply Nat.leb_le in F2. rewrite F1, F2. cbn. eauto.
Qed.
