(* The boolean monitor of C17 is implied by the theorems about the model: whatever the model generates for an input passes
   the monitor, so an alarm of the monitor on implementation objects that agree with the model is impossible. *)
From KV Require Import Base.Prelude Model.Composer Proofs.ComposerP Corr.C17.
Open Scope Z_scope.

Lemma seqb_refl s : seqb s s = true.
Proof. apply String.eqb_refl. Qed.

Lemma submap_refl m : NoDup (map fst m) -> submap m m = true.
Proof.
  intro ND. unfold submap. apply forallb_forall. intros [k v] I. cbn [fst snd].
  rewrite (in_mget k v m ND I). apply seqb_refl.
Qed.

Lemma has_obj_in l o : In o l -> has_obj l o = true.
Proof.
  intro I. unfold has_obj. apply existsb_exists. exists o. split; [assumption|].
  unfold objref_eqb. rewrite Nat.eqb_refl, !seqb_refl. reflexivity.
Qed.

Lemma owned_by_ref K s : owned_by K s (s_ns s) [controller_ref K s] = true.
Proof. unfold owned_by, controller_ref. cbn. rewrite !seqb_refl. reflexivity. Qed.

Lemma exposes_port K s : exposes (desired_service K s) (k_port K) = true.
Proof. unfold exposes. cbn. rewrite Z.eqb_refl. reflexivity. Qed.

Lemma exposes_es K s : es_on s = true -> exposes (desired_service K s) (k_es_port K) = true.
Proof. intro E. unfold exposes. cbn. rewrite E. cbn. rewrite Z.eqb_refl, !orb_true_r. reflexivity. Qed.

Lemma exposes_es_iff K s : k_port K <> k_es_port K -> exposes (desired_service K s) (k_es_port K) = es_on s.
Proof.
  intro N. destruct (es_on s) eqn:E; [apply exposes_es; assumption|].
  unfold exposes. cbn. rewrite E. cbn. apply Z.eqb_neq in N. rewrite N. reflexivity.
Qed.

(* early stopping configured <-> the Service exposes the early-stopping port <-> the pod has the second container *)
Lemma es_iff K probe cfg s d :
  k_port K <> k_es_port K -> desired_deployment K probe cfg s = Ok d ->
  exposes (desired_service K s) (k_es_port K) = es_on s /\ length (d_containers d) = (if es_on s then 2%nat else 1%nat).
Proof.
  intros N H. split; [apply exposes_es_iff; assumption|].
  destruct (deployment_shape _ _ _ _ _ H) as (sc&_&_&ES&->). cbn [d_containers]. unfold desired_containers, ec_for.
  destruct (es_on s); [|reflexivity]. destruct (ES eq_refl) as (ec&->). reflexivity.
Qed.

Lemma m_owned_model K probe cfg s obs : m_owned K s (model_impl K probe cfg s obs) = true.
Proof.
  unfold m_owned, model_impl. cbn [i_dep i_svc i_vol i_rbac]. rewrite !andb_true_iff. repeat split.
  - destruct (desired_deployment K probe cfg s) as [d|e|e] eqn:H; cbn [on_ok]; try reflexivity.
    destruct (deployment_shape _ _ _ _ _ H) as (sc&_&_&_&->). apply owned_by_ref.
  - cbn. apply owned_by_ref.
  - destruct (desired_volume K cfg s) as [[c pvo]|e|e] eqn:V; cbn [on_ok]; try reflexivity.
    unfold desired_volume in V. destruct (get_suggestion_config cfg (s_algorithm s)); try discriminate.
    injection V as <- _. apply owned_by_ref.
  - cbn. rewrite !owned_by_ref. reflexivity.
Qed.

Lemma m_reject_model K probe cfg s obs : m_reject K cfg s (model_impl K probe cfg s obs) = true.
Proof.
  unfold m_reject, model_impl. cbn [i_dep].
  destruct (get_suggestion_config cfg (s_algorithm s)) as [sc|e|e] eqn:G; try reflexivity.
  destruct (redefines_port K sc) eqn:R; [|reflexivity].
  unfold desired_deployment. cbv zeta. rewrite G, R. reflexivity.
Qed.

Lemma first_reconcile_no_error K probe cfg s d :
  desired_deployment K probe cfg s = Ok d -> snd (first_reconcile K probe cfg s) = false.
Proof.
  intro H. destruct (deployment_shape _ _ _ _ _ H) as (sc&G&_). rewrite (first_reconcile_ok _ _ _ _ _ _ H G). reflexivity.
Qed.

Lemma m_generated_model K probe cfg s obs : m_generated K cfg s (model_impl K probe cfg s obs) = true.
Proof.
  unfold m_generated. destruct (plain_input K cfg s) eqn:P; [|reflexivity].
  unfold plain_input in P. destruct (get_suggestion_config cfg (s_algorithm s)) as [sc|e|e] eqn:G; try discriminate.
  rewrite !andb_true_iff in P. destruct P as (((((((P1&P2)&_)&_)&_)&_)&_)&P7).
  assert (R : redefines_port K sc = false).
  { unfold redefines_port. apply negb_true_iff in P1. apply negb_true_iff in P2. rewrite P1, P2. reflexivity. }
  destruct (deployment_generated K probe cfg s sc G R) as (d&H).
  { intro E. rewrite E in P7. exact P7. }
  unfold model_impl. cbn [i_dep i_svc i_vol i_rbac i_rec_err]. rewrite H, (first_reconcile_no_error _ _ _ _ _ H).
  unfold desired_volume. rewrite G. reflexivity.
Qed.

Lemma m_selects_model K probe cfg s d :
  NoDup (map fst (s_labels s)) -> desired_deployment K probe cfg s = Ok d -> m_selects d (desired_service K s) = true.
Proof.
  intros ND H. destruct (deployment_shape _ _ _ _ _ H) as (sc&_&_&_&->).
  unfold m_selects. cbn [desired_service sv_selector sv_ns d_tpl_labels d_selector d_ns].
  rewrite (submap_refl _ (keys_labels K s ND)), seqb_refl. reflexivity.
Qed.

Lemma m_ports_model K probe cfg s d :
  k_port K <> k_es_port K -> k_cluster_ip K <> "ExternalName"%string ->
  desired_deployment K probe cfg s = Ok d -> m_ports K s d (desired_service K s) = true.
Proof.
  intros N NE H. unfold m_ports. rewrite exposes_port, (exposes_es_iff K s N), eqb_reflx. cbn [andb].
  apply andb_true_iff. split; [|cbn [desired_service sv_type]; apply negb_true_iff; apply String.eqb_neq; assumption].
  apply forallb_forall. intros sp I.
  destruct (ports_thm _ _ _ _ _ H) as (_&_&_&P&_). destruct (P sp I) as (T&c&p&Ic&Ip&Hn&_).
  unfold resolves. rewrite T. apply has_port_num_spec. exists p. split; [|assumption].
  unfold pod_ports. apply in_flat_map. exists c. auto.
Qed.

Lemma m_endpoints_model K probe cfg s obs :
  m_endpoints K s (desired_service K s) (model_impl K probe cfg s obs) = true.
Proof.
  unfold m_endpoints, model_impl. cbn [i_alg_ep i_es_ep i_dialled].
  assert (A : ep_ok (desired_service K s) (algorithm_endpoint K s) (k_port K) = true).
  { unfold ep_ok. rewrite exposes_port. cbn. rewrite seqb_refl. reflexivity. }
  assert (B : es_on s = true -> ep_ok (desired_service K s) (early_stopping_endpoint K s) (k_es_port K) = true).
  { intro E. unfold ep_ok. rewrite (exposes_es K s E). cbn [desired_service sv_name sv_ns]. unfold early_stopping_endpoint.
    rewrite seqb_refl. reflexivity. }
  rewrite A. cbn [andb]. apply andb_true_iff. split.
  - destruct (es_on s) eqn:E; [apply B|]; reflexivity.
  - destruct (es_wf s) eqn:W; [|reflexivity]. destruct obs; [|reflexivity].
    unfold dialled. cbn [forallb fst snd]. rewrite A. cbn [andb].
    unfold es_dialled, es_wf, es_on in *. destruct (s_es s) as [n|]; [|reflexivity].
    cbn [forallb fst snd]. rewrite (B W). reflexivity.
Qed.

Lemma m_volume_model K probe cfg s d :
  desired_deployment K probe cfg s = Ok d -> m_volume K s d (desired_volume K cfg s) = true.
Proof.
  intro H. unfold m_volume. destruct (from_volume K s) eqn:FV; [|reflexivity].
  destruct (volume_ok _ _ _ _ _ H) as (c&pvo&V). rewrite V.
  destruct (volume_thm _ _ _ _ _ _ _ H V) as [P _]. destruct (P FV) as (Dv&Ns&ct&rest&Dc&Hm).
  rewrite Dv, Dc, Ns. cbn [existsb v_claim v_name]. rewrite !seqb_refl.
  apply has_mount_spec in Hm. rewrite Hm. reflexivity.
Qed.

Lemma covers_model K s res :
  res = k_plural_trial K \/ res = cat (k_plural_trial K) "/status"%string ->
  forall a r b, desired_rbac K s = (a, r, b) -> covers K r res = true.
Proof.
  intros Hres a r b [= <- <- <-]. unfold covers. cbn. rewrite seqb_refl. cbn.
  destruct Hres as [->| ->]; rewrite seqb_refl; cbn; rewrite ?orb_true_r; reflexivity.
Qed.

Lemma m_rbac_model K probe cfg s d :
  desired_deployment K probe cfg s = Ok d -> m_rbac K cfg s d (Ok (desired_rbac K s)) = true.
Proof.
  intro H. unfold m_rbac. destruct (es_on s) eqn:ES; [|reflexivity].
  destruct (deployment_shape _ _ _ _ _ H) as (sc&G&_&_&->). unfold custom_sa. rewrite G.
  pose proof (covers_model K s _ (or_introl eq_refl) _ _ _ eq_refl) as C1.
  pose proof (covers_model K s _ (or_intror eq_refl) _ _ _ eq_refl) as C2.
  destruct (seqb (sc_sa sc) ""%string) eqn:SA.
  - cbn [d_sa d_ns]. rewrite ES. unfold seqb in SA. rewrite SA. cbn [andb].
    cbn [desired_rbac] in *. rewrite C1, C2.
    cbn [sa_name sa_ns rb_subjects rb_ref_kind rb_ref_name rb_ref_group rb_ns ro_ns ro_name existsb sj_kind sj_name sj_ns].
    rewrite !seqb_refl. reflexivity.
  - cbn [d_sa]. rewrite ES. unfold seqb in SA. rewrite SA. cbn [andb]. apply seqb_refl.
Qed.

Lemma m_created_model K probe cfg s d obs :
  desired_deployment K probe cfg s = Ok d -> m_created K cfg s (model_impl K probe cfg s obs) = true.
Proof.
  intro H. destruct (deployment_shape _ _ _ _ _ H) as (sc&G&_&_&E).
  unfold m_created, model_impl. cbn [i_rec_err i_dep i_svc i_vol i_rbac i_created].
  rewrite (first_reconcile_ok _ _ _ _ _ _ H G), H. cbn [fst snd].
  set (objs := (_ ++ _) ++ _ ++ _).
  assert (I1 : In (ObjRef (kind_id KDeployment) (d_ns d) (d_name d)) objs).
  { subst objs. apply in_or_app. right. apply in_or_app. right. now left. }
  assert (I2 : In (ObjRef (kind_id KService) (sv_ns (desired_service K s)) (sv_name (desired_service K s))) objs).
  { subst objs. apply in_or_app. left. apply in_or_app. right. now left. }
  rewrite (has_obj_in _ _ I1), (has_obj_in _ _ I2). cbn [andb]. apply andb_true_iff. split.
  - destruct (from_volume K s) eqn:FV; [|reflexivity]. unfold desired_volume. rewrite G. cbn [on_ok fst pvc_ns pvc_name].
    apply has_obj_in. subst objs. apply in_or_app. left. apply in_or_app. left. destruct (sc_pv_spec sc); cbn; auto.
  - unfold custom_sa. rewrite G. destruct (es_on s && seqb (sc_sa sc) ""%string) eqn:C; [|reflexivity].
    apply andb_true_iff in C. destruct C as [ES SA].
    assert (Guard : rbac_guard s d = true).
    { unfold rbac_guard. rewrite (es_on_dialled s ES), E. cbn [d_sa]. rewrite ES. unfold seqb in SA. rewrite SA. cbn. apply seq_refl. }
    subst objs. rewrite Guard. cbn [on_ok desired_rbac sa_ns sa_name ro_ns ro_name rb_ns rb_name].
    rewrite !andb_true_iff. repeat split; apply has_obj_in; apply in_or_app; right; apply in_or_app; left; cbn; auto.
Qed.

Lemma m_created_ns_model K probe cfg s obs : m_created_ns s (model_impl K probe cfg s obs) = true.
Proof.
  unfold m_created_ns, model_impl. cbn [i_created]. apply forallb_forall. intros o I.
  destruct (first_reconcile_namespaced _ _ _ _ _ I) as [->|[-> ->]]; [rewrite seqb_refl; reflexivity|].
  rewrite Nat.eqb_refl, seqb_refl, orb_true_r. reflexivity.
Qed.

(* The model's own output always passes the monitor. *)
Lemma monitor_model K probe cfg s obs :
  k_port K <> k_es_port K -> k_cluster_ip K <> "ExternalName"%string -> NoDup (map fst (s_labels s)) ->
  monitor K cfg s (model_impl K probe cfg s obs) = true.
Proof.
  intros N NE ND. unfold monitor.
  rewrite m_owned_model, m_created_ns_model, m_reject_model, m_generated_model. cbn [andb].
  destruct (i_dep (model_impl K probe cfg s obs)) as [d|e|e] eqn:H; [|reflexivity|reflexivity].
  assert (Sv : i_svc (model_impl K probe cfg s obs) = Ok (desired_service K s)) by reflexivity.
  rewrite Sv. change (desired_deployment K probe cfg s = Ok d) in H.
  change (i_vol (model_impl K probe cfg s obs)) with (desired_volume K cfg s).
  change (i_rbac (model_impl K probe cfg s obs)) with (Ok (desired_rbac K s) : outcome _).
  rewrite (m_selects_model _ _ _ _ _ ND H), (m_ports_model _ _ _ _ _ N NE H), m_endpoints_model,
    (m_rbac_model _ _ _ _ _ H), (m_created_model _ _ _ _ _ obs H), (m_volume_model _ _ _ _ _ H). reflexivity.
Qed.

(* plain valid inputs always yield the full set of objects *)
Lemma plain_generated K probe cfg s :
  plain_input K cfg s = true ->
  (exists d, desired_deployment K probe cfg s = Ok d) /\ (exists c pvo, desired_volume K cfg s = Ok (c, pvo)) /\
  snd (first_reconcile K probe cfg s) = false.
Proof.
  intro P. pose proof (m_generated_model K probe cfg s true) as M. unfold m_generated in M. rewrite P in M.
  unfold model_impl in M. cbn [i_dep i_svc i_vol i_rbac i_rec_err] in M. rewrite !andb_true_iff in M.
  destruct M as ((((M1&_)&M3)&_)&M5).
  destruct (desired_deployment K probe cfg s) as [d|e|e]; try discriminate.
  destruct (desired_volume K cfg s) as [[c pvo]|e|e]; try discriminate.
  apply negb_true_iff in M5. eauto 6.
Qed.
