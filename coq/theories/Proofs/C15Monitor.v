(* C15: monitor soundness and the table obligation over the regenerated field list. *)
From KV Require Import Base.Prelude Base.StrFind Model.Validator Model.UpdateRule Proofs.ValidatorP Proofs.UpdateRuleP Corr.C15.
From KV Require Gen.SpecFields.
Open Scope string_scope.
Open Scope list_scope.
Open Scope Z_scope.

(* the monitor evaluated on the model's own output passes; [oa] ("the stored object was admitted on creation") is only used when
   the spec is untouched, and then it is a statement about the very spec being validated *)
Lemma monitor_model en e0 rest (o : stored string) oa :
  let e := set_default e0 in
  (oa = true -> budget_of e = stored_budget o -> rest = o_rest o -> validate en e = Ok []) ->
  monitor (budget_of e) rest o oa (validate_update string_dec en e rest o) = true.
Proof.
  intros e OA. unfold monitor.
  destruct (validate_update string_dec en e rest o) as [[|x l]|c|s] eqn:V.
  - apply update_iff in V. destruct V as (_ & Rr & H).
    rewrite (proj2 (String.eqb_eq _ _) Rr). cbn [andb].
    destruct (budget_eqb (budget_of e) (stored_budget o)) eqn:EB; [reflexivity|]. cbn [orb].
    assert (NB : budget_of e <> stored_budget o) by (intro X; apply budget_eqb_spec in X; congruence).
    destruct (H NB) as [H8 H7]. apply andb_true_iff. split.
    + change (b_max (budget_of e)) with (e_max e). destruct (e_max e) as [m|]; [|reflexivity]. apply Z.ltb_lt. auto.
    + destruct (is_completed (o_conds o)); [rewrite (H7 eq_refl)|]; reflexivity.
  - destruct (String.eqb rest (o_rest o)) eqn:ER; [|reflexivity].
    destruct (budget_eqb (budget_of e) (stored_budget o)) eqn:EB; [|reflexivity].
    destruct oa; [|reflexivity]. exfalso.
    apply String.eqb_eq in ER. apply budget_eqb_spec in EB.
    rewrite (update_noop string string_dec en e rest o (OA eq_refl EB ER) EB ER) in V. discriminate.
  - exfalso. exact (validate_gen_no_err _ _ _ _ V).
  - exfalso. exact (update_no_crash _ _ _ _ _ _ _ V).
Qed.

(* ------------------------------------------------------------------ the field table *)
(* every type-level path of ExperimentSpec (leaf values, and pointer / slice / map nodes) is one of the three budget fields or is
   mutated, one at a time, by the C15 driver's sweep *)
Definition budget_paths : list string :=
  ["ParallelTrialCount"; "ParallelTrialCount^"; "MaxTrialCount"; "MaxTrialCount^"; "MaxFailedTrialCount"; "MaxFailedTrialCount^"].

Definition fields_covered : bool :=
  forallb (fun p => str_mem p budget_paths || str_mem p SpecFields.swept) (SpecFields.spec_leaves ++ SpecFields.spec_nodes).

Lemma fields_swept : fields_covered = true /\ forallb (fun p => str_mem p (SpecFields.spec_leaves ++ SpecFields.spec_nodes)) budget_paths = true.
Proof. split; vm_compute; reflexivity. Qed.
