(* C07 over runs: the run objects ("jobs") of the joint model.  Absent external deletion of run objects (action JobGone) and
   teardown: a run object is created at most once per trial, only while the stored trial is not completed; it is deleted
   only when retain is false and the trial is completed; with retain it is kept. *)
From KV Require Import Base.Prelude Base.Cond Model.World Proofs.WorldPlan Proofs.EqbRefl Proofs.WorldInv Proofs.WorldInv2
  Proofs.WorldInv3 Proofs.WorldInv4 Proofs.WorldInv5 Proofs.WorldThm Proofs.WorldSucc.
Open Scope Z_scope.

Definition cs_completed (cs : conds) : bool :=
  has_cond cs TSucceeded || has_cond cs TFailed || has_cond cs TKilled || has_cond cs TEarlyStopped || has_cond cs TMetricsUnavailable.

Lemma t_completed_cs t : t_completed t = cs_completed (t_conds t).
Proof. reflexivity. Qed.

Definition cached_completed (w : world) (n : nat) : Prop :=
  exists t, find_trial n (c_trials w) = Some t /\ t_completed t = true.

Definition is_create (x : write * onfail) : bool := match fst x with WJobCreate _ => true | _ => false end.

(* what justifies a pending write of the trial controller, as far as run objects are concerned *)
Definition jw_ok (w : world) (x : write * onfail) : Prop :=
  match fst x with
  | WJobDelete n => c_retain (w_cfg w) = false /\ cached_completed w n
  | WTrialStatus n cs _ _ _ => cs_completed cs = true -> In n (g_jobcreates w)
  | _ => True
  end.

Definition pend_jobs_ok (w : world) (l : pending) : Prop :=
  Forall (jw_ok w) l /\
  match l with
  | (WJobCreate n, _) :: rest => ~ In n (g_jobcreates w) /\ forallb (fun x => negb (is_create x)) rest = true
  | _ => forallb (fun x => negb (is_create x)) l = true
  end.

Definition no_job_write (x : write * onfail) : bool :=
  match fst x with WJobCreate _ | WJobDelete _ | WTrialStatus _ _ _ _ _ => false | _ => true end.

Record JobInv (w : world) : Prop := {
  j_nodup : NoDup (g_jobcreates w);
  j_jobs : forall j, In j (w_jobs w) -> In (j_name j) (g_jobcreates w);
  j_kept : forall n, In n (g_jobcreates w) -> find_job n (w_jobs w) <> None \/ In n (g_jobdeletes w);
  j_del : forall n, In n (g_jobdeletes w) -> c_retain (w_cfg w) = false /\ cached_completed w n;
  j_done : forall t, In t (w_trials w) -> t_completed t = true -> In (t_name t) (g_jobcreates w);
  j_ptrial : pend_jobs_ok w (p_trial w);
  j_pexp : forallb no_job_write (p_exp w) = true;
  j_psug : forallb no_job_write (p_sug w) = true }.

(* ------------------------------------------------------------------ planned writes *)

Lemma cs_completed_mark_created cs : cs_completed (mark cs TCreated RCreated) = cs_completed cs.
Proof. unfold cs_completed, mark. now rewrite !has_set. Qed.

Lemma cs_completed_mark_running cs : cs_completed (mark cs TRunning RRunning) = cs_completed cs.
Proof. unfold cs_completed, mark. now rewrite !has_set. Qed.

Lemma utc_running_completed cf now t o dbw cs ct :
  update_trial_condition cf now t o JSRunning = (dbw, cs, ct) -> cs_completed cs = cs_completed (t_conds t).
Proof.
  unfold update_trial_condition. destruct (negb (has_cond (t_conds t) TRunning) && negb (has_cond (t_conds t) TEarlyStopped));
    intros [= <- <- <-]; [apply cs_completed_mark_running|reflexivity].
Qed.

(* a planned status write that makes the trial completed: the trial was seen completed, or its run object was found *)
Lemma plan_trial_main_status w t dberr n cs o ct rv onf :
  In (WTrialStatus n cs o ct rv, onf) (plan_trial_main w t dberr) -> cs_completed cs = true ->
  t_completed t = true \/ find_job (t_name t) (w_jobs w) <> None.
Proof.
  unfold plan_trial_main.
  destruct (find_job (t_name t) (w_jobs w)) as [j|] eqn:J; [intros _ _; right; discriminate|].
  destruct (t_completed t) eqn:C; [intros _ _; now left|].
  cbn [negb orb]. intros H K. exfalso.
  destruct (if negb (t_is t TRunning) then Some JSRunning else None) as [js|] eqn:Ejs; [|destruct H as [H|[]]; discriminate].
  assert (js = JSRunning) by (destruct (negb (t_is t TRunning)); inversion Ejs; reflexivity). subst js.
  match type of H with In _ (if ?c then _ else _) => destruct c end; [destruct H as [H|[]]; discriminate|].
  match type of H with In _ (if ?c then _ else _) => destruct c end; [destruct H as [H|[]]; discriminate|].
  destruct (update_trial_condition _ _ _ _ _) as [[dbw cs'] ct'] eqn:U.
  apply in_app_or in H as [H|H]; [destruct H as [H|[]]; discriminate|].
  apply in_app_or in H as [H|H].
  - apply (update_trial_condition_db _ _ _ _ _ _ _ _ _ U) in H as [H _]. discriminate.
  - apply in_trial_status_write in H. inversion H; subst.
    rewrite (utc_running_completed _ _ _ _ _ _ _ U) in K. rewrite <- t_completed_cs in K. congruence.
Qed.

Lemma plan_trial_status w key dberr n cs o ct rv onf :
  In (WTrialStatus n cs o ct rv, onf) (plan_trial w key dberr) -> cs_completed cs = true ->
  n = key /\ exists t, find_trial key (c_trials w) = Some t /\ (t_completed t = true \/ find_job key (w_jobs w) <> None).
Proof.
  unfold plan_trial. destruct (find_trial key (c_trials w)) as [t|] eqn:F; [|intros []].
  destruct (find_trial_name _ _ _ F) as [N _]. intros H K.
  destruct (negb (t_deleting t) && negb (t_fin t)); [destruct H as [H|[]]; discriminate|].
  destruct (t_deleting t && t_fin t); [destruct H as [H|[H|[]]]; discriminate|].
  destruct (negb (t_is t TCreated)).
  - apply in_trial_status_write in H. inversion H; subst. split; [reflexivity|]. exists t. split; [reflexivity|]. left.
    rewrite cs_completed_mark_created in K. exact K.
  - assert (n = t_name t).
    { apply plan_trial_main_shape in H. destruct H as [(H&_)|[(H&_)|[(H&_)|(cs'&o'&ct'&H&_)]]]; try discriminate. now inversion H. }
    subst n. split; [exact N|]. exists t. split; [reflexivity|]. rewrite <- N. eapply plan_trial_main_status; eauto.
Qed.

Definition nc (x : write * onfail) : bool := negb (is_create x).

Lemma nc_tsw t cs o ct : forallb nc (trial_status_write t cs o ct) = true.
Proof. unfold trial_status_write. destruct (_ && _ && _); reflexivity. Qed.

Lemma nc_dbw cf now t o js dbw cs ct : update_trial_condition cf now t o js = (dbw, cs, ct) -> forallb nc dbw = true.
Proof.
  unfold update_trial_condition. intro U.
  destruct js; repeat match type of U with context [if ?c then _ else _] => destruct c eqn:? end; inversion U; subst; reflexivity.
Qed.

Ltac head_nc :=
  match goal with
  | |- match ?l with nil => _ | _ => _ end =>
      let H := fresh "Hnc" in
      assert (H : forallb nc l = true);
      [|destruct l as [|[[] ?] ?]; cbn in H |- *; try exact H; try discriminate]
  end.

(* a run-object creation is planned at the head of the list only, for a trial seen not completed whose run object is absent *)
Lemma plan_trial_main_head w t dberr :
  match plan_trial_main w t dberr with
  | (WJobCreate n, _) :: rest => n = t_name t /\ find_job (t_name t) (w_jobs w) = None /\ t_completed t = false /\ forallb nc rest = true
  | l => forallb nc l = true
  end.
Proof.
  unfold plan_trial_main.
  destruct (find_job (t_name t) (w_jobs w)) as [j|] eqn:J.
  - destruct (t_completed t && negb (c_retain (w_cfg w))).
    + destruct (t_is t TEarlyStopped && negb (t_obs_available t)); [|reflexivity].
      destruct dberr; [reflexivity|]. cbn [app forallb nc is_create fst negb andb]. apply nc_tsw.
    + destruct (negb (t_completed t) || t_is t TEarlyStopped); [|reflexivity].
      destruct (match j_phase j with JFail => Some JSFailed | JSucc => Some JSSucceeded
                                | JActive => if negb (t_is t TRunning) then Some JSRunning else None end) as [js|]; [|reflexivity].
      match goal with |- context [if ?c then [] else _] => destruct c end; [reflexivity|].
      match goal with |- context [if ?c then [] else _] => destruct c end; [reflexivity|].
      destruct (update_trial_condition _ _ _ _ _) as [[dbw cs] ct] eqn:U.
      cbn [app]. head_nc. rewrite forallb_app, (nc_dbw _ _ _ _ _ _ _ _ U), nc_tsw. reflexivity.
  - destruct (t_completed t) eqn:C.
    + destruct (t_is t TEarlyStopped && negb (t_obs_available t)); [|reflexivity].
      destruct dberr; [reflexivity|]. cbn [app]. head_nc. apply nc_tsw.
    + cbn [negb orb].
      destruct (if negb (t_is t TRunning) then Some JSRunning else None) as [js|]; [|repeat split; reflexivity].
      match goal with |- context [if ?c then _ else _] => destruct c end; [repeat split; reflexivity|].
      match goal with |- context [if ?c then _ else _] => destruct c end; [repeat split; reflexivity|].
      destruct (update_trial_condition _ _ _ _ _) as [[dbw cs] ct] eqn:U.
      cbn [app]. repeat split. rewrite forallb_app, (nc_dbw _ _ _ _ _ _ _ _ U), nc_tsw. reflexivity.
Qed.

Lemma plan_trial_head w key dberr :
  match plan_trial w key dberr with
  | (WJobCreate n, _) :: rest => n = key /\ find_job key (w_jobs w) = None /\
                                 (exists t, find_trial key (c_trials w) = Some t /\ t_completed t = false) /\ forallb nc rest = true
  | l => forallb nc l = true
  end.
Proof.
  unfold plan_trial. destruct (find_trial key (c_trials w)) as [t|] eqn:F; [|reflexivity].
  destruct (find_trial_name _ _ _ F) as [N _].
  destruct (negb (t_deleting t) && negb (t_fin t)); [reflexivity|].
  destruct (t_deleting t && t_fin t); [reflexivity|].
  destruct (negb (t_is t TCreated)); [head_nc; apply nc_tsw|].
  pose proof (plan_trial_main_head w t dberr) as H.
  destruct (plan_trial_main w t dberr) as [|[[] onf] rest]; try exact H.
  destruct H as (E&J&C&R). subst name. rewrite N in *. repeat split; eauto.
Qed.

Lemma find_job_name n js j : find_job n js = Some j -> j_name j = n /\ In j js.
Proof. unfold find_job. intro H. apply find_some in H as [I E]. apply Nat.eqb_eq in E. auto. Qed.

Lemma cached_completed_store w n : InvS w -> cached_completed w n -> exists t, find_trial n (w_trials w) = Some t /\ t_completed t = true.
Proof.
  intros I (t&F&C). destruct (tlag_find _ _ _ _ (i_tlag _ I) F) as (t'&F'&L). exists t'. split; [exact F'|]. eapply tle_completed; eauto.
Qed.

Lemma plan_trial_pend_ok w key dberr : InvS w -> JobInv w -> pend_jobs_ok w (plan_trial w key dberr).
Proof.
  intros I J. split.
  - apply Forall_forall. intros [wr onf] Hx. unfold jw_ok. cbn [fst]. destruct wr; try exact Logic.I.
    + (* status *)
      intro K. destruct (plan_trial_status _ _ _ _ _ _ _ _ _ Hx K) as (->&t&F&[C|Jb]).
      * destruct (cached_completed_store w key I) as (t'&F'&C'); [exists t; auto|].
        destruct (find_trial_name _ _ _ F') as [N In']. rewrite <- N. eapply j_done; eauto.
      * destruct (find_job key (w_jobs w)) as [j|] eqn:Fj; [|contradiction]. destruct (find_job_name _ _ _ Fj) as [N In'].
        rewrite <- N. eapply j_jobs; eauto.
    + (* delete *)
      destruct (plan_trial_shape _ _ _ _ Hx) as (t&F&N&[(E&_)|[(P&_)|[(E&_)|[(E&C&R&_)|[(E&_)|(cs&o&ct&E&_)]]]]]); try discriminate.
      * rewrite P in Hx. destruct Hx as [H|[H|[]]]; discriminate.
      * inversion E; subst. split; [exact R|]. exists t. auto.
  - pose proof (plan_trial_head w key dberr) as H.
    destruct (plan_trial w key dberr) as [|[[] onf] rest]; try exact H.
    destruct H as (->&Fj&(t&F&C)&R). split; [|exact R].
    intro In. destruct (j_kept _ J _ In) as [K|K]; [contradiction|].
    destruct (j_del _ J _ K) as (_&t'&F'&C'). rewrite F in F'. inversion F'; subst. congruence.
Qed.

Lemma plan_exp_no_job w : InvS w -> forallb no_job_write (plan_exp w) = true.
Proof.
  intro I. apply forallb_forall. intros x Hx.
  destruct (plan_exp_shape _ _ Hx) as (ce&Hce&H).
  destruct (i_exp _ I) as (e&ce'&He&Hce'&L&De&Dce&Ne&Nce). rewrite Hce in Hce'. inversion Hce'; subst ce'.
  destruct (H (status_ok_nonneg _ _ Nce)) as [(add&->)|[(st&->&NN)|[(s&cs'&Hs&->)|[->|(r&_&[(_&->)|(s&Hs&[->|(n&->&In)])])]]]]; reflexivity.
Qed.

Lemma plan_sug_no_job w resp : forallb no_job_write (fst (plan_sug w resp)) = true.
Proof.
  apply forallb_forall. intros x Hx.
  destruct (plan_sug_shape _ _ _ Hx) as (cs&Hc&[(k&[->| ->])|(st&->&Sh)]); reflexivity.
Qed.

(* ------------------------------------------------------------------ effect of one write on run objects, logs and trials *)

Lemma find_job_app_other js j n : j_name j <> n -> find_job n (js ++ [j]) = find_job n js.
Proof.
  intro H. unfold find_job. induction js as [|a l IH]; cbn.
  - destruct (Nat.eqb (j_name j) n) eqn:E; [apply Nat.eqb_eq in E; contradiction|reflexivity].
  - destruct (Nat.eqb (j_name a) n); [reflexivity|exact IH].
Qed.

Lemma find_job_app_same js n ph : find_job n (js ++ [{| j_name := n; j_phase := ph |}]) <> None.
Proof.
  unfold find_job. induction js as [|a l IH]; cbn.
  - rewrite Nat.eqb_refl. discriminate.
  - destruct (Nat.eqb (j_name a) n); [discriminate|exact IH].
Qed.

Lemma find_job_filter_other js n m : n <> m ->
  find_job n (filter (fun j => negb (Nat.eqb (j_name j) m)) js) = find_job n js.
Proof.
  intro H. unfold find_job. induction js as [|a l IH]; cbn; [reflexivity|].
  destruct (Nat.eqb (j_name a) m) eqn:E; cbn.
  - apply Nat.eqb_eq in E. destruct (Nat.eqb (j_name a) n) eqn:E2; [apply Nat.eqb_eq in E2; congruence|exact IH].
  - destruct (Nat.eqb (j_name a) n); [reflexivity|exact IH].
Qed.

Lemma find_job_some_in n js : find_job n js <> None <-> exists j, In j js /\ j_name j = n.
Proof.
  unfold find_job. split.
  - destruct (find _ js) as [j|] eqn:F; [|contradiction]. intros _. apply find_some in F as [I E]. apply Nat.eqb_eq in E. eauto.
  - intros (j&I&E) F. eapply find_none in F; eauto. cbn in F. rewrite E, Nat.eqb_refl in F. discriminate.
Qed.

(* ------------------------------------------------------------------ frame *)

Lemma jw_ok_mono w w' x :
  w_cfg w' = w_cfg w -> incl (g_jobcreates w) (g_jobcreates w') -> (forall n, cached_completed w n -> cached_completed w' n) ->
  jw_ok w x -> jw_ok w' x.
Proof.
  intros Ec Ic Cc. unfold jw_ok. destruct (fst x); auto.
  all: match goal with
       | |- _ /\ _ -> _ => intros [R C]; rewrite Ec; auto
       | |- _ => intros H K; apply Ic; auto
       end.
Qed.

Lemma pend_jobs_ok_frame w w' l :
  w_cfg w' = w_cfg w -> g_jobcreates w' = g_jobcreates w -> (forall n, cached_completed w n -> cached_completed w' n) ->
  pend_jobs_ok w l -> pend_jobs_ok w' l.
Proof.
  intros Ec Eg Cc [F H]. split.
  - eapply Forall_impl; [|exact F]. intros x. apply jw_ok_mono; auto. rewrite Eg. apply incl_refl.
  - destruct l as [|[[] o] r]; auto. now rewrite Eg.
Qed.

Lemma pend_jobs_ok_tail w x rest : pend_jobs_ok w (x :: rest) -> Forall (jw_ok w) rest /\ forallb nc rest = true.
Proof.
  intros [F H]. split; [now inversion F|].
  destruct x as [[] o]; cbn in H; try (apply andb_true_iff in H as [_ H]); try exact H. now destruct H.
Qed.

Lemma pend_ok_of_nc w l : Forall (jw_ok w) l -> forallb nc l = true -> pend_jobs_ok w l.
Proof.
  intros F H. split; [exact F|]. destruct l as [|[[] o] r]; try exact H. cbn in H. discriminate.
Qed.

Lemma pend_jobs_ok_nil w : pend_jobs_ok w [].
Proof. split; [constructor|reflexivity]. Qed.

Lemma JobInv_frame w w' :
  JobInv w -> w_cfg w' = w_cfg w -> w_jobs w' = w_jobs w -> g_jobcreates w' = g_jobcreates w -> g_jobdeletes w' = g_jobdeletes w ->
  (forall n, cached_completed w n -> cached_completed w' n) ->
  (forall t1, In t1 (w_trials w') -> t_completed t1 = true -> In (t_name t1) (g_jobcreates w)) ->
  pend_jobs_ok w (p_trial w') -> forallb no_job_write (p_exp w') = true -> forallb no_job_write (p_sug w') = true ->
  JobInv w'.
Proof.
  intros [A B C D E F G H] Ec Ej Eg Ed Cc Tr Pt Pe Ps.
  constructor; rewrite ?Ec, ?Ej, ?Eg, ?Ed; auto.
  - intros n Hn. destruct (D n Hn) as [R K]. auto.
  - eapply pend_jobs_ok_frame; eauto.
Qed.

(* writes that touch neither run objects nor trial conditions *)
Lemma apply_write_job_frame w wr onf w1 :
  apply_write w wr = Some w1 -> no_job_write (wr, onf) = true ->
  w_cfg w1 = w_cfg w /\ w_jobs w1 = w_jobs w /\ g_jobcreates w1 = g_jobcreates w /\ g_jobdeletes w1 = g_jobdeletes w /\
  c_trials w1 = c_trials w /\
  forall t1, In t1 (w_trials w1) -> t_completed t1 = true -> exists t, In t (w_trials w) /\ t_name t = t_name t1 /\ t_completed t = true.
Proof.
  intros A N.
  assert (Same : forall w', w_trials w' = w_trials w ->
            forall t1, In t1 (w_trials w') -> t_completed t1 = true -> exists t, In t (w_trials w) /\ t_name t = t_name t1 /\ t_completed t = true).
  { intros w' E t1 I C. rewrite E in I. eauto. }
  destruct wr; cbn in N; try discriminate; cbn [apply_write] in A; repeat aw_cases A w; inversion A; subst; cbn;
    repeat (split; [reflexivity|]); try (apply Same; reflexivity).
  - (* WTrialCreate *)
    intros t1 I C. apply in_app_or in I as [I|[<-|[]]]; [eauto|discriminate].
  - (* WTrialFin, removal *)
    intros t1 I C. apply filter_In in I as [I _]. eauto.
  - (* WTrialFin, update *)
    intros t1 I C. rewrite upd_trial_map in I. apply in_map_iff in I as (t0&<-&I0).
    destruct (Nat.eqb (t_name t0) name); cbn in *; eauto.
Qed.

(* ------------------------------------------------------------------ the invariant is inductive *)

Definition job_safe (a : action) : bool := match a with JobGone _ | DeleteExperiment | GcTrial _ => false | _ => true end.

Ltac jframe J :=
  eapply (JobInv_frame _ _ J); cbn;
  try reflexivity; try (intros ?n ?H; exact H); try (intros ?t1 ?I1 ?C1; eapply j_done; eauto);
  try (exact (j_ptrial _ J)); try (exact (j_pexp _ J)); try (exact (j_psug _ J)).

Lemma forallb_tail {A} (f : A -> bool) a l : forallb f (a :: l) = true -> f a = true /\ forallb f l = true.
Proof. cbn. intro H. now apply andb_true_iff in H. Qed.

Lemma find_job_map f n js : (forall j, j_name (f j) = j_name j) -> (find_job n (map f js) <> None <-> find_job n js <> None).
Proof.
  intro Hf. rewrite !find_job_some_in. split.
  - intros (j&I&E). apply in_map_iff in I as (j0&<-&I0). exists j0. rewrite Hf in E. auto.
  - intros (j&I&E). exists (f j). split; [now apply in_map|now rewrite Hf].
Qed.

(* the pending lists after the head write of controller c has been consumed (or the reconcile stopped) *)
Lemma pendings_after w c x rest l' :
  JobInv w -> pending_of w c = x :: rest -> l' = rest \/ l' = [] ->
  pend_jobs_ok w (match c with CTrial => l' | _ => p_trial w end) /\
  forallb no_job_write (match c with CExp => l' | _ => p_exp w end) = true /\
  forallb no_job_write (match c with CSug => l' | _ => p_sug w end) = true.
Proof.
  intros J Ep L. destruct c; cbn in Ep.
  - split; [exact (j_ptrial _ J)|]. split; [|exact (j_psug _ J)].
    pose proof (j_pexp _ J) as H. rewrite Ep in H. apply forallb_tail in H as [_ H]. destruct L as [->| ->]; auto.
  - split; [exact (j_ptrial _ J)|]. split; [exact (j_pexp _ J)|].
    pose proof (j_psug _ J) as H. rewrite Ep in H. apply forallb_tail in H as [_ H]. destruct L as [->| ->]; auto.
  - split; [|split; [exact (j_pexp _ J)|exact (j_psug _ J)]].
    pose proof (j_ptrial _ J) as H. rewrite Ep in H. apply pend_jobs_ok_tail in H as [F N].
    destruct L as [->| ->]; [now apply pend_ok_of_nc|apply pend_jobs_ok_nil].
Qed.

Lemma set_pending_fields w c l :
  p_trial (set_pending w c l) = match c with CTrial => l | _ => p_trial w end /\
  p_exp (set_pending w c l) = match c with CExp => l | _ => p_exp w end /\
  p_sug (set_pending w c l) = match c with CSug => l | _ => p_sug w end.
Proof. destruct c; repeat split. Qed.

Lemma step_job w a : Inv w -> JobInv w -> job_safe a = true -> JobInv (step w a).
Proof.
  intros [I P] J Sf. destruct a; try discriminate; cbn [step].
  - (* Begin *)
    destruct (pending_of w c) eqn:Ep; [|exact J].
    destruct c.
    + jframe J. now apply plan_exp_no_job.
    + destruct (plan_sug w resp) as [p rpcs] eqn:Ps. jframe J. change p with (fst (p, rpcs)). rewrite <- Ps. apply plan_sug_no_job.
    + jframe J. now apply plan_trial_pend_ok.
  - (* Write *)
    destruct (pending_of w c) as [|[wr onf] rest] eqn:Ep; [exact J|].
    destruct (if inject_failure then None else apply_write (count_write w) wr) as [w1|] eqn:A.
    2:{ (* refused or injected failure *)
        destruct (pendings_after w c _ rest (match onf with Stop => [] | Cont => rest end) J Ep) as (Pt&Pe&Ps); [destruct onf; auto|].
        destruct (set_pending_fields (count_write w) c (match onf with Stop => [] | Cont => rest end)) as (E1&E2&E3).
        eapply (JobInv_frame _ _ J); rewrite ?E1, ?E2, ?E3; try (destruct c; reflexivity); auto.
        all: try (intros n H; destruct c; exact H).
        all: try (intros t1 I1 C1; eapply j_done; eauto; destruct c; exact I1).
        all: destruct c; assumption. }
    destruct inject_failure; [discriminate|].
    destruct (apply_write_side0 _ _ _ A) as (_&_&Epend).
    destruct (set_pending_fields w1 c rest) as (E1&E2&E3).
    assert (Q1 : p_trial w1 = p_trial w) by (exact (Epend CTrial)).
    assert (Q2 : p_exp w1 = p_exp w) by (exact (Epend CExp)).
    assert (Q3 : p_sug w1 = p_sug w) by (exact (Epend CSug)).
    destruct (pendings_after w c _ rest rest J Ep (or_introl eq_refl)) as (Pt&Pe&Ps).
    destruct (no_job_write (wr, onf)) eqn:N.
    + (* a write that touches neither run objects nor trial conditions *)
      destruct (apply_write_job_frame _ _ _ _ A N) as (F1&F2&F3&F4&F5&F6).
      assert (G1 : w_cfg (set_pending w1 c rest) = w_cfg w) by (destruct c; exact F1).
      assert (G2 : w_jobs (set_pending w1 c rest) = w_jobs w) by (destruct c; exact F2).
      assert (G3 : g_jobcreates (set_pending w1 c rest) = g_jobcreates w) by (destruct c; exact F3).
      assert (G4 : g_jobdeletes (set_pending w1 c rest) = g_jobdeletes w) by (destruct c; exact F4).
      assert (G5 : forall n, cached_completed w n -> cached_completed (set_pending w1 c rest) n).
      { intros n (t&Ft&Ct). exists t. split; [|exact Ct]. destruct c; cbn; rewrite F5; exact Ft. }
      assert (G6 : forall t1, In t1 (w_trials (set_pending w1 c rest)) -> t_completed t1 = true -> In (t_name t1) (g_jobcreates w)).
      { intros t1 I1 C1. assert (I1' : In t1 (w_trials w1)) by (destruct c; exact I1).
        destruct (F6 _ I1' C1) as (t&It&Nt&Ct). rewrite <- Nt. eapply j_done; eauto. }
      assert (G7 : pend_jobs_ok w (p_trial (set_pending w1 c rest))) by (rewrite E1; destruct c; rewrite ?Q1; exact Pt).
      assert (G8 : forallb no_job_write (p_exp (set_pending w1 c rest)) = true) by (rewrite E2; destruct c; rewrite ?Q2; exact Pe).
      assert (G9 : forallb no_job_write (p_sug (set_pending w1 c rest)) = true) by (rewrite E3; destruct c; rewrite ?Q3; exact Ps).
      exact (JobInv_frame _ _ J G1 G2 G3 G4 G5 G6 G7 G8 G9).
    + (* creation / deletion of a run object, or a trial status: only the trial controller *)
      assert (c = CTrial).
      { destruct c; [| |reflexivity]; cbn in Ep.
        - pose proof (j_pexp _ J) as H. rewrite Ep in H. apply forallb_tail in H as [H _]. congruence.
        - pose proof (j_psug _ J) as H. rewrite Ep in H. apply forallb_tail in H as [H _]. congruence. }
      subst c. cbn in Ep. clear Pt Pe Ps.
      pose proof (j_ptrial _ J) as PT. rewrite Ep in PT.
      destruct (pend_jobs_ok_tail _ _ _ PT) as [Frest NCrest].
      destruct PT as [Fall Hd]. inversion Fall as [|? ? OKhd _]; subst. unfold jw_ok in OKhd. cbn [fst] in OKhd.
      destruct J as [JA JB JC JD JE JF JG JH].
      destruct wr; cbn in N; try discriminate; cbn [apply_write] in A.
      * (* WTrialStatus *)
        destruct (find_trial name (w_trials (count_write w))) as [t|] eqn:Ft; [|discriminate].
        destruct (Nat.eqb (t_rv t) rv); [|discriminate]. inversion A; subst w1. clear A.
        constructor; cbn -[find_job find_trial cached_completed]; auto.
        -- intros t1 I1 C1. rewrite upd_trial_map in I1. apply in_map_iff in I1 as (t0&<-&I0).
           destruct (Nat.eqb (t_name t0) name) eqn:En; [|eauto].
           apply Nat.eqb_eq in En. cbn in *. rewrite En. apply OKhd. exact C1.
        -- apply pend_ok_of_nc; [|exact NCrest]. eapply Forall_impl; [|exact Frest]. intro x. apply jw_ok_mono; auto. apply incl_refl.
      * (* WJobCreate *)
        destruct (find_job name (w_jobs (count_write w))) eqn:Fj; [discriminate|]. inversion A; subst w1. clear A.
        destruct Hd as [Nin _]. cbn in Fj.
        constructor; cbn -[find_job find_trial cached_completed].
        -- apply NoDup_snoc; auto.
        -- intros j Ij. apply in_or_app. apply in_app_or in Ij as [Ij|[<-|[]]]; [left; auto|right; now left].
        -- intros n Hn. apply in_app_or in Hn as [Hn|[<-|[]]].
           ++ assert (Ne : name <> n) by (intro; subst; contradiction).
              destruct (JC n Hn) as [K|K]; [left|right; exact K]. rewrite find_job_app_other; auto.
           ++ left. apply find_job_app_same.
        -- exact JD.
        -- intros t1 I1 C1. apply in_or_app. left. eauto.
        -- apply pend_ok_of_nc; [|exact NCrest]. eapply Forall_impl; [|exact Frest]. intro x. apply jw_ok_mono; auto.
           cbn. apply incl_appl, incl_refl.
        -- exact JG.
        -- exact JH.
      * (* WJobDelete *)
        destruct (find_job name (w_jobs (count_write w))) eqn:Fj; [|discriminate]. inversion A; subst w1. clear A.
        destruct OKhd as [Rt Cc]. cbn in Fj.
        constructor; cbn -[find_job find_trial cached_completed].
        -- exact JA.
        -- intros j0 Ij. apply filter_In in Ij as [Ij _]. auto.
        -- intros n Hn. destruct (Nat.eq_dec n name) as [->|Ne].
           ++ right. apply in_or_app. right. now left.
           ++ destruct (JC n Hn) as [K|K]; [left|right; apply in_or_app; now left]. rewrite find_job_filter_other; auto.
        -- intros n Hn. apply in_app_or in Hn as [Hn|[<-|[]]]; [apply JD; exact Hn|split; assumption].
        -- exact JE.
        -- apply pend_ok_of_nc; [|exact NCrest]. eapply Forall_impl; [|exact Frest]. intro x. apply jw_ok_mono; auto. apply incl_refl.
        -- exact JG.
        -- exact JH.
  - (* Abort *)
    destruct (set_pending_fields w c []) as (E1&E2&E3).
    assert (Pt : pend_jobs_ok w (p_trial (set_pending w c []))) by (rewrite E1; destruct c; try exact (j_ptrial _ J); apply pend_jobs_ok_nil).
    assert (Pe : forallb no_job_write (p_exp (set_pending w c [])) = true) by (rewrite E2; destruct c; try exact (j_pexp _ J); reflexivity).
    assert (Ps : forallb no_job_write (p_sug (set_pending w c [])) = true) by (rewrite E3; destruct c; try exact (j_psug _ J); reflexivity).
    eapply (JobInv_frame _ _ J); try exact Pt; try exact Pe; try exact Ps; try (destruct c; reflexivity).
    all: try (intros n H; destruct c; exact H).
    all: try (intros t1 I1 C1; eapply j_done; eauto; destruct c; exact I1).
  - (* JobDone *)
    destruct J as [JA JB JC JD JE JF JG JH].
    set (f := fun j => if Nat.eqb (j_name j) t then match j_phase j with JActive => {| j_name := j_name j; j_phase := if ok then JSucc else JFail |} | _ => j end else j).
    assert (Hf : forall j, j_name (f j) = j_name j).
    { intro j. unfold f. destruct (Nat.eqb (j_name j) t); [|reflexivity]. destruct (j_phase j); reflexivity. }
    constructor; cbn -[find_job find_trial cached_completed]; auto.
    + intros j Ij. apply in_map_iff in Ij as (j0&<-&I0). fold (f j0). rewrite Hf. auto.
    + intros n Hn. destruct (JC n Hn) as [K|K]; [left|right; exact K]. fold f. now apply find_job_map.
  - (* Metrics *)
    destruct (find_trial t (w_trials w)); [|exact J]. jframe J.
  - (* EarlyStop *)
    destruct (find_trial t (w_trials w)) as [tr|] eqn:Ft; [|exact J].
    destruct (c_es (w_cfg w) && t_is tr TCreated && negb (t_completed tr) && negb (t_deleting tr) &&
              match find_job t (w_jobs w) with Some _ => true | None => false end) eqn:G; [|exact J].
    apply andb_true_iff in G as [_ Gj]. destruct (find_job t (w_jobs w)) as [j|] eqn:Fj; [|discriminate].
    destruct (find_job_name _ _ _ Fj) as [Nj Ij].
    eapply (JobInv_frame _ _ J); try (destruct v, (db_get t (w_db w)); reflexivity).
    + intros n H. destruct v, (db_get t (w_db w)); exact H.
    + intros t1 I1 C1.
      assert (I1' : In t1 (upd_trial t (fun x => {| t_name := t_name x; t_conds := t_conds x ++ [{| ctype := TEarlyStopped; cstat := CTrue; creason := REarlyStopped |}];
                                                    t_obs := t_obs x; t_ctime := t_ctime x; t_fin := t_fin x; t_deleting := t_deleting x; t_rv := S (t_rv x) |}) (w_trials w)))
        by (destruct v, (db_get t (w_db w)); exact I1).
      rewrite upd_trial_map in I1'. apply in_map_iff in I1' as (t0&<-&I0).
      destruct (Nat.eqb (t_name t0) t) eqn:En; [|eapply j_done; eauto].
      apply Nat.eqb_eq in En. cbn. rewrite En, <- Nj. eapply j_jobs; eauto.
    + destruct v, (db_get t (w_db w)); exact (j_ptrial _ J).
    + destruct v, (db_get t (w_db w)); exact (j_pexp _ J).
    + destruct v, (db_get t (w_db w)); exact (j_psug _ J).
  - (* DeployAvailable *)
    destruct (i_dep (w_infra w)); [|exact J]. jframe J.
  - (* SyncExp *) jframe J.
  - (* SyncSug *) jframe J.
  - (* SyncTrials *)
    eapply (JobInv_frame _ _ J); cbn -[cached_completed]; try reflexivity.
    + intros n H. destruct (cached_completed_store _ _ I H) as (t'&F'&C'). exists t'. auto.
    + intros t1 I1 C1. eapply j_done; eauto.
    + exact (j_ptrial _ J).
    + exact (j_pexp _ J).
    + exact (j_psug _ J).
  - (* UserRaiseMax *)
    destruct (w_exp w) as [e|]; [|exact J]. destruct (e_max e); [|exact J]. destruct (_ && _ && _); [|exact J]. jframe J.
Qed.

(* ------------------------------------------------------------------ over runs *)

Definition job_safe_acts (acts : list action) : Prop := forallb job_safe acts = true.

Lemma job_safe_no_teardown a : job_safe a = true -> is_teardown a = false.
Proof. destruct a; cbn; congruence. Qed.

Lemma job_safe_acts_no_teardown acts : job_safe_acts acts -> no_teardown acts.
Proof.
  unfold job_safe_acts, no_teardown. induction acts as [|a l IH]; cbn; [reflexivity|].
  intro H. apply andb_true_iff in H as [Ha Hl]. rewrite (job_safe_no_teardown _ Ha). cbn. auto.
Qed.

Lemma JobInv_init c : JobInv (init c).
Proof.
  constructor; cbn; try reflexivity; try (intros ? []); try constructor.
  - constructor.
  - reflexivity.
Qed.

Lemma JobInv_steps acts : forall w, Inv w -> JobInv w -> job_safe_acts acts -> JobInv (fold_left step acts w).
Proof.
  induction acts as [|a l IH]; intros w I J Sf; [exact J|].
  unfold job_safe_acts in Sf. cbn in Sf. apply andb_true_iff in Sf as [Sa Sl]. cbn.
  apply IH; [apply step_inv; [now apply job_safe_no_teardown|exact I]|now apply step_job|exact Sl].
Qed.

Theorem JobInv_reachable c acts : valid_cfg c -> job_safe_acts acts -> JobInv (run c acts).
Proof. intros V Sf. apply JobInv_steps; auto using Inv_init, JobInv_init. Qed.

(* at most one run object is ever created per trial *)
Theorem job_created_once c acts : valid_cfg c -> job_safe_acts acts -> NoDup (g_jobcreates (run c acts)).
Proof. intros V Sf. exact (j_nodup _ (JobInv_reachable c acts V Sf)). Qed.

(* ... and none for a trial that is completed in the store: a completed trial's run object has been created before *)
Theorem job_not_created_for_completed c acts t :
  valid_cfg c -> job_safe_acts acts -> In t (w_trials (run c acts)) -> t_completed t = true ->
  In (t_name t) (g_jobcreates (run c acts)).
Proof. intros V Sf. exact (j_done _ (JobInv_reachable c acts V Sf) t). Qed.

Theorem job_create_means_unfinished c acts a n t :
  valid_cfg c -> job_safe_acts (acts ++ [a]) ->
  ~ In n (g_jobcreates (run c acts)) -> In n (g_jobcreates (run c (acts ++ [a]))) ->
  find_trial n (w_trials (run c acts)) = Some t -> t_completed t = false.
Proof.
  intros V Sf Nin _ F. destruct (t_completed t) eqn:C; [|reflexivity]. exfalso. apply Nin.
  unfold job_safe_acts in Sf. rewrite forallb_app in Sf. apply andb_true_iff in Sf as [Sf _].
  destruct (find_trial_name _ _ _ F) as [N I]. rewrite <- N. eapply job_not_created_for_completed; eauto.
Qed.

(* a run object is deleted only with retain = false and for a trial that is completed (in the store, for good) *)
Theorem job_deleted_only_finished c acts n :
  valid_cfg c -> job_safe_acts acts -> In n (g_jobdeletes (run c acts)) ->
  c_retain c = false /\ exists t, find_trial n (w_trials (run c acts)) = Some t /\ t_completed t = true.
Proof.
  intros V Sf H. pose proof (JobInv_reachable c acts V Sf) as J.
  pose proof (Inv_reachable c acts V (job_safe_acts_no_teardown _ Sf)) as [I _].
  destruct (j_del _ J _ H) as [R C]. split.
  - unfold run in R. now rewrite run_cfg in R.
  - now apply cached_completed_store.
Qed.

(* with retain = true the run object of every trial that got one is still there *)
Theorem job_kept_with_retain c acts n :
  valid_cfg c -> job_safe_acts acts -> c_retain c = true -> In n (g_jobcreates (run c acts)) ->
  find_job n (w_jobs (run c acts)) <> None.
Proof.
  intros V Sf R H. pose proof (JobInv_reachable c acts V Sf) as J.
  destruct (j_kept _ J _ H) as [K|K]; [exact K|].
  destruct (j_del _ J _ K) as [R' _]. unfold run in R'. rewrite run_cfg in R'. cbn in R'. congruence.
Qed.

(* every run object in the store belongs to a trial's single creation *)
Theorem job_is_created c acts j :
  valid_cfg c -> job_safe_acts acts -> In j (w_jobs (run c acts)) -> In (j_name j) (g_jobcreates (run c acts)).
Proof. intros V Sf. exact (j_jobs _ (JobInv_reachable c acts V Sf) j). Qed.

(* at rest, with retain = false, the run object of a completed trial is gone *)
Lemma plan_trial_main_nil_job w t : plan_trial_main w t false = [] -> t_completed t = true -> c_retain (w_cfg w) = false ->
  find_job (t_name t) (w_jobs w) = None.
Proof.
  unfold plan_trial_main. intros H C R. destruct (find_job (t_name t) (w_jobs w)) as [j|]; [|reflexivity]. exfalso.
  rewrite C, R in H. cbn [negb andb] in H.
  destruct (t_is t TEarlyStopped && negb (t_obs_available t)); discriminate.
Qed.

From KV Require Import Proofs.WorldQuiet.

Theorem quiescent_job_removed w t :
  InvS w -> quiescent w -> env_done w -> In t (w_trials w) -> c_retain (w_cfg w) = false ->
  find_job (t_name t) (w_jobs w) = None.
Proof.
  intros I ((_&_&Sy)&_&Qt&_) En It R.
  destruct (quiet_trial w t I Sy Qt En It) as (C&_&Pm). now apply plan_trial_main_nil_job.
Qed.
