(* C10 — the executable monitor of Corr/C10.v accepts the model's own output: it is implied by the theorems. *)
From KV Require Import Base.Prelude Model.Convert Model.Settings Proofs.SettingsP Proofs.ConvertP Corr.C10.
Open Scope string_scope.

Lemma eqb_of_refl {A} (d : forall a b : A, {a = b} + {a <> b}) a : eqb_of d a a = true.
Proof. unfold eqb_of. destruct (d a a); congruence. Qed.

Lemma eqb_of_true {A} (d : forall a b : A, {a = b} + {a <> b}) a b : eqb_of d a b = true <-> a = b.
Proof. unfold eqb_of. destruct (d a b); split; congruence. Qed.

Theorem monitor_exp : forall e, holds (CExp e (convert_experiment e)) = true.
Proof.
  intro e. cbn [holds]. destruct (e_algorithm e) eqn:A; [|reflexivity]. destruct (e_objective e) eqn:O; [|reflexivity].
  destruct (convert_experiment e) as [pe|c|s] eqn:C.
  - unfold experiment_arrives. rewrite (lossless_experiment _ _ C). apply eqb_of_refl.
  - unfold convert_experiment in C. rewrite A, O in C. discriminate.
  - unfold convert_experiment in C. rewrite A, O in C. discriminate.
Qed.

Lemma expected_images_cons t r :
  expected_images (t :: r) =
  if skipped t then expected_images r
  else match t_objective t, expected_images r with Some o, Some l => Some (view_trial o t :: l) | _, _ => None end.
Proof. reflexivity. Qed.

Lemma expected_images_model : forall ts imgs,
  expected_images ts = Some imgs -> exists out, convert_trials ts = Ok out /\ map unconvert_trial out = imgs.
Proof.
  induction ts as [|t r IH]; intro imgs.
  - intros [= <-]. exists []. split; reflexivity.
  - rewrite expected_images_cons. cbn [convert_trials]. destruct (skipped t); [apply IH|].
    destruct (t_objective t) as [o|] eqn:O; [|discriminate]. destruct (expected_images r) as [l|]; [|discriminate].
    intros [= <-]. destruct (IH l eq_refl) as [out [-> M]]. destruct (uc_trial t o O) as [p [-> U]].
    exists (p :: out). split; [reflexivity|]. cbn [map]. now rewrite U, M.
Qed.

Theorem monitor_trials : forall ts, holds (CTrials ts (convert_trials ts)) = true.
Proof.
  intro ts. cbn [holds]. unfold trials_arrive. destruct (expected_images ts) as [imgs|] eqn:E; [|reflexivity].
  destruct (expected_images_model ts imgs E) as [out [-> M]]. rewrite M. apply eqb_of_refl.
Qed.

Lemma settings_override_merge base over : settings_override base over (merge_settings base over) = true.
Proof.
  unfold settings_override. rewrite names_merge, eqb_of_refl. cbn [andb].
  apply forallb_forall. intros n _. rewrite lookup_merge. apply eqb_of_refl.
Qed.

Theorem monitor_sync : forall e sug reply ts, holds (CSync e sug reply ts (model_sync e sug reply ts)) = true.
Proof.
  intros e sug reply ts. cbn [holds].
  destruct (e_algorithm e) as [a|] eqn:A; [|reflexivity]. destruct (e_objective e) as [o|] eqn:O; [|reflexivity].
  destruct (expected_images ts) as [imgs|] eqn:E; [|reflexivity].
  destruct (expected_images_model ts imgs E) as [out [T M]].
  unfold model_sync, sync_request. rewrite (append_ok e a sug A).
  set (l := merge_settings (a_settings a) sug).
  assert (C : exists pe, convert_experiment (with_settings e l) = Ok pe /\ pa_settings (pe_algorithm pe) = l).
  { unfold convert_experiment, with_settings. cbn. rewrite A, O. cbn. eexists. split; reflexivity. }
  destruct C as [pe [C S]]. rewrite C, T. rewrite S.
  unfold experiment_arrives. rewrite (lossless_experiment _ _ C), eqb_of_refl. cbn [andb].
  unfold l. rewrite settings_override_merge. cbn [andb].
  unfold trials_arrive. rewrite E, M, eqb_of_refl. cbn [andb].
  rewrite update_is_merge. apply settings_override_merge.
Qed.

(* the enum monitor on the model's own switches, for any list of values of each mapped type *)
Definition model_rows (ty : string) (vs : list string) : list (string * bool * string) :=
  map (fun v => (v, declared_in_model ty v, enum_image ty v)) vs.

Theorem monitor_sound : forall c,
  match c with
  | CExp e impl => impl = convert_experiment e
  | CTrials ts impl => impl = convert_trials ts
  | CSync e sug reply ts impl => impl = model_sync e sug reply ts
  | _ => False
  end -> holds c = true.
Proof.
  intros [e impl|ts impl|e sug reply ts impl| | ]; try contradiction; intros ->.
  - apply monitor_exp.
  - apply monitor_trials.
  - apply monitor_sync.
Qed.
