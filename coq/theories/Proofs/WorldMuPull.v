(* C06, pull collectors: the trial controller reports MetricsUnavailable only when the metrics DB held an entry WITHOUT objective
   value for the trial when the reporting reconcile began (it waits while nothing has been reported): the monitor clause
   Corr/WorldMon.mu_pull_walk holds on the model's runs without teardown. *)
From KV Require Import Base.Prelude Base.Cond Model.World Proofs.WorldPlan Proofs.WorldInv Proofs.WorldInv2 Proofs.WorldInv4
  Proofs.WorldInv5 Proofs.WorldThm Proofs.WorldSucc Proofs.WorldTrials Proofs.WorldObs Proofs.WorldMu Corr.WorldC Corr.WorldMon
  Proofs.MonSound.
Open Scope Z_scope.

Definition has_entry (k : nat) (db : list (nat * option Z)) : bool := match db_get k db with Some _ => true | None => false end.

Lemma db_get_map_entry k t z0 db :
  has_entry k db = true -> has_entry k (map (fun p => if Nat.eqb (fst p) t then (t, Some z0) else p) db) = true.
Proof.
  unfold has_entry, db_get. induction db as [|a l IH]; cbn; [discriminate|].
  destruct (Nat.eqb (fst a) k) eqn:Ek.
  - intros _. destruct (Nat.eqb (fst a) t) eqn:Et; cbn.
    + apply Nat.eqb_eq in Ek, Et. assert (t = k) by congruence. subst. now rewrite Nat.eqb_refl.
    + now rewrite Ek.
  - intro H. destruct (Nat.eqb (fst a) t) eqn:Et; cbn.
    + destruct (Nat.eqb t k); [reflexivity|exact (IH H)].
    + rewrite Ek. exact (IH H).
Qed.

Lemma has_entry_app k db e : has_entry k db = true -> has_entry k (db ++ [e]) = true.
Proof. unfold has_entry. destruct (db_get k db) eqn:G; [|discriminate]. intros _. now rewrite (db_get_app_keep _ _ e _ G). Qed.

Lemma metrics_db_entry k t v db : has_entry k db = true -> has_entry k (metrics_db t v db) = true.
Proof.
  intro H. unfold metrics_db. destruct (db_get t db) as [[z1|]|]; [exact H| |now apply has_entry_app].
  destruct v as [z0|]; [now apply db_get_map_entry|exact H].
Qed.

(* an entry of the DB stays as long as no deletion of an observation log is pending *)
Lemma step_entry_keep w a k :
  (forall c n onf, ~ In (WDbDelete n, onf) (pending_of w c)) -> has_entry k (w_db w) = true -> has_entry k (w_db (step w a)) = true.
Proof.
  intros ND H.
  assert (Same : forall w', w_db w' = w_db w -> has_entry k (w_db w') = true) by (intros w' ->; exact H).
  destruct a; cbn [step].
  - destruct (pending_of w c); [|exact H]. destruct c; [|destruct (plan_sug w resp)|]; apply Same; reflexivity.
  - destruct (pending_of w c) as [|[wr onf] rest] eqn:Ep; [exact H|].
    destruct (if inject_failure then None else apply_write (count_write w) wr) as [w1|] eqn:A; [|apply Same; destruct c; reflexivity].
    destruct inject_failure; [discriminate|].
    assert (E : w_db (set_pending w1 c rest) = w_db w1) by (destruct c; reflexivity). rewrite E.
    unfold has_entry in *. destruct (db_get k (w_db w)) as [x|] eqn:G; [|discriminate].
    assert (G' : db_get k (w_db (count_write w)) = Some x) by exact G.
    rewrite (apply_write_db _ _ _ _ _ A (fun n Hn => ND c n onf ltac:(rewrite Ep, <- Hn; now left)) G'). reflexivity.
  - apply Same. destruct c; reflexivity.
  - apply Same. reflexivity.
  - apply Same. reflexivity.
  - destruct (find_trial t (w_trials w)); [|exact H]. cbn. now apply metrics_db_entry.
  - destruct (find_trial t (w_trials w)) as [tr|]; [|exact H]. destruct (_ && _); [|exact H]. cbn.
    destruct v, (db_get t (w_db w)); try exact H. cbn. now apply has_entry_app.
  - destruct (i_dep (w_infra w)); apply Same; reflexivity.
  - apply Same. reflexivity.
  - apply Same. reflexivity.
  - apply Same. reflexivity.
  - destruct (w_exp w) as [e|]; [|exact H]. destruct (e_max e); [|exact H]. destruct (_ && _ && _); apply Same; reflexivity.
  - destruct (w_exp w) as [e|]; [|exact H]. destruct (e_fin e); apply Same; reflexivity.
  - destruct (w_exp w), (find_trial t (w_trials w)) as [tr|]; try exact H. destruct (t_fin tr); apply Same; reflexivity.
Qed.

Record DbInv (w : world) : Prop := {
  db_store : forall t, In t (w_trials w) -> t_obs t <> None -> has_entry (t_name t) (w_db w) = true;
  db_cache : forall t, In t (c_trials w) -> t_obs t <> None -> has_entry (t_name t) (w_db w) = true;
  db_pend : forall c n cs o ct rv onf, In (WTrialStatus n cs o ct rv, onf) (pending_of w c) -> o <> None -> has_entry n (w_db w) = true }.

Lemma DbInv_init c : DbInv (init c).
Proof. constructor; cbn; [intros t []|intros t []|intros [] n cs o ct rv onf []]. Qed.

Lemma step_dbinv w a : Inv w -> ObInv w -> DbInv w -> is_teardown a = false -> DbInv (step w a).
Proof.
  intros Iv OB [A B C] NT. pose proof Iv as [I P].
  assert (Keep : forall k, has_entry k (w_db w) = true -> has_entry k (w_db (step w a)) = true)
    by (intros; apply step_entry_keep; [exact (ob_nodel _ OB)|assumption]).
  assert (St : forall t, In t (w_trials (step w a)) -> t_obs t <> None -> has_entry (t_name t) (w_db (step w a)) = true).
  { intros t' I' O.
    destruct (tgrow_in _ _ _ _ (step_trials w a Iv NT) I') as [(t&It&E)|(n&->)]; [|exfalso; now apply O].
    destruct E as [t|t t' N Cc Ob Ct|t t' c cs o ct onf Ip N Cc Ob|t t' Nc Cr J N Cc Ob].
    - apply Keep. now apply A.
    - rewrite N. apply Keep. apply A; [exact It|]. now rewrite <- Ob.
    - rewrite N. apply Keep. eapply C; [exact Ip|]. now rewrite <- Ob.
    - rewrite N. apply Keep. apply A; [exact It|]. now rewrite <- Ob. }
  constructor.
  - exact St.
  - intros t It O. destruct (step_ctrials w a) as [E|E]; rewrite E in It; [apply Keep; now apply B|now apply St].
  - intros c n cs o ct rv onf Hx O.
    destruct (step_pending2 _ _ _ _ Hx) as [H|(Ep&key&resp&dberr&Ea&H)]; [apply Keep; eapply C; eauto|].
    destruct c.
    + exfalso. pose proof (ek_plan_exp_kinds w) as E. rewrite forallb_forall in E. specialize (E _ H). discriminate.
    + exfalso. destruct (plan_sug_shape _ _ _ H) as (cs0&Hc&[(k&[X|X])|(st&X&_)]); discriminate.
    + destruct (plan_trial_obs _ _ _ _ _ _ _ _ _ H) as (->&t&F&_&[-> |(v&G&->)]).
      * apply Keep. destruct (find_trial_name _ _ _ F) as [N It]. rewrite <- N. now apply B.
      * apply Keep. unfold has_entry. now rewrite G.
Qed.

(* ------------------------------------------------------------------ what a trial reconcile plans with a pull collector *)

Lemma pull_obs key db (o0 : obs) :
  let o := match db_get key db with Some v => Some v | None => o0 end in
  obs_available o = false -> o <> None -> (o0 <> None -> has_entry key db = true) -> db_get key db = Some None.
Proof.
  cbn zeta. unfold has_entry. destruct (db_get key db) as [[z|]|]; cbn; intros A N H; try congruence.
  specialize (H N). discriminate.
Qed.

Lemma plan_trial_main_mu_pull w t dberr n cs o ct rv onf :
  In (WTrialStatus n cs o ct rv, onf) (plan_trial_main w t dberr) -> tgood t -> c_push (w_cfg w) = false ->
  has_cond cs TMetricsUnavailable = true -> (t_obs t <> None -> has_entry (t_name t) (w_db w) = true) ->
  has_cond (t_conds t) TMetricsUnavailable = true \/ db_get (t_name t) (w_db w) = Some None.
Proof.
  unfold plan_trial_main. intros H G NP M E. rewrite NP in H. cbn [negb] in H.
  assert (S0 : t_completed t = false \/ t_is t TEarlyStopped = true -> has_cond (t_conds t) TSucceeded = false).
  { intros [C|Es]; [apply not_completed_parts in C; unfold t_is in C; tauto|].
    destruct (has_cond (t_conds t) TSucceeded) eqn:S; [|reflexivity]. destruct G as [G1 _]. destruct (G1 S) as (_&_&E'&_).
    unfold t_is in Es. congruence. }
  (* the common tail: a status decided by UpdateTrialStatusCondition on observation o' *)
  assert (UT : forall js o' dbw cs' ct',
               update_trial_condition (w_cfg w) (w_clock w) t o' js = (dbw, cs', ct') ->
               has_cond (t_conds t) TSucceeded = false -> has_cond cs' TMetricsUnavailable = true ->
               o' = (if match js with JSSucceeded => true | _ => t_is t TEarlyStopped end
                     then match db_get (t_name t) (w_db w) with Some v => Some v | None => t_obs t end else t_obs t) ->
               (match js with JSSucceeded => true | _ => false end && match o' with None => true | Some _ => false end && true) = false ->
               has_cond (t_conds t) TMetricsUnavailable = true \/ db_get (t_name t) (w_db w) = Some None).
  { intros js o' dbw cs' ct' U S M' Eo Gd. destruct (utc_mu _ _ _ _ _ _ _ _ U S M') as [K|[-> K]]; [now left|right].
    cbn [andb] in Gd. rewrite andb_true_r in Gd. cbn in Eo. subst o'.
    apply pull_obs with (o0 := t_obs t); [exact K| |exact E].
    assert (N : forall oo : obs, match oo with Some _ => false | None => true end = false -> oo <> None)
      by (intros [x|] X; [discriminate|discriminate X]).
    apply N. exact Gd. }
  destruct (find_job (t_name t) (w_jobs w)) as [j|].
  - destruct (t_completed t && negb (c_retain (w_cfg w))).
    + destruct (t_is t TEarlyStopped && negb (t_obs_available t)); [|destruct H as [X|[]]; inversion X].
      destruct dberr; [destruct H as [X|[]]; inversion X|].
      apply in_app_or in H as [[X|[]]|H]; [inversion X|]. apply in_trial_status_write in H. inversion H; subst. now left.
    + destruct (negb (t_completed t) || t_is t TEarlyStopped) eqn:Gd0; [|destruct H].
      destruct (match j_phase j with JFail => Some JSFailed | JSucc => Some JSSucceeded
                                | JActive => if negb (t_is t TRunning) then Some JSRunning else None end) as [js|]; [|destruct H].
      match type of H with In _ (if ?c then _ else _) => destruct c end; [destruct H|].
      match type of H with In _ (if ?c then _ else _) => destruct c eqn:Gd end; [destruct H|].
      destruct (update_trial_condition _ _ _ _ _) as [[dbw cs'] ct'] eqn:U.
      apply in_app_or in H as [H|H]; [destruct H|]. apply in_app_or in H as [H|H].
      * apply (update_trial_condition_db _ _ _ _ _ _ _ _ _ U) in H as [X _]. inversion X.
      * apply in_trial_status_write in H. inversion H; subst. eapply UT; [exact U| |exact M|reflexivity|exact Gd].
        apply S0. apply orb_true_iff in Gd0 as [Gd0|Gd0]; [left; now apply negb_true_iff in Gd0|now right].
  - destruct (t_completed t) eqn:C.
    + destruct (t_is t TEarlyStopped && negb (t_obs_available t)); [|destruct H].
      destruct dberr; [destruct H|]. cbn [app] in H. apply in_trial_status_write in H. inversion H; subst. now left.
    + cbn [negb orb] in H.
      destruct (if negb (t_is t TRunning) then Some JSRunning else None) as [js|]; [|destruct H as [X|[]]; inversion X].
      match type of H with In _ (if ?c then _ else _) => destruct c end; [destruct H as [X|[]]; inversion X|].
      match type of H with In _ (if ?c then _ else _) => destruct c eqn:Gd end; [destruct H as [X|[]]; inversion X|].
      destruct (update_trial_condition _ _ _ _ _) as [[dbw cs'] ct'] eqn:U.
      apply in_app_or in H as [H|H]; [destruct H as [X|[]]; inversion X|].
      apply in_app_or in H as [H|H].
      * apply (update_trial_condition_db _ _ _ _ _ _ _ _ _ U) in H as [X _]. inversion X.
      * apply in_trial_status_write in H. inversion H; subst. eapply UT; [exact U| |exact M|reflexivity|exact Gd].
        apply S0. now left.
Qed.

Lemma plan_trial_mu_pull w key dberr n cs o ct rv onf :
  In (WTrialStatus n cs o ct rv, onf) (plan_trial w key dberr) -> c_push (w_cfg w) = false -> DbInv w ->
  n = key /\ exists t, find_trial key (c_trials w) = Some t /\ rv = t_rv t /\
    (tgood t -> has_cond cs TMetricsUnavailable = true ->
     has_cond (t_conds t) TMetricsUnavailable = true \/ db_get key (w_db w) = Some None).
Proof.
  intros H NP D. destruct (plan_trial_obs _ _ _ _ _ _ _ _ _ H) as (->&t&F&Rv&_).
  split; [reflexivity|]. exists t. split; [exact F|]. split; [exact Rv|]. intros G M.
  destruct (find_trial_name _ _ _ F) as [N It].
  unfold plan_trial in H. rewrite F in H.
  destruct (negb (t_deleting t) && negb (t_fin t)); [destruct H as [X|[]]; inversion X|].
  destruct (t_deleting t && t_fin t); [destruct H as [X|[X|[]]]; inversion X|].
  destruct (negb (t_is t TCreated)).
  - apply in_trial_status_write in H. inversion H; subst. left. unfold mark in M. rewrite has_set in M. cbn in M. exact M.
  - rewrite <- N. eapply plan_trial_main_mu_pull; eauto. intro O. now apply (db_cache _ D).
Qed.

(* ------------------------------------------------------------------ the invariant *)

Definition muw_ok2 (snap : snapshot) (w : world) (x : write * onfail) : Prop :=
  match fst x with
  | WTrialStatus n cs o ct rv =>
      has_cond cs TMetricsUnavailable = true ->
      forall t, find_trial n (w_trials w) = Some t -> rv = t_rv t ->
      has_cond (t_conds t) TMetricsUnavailable = true \/ exists db, snap = Some (n, db) /\ db_get n db = Some None
  | _ => True
  end.

Definition MuPInv (snap : snapshot) (w : world) : Prop :=
  (forall c, Forall (muw_ok2 snap w) (pending_of w c)) /\
  (forall c x, In x (pending_of w c) -> match fst x with WTrialStatus _ _ _ _ _ => c = CTrial | _ => True end).

Lemma MuPInv_init c : MuPInv None (init c).
Proof. split; [intros []; constructor|intros [] x []]. Qed.

Lemma step_mup snap w a :
  Inv w -> DbInv w -> c_push (w_cfg w) = false -> MuPInv snap w -> is_teardown a = false -> MuPInv (snap_next w a snap) (step w a).
Proof.
  intros Iv D NP [T K] NT. pose proof Iv as [I P].
  destruct (step_inv2 w a NT Iv) as [Iv' Ev].
  assert (Kind : forall c x, In x (pending_of (step w a) c) ->
                 match fst x with
                 | WTrialStatus _ _ _ _ _ =>
                     c = CTrial /\ (In x (p_trial w) \/ (p_trial w = [] /\ exists key resp dberr, a = Begin CTrial key resp dberr /\ In x (plan_trial w key dberr)))
                 | _ => True end).
  { intros c x Hx. destruct x as [wr onf]. cbn [fst]. destruct wr; auto.
    destruct (step_pending2 _ _ _ _ Hx) as [H|(Ep&key&resp&dberr&Ea&H)].
    - pose proof (K _ _ H) as Kc. cbn [fst] in Kc. subst c. split; [reflexivity|now left].
    - destruct c.
      + exfalso. pose proof (ek_plan_exp_kinds w) as E. rewrite forallb_forall in E. specialize (E _ H). discriminate.
      + exfalso. destruct (plan_sug_shape _ _ _ H) as (cs0&Hc&[(k&[X|X])|(st&X&_)]); discriminate.
      + split; [reflexivity|right]. split; [exact Ep|]. exists key, resp, dberr. auto. }
  split; [|intros c x Hx; specialize (Kind c x Hx); destruct (fst x); auto; tauto].
  intro c. apply Forall_forall. intros x Hx. pose proof (Kind c x Hx) as Kx.
  destruct x as [wr onf]. unfold muw_ok2. cbn [fst] in *. destruct wr; auto.
  destruct Kx as [-> [H|(Ep&key&resp&dberr&Ea&H)]].
  - assert (Sn : snap_next w a snap = snap).
    { unfold snap_next. destruct a; try reflexivity. destruct c; try reflexivity.
      destruct (p_trial w); [destruct H|reflexivity]. }
    rewrite Sn.
    pose proof (T CTrial) as F. rewrite Forall_forall in F. specialize (F _ H). unfold muw_ok2 in F. cbn [fst] in F.
    pose proof (pending_of_ok w CTrial P) as WO. rewrite Forall_forall in WO. specialize (WO _ H).
    unfold write_ok in WO. cbn [fst] in WO. destruct WO as (t&Ft&Rle&_).
    intros M t' F' Rv.
    destruct (tlag_find _ _ _ _ (ev_trials _ _ Ev) Ft) as (t''&F''&(_&R2&E2&_)). rewrite F' in F''. inversion F''; subst t''.
    assert (Q : t_rv t = t_rv t') by lia. rewrite <- (E2 Q). apply F; [exact M|exact Ft|lia].
  - destruct (plan_trial_mu_pull _ _ _ _ _ _ _ _ _ H NP D) as (->&t&F&->&Mu).
    intros M t' F' Rv.
    destruct (tlag_find _ _ _ _ (i_tlag _ I) F) as (ts&Fs&(_&R1&E1&_)).
    destruct (tlag_find _ _ _ _ (ev_trials _ _ Ev) Fs) as (t2&F2&(_&R2&E2&_)). rewrite F' in F2. inversion F2; subst t2.
    assert (Q1 : t_rv t = t_rv ts) by lia. assert (Q2 : t_rv ts = t_rv t') by lia.
    assert (Gt : tgood t). { rewrite (E1 Q1). exact (inv_trial_good _ _ _ I Fs). }
    rewrite <- (E2 Q2), <- (E1 Q1).
    destruct (Mu Gt M) as [L|R]; [now left|right].
    subst a. unfold snap_next. rewrite Ep. exists (w_db w). split; [reflexivity|exact R].
Qed.

(* ------------------------------------------------------------------ the monitor clause on the model's projections *)

Theorem mu_pull_step_model snap w a :
  Inv w -> MuPInv snap w -> is_teardown a = false ->
  forallb (fun t =>
    match find_pt (pt_name t) (project w) with
    | Some t0 =>
        if pt_is t TMetricsUnavailable && negb (pt_is t0 TMetricsUnavailable) then
          match snap_next w a snap with
          | Some (k, db) => match db_get (pt_name t) db with Some None => true | _ => false end
          | None => false
          end
        else true
    | None => true
    end) (pj_trials (project (step w a))) = true.
Proof.
  intros Iv [T K] NT. pose proof Iv as [I _].
  apply forallb_forall. intros pt Hpt. unfold project in Hpt. cbn [pj_trials] in Hpt.
  apply in_map_iff in Hpt as (t'&<-&It'). fold (ptr t'). rewrite find_pt_project. cbn [pt_name ptr].
  destruct (tgrow_in _ _ _ _ (step_trials w a Iv NT) It') as [(t&It&E)|(n&->)].
  2:{ destruct (find_trial _ _); cbn [option_map]; reflexivity. }
  assert (Same : t_name t' = t_name t -> has_cond (t_conds t') TMetricsUnavailable = has_cond (t_conds t) TMetricsUnavailable ->
          match option_map ptr (find_trial (t_name t') (w_trials w)) with
          | Some t0 => if pt_is (ptr t') TMetricsUnavailable && negb (pt_is t0 TMetricsUnavailable)
                       then match snap_next w a snap with
                            | Some (k, db) => match db_get (t_name t') db with Some None => true | _ => false end
                            | None => false end
                       else true
          | None => true end = true).
  { intros N C. rewrite N, (find_trial_in _ _ t (i_nodup _ I) It eq_refl). cbn [option_map]. unfold pt_is, ptr. cbn [pt_conds].
    rewrite C. now destruct (has_cond (t_conds t) TMetricsUnavailable). }
  destruct E as [t|t t' N Cc Ob Ct|t t' c cs o ct onf Ip N Cc Ob|t t' Nc Cr J N Cc Ob].
  - apply Same; reflexivity.
  - apply Same; [exact N|now rewrite Cc].
  - rewrite N, (find_trial_in _ _ t (i_nodup _ I) It eq_refl). cbn [option_map]. unfold pt_is, ptr. cbn [pt_conds]. rewrite Cc.
    destruct (has_cond cs TMetricsUnavailable) eqn:M; [|reflexivity].
    destruct (has_cond (t_conds t) TMetricsUnavailable) eqn:M0; [reflexivity|]. cbn [negb andb].
    pose proof (T c) as F. rewrite Forall_forall in F. specialize (F _ Ip). unfold muw_ok2 in F. cbn [fst] in F.
    destruct (F M t (find_trial_in _ _ t (i_nodup _ I) It eq_refl) eq_refl) as [L|(db&Es&Nd)]; [congruence|].
    assert (Sn : snap_next w a snap = snap).
    { unfold snap_next. destruct a; try reflexivity. destruct c0; try reflexivity.
      exfalso. pose proof (begin_trials w CTrial key resp dberr) as Bt.
      pose proof (i_nodup _ I) as ND.
      assert (It2 : In t' (w_trials w)) by (rewrite <- Bt; exact It').
      assert (t' = t).
      { pose proof (find_trial_in _ _ t ND It eq_refl) as F1. pose proof (find_trial_in _ _ t' ND It2 eq_refl) as F2.
        rewrite N in F2. rewrite F1 in F2. now inversion F2. }
      subst t'. congruence. }
    rewrite Sn, Es, Nd. reflexivity.
  - apply Same; [exact N|]. rewrite Cc. apply has_cond_snoc_es.
Qed.

Theorem mu_pull_walk_model snap w acts :
  Inv w -> ObInv w -> DbInv w -> c_push (w_cfg w) = false -> MuPInv snap w -> no_teardown acts ->
  mu_pull_walk snap (project w) (msteps w acts) = true.
Proof.
  revert snap w. induction acts as [|a l IH]; intros snap w I O D NP M NT; [reflexivity|].
  apply no_teardown_cons in NT as [Na NT]. cbn [msteps mu_pull_walk]. rewrite snap_next_project.
  apply andb_true_iff. split; [now apply mu_pull_step_model|].
  apply IH; [now apply step_inv|now apply step_ob|now apply step_dbinv|now rewrite step_cfg|now apply step_mup|exact NT].
Qed.

Theorem mu_pull_monitor_sound c acts :
  valid_cfg c -> c_push c = false -> no_teardown acts -> mu_pull_walk None (project (init c)) (msteps (init c) acts) = true.
Proof.
  intros V NP NT. apply mu_pull_walk_model; [now apply Inv_init|apply WorldStab.ObInv_init|apply DbInv_init|exact NP|apply MuPInv_init|exact NT].
Qed.
