(* Uniqueness of assignment names as a consequence of an assumption on the algorithm service's ANSWERS (not on the state
   reached): every successful reply consists of distinct names none of which is in the suggestion the reconcile is looking at
   (katib's services name trials with fresh random suffixes). *)
From KV Require Import Base.Prelude Base.Cond Model.World Proofs.WorldPlan Proofs.WorldInv Proofs.WorldInv2 Proofs.WorldInv4
  Proofs.WorldInv5 Proofs.WorldThm Proofs.WorldQuiet Proofs.WorldSucc Proofs.WorldSugFail Proofs.WorldRestart.
Open Scope Z_scope.

Definition fresh_resp (w : world) (resp : sresp) : Prop :=
  match r_reply resp with
  | ReplyOk names _ =>
      (* only a reply that is asked for counts: the call is made when requests exceed suggestionCount *)
      forall cs, c_sug w = Some cs -> 0 < s_requests cs - ss_count (s_st cs) ->
                 NoDup names /\ forall n, In n names -> ~ In n (ss_names (s_st cs))
  | ReplyErr => True
  end.

Definition fresh_action (w : world) (a : action) : Prop :=
  match a with Begin CSug _ resp _ => fresh_resp w resp | _ => True end.

(* every reply along the run is fresh with respect to the state in which it is given *)
Fixpoint fresh_from (w : world) (acts : list action) : Prop :=
  match acts with [] => True | a :: r => fresh_action w a /\ fresh_from (step w a) r end.

Definition fresh_run (c : cfg) (acts : list action) : Prop := fresh_from (init c) acts.

Record NDInv (w : world) : Prop := {
  nd_sug : forall s, w_sug w = Some s -> NoDup (ss_names (s_st s));
  nd_csug : forall s, c_sug w = Some s -> NoDup (ss_names (s_st s));
  nd_pend : forall c st rv onf, In (WSugStatus st rv, onf) (pending_of w c) -> NoDup (ss_names st) }.

Lemma NoDup_app_disjoint {A} (l m : list A) : NoDup l -> NoDup m -> (forall x, In x m -> ~ In x l) -> NoDup (l ++ m).
Proof.
  intros Hl Hm D. induction Hl as [|a l Na Hl IH]; [exact Hm|]. cbn. constructor.
  - intro I. apply in_app_or in I as [I|I]; [contradiction|]. apply (D a I). now left.
  - apply IH. intros x Ix I. apply (D x Ix). now right.
Qed.

(* the assignment list of a status the suggestion controller plans to write *)
Lemma plan_sug_names w resp st rv onf s :
  In (WSugStatus st rv, onf) (fst (plan_sug w resp)) -> c_sug w = Some s ->
  ss_names st = ss_names (s_st s) \/
  exists names sett, r_reply resp = ReplyOk names sett /\ 0 < s_requests s - ss_count (s_st s) /\ ss_names st = ss_names (s_st s) ++ names.
Proof.
  intros H Hs. destruct (plan_sug_shape _ _ _ H) as (s'&Hs'&[(k&[X|X])|(st'&X&Sh)]); try discriminate.
  rewrite Hs in Hs'. inversion Hs'; subst s'. inversion X; subst st'.
  destruct Sh as [(N&_)|(nm&sett&Rp&_&Pos&N&_)]; [now left|right; eauto].
Qed.

Lemma apply_write_sug_names w wr w1 s1 :
  apply_write w wr = Some w1 -> w_sug w1 = Some s1 ->
  (exists s, w_sug w = Some s /\ s_st s1 = s_st s) \/ (exists rv, wr = WSugStatus (s_st s1) rv) \/ ss_names (s_st s1) = [].
Proof.
  intros A H. destruct wr; cbn [apply_write] in A; repeat aw_cases A w; inversion A; subst; cbn in H;
    try (left; eexists; split; [eassumption|reflexivity]; fail);
    try (inversion H; subst; cbn; eauto; fail).
  all: try (left; rewrite ?Hs in *; eexists; split; [eassumption|reflexivity]).
Qed.

Lemma step_sug_names w a s1 :
  w_sug (step w a) = Some s1 ->
  (exists s, w_sug w = Some s /\ s_st s1 = s_st s) \/
  (exists c rv onf, In (WSugStatus (s_st s1) rv, onf) (pending_of w c)) \/ ss_names (s_st s1) = [].
Proof.
  assert (Same : forall w', w_sug w' = w_sug w -> w_sug w' = Some s1 -> (exists s, w_sug w = Some s /\ s_st s1 = s_st s) \/
              (exists c rv onf, In (WSugStatus (s_st s1) rv, onf) (pending_of w c)) \/ ss_names (s_st s1) = []).
  { intros w' E H. rewrite E in H. left. eauto. }
  destruct a; cbn [step].
  - destruct (pending_of w c); [|apply Same; reflexivity]. destruct c; [|destruct (plan_sug w resp)|]; apply Same; reflexivity.
  - destruct (pending_of w c) as [|[wr onf] rest] eqn:Ep; [apply Same; reflexivity|].
    destruct (if inject_failure then None else apply_write (count_write w) wr) as [w1|] eqn:A; [|apply Same; destruct c; reflexivity].
    destruct inject_failure; [discriminate|]. intro H.
    assert (H1 : w_sug w1 = Some s1) by (destruct c; exact H).
    destruct (apply_write_sug_names _ _ _ _ A H1) as [K|[(rv&->)|K]]; [left; exact K| |auto].
    right. left. exists c, rv, onf. rewrite Ep. now left.
  - apply Same. destruct c; reflexivity.
  - apply Same. reflexivity.
  - apply Same. reflexivity.
  - destruct (find_trial t (w_trials w)), (db_get t (w_db w)); apply Same; reflexivity.
  - destruct (find_trial t (w_trials w)) as [tr|]; [|apply Same; reflexivity]. destruct (_ && _); [|apply Same; reflexivity].
    apply Same. cbn. destruct v, (db_get t (w_db w)); reflexivity.
  - destruct (i_dep (w_infra w)); apply Same; reflexivity.
  - apply Same. reflexivity.
  - apply Same. reflexivity.
  - apply Same. reflexivity.
  - destruct (w_exp w) as [e|]; [|apply Same; reflexivity]. destruct (e_max e); [|apply Same; reflexivity].
    destruct (_ && _ && _); apply Same; reflexivity.
  - destruct (w_exp w) as [e|]; [|apply Same; reflexivity]. destruct (e_fin e); apply Same; reflexivity.
  - destruct (w_exp w), (find_trial t (w_trials w)) as [tr|]; try (apply Same; reflexivity). destruct (t_fin tr); apply Same; reflexivity.
Qed.

Lemma step_pending_resp w a c x :
  In x (pending_of (step w a) c) ->
  In x (pending_of w c) \/ In x (plan_exp w) \/ (exists key resp dberr, a = Begin CSug key resp dberr /\ In x (fst (plan_sug w resp))) \/ (exists key dberr, In x (plan_trial w key dberr)).
Proof.
  assert (Same : forall w', pending_of w' c = pending_of w c -> In x (pending_of w' c) ->
    In x (pending_of w c) \/ In x (plan_exp w) \/ (exists key resp dberr, a = Begin CSug key resp dberr /\ In x (fst (plan_sug w resp))) \/ (exists key dberr, In x (plan_trial w key dberr))).
  { intros w' E H. rewrite E in H. now left. }
  destruct a; cbn [step].
  - destruct (pending_of w c0) eqn:Ep; [|apply Same; reflexivity].
    destruct c0.
    + destruct c; cbn; [intro H; right; left; exact H|apply Same; reflexivity|apply Same; reflexivity].
    + destruct (plan_sug w resp) as [p rpcs] eqn:Ps.
      destruct c; cbn; [apply Same; reflexivity| |apply Same; reflexivity].
      intro H. right. right. left. exists key, resp, dberr. split; [reflexivity|now rewrite Ps].
    + destruct c; cbn; [apply Same; reflexivity|apply Same; reflexivity|]. intro H. do 3 right. eauto.
  - destruct (pending_of w c0) as [|[wr onf] rest] eqn:Ep; [apply Same; reflexivity|].
    destruct (ctl_dec c0 c) as [->|Ne].
    + destruct (if inject_failure then None else apply_write (count_write w) wr) as [w1|] eqn:A;
        rewrite pending_set_same; intro H; left; rewrite Ep; [right; exact H|].
      destruct onf; [destruct H|right; exact H].
    + destruct (if inject_failure then None else apply_write (count_write w) wr) as [w1|] eqn:A;
        rewrite pending_set_other by exact Ne; [|apply Same; destruct c; reflexivity].
      destruct inject_failure; [discriminate|]. destruct (apply_write_side0 _ _ _ A) as (_&_&E). rewrite E. apply Same. destruct c; reflexivity.
  - intro H. left. destruct c0, c; cbn in H; try exact H; destruct H.
  - apply Same. reflexivity.
  - apply Same. reflexivity.
  - destruct (find_trial t (w_trials w)), (db_get t (w_db w)); apply Same; reflexivity.
  - destruct (find_trial t (w_trials w)) as [tr|]; [|apply Same; reflexivity]. destruct (_ && _); [|apply Same; reflexivity].
    apply Same. cbn. destruct v, (db_get t (w_db w)); destruct c; reflexivity.
  - destruct (i_dep (w_infra w)); apply Same; destruct c; reflexivity.
  - apply Same. destruct c; reflexivity.
  - apply Same. destruct c; reflexivity.
  - apply Same. destruct c; reflexivity.
  - destruct (w_exp w) as [e|]; [|apply Same; reflexivity]. destruct (e_max e); [|apply Same; reflexivity].
    destruct (_ && _ && _); apply Same; destruct c; reflexivity.
  - destruct (w_exp w) as [e|]; [|apply Same; reflexivity]. destruct (e_fin e); apply Same; destruct c; reflexivity.
  - destruct (w_exp w), (find_trial t (w_trials w)) as [tr|]; try (apply Same; reflexivity). destruct (t_fin tr); apply Same; destruct c; reflexivity.
Qed.

Lemma step_nd w a : Inv w -> NDInv w -> fresh_action w a -> NDInv (step w a).
Proof.
  intros [I _] [A B C] Fr.
  assert (Bs : forall s, w_sug (step w a) = Some s -> NoDup (ss_names (s_st s))).
  { intros s1 H. destruct (step_sug_names _ _ _ H) as [(s&Hs&E)|[(c&rv&onf&In')|E]].
    - rewrite E. eauto.
    - eauto.
    - rewrite E. constructor. }
  constructor.
  - exact Bs.
  - intros s Hs. destruct (step_csug w a) as [E|E]; rewrite E in Hs; eauto.
  - intros c st rv onf Hx. destruct (step_pending_resp _ _ _ _ Hx) as [H|[H|[(key&resp&dberr&Ea&H)|(key&dberr&H)]]].
    + eauto.
    + destruct (plan_exp_sug_forms _ _ _ _ I H) as (s&Hs&_&[-> | ->]); cbn; eauto.
    + (* the reply of this very reconcile: the action is its Begin *)
      rewrite Ea in Fr. cbn in Fr. rename Fr into FR.
      destruct (plan_sug_shape _ _ _ H) as (cs&Hcs&_).
      destruct (plan_sug_names _ _ _ _ _ cs H Hcs) as [->|(names&sett&Rp&Pos&->)]; [eauto|].
      unfold fresh_resp in FR. rewrite Rp in FR. destruct (FR cs Hcs Pos) as [Nn Dj].
      apply NoDup_app_disjoint; [eauto|exact Nn|]. intros x Ix. exact (Dj x Ix).
    + exfalso. eapply plan_trial_no_sug; eauto.
Qed.

Lemma NDInv_init c : NDInv (init c).
Proof. constructor; cbn; try discriminate. intros [] ? ? ? []. Qed.

Lemma nd_steps acts : forall w, Inv w -> NDInv w -> no_teardown acts -> fresh_from w acts -> NDInv (fold_left step acts w).
Proof.
  induction acts as [|a l IH]; intros w I N NT F; [exact N|].
  apply no_teardown_cons in NT as [Na NT]. destruct F as [Fa F]. cbn.
  apply IH; [now apply step_inv|now apply step_nd|exact NT|exact F].
Qed.

(* C08, "entry names are unique": in every state reached by a history in which every successful reply of the algorithm
   service is fresh (distinct names, none of them already in the suggestion the reconcile looks at), the assignment names of
   the stored suggestion are pairwise distinct. *)
Theorem names_unique c acts s :
  valid_cfg c -> no_teardown acts -> fresh_run c acts -> w_sug (run c acts) = Some s -> NoDup (ss_names (s_st s)).
Proof.
  intros V NT F Hs. exact (nd_sug _ (nd_steps acts (init c) (Inv_init c V) (NDInv_init c) NT F) _ Hs).
Qed.

(* C04 / C16 with the assumption put where it belongs -- on the answers of the algorithm service: every resume policy, every
   history without teardown (raises of maxTrialCount included) whose algorithm replies are fresh: at rest with a finished
   environment the experiment with a budget carries a verdict. *)
Theorem no_wedge_fresh c acts e m :
  valid_cfg c -> no_teardown acts -> fresh_run c acts ->
  quiescent (run c acts) -> env_done (run c acts) ->
  w_exp (run c acts) = Some e -> e_max e = Some m ->
  e_completed (e_st e) = true.
Proof.
  intros V NT F Qu En He Hm. eapply no_wedge_reachable_all; eauto.
  intros s Hs. eapply names_unique; eauto.
Qed.

(* ------------------------------------------------------------------ a boolean test of freshness, for concrete histories *)

Fixpoint nodupb (l : list nat) : bool := match l with [] => true | a :: r => negb (mem a r) && nodupb r end.

Lemma mem_in' n l : mem n l = true <-> In n l.
Proof.
  unfold mem. rewrite existsb_exists. split.
  - intros (x&I&E). apply Nat.eqb_eq in E. now subst.
  - intro I. exists n. split; [exact I|apply Nat.eqb_refl].
Qed.

Lemma nodupb_NoDup l : nodupb l = true -> NoDup l.
Proof.
  induction l as [|a l IH]; cbn; [constructor|]. intro H. apply andb_true_iff in H as [H1 H2]. constructor; [|auto].
  intro I. apply mem_in' in I. rewrite I in H1. discriminate.
Qed.

Definition fresh_actionb (w : world) (a : action) : bool :=
  match a with
  | Begin CSug _ resp _ =>
      match r_reply resp with
      | ReplyOk names _ => match c_sug w with
                           | Some cs => (s_requests cs - ss_count (s_st cs) <=? 0) ||
                                        (nodupb names && forallb (fun n => negb (mem n (ss_names (s_st cs)))) names)
                           | None => true end
      | ReplyErr => true
      end
  | _ => true
  end.

Fixpoint fresh_fromb (w : world) (acts : list action) : bool :=
  match acts with [] => true | a :: r => fresh_actionb w a && fresh_fromb (step w a) r end.

Lemma fresh_actionb_sound w a : fresh_actionb w a = true -> fresh_action w a.
Proof.
  destruct a; cbn; auto. destruct c; auto. unfold fresh_resp. destruct (r_reply resp) as [|names sett]; [auto|].
  intros H cs Hcs Pos. rewrite Hcs in H. apply orb_true_iff in H as [H|H]; [apply Z.leb_le in H; lia|].
  apply andb_true_iff in H as [H1 H2]. split; [now apply nodupb_NoDup|].
  intros n In' I. rewrite forallb_forall in H2. specialize (H2 _ In'). apply negb_true_iff in H2.
  apply mem_in' in I. congruence.
Qed.

Lemma fresh_fromb_sound acts : forall w, fresh_fromb w acts = true -> fresh_from w acts.
Proof.
  induction acts as [|a l IH]; intros w H; [exact I|]. cbn in H. apply andb_true_iff in H as [H1 H2].
  split; [now apply fresh_actionb_sound|now apply IH].
Qed.

From KV Require Import Proofs.F18.

(* the history of the repaired finding F18 (751 actions, a raise of maxTrialCount, an RPC error, stale caches) has fresh replies:
   the premises of no_wedge_fresh are satisfiable *)
Example f18_fresh : fresh_run f18_cfg f18_acts.
Proof. apply fresh_fromb_sound. vm_compute. reflexivity. Qed.
