(* F18: a reachable quiescent state of the joint model in which the experiment has no verdict.  The history is the one of
   corpus/WORLD/f18_stale_restart_cleanup.json (the correspondence check replays it on the real reconcilers, which end in
   the same state): hypothesis "the suggestion is not Succeeded while the experiment has no verdict" of C04_no_wedge is
   therefore needed, and is not an invariant. *)
From KV Require Import Base.Prelude Base.Cond Model.World Proofs.WorldPlan Proofs.WorldInv2 Proofs.WorldInv5 Proofs.WorldQuiet.
Open Scope Z_scope.

Definition f18_cfg : cfg := Build_cfg (Some 1) 1 None None false FromVolume false true false.

Definition f18_acts : list action :=
  [Begin CExp 0%nat (Build_sresp true true ReplyErr true) false;
  Write CExp false;
  Write CExp false;
  Write CExp false;
  Write CExp false;
  Write CExp false;
  Write CExp false;
  SyncExp;
  SyncSug;
  SyncTrials;
  Begin CExp 0%nat (Build_sresp true true ReplyErr true) false;
  Write CExp false;
  Write CExp false;
  Write CExp false;
  Write CExp false;
  Write CExp false;
  Write CExp false;
  SyncExp;
  SyncSug;
  SyncTrials;
  Begin CExp 0%nat (Build_sresp true true ReplyErr true) false;
  Write CExp false;
  Write CExp false;
  Write CExp false;
  Write CExp false;
  Write CExp false;
  Write CExp false;
  SyncExp;
  SyncSug;
  SyncTrials;
  Begin CSug 0%nat (Build_sresp true true (ReplyOk []%nat None) true) false;
  Write CSug false;
  Write CSug false;
  Write CSug false;
  Write CSug false;
  Write CSug false;
  Write CSug false;
  SyncExp;
  SyncSug;
  SyncTrials;
  Begin CSug 0%nat (Build_sresp true true (ReplyOk []%nat None) true) false;
  Write CSug false;
  Write CSug false;
  Write CSug false;
  Write CSug false;
  Write CSug false;
  Write CSug false;
  DeployAvailable true;
  SyncExp;
  SyncSug;
  SyncTrials;
  Begin CSug 0%nat (Build_sresp true true (ReplyOk [1]%nat None) true) false;
  Write CSug false;
  Write CSug false;
  Write CSug false;
  Write CSug false;
  Write CSug false;
  Write CSug false;
  SyncExp;
  SyncSug;
  SyncTrials;
  Begin CExp 0%nat (Build_sresp true true ReplyErr true) false;
  Write CExp false;
  Write CExp false;
  Write CExp false;
  Write CExp false;
  Write CExp false;
  Write CExp false;
  SyncExp;
  SyncSug;
  SyncTrials;
  Begin CTrial 1%nat (Build_sresp true true ReplyErr true) false;
  Write CTrial false;
  Write CTrial false;
  Write CTrial false;
  Write CTrial false;
  Write CTrial false;
  Write CTrial false;
  SyncExp;
  SyncSug;
  SyncTrials;
  Begin CTrial 1%nat (Build_sresp true true ReplyErr true) false;
  Write CTrial false;
  Write CTrial false;
  Write CTrial false;
  Write CTrial false;
  Write CTrial false;
  Write CTrial false;
  SyncExp;
  SyncSug;
  SyncTrials;
  Begin CTrial 1%nat (Build_sresp true true ReplyErr true) false;
  Write CTrial false;
  Write CTrial false;
  Write CTrial false;
  Write CTrial false;
  Write CTrial false;
  Write CTrial false;
  SyncExp;
  SyncSug;
  SyncTrials;
  JobDone 1%nat true;
  Metrics 1%nat (Some 5);
  Begin CTrial 1%nat (Build_sresp true true ReplyErr true) false;
  Write CTrial false;
  Write CTrial false;
  Write CTrial false;
  Write CTrial false;
  Write CTrial false;
  Write CTrial false;
  SyncExp;
  SyncSug;
  SyncTrials;
  Begin CExp 0%nat (Build_sresp true true ReplyErr true) false;
  Write CExp false;
  Write CExp false;
  Write CExp false;
  Write CExp false;
  Write CExp false;
  Write CExp false;
  SyncExp;
  SyncSug;
  SyncTrials;
  Begin CExp 0%nat (Build_sresp true true ReplyErr true) false;
  Write CExp false;
  Write CExp false;
  Write CExp false;
  Write CExp false;
  Write CExp false;
  Write CExp false;
  SyncExp;
  SyncSug;
  SyncTrials;
  Begin CSug 0%nat (Build_sresp true true (ReplyOk []%nat None) true) false;
  Write CSug false;
  Write CSug false;
  Write CSug false;
  Write CSug false;
  Write CSug false;
  Write CSug false;
  SyncExp;
  SyncSug;
  SyncTrials;
  UserRaiseMax 2;
  SyncExp;
  SyncSug;
  SyncTrials;
  Begin CExp 0%nat (Build_sresp true true ReplyErr true) false;
  Write CExp false;
  Write CExp false;
  Write CExp false;
  Write CExp false;
  Write CExp false;
  Write CExp false;
  SyncSug;
  SyncTrials;
  Begin CSug 0%nat (Build_sresp true true (ReplyOk []%nat None) true) false;
  Write CSug false;
  Write CSug false;
  Write CSug false;
  Write CSug false;
  Write CSug false;
  Write CSug false;
  DeployAvailable true;
  SyncSug;
  SyncTrials;
  Begin CSug 0%nat (Build_sresp true true ReplyErr true) false;
  Write CSug false;
  Write CSug false;
  Write CSug false;
  Write CSug false;
  Write CSug false;
  Write CSug false;
  SyncSug;
  SyncTrials;
  Begin CExp 0%nat (Build_sresp true true ReplyErr true) false;
  Write CExp false;
  Write CExp false;
  Write CExp false;
  Write CExp false;
  Write CExp false;
  Write CExp false;
  SyncExp;
  SyncSug;
  SyncTrials;
  SyncExp;
  SyncSug;
  SyncTrials;
  Begin CTrial 1%nat (Build_sresp true true ReplyErr true) false;
  Write CTrial false;
  Write CTrial false;
  Write CTrial false;
  Write CTrial false;
  Write CTrial false;
  Write CTrial false;
  Begin CExp 0%nat (Build_sresp true true ReplyErr true) false;
  Write CExp false;
  Write CExp false;
  Write CExp false;
  Write CExp false;
  Write CExp false;
  Write CExp false;
  Begin CSug 0%nat (Build_sresp true true (ReplyOk [2]%nat None) true) false;
  Write CSug false;
  Write CSug false;
  Write CSug false;
  Write CSug false;
  Write CSug false;
  Write CSug false;
  SyncExp;
  SyncSug;
  SyncTrials;
  Begin CTrial 1%nat (Build_sresp true true ReplyErr true) false;
  Write CTrial false;
  Write CTrial false;
  Write CTrial false;
  Write CTrial false;
  Write CTrial false;
  Write CTrial false;
  Begin CExp 0%nat (Build_sresp true true ReplyErr true) false;
  Write CExp false;
  Write CExp false;
  Write CExp false;
  Write CExp false;
  Write CExp false;
  Write CExp false;
  SyncSug;
  SyncTrials;
  Begin CSug 0%nat (Build_sresp true true (ReplyOk []%nat None) true) false;
  Write CSug false;
  Write CSug false;
  Write CSug false;
  Write CSug false;
  Write CSug false;
  Write CSug false;
  DeployAvailable true;
  SyncSug;
  SyncTrials;
  Begin CSug 0%nat (Build_sresp true true ReplyErr true) false;
  Write CSug false;
  Write CSug false;
  Write CSug false;
  Write CSug false;
  Write CSug false;
  Write CSug false;
  SyncSug;
  SyncTrials;
  Begin CExp 0%nat (Build_sresp true true ReplyErr true) false;
  Write CExp false;
  Write CExp false;
  Write CExp false;
  Write CExp false;
  Write CExp false;
  Write CExp false;
  SyncExp;
  SyncSug;
  SyncTrials;
  Begin CExp 0%nat (Build_sresp true true ReplyErr true) false;
  Write CExp false;
  Write CExp false;
  Write CExp false;
  Write CExp false;
  Write CExp false;
  Write CExp false;
  SyncExp;
  SyncSug;
  SyncTrials;
  Begin CSug 0%nat (Build_sresp true true (ReplyOk [2]%nat None) true) false;
  Write CSug false;
  Write CSug false;
  Write CSug false;
  Write CSug false;
  Write CSug false;
  Write CSug false;
  SyncExp;
  SyncSug;
  SyncTrials;
  Begin CTrial 1%nat (Build_sresp true true ReplyErr true) false;
  Write CTrial false;
  Write CTrial false;
  Write CTrial false;
  Write CTrial false;
  Write CTrial false;
  Write CTrial false;
  SyncExp;
  SyncSug;
  SyncTrials;
  Begin CExp 0%nat (Build_sresp true true ReplyErr true) false;
  Write CExp false;
  Write CExp false;
  Write CExp false;
  Write CExp false;
  Write CExp false;
  Write CExp false;
  SyncExp;
  SyncSug;
  SyncTrials;
  Begin CSug 0%nat (Build_sresp true true (ReplyOk [3]%nat None) true) false;
  Write CSug false;
  Write CSug false;
  Write CSug false;
  Write CSug false;
  Write CSug false;
  Write CSug false;
  SyncExp;
  SyncSug;
  SyncTrials;
  Begin CTrial 1%nat (Build_sresp true true ReplyErr true) false;
  Write CTrial false;
  Write CTrial false;
  Write CTrial false;
  Write CTrial false;
  Write CTrial false;
  Write CTrial false;
  SyncExp;
  SyncSug;
  SyncTrials;
  Begin CExp 0%nat (Build_sresp true true ReplyErr true) false;
  Write CExp false;
  Write CExp false;
  Write CExp false;
  Write CExp false;
  Write CExp false;
  Write CExp false;
  SyncExp;
  SyncSug;
  SyncTrials;
  Begin CSug 0%nat (Build_sresp true true (ReplyOk [4]%nat None) true) false;
  Write CSug false;
  Write CSug false;
  Write CSug false;
  Write CSug false;
  Write CSug false;
  Write CSug false;
  SyncExp;
  SyncSug;
  SyncTrials;
  Begin CTrial 1%nat (Build_sresp true true ReplyErr true) false;
  Write CTrial false;
  Write CTrial false;
  Write CTrial false;
  Write CTrial false;
  Write CTrial false;
  Write CTrial false;
  SyncExp;
  SyncSug;
  SyncTrials;
  Begin CExp 0%nat (Build_sresp true true ReplyErr true) false;
  Write CExp false;
  Write CExp false;
  Write CExp false;
  Write CExp false;
  Write CExp false;
  Write CExp false;
  SyncExp;
  SyncSug;
  SyncTrials;
  Begin CSug 0%nat (Build_sresp true true (ReplyOk [5]%nat None) true) false;
  Write CSug false;
  Write CSug false;
  Write CSug false;
  Write CSug false;
  Write CSug false;
  Write CSug false;
  SyncExp;
  SyncSug;
  SyncTrials;
  Begin CTrial 1%nat (Build_sresp true true ReplyErr true) false;
  Write CTrial false;
  Write CTrial false;
  Write CTrial false;
  Write CTrial false;
  Write CTrial false;
  Write CTrial false;
  SyncExp;
  SyncSug;
  SyncTrials].

Definition f18_w : world := Eval vm_compute in run f18_cfg f18_acts.

Lemma f18_reachable : f18_w = run f18_cfg f18_acts.
Proof. vm_compute. reflexivity. Qed.

Lemma f18_quiescent : quiescent f18_w.
Proof.
  split; [repeat split; reflexivity|]. split; [vm_compute; reflexivity|]. split.
  - intro key. unfold plan_trial. change (c_trials f18_w) with (w_trials f18_w).
    destruct (Nat.eqb 1 key) eqn:E.
    + apply Nat.eqb_eq in E. subst key. vm_compute. reflexivity.
    + unfold find_trial, f18_w; cbn [c_trials w_trials find t_name]. rewrite E. reflexivity.
  - intros resp _. destruct resp as [v ev rp er]. vm_compute. reflexivity.
Qed.

Lemma f18_env_done : env_done f18_w.
Proof.
  split; [|split].
  - intros j [<-|[]]. discriminate.
  - intros t [<-|[]]. eexists. split; [reflexivity|]. discriminate.
  - intros s [= <-]. discriminate.
Qed.

(* the experiment of this quiescent, reachable state has maxTrialCount 2, one trial, and no verdict *)
Theorem f18_wedged :
  exists e s, w_exp f18_w = Some e /\ e_max e = Some 2 /\ e_completed (e_st e) = false /\
              w_sug f18_w = Some s /\ NoDup (ss_names (s_st s)) /\ s_is (s_st s) SSucceeded = true /\
              s_requests s = 2 /\ ss_count (s_st s) = 1.
Proof.
  do 2 eexists. split; [reflexivity|]. split; [reflexivity|]. split; [reflexivity|]. split; [reflexivity|].
  split; [repeat constructor; intros []|]. repeat split; reflexivity.
Qed.

(* C04_no_wedge without its "suggestion not Succeeded" hypothesis is false of the model: every other hypothesis holds here. *)
Theorem f18_refutes :
  exists c acts w e m,
    valid_cfg c /\ no_teardown acts /\ w = run c acts /\ Inv w /\ 1 <= c_par (w_cfg w) /\ quiescent w /\ env_done w /\
    w_exp w = Some e /\ e_max e = Some m /\ c_par (w_cfg w) <= m /\
    (forall s, w_sug w = Some s -> NoDup (ss_names (s_st s))) /\
    e_completed (e_st e) = false.
Proof.
  assert (V : valid_cfg f18_cfg) by (repeat split; cbn; lia).
  assert (NT : no_teardown f18_acts) by (vm_compute; reflexivity).
  destruct f18_wedged as (e&s&He&Hm&Hc&Hs&Hn&_).
  exists f18_cfg, f18_acts, f18_w, e, 2.
  split; [exact V|]. split; [exact NT|]. split; [exact f18_reachable|].
  split; [rewrite f18_reachable; now apply Inv_reachable|].
  split; [cbn; lia|]. split; [exact f18_quiescent|]. split; [exact f18_env_done|].
  split; [exact He|]. split; [exact Hm|]. split; [cbn; lia|].
  split; [intros s0 Hs0; rewrite Hs in Hs0; inversion Hs0; subst; exact Hn|exact Hc].
Qed.
